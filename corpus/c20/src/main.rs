#![allow(unused, dead_code, clippy::all)]
use generic_array::typenum::*;
use generic_array::{arr, box_arr, ArrayLength, ConstArrayLength, GenericArray as GA};
use generic_array::functional::FunctionalSequence;
use std::cell::RefCell;
type N<const K: usize> = ConstArrayLength<K>;
thread_local! { static LOG: RefCell<Vec<u32>> = const { RefCell::new(Vec::new()) }; static DROPS: RefCell<Vec<u32>> = const { RefCell::new(Vec::new()) }; }
fn lg(i: u32) -> u32 { LOG.with(|l| l.borrow_mut().push(i)); i.wrapping_mul(2654435761) }
fn ls(i: u32) -> String { LOG.with(|l| l.borrow_mut().push(i)); format!("s{i}") }
#[derive(Debug, PartialEq)] struct D(u32);
impl Drop for D { fn drop(&mut self) { DROPS.with(|d| d.borrow_mut().push(self.0)); } }
fn ld(i: u32) -> D { LOG.with(|l| l.borrow_mut().push(i)); D(i) }
fn take_log() -> Vec<u32> { LOG.with(|l| core::mem::take(&mut *l.borrow_mut())) }
fn take_drops() -> Vec<u32> { DROPS.with(|l| core::mem::take(&mut *l.borrow_mut())) }
fn seq(n: usize) -> Vec<u32> { (0..n as u32).collect() }
macro_rules! ck { ($c:expr, $($t:tt)*) => { if !($c) { return Err(format!($($t)*)); } } }
fn case_list_0() -> Result<(), String> {
    take_log(); let a: GA<u32, N<0>> = arr![]; let log = take_log();
    let nat: [u32; 0] = [];
    ck!(a.as_slice() == &nat[..], "arr! list of 0: contents {:?} differ from the native array literal", &a.as_slice()[..a.len().min(8)]);
    ck!(log == seq(0), "arr! list of 0: element expressions were evaluated in order {:?}, expected 0..0 once each", &log[..log.len().min(12)]);
    take_log(); let b: Box<GA<u32, N<0>>> = box_arr![]; let log = take_log();
    ck!(b.as_slice() == &nat[..], "box_arr! list of 0: contents differ from the native array literal");
    ck!(log == seq(0), "box_arr! list of 0: element expressions were evaluated in order {:?}, expected 0..0 once each", &log[..log.len().min(12)]);
    ck!(*b == a, "box_arr! and arr! with the same arguments differ");
    Ok(())
}
fn case_list_0_trailing() -> Result<(), String> {
    take_log(); let a: GA<u32, N<0>> = arr![,]; let log = take_log();
    let nat: [u32; 0] = [];
    ck!(a.as_slice() == &nat[..], "arr! list of 0: contents {:?} differ from the native array literal", &a.as_slice()[..a.len().min(8)]);
    ck!(log == seq(0), "arr! list of 0: element expressions were evaluated in order {:?}, expected 0..0 once each", &log[..log.len().min(12)]);
    take_log(); let b: Box<GA<u32, N<0>>> = box_arr![,]; let log = take_log();
    ck!(b.as_slice() == &nat[..], "box_arr! list of 0: contents differ from the native array literal");
    ck!(log == seq(0), "box_arr! list of 0: element expressions were evaluated in order {:?}, expected 0..0 once each", &log[..log.len().min(12)]);
    ck!(*b == a, "box_arr! and arr! with the same arguments differ");
    Ok(())
}
fn case_list_noncopy_0() -> Result<(), String> {
    take_log(); let a: GA<String, N<0>> = arr![]; let log = take_log();
    ck!(a.iter().enumerate().all(|(i, s)| *s == format!("s{i}")) && a.len() == 0, "arr! list of 0 Strings: wrong contents");
    ck!(log == seq(0), "arr! list of 0 Strings: evaluation order {:?}", &log[..log.len().min(12)]);
    take_log(); take_drops();
    { let d: GA<D, N<0>> = arr![]; ck!(take_drops().is_empty(), "arr! list of 0: an element was dropped while the array is alive");
      ck!(d.iter().enumerate().all(|(i, x)| x.0 == i as u32), "arr! list of 0 drop-tracked elements: wrong contents"); }
    let mut dr = take_drops(); dr.sort(); ck!(dr == seq(0), "arr! list of 0: drop counts after the array is gone: {:?}", &dr[..dr.len().min(12)]);
    take_log(); take_drops();
    { let d: Box<GA<D, N<0>>> = box_arr![]; ck!(take_drops().is_empty(), "box_arr! list of 0: an element was dropped while the box is alive");
      ck!(d.iter().enumerate().all(|(i, x)| x.0 == i as u32), "box_arr! list of 0 drop-tracked elements: wrong contents"); ck!(take_log() == seq(0), "box_arr! list of 0: evaluation order"); }
    let mut dr = take_drops(); dr.sort(); ck!(dr == seq(0), "box_arr! list of 0: drop counts after the box is gone: {:?}", &dr[..dr.len().min(12)]);
    Ok(())
}
const CL_0: GA<u8, N<0>> = arr![];
static SL_0: GA<u8, N<0>> = arr![];
const fn cfl_0() -> GA<u8, N<0>> { arr![] }
fn case_list_const_0() -> Result<(), String> {
    let nat: [u8; 0] = [];
    ck!(CL_0.as_slice() == &nat[..] && SL_0.as_slice() == &nat[..] && cfl_0().as_slice() == &nat[..], "arr! list of 0 in const / static / const fn position differs from the native literal");
    Ok(())
}
fn case_list_1() -> Result<(), String> {
    take_log(); let a: GA<u32, N<1>> = arr![lg(0)]; let log = take_log();
    let nat: [u32; 1] = [0u32.wrapping_mul(2654435761)];
    ck!(a.as_slice() == &nat[..], "arr! list of 1: contents {:?} differ from the native array literal", &a.as_slice()[..a.len().min(8)]);
    ck!(log == seq(1), "arr! list of 1: element expressions were evaluated in order {:?}, expected 0..1 once each", &log[..log.len().min(12)]);
    take_log(); let b: Box<GA<u32, N<1>>> = box_arr![lg(0)]; let log = take_log();
    ck!(b.as_slice() == &nat[..], "box_arr! list of 1: contents differ from the native array literal");
    ck!(log == seq(1), "box_arr! list of 1: element expressions were evaluated in order {:?}, expected 0..1 once each", &log[..log.len().min(12)]);
    ck!(*b == a, "box_arr! and arr! with the same arguments differ");
    Ok(())
}
fn case_list_1_trailing() -> Result<(), String> {
    take_log(); let a: GA<u32, N<1>> = arr![lg(0),]; let log = take_log();
    let nat: [u32; 1] = [0u32.wrapping_mul(2654435761)];
    ck!(a.as_slice() == &nat[..], "arr! list of 1: contents {:?} differ from the native array literal", &a.as_slice()[..a.len().min(8)]);
    ck!(log == seq(1), "arr! list of 1: element expressions were evaluated in order {:?}, expected 0..1 once each", &log[..log.len().min(12)]);
    take_log(); let b: Box<GA<u32, N<1>>> = box_arr![lg(0),]; let log = take_log();
    ck!(b.as_slice() == &nat[..], "box_arr! list of 1: contents differ from the native array literal");
    ck!(log == seq(1), "box_arr! list of 1: element expressions were evaluated in order {:?}, expected 0..1 once each", &log[..log.len().min(12)]);
    ck!(*b == a, "box_arr! and arr! with the same arguments differ");
    Ok(())
}
fn case_list_noncopy_1() -> Result<(), String> {
    take_log(); let a: GA<String, N<1>> = arr![ls(0)]; let log = take_log();
    ck!(a.iter().enumerate().all(|(i, s)| *s == format!("s{i}")) && a.len() == 1, "arr! list of 1 Strings: wrong contents");
    ck!(log == seq(1), "arr! list of 1 Strings: evaluation order {:?}", &log[..log.len().min(12)]);
    take_log(); take_drops();
    { let d: GA<D, N<1>> = arr![ld(0)]; ck!(take_drops().is_empty(), "arr! list of 1: an element was dropped while the array is alive");
      ck!(d.iter().enumerate().all(|(i, x)| x.0 == i as u32), "arr! list of 1 drop-tracked elements: wrong contents"); }
    let mut dr = take_drops(); dr.sort(); ck!(dr == seq(1), "arr! list of 1: drop counts after the array is gone: {:?}", &dr[..dr.len().min(12)]);
    take_log(); take_drops();
    { let d: Box<GA<D, N<1>>> = box_arr![ld(0)]; ck!(take_drops().is_empty(), "box_arr! list of 1: an element was dropped while the box is alive");
      ck!(d.iter().enumerate().all(|(i, x)| x.0 == i as u32), "box_arr! list of 1 drop-tracked elements: wrong contents"); ck!(take_log() == seq(1), "box_arr! list of 1: evaluation order"); }
    let mut dr = take_drops(); dr.sort(); ck!(dr == seq(1), "box_arr! list of 1: drop counts after the box is gone: {:?}", &dr[..dr.len().min(12)]);
    Ok(())
}
const CL_1: GA<u8, N<1>> = arr![1u8];
static SL_1: GA<u8, N<1>> = arr![1u8,];
const fn cfl_1() -> GA<u8, N<1>> { arr![1u8] }
fn case_list_const_1() -> Result<(), String> {
    let nat: [u8; 1] = [1u8];
    ck!(CL_1.as_slice() == &nat[..] && SL_1.as_slice() == &nat[..] && cfl_1().as_slice() == &nat[..], "arr! list of 1 in const / static / const fn position differs from the native literal");
    Ok(())
}
fn case_list_2() -> Result<(), String> {
    take_log(); let a: GA<u32, N<2>> = arr![lg(0), lg(1)]; let log = take_log();
    let nat: [u32; 2] = [0u32.wrapping_mul(2654435761), 1u32.wrapping_mul(2654435761)];
    ck!(a.as_slice() == &nat[..], "arr! list of 2: contents {:?} differ from the native array literal", &a.as_slice()[..a.len().min(8)]);
    ck!(log == seq(2), "arr! list of 2: element expressions were evaluated in order {:?}, expected 0..2 once each", &log[..log.len().min(12)]);
    take_log(); let b: Box<GA<u32, N<2>>> = box_arr![lg(0), lg(1)]; let log = take_log();
    ck!(b.as_slice() == &nat[..], "box_arr! list of 2: contents differ from the native array literal");
    ck!(log == seq(2), "box_arr! list of 2: element expressions were evaluated in order {:?}, expected 0..2 once each", &log[..log.len().min(12)]);
    ck!(*b == a, "box_arr! and arr! with the same arguments differ");
    Ok(())
}
fn case_list_2_trailing() -> Result<(), String> {
    take_log(); let a: GA<u32, N<2>> = arr![lg(0), lg(1),]; let log = take_log();
    let nat: [u32; 2] = [0u32.wrapping_mul(2654435761), 1u32.wrapping_mul(2654435761)];
    ck!(a.as_slice() == &nat[..], "arr! list of 2: contents {:?} differ from the native array literal", &a.as_slice()[..a.len().min(8)]);
    ck!(log == seq(2), "arr! list of 2: element expressions were evaluated in order {:?}, expected 0..2 once each", &log[..log.len().min(12)]);
    take_log(); let b: Box<GA<u32, N<2>>> = box_arr![lg(0), lg(1),]; let log = take_log();
    ck!(b.as_slice() == &nat[..], "box_arr! list of 2: contents differ from the native array literal");
    ck!(log == seq(2), "box_arr! list of 2: element expressions were evaluated in order {:?}, expected 0..2 once each", &log[..log.len().min(12)]);
    ck!(*b == a, "box_arr! and arr! with the same arguments differ");
    Ok(())
}
fn case_list_noncopy_2() -> Result<(), String> {
    take_log(); let a: GA<String, N<2>> = arr![ls(0), ls(1)]; let log = take_log();
    ck!(a.iter().enumerate().all(|(i, s)| *s == format!("s{i}")) && a.len() == 2, "arr! list of 2 Strings: wrong contents");
    ck!(log == seq(2), "arr! list of 2 Strings: evaluation order {:?}", &log[..log.len().min(12)]);
    take_log(); take_drops();
    { let d: GA<D, N<2>> = arr![ld(0), ld(1)]; ck!(take_drops().is_empty(), "arr! list of 2: an element was dropped while the array is alive");
      ck!(d.iter().enumerate().all(|(i, x)| x.0 == i as u32), "arr! list of 2 drop-tracked elements: wrong contents"); }
    let mut dr = take_drops(); dr.sort(); ck!(dr == seq(2), "arr! list of 2: drop counts after the array is gone: {:?}", &dr[..dr.len().min(12)]);
    take_log(); take_drops();
    { let d: Box<GA<D, N<2>>> = box_arr![ld(0), ld(1)]; ck!(take_drops().is_empty(), "box_arr! list of 2: an element was dropped while the box is alive");
      ck!(d.iter().enumerate().all(|(i, x)| x.0 == i as u32), "box_arr! list of 2 drop-tracked elements: wrong contents"); ck!(take_log() == seq(2), "box_arr! list of 2: evaluation order"); }
    let mut dr = take_drops(); dr.sort(); ck!(dr == seq(2), "box_arr! list of 2: drop counts after the box is gone: {:?}", &dr[..dr.len().min(12)]);
    Ok(())
}
const CL_2: GA<u8, N<2>> = arr![1u8, 6u8];
static SL_2: GA<u8, N<2>> = arr![1u8, 6u8,];
const fn cfl_2() -> GA<u8, N<2>> { arr![1u8, 6u8] }
fn case_list_const_2() -> Result<(), String> {
    let nat: [u8; 2] = [1u8, 6u8];
    ck!(CL_2.as_slice() == &nat[..] && SL_2.as_slice() == &nat[..] && cfl_2().as_slice() == &nat[..], "arr! list of 2 in const / static / const fn position differs from the native literal");
    Ok(())
}
fn case_list_3() -> Result<(), String> {
    take_log(); let a: GA<u32, N<3>> = arr![lg(0), lg(1), lg(2)]; let log = take_log();
    let nat: [u32; 3] = [0u32.wrapping_mul(2654435761), 1u32.wrapping_mul(2654435761), 2u32.wrapping_mul(2654435761)];
    ck!(a.as_slice() == &nat[..], "arr! list of 3: contents {:?} differ from the native array literal", &a.as_slice()[..a.len().min(8)]);
    ck!(log == seq(3), "arr! list of 3: element expressions were evaluated in order {:?}, expected 0..3 once each", &log[..log.len().min(12)]);
    take_log(); let b: Box<GA<u32, N<3>>> = box_arr![lg(0), lg(1), lg(2)]; let log = take_log();
    ck!(b.as_slice() == &nat[..], "box_arr! list of 3: contents differ from the native array literal");
    ck!(log == seq(3), "box_arr! list of 3: element expressions were evaluated in order {:?}, expected 0..3 once each", &log[..log.len().min(12)]);
    ck!(*b == a, "box_arr! and arr! with the same arguments differ");
    Ok(())
}
fn case_list_3_trailing() -> Result<(), String> {
    take_log(); let a: GA<u32, N<3>> = arr![lg(0), lg(1), lg(2),]; let log = take_log();
    let nat: [u32; 3] = [0u32.wrapping_mul(2654435761), 1u32.wrapping_mul(2654435761), 2u32.wrapping_mul(2654435761)];
    ck!(a.as_slice() == &nat[..], "arr! list of 3: contents {:?} differ from the native array literal", &a.as_slice()[..a.len().min(8)]);
    ck!(log == seq(3), "arr! list of 3: element expressions were evaluated in order {:?}, expected 0..3 once each", &log[..log.len().min(12)]);
    take_log(); let b: Box<GA<u32, N<3>>> = box_arr![lg(0), lg(1), lg(2),]; let log = take_log();
    ck!(b.as_slice() == &nat[..], "box_arr! list of 3: contents differ from the native array literal");
    ck!(log == seq(3), "box_arr! list of 3: element expressions were evaluated in order {:?}, expected 0..3 once each", &log[..log.len().min(12)]);
    ck!(*b == a, "box_arr! and arr! with the same arguments differ");
    Ok(())
}
fn case_list_noncopy_3() -> Result<(), String> {
    take_log(); let a: GA<String, N<3>> = arr![ls(0), ls(1), ls(2)]; let log = take_log();
    ck!(a.iter().enumerate().all(|(i, s)| *s == format!("s{i}")) && a.len() == 3, "arr! list of 3 Strings: wrong contents");
    ck!(log == seq(3), "arr! list of 3 Strings: evaluation order {:?}", &log[..log.len().min(12)]);
    take_log(); take_drops();
    { let d: GA<D, N<3>> = arr![ld(0), ld(1), ld(2)]; ck!(take_drops().is_empty(), "arr! list of 3: an element was dropped while the array is alive");
      ck!(d.iter().enumerate().all(|(i, x)| x.0 == i as u32), "arr! list of 3 drop-tracked elements: wrong contents"); }
    let mut dr = take_drops(); dr.sort(); ck!(dr == seq(3), "arr! list of 3: drop counts after the array is gone: {:?}", &dr[..dr.len().min(12)]);
    take_log(); take_drops();
    { let d: Box<GA<D, N<3>>> = box_arr![ld(0), ld(1), ld(2)]; ck!(take_drops().is_empty(), "box_arr! list of 3: an element was dropped while the box is alive");
      ck!(d.iter().enumerate().all(|(i, x)| x.0 == i as u32), "box_arr! list of 3 drop-tracked elements: wrong contents"); ck!(take_log() == seq(3), "box_arr! list of 3: evaluation order"); }
    let mut dr = take_drops(); dr.sort(); ck!(dr == seq(3), "box_arr! list of 3: drop counts after the box is gone: {:?}", &dr[..dr.len().min(12)]);
    Ok(())
}
const CL_3: GA<u8, N<3>> = arr![1u8, 6u8, 11u8];
static SL_3: GA<u8, N<3>> = arr![1u8, 6u8, 11u8,];
const fn cfl_3() -> GA<u8, N<3>> { arr![1u8, 6u8, 11u8] }
fn case_list_const_3() -> Result<(), String> {
    let nat: [u8; 3] = [1u8, 6u8, 11u8];
    ck!(CL_3.as_slice() == &nat[..] && SL_3.as_slice() == &nat[..] && cfl_3().as_slice() == &nat[..], "arr! list of 3 in const / static / const fn position differs from the native literal");
    Ok(())
}
fn case_list_4() -> Result<(), String> {
    take_log(); let a: GA<u32, N<4>> = arr![lg(0), lg(1), lg(2), lg(3)]; let log = take_log();
    let nat: [u32; 4] = [0u32.wrapping_mul(2654435761), 1u32.wrapping_mul(2654435761), 2u32.wrapping_mul(2654435761), 3u32.wrapping_mul(2654435761)];
    ck!(a.as_slice() == &nat[..], "arr! list of 4: contents {:?} differ from the native array literal", &a.as_slice()[..a.len().min(8)]);
    ck!(log == seq(4), "arr! list of 4: element expressions were evaluated in order {:?}, expected 0..4 once each", &log[..log.len().min(12)]);
    take_log(); let b: Box<GA<u32, N<4>>> = box_arr![lg(0), lg(1), lg(2), lg(3)]; let log = take_log();
    ck!(b.as_slice() == &nat[..], "box_arr! list of 4: contents differ from the native array literal");
    ck!(log == seq(4), "box_arr! list of 4: element expressions were evaluated in order {:?}, expected 0..4 once each", &log[..log.len().min(12)]);
    ck!(*b == a, "box_arr! and arr! with the same arguments differ");
    Ok(())
}
fn case_list_4_trailing() -> Result<(), String> {
    take_log(); let a: GA<u32, N<4>> = arr![lg(0), lg(1), lg(2), lg(3),]; let log = take_log();
    let nat: [u32; 4] = [0u32.wrapping_mul(2654435761), 1u32.wrapping_mul(2654435761), 2u32.wrapping_mul(2654435761), 3u32.wrapping_mul(2654435761)];
    ck!(a.as_slice() == &nat[..], "arr! list of 4: contents {:?} differ from the native array literal", &a.as_slice()[..a.len().min(8)]);
    ck!(log == seq(4), "arr! list of 4: element expressions were evaluated in order {:?}, expected 0..4 once each", &log[..log.len().min(12)]);
    take_log(); let b: Box<GA<u32, N<4>>> = box_arr![lg(0), lg(1), lg(2), lg(3),]; let log = take_log();
    ck!(b.as_slice() == &nat[..], "box_arr! list of 4: contents differ from the native array literal");
    ck!(log == seq(4), "box_arr! list of 4: element expressions were evaluated in order {:?}, expected 0..4 once each", &log[..log.len().min(12)]);
    ck!(*b == a, "box_arr! and arr! with the same arguments differ");
    Ok(())
}
fn case_list_noncopy_4() -> Result<(), String> {
    take_log(); let a: GA<String, N<4>> = arr![ls(0), ls(1), ls(2), ls(3)]; let log = take_log();
    ck!(a.iter().enumerate().all(|(i, s)| *s == format!("s{i}")) && a.len() == 4, "arr! list of 4 Strings: wrong contents");
    ck!(log == seq(4), "arr! list of 4 Strings: evaluation order {:?}", &log[..log.len().min(12)]);
    take_log(); take_drops();
    { let d: GA<D, N<4>> = arr![ld(0), ld(1), ld(2), ld(3)]; ck!(take_drops().is_empty(), "arr! list of 4: an element was dropped while the array is alive");
      ck!(d.iter().enumerate().all(|(i, x)| x.0 == i as u32), "arr! list of 4 drop-tracked elements: wrong contents"); }
    let mut dr = take_drops(); dr.sort(); ck!(dr == seq(4), "arr! list of 4: drop counts after the array is gone: {:?}", &dr[..dr.len().min(12)]);
    take_log(); take_drops();
    { let d: Box<GA<D, N<4>>> = box_arr![ld(0), ld(1), ld(2), ld(3)]; ck!(take_drops().is_empty(), "box_arr! list of 4: an element was dropped while the box is alive");
      ck!(d.iter().enumerate().all(|(i, x)| x.0 == i as u32), "box_arr! list of 4 drop-tracked elements: wrong contents"); ck!(take_log() == seq(4), "box_arr! list of 4: evaluation order"); }
    let mut dr = take_drops(); dr.sort(); ck!(dr == seq(4), "box_arr! list of 4: drop counts after the box is gone: {:?}", &dr[..dr.len().min(12)]);
    Ok(())
}
const CL_4: GA<u8, N<4>> = arr![1u8, 6u8, 11u8, 16u8];
static SL_4: GA<u8, N<4>> = arr![1u8, 6u8, 11u8, 16u8,];
const fn cfl_4() -> GA<u8, N<4>> { arr![1u8, 6u8, 11u8, 16u8] }
fn case_list_const_4() -> Result<(), String> {
    let nat: [u8; 4] = [1u8, 6u8, 11u8, 16u8];
    ck!(CL_4.as_slice() == &nat[..] && SL_4.as_slice() == &nat[..] && cfl_4().as_slice() == &nat[..], "arr! list of 4 in const / static / const fn position differs from the native literal");
    Ok(())
}
fn case_list_5() -> Result<(), String> {
    take_log(); let a: GA<u32, N<5>> = arr![lg(0), lg(1), lg(2), lg(3), lg(4)]; let log = take_log();
    let nat: [u32; 5] = [0u32.wrapping_mul(2654435761), 1u32.wrapping_mul(2654435761), 2u32.wrapping_mul(2654435761), 3u32.wrapping_mul(2654435761), 4u32.wrapping_mul(2654435761)];
    ck!(a.as_slice() == &nat[..], "arr! list of 5: contents {:?} differ from the native array literal", &a.as_slice()[..a.len().min(8)]);
    ck!(log == seq(5), "arr! list of 5: element expressions were evaluated in order {:?}, expected 0..5 once each", &log[..log.len().min(12)]);
    take_log(); let b: Box<GA<u32, N<5>>> = box_arr![lg(0), lg(1), lg(2), lg(3), lg(4)]; let log = take_log();
    ck!(b.as_slice() == &nat[..], "box_arr! list of 5: contents differ from the native array literal");
    ck!(log == seq(5), "box_arr! list of 5: element expressions were evaluated in order {:?}, expected 0..5 once each", &log[..log.len().min(12)]);
    ck!(*b == a, "box_arr! and arr! with the same arguments differ");
    Ok(())
}
fn case_list_5_trailing() -> Result<(), String> {
    take_log(); let a: GA<u32, N<5>> = arr![lg(0), lg(1), lg(2), lg(3), lg(4),]; let log = take_log();
    let nat: [u32; 5] = [0u32.wrapping_mul(2654435761), 1u32.wrapping_mul(2654435761), 2u32.wrapping_mul(2654435761), 3u32.wrapping_mul(2654435761), 4u32.wrapping_mul(2654435761)];
    ck!(a.as_slice() == &nat[..], "arr! list of 5: contents {:?} differ from the native array literal", &a.as_slice()[..a.len().min(8)]);
    ck!(log == seq(5), "arr! list of 5: element expressions were evaluated in order {:?}, expected 0..5 once each", &log[..log.len().min(12)]);
    take_log(); let b: Box<GA<u32, N<5>>> = box_arr![lg(0), lg(1), lg(2), lg(3), lg(4),]; let log = take_log();
    ck!(b.as_slice() == &nat[..], "box_arr! list of 5: contents differ from the native array literal");
    ck!(log == seq(5), "box_arr! list of 5: element expressions were evaluated in order {:?}, expected 0..5 once each", &log[..log.len().min(12)]);
    ck!(*b == a, "box_arr! and arr! with the same arguments differ");
    Ok(())
}
fn case_list_noncopy_5() -> Result<(), String> {
    take_log(); let a: GA<String, N<5>> = arr![ls(0), ls(1), ls(2), ls(3), ls(4)]; let log = take_log();
    ck!(a.iter().enumerate().all(|(i, s)| *s == format!("s{i}")) && a.len() == 5, "arr! list of 5 Strings: wrong contents");
    ck!(log == seq(5), "arr! list of 5 Strings: evaluation order {:?}", &log[..log.len().min(12)]);
    take_log(); take_drops();
    { let d: GA<D, N<5>> = arr![ld(0), ld(1), ld(2), ld(3), ld(4)]; ck!(take_drops().is_empty(), "arr! list of 5: an element was dropped while the array is alive");
      ck!(d.iter().enumerate().all(|(i, x)| x.0 == i as u32), "arr! list of 5 drop-tracked elements: wrong contents"); }
    let mut dr = take_drops(); dr.sort(); ck!(dr == seq(5), "arr! list of 5: drop counts after the array is gone: {:?}", &dr[..dr.len().min(12)]);
    take_log(); take_drops();
    { let d: Box<GA<D, N<5>>> = box_arr![ld(0), ld(1), ld(2), ld(3), ld(4)]; ck!(take_drops().is_empty(), "box_arr! list of 5: an element was dropped while the box is alive");
      ck!(d.iter().enumerate().all(|(i, x)| x.0 == i as u32), "box_arr! list of 5 drop-tracked elements: wrong contents"); ck!(take_log() == seq(5), "box_arr! list of 5: evaluation order"); }
    let mut dr = take_drops(); dr.sort(); ck!(dr == seq(5), "box_arr! list of 5: drop counts after the box is gone: {:?}", &dr[..dr.len().min(12)]);
    Ok(())
}
const CL_5: GA<u8, N<5>> = arr![1u8, 6u8, 11u8, 16u8, 21u8];
static SL_5: GA<u8, N<5>> = arr![1u8, 6u8, 11u8, 16u8, 21u8,];
const fn cfl_5() -> GA<u8, N<5>> { arr![1u8, 6u8, 11u8, 16u8, 21u8] }
fn case_list_const_5() -> Result<(), String> {
    let nat: [u8; 5] = [1u8, 6u8, 11u8, 16u8, 21u8];
    ck!(CL_5.as_slice() == &nat[..] && SL_5.as_slice() == &nat[..] && cfl_5().as_slice() == &nat[..], "arr! list of 5 in const / static / const fn position differs from the native literal");
    Ok(())
}
fn case_list_6() -> Result<(), String> {
    take_log(); let a: GA<u32, N<6>> = arr![lg(0), lg(1), lg(2), lg(3), lg(4), lg(5)]; let log = take_log();
    let nat: [u32; 6] = [0u32.wrapping_mul(2654435761), 1u32.wrapping_mul(2654435761), 2u32.wrapping_mul(2654435761), 3u32.wrapping_mul(2654435761), 4u32.wrapping_mul(2654435761), 5u32.wrapping_mul(2654435761)];
    ck!(a.as_slice() == &nat[..], "arr! list of 6: contents {:?} differ from the native array literal", &a.as_slice()[..a.len().min(8)]);
    ck!(log == seq(6), "arr! list of 6: element expressions were evaluated in order {:?}, expected 0..6 once each", &log[..log.len().min(12)]);
    take_log(); let b: Box<GA<u32, N<6>>> = box_arr![lg(0), lg(1), lg(2), lg(3), lg(4), lg(5)]; let log = take_log();
    ck!(b.as_slice() == &nat[..], "box_arr! list of 6: contents differ from the native array literal");
    ck!(log == seq(6), "box_arr! list of 6: element expressions were evaluated in order {:?}, expected 0..6 once each", &log[..log.len().min(12)]);
    ck!(*b == a, "box_arr! and arr! with the same arguments differ");
    Ok(())
}
fn case_list_6_trailing() -> Result<(), String> {
    take_log(); let a: GA<u32, N<6>> = arr![lg(0), lg(1), lg(2), lg(3), lg(4), lg(5),]; let log = take_log();
    let nat: [u32; 6] = [0u32.wrapping_mul(2654435761), 1u32.wrapping_mul(2654435761), 2u32.wrapping_mul(2654435761), 3u32.wrapping_mul(2654435761), 4u32.wrapping_mul(2654435761), 5u32.wrapping_mul(2654435761)];
    ck!(a.as_slice() == &nat[..], "arr! list of 6: contents {:?} differ from the native array literal", &a.as_slice()[..a.len().min(8)]);
    ck!(log == seq(6), "arr! list of 6: element expressions were evaluated in order {:?}, expected 0..6 once each", &log[..log.len().min(12)]);
    take_log(); let b: Box<GA<u32, N<6>>> = box_arr![lg(0), lg(1), lg(2), lg(3), lg(4), lg(5),]; let log = take_log();
    ck!(b.as_slice() == &nat[..], "box_arr! list of 6: contents differ from the native array literal");
    ck!(log == seq(6), "box_arr! list of 6: element expressions were evaluated in order {:?}, expected 0..6 once each", &log[..log.len().min(12)]);
    ck!(*b == a, "box_arr! and arr! with the same arguments differ");
    Ok(())
}
fn case_list_noncopy_6() -> Result<(), String> {
    take_log(); let a: GA<String, N<6>> = arr![ls(0), ls(1), ls(2), ls(3), ls(4), ls(5)]; let log = take_log();
    ck!(a.iter().enumerate().all(|(i, s)| *s == format!("s{i}")) && a.len() == 6, "arr! list of 6 Strings: wrong contents");
    ck!(log == seq(6), "arr! list of 6 Strings: evaluation order {:?}", &log[..log.len().min(12)]);
    take_log(); take_drops();
    { let d: GA<D, N<6>> = arr![ld(0), ld(1), ld(2), ld(3), ld(4), ld(5)]; ck!(take_drops().is_empty(), "arr! list of 6: an element was dropped while the array is alive");
      ck!(d.iter().enumerate().all(|(i, x)| x.0 == i as u32), "arr! list of 6 drop-tracked elements: wrong contents"); }
    let mut dr = take_drops(); dr.sort(); ck!(dr == seq(6), "arr! list of 6: drop counts after the array is gone: {:?}", &dr[..dr.len().min(12)]);
    take_log(); take_drops();
    { let d: Box<GA<D, N<6>>> = box_arr![ld(0), ld(1), ld(2), ld(3), ld(4), ld(5)]; ck!(take_drops().is_empty(), "box_arr! list of 6: an element was dropped while the box is alive");
      ck!(d.iter().enumerate().all(|(i, x)| x.0 == i as u32), "box_arr! list of 6 drop-tracked elements: wrong contents"); ck!(take_log() == seq(6), "box_arr! list of 6: evaluation order"); }
    let mut dr = take_drops(); dr.sort(); ck!(dr == seq(6), "box_arr! list of 6: drop counts after the box is gone: {:?}", &dr[..dr.len().min(12)]);
    Ok(())
}
const CL_6: GA<u8, N<6>> = arr![1u8, 6u8, 11u8, 16u8, 21u8, 26u8];
static SL_6: GA<u8, N<6>> = arr![1u8, 6u8, 11u8, 16u8, 21u8, 26u8,];
const fn cfl_6() -> GA<u8, N<6>> { arr![1u8, 6u8, 11u8, 16u8, 21u8, 26u8] }
fn case_list_const_6() -> Result<(), String> {
    let nat: [u8; 6] = [1u8, 6u8, 11u8, 16u8, 21u8, 26u8];
    ck!(CL_6.as_slice() == &nat[..] && SL_6.as_slice() == &nat[..] && cfl_6().as_slice() == &nat[..], "arr! list of 6 in const / static / const fn position differs from the native literal");
    Ok(())
}
fn case_list_7() -> Result<(), String> {
    take_log(); let a: GA<u32, N<7>> = arr![lg(0), lg(1), lg(2), lg(3), lg(4), lg(5), lg(6)]; let log = take_log();
    let nat: [u32; 7] = [0u32.wrapping_mul(2654435761), 1u32.wrapping_mul(2654435761), 2u32.wrapping_mul(2654435761), 3u32.wrapping_mul(2654435761), 4u32.wrapping_mul(2654435761), 5u32.wrapping_mul(2654435761), 6u32.wrapping_mul(2654435761)];
    ck!(a.as_slice() == &nat[..], "arr! list of 7: contents {:?} differ from the native array literal", &a.as_slice()[..a.len().min(8)]);
    ck!(log == seq(7), "arr! list of 7: element expressions were evaluated in order {:?}, expected 0..7 once each", &log[..log.len().min(12)]);
    take_log(); let b: Box<GA<u32, N<7>>> = box_arr![lg(0), lg(1), lg(2), lg(3), lg(4), lg(5), lg(6)]; let log = take_log();
    ck!(b.as_slice() == &nat[..], "box_arr! list of 7: contents differ from the native array literal");
    ck!(log == seq(7), "box_arr! list of 7: element expressions were evaluated in order {:?}, expected 0..7 once each", &log[..log.len().min(12)]);
    ck!(*b == a, "box_arr! and arr! with the same arguments differ");
    Ok(())
}
fn case_list_7_trailing() -> Result<(), String> {
    take_log(); let a: GA<u32, N<7>> = arr![lg(0), lg(1), lg(2), lg(3), lg(4), lg(5), lg(6),]; let log = take_log();
    let nat: [u32; 7] = [0u32.wrapping_mul(2654435761), 1u32.wrapping_mul(2654435761), 2u32.wrapping_mul(2654435761), 3u32.wrapping_mul(2654435761), 4u32.wrapping_mul(2654435761), 5u32.wrapping_mul(2654435761), 6u32.wrapping_mul(2654435761)];
    ck!(a.as_slice() == &nat[..], "arr! list of 7: contents {:?} differ from the native array literal", &a.as_slice()[..a.len().min(8)]);
    ck!(log == seq(7), "arr! list of 7: element expressions were evaluated in order {:?}, expected 0..7 once each", &log[..log.len().min(12)]);
    take_log(); let b: Box<GA<u32, N<7>>> = box_arr![lg(0), lg(1), lg(2), lg(3), lg(4), lg(5), lg(6),]; let log = take_log();
    ck!(b.as_slice() == &nat[..], "box_arr! list of 7: contents differ from the native array literal");
    ck!(log == seq(7), "box_arr! list of 7: element expressions were evaluated in order {:?}, expected 0..7 once each", &log[..log.len().min(12)]);
    ck!(*b == a, "box_arr! and arr! with the same arguments differ");
    Ok(())
}
fn case_list_noncopy_7() -> Result<(), String> {
    take_log(); let a: GA<String, N<7>> = arr![ls(0), ls(1), ls(2), ls(3), ls(4), ls(5), ls(6)]; let log = take_log();
    ck!(a.iter().enumerate().all(|(i, s)| *s == format!("s{i}")) && a.len() == 7, "arr! list of 7 Strings: wrong contents");
    ck!(log == seq(7), "arr! list of 7 Strings: evaluation order {:?}", &log[..log.len().min(12)]);
    take_log(); take_drops();
    { let d: GA<D, N<7>> = arr![ld(0), ld(1), ld(2), ld(3), ld(4), ld(5), ld(6)]; ck!(take_drops().is_empty(), "arr! list of 7: an element was dropped while the array is alive");
      ck!(d.iter().enumerate().all(|(i, x)| x.0 == i as u32), "arr! list of 7 drop-tracked elements: wrong contents"); }
    let mut dr = take_drops(); dr.sort(); ck!(dr == seq(7), "arr! list of 7: drop counts after the array is gone: {:?}", &dr[..dr.len().min(12)]);
    take_log(); take_drops();
    { let d: Box<GA<D, N<7>>> = box_arr![ld(0), ld(1), ld(2), ld(3), ld(4), ld(5), ld(6)]; ck!(take_drops().is_empty(), "box_arr! list of 7: an element was dropped while the box is alive");
      ck!(d.iter().enumerate().all(|(i, x)| x.0 == i as u32), "box_arr! list of 7 drop-tracked elements: wrong contents"); ck!(take_log() == seq(7), "box_arr! list of 7: evaluation order"); }
    let mut dr = take_drops(); dr.sort(); ck!(dr == seq(7), "box_arr! list of 7: drop counts after the box is gone: {:?}", &dr[..dr.len().min(12)]);
    Ok(())
}
const CL_7: GA<u8, N<7>> = arr![1u8, 6u8, 11u8, 16u8, 21u8, 26u8, 31u8];
static SL_7: GA<u8, N<7>> = arr![1u8, 6u8, 11u8, 16u8, 21u8, 26u8, 31u8,];
const fn cfl_7() -> GA<u8, N<7>> { arr![1u8, 6u8, 11u8, 16u8, 21u8, 26u8, 31u8] }
fn case_list_const_7() -> Result<(), String> {
    let nat: [u8; 7] = [1u8, 6u8, 11u8, 16u8, 21u8, 26u8, 31u8];
    ck!(CL_7.as_slice() == &nat[..] && SL_7.as_slice() == &nat[..] && cfl_7().as_slice() == &nat[..], "arr! list of 7 in const / static / const fn position differs from the native literal");
    Ok(())
}
fn case_list_8() -> Result<(), String> {
    take_log(); let a: GA<u32, N<8>> = arr![lg(0), lg(1), lg(2), lg(3), lg(4), lg(5), lg(6), lg(7)]; let log = take_log();
    let nat: [u32; 8] = [0u32.wrapping_mul(2654435761), 1u32.wrapping_mul(2654435761), 2u32.wrapping_mul(2654435761), 3u32.wrapping_mul(2654435761), 4u32.wrapping_mul(2654435761), 5u32.wrapping_mul(2654435761), 6u32.wrapping_mul(2654435761), 7u32.wrapping_mul(2654435761)];
    ck!(a.as_slice() == &nat[..], "arr! list of 8: contents {:?} differ from the native array literal", &a.as_slice()[..a.len().min(8)]);
    ck!(log == seq(8), "arr! list of 8: element expressions were evaluated in order {:?}, expected 0..8 once each", &log[..log.len().min(12)]);
    take_log(); let b: Box<GA<u32, N<8>>> = box_arr![lg(0), lg(1), lg(2), lg(3), lg(4), lg(5), lg(6), lg(7)]; let log = take_log();
    ck!(b.as_slice() == &nat[..], "box_arr! list of 8: contents differ from the native array literal");
    ck!(log == seq(8), "box_arr! list of 8: element expressions were evaluated in order {:?}, expected 0..8 once each", &log[..log.len().min(12)]);
    ck!(*b == a, "box_arr! and arr! with the same arguments differ");
    Ok(())
}
fn case_list_8_trailing() -> Result<(), String> {
    take_log(); let a: GA<u32, N<8>> = arr![lg(0), lg(1), lg(2), lg(3), lg(4), lg(5), lg(6), lg(7),]; let log = take_log();
    let nat: [u32; 8] = [0u32.wrapping_mul(2654435761), 1u32.wrapping_mul(2654435761), 2u32.wrapping_mul(2654435761), 3u32.wrapping_mul(2654435761), 4u32.wrapping_mul(2654435761), 5u32.wrapping_mul(2654435761), 6u32.wrapping_mul(2654435761), 7u32.wrapping_mul(2654435761)];
    ck!(a.as_slice() == &nat[..], "arr! list of 8: contents {:?} differ from the native array literal", &a.as_slice()[..a.len().min(8)]);
    ck!(log == seq(8), "arr! list of 8: element expressions were evaluated in order {:?}, expected 0..8 once each", &log[..log.len().min(12)]);
    take_log(); let b: Box<GA<u32, N<8>>> = box_arr![lg(0), lg(1), lg(2), lg(3), lg(4), lg(5), lg(6), lg(7),]; let log = take_log();
    ck!(b.as_slice() == &nat[..], "box_arr! list of 8: contents differ from the native array literal");
    ck!(log == seq(8), "box_arr! list of 8: element expressions were evaluated in order {:?}, expected 0..8 once each", &log[..log.len().min(12)]);
    ck!(*b == a, "box_arr! and arr! with the same arguments differ");
    Ok(())
}
fn case_list_noncopy_8() -> Result<(), String> {
    take_log(); let a: GA<String, N<8>> = arr![ls(0), ls(1), ls(2), ls(3), ls(4), ls(5), ls(6), ls(7)]; let log = take_log();
    ck!(a.iter().enumerate().all(|(i, s)| *s == format!("s{i}")) && a.len() == 8, "arr! list of 8 Strings: wrong contents");
    ck!(log == seq(8), "arr! list of 8 Strings: evaluation order {:?}", &log[..log.len().min(12)]);
    take_log(); take_drops();
    { let d: GA<D, N<8>> = arr![ld(0), ld(1), ld(2), ld(3), ld(4), ld(5), ld(6), ld(7)]; ck!(take_drops().is_empty(), "arr! list of 8: an element was dropped while the array is alive");
      ck!(d.iter().enumerate().all(|(i, x)| x.0 == i as u32), "arr! list of 8 drop-tracked elements: wrong contents"); }
    let mut dr = take_drops(); dr.sort(); ck!(dr == seq(8), "arr! list of 8: drop counts after the array is gone: {:?}", &dr[..dr.len().min(12)]);
    take_log(); take_drops();
    { let d: Box<GA<D, N<8>>> = box_arr![ld(0), ld(1), ld(2), ld(3), ld(4), ld(5), ld(6), ld(7)]; ck!(take_drops().is_empty(), "box_arr! list of 8: an element was dropped while the box is alive");
      ck!(d.iter().enumerate().all(|(i, x)| x.0 == i as u32), "box_arr! list of 8 drop-tracked elements: wrong contents"); ck!(take_log() == seq(8), "box_arr! list of 8: evaluation order"); }
    let mut dr = take_drops(); dr.sort(); ck!(dr == seq(8), "box_arr! list of 8: drop counts after the box is gone: {:?}", &dr[..dr.len().min(12)]);
    Ok(())
}
const CL_8: GA<u8, N<8>> = arr![1u8, 6u8, 11u8, 16u8, 21u8, 26u8, 31u8, 36u8];
static SL_8: GA<u8, N<8>> = arr![1u8, 6u8, 11u8, 16u8, 21u8, 26u8, 31u8, 36u8,];
const fn cfl_8() -> GA<u8, N<8>> { arr![1u8, 6u8, 11u8, 16u8, 21u8, 26u8, 31u8, 36u8] }
fn case_list_const_8() -> Result<(), String> {
    let nat: [u8; 8] = [1u8, 6u8, 11u8, 16u8, 21u8, 26u8, 31u8, 36u8];
    ck!(CL_8.as_slice() == &nat[..] && SL_8.as_slice() == &nat[..] && cfl_8().as_slice() == &nat[..], "arr! list of 8 in const / static / const fn position differs from the native literal");
    Ok(())
}
fn case_list_9() -> Result<(), String> {
    take_log(); let a: GA<u32, N<9>> = arr![lg(0), lg(1), lg(2), lg(3), lg(4), lg(5), lg(6), lg(7), lg(8)]; let log = take_log();
    let nat: [u32; 9] = [0u32.wrapping_mul(2654435761), 1u32.wrapping_mul(2654435761), 2u32.wrapping_mul(2654435761), 3u32.wrapping_mul(2654435761), 4u32.wrapping_mul(2654435761), 5u32.wrapping_mul(2654435761), 6u32.wrapping_mul(2654435761), 7u32.wrapping_mul(2654435761), 8u32.wrapping_mul(2654435761)];
    ck!(a.as_slice() == &nat[..], "arr! list of 9: contents {:?} differ from the native array literal", &a.as_slice()[..a.len().min(8)]);
    ck!(log == seq(9), "arr! list of 9: element expressions were evaluated in order {:?}, expected 0..9 once each", &log[..log.len().min(12)]);
    take_log(); let b: Box<GA<u32, N<9>>> = box_arr![lg(0), lg(1), lg(2), lg(3), lg(4), lg(5), lg(6), lg(7), lg(8)]; let log = take_log();
    ck!(b.as_slice() == &nat[..], "box_arr! list of 9: contents differ from the native array literal");
    ck!(log == seq(9), "box_arr! list of 9: element expressions were evaluated in order {:?}, expected 0..9 once each", &log[..log.len().min(12)]);
    ck!(*b == a, "box_arr! and arr! with the same arguments differ");
    Ok(())
}
fn case_list_9_trailing() -> Result<(), String> {
    take_log(); let a: GA<u32, N<9>> = arr![lg(0), lg(1), lg(2), lg(3), lg(4), lg(5), lg(6), lg(7), lg(8),]; let log = take_log();
    let nat: [u32; 9] = [0u32.wrapping_mul(2654435761), 1u32.wrapping_mul(2654435761), 2u32.wrapping_mul(2654435761), 3u32.wrapping_mul(2654435761), 4u32.wrapping_mul(2654435761), 5u32.wrapping_mul(2654435761), 6u32.wrapping_mul(2654435761), 7u32.wrapping_mul(2654435761), 8u32.wrapping_mul(2654435761)];
    ck!(a.as_slice() == &nat[..], "arr! list of 9: contents {:?} differ from the native array literal", &a.as_slice()[..a.len().min(8)]);
    ck!(log == seq(9), "arr! list of 9: element expressions were evaluated in order {:?}, expected 0..9 once each", &log[..log.len().min(12)]);
    take_log(); let b: Box<GA<u32, N<9>>> = box_arr![lg(0), lg(1), lg(2), lg(3), lg(4), lg(5), lg(6), lg(7), lg(8),]; let log = take_log();
    ck!(b.as_slice() == &nat[..], "box_arr! list of 9: contents differ from the native array literal");
    ck!(log == seq(9), "box_arr! list of 9: element expressions were evaluated in order {:?}, expected 0..9 once each", &log[..log.len().min(12)]);
    ck!(*b == a, "box_arr! and arr! with the same arguments differ");
    Ok(())
}
fn case_list_noncopy_9() -> Result<(), String> {
    take_log(); let a: GA<String, N<9>> = arr![ls(0), ls(1), ls(2), ls(3), ls(4), ls(5), ls(6), ls(7), ls(8)]; let log = take_log();
    ck!(a.iter().enumerate().all(|(i, s)| *s == format!("s{i}")) && a.len() == 9, "arr! list of 9 Strings: wrong contents");
    ck!(log == seq(9), "arr! list of 9 Strings: evaluation order {:?}", &log[..log.len().min(12)]);
    take_log(); take_drops();
    { let d: GA<D, N<9>> = arr![ld(0), ld(1), ld(2), ld(3), ld(4), ld(5), ld(6), ld(7), ld(8)]; ck!(take_drops().is_empty(), "arr! list of 9: an element was dropped while the array is alive");
      ck!(d.iter().enumerate().all(|(i, x)| x.0 == i as u32), "arr! list of 9 drop-tracked elements: wrong contents"); }
    let mut dr = take_drops(); dr.sort(); ck!(dr == seq(9), "arr! list of 9: drop counts after the array is gone: {:?}", &dr[..dr.len().min(12)]);
    take_log(); take_drops();
    { let d: Box<GA<D, N<9>>> = box_arr![ld(0), ld(1), ld(2), ld(3), ld(4), ld(5), ld(6), ld(7), ld(8)]; ck!(take_drops().is_empty(), "box_arr! list of 9: an element was dropped while the box is alive");
      ck!(d.iter().enumerate().all(|(i, x)| x.0 == i as u32), "box_arr! list of 9 drop-tracked elements: wrong contents"); ck!(take_log() == seq(9), "box_arr! list of 9: evaluation order"); }
    let mut dr = take_drops(); dr.sort(); ck!(dr == seq(9), "box_arr! list of 9: drop counts after the box is gone: {:?}", &dr[..dr.len().min(12)]);
    Ok(())
}
const CL_9: GA<u8, N<9>> = arr![1u8, 6u8, 11u8, 16u8, 21u8, 26u8, 31u8, 36u8, 41u8];
static SL_9: GA<u8, N<9>> = arr![1u8, 6u8, 11u8, 16u8, 21u8, 26u8, 31u8, 36u8, 41u8,];
const fn cfl_9() -> GA<u8, N<9>> { arr![1u8, 6u8, 11u8, 16u8, 21u8, 26u8, 31u8, 36u8, 41u8] }
fn case_list_const_9() -> Result<(), String> {
    let nat: [u8; 9] = [1u8, 6u8, 11u8, 16u8, 21u8, 26u8, 31u8, 36u8, 41u8];
    ck!(CL_9.as_slice() == &nat[..] && SL_9.as_slice() == &nat[..] && cfl_9().as_slice() == &nat[..], "arr! list of 9 in const / static / const fn position differs from the native literal");
    Ok(())
}
fn case_list_10() -> Result<(), String> {
    take_log(); let a: GA<u32, N<10>> = arr![lg(0), lg(1), lg(2), lg(3), lg(4), lg(5), lg(6), lg(7), lg(8), lg(9)]; let log = take_log();
    let nat: [u32; 10] = [0u32.wrapping_mul(2654435761), 1u32.wrapping_mul(2654435761), 2u32.wrapping_mul(2654435761), 3u32.wrapping_mul(2654435761), 4u32.wrapping_mul(2654435761), 5u32.wrapping_mul(2654435761), 6u32.wrapping_mul(2654435761), 7u32.wrapping_mul(2654435761), 8u32.wrapping_mul(2654435761), 9u32.wrapping_mul(2654435761)];
    ck!(a.as_slice() == &nat[..], "arr! list of 10: contents {:?} differ from the native array literal", &a.as_slice()[..a.len().min(8)]);
    ck!(log == seq(10), "arr! list of 10: element expressions were evaluated in order {:?}, expected 0..10 once each", &log[..log.len().min(12)]);
    take_log(); let b: Box<GA<u32, N<10>>> = box_arr![lg(0), lg(1), lg(2), lg(3), lg(4), lg(5), lg(6), lg(7), lg(8), lg(9)]; let log = take_log();
    ck!(b.as_slice() == &nat[..], "box_arr! list of 10: contents differ from the native array literal");
    ck!(log == seq(10), "box_arr! list of 10: element expressions were evaluated in order {:?}, expected 0..10 once each", &log[..log.len().min(12)]);
    ck!(*b == a, "box_arr! and arr! with the same arguments differ");
    Ok(())
}
fn case_list_10_trailing() -> Result<(), String> {
    take_log(); let a: GA<u32, N<10>> = arr![lg(0), lg(1), lg(2), lg(3), lg(4), lg(5), lg(6), lg(7), lg(8), lg(9),]; let log = take_log();
    let nat: [u32; 10] = [0u32.wrapping_mul(2654435761), 1u32.wrapping_mul(2654435761), 2u32.wrapping_mul(2654435761), 3u32.wrapping_mul(2654435761), 4u32.wrapping_mul(2654435761), 5u32.wrapping_mul(2654435761), 6u32.wrapping_mul(2654435761), 7u32.wrapping_mul(2654435761), 8u32.wrapping_mul(2654435761), 9u32.wrapping_mul(2654435761)];
    ck!(a.as_slice() == &nat[..], "arr! list of 10: contents {:?} differ from the native array literal", &a.as_slice()[..a.len().min(8)]);
    ck!(log == seq(10), "arr! list of 10: element expressions were evaluated in order {:?}, expected 0..10 once each", &log[..log.len().min(12)]);
    take_log(); let b: Box<GA<u32, N<10>>> = box_arr![lg(0), lg(1), lg(2), lg(3), lg(4), lg(5), lg(6), lg(7), lg(8), lg(9),]; let log = take_log();
    ck!(b.as_slice() == &nat[..], "box_arr! list of 10: contents differ from the native array literal");
    ck!(log == seq(10), "box_arr! list of 10: element expressions were evaluated in order {:?}, expected 0..10 once each", &log[..log.len().min(12)]);
    ck!(*b == a, "box_arr! and arr! with the same arguments differ");
    Ok(())
}
fn case_list_noncopy_10() -> Result<(), String> {
    take_log(); let a: GA<String, N<10>> = arr![ls(0), ls(1), ls(2), ls(3), ls(4), ls(5), ls(6), ls(7), ls(8), ls(9)]; let log = take_log();
    ck!(a.iter().enumerate().all(|(i, s)| *s == format!("s{i}")) && a.len() == 10, "arr! list of 10 Strings: wrong contents");
    ck!(log == seq(10), "arr! list of 10 Strings: evaluation order {:?}", &log[..log.len().min(12)]);
    take_log(); take_drops();
    { let d: GA<D, N<10>> = arr![ld(0), ld(1), ld(2), ld(3), ld(4), ld(5), ld(6), ld(7), ld(8), ld(9)]; ck!(take_drops().is_empty(), "arr! list of 10: an element was dropped while the array is alive");
      ck!(d.iter().enumerate().all(|(i, x)| x.0 == i as u32), "arr! list of 10 drop-tracked elements: wrong contents"); }
    let mut dr = take_drops(); dr.sort(); ck!(dr == seq(10), "arr! list of 10: drop counts after the array is gone: {:?}", &dr[..dr.len().min(12)]);
    take_log(); take_drops();
    { let d: Box<GA<D, N<10>>> = box_arr![ld(0), ld(1), ld(2), ld(3), ld(4), ld(5), ld(6), ld(7), ld(8), ld(9)]; ck!(take_drops().is_empty(), "box_arr! list of 10: an element was dropped while the box is alive");
      ck!(d.iter().enumerate().all(|(i, x)| x.0 == i as u32), "box_arr! list of 10 drop-tracked elements: wrong contents"); ck!(take_log() == seq(10), "box_arr! list of 10: evaluation order"); }
    let mut dr = take_drops(); dr.sort(); ck!(dr == seq(10), "box_arr! list of 10: drop counts after the box is gone: {:?}", &dr[..dr.len().min(12)]);
    Ok(())
}
const CL_10: GA<u8, N<10>> = arr![1u8, 6u8, 11u8, 16u8, 21u8, 26u8, 31u8, 36u8, 41u8, 46u8];
static SL_10: GA<u8, N<10>> = arr![1u8, 6u8, 11u8, 16u8, 21u8, 26u8, 31u8, 36u8, 41u8, 46u8,];
const fn cfl_10() -> GA<u8, N<10>> { arr![1u8, 6u8, 11u8, 16u8, 21u8, 26u8, 31u8, 36u8, 41u8, 46u8] }
fn case_list_const_10() -> Result<(), String> {
    let nat: [u8; 10] = [1u8, 6u8, 11u8, 16u8, 21u8, 26u8, 31u8, 36u8, 41u8, 46u8];
    ck!(CL_10.as_slice() == &nat[..] && SL_10.as_slice() == &nat[..] && cfl_10().as_slice() == &nat[..], "arr! list of 10 in const / static / const fn position differs from the native literal");
    Ok(())
}
fn case_list_11() -> Result<(), String> {
    take_log(); let a: GA<u32, N<11>> = arr![lg(0), lg(1), lg(2), lg(3), lg(4), lg(5), lg(6), lg(7), lg(8), lg(9), lg(10)]; let log = take_log();
    let nat: [u32; 11] = [0u32.wrapping_mul(2654435761), 1u32.wrapping_mul(2654435761), 2u32.wrapping_mul(2654435761), 3u32.wrapping_mul(2654435761), 4u32.wrapping_mul(2654435761), 5u32.wrapping_mul(2654435761), 6u32.wrapping_mul(2654435761), 7u32.wrapping_mul(2654435761), 8u32.wrapping_mul(2654435761), 9u32.wrapping_mul(2654435761), 10u32.wrapping_mul(2654435761)];
    ck!(a.as_slice() == &nat[..], "arr! list of 11: contents {:?} differ from the native array literal", &a.as_slice()[..a.len().min(8)]);
    ck!(log == seq(11), "arr! list of 11: element expressions were evaluated in order {:?}, expected 0..11 once each", &log[..log.len().min(12)]);
    take_log(); let b: Box<GA<u32, N<11>>> = box_arr![lg(0), lg(1), lg(2), lg(3), lg(4), lg(5), lg(6), lg(7), lg(8), lg(9), lg(10)]; let log = take_log();
    ck!(b.as_slice() == &nat[..], "box_arr! list of 11: contents differ from the native array literal");
    ck!(log == seq(11), "box_arr! list of 11: element expressions were evaluated in order {:?}, expected 0..11 once each", &log[..log.len().min(12)]);
    ck!(*b == a, "box_arr! and arr! with the same arguments differ");
    Ok(())
}
fn case_list_11_trailing() -> Result<(), String> {
    take_log(); let a: GA<u32, N<11>> = arr![lg(0), lg(1), lg(2), lg(3), lg(4), lg(5), lg(6), lg(7), lg(8), lg(9), lg(10),]; let log = take_log();
    let nat: [u32; 11] = [0u32.wrapping_mul(2654435761), 1u32.wrapping_mul(2654435761), 2u32.wrapping_mul(2654435761), 3u32.wrapping_mul(2654435761), 4u32.wrapping_mul(2654435761), 5u32.wrapping_mul(2654435761), 6u32.wrapping_mul(2654435761), 7u32.wrapping_mul(2654435761), 8u32.wrapping_mul(2654435761), 9u32.wrapping_mul(2654435761), 10u32.wrapping_mul(2654435761)];
    ck!(a.as_slice() == &nat[..], "arr! list of 11: contents {:?} differ from the native array literal", &a.as_slice()[..a.len().min(8)]);
    ck!(log == seq(11), "arr! list of 11: element expressions were evaluated in order {:?}, expected 0..11 once each", &log[..log.len().min(12)]);
    take_log(); let b: Box<GA<u32, N<11>>> = box_arr![lg(0), lg(1), lg(2), lg(3), lg(4), lg(5), lg(6), lg(7), lg(8), lg(9), lg(10),]; let log = take_log();
    ck!(b.as_slice() == &nat[..], "box_arr! list of 11: contents differ from the native array literal");
    ck!(log == seq(11), "box_arr! list of 11: element expressions were evaluated in order {:?}, expected 0..11 once each", &log[..log.len().min(12)]);
    ck!(*b == a, "box_arr! and arr! with the same arguments differ");
    Ok(())
}
fn case_list_noncopy_11() -> Result<(), String> {
    take_log(); let a: GA<String, N<11>> = arr![ls(0), ls(1), ls(2), ls(3), ls(4), ls(5), ls(6), ls(7), ls(8), ls(9), ls(10)]; let log = take_log();
    ck!(a.iter().enumerate().all(|(i, s)| *s == format!("s{i}")) && a.len() == 11, "arr! list of 11 Strings: wrong contents");
    ck!(log == seq(11), "arr! list of 11 Strings: evaluation order {:?}", &log[..log.len().min(12)]);
    take_log(); take_drops();
    { let d: GA<D, N<11>> = arr![ld(0), ld(1), ld(2), ld(3), ld(4), ld(5), ld(6), ld(7), ld(8), ld(9), ld(10)]; ck!(take_drops().is_empty(), "arr! list of 11: an element was dropped while the array is alive");
      ck!(d.iter().enumerate().all(|(i, x)| x.0 == i as u32), "arr! list of 11 drop-tracked elements: wrong contents"); }
    let mut dr = take_drops(); dr.sort(); ck!(dr == seq(11), "arr! list of 11: drop counts after the array is gone: {:?}", &dr[..dr.len().min(12)]);
    take_log(); take_drops();
    { let d: Box<GA<D, N<11>>> = box_arr![ld(0), ld(1), ld(2), ld(3), ld(4), ld(5), ld(6), ld(7), ld(8), ld(9), ld(10)]; ck!(take_drops().is_empty(), "box_arr! list of 11: an element was dropped while the box is alive");
      ck!(d.iter().enumerate().all(|(i, x)| x.0 == i as u32), "box_arr! list of 11 drop-tracked elements: wrong contents"); ck!(take_log() == seq(11), "box_arr! list of 11: evaluation order"); }
    let mut dr = take_drops(); dr.sort(); ck!(dr == seq(11), "box_arr! list of 11: drop counts after the box is gone: {:?}", &dr[..dr.len().min(12)]);
    Ok(())
}
const CL_11: GA<u8, N<11>> = arr![1u8, 6u8, 11u8, 16u8, 21u8, 26u8, 31u8, 36u8, 41u8, 46u8, 51u8];
static SL_11: GA<u8, N<11>> = arr![1u8, 6u8, 11u8, 16u8, 21u8, 26u8, 31u8, 36u8, 41u8, 46u8, 51u8,];
const fn cfl_11() -> GA<u8, N<11>> { arr![1u8, 6u8, 11u8, 16u8, 21u8, 26u8, 31u8, 36u8, 41u8, 46u8, 51u8] }
fn case_list_const_11() -> Result<(), String> {
    let nat: [u8; 11] = [1u8, 6u8, 11u8, 16u8, 21u8, 26u8, 31u8, 36u8, 41u8, 46u8, 51u8];
    ck!(CL_11.as_slice() == &nat[..] && SL_11.as_slice() == &nat[..] && cfl_11().as_slice() == &nat[..], "arr! list of 11 in const / static / const fn position differs from the native literal");
    Ok(())
}
fn case_list_12() -> Result<(), String> {
    take_log(); let a: GA<u32, N<12>> = arr![lg(0), lg(1), lg(2), lg(3), lg(4), lg(5), lg(6), lg(7), lg(8), lg(9), lg(10), lg(11)]; let log = take_log();
    let nat: [u32; 12] = [0u32.wrapping_mul(2654435761), 1u32.wrapping_mul(2654435761), 2u32.wrapping_mul(2654435761), 3u32.wrapping_mul(2654435761), 4u32.wrapping_mul(2654435761), 5u32.wrapping_mul(2654435761), 6u32.wrapping_mul(2654435761), 7u32.wrapping_mul(2654435761), 8u32.wrapping_mul(2654435761), 9u32.wrapping_mul(2654435761), 10u32.wrapping_mul(2654435761), 11u32.wrapping_mul(2654435761)];
    ck!(a.as_slice() == &nat[..], "arr! list of 12: contents {:?} differ from the native array literal", &a.as_slice()[..a.len().min(8)]);
    ck!(log == seq(12), "arr! list of 12: element expressions were evaluated in order {:?}, expected 0..12 once each", &log[..log.len().min(12)]);
    take_log(); let b: Box<GA<u32, N<12>>> = box_arr![lg(0), lg(1), lg(2), lg(3), lg(4), lg(5), lg(6), lg(7), lg(8), lg(9), lg(10), lg(11)]; let log = take_log();
    ck!(b.as_slice() == &nat[..], "box_arr! list of 12: contents differ from the native array literal");
    ck!(log == seq(12), "box_arr! list of 12: element expressions were evaluated in order {:?}, expected 0..12 once each", &log[..log.len().min(12)]);
    ck!(*b == a, "box_arr! and arr! with the same arguments differ");
    Ok(())
}
fn case_list_12_trailing() -> Result<(), String> {
    take_log(); let a: GA<u32, N<12>> = arr![lg(0), lg(1), lg(2), lg(3), lg(4), lg(5), lg(6), lg(7), lg(8), lg(9), lg(10), lg(11),]; let log = take_log();
    let nat: [u32; 12] = [0u32.wrapping_mul(2654435761), 1u32.wrapping_mul(2654435761), 2u32.wrapping_mul(2654435761), 3u32.wrapping_mul(2654435761), 4u32.wrapping_mul(2654435761), 5u32.wrapping_mul(2654435761), 6u32.wrapping_mul(2654435761), 7u32.wrapping_mul(2654435761), 8u32.wrapping_mul(2654435761), 9u32.wrapping_mul(2654435761), 10u32.wrapping_mul(2654435761), 11u32.wrapping_mul(2654435761)];
    ck!(a.as_slice() == &nat[..], "arr! list of 12: contents {:?} differ from the native array literal", &a.as_slice()[..a.len().min(8)]);
    ck!(log == seq(12), "arr! list of 12: element expressions were evaluated in order {:?}, expected 0..12 once each", &log[..log.len().min(12)]);
    take_log(); let b: Box<GA<u32, N<12>>> = box_arr![lg(0), lg(1), lg(2), lg(3), lg(4), lg(5), lg(6), lg(7), lg(8), lg(9), lg(10), lg(11),]; let log = take_log();
    ck!(b.as_slice() == &nat[..], "box_arr! list of 12: contents differ from the native array literal");
    ck!(log == seq(12), "box_arr! list of 12: element expressions were evaluated in order {:?}, expected 0..12 once each", &log[..log.len().min(12)]);
    ck!(*b == a, "box_arr! and arr! with the same arguments differ");
    Ok(())
}
fn case_list_noncopy_12() -> Result<(), String> {
    take_log(); let a: GA<String, N<12>> = arr![ls(0), ls(1), ls(2), ls(3), ls(4), ls(5), ls(6), ls(7), ls(8), ls(9), ls(10), ls(11)]; let log = take_log();
    ck!(a.iter().enumerate().all(|(i, s)| *s == format!("s{i}")) && a.len() == 12, "arr! list of 12 Strings: wrong contents");
    ck!(log == seq(12), "arr! list of 12 Strings: evaluation order {:?}", &log[..log.len().min(12)]);
    take_log(); take_drops();
    { let d: GA<D, N<12>> = arr![ld(0), ld(1), ld(2), ld(3), ld(4), ld(5), ld(6), ld(7), ld(8), ld(9), ld(10), ld(11)]; ck!(take_drops().is_empty(), "arr! list of 12: an element was dropped while the array is alive");
      ck!(d.iter().enumerate().all(|(i, x)| x.0 == i as u32), "arr! list of 12 drop-tracked elements: wrong contents"); }
    let mut dr = take_drops(); dr.sort(); ck!(dr == seq(12), "arr! list of 12: drop counts after the array is gone: {:?}", &dr[..dr.len().min(12)]);
    take_log(); take_drops();
    { let d: Box<GA<D, N<12>>> = box_arr![ld(0), ld(1), ld(2), ld(3), ld(4), ld(5), ld(6), ld(7), ld(8), ld(9), ld(10), ld(11)]; ck!(take_drops().is_empty(), "box_arr! list of 12: an element was dropped while the box is alive");
      ck!(d.iter().enumerate().all(|(i, x)| x.0 == i as u32), "box_arr! list of 12 drop-tracked elements: wrong contents"); ck!(take_log() == seq(12), "box_arr! list of 12: evaluation order"); }
    let mut dr = take_drops(); dr.sort(); ck!(dr == seq(12), "box_arr! list of 12: drop counts after the box is gone: {:?}", &dr[..dr.len().min(12)]);
    Ok(())
}
const CL_12: GA<u8, N<12>> = arr![1u8, 6u8, 11u8, 16u8, 21u8, 26u8, 31u8, 36u8, 41u8, 46u8, 51u8, 56u8];
static SL_12: GA<u8, N<12>> = arr![1u8, 6u8, 11u8, 16u8, 21u8, 26u8, 31u8, 36u8, 41u8, 46u8, 51u8, 56u8,];
const fn cfl_12() -> GA<u8, N<12>> { arr![1u8, 6u8, 11u8, 16u8, 21u8, 26u8, 31u8, 36u8, 41u8, 46u8, 51u8, 56u8] }
fn case_list_const_12() -> Result<(), String> {
    let nat: [u8; 12] = [1u8, 6u8, 11u8, 16u8, 21u8, 26u8, 31u8, 36u8, 41u8, 46u8, 51u8, 56u8];
    ck!(CL_12.as_slice() == &nat[..] && SL_12.as_slice() == &nat[..] && cfl_12().as_slice() == &nat[..], "arr! list of 12 in const / static / const fn position differs from the native literal");
    Ok(())
}
fn case_list_13() -> Result<(), String> {
    take_log(); let a: GA<u32, N<13>> = arr![lg(0), lg(1), lg(2), lg(3), lg(4), lg(5), lg(6), lg(7), lg(8), lg(9), lg(10), lg(11), lg(12)]; let log = take_log();
    let nat: [u32; 13] = [0u32.wrapping_mul(2654435761), 1u32.wrapping_mul(2654435761), 2u32.wrapping_mul(2654435761), 3u32.wrapping_mul(2654435761), 4u32.wrapping_mul(2654435761), 5u32.wrapping_mul(2654435761), 6u32.wrapping_mul(2654435761), 7u32.wrapping_mul(2654435761), 8u32.wrapping_mul(2654435761), 9u32.wrapping_mul(2654435761), 10u32.wrapping_mul(2654435761), 11u32.wrapping_mul(2654435761), 12u32.wrapping_mul(2654435761)];
    ck!(a.as_slice() == &nat[..], "arr! list of 13: contents {:?} differ from the native array literal", &a.as_slice()[..a.len().min(8)]);
    ck!(log == seq(13), "arr! list of 13: element expressions were evaluated in order {:?}, expected 0..13 once each", &log[..log.len().min(12)]);
    take_log(); let b: Box<GA<u32, N<13>>> = box_arr![lg(0), lg(1), lg(2), lg(3), lg(4), lg(5), lg(6), lg(7), lg(8), lg(9), lg(10), lg(11), lg(12)]; let log = take_log();
    ck!(b.as_slice() == &nat[..], "box_arr! list of 13: contents differ from the native array literal");
    ck!(log == seq(13), "box_arr! list of 13: element expressions were evaluated in order {:?}, expected 0..13 once each", &log[..log.len().min(12)]);
    ck!(*b == a, "box_arr! and arr! with the same arguments differ");
    Ok(())
}
fn case_list_13_trailing() -> Result<(), String> {
    take_log(); let a: GA<u32, N<13>> = arr![lg(0), lg(1), lg(2), lg(3), lg(4), lg(5), lg(6), lg(7), lg(8), lg(9), lg(10), lg(11), lg(12),]; let log = take_log();
    let nat: [u32; 13] = [0u32.wrapping_mul(2654435761), 1u32.wrapping_mul(2654435761), 2u32.wrapping_mul(2654435761), 3u32.wrapping_mul(2654435761), 4u32.wrapping_mul(2654435761), 5u32.wrapping_mul(2654435761), 6u32.wrapping_mul(2654435761), 7u32.wrapping_mul(2654435761), 8u32.wrapping_mul(2654435761), 9u32.wrapping_mul(2654435761), 10u32.wrapping_mul(2654435761), 11u32.wrapping_mul(2654435761), 12u32.wrapping_mul(2654435761)];
    ck!(a.as_slice() == &nat[..], "arr! list of 13: contents {:?} differ from the native array literal", &a.as_slice()[..a.len().min(8)]);
    ck!(log == seq(13), "arr! list of 13: element expressions were evaluated in order {:?}, expected 0..13 once each", &log[..log.len().min(12)]);
    take_log(); let b: Box<GA<u32, N<13>>> = box_arr![lg(0), lg(1), lg(2), lg(3), lg(4), lg(5), lg(6), lg(7), lg(8), lg(9), lg(10), lg(11), lg(12),]; let log = take_log();
    ck!(b.as_slice() == &nat[..], "box_arr! list of 13: contents differ from the native array literal");
    ck!(log == seq(13), "box_arr! list of 13: element expressions were evaluated in order {:?}, expected 0..13 once each", &log[..log.len().min(12)]);
    ck!(*b == a, "box_arr! and arr! with the same arguments differ");
    Ok(())
}
fn case_list_noncopy_13() -> Result<(), String> {
    take_log(); let a: GA<String, N<13>> = arr![ls(0), ls(1), ls(2), ls(3), ls(4), ls(5), ls(6), ls(7), ls(8), ls(9), ls(10), ls(11), ls(12)]; let log = take_log();
    ck!(a.iter().enumerate().all(|(i, s)| *s == format!("s{i}")) && a.len() == 13, "arr! list of 13 Strings: wrong contents");
    ck!(log == seq(13), "arr! list of 13 Strings: evaluation order {:?}", &log[..log.len().min(12)]);
    take_log(); take_drops();
    { let d: GA<D, N<13>> = arr![ld(0), ld(1), ld(2), ld(3), ld(4), ld(5), ld(6), ld(7), ld(8), ld(9), ld(10), ld(11), ld(12)]; ck!(take_drops().is_empty(), "arr! list of 13: an element was dropped while the array is alive");
      ck!(d.iter().enumerate().all(|(i, x)| x.0 == i as u32), "arr! list of 13 drop-tracked elements: wrong contents"); }
    let mut dr = take_drops(); dr.sort(); ck!(dr == seq(13), "arr! list of 13: drop counts after the array is gone: {:?}", &dr[..dr.len().min(12)]);
    take_log(); take_drops();
    { let d: Box<GA<D, N<13>>> = box_arr![ld(0), ld(1), ld(2), ld(3), ld(4), ld(5), ld(6), ld(7), ld(8), ld(9), ld(10), ld(11), ld(12)]; ck!(take_drops().is_empty(), "box_arr! list of 13: an element was dropped while the box is alive");
      ck!(d.iter().enumerate().all(|(i, x)| x.0 == i as u32), "box_arr! list of 13 drop-tracked elements: wrong contents"); ck!(take_log() == seq(13), "box_arr! list of 13: evaluation order"); }
    let mut dr = take_drops(); dr.sort(); ck!(dr == seq(13), "box_arr! list of 13: drop counts after the box is gone: {:?}", &dr[..dr.len().min(12)]);
    Ok(())
}
const CL_13: GA<u8, N<13>> = arr![1u8, 6u8, 11u8, 16u8, 21u8, 26u8, 31u8, 36u8, 41u8, 46u8, 51u8, 56u8, 61u8];
static SL_13: GA<u8, N<13>> = arr![1u8, 6u8, 11u8, 16u8, 21u8, 26u8, 31u8, 36u8, 41u8, 46u8, 51u8, 56u8, 61u8,];
const fn cfl_13() -> GA<u8, N<13>> { arr![1u8, 6u8, 11u8, 16u8, 21u8, 26u8, 31u8, 36u8, 41u8, 46u8, 51u8, 56u8, 61u8] }
fn case_list_const_13() -> Result<(), String> {
    let nat: [u8; 13] = [1u8, 6u8, 11u8, 16u8, 21u8, 26u8, 31u8, 36u8, 41u8, 46u8, 51u8, 56u8, 61u8];
    ck!(CL_13.as_slice() == &nat[..] && SL_13.as_slice() == &nat[..] && cfl_13().as_slice() == &nat[..], "arr! list of 13 in const / static / const fn position differs from the native literal");
    Ok(())
}
fn case_list_14() -> Result<(), String> {
    take_log(); let a: GA<u32, N<14>> = arr![lg(0), lg(1), lg(2), lg(3), lg(4), lg(5), lg(6), lg(7), lg(8), lg(9), lg(10), lg(11), lg(12), lg(13)]; let log = take_log();
    let nat: [u32; 14] = [0u32.wrapping_mul(2654435761), 1u32.wrapping_mul(2654435761), 2u32.wrapping_mul(2654435761), 3u32.wrapping_mul(2654435761), 4u32.wrapping_mul(2654435761), 5u32.wrapping_mul(2654435761), 6u32.wrapping_mul(2654435761), 7u32.wrapping_mul(2654435761), 8u32.wrapping_mul(2654435761), 9u32.wrapping_mul(2654435761), 10u32.wrapping_mul(2654435761), 11u32.wrapping_mul(2654435761), 12u32.wrapping_mul(2654435761), 13u32.wrapping_mul(2654435761)];
    ck!(a.as_slice() == &nat[..], "arr! list of 14: contents {:?} differ from the native array literal", &a.as_slice()[..a.len().min(8)]);
    ck!(log == seq(14), "arr! list of 14: element expressions were evaluated in order {:?}, expected 0..14 once each", &log[..log.len().min(12)]);
    take_log(); let b: Box<GA<u32, N<14>>> = box_arr![lg(0), lg(1), lg(2), lg(3), lg(4), lg(5), lg(6), lg(7), lg(8), lg(9), lg(10), lg(11), lg(12), lg(13)]; let log = take_log();
    ck!(b.as_slice() == &nat[..], "box_arr! list of 14: contents differ from the native array literal");
    ck!(log == seq(14), "box_arr! list of 14: element expressions were evaluated in order {:?}, expected 0..14 once each", &log[..log.len().min(12)]);
    ck!(*b == a, "box_arr! and arr! with the same arguments differ");
    Ok(())
}
fn case_list_14_trailing() -> Result<(), String> {
    take_log(); let a: GA<u32, N<14>> = arr![lg(0), lg(1), lg(2), lg(3), lg(4), lg(5), lg(6), lg(7), lg(8), lg(9), lg(10), lg(11), lg(12), lg(13),]; let log = take_log();
    let nat: [u32; 14] = [0u32.wrapping_mul(2654435761), 1u32.wrapping_mul(2654435761), 2u32.wrapping_mul(2654435761), 3u32.wrapping_mul(2654435761), 4u32.wrapping_mul(2654435761), 5u32.wrapping_mul(2654435761), 6u32.wrapping_mul(2654435761), 7u32.wrapping_mul(2654435761), 8u32.wrapping_mul(2654435761), 9u32.wrapping_mul(2654435761), 10u32.wrapping_mul(2654435761), 11u32.wrapping_mul(2654435761), 12u32.wrapping_mul(2654435761), 13u32.wrapping_mul(2654435761)];
    ck!(a.as_slice() == &nat[..], "arr! list of 14: contents {:?} differ from the native array literal", &a.as_slice()[..a.len().min(8)]);
    ck!(log == seq(14), "arr! list of 14: element expressions were evaluated in order {:?}, expected 0..14 once each", &log[..log.len().min(12)]);
    take_log(); let b: Box<GA<u32, N<14>>> = box_arr![lg(0), lg(1), lg(2), lg(3), lg(4), lg(5), lg(6), lg(7), lg(8), lg(9), lg(10), lg(11), lg(12), lg(13),]; let log = take_log();
    ck!(b.as_slice() == &nat[..], "box_arr! list of 14: contents differ from the native array literal");
    ck!(log == seq(14), "box_arr! list of 14: element expressions were evaluated in order {:?}, expected 0..14 once each", &log[..log.len().min(12)]);
    ck!(*b == a, "box_arr! and arr! with the same arguments differ");
    Ok(())
}
fn case_list_noncopy_14() -> Result<(), String> {
    take_log(); let a: GA<String, N<14>> = arr![ls(0), ls(1), ls(2), ls(3), ls(4), ls(5), ls(6), ls(7), ls(8), ls(9), ls(10), ls(11), ls(12), ls(13)]; let log = take_log();
    ck!(a.iter().enumerate().all(|(i, s)| *s == format!("s{i}")) && a.len() == 14, "arr! list of 14 Strings: wrong contents");
    ck!(log == seq(14), "arr! list of 14 Strings: evaluation order {:?}", &log[..log.len().min(12)]);
    take_log(); take_drops();
    { let d: GA<D, N<14>> = arr![ld(0), ld(1), ld(2), ld(3), ld(4), ld(5), ld(6), ld(7), ld(8), ld(9), ld(10), ld(11), ld(12), ld(13)]; ck!(take_drops().is_empty(), "arr! list of 14: an element was dropped while the array is alive");
      ck!(d.iter().enumerate().all(|(i, x)| x.0 == i as u32), "arr! list of 14 drop-tracked elements: wrong contents"); }
    let mut dr = take_drops(); dr.sort(); ck!(dr == seq(14), "arr! list of 14: drop counts after the array is gone: {:?}", &dr[..dr.len().min(12)]);
    take_log(); take_drops();
    { let d: Box<GA<D, N<14>>> = box_arr![ld(0), ld(1), ld(2), ld(3), ld(4), ld(5), ld(6), ld(7), ld(8), ld(9), ld(10), ld(11), ld(12), ld(13)]; ck!(take_drops().is_empty(), "box_arr! list of 14: an element was dropped while the box is alive");
      ck!(d.iter().enumerate().all(|(i, x)| x.0 == i as u32), "box_arr! list of 14 drop-tracked elements: wrong contents"); ck!(take_log() == seq(14), "box_arr! list of 14: evaluation order"); }
    let mut dr = take_drops(); dr.sort(); ck!(dr == seq(14), "box_arr! list of 14: drop counts after the box is gone: {:?}", &dr[..dr.len().min(12)]);
    Ok(())
}
const CL_14: GA<u8, N<14>> = arr![1u8, 6u8, 11u8, 16u8, 21u8, 26u8, 31u8, 36u8, 41u8, 46u8, 51u8, 56u8, 61u8, 66u8];
static SL_14: GA<u8, N<14>> = arr![1u8, 6u8, 11u8, 16u8, 21u8, 26u8, 31u8, 36u8, 41u8, 46u8, 51u8, 56u8, 61u8, 66u8,];
const fn cfl_14() -> GA<u8, N<14>> { arr![1u8, 6u8, 11u8, 16u8, 21u8, 26u8, 31u8, 36u8, 41u8, 46u8, 51u8, 56u8, 61u8, 66u8] }
fn case_list_const_14() -> Result<(), String> {
    let nat: [u8; 14] = [1u8, 6u8, 11u8, 16u8, 21u8, 26u8, 31u8, 36u8, 41u8, 46u8, 51u8, 56u8, 61u8, 66u8];
    ck!(CL_14.as_slice() == &nat[..] && SL_14.as_slice() == &nat[..] && cfl_14().as_slice() == &nat[..], "arr! list of 14 in const / static / const fn position differs from the native literal");
    Ok(())
}
fn case_list_15() -> Result<(), String> {
    take_log(); let a: GA<u32, N<15>> = arr![lg(0), lg(1), lg(2), lg(3), lg(4), lg(5), lg(6), lg(7), lg(8), lg(9), lg(10), lg(11), lg(12), lg(13), lg(14)]; let log = take_log();
    let nat: [u32; 15] = [0u32.wrapping_mul(2654435761), 1u32.wrapping_mul(2654435761), 2u32.wrapping_mul(2654435761), 3u32.wrapping_mul(2654435761), 4u32.wrapping_mul(2654435761), 5u32.wrapping_mul(2654435761), 6u32.wrapping_mul(2654435761), 7u32.wrapping_mul(2654435761), 8u32.wrapping_mul(2654435761), 9u32.wrapping_mul(2654435761), 10u32.wrapping_mul(2654435761), 11u32.wrapping_mul(2654435761), 12u32.wrapping_mul(2654435761), 13u32.wrapping_mul(2654435761), 14u32.wrapping_mul(2654435761)];
    ck!(a.as_slice() == &nat[..], "arr! list of 15: contents {:?} differ from the native array literal", &a.as_slice()[..a.len().min(8)]);
    ck!(log == seq(15), "arr! list of 15: element expressions were evaluated in order {:?}, expected 0..15 once each", &log[..log.len().min(12)]);
    take_log(); let b: Box<GA<u32, N<15>>> = box_arr![lg(0), lg(1), lg(2), lg(3), lg(4), lg(5), lg(6), lg(7), lg(8), lg(9), lg(10), lg(11), lg(12), lg(13), lg(14)]; let log = take_log();
    ck!(b.as_slice() == &nat[..], "box_arr! list of 15: contents differ from the native array literal");
    ck!(log == seq(15), "box_arr! list of 15: element expressions were evaluated in order {:?}, expected 0..15 once each", &log[..log.len().min(12)]);
    ck!(*b == a, "box_arr! and arr! with the same arguments differ");
    Ok(())
}
fn case_list_15_trailing() -> Result<(), String> {
    take_log(); let a: GA<u32, N<15>> = arr![lg(0), lg(1), lg(2), lg(3), lg(4), lg(5), lg(6), lg(7), lg(8), lg(9), lg(10), lg(11), lg(12), lg(13), lg(14),]; let log = take_log();
    let nat: [u32; 15] = [0u32.wrapping_mul(2654435761), 1u32.wrapping_mul(2654435761), 2u32.wrapping_mul(2654435761), 3u32.wrapping_mul(2654435761), 4u32.wrapping_mul(2654435761), 5u32.wrapping_mul(2654435761), 6u32.wrapping_mul(2654435761), 7u32.wrapping_mul(2654435761), 8u32.wrapping_mul(2654435761), 9u32.wrapping_mul(2654435761), 10u32.wrapping_mul(2654435761), 11u32.wrapping_mul(2654435761), 12u32.wrapping_mul(2654435761), 13u32.wrapping_mul(2654435761), 14u32.wrapping_mul(2654435761)];
    ck!(a.as_slice() == &nat[..], "arr! list of 15: contents {:?} differ from the native array literal", &a.as_slice()[..a.len().min(8)]);
    ck!(log == seq(15), "arr! list of 15: element expressions were evaluated in order {:?}, expected 0..15 once each", &log[..log.len().min(12)]);
    take_log(); let b: Box<GA<u32, N<15>>> = box_arr![lg(0), lg(1), lg(2), lg(3), lg(4), lg(5), lg(6), lg(7), lg(8), lg(9), lg(10), lg(11), lg(12), lg(13), lg(14),]; let log = take_log();
    ck!(b.as_slice() == &nat[..], "box_arr! list of 15: contents differ from the native array literal");
    ck!(log == seq(15), "box_arr! list of 15: element expressions were evaluated in order {:?}, expected 0..15 once each", &log[..log.len().min(12)]);
    ck!(*b == a, "box_arr! and arr! with the same arguments differ");
    Ok(())
}
fn case_list_noncopy_15() -> Result<(), String> {
    take_log(); let a: GA<String, N<15>> = arr![ls(0), ls(1), ls(2), ls(3), ls(4), ls(5), ls(6), ls(7), ls(8), ls(9), ls(10), ls(11), ls(12), ls(13), ls(14)]; let log = take_log();
    ck!(a.iter().enumerate().all(|(i, s)| *s == format!("s{i}")) && a.len() == 15, "arr! list of 15 Strings: wrong contents");
    ck!(log == seq(15), "arr! list of 15 Strings: evaluation order {:?}", &log[..log.len().min(12)]);
    take_log(); take_drops();
    { let d: GA<D, N<15>> = arr![ld(0), ld(1), ld(2), ld(3), ld(4), ld(5), ld(6), ld(7), ld(8), ld(9), ld(10), ld(11), ld(12), ld(13), ld(14)]; ck!(take_drops().is_empty(), "arr! list of 15: an element was dropped while the array is alive");
      ck!(d.iter().enumerate().all(|(i, x)| x.0 == i as u32), "arr! list of 15 drop-tracked elements: wrong contents"); }
    let mut dr = take_drops(); dr.sort(); ck!(dr == seq(15), "arr! list of 15: drop counts after the array is gone: {:?}", &dr[..dr.len().min(12)]);
    take_log(); take_drops();
    { let d: Box<GA<D, N<15>>> = box_arr![ld(0), ld(1), ld(2), ld(3), ld(4), ld(5), ld(6), ld(7), ld(8), ld(9), ld(10), ld(11), ld(12), ld(13), ld(14)]; ck!(take_drops().is_empty(), "box_arr! list of 15: an element was dropped while the box is alive");
      ck!(d.iter().enumerate().all(|(i, x)| x.0 == i as u32), "box_arr! list of 15 drop-tracked elements: wrong contents"); ck!(take_log() == seq(15), "box_arr! list of 15: evaluation order"); }
    let mut dr = take_drops(); dr.sort(); ck!(dr == seq(15), "box_arr! list of 15: drop counts after the box is gone: {:?}", &dr[..dr.len().min(12)]);
    Ok(())
}
const CL_15: GA<u8, N<15>> = arr![1u8, 6u8, 11u8, 16u8, 21u8, 26u8, 31u8, 36u8, 41u8, 46u8, 51u8, 56u8, 61u8, 66u8, 71u8];
static SL_15: GA<u8, N<15>> = arr![1u8, 6u8, 11u8, 16u8, 21u8, 26u8, 31u8, 36u8, 41u8, 46u8, 51u8, 56u8, 61u8, 66u8, 71u8,];
const fn cfl_15() -> GA<u8, N<15>> { arr![1u8, 6u8, 11u8, 16u8, 21u8, 26u8, 31u8, 36u8, 41u8, 46u8, 51u8, 56u8, 61u8, 66u8, 71u8] }
fn case_list_const_15() -> Result<(), String> {
    let nat: [u8; 15] = [1u8, 6u8, 11u8, 16u8, 21u8, 26u8, 31u8, 36u8, 41u8, 46u8, 51u8, 56u8, 61u8, 66u8, 71u8];
    ck!(CL_15.as_slice() == &nat[..] && SL_15.as_slice() == &nat[..] && cfl_15().as_slice() == &nat[..], "arr! list of 15 in const / static / const fn position differs from the native literal");
    Ok(())
}
fn case_list_16() -> Result<(), String> {
    take_log(); let a: GA<u32, N<16>> = arr![lg(0), lg(1), lg(2), lg(3), lg(4), lg(5), lg(6), lg(7), lg(8), lg(9), lg(10), lg(11), lg(12), lg(13), lg(14), lg(15)]; let log = take_log();
    let nat: [u32; 16] = [0u32.wrapping_mul(2654435761), 1u32.wrapping_mul(2654435761), 2u32.wrapping_mul(2654435761), 3u32.wrapping_mul(2654435761), 4u32.wrapping_mul(2654435761), 5u32.wrapping_mul(2654435761), 6u32.wrapping_mul(2654435761), 7u32.wrapping_mul(2654435761), 8u32.wrapping_mul(2654435761), 9u32.wrapping_mul(2654435761), 10u32.wrapping_mul(2654435761), 11u32.wrapping_mul(2654435761), 12u32.wrapping_mul(2654435761), 13u32.wrapping_mul(2654435761), 14u32.wrapping_mul(2654435761), 15u32.wrapping_mul(2654435761)];
    ck!(a.as_slice() == &nat[..], "arr! list of 16: contents {:?} differ from the native array literal", &a.as_slice()[..a.len().min(8)]);
    ck!(log == seq(16), "arr! list of 16: element expressions were evaluated in order {:?}, expected 0..16 once each", &log[..log.len().min(12)]);
    take_log(); let b: Box<GA<u32, N<16>>> = box_arr![lg(0), lg(1), lg(2), lg(3), lg(4), lg(5), lg(6), lg(7), lg(8), lg(9), lg(10), lg(11), lg(12), lg(13), lg(14), lg(15)]; let log = take_log();
    ck!(b.as_slice() == &nat[..], "box_arr! list of 16: contents differ from the native array literal");
    ck!(log == seq(16), "box_arr! list of 16: element expressions were evaluated in order {:?}, expected 0..16 once each", &log[..log.len().min(12)]);
    ck!(*b == a, "box_arr! and arr! with the same arguments differ");
    Ok(())
}
fn case_list_16_trailing() -> Result<(), String> {
    take_log(); let a: GA<u32, N<16>> = arr![lg(0), lg(1), lg(2), lg(3), lg(4), lg(5), lg(6), lg(7), lg(8), lg(9), lg(10), lg(11), lg(12), lg(13), lg(14), lg(15),]; let log = take_log();
    let nat: [u32; 16] = [0u32.wrapping_mul(2654435761), 1u32.wrapping_mul(2654435761), 2u32.wrapping_mul(2654435761), 3u32.wrapping_mul(2654435761), 4u32.wrapping_mul(2654435761), 5u32.wrapping_mul(2654435761), 6u32.wrapping_mul(2654435761), 7u32.wrapping_mul(2654435761), 8u32.wrapping_mul(2654435761), 9u32.wrapping_mul(2654435761), 10u32.wrapping_mul(2654435761), 11u32.wrapping_mul(2654435761), 12u32.wrapping_mul(2654435761), 13u32.wrapping_mul(2654435761), 14u32.wrapping_mul(2654435761), 15u32.wrapping_mul(2654435761)];
    ck!(a.as_slice() == &nat[..], "arr! list of 16: contents {:?} differ from the native array literal", &a.as_slice()[..a.len().min(8)]);
    ck!(log == seq(16), "arr! list of 16: element expressions were evaluated in order {:?}, expected 0..16 once each", &log[..log.len().min(12)]);
    take_log(); let b: Box<GA<u32, N<16>>> = box_arr![lg(0), lg(1), lg(2), lg(3), lg(4), lg(5), lg(6), lg(7), lg(8), lg(9), lg(10), lg(11), lg(12), lg(13), lg(14), lg(15),]; let log = take_log();
    ck!(b.as_slice() == &nat[..], "box_arr! list of 16: contents differ from the native array literal");
    ck!(log == seq(16), "box_arr! list of 16: element expressions were evaluated in order {:?}, expected 0..16 once each", &log[..log.len().min(12)]);
    ck!(*b == a, "box_arr! and arr! with the same arguments differ");
    Ok(())
}
fn case_list_noncopy_16() -> Result<(), String> {
    take_log(); let a: GA<String, N<16>> = arr![ls(0), ls(1), ls(2), ls(3), ls(4), ls(5), ls(6), ls(7), ls(8), ls(9), ls(10), ls(11), ls(12), ls(13), ls(14), ls(15)]; let log = take_log();
    ck!(a.iter().enumerate().all(|(i, s)| *s == format!("s{i}")) && a.len() == 16, "arr! list of 16 Strings: wrong contents");
    ck!(log == seq(16), "arr! list of 16 Strings: evaluation order {:?}", &log[..log.len().min(12)]);
    take_log(); take_drops();
    { let d: GA<D, N<16>> = arr![ld(0), ld(1), ld(2), ld(3), ld(4), ld(5), ld(6), ld(7), ld(8), ld(9), ld(10), ld(11), ld(12), ld(13), ld(14), ld(15)]; ck!(take_drops().is_empty(), "arr! list of 16: an element was dropped while the array is alive");
      ck!(d.iter().enumerate().all(|(i, x)| x.0 == i as u32), "arr! list of 16 drop-tracked elements: wrong contents"); }
    let mut dr = take_drops(); dr.sort(); ck!(dr == seq(16), "arr! list of 16: drop counts after the array is gone: {:?}", &dr[..dr.len().min(12)]);
    take_log(); take_drops();
    { let d: Box<GA<D, N<16>>> = box_arr![ld(0), ld(1), ld(2), ld(3), ld(4), ld(5), ld(6), ld(7), ld(8), ld(9), ld(10), ld(11), ld(12), ld(13), ld(14), ld(15)]; ck!(take_drops().is_empty(), "box_arr! list of 16: an element was dropped while the box is alive");
      ck!(d.iter().enumerate().all(|(i, x)| x.0 == i as u32), "box_arr! list of 16 drop-tracked elements: wrong contents"); ck!(take_log() == seq(16), "box_arr! list of 16: evaluation order"); }
    let mut dr = take_drops(); dr.sort(); ck!(dr == seq(16), "box_arr! list of 16: drop counts after the box is gone: {:?}", &dr[..dr.len().min(12)]);
    Ok(())
}
const CL_16: GA<u8, N<16>> = arr![1u8, 6u8, 11u8, 16u8, 21u8, 26u8, 31u8, 36u8, 41u8, 46u8, 51u8, 56u8, 61u8, 66u8, 71u8, 76u8];
static SL_16: GA<u8, N<16>> = arr![1u8, 6u8, 11u8, 16u8, 21u8, 26u8, 31u8, 36u8, 41u8, 46u8, 51u8, 56u8, 61u8, 66u8, 71u8, 76u8,];
const fn cfl_16() -> GA<u8, N<16>> { arr![1u8, 6u8, 11u8, 16u8, 21u8, 26u8, 31u8, 36u8, 41u8, 46u8, 51u8, 56u8, 61u8, 66u8, 71u8, 76u8] }
fn case_list_const_16() -> Result<(), String> {
    let nat: [u8; 16] = [1u8, 6u8, 11u8, 16u8, 21u8, 26u8, 31u8, 36u8, 41u8, 46u8, 51u8, 56u8, 61u8, 66u8, 71u8, 76u8];
    ck!(CL_16.as_slice() == &nat[..] && SL_16.as_slice() == &nat[..] && cfl_16().as_slice() == &nat[..], "arr! list of 16 in const / static / const fn position differs from the native literal");
    Ok(())
}
fn case_list_17() -> Result<(), String> {
    take_log(); let a: GA<u32, N<17>> = arr![lg(0), lg(1), lg(2), lg(3), lg(4), lg(5), lg(6), lg(7), lg(8), lg(9), lg(10), lg(11), lg(12), lg(13), lg(14), lg(15), lg(16)]; let log = take_log();
    let nat: [u32; 17] = [0u32.wrapping_mul(2654435761), 1u32.wrapping_mul(2654435761), 2u32.wrapping_mul(2654435761), 3u32.wrapping_mul(2654435761), 4u32.wrapping_mul(2654435761), 5u32.wrapping_mul(2654435761), 6u32.wrapping_mul(2654435761), 7u32.wrapping_mul(2654435761), 8u32.wrapping_mul(2654435761), 9u32.wrapping_mul(2654435761), 10u32.wrapping_mul(2654435761), 11u32.wrapping_mul(2654435761), 12u32.wrapping_mul(2654435761), 13u32.wrapping_mul(2654435761), 14u32.wrapping_mul(2654435761), 15u32.wrapping_mul(2654435761), 16u32.wrapping_mul(2654435761)];
    ck!(a.as_slice() == &nat[..], "arr! list of 17: contents {:?} differ from the native array literal", &a.as_slice()[..a.len().min(8)]);
    ck!(log == seq(17), "arr! list of 17: element expressions were evaluated in order {:?}, expected 0..17 once each", &log[..log.len().min(12)]);
    take_log(); let b: Box<GA<u32, N<17>>> = box_arr![lg(0), lg(1), lg(2), lg(3), lg(4), lg(5), lg(6), lg(7), lg(8), lg(9), lg(10), lg(11), lg(12), lg(13), lg(14), lg(15), lg(16)]; let log = take_log();
    ck!(b.as_slice() == &nat[..], "box_arr! list of 17: contents differ from the native array literal");
    ck!(log == seq(17), "box_arr! list of 17: element expressions were evaluated in order {:?}, expected 0..17 once each", &log[..log.len().min(12)]);
    ck!(*b == a, "box_arr! and arr! with the same arguments differ");
    Ok(())
}
fn case_list_17_trailing() -> Result<(), String> {
    take_log(); let a: GA<u32, N<17>> = arr![lg(0), lg(1), lg(2), lg(3), lg(4), lg(5), lg(6), lg(7), lg(8), lg(9), lg(10), lg(11), lg(12), lg(13), lg(14), lg(15), lg(16),]; let log = take_log();
    let nat: [u32; 17] = [0u32.wrapping_mul(2654435761), 1u32.wrapping_mul(2654435761), 2u32.wrapping_mul(2654435761), 3u32.wrapping_mul(2654435761), 4u32.wrapping_mul(2654435761), 5u32.wrapping_mul(2654435761), 6u32.wrapping_mul(2654435761), 7u32.wrapping_mul(2654435761), 8u32.wrapping_mul(2654435761), 9u32.wrapping_mul(2654435761), 10u32.wrapping_mul(2654435761), 11u32.wrapping_mul(2654435761), 12u32.wrapping_mul(2654435761), 13u32.wrapping_mul(2654435761), 14u32.wrapping_mul(2654435761), 15u32.wrapping_mul(2654435761), 16u32.wrapping_mul(2654435761)];
    ck!(a.as_slice() == &nat[..], "arr! list of 17: contents {:?} differ from the native array literal", &a.as_slice()[..a.len().min(8)]);
    ck!(log == seq(17), "arr! list of 17: element expressions were evaluated in order {:?}, expected 0..17 once each", &log[..log.len().min(12)]);
    take_log(); let b: Box<GA<u32, N<17>>> = box_arr![lg(0), lg(1), lg(2), lg(3), lg(4), lg(5), lg(6), lg(7), lg(8), lg(9), lg(10), lg(11), lg(12), lg(13), lg(14), lg(15), lg(16),]; let log = take_log();
    ck!(b.as_slice() == &nat[..], "box_arr! list of 17: contents differ from the native array literal");
    ck!(log == seq(17), "box_arr! list of 17: element expressions were evaluated in order {:?}, expected 0..17 once each", &log[..log.len().min(12)]);
    ck!(*b == a, "box_arr! and arr! with the same arguments differ");
    Ok(())
}
fn case_list_noncopy_17() -> Result<(), String> {
    take_log(); let a: GA<String, N<17>> = arr![ls(0), ls(1), ls(2), ls(3), ls(4), ls(5), ls(6), ls(7), ls(8), ls(9), ls(10), ls(11), ls(12), ls(13), ls(14), ls(15), ls(16)]; let log = take_log();
    ck!(a.iter().enumerate().all(|(i, s)| *s == format!("s{i}")) && a.len() == 17, "arr! list of 17 Strings: wrong contents");
    ck!(log == seq(17), "arr! list of 17 Strings: evaluation order {:?}", &log[..log.len().min(12)]);
    take_log(); take_drops();
    { let d: GA<D, N<17>> = arr![ld(0), ld(1), ld(2), ld(3), ld(4), ld(5), ld(6), ld(7), ld(8), ld(9), ld(10), ld(11), ld(12), ld(13), ld(14), ld(15), ld(16)]; ck!(take_drops().is_empty(), "arr! list of 17: an element was dropped while the array is alive");
      ck!(d.iter().enumerate().all(|(i, x)| x.0 == i as u32), "arr! list of 17 drop-tracked elements: wrong contents"); }
    let mut dr = take_drops(); dr.sort(); ck!(dr == seq(17), "arr! list of 17: drop counts after the array is gone: {:?}", &dr[..dr.len().min(12)]);
    take_log(); take_drops();
    { let d: Box<GA<D, N<17>>> = box_arr![ld(0), ld(1), ld(2), ld(3), ld(4), ld(5), ld(6), ld(7), ld(8), ld(9), ld(10), ld(11), ld(12), ld(13), ld(14), ld(15), ld(16)]; ck!(take_drops().is_empty(), "box_arr! list of 17: an element was dropped while the box is alive");
      ck!(d.iter().enumerate().all(|(i, x)| x.0 == i as u32), "box_arr! list of 17 drop-tracked elements: wrong contents"); ck!(take_log() == seq(17), "box_arr! list of 17: evaluation order"); }
    let mut dr = take_drops(); dr.sort(); ck!(dr == seq(17), "box_arr! list of 17: drop counts after the box is gone: {:?}", &dr[..dr.len().min(12)]);
    Ok(())
}
const CL_17: GA<u8, N<17>> = arr![1u8, 6u8, 11u8, 16u8, 21u8, 26u8, 31u8, 36u8, 41u8, 46u8, 51u8, 56u8, 61u8, 66u8, 71u8, 76u8, 81u8];
static SL_17: GA<u8, N<17>> = arr![1u8, 6u8, 11u8, 16u8, 21u8, 26u8, 31u8, 36u8, 41u8, 46u8, 51u8, 56u8, 61u8, 66u8, 71u8, 76u8, 81u8,];
const fn cfl_17() -> GA<u8, N<17>> { arr![1u8, 6u8, 11u8, 16u8, 21u8, 26u8, 31u8, 36u8, 41u8, 46u8, 51u8, 56u8, 61u8, 66u8, 71u8, 76u8, 81u8] }
fn case_list_const_17() -> Result<(), String> {
    let nat: [u8; 17] = [1u8, 6u8, 11u8, 16u8, 21u8, 26u8, 31u8, 36u8, 41u8, 46u8, 51u8, 56u8, 61u8, 66u8, 71u8, 76u8, 81u8];
    ck!(CL_17.as_slice() == &nat[..] && SL_17.as_slice() == &nat[..] && cfl_17().as_slice() == &nat[..], "arr! list of 17 in const / static / const fn position differs from the native literal");
    Ok(())
}
fn case_list_18() -> Result<(), String> {
    take_log(); let a: GA<u32, N<18>> = arr![lg(0), lg(1), lg(2), lg(3), lg(4), lg(5), lg(6), lg(7), lg(8), lg(9), lg(10), lg(11), lg(12), lg(13), lg(14), lg(15), lg(16), lg(17)]; let log = take_log();
    let nat: [u32; 18] = [0u32.wrapping_mul(2654435761), 1u32.wrapping_mul(2654435761), 2u32.wrapping_mul(2654435761), 3u32.wrapping_mul(2654435761), 4u32.wrapping_mul(2654435761), 5u32.wrapping_mul(2654435761), 6u32.wrapping_mul(2654435761), 7u32.wrapping_mul(2654435761), 8u32.wrapping_mul(2654435761), 9u32.wrapping_mul(2654435761), 10u32.wrapping_mul(2654435761), 11u32.wrapping_mul(2654435761), 12u32.wrapping_mul(2654435761), 13u32.wrapping_mul(2654435761), 14u32.wrapping_mul(2654435761), 15u32.wrapping_mul(2654435761), 16u32.wrapping_mul(2654435761), 17u32.wrapping_mul(2654435761)];
    ck!(a.as_slice() == &nat[..], "arr! list of 18: contents {:?} differ from the native array literal", &a.as_slice()[..a.len().min(8)]);
    ck!(log == seq(18), "arr! list of 18: element expressions were evaluated in order {:?}, expected 0..18 once each", &log[..log.len().min(12)]);
    take_log(); let b: Box<GA<u32, N<18>>> = box_arr![lg(0), lg(1), lg(2), lg(3), lg(4), lg(5), lg(6), lg(7), lg(8), lg(9), lg(10), lg(11), lg(12), lg(13), lg(14), lg(15), lg(16), lg(17)]; let log = take_log();
    ck!(b.as_slice() == &nat[..], "box_arr! list of 18: contents differ from the native array literal");
    ck!(log == seq(18), "box_arr! list of 18: element expressions were evaluated in order {:?}, expected 0..18 once each", &log[..log.len().min(12)]);
    ck!(*b == a, "box_arr! and arr! with the same arguments differ");
    Ok(())
}
fn case_list_18_trailing() -> Result<(), String> {
    take_log(); let a: GA<u32, N<18>> = arr![lg(0), lg(1), lg(2), lg(3), lg(4), lg(5), lg(6), lg(7), lg(8), lg(9), lg(10), lg(11), lg(12), lg(13), lg(14), lg(15), lg(16), lg(17),]; let log = take_log();
    let nat: [u32; 18] = [0u32.wrapping_mul(2654435761), 1u32.wrapping_mul(2654435761), 2u32.wrapping_mul(2654435761), 3u32.wrapping_mul(2654435761), 4u32.wrapping_mul(2654435761), 5u32.wrapping_mul(2654435761), 6u32.wrapping_mul(2654435761), 7u32.wrapping_mul(2654435761), 8u32.wrapping_mul(2654435761), 9u32.wrapping_mul(2654435761), 10u32.wrapping_mul(2654435761), 11u32.wrapping_mul(2654435761), 12u32.wrapping_mul(2654435761), 13u32.wrapping_mul(2654435761), 14u32.wrapping_mul(2654435761), 15u32.wrapping_mul(2654435761), 16u32.wrapping_mul(2654435761), 17u32.wrapping_mul(2654435761)];
    ck!(a.as_slice() == &nat[..], "arr! list of 18: contents {:?} differ from the native array literal", &a.as_slice()[..a.len().min(8)]);
    ck!(log == seq(18), "arr! list of 18: element expressions were evaluated in order {:?}, expected 0..18 once each", &log[..log.len().min(12)]);
    take_log(); let b: Box<GA<u32, N<18>>> = box_arr![lg(0), lg(1), lg(2), lg(3), lg(4), lg(5), lg(6), lg(7), lg(8), lg(9), lg(10), lg(11), lg(12), lg(13), lg(14), lg(15), lg(16), lg(17),]; let log = take_log();
    ck!(b.as_slice() == &nat[..], "box_arr! list of 18: contents differ from the native array literal");
    ck!(log == seq(18), "box_arr! list of 18: element expressions were evaluated in order {:?}, expected 0..18 once each", &log[..log.len().min(12)]);
    ck!(*b == a, "box_arr! and arr! with the same arguments differ");
    Ok(())
}
fn case_list_noncopy_18() -> Result<(), String> {
    take_log(); let a: GA<String, N<18>> = arr![ls(0), ls(1), ls(2), ls(3), ls(4), ls(5), ls(6), ls(7), ls(8), ls(9), ls(10), ls(11), ls(12), ls(13), ls(14), ls(15), ls(16), ls(17)]; let log = take_log();
    ck!(a.iter().enumerate().all(|(i, s)| *s == format!("s{i}")) && a.len() == 18, "arr! list of 18 Strings: wrong contents");
    ck!(log == seq(18), "arr! list of 18 Strings: evaluation order {:?}", &log[..log.len().min(12)]);
    take_log(); take_drops();
    { let d: GA<D, N<18>> = arr![ld(0), ld(1), ld(2), ld(3), ld(4), ld(5), ld(6), ld(7), ld(8), ld(9), ld(10), ld(11), ld(12), ld(13), ld(14), ld(15), ld(16), ld(17)]; ck!(take_drops().is_empty(), "arr! list of 18: an element was dropped while the array is alive");
      ck!(d.iter().enumerate().all(|(i, x)| x.0 == i as u32), "arr! list of 18 drop-tracked elements: wrong contents"); }
    let mut dr = take_drops(); dr.sort(); ck!(dr == seq(18), "arr! list of 18: drop counts after the array is gone: {:?}", &dr[..dr.len().min(12)]);
    take_log(); take_drops();
    { let d: Box<GA<D, N<18>>> = box_arr![ld(0), ld(1), ld(2), ld(3), ld(4), ld(5), ld(6), ld(7), ld(8), ld(9), ld(10), ld(11), ld(12), ld(13), ld(14), ld(15), ld(16), ld(17)]; ck!(take_drops().is_empty(), "box_arr! list of 18: an element was dropped while the box is alive");
      ck!(d.iter().enumerate().all(|(i, x)| x.0 == i as u32), "box_arr! list of 18 drop-tracked elements: wrong contents"); ck!(take_log() == seq(18), "box_arr! list of 18: evaluation order"); }
    let mut dr = take_drops(); dr.sort(); ck!(dr == seq(18), "box_arr! list of 18: drop counts after the box is gone: {:?}", &dr[..dr.len().min(12)]);
    Ok(())
}
const CL_18: GA<u8, N<18>> = arr![1u8, 6u8, 11u8, 16u8, 21u8, 26u8, 31u8, 36u8, 41u8, 46u8, 51u8, 56u8, 61u8, 66u8, 71u8, 76u8, 81u8, 86u8];
static SL_18: GA<u8, N<18>> = arr![1u8, 6u8, 11u8, 16u8, 21u8, 26u8, 31u8, 36u8, 41u8, 46u8, 51u8, 56u8, 61u8, 66u8, 71u8, 76u8, 81u8, 86u8,];
const fn cfl_18() -> GA<u8, N<18>> { arr![1u8, 6u8, 11u8, 16u8, 21u8, 26u8, 31u8, 36u8, 41u8, 46u8, 51u8, 56u8, 61u8, 66u8, 71u8, 76u8, 81u8, 86u8] }
fn case_list_const_18() -> Result<(), String> {
    let nat: [u8; 18] = [1u8, 6u8, 11u8, 16u8, 21u8, 26u8, 31u8, 36u8, 41u8, 46u8, 51u8, 56u8, 61u8, 66u8, 71u8, 76u8, 81u8, 86u8];
    ck!(CL_18.as_slice() == &nat[..] && SL_18.as_slice() == &nat[..] && cfl_18().as_slice() == &nat[..], "arr! list of 18 in const / static / const fn position differs from the native literal");
    Ok(())
}
fn case_list_19() -> Result<(), String> {
    take_log(); let a: GA<u32, N<19>> = arr![lg(0), lg(1), lg(2), lg(3), lg(4), lg(5), lg(6), lg(7), lg(8), lg(9), lg(10), lg(11), lg(12), lg(13), lg(14), lg(15), lg(16), lg(17), lg(18)]; let log = take_log();
    let nat: [u32; 19] = [0u32.wrapping_mul(2654435761), 1u32.wrapping_mul(2654435761), 2u32.wrapping_mul(2654435761), 3u32.wrapping_mul(2654435761), 4u32.wrapping_mul(2654435761), 5u32.wrapping_mul(2654435761), 6u32.wrapping_mul(2654435761), 7u32.wrapping_mul(2654435761), 8u32.wrapping_mul(2654435761), 9u32.wrapping_mul(2654435761), 10u32.wrapping_mul(2654435761), 11u32.wrapping_mul(2654435761), 12u32.wrapping_mul(2654435761), 13u32.wrapping_mul(2654435761), 14u32.wrapping_mul(2654435761), 15u32.wrapping_mul(2654435761), 16u32.wrapping_mul(2654435761), 17u32.wrapping_mul(2654435761), 18u32.wrapping_mul(2654435761)];
    ck!(a.as_slice() == &nat[..], "arr! list of 19: contents {:?} differ from the native array literal", &a.as_slice()[..a.len().min(8)]);
    ck!(log == seq(19), "arr! list of 19: element expressions were evaluated in order {:?}, expected 0..19 once each", &log[..log.len().min(12)]);
    take_log(); let b: Box<GA<u32, N<19>>> = box_arr![lg(0), lg(1), lg(2), lg(3), lg(4), lg(5), lg(6), lg(7), lg(8), lg(9), lg(10), lg(11), lg(12), lg(13), lg(14), lg(15), lg(16), lg(17), lg(18)]; let log = take_log();
    ck!(b.as_slice() == &nat[..], "box_arr! list of 19: contents differ from the native array literal");
    ck!(log == seq(19), "box_arr! list of 19: element expressions were evaluated in order {:?}, expected 0..19 once each", &log[..log.len().min(12)]);
    ck!(*b == a, "box_arr! and arr! with the same arguments differ");
    Ok(())
}
fn case_list_19_trailing() -> Result<(), String> {
    take_log(); let a: GA<u32, N<19>> = arr![lg(0), lg(1), lg(2), lg(3), lg(4), lg(5), lg(6), lg(7), lg(8), lg(9), lg(10), lg(11), lg(12), lg(13), lg(14), lg(15), lg(16), lg(17), lg(18),]; let log = take_log();
    let nat: [u32; 19] = [0u32.wrapping_mul(2654435761), 1u32.wrapping_mul(2654435761), 2u32.wrapping_mul(2654435761), 3u32.wrapping_mul(2654435761), 4u32.wrapping_mul(2654435761), 5u32.wrapping_mul(2654435761), 6u32.wrapping_mul(2654435761), 7u32.wrapping_mul(2654435761), 8u32.wrapping_mul(2654435761), 9u32.wrapping_mul(2654435761), 10u32.wrapping_mul(2654435761), 11u32.wrapping_mul(2654435761), 12u32.wrapping_mul(2654435761), 13u32.wrapping_mul(2654435761), 14u32.wrapping_mul(2654435761), 15u32.wrapping_mul(2654435761), 16u32.wrapping_mul(2654435761), 17u32.wrapping_mul(2654435761), 18u32.wrapping_mul(2654435761)];
    ck!(a.as_slice() == &nat[..], "arr! list of 19: contents {:?} differ from the native array literal", &a.as_slice()[..a.len().min(8)]);
    ck!(log == seq(19), "arr! list of 19: element expressions were evaluated in order {:?}, expected 0..19 once each", &log[..log.len().min(12)]);
    take_log(); let b: Box<GA<u32, N<19>>> = box_arr![lg(0), lg(1), lg(2), lg(3), lg(4), lg(5), lg(6), lg(7), lg(8), lg(9), lg(10), lg(11), lg(12), lg(13), lg(14), lg(15), lg(16), lg(17), lg(18),]; let log = take_log();
    ck!(b.as_slice() == &nat[..], "box_arr! list of 19: contents differ from the native array literal");
    ck!(log == seq(19), "box_arr! list of 19: element expressions were evaluated in order {:?}, expected 0..19 once each", &log[..log.len().min(12)]);
    ck!(*b == a, "box_arr! and arr! with the same arguments differ");
    Ok(())
}
fn case_list_noncopy_19() -> Result<(), String> {
    take_log(); let a: GA<String, N<19>> = arr![ls(0), ls(1), ls(2), ls(3), ls(4), ls(5), ls(6), ls(7), ls(8), ls(9), ls(10), ls(11), ls(12), ls(13), ls(14), ls(15), ls(16), ls(17), ls(18)]; let log = take_log();
    ck!(a.iter().enumerate().all(|(i, s)| *s == format!("s{i}")) && a.len() == 19, "arr! list of 19 Strings: wrong contents");
    ck!(log == seq(19), "arr! list of 19 Strings: evaluation order {:?}", &log[..log.len().min(12)]);
    take_log(); take_drops();
    { let d: GA<D, N<19>> = arr![ld(0), ld(1), ld(2), ld(3), ld(4), ld(5), ld(6), ld(7), ld(8), ld(9), ld(10), ld(11), ld(12), ld(13), ld(14), ld(15), ld(16), ld(17), ld(18)]; ck!(take_drops().is_empty(), "arr! list of 19: an element was dropped while the array is alive");
      ck!(d.iter().enumerate().all(|(i, x)| x.0 == i as u32), "arr! list of 19 drop-tracked elements: wrong contents"); }
    let mut dr = take_drops(); dr.sort(); ck!(dr == seq(19), "arr! list of 19: drop counts after the array is gone: {:?}", &dr[..dr.len().min(12)]);
    take_log(); take_drops();
    { let d: Box<GA<D, N<19>>> = box_arr![ld(0), ld(1), ld(2), ld(3), ld(4), ld(5), ld(6), ld(7), ld(8), ld(9), ld(10), ld(11), ld(12), ld(13), ld(14), ld(15), ld(16), ld(17), ld(18)]; ck!(take_drops().is_empty(), "box_arr! list of 19: an element was dropped while the box is alive");
      ck!(d.iter().enumerate().all(|(i, x)| x.0 == i as u32), "box_arr! list of 19 drop-tracked elements: wrong contents"); ck!(take_log() == seq(19), "box_arr! list of 19: evaluation order"); }
    let mut dr = take_drops(); dr.sort(); ck!(dr == seq(19), "box_arr! list of 19: drop counts after the box is gone: {:?}", &dr[..dr.len().min(12)]);
    Ok(())
}
const CL_19: GA<u8, N<19>> = arr![1u8, 6u8, 11u8, 16u8, 21u8, 26u8, 31u8, 36u8, 41u8, 46u8, 51u8, 56u8, 61u8, 66u8, 71u8, 76u8, 81u8, 86u8, 91u8];
static SL_19: GA<u8, N<19>> = arr![1u8, 6u8, 11u8, 16u8, 21u8, 26u8, 31u8, 36u8, 41u8, 46u8, 51u8, 56u8, 61u8, 66u8, 71u8, 76u8, 81u8, 86u8, 91u8,];
const fn cfl_19() -> GA<u8, N<19>> { arr![1u8, 6u8, 11u8, 16u8, 21u8, 26u8, 31u8, 36u8, 41u8, 46u8, 51u8, 56u8, 61u8, 66u8, 71u8, 76u8, 81u8, 86u8, 91u8] }
fn case_list_const_19() -> Result<(), String> {
    let nat: [u8; 19] = [1u8, 6u8, 11u8, 16u8, 21u8, 26u8, 31u8, 36u8, 41u8, 46u8, 51u8, 56u8, 61u8, 66u8, 71u8, 76u8, 81u8, 86u8, 91u8];
    ck!(CL_19.as_slice() == &nat[..] && SL_19.as_slice() == &nat[..] && cfl_19().as_slice() == &nat[..], "arr! list of 19 in const / static / const fn position differs from the native literal");
    Ok(())
}
fn case_list_20() -> Result<(), String> {
    take_log(); let a: GA<u32, N<20>> = arr![lg(0), lg(1), lg(2), lg(3), lg(4), lg(5), lg(6), lg(7), lg(8), lg(9), lg(10), lg(11), lg(12), lg(13), lg(14), lg(15), lg(16), lg(17), lg(18), lg(19)]; let log = take_log();
    let nat: [u32; 20] = [0u32.wrapping_mul(2654435761), 1u32.wrapping_mul(2654435761), 2u32.wrapping_mul(2654435761), 3u32.wrapping_mul(2654435761), 4u32.wrapping_mul(2654435761), 5u32.wrapping_mul(2654435761), 6u32.wrapping_mul(2654435761), 7u32.wrapping_mul(2654435761), 8u32.wrapping_mul(2654435761), 9u32.wrapping_mul(2654435761), 10u32.wrapping_mul(2654435761), 11u32.wrapping_mul(2654435761), 12u32.wrapping_mul(2654435761), 13u32.wrapping_mul(2654435761), 14u32.wrapping_mul(2654435761), 15u32.wrapping_mul(2654435761), 16u32.wrapping_mul(2654435761), 17u32.wrapping_mul(2654435761), 18u32.wrapping_mul(2654435761), 19u32.wrapping_mul(2654435761)];
    ck!(a.as_slice() == &nat[..], "arr! list of 20: contents {:?} differ from the native array literal", &a.as_slice()[..a.len().min(8)]);
    ck!(log == seq(20), "arr! list of 20: element expressions were evaluated in order {:?}, expected 0..20 once each", &log[..log.len().min(12)]);
    take_log(); let b: Box<GA<u32, N<20>>> = box_arr![lg(0), lg(1), lg(2), lg(3), lg(4), lg(5), lg(6), lg(7), lg(8), lg(9), lg(10), lg(11), lg(12), lg(13), lg(14), lg(15), lg(16), lg(17), lg(18), lg(19)]; let log = take_log();
    ck!(b.as_slice() == &nat[..], "box_arr! list of 20: contents differ from the native array literal");
    ck!(log == seq(20), "box_arr! list of 20: element expressions were evaluated in order {:?}, expected 0..20 once each", &log[..log.len().min(12)]);
    ck!(*b == a, "box_arr! and arr! with the same arguments differ");
    Ok(())
}
fn case_list_20_trailing() -> Result<(), String> {
    take_log(); let a: GA<u32, N<20>> = arr![lg(0), lg(1), lg(2), lg(3), lg(4), lg(5), lg(6), lg(7), lg(8), lg(9), lg(10), lg(11), lg(12), lg(13), lg(14), lg(15), lg(16), lg(17), lg(18), lg(19),]; let log = take_log();
    let nat: [u32; 20] = [0u32.wrapping_mul(2654435761), 1u32.wrapping_mul(2654435761), 2u32.wrapping_mul(2654435761), 3u32.wrapping_mul(2654435761), 4u32.wrapping_mul(2654435761), 5u32.wrapping_mul(2654435761), 6u32.wrapping_mul(2654435761), 7u32.wrapping_mul(2654435761), 8u32.wrapping_mul(2654435761), 9u32.wrapping_mul(2654435761), 10u32.wrapping_mul(2654435761), 11u32.wrapping_mul(2654435761), 12u32.wrapping_mul(2654435761), 13u32.wrapping_mul(2654435761), 14u32.wrapping_mul(2654435761), 15u32.wrapping_mul(2654435761), 16u32.wrapping_mul(2654435761), 17u32.wrapping_mul(2654435761), 18u32.wrapping_mul(2654435761), 19u32.wrapping_mul(2654435761)];
    ck!(a.as_slice() == &nat[..], "arr! list of 20: contents {:?} differ from the native array literal", &a.as_slice()[..a.len().min(8)]);
    ck!(log == seq(20), "arr! list of 20: element expressions were evaluated in order {:?}, expected 0..20 once each", &log[..log.len().min(12)]);
    take_log(); let b: Box<GA<u32, N<20>>> = box_arr![lg(0), lg(1), lg(2), lg(3), lg(4), lg(5), lg(6), lg(7), lg(8), lg(9), lg(10), lg(11), lg(12), lg(13), lg(14), lg(15), lg(16), lg(17), lg(18), lg(19),]; let log = take_log();
    ck!(b.as_slice() == &nat[..], "box_arr! list of 20: contents differ from the native array literal");
    ck!(log == seq(20), "box_arr! list of 20: element expressions were evaluated in order {:?}, expected 0..20 once each", &log[..log.len().min(12)]);
    ck!(*b == a, "box_arr! and arr! with the same arguments differ");
    Ok(())
}
fn case_list_noncopy_20() -> Result<(), String> {
    take_log(); let a: GA<String, N<20>> = arr![ls(0), ls(1), ls(2), ls(3), ls(4), ls(5), ls(6), ls(7), ls(8), ls(9), ls(10), ls(11), ls(12), ls(13), ls(14), ls(15), ls(16), ls(17), ls(18), ls(19)]; let log = take_log();
    ck!(a.iter().enumerate().all(|(i, s)| *s == format!("s{i}")) && a.len() == 20, "arr! list of 20 Strings: wrong contents");
    ck!(log == seq(20), "arr! list of 20 Strings: evaluation order {:?}", &log[..log.len().min(12)]);
    take_log(); take_drops();
    { let d: GA<D, N<20>> = arr![ld(0), ld(1), ld(2), ld(3), ld(4), ld(5), ld(6), ld(7), ld(8), ld(9), ld(10), ld(11), ld(12), ld(13), ld(14), ld(15), ld(16), ld(17), ld(18), ld(19)]; ck!(take_drops().is_empty(), "arr! list of 20: an element was dropped while the array is alive");
      ck!(d.iter().enumerate().all(|(i, x)| x.0 == i as u32), "arr! list of 20 drop-tracked elements: wrong contents"); }
    let mut dr = take_drops(); dr.sort(); ck!(dr == seq(20), "arr! list of 20: drop counts after the array is gone: {:?}", &dr[..dr.len().min(12)]);
    take_log(); take_drops();
    { let d: Box<GA<D, N<20>>> = box_arr![ld(0), ld(1), ld(2), ld(3), ld(4), ld(5), ld(6), ld(7), ld(8), ld(9), ld(10), ld(11), ld(12), ld(13), ld(14), ld(15), ld(16), ld(17), ld(18), ld(19)]; ck!(take_drops().is_empty(), "box_arr! list of 20: an element was dropped while the box is alive");
      ck!(d.iter().enumerate().all(|(i, x)| x.0 == i as u32), "box_arr! list of 20 drop-tracked elements: wrong contents"); ck!(take_log() == seq(20), "box_arr! list of 20: evaluation order"); }
    let mut dr = take_drops(); dr.sort(); ck!(dr == seq(20), "box_arr! list of 20: drop counts after the box is gone: {:?}", &dr[..dr.len().min(12)]);
    Ok(())
}
const CL_20: GA<u8, N<20>> = arr![1u8, 6u8, 11u8, 16u8, 21u8, 26u8, 31u8, 36u8, 41u8, 46u8, 51u8, 56u8, 61u8, 66u8, 71u8, 76u8, 81u8, 86u8, 91u8, 96u8];
static SL_20: GA<u8, N<20>> = arr![1u8, 6u8, 11u8, 16u8, 21u8, 26u8, 31u8, 36u8, 41u8, 46u8, 51u8, 56u8, 61u8, 66u8, 71u8, 76u8, 81u8, 86u8, 91u8, 96u8,];
const fn cfl_20() -> GA<u8, N<20>> { arr![1u8, 6u8, 11u8, 16u8, 21u8, 26u8, 31u8, 36u8, 41u8, 46u8, 51u8, 56u8, 61u8, 66u8, 71u8, 76u8, 81u8, 86u8, 91u8, 96u8] }
fn case_list_const_20() -> Result<(), String> {
    let nat: [u8; 20] = [1u8, 6u8, 11u8, 16u8, 21u8, 26u8, 31u8, 36u8, 41u8, 46u8, 51u8, 56u8, 61u8, 66u8, 71u8, 76u8, 81u8, 86u8, 91u8, 96u8];
    ck!(CL_20.as_slice() == &nat[..] && SL_20.as_slice() == &nat[..] && cfl_20().as_slice() == &nat[..], "arr! list of 20 in const / static / const fn position differs from the native literal");
    Ok(())
}
fn case_list_21() -> Result<(), String> {
    take_log(); let a: GA<u32, N<21>> = arr![lg(0), lg(1), lg(2), lg(3), lg(4), lg(5), lg(6), lg(7), lg(8), lg(9), lg(10), lg(11), lg(12), lg(13), lg(14), lg(15), lg(16), lg(17), lg(18), lg(19), lg(20)]; let log = take_log();
    let nat: [u32; 21] = [0u32.wrapping_mul(2654435761), 1u32.wrapping_mul(2654435761), 2u32.wrapping_mul(2654435761), 3u32.wrapping_mul(2654435761), 4u32.wrapping_mul(2654435761), 5u32.wrapping_mul(2654435761), 6u32.wrapping_mul(2654435761), 7u32.wrapping_mul(2654435761), 8u32.wrapping_mul(2654435761), 9u32.wrapping_mul(2654435761), 10u32.wrapping_mul(2654435761), 11u32.wrapping_mul(2654435761), 12u32.wrapping_mul(2654435761), 13u32.wrapping_mul(2654435761), 14u32.wrapping_mul(2654435761), 15u32.wrapping_mul(2654435761), 16u32.wrapping_mul(2654435761), 17u32.wrapping_mul(2654435761), 18u32.wrapping_mul(2654435761), 19u32.wrapping_mul(2654435761), 20u32.wrapping_mul(2654435761)];
    ck!(a.as_slice() == &nat[..], "arr! list of 21: contents {:?} differ from the native array literal", &a.as_slice()[..a.len().min(8)]);
    ck!(log == seq(21), "arr! list of 21: element expressions were evaluated in order {:?}, expected 0..21 once each", &log[..log.len().min(12)]);
    take_log(); let b: Box<GA<u32, N<21>>> = box_arr![lg(0), lg(1), lg(2), lg(3), lg(4), lg(5), lg(6), lg(7), lg(8), lg(9), lg(10), lg(11), lg(12), lg(13), lg(14), lg(15), lg(16), lg(17), lg(18), lg(19), lg(20)]; let log = take_log();
    ck!(b.as_slice() == &nat[..], "box_arr! list of 21: contents differ from the native array literal");
    ck!(log == seq(21), "box_arr! list of 21: element expressions were evaluated in order {:?}, expected 0..21 once each", &log[..log.len().min(12)]);
    ck!(*b == a, "box_arr! and arr! with the same arguments differ");
    Ok(())
}
fn case_list_21_trailing() -> Result<(), String> {
    take_log(); let a: GA<u32, N<21>> = arr![lg(0), lg(1), lg(2), lg(3), lg(4), lg(5), lg(6), lg(7), lg(8), lg(9), lg(10), lg(11), lg(12), lg(13), lg(14), lg(15), lg(16), lg(17), lg(18), lg(19), lg(20),]; let log = take_log();
    let nat: [u32; 21] = [0u32.wrapping_mul(2654435761), 1u32.wrapping_mul(2654435761), 2u32.wrapping_mul(2654435761), 3u32.wrapping_mul(2654435761), 4u32.wrapping_mul(2654435761), 5u32.wrapping_mul(2654435761), 6u32.wrapping_mul(2654435761), 7u32.wrapping_mul(2654435761), 8u32.wrapping_mul(2654435761), 9u32.wrapping_mul(2654435761), 10u32.wrapping_mul(2654435761), 11u32.wrapping_mul(2654435761), 12u32.wrapping_mul(2654435761), 13u32.wrapping_mul(2654435761), 14u32.wrapping_mul(2654435761), 15u32.wrapping_mul(2654435761), 16u32.wrapping_mul(2654435761), 17u32.wrapping_mul(2654435761), 18u32.wrapping_mul(2654435761), 19u32.wrapping_mul(2654435761), 20u32.wrapping_mul(2654435761)];
    ck!(a.as_slice() == &nat[..], "arr! list of 21: contents {:?} differ from the native array literal", &a.as_slice()[..a.len().min(8)]);
    ck!(log == seq(21), "arr! list of 21: element expressions were evaluated in order {:?}, expected 0..21 once each", &log[..log.len().min(12)]);
    take_log(); let b: Box<GA<u32, N<21>>> = box_arr![lg(0), lg(1), lg(2), lg(3), lg(4), lg(5), lg(6), lg(7), lg(8), lg(9), lg(10), lg(11), lg(12), lg(13), lg(14), lg(15), lg(16), lg(17), lg(18), lg(19), lg(20),]; let log = take_log();
    ck!(b.as_slice() == &nat[..], "box_arr! list of 21: contents differ from the native array literal");
    ck!(log == seq(21), "box_arr! list of 21: element expressions were evaluated in order {:?}, expected 0..21 once each", &log[..log.len().min(12)]);
    ck!(*b == a, "box_arr! and arr! with the same arguments differ");
    Ok(())
}
fn case_list_noncopy_21() -> Result<(), String> {
    take_log(); let a: GA<String, N<21>> = arr![ls(0), ls(1), ls(2), ls(3), ls(4), ls(5), ls(6), ls(7), ls(8), ls(9), ls(10), ls(11), ls(12), ls(13), ls(14), ls(15), ls(16), ls(17), ls(18), ls(19), ls(20)]; let log = take_log();
    ck!(a.iter().enumerate().all(|(i, s)| *s == format!("s{i}")) && a.len() == 21, "arr! list of 21 Strings: wrong contents");
    ck!(log == seq(21), "arr! list of 21 Strings: evaluation order {:?}", &log[..log.len().min(12)]);
    take_log(); take_drops();
    { let d: GA<D, N<21>> = arr![ld(0), ld(1), ld(2), ld(3), ld(4), ld(5), ld(6), ld(7), ld(8), ld(9), ld(10), ld(11), ld(12), ld(13), ld(14), ld(15), ld(16), ld(17), ld(18), ld(19), ld(20)]; ck!(take_drops().is_empty(), "arr! list of 21: an element was dropped while the array is alive");
      ck!(d.iter().enumerate().all(|(i, x)| x.0 == i as u32), "arr! list of 21 drop-tracked elements: wrong contents"); }
    let mut dr = take_drops(); dr.sort(); ck!(dr == seq(21), "arr! list of 21: drop counts after the array is gone: {:?}", &dr[..dr.len().min(12)]);
    take_log(); take_drops();
    { let d: Box<GA<D, N<21>>> = box_arr![ld(0), ld(1), ld(2), ld(3), ld(4), ld(5), ld(6), ld(7), ld(8), ld(9), ld(10), ld(11), ld(12), ld(13), ld(14), ld(15), ld(16), ld(17), ld(18), ld(19), ld(20)]; ck!(take_drops().is_empty(), "box_arr! list of 21: an element was dropped while the box is alive");
      ck!(d.iter().enumerate().all(|(i, x)| x.0 == i as u32), "box_arr! list of 21 drop-tracked elements: wrong contents"); ck!(take_log() == seq(21), "box_arr! list of 21: evaluation order"); }
    let mut dr = take_drops(); dr.sort(); ck!(dr == seq(21), "box_arr! list of 21: drop counts after the box is gone: {:?}", &dr[..dr.len().min(12)]);
    Ok(())
}
const CL_21: GA<u8, N<21>> = arr![1u8, 6u8, 11u8, 16u8, 21u8, 26u8, 31u8, 36u8, 41u8, 46u8, 51u8, 56u8, 61u8, 66u8, 71u8, 76u8, 81u8, 86u8, 91u8, 96u8, 101u8];
static SL_21: GA<u8, N<21>> = arr![1u8, 6u8, 11u8, 16u8, 21u8, 26u8, 31u8, 36u8, 41u8, 46u8, 51u8, 56u8, 61u8, 66u8, 71u8, 76u8, 81u8, 86u8, 91u8, 96u8, 101u8,];
const fn cfl_21() -> GA<u8, N<21>> { arr![1u8, 6u8, 11u8, 16u8, 21u8, 26u8, 31u8, 36u8, 41u8, 46u8, 51u8, 56u8, 61u8, 66u8, 71u8, 76u8, 81u8, 86u8, 91u8, 96u8, 101u8] }
fn case_list_const_21() -> Result<(), String> {
    let nat: [u8; 21] = [1u8, 6u8, 11u8, 16u8, 21u8, 26u8, 31u8, 36u8, 41u8, 46u8, 51u8, 56u8, 61u8, 66u8, 71u8, 76u8, 81u8, 86u8, 91u8, 96u8, 101u8];
    ck!(CL_21.as_slice() == &nat[..] && SL_21.as_slice() == &nat[..] && cfl_21().as_slice() == &nat[..], "arr! list of 21 in const / static / const fn position differs from the native literal");
    Ok(())
}
fn case_list_22() -> Result<(), String> {
    take_log(); let a: GA<u32, N<22>> = arr![lg(0), lg(1), lg(2), lg(3), lg(4), lg(5), lg(6), lg(7), lg(8), lg(9), lg(10), lg(11), lg(12), lg(13), lg(14), lg(15), lg(16), lg(17), lg(18), lg(19), lg(20), lg(21)]; let log = take_log();
    let nat: [u32; 22] = [0u32.wrapping_mul(2654435761), 1u32.wrapping_mul(2654435761), 2u32.wrapping_mul(2654435761), 3u32.wrapping_mul(2654435761), 4u32.wrapping_mul(2654435761), 5u32.wrapping_mul(2654435761), 6u32.wrapping_mul(2654435761), 7u32.wrapping_mul(2654435761), 8u32.wrapping_mul(2654435761), 9u32.wrapping_mul(2654435761), 10u32.wrapping_mul(2654435761), 11u32.wrapping_mul(2654435761), 12u32.wrapping_mul(2654435761), 13u32.wrapping_mul(2654435761), 14u32.wrapping_mul(2654435761), 15u32.wrapping_mul(2654435761), 16u32.wrapping_mul(2654435761), 17u32.wrapping_mul(2654435761), 18u32.wrapping_mul(2654435761), 19u32.wrapping_mul(2654435761), 20u32.wrapping_mul(2654435761), 21u32.wrapping_mul(2654435761)];
    ck!(a.as_slice() == &nat[..], "arr! list of 22: contents {:?} differ from the native array literal", &a.as_slice()[..a.len().min(8)]);
    ck!(log == seq(22), "arr! list of 22: element expressions were evaluated in order {:?}, expected 0..22 once each", &log[..log.len().min(12)]);
    take_log(); let b: Box<GA<u32, N<22>>> = box_arr![lg(0), lg(1), lg(2), lg(3), lg(4), lg(5), lg(6), lg(7), lg(8), lg(9), lg(10), lg(11), lg(12), lg(13), lg(14), lg(15), lg(16), lg(17), lg(18), lg(19), lg(20), lg(21)]; let log = take_log();
    ck!(b.as_slice() == &nat[..], "box_arr! list of 22: contents differ from the native array literal");
    ck!(log == seq(22), "box_arr! list of 22: element expressions were evaluated in order {:?}, expected 0..22 once each", &log[..log.len().min(12)]);
    ck!(*b == a, "box_arr! and arr! with the same arguments differ");
    Ok(())
}
fn case_list_22_trailing() -> Result<(), String> {
    take_log(); let a: GA<u32, N<22>> = arr![lg(0), lg(1), lg(2), lg(3), lg(4), lg(5), lg(6), lg(7), lg(8), lg(9), lg(10), lg(11), lg(12), lg(13), lg(14), lg(15), lg(16), lg(17), lg(18), lg(19), lg(20), lg(21),]; let log = take_log();
    let nat: [u32; 22] = [0u32.wrapping_mul(2654435761), 1u32.wrapping_mul(2654435761), 2u32.wrapping_mul(2654435761), 3u32.wrapping_mul(2654435761), 4u32.wrapping_mul(2654435761), 5u32.wrapping_mul(2654435761), 6u32.wrapping_mul(2654435761), 7u32.wrapping_mul(2654435761), 8u32.wrapping_mul(2654435761), 9u32.wrapping_mul(2654435761), 10u32.wrapping_mul(2654435761), 11u32.wrapping_mul(2654435761), 12u32.wrapping_mul(2654435761), 13u32.wrapping_mul(2654435761), 14u32.wrapping_mul(2654435761), 15u32.wrapping_mul(2654435761), 16u32.wrapping_mul(2654435761), 17u32.wrapping_mul(2654435761), 18u32.wrapping_mul(2654435761), 19u32.wrapping_mul(2654435761), 20u32.wrapping_mul(2654435761), 21u32.wrapping_mul(2654435761)];
    ck!(a.as_slice() == &nat[..], "arr! list of 22: contents {:?} differ from the native array literal", &a.as_slice()[..a.len().min(8)]);
    ck!(log == seq(22), "arr! list of 22: element expressions were evaluated in order {:?}, expected 0..22 once each", &log[..log.len().min(12)]);
    take_log(); let b: Box<GA<u32, N<22>>> = box_arr![lg(0), lg(1), lg(2), lg(3), lg(4), lg(5), lg(6), lg(7), lg(8), lg(9), lg(10), lg(11), lg(12), lg(13), lg(14), lg(15), lg(16), lg(17), lg(18), lg(19), lg(20), lg(21),]; let log = take_log();
    ck!(b.as_slice() == &nat[..], "box_arr! list of 22: contents differ from the native array literal");
    ck!(log == seq(22), "box_arr! list of 22: element expressions were evaluated in order {:?}, expected 0..22 once each", &log[..log.len().min(12)]);
    ck!(*b == a, "box_arr! and arr! with the same arguments differ");
    Ok(())
}
fn case_list_noncopy_22() -> Result<(), String> {
    take_log(); let a: GA<String, N<22>> = arr![ls(0), ls(1), ls(2), ls(3), ls(4), ls(5), ls(6), ls(7), ls(8), ls(9), ls(10), ls(11), ls(12), ls(13), ls(14), ls(15), ls(16), ls(17), ls(18), ls(19), ls(20), ls(21)]; let log = take_log();
    ck!(a.iter().enumerate().all(|(i, s)| *s == format!("s{i}")) && a.len() == 22, "arr! list of 22 Strings: wrong contents");
    ck!(log == seq(22), "arr! list of 22 Strings: evaluation order {:?}", &log[..log.len().min(12)]);
    take_log(); take_drops();
    { let d: GA<D, N<22>> = arr![ld(0), ld(1), ld(2), ld(3), ld(4), ld(5), ld(6), ld(7), ld(8), ld(9), ld(10), ld(11), ld(12), ld(13), ld(14), ld(15), ld(16), ld(17), ld(18), ld(19), ld(20), ld(21)]; ck!(take_drops().is_empty(), "arr! list of 22: an element was dropped while the array is alive");
      ck!(d.iter().enumerate().all(|(i, x)| x.0 == i as u32), "arr! list of 22 drop-tracked elements: wrong contents"); }
    let mut dr = take_drops(); dr.sort(); ck!(dr == seq(22), "arr! list of 22: drop counts after the array is gone: {:?}", &dr[..dr.len().min(12)]);
    take_log(); take_drops();
    { let d: Box<GA<D, N<22>>> = box_arr![ld(0), ld(1), ld(2), ld(3), ld(4), ld(5), ld(6), ld(7), ld(8), ld(9), ld(10), ld(11), ld(12), ld(13), ld(14), ld(15), ld(16), ld(17), ld(18), ld(19), ld(20), ld(21)]; ck!(take_drops().is_empty(), "box_arr! list of 22: an element was dropped while the box is alive");
      ck!(d.iter().enumerate().all(|(i, x)| x.0 == i as u32), "box_arr! list of 22 drop-tracked elements: wrong contents"); ck!(take_log() == seq(22), "box_arr! list of 22: evaluation order"); }
    let mut dr = take_drops(); dr.sort(); ck!(dr == seq(22), "box_arr! list of 22: drop counts after the box is gone: {:?}", &dr[..dr.len().min(12)]);
    Ok(())
}
const CL_22: GA<u8, N<22>> = arr![1u8, 6u8, 11u8, 16u8, 21u8, 26u8, 31u8, 36u8, 41u8, 46u8, 51u8, 56u8, 61u8, 66u8, 71u8, 76u8, 81u8, 86u8, 91u8, 96u8, 101u8, 106u8];
static SL_22: GA<u8, N<22>> = arr![1u8, 6u8, 11u8, 16u8, 21u8, 26u8, 31u8, 36u8, 41u8, 46u8, 51u8, 56u8, 61u8, 66u8, 71u8, 76u8, 81u8, 86u8, 91u8, 96u8, 101u8, 106u8,];
const fn cfl_22() -> GA<u8, N<22>> { arr![1u8, 6u8, 11u8, 16u8, 21u8, 26u8, 31u8, 36u8, 41u8, 46u8, 51u8, 56u8, 61u8, 66u8, 71u8, 76u8, 81u8, 86u8, 91u8, 96u8, 101u8, 106u8] }
fn case_list_const_22() -> Result<(), String> {
    let nat: [u8; 22] = [1u8, 6u8, 11u8, 16u8, 21u8, 26u8, 31u8, 36u8, 41u8, 46u8, 51u8, 56u8, 61u8, 66u8, 71u8, 76u8, 81u8, 86u8, 91u8, 96u8, 101u8, 106u8];
    ck!(CL_22.as_slice() == &nat[..] && SL_22.as_slice() == &nat[..] && cfl_22().as_slice() == &nat[..], "arr! list of 22 in const / static / const fn position differs from the native literal");
    Ok(())
}
fn case_list_23() -> Result<(), String> {
    take_log(); let a: GA<u32, N<23>> = arr![lg(0), lg(1), lg(2), lg(3), lg(4), lg(5), lg(6), lg(7), lg(8), lg(9), lg(10), lg(11), lg(12), lg(13), lg(14), lg(15), lg(16), lg(17), lg(18), lg(19), lg(20), lg(21), lg(22)]; let log = take_log();
    let nat: [u32; 23] = [0u32.wrapping_mul(2654435761), 1u32.wrapping_mul(2654435761), 2u32.wrapping_mul(2654435761), 3u32.wrapping_mul(2654435761), 4u32.wrapping_mul(2654435761), 5u32.wrapping_mul(2654435761), 6u32.wrapping_mul(2654435761), 7u32.wrapping_mul(2654435761), 8u32.wrapping_mul(2654435761), 9u32.wrapping_mul(2654435761), 10u32.wrapping_mul(2654435761), 11u32.wrapping_mul(2654435761), 12u32.wrapping_mul(2654435761), 13u32.wrapping_mul(2654435761), 14u32.wrapping_mul(2654435761), 15u32.wrapping_mul(2654435761), 16u32.wrapping_mul(2654435761), 17u32.wrapping_mul(2654435761), 18u32.wrapping_mul(2654435761), 19u32.wrapping_mul(2654435761), 20u32.wrapping_mul(2654435761), 21u32.wrapping_mul(2654435761), 22u32.wrapping_mul(2654435761)];
    ck!(a.as_slice() == &nat[..], "arr! list of 23: contents {:?} differ from the native array literal", &a.as_slice()[..a.len().min(8)]);
    ck!(log == seq(23), "arr! list of 23: element expressions were evaluated in order {:?}, expected 0..23 once each", &log[..log.len().min(12)]);
    take_log(); let b: Box<GA<u32, N<23>>> = box_arr![lg(0), lg(1), lg(2), lg(3), lg(4), lg(5), lg(6), lg(7), lg(8), lg(9), lg(10), lg(11), lg(12), lg(13), lg(14), lg(15), lg(16), lg(17), lg(18), lg(19), lg(20), lg(21), lg(22)]; let log = take_log();
    ck!(b.as_slice() == &nat[..], "box_arr! list of 23: contents differ from the native array literal");
    ck!(log == seq(23), "box_arr! list of 23: element expressions were evaluated in order {:?}, expected 0..23 once each", &log[..log.len().min(12)]);
    ck!(*b == a, "box_arr! and arr! with the same arguments differ");
    Ok(())
}
fn case_list_23_trailing() -> Result<(), String> {
    take_log(); let a: GA<u32, N<23>> = arr![lg(0), lg(1), lg(2), lg(3), lg(4), lg(5), lg(6), lg(7), lg(8), lg(9), lg(10), lg(11), lg(12), lg(13), lg(14), lg(15), lg(16), lg(17), lg(18), lg(19), lg(20), lg(21), lg(22),]; let log = take_log();
    let nat: [u32; 23] = [0u32.wrapping_mul(2654435761), 1u32.wrapping_mul(2654435761), 2u32.wrapping_mul(2654435761), 3u32.wrapping_mul(2654435761), 4u32.wrapping_mul(2654435761), 5u32.wrapping_mul(2654435761), 6u32.wrapping_mul(2654435761), 7u32.wrapping_mul(2654435761), 8u32.wrapping_mul(2654435761), 9u32.wrapping_mul(2654435761), 10u32.wrapping_mul(2654435761), 11u32.wrapping_mul(2654435761), 12u32.wrapping_mul(2654435761), 13u32.wrapping_mul(2654435761), 14u32.wrapping_mul(2654435761), 15u32.wrapping_mul(2654435761), 16u32.wrapping_mul(2654435761), 17u32.wrapping_mul(2654435761), 18u32.wrapping_mul(2654435761), 19u32.wrapping_mul(2654435761), 20u32.wrapping_mul(2654435761), 21u32.wrapping_mul(2654435761), 22u32.wrapping_mul(2654435761)];
    ck!(a.as_slice() == &nat[..], "arr! list of 23: contents {:?} differ from the native array literal", &a.as_slice()[..a.len().min(8)]);
    ck!(log == seq(23), "arr! list of 23: element expressions were evaluated in order {:?}, expected 0..23 once each", &log[..log.len().min(12)]);
    take_log(); let b: Box<GA<u32, N<23>>> = box_arr![lg(0), lg(1), lg(2), lg(3), lg(4), lg(5), lg(6), lg(7), lg(8), lg(9), lg(10), lg(11), lg(12), lg(13), lg(14), lg(15), lg(16), lg(17), lg(18), lg(19), lg(20), lg(21), lg(22),]; let log = take_log();
    ck!(b.as_slice() == &nat[..], "box_arr! list of 23: contents differ from the native array literal");
    ck!(log == seq(23), "box_arr! list of 23: element expressions were evaluated in order {:?}, expected 0..23 once each", &log[..log.len().min(12)]);
    ck!(*b == a, "box_arr! and arr! with the same arguments differ");
    Ok(())
}
fn case_list_noncopy_23() -> Result<(), String> {
    take_log(); let a: GA<String, N<23>> = arr![ls(0), ls(1), ls(2), ls(3), ls(4), ls(5), ls(6), ls(7), ls(8), ls(9), ls(10), ls(11), ls(12), ls(13), ls(14), ls(15), ls(16), ls(17), ls(18), ls(19), ls(20), ls(21), ls(22)]; let log = take_log();
    ck!(a.iter().enumerate().all(|(i, s)| *s == format!("s{i}")) && a.len() == 23, "arr! list of 23 Strings: wrong contents");
    ck!(log == seq(23), "arr! list of 23 Strings: evaluation order {:?}", &log[..log.len().min(12)]);
    take_log(); take_drops();
    { let d: GA<D, N<23>> = arr![ld(0), ld(1), ld(2), ld(3), ld(4), ld(5), ld(6), ld(7), ld(8), ld(9), ld(10), ld(11), ld(12), ld(13), ld(14), ld(15), ld(16), ld(17), ld(18), ld(19), ld(20), ld(21), ld(22)]; ck!(take_drops().is_empty(), "arr! list of 23: an element was dropped while the array is alive");
      ck!(d.iter().enumerate().all(|(i, x)| x.0 == i as u32), "arr! list of 23 drop-tracked elements: wrong contents"); }
    let mut dr = take_drops(); dr.sort(); ck!(dr == seq(23), "arr! list of 23: drop counts after the array is gone: {:?}", &dr[..dr.len().min(12)]);
    take_log(); take_drops();
    { let d: Box<GA<D, N<23>>> = box_arr![ld(0), ld(1), ld(2), ld(3), ld(4), ld(5), ld(6), ld(7), ld(8), ld(9), ld(10), ld(11), ld(12), ld(13), ld(14), ld(15), ld(16), ld(17), ld(18), ld(19), ld(20), ld(21), ld(22)]; ck!(take_drops().is_empty(), "box_arr! list of 23: an element was dropped while the box is alive");
      ck!(d.iter().enumerate().all(|(i, x)| x.0 == i as u32), "box_arr! list of 23 drop-tracked elements: wrong contents"); ck!(take_log() == seq(23), "box_arr! list of 23: evaluation order"); }
    let mut dr = take_drops(); dr.sort(); ck!(dr == seq(23), "box_arr! list of 23: drop counts after the box is gone: {:?}", &dr[..dr.len().min(12)]);
    Ok(())
}
const CL_23: GA<u8, N<23>> = arr![1u8, 6u8, 11u8, 16u8, 21u8, 26u8, 31u8, 36u8, 41u8, 46u8, 51u8, 56u8, 61u8, 66u8, 71u8, 76u8, 81u8, 86u8, 91u8, 96u8, 101u8, 106u8, 111u8];
static SL_23: GA<u8, N<23>> = arr![1u8, 6u8, 11u8, 16u8, 21u8, 26u8, 31u8, 36u8, 41u8, 46u8, 51u8, 56u8, 61u8, 66u8, 71u8, 76u8, 81u8, 86u8, 91u8, 96u8, 101u8, 106u8, 111u8,];
const fn cfl_23() -> GA<u8, N<23>> { arr![1u8, 6u8, 11u8, 16u8, 21u8, 26u8, 31u8, 36u8, 41u8, 46u8, 51u8, 56u8, 61u8, 66u8, 71u8, 76u8, 81u8, 86u8, 91u8, 96u8, 101u8, 106u8, 111u8] }
fn case_list_const_23() -> Result<(), String> {
    let nat: [u8; 23] = [1u8, 6u8, 11u8, 16u8, 21u8, 26u8, 31u8, 36u8, 41u8, 46u8, 51u8, 56u8, 61u8, 66u8, 71u8, 76u8, 81u8, 86u8, 91u8, 96u8, 101u8, 106u8, 111u8];
    ck!(CL_23.as_slice() == &nat[..] && SL_23.as_slice() == &nat[..] && cfl_23().as_slice() == &nat[..], "arr! list of 23 in const / static / const fn position differs from the native literal");
    Ok(())
}
fn case_list_24() -> Result<(), String> {
    take_log(); let a: GA<u32, N<24>> = arr![lg(0), lg(1), lg(2), lg(3), lg(4), lg(5), lg(6), lg(7), lg(8), lg(9), lg(10), lg(11), lg(12), lg(13), lg(14), lg(15), lg(16), lg(17), lg(18), lg(19), lg(20), lg(21), lg(22), lg(23)]; let log = take_log();
    let nat: [u32; 24] = [0u32.wrapping_mul(2654435761), 1u32.wrapping_mul(2654435761), 2u32.wrapping_mul(2654435761), 3u32.wrapping_mul(2654435761), 4u32.wrapping_mul(2654435761), 5u32.wrapping_mul(2654435761), 6u32.wrapping_mul(2654435761), 7u32.wrapping_mul(2654435761), 8u32.wrapping_mul(2654435761), 9u32.wrapping_mul(2654435761), 10u32.wrapping_mul(2654435761), 11u32.wrapping_mul(2654435761), 12u32.wrapping_mul(2654435761), 13u32.wrapping_mul(2654435761), 14u32.wrapping_mul(2654435761), 15u32.wrapping_mul(2654435761), 16u32.wrapping_mul(2654435761), 17u32.wrapping_mul(2654435761), 18u32.wrapping_mul(2654435761), 19u32.wrapping_mul(2654435761), 20u32.wrapping_mul(2654435761), 21u32.wrapping_mul(2654435761), 22u32.wrapping_mul(2654435761), 23u32.wrapping_mul(2654435761)];
    ck!(a.as_slice() == &nat[..], "arr! list of 24: contents {:?} differ from the native array literal", &a.as_slice()[..a.len().min(8)]);
    ck!(log == seq(24), "arr! list of 24: element expressions were evaluated in order {:?}, expected 0..24 once each", &log[..log.len().min(12)]);
    take_log(); let b: Box<GA<u32, N<24>>> = box_arr![lg(0), lg(1), lg(2), lg(3), lg(4), lg(5), lg(6), lg(7), lg(8), lg(9), lg(10), lg(11), lg(12), lg(13), lg(14), lg(15), lg(16), lg(17), lg(18), lg(19), lg(20), lg(21), lg(22), lg(23)]; let log = take_log();
    ck!(b.as_slice() == &nat[..], "box_arr! list of 24: contents differ from the native array literal");
    ck!(log == seq(24), "box_arr! list of 24: element expressions were evaluated in order {:?}, expected 0..24 once each", &log[..log.len().min(12)]);
    ck!(*b == a, "box_arr! and arr! with the same arguments differ");
    Ok(())
}
fn case_list_24_trailing() -> Result<(), String> {
    take_log(); let a: GA<u32, N<24>> = arr![lg(0), lg(1), lg(2), lg(3), lg(4), lg(5), lg(6), lg(7), lg(8), lg(9), lg(10), lg(11), lg(12), lg(13), lg(14), lg(15), lg(16), lg(17), lg(18), lg(19), lg(20), lg(21), lg(22), lg(23),]; let log = take_log();
    let nat: [u32; 24] = [0u32.wrapping_mul(2654435761), 1u32.wrapping_mul(2654435761), 2u32.wrapping_mul(2654435761), 3u32.wrapping_mul(2654435761), 4u32.wrapping_mul(2654435761), 5u32.wrapping_mul(2654435761), 6u32.wrapping_mul(2654435761), 7u32.wrapping_mul(2654435761), 8u32.wrapping_mul(2654435761), 9u32.wrapping_mul(2654435761), 10u32.wrapping_mul(2654435761), 11u32.wrapping_mul(2654435761), 12u32.wrapping_mul(2654435761), 13u32.wrapping_mul(2654435761), 14u32.wrapping_mul(2654435761), 15u32.wrapping_mul(2654435761), 16u32.wrapping_mul(2654435761), 17u32.wrapping_mul(2654435761), 18u32.wrapping_mul(2654435761), 19u32.wrapping_mul(2654435761), 20u32.wrapping_mul(2654435761), 21u32.wrapping_mul(2654435761), 22u32.wrapping_mul(2654435761), 23u32.wrapping_mul(2654435761)];
    ck!(a.as_slice() == &nat[..], "arr! list of 24: contents {:?} differ from the native array literal", &a.as_slice()[..a.len().min(8)]);
    ck!(log == seq(24), "arr! list of 24: element expressions were evaluated in order {:?}, expected 0..24 once each", &log[..log.len().min(12)]);
    take_log(); let b: Box<GA<u32, N<24>>> = box_arr![lg(0), lg(1), lg(2), lg(3), lg(4), lg(5), lg(6), lg(7), lg(8), lg(9), lg(10), lg(11), lg(12), lg(13), lg(14), lg(15), lg(16), lg(17), lg(18), lg(19), lg(20), lg(21), lg(22), lg(23),]; let log = take_log();
    ck!(b.as_slice() == &nat[..], "box_arr! list of 24: contents differ from the native array literal");
    ck!(log == seq(24), "box_arr! list of 24: element expressions were evaluated in order {:?}, expected 0..24 once each", &log[..log.len().min(12)]);
    ck!(*b == a, "box_arr! and arr! with the same arguments differ");
    Ok(())
}
fn case_list_noncopy_24() -> Result<(), String> {
    take_log(); let a: GA<String, N<24>> = arr![ls(0), ls(1), ls(2), ls(3), ls(4), ls(5), ls(6), ls(7), ls(8), ls(9), ls(10), ls(11), ls(12), ls(13), ls(14), ls(15), ls(16), ls(17), ls(18), ls(19), ls(20), ls(21), ls(22), ls(23)]; let log = take_log();
    ck!(a.iter().enumerate().all(|(i, s)| *s == format!("s{i}")) && a.len() == 24, "arr! list of 24 Strings: wrong contents");
    ck!(log == seq(24), "arr! list of 24 Strings: evaluation order {:?}", &log[..log.len().min(12)]);
    take_log(); take_drops();
    { let d: GA<D, N<24>> = arr![ld(0), ld(1), ld(2), ld(3), ld(4), ld(5), ld(6), ld(7), ld(8), ld(9), ld(10), ld(11), ld(12), ld(13), ld(14), ld(15), ld(16), ld(17), ld(18), ld(19), ld(20), ld(21), ld(22), ld(23)]; ck!(take_drops().is_empty(), "arr! list of 24: an element was dropped while the array is alive");
      ck!(d.iter().enumerate().all(|(i, x)| x.0 == i as u32), "arr! list of 24 drop-tracked elements: wrong contents"); }
    let mut dr = take_drops(); dr.sort(); ck!(dr == seq(24), "arr! list of 24: drop counts after the array is gone: {:?}", &dr[..dr.len().min(12)]);
    take_log(); take_drops();
    { let d: Box<GA<D, N<24>>> = box_arr![ld(0), ld(1), ld(2), ld(3), ld(4), ld(5), ld(6), ld(7), ld(8), ld(9), ld(10), ld(11), ld(12), ld(13), ld(14), ld(15), ld(16), ld(17), ld(18), ld(19), ld(20), ld(21), ld(22), ld(23)]; ck!(take_drops().is_empty(), "box_arr! list of 24: an element was dropped while the box is alive");
      ck!(d.iter().enumerate().all(|(i, x)| x.0 == i as u32), "box_arr! list of 24 drop-tracked elements: wrong contents"); ck!(take_log() == seq(24), "box_arr! list of 24: evaluation order"); }
    let mut dr = take_drops(); dr.sort(); ck!(dr == seq(24), "box_arr! list of 24: drop counts after the box is gone: {:?}", &dr[..dr.len().min(12)]);
    Ok(())
}
const CL_24: GA<u8, N<24>> = arr![1u8, 6u8, 11u8, 16u8, 21u8, 26u8, 31u8, 36u8, 41u8, 46u8, 51u8, 56u8, 61u8, 66u8, 71u8, 76u8, 81u8, 86u8, 91u8, 96u8, 101u8, 106u8, 111u8, 116u8];
static SL_24: GA<u8, N<24>> = arr![1u8, 6u8, 11u8, 16u8, 21u8, 26u8, 31u8, 36u8, 41u8, 46u8, 51u8, 56u8, 61u8, 66u8, 71u8, 76u8, 81u8, 86u8, 91u8, 96u8, 101u8, 106u8, 111u8, 116u8,];
const fn cfl_24() -> GA<u8, N<24>> { arr![1u8, 6u8, 11u8, 16u8, 21u8, 26u8, 31u8, 36u8, 41u8, 46u8, 51u8, 56u8, 61u8, 66u8, 71u8, 76u8, 81u8, 86u8, 91u8, 96u8, 101u8, 106u8, 111u8, 116u8] }
fn case_list_const_24() -> Result<(), String> {
    let nat: [u8; 24] = [1u8, 6u8, 11u8, 16u8, 21u8, 26u8, 31u8, 36u8, 41u8, 46u8, 51u8, 56u8, 61u8, 66u8, 71u8, 76u8, 81u8, 86u8, 91u8, 96u8, 101u8, 106u8, 111u8, 116u8];
    ck!(CL_24.as_slice() == &nat[..] && SL_24.as_slice() == &nat[..] && cfl_24().as_slice() == &nat[..], "arr! list of 24 in const / static / const fn position differs from the native literal");
    Ok(())
}
fn case_list_25() -> Result<(), String> {
    take_log(); let a: GA<u32, N<25>> = arr![lg(0), lg(1), lg(2), lg(3), lg(4), lg(5), lg(6), lg(7), lg(8), lg(9), lg(10), lg(11), lg(12), lg(13), lg(14), lg(15), lg(16), lg(17), lg(18), lg(19), lg(20), lg(21), lg(22), lg(23), lg(24)]; let log = take_log();
    let nat: [u32; 25] = [0u32.wrapping_mul(2654435761), 1u32.wrapping_mul(2654435761), 2u32.wrapping_mul(2654435761), 3u32.wrapping_mul(2654435761), 4u32.wrapping_mul(2654435761), 5u32.wrapping_mul(2654435761), 6u32.wrapping_mul(2654435761), 7u32.wrapping_mul(2654435761), 8u32.wrapping_mul(2654435761), 9u32.wrapping_mul(2654435761), 10u32.wrapping_mul(2654435761), 11u32.wrapping_mul(2654435761), 12u32.wrapping_mul(2654435761), 13u32.wrapping_mul(2654435761), 14u32.wrapping_mul(2654435761), 15u32.wrapping_mul(2654435761), 16u32.wrapping_mul(2654435761), 17u32.wrapping_mul(2654435761), 18u32.wrapping_mul(2654435761), 19u32.wrapping_mul(2654435761), 20u32.wrapping_mul(2654435761), 21u32.wrapping_mul(2654435761), 22u32.wrapping_mul(2654435761), 23u32.wrapping_mul(2654435761), 24u32.wrapping_mul(2654435761)];
    ck!(a.as_slice() == &nat[..], "arr! list of 25: contents {:?} differ from the native array literal", &a.as_slice()[..a.len().min(8)]);
    ck!(log == seq(25), "arr! list of 25: element expressions were evaluated in order {:?}, expected 0..25 once each", &log[..log.len().min(12)]);
    take_log(); let b: Box<GA<u32, N<25>>> = box_arr![lg(0), lg(1), lg(2), lg(3), lg(4), lg(5), lg(6), lg(7), lg(8), lg(9), lg(10), lg(11), lg(12), lg(13), lg(14), lg(15), lg(16), lg(17), lg(18), lg(19), lg(20), lg(21), lg(22), lg(23), lg(24)]; let log = take_log();
    ck!(b.as_slice() == &nat[..], "box_arr! list of 25: contents differ from the native array literal");
    ck!(log == seq(25), "box_arr! list of 25: element expressions were evaluated in order {:?}, expected 0..25 once each", &log[..log.len().min(12)]);
    ck!(*b == a, "box_arr! and arr! with the same arguments differ");
    Ok(())
}
fn case_list_25_trailing() -> Result<(), String> {
    take_log(); let a: GA<u32, N<25>> = arr![lg(0), lg(1), lg(2), lg(3), lg(4), lg(5), lg(6), lg(7), lg(8), lg(9), lg(10), lg(11), lg(12), lg(13), lg(14), lg(15), lg(16), lg(17), lg(18), lg(19), lg(20), lg(21), lg(22), lg(23), lg(24),]; let log = take_log();
    let nat: [u32; 25] = [0u32.wrapping_mul(2654435761), 1u32.wrapping_mul(2654435761), 2u32.wrapping_mul(2654435761), 3u32.wrapping_mul(2654435761), 4u32.wrapping_mul(2654435761), 5u32.wrapping_mul(2654435761), 6u32.wrapping_mul(2654435761), 7u32.wrapping_mul(2654435761), 8u32.wrapping_mul(2654435761), 9u32.wrapping_mul(2654435761), 10u32.wrapping_mul(2654435761), 11u32.wrapping_mul(2654435761), 12u32.wrapping_mul(2654435761), 13u32.wrapping_mul(2654435761), 14u32.wrapping_mul(2654435761), 15u32.wrapping_mul(2654435761), 16u32.wrapping_mul(2654435761), 17u32.wrapping_mul(2654435761), 18u32.wrapping_mul(2654435761), 19u32.wrapping_mul(2654435761), 20u32.wrapping_mul(2654435761), 21u32.wrapping_mul(2654435761), 22u32.wrapping_mul(2654435761), 23u32.wrapping_mul(2654435761), 24u32.wrapping_mul(2654435761)];
    ck!(a.as_slice() == &nat[..], "arr! list of 25: contents {:?} differ from the native array literal", &a.as_slice()[..a.len().min(8)]);
    ck!(log == seq(25), "arr! list of 25: element expressions were evaluated in order {:?}, expected 0..25 once each", &log[..log.len().min(12)]);
    take_log(); let b: Box<GA<u32, N<25>>> = box_arr![lg(0), lg(1), lg(2), lg(3), lg(4), lg(5), lg(6), lg(7), lg(8), lg(9), lg(10), lg(11), lg(12), lg(13), lg(14), lg(15), lg(16), lg(17), lg(18), lg(19), lg(20), lg(21), lg(22), lg(23), lg(24),]; let log = take_log();
    ck!(b.as_slice() == &nat[..], "box_arr! list of 25: contents differ from the native array literal");
    ck!(log == seq(25), "box_arr! list of 25: element expressions were evaluated in order {:?}, expected 0..25 once each", &log[..log.len().min(12)]);
    ck!(*b == a, "box_arr! and arr! with the same arguments differ");
    Ok(())
}
fn case_list_noncopy_25() -> Result<(), String> {
    take_log(); let a: GA<String, N<25>> = arr![ls(0), ls(1), ls(2), ls(3), ls(4), ls(5), ls(6), ls(7), ls(8), ls(9), ls(10), ls(11), ls(12), ls(13), ls(14), ls(15), ls(16), ls(17), ls(18), ls(19), ls(20), ls(21), ls(22), ls(23), ls(24)]; let log = take_log();
    ck!(a.iter().enumerate().all(|(i, s)| *s == format!("s{i}")) && a.len() == 25, "arr! list of 25 Strings: wrong contents");
    ck!(log == seq(25), "arr! list of 25 Strings: evaluation order {:?}", &log[..log.len().min(12)]);
    take_log(); take_drops();
    { let d: GA<D, N<25>> = arr![ld(0), ld(1), ld(2), ld(3), ld(4), ld(5), ld(6), ld(7), ld(8), ld(9), ld(10), ld(11), ld(12), ld(13), ld(14), ld(15), ld(16), ld(17), ld(18), ld(19), ld(20), ld(21), ld(22), ld(23), ld(24)]; ck!(take_drops().is_empty(), "arr! list of 25: an element was dropped while the array is alive");
      ck!(d.iter().enumerate().all(|(i, x)| x.0 == i as u32), "arr! list of 25 drop-tracked elements: wrong contents"); }
    let mut dr = take_drops(); dr.sort(); ck!(dr == seq(25), "arr! list of 25: drop counts after the array is gone: {:?}", &dr[..dr.len().min(12)]);
    take_log(); take_drops();
    { let d: Box<GA<D, N<25>>> = box_arr![ld(0), ld(1), ld(2), ld(3), ld(4), ld(5), ld(6), ld(7), ld(8), ld(9), ld(10), ld(11), ld(12), ld(13), ld(14), ld(15), ld(16), ld(17), ld(18), ld(19), ld(20), ld(21), ld(22), ld(23), ld(24)]; ck!(take_drops().is_empty(), "box_arr! list of 25: an element was dropped while the box is alive");
      ck!(d.iter().enumerate().all(|(i, x)| x.0 == i as u32), "box_arr! list of 25 drop-tracked elements: wrong contents"); ck!(take_log() == seq(25), "box_arr! list of 25: evaluation order"); }
    let mut dr = take_drops(); dr.sort(); ck!(dr == seq(25), "box_arr! list of 25: drop counts after the box is gone: {:?}", &dr[..dr.len().min(12)]);
    Ok(())
}
const CL_25: GA<u8, N<25>> = arr![1u8, 6u8, 11u8, 16u8, 21u8, 26u8, 31u8, 36u8, 41u8, 46u8, 51u8, 56u8, 61u8, 66u8, 71u8, 76u8, 81u8, 86u8, 91u8, 96u8, 101u8, 106u8, 111u8, 116u8, 121u8];
static SL_25: GA<u8, N<25>> = arr![1u8, 6u8, 11u8, 16u8, 21u8, 26u8, 31u8, 36u8, 41u8, 46u8, 51u8, 56u8, 61u8, 66u8, 71u8, 76u8, 81u8, 86u8, 91u8, 96u8, 101u8, 106u8, 111u8, 116u8, 121u8,];
const fn cfl_25() -> GA<u8, N<25>> { arr![1u8, 6u8, 11u8, 16u8, 21u8, 26u8, 31u8, 36u8, 41u8, 46u8, 51u8, 56u8, 61u8, 66u8, 71u8, 76u8, 81u8, 86u8, 91u8, 96u8, 101u8, 106u8, 111u8, 116u8, 121u8] }
fn case_list_const_25() -> Result<(), String> {
    let nat: [u8; 25] = [1u8, 6u8, 11u8, 16u8, 21u8, 26u8, 31u8, 36u8, 41u8, 46u8, 51u8, 56u8, 61u8, 66u8, 71u8, 76u8, 81u8, 86u8, 91u8, 96u8, 101u8, 106u8, 111u8, 116u8, 121u8];
    ck!(CL_25.as_slice() == &nat[..] && SL_25.as_slice() == &nat[..] && cfl_25().as_slice() == &nat[..], "arr! list of 25 in const / static / const fn position differs from the native literal");
    Ok(())
}
fn case_list_26() -> Result<(), String> {
    take_log(); let a: GA<u32, N<26>> = arr![lg(0), lg(1), lg(2), lg(3), lg(4), lg(5), lg(6), lg(7), lg(8), lg(9), lg(10), lg(11), lg(12), lg(13), lg(14), lg(15), lg(16), lg(17), lg(18), lg(19), lg(20), lg(21), lg(22), lg(23), lg(24), lg(25)]; let log = take_log();
    let nat: [u32; 26] = [0u32.wrapping_mul(2654435761), 1u32.wrapping_mul(2654435761), 2u32.wrapping_mul(2654435761), 3u32.wrapping_mul(2654435761), 4u32.wrapping_mul(2654435761), 5u32.wrapping_mul(2654435761), 6u32.wrapping_mul(2654435761), 7u32.wrapping_mul(2654435761), 8u32.wrapping_mul(2654435761), 9u32.wrapping_mul(2654435761), 10u32.wrapping_mul(2654435761), 11u32.wrapping_mul(2654435761), 12u32.wrapping_mul(2654435761), 13u32.wrapping_mul(2654435761), 14u32.wrapping_mul(2654435761), 15u32.wrapping_mul(2654435761), 16u32.wrapping_mul(2654435761), 17u32.wrapping_mul(2654435761), 18u32.wrapping_mul(2654435761), 19u32.wrapping_mul(2654435761), 20u32.wrapping_mul(2654435761), 21u32.wrapping_mul(2654435761), 22u32.wrapping_mul(2654435761), 23u32.wrapping_mul(2654435761), 24u32.wrapping_mul(2654435761), 25u32.wrapping_mul(2654435761)];
    ck!(a.as_slice() == &nat[..], "arr! list of 26: contents {:?} differ from the native array literal", &a.as_slice()[..a.len().min(8)]);
    ck!(log == seq(26), "arr! list of 26: element expressions were evaluated in order {:?}, expected 0..26 once each", &log[..log.len().min(12)]);
    take_log(); let b: Box<GA<u32, N<26>>> = box_arr![lg(0), lg(1), lg(2), lg(3), lg(4), lg(5), lg(6), lg(7), lg(8), lg(9), lg(10), lg(11), lg(12), lg(13), lg(14), lg(15), lg(16), lg(17), lg(18), lg(19), lg(20), lg(21), lg(22), lg(23), lg(24), lg(25)]; let log = take_log();
    ck!(b.as_slice() == &nat[..], "box_arr! list of 26: contents differ from the native array literal");
    ck!(log == seq(26), "box_arr! list of 26: element expressions were evaluated in order {:?}, expected 0..26 once each", &log[..log.len().min(12)]);
    ck!(*b == a, "box_arr! and arr! with the same arguments differ");
    Ok(())
}
fn case_list_26_trailing() -> Result<(), String> {
    take_log(); let a: GA<u32, N<26>> = arr![lg(0), lg(1), lg(2), lg(3), lg(4), lg(5), lg(6), lg(7), lg(8), lg(9), lg(10), lg(11), lg(12), lg(13), lg(14), lg(15), lg(16), lg(17), lg(18), lg(19), lg(20), lg(21), lg(22), lg(23), lg(24), lg(25),]; let log = take_log();
    let nat: [u32; 26] = [0u32.wrapping_mul(2654435761), 1u32.wrapping_mul(2654435761), 2u32.wrapping_mul(2654435761), 3u32.wrapping_mul(2654435761), 4u32.wrapping_mul(2654435761), 5u32.wrapping_mul(2654435761), 6u32.wrapping_mul(2654435761), 7u32.wrapping_mul(2654435761), 8u32.wrapping_mul(2654435761), 9u32.wrapping_mul(2654435761), 10u32.wrapping_mul(2654435761), 11u32.wrapping_mul(2654435761), 12u32.wrapping_mul(2654435761), 13u32.wrapping_mul(2654435761), 14u32.wrapping_mul(2654435761), 15u32.wrapping_mul(2654435761), 16u32.wrapping_mul(2654435761), 17u32.wrapping_mul(2654435761), 18u32.wrapping_mul(2654435761), 19u32.wrapping_mul(2654435761), 20u32.wrapping_mul(2654435761), 21u32.wrapping_mul(2654435761), 22u32.wrapping_mul(2654435761), 23u32.wrapping_mul(2654435761), 24u32.wrapping_mul(2654435761), 25u32.wrapping_mul(2654435761)];
    ck!(a.as_slice() == &nat[..], "arr! list of 26: contents {:?} differ from the native array literal", &a.as_slice()[..a.len().min(8)]);
    ck!(log == seq(26), "arr! list of 26: element expressions were evaluated in order {:?}, expected 0..26 once each", &log[..log.len().min(12)]);
    take_log(); let b: Box<GA<u32, N<26>>> = box_arr![lg(0), lg(1), lg(2), lg(3), lg(4), lg(5), lg(6), lg(7), lg(8), lg(9), lg(10), lg(11), lg(12), lg(13), lg(14), lg(15), lg(16), lg(17), lg(18), lg(19), lg(20), lg(21), lg(22), lg(23), lg(24), lg(25),]; let log = take_log();
    ck!(b.as_slice() == &nat[..], "box_arr! list of 26: contents differ from the native array literal");
    ck!(log == seq(26), "box_arr! list of 26: element expressions were evaluated in order {:?}, expected 0..26 once each", &log[..log.len().min(12)]);
    ck!(*b == a, "box_arr! and arr! with the same arguments differ");
    Ok(())
}
fn case_list_noncopy_26() -> Result<(), String> {
    take_log(); let a: GA<String, N<26>> = arr![ls(0), ls(1), ls(2), ls(3), ls(4), ls(5), ls(6), ls(7), ls(8), ls(9), ls(10), ls(11), ls(12), ls(13), ls(14), ls(15), ls(16), ls(17), ls(18), ls(19), ls(20), ls(21), ls(22), ls(23), ls(24), ls(25)]; let log = take_log();
    ck!(a.iter().enumerate().all(|(i, s)| *s == format!("s{i}")) && a.len() == 26, "arr! list of 26 Strings: wrong contents");
    ck!(log == seq(26), "arr! list of 26 Strings: evaluation order {:?}", &log[..log.len().min(12)]);
    take_log(); take_drops();
    { let d: GA<D, N<26>> = arr![ld(0), ld(1), ld(2), ld(3), ld(4), ld(5), ld(6), ld(7), ld(8), ld(9), ld(10), ld(11), ld(12), ld(13), ld(14), ld(15), ld(16), ld(17), ld(18), ld(19), ld(20), ld(21), ld(22), ld(23), ld(24), ld(25)]; ck!(take_drops().is_empty(), "arr! list of 26: an element was dropped while the array is alive");
      ck!(d.iter().enumerate().all(|(i, x)| x.0 == i as u32), "arr! list of 26 drop-tracked elements: wrong contents"); }
    let mut dr = take_drops(); dr.sort(); ck!(dr == seq(26), "arr! list of 26: drop counts after the array is gone: {:?}", &dr[..dr.len().min(12)]);
    take_log(); take_drops();
    { let d: Box<GA<D, N<26>>> = box_arr![ld(0), ld(1), ld(2), ld(3), ld(4), ld(5), ld(6), ld(7), ld(8), ld(9), ld(10), ld(11), ld(12), ld(13), ld(14), ld(15), ld(16), ld(17), ld(18), ld(19), ld(20), ld(21), ld(22), ld(23), ld(24), ld(25)]; ck!(take_drops().is_empty(), "box_arr! list of 26: an element was dropped while the box is alive");
      ck!(d.iter().enumerate().all(|(i, x)| x.0 == i as u32), "box_arr! list of 26 drop-tracked elements: wrong contents"); ck!(take_log() == seq(26), "box_arr! list of 26: evaluation order"); }
    let mut dr = take_drops(); dr.sort(); ck!(dr == seq(26), "box_arr! list of 26: drop counts after the box is gone: {:?}", &dr[..dr.len().min(12)]);
    Ok(())
}
const CL_26: GA<u8, N<26>> = arr![1u8, 6u8, 11u8, 16u8, 21u8, 26u8, 31u8, 36u8, 41u8, 46u8, 51u8, 56u8, 61u8, 66u8, 71u8, 76u8, 81u8, 86u8, 91u8, 96u8, 101u8, 106u8, 111u8, 116u8, 121u8, 126u8];
static SL_26: GA<u8, N<26>> = arr![1u8, 6u8, 11u8, 16u8, 21u8, 26u8, 31u8, 36u8, 41u8, 46u8, 51u8, 56u8, 61u8, 66u8, 71u8, 76u8, 81u8, 86u8, 91u8, 96u8, 101u8, 106u8, 111u8, 116u8, 121u8, 126u8,];
const fn cfl_26() -> GA<u8, N<26>> { arr![1u8, 6u8, 11u8, 16u8, 21u8, 26u8, 31u8, 36u8, 41u8, 46u8, 51u8, 56u8, 61u8, 66u8, 71u8, 76u8, 81u8, 86u8, 91u8, 96u8, 101u8, 106u8, 111u8, 116u8, 121u8, 126u8] }
fn case_list_const_26() -> Result<(), String> {
    let nat: [u8; 26] = [1u8, 6u8, 11u8, 16u8, 21u8, 26u8, 31u8, 36u8, 41u8, 46u8, 51u8, 56u8, 61u8, 66u8, 71u8, 76u8, 81u8, 86u8, 91u8, 96u8, 101u8, 106u8, 111u8, 116u8, 121u8, 126u8];
    ck!(CL_26.as_slice() == &nat[..] && SL_26.as_slice() == &nat[..] && cfl_26().as_slice() == &nat[..], "arr! list of 26 in const / static / const fn position differs from the native literal");
    Ok(())
}
fn case_list_27() -> Result<(), String> {
    take_log(); let a: GA<u32, N<27>> = arr![lg(0), lg(1), lg(2), lg(3), lg(4), lg(5), lg(6), lg(7), lg(8), lg(9), lg(10), lg(11), lg(12), lg(13), lg(14), lg(15), lg(16), lg(17), lg(18), lg(19), lg(20), lg(21), lg(22), lg(23), lg(24), lg(25), lg(26)]; let log = take_log();
    let nat: [u32; 27] = [0u32.wrapping_mul(2654435761), 1u32.wrapping_mul(2654435761), 2u32.wrapping_mul(2654435761), 3u32.wrapping_mul(2654435761), 4u32.wrapping_mul(2654435761), 5u32.wrapping_mul(2654435761), 6u32.wrapping_mul(2654435761), 7u32.wrapping_mul(2654435761), 8u32.wrapping_mul(2654435761), 9u32.wrapping_mul(2654435761), 10u32.wrapping_mul(2654435761), 11u32.wrapping_mul(2654435761), 12u32.wrapping_mul(2654435761), 13u32.wrapping_mul(2654435761), 14u32.wrapping_mul(2654435761), 15u32.wrapping_mul(2654435761), 16u32.wrapping_mul(2654435761), 17u32.wrapping_mul(2654435761), 18u32.wrapping_mul(2654435761), 19u32.wrapping_mul(2654435761), 20u32.wrapping_mul(2654435761), 21u32.wrapping_mul(2654435761), 22u32.wrapping_mul(2654435761), 23u32.wrapping_mul(2654435761), 24u32.wrapping_mul(2654435761), 25u32.wrapping_mul(2654435761), 26u32.wrapping_mul(2654435761)];
    ck!(a.as_slice() == &nat[..], "arr! list of 27: contents {:?} differ from the native array literal", &a.as_slice()[..a.len().min(8)]);
    ck!(log == seq(27), "arr! list of 27: element expressions were evaluated in order {:?}, expected 0..27 once each", &log[..log.len().min(12)]);
    take_log(); let b: Box<GA<u32, N<27>>> = box_arr![lg(0), lg(1), lg(2), lg(3), lg(4), lg(5), lg(6), lg(7), lg(8), lg(9), lg(10), lg(11), lg(12), lg(13), lg(14), lg(15), lg(16), lg(17), lg(18), lg(19), lg(20), lg(21), lg(22), lg(23), lg(24), lg(25), lg(26)]; let log = take_log();
    ck!(b.as_slice() == &nat[..], "box_arr! list of 27: contents differ from the native array literal");
    ck!(log == seq(27), "box_arr! list of 27: element expressions were evaluated in order {:?}, expected 0..27 once each", &log[..log.len().min(12)]);
    ck!(*b == a, "box_arr! and arr! with the same arguments differ");
    Ok(())
}
fn case_list_27_trailing() -> Result<(), String> {
    take_log(); let a: GA<u32, N<27>> = arr![lg(0), lg(1), lg(2), lg(3), lg(4), lg(5), lg(6), lg(7), lg(8), lg(9), lg(10), lg(11), lg(12), lg(13), lg(14), lg(15), lg(16), lg(17), lg(18), lg(19), lg(20), lg(21), lg(22), lg(23), lg(24), lg(25), lg(26),]; let log = take_log();
    let nat: [u32; 27] = [0u32.wrapping_mul(2654435761), 1u32.wrapping_mul(2654435761), 2u32.wrapping_mul(2654435761), 3u32.wrapping_mul(2654435761), 4u32.wrapping_mul(2654435761), 5u32.wrapping_mul(2654435761), 6u32.wrapping_mul(2654435761), 7u32.wrapping_mul(2654435761), 8u32.wrapping_mul(2654435761), 9u32.wrapping_mul(2654435761), 10u32.wrapping_mul(2654435761), 11u32.wrapping_mul(2654435761), 12u32.wrapping_mul(2654435761), 13u32.wrapping_mul(2654435761), 14u32.wrapping_mul(2654435761), 15u32.wrapping_mul(2654435761), 16u32.wrapping_mul(2654435761), 17u32.wrapping_mul(2654435761), 18u32.wrapping_mul(2654435761), 19u32.wrapping_mul(2654435761), 20u32.wrapping_mul(2654435761), 21u32.wrapping_mul(2654435761), 22u32.wrapping_mul(2654435761), 23u32.wrapping_mul(2654435761), 24u32.wrapping_mul(2654435761), 25u32.wrapping_mul(2654435761), 26u32.wrapping_mul(2654435761)];
    ck!(a.as_slice() == &nat[..], "arr! list of 27: contents {:?} differ from the native array literal", &a.as_slice()[..a.len().min(8)]);
    ck!(log == seq(27), "arr! list of 27: element expressions were evaluated in order {:?}, expected 0..27 once each", &log[..log.len().min(12)]);
    take_log(); let b: Box<GA<u32, N<27>>> = box_arr![lg(0), lg(1), lg(2), lg(3), lg(4), lg(5), lg(6), lg(7), lg(8), lg(9), lg(10), lg(11), lg(12), lg(13), lg(14), lg(15), lg(16), lg(17), lg(18), lg(19), lg(20), lg(21), lg(22), lg(23), lg(24), lg(25), lg(26),]; let log = take_log();
    ck!(b.as_slice() == &nat[..], "box_arr! list of 27: contents differ from the native array literal");
    ck!(log == seq(27), "box_arr! list of 27: element expressions were evaluated in order {:?}, expected 0..27 once each", &log[..log.len().min(12)]);
    ck!(*b == a, "box_arr! and arr! with the same arguments differ");
    Ok(())
}
fn case_list_noncopy_27() -> Result<(), String> {
    take_log(); let a: GA<String, N<27>> = arr![ls(0), ls(1), ls(2), ls(3), ls(4), ls(5), ls(6), ls(7), ls(8), ls(9), ls(10), ls(11), ls(12), ls(13), ls(14), ls(15), ls(16), ls(17), ls(18), ls(19), ls(20), ls(21), ls(22), ls(23), ls(24), ls(25), ls(26)]; let log = take_log();
    ck!(a.iter().enumerate().all(|(i, s)| *s == format!("s{i}")) && a.len() == 27, "arr! list of 27 Strings: wrong contents");
    ck!(log == seq(27), "arr! list of 27 Strings: evaluation order {:?}", &log[..log.len().min(12)]);
    take_log(); take_drops();
    { let d: GA<D, N<27>> = arr![ld(0), ld(1), ld(2), ld(3), ld(4), ld(5), ld(6), ld(7), ld(8), ld(9), ld(10), ld(11), ld(12), ld(13), ld(14), ld(15), ld(16), ld(17), ld(18), ld(19), ld(20), ld(21), ld(22), ld(23), ld(24), ld(25), ld(26)]; ck!(take_drops().is_empty(), "arr! list of 27: an element was dropped while the array is alive");
      ck!(d.iter().enumerate().all(|(i, x)| x.0 == i as u32), "arr! list of 27 drop-tracked elements: wrong contents"); }
    let mut dr = take_drops(); dr.sort(); ck!(dr == seq(27), "arr! list of 27: drop counts after the array is gone: {:?}", &dr[..dr.len().min(12)]);
    take_log(); take_drops();
    { let d: Box<GA<D, N<27>>> = box_arr![ld(0), ld(1), ld(2), ld(3), ld(4), ld(5), ld(6), ld(7), ld(8), ld(9), ld(10), ld(11), ld(12), ld(13), ld(14), ld(15), ld(16), ld(17), ld(18), ld(19), ld(20), ld(21), ld(22), ld(23), ld(24), ld(25), ld(26)]; ck!(take_drops().is_empty(), "box_arr! list of 27: an element was dropped while the box is alive");
      ck!(d.iter().enumerate().all(|(i, x)| x.0 == i as u32), "box_arr! list of 27 drop-tracked elements: wrong contents"); ck!(take_log() == seq(27), "box_arr! list of 27: evaluation order"); }
    let mut dr = take_drops(); dr.sort(); ck!(dr == seq(27), "box_arr! list of 27: drop counts after the box is gone: {:?}", &dr[..dr.len().min(12)]);
    Ok(())
}
const CL_27: GA<u8, N<27>> = arr![1u8, 6u8, 11u8, 16u8, 21u8, 26u8, 31u8, 36u8, 41u8, 46u8, 51u8, 56u8, 61u8, 66u8, 71u8, 76u8, 81u8, 86u8, 91u8, 96u8, 101u8, 106u8, 111u8, 116u8, 121u8, 126u8, 131u8];
static SL_27: GA<u8, N<27>> = arr![1u8, 6u8, 11u8, 16u8, 21u8, 26u8, 31u8, 36u8, 41u8, 46u8, 51u8, 56u8, 61u8, 66u8, 71u8, 76u8, 81u8, 86u8, 91u8, 96u8, 101u8, 106u8, 111u8, 116u8, 121u8, 126u8, 131u8,];
const fn cfl_27() -> GA<u8, N<27>> { arr![1u8, 6u8, 11u8, 16u8, 21u8, 26u8, 31u8, 36u8, 41u8, 46u8, 51u8, 56u8, 61u8, 66u8, 71u8, 76u8, 81u8, 86u8, 91u8, 96u8, 101u8, 106u8, 111u8, 116u8, 121u8, 126u8, 131u8] }
fn case_list_const_27() -> Result<(), String> {
    let nat: [u8; 27] = [1u8, 6u8, 11u8, 16u8, 21u8, 26u8, 31u8, 36u8, 41u8, 46u8, 51u8, 56u8, 61u8, 66u8, 71u8, 76u8, 81u8, 86u8, 91u8, 96u8, 101u8, 106u8, 111u8, 116u8, 121u8, 126u8, 131u8];
    ck!(CL_27.as_slice() == &nat[..] && SL_27.as_slice() == &nat[..] && cfl_27().as_slice() == &nat[..], "arr! list of 27 in const / static / const fn position differs from the native literal");
    Ok(())
}
fn case_list_28() -> Result<(), String> {
    take_log(); let a: GA<u32, N<28>> = arr![lg(0), lg(1), lg(2), lg(3), lg(4), lg(5), lg(6), lg(7), lg(8), lg(9), lg(10), lg(11), lg(12), lg(13), lg(14), lg(15), lg(16), lg(17), lg(18), lg(19), lg(20), lg(21), lg(22), lg(23), lg(24), lg(25), lg(26), lg(27)]; let log = take_log();
    let nat: [u32; 28] = [0u32.wrapping_mul(2654435761), 1u32.wrapping_mul(2654435761), 2u32.wrapping_mul(2654435761), 3u32.wrapping_mul(2654435761), 4u32.wrapping_mul(2654435761), 5u32.wrapping_mul(2654435761), 6u32.wrapping_mul(2654435761), 7u32.wrapping_mul(2654435761), 8u32.wrapping_mul(2654435761), 9u32.wrapping_mul(2654435761), 10u32.wrapping_mul(2654435761), 11u32.wrapping_mul(2654435761), 12u32.wrapping_mul(2654435761), 13u32.wrapping_mul(2654435761), 14u32.wrapping_mul(2654435761), 15u32.wrapping_mul(2654435761), 16u32.wrapping_mul(2654435761), 17u32.wrapping_mul(2654435761), 18u32.wrapping_mul(2654435761), 19u32.wrapping_mul(2654435761), 20u32.wrapping_mul(2654435761), 21u32.wrapping_mul(2654435761), 22u32.wrapping_mul(2654435761), 23u32.wrapping_mul(2654435761), 24u32.wrapping_mul(2654435761), 25u32.wrapping_mul(2654435761), 26u32.wrapping_mul(2654435761), 27u32.wrapping_mul(2654435761)];
    ck!(a.as_slice() == &nat[..], "arr! list of 28: contents {:?} differ from the native array literal", &a.as_slice()[..a.len().min(8)]);
    ck!(log == seq(28), "arr! list of 28: element expressions were evaluated in order {:?}, expected 0..28 once each", &log[..log.len().min(12)]);
    take_log(); let b: Box<GA<u32, N<28>>> = box_arr![lg(0), lg(1), lg(2), lg(3), lg(4), lg(5), lg(6), lg(7), lg(8), lg(9), lg(10), lg(11), lg(12), lg(13), lg(14), lg(15), lg(16), lg(17), lg(18), lg(19), lg(20), lg(21), lg(22), lg(23), lg(24), lg(25), lg(26), lg(27)]; let log = take_log();
    ck!(b.as_slice() == &nat[..], "box_arr! list of 28: contents differ from the native array literal");
    ck!(log == seq(28), "box_arr! list of 28: element expressions were evaluated in order {:?}, expected 0..28 once each", &log[..log.len().min(12)]);
    ck!(*b == a, "box_arr! and arr! with the same arguments differ");
    Ok(())
}
fn case_list_28_trailing() -> Result<(), String> {
    take_log(); let a: GA<u32, N<28>> = arr![lg(0), lg(1), lg(2), lg(3), lg(4), lg(5), lg(6), lg(7), lg(8), lg(9), lg(10), lg(11), lg(12), lg(13), lg(14), lg(15), lg(16), lg(17), lg(18), lg(19), lg(20), lg(21), lg(22), lg(23), lg(24), lg(25), lg(26), lg(27),]; let log = take_log();
    let nat: [u32; 28] = [0u32.wrapping_mul(2654435761), 1u32.wrapping_mul(2654435761), 2u32.wrapping_mul(2654435761), 3u32.wrapping_mul(2654435761), 4u32.wrapping_mul(2654435761), 5u32.wrapping_mul(2654435761), 6u32.wrapping_mul(2654435761), 7u32.wrapping_mul(2654435761), 8u32.wrapping_mul(2654435761), 9u32.wrapping_mul(2654435761), 10u32.wrapping_mul(2654435761), 11u32.wrapping_mul(2654435761), 12u32.wrapping_mul(2654435761), 13u32.wrapping_mul(2654435761), 14u32.wrapping_mul(2654435761), 15u32.wrapping_mul(2654435761), 16u32.wrapping_mul(2654435761), 17u32.wrapping_mul(2654435761), 18u32.wrapping_mul(2654435761), 19u32.wrapping_mul(2654435761), 20u32.wrapping_mul(2654435761), 21u32.wrapping_mul(2654435761), 22u32.wrapping_mul(2654435761), 23u32.wrapping_mul(2654435761), 24u32.wrapping_mul(2654435761), 25u32.wrapping_mul(2654435761), 26u32.wrapping_mul(2654435761), 27u32.wrapping_mul(2654435761)];
    ck!(a.as_slice() == &nat[..], "arr! list of 28: contents {:?} differ from the native array literal", &a.as_slice()[..a.len().min(8)]);
    ck!(log == seq(28), "arr! list of 28: element expressions were evaluated in order {:?}, expected 0..28 once each", &log[..log.len().min(12)]);
    take_log(); let b: Box<GA<u32, N<28>>> = box_arr![lg(0), lg(1), lg(2), lg(3), lg(4), lg(5), lg(6), lg(7), lg(8), lg(9), lg(10), lg(11), lg(12), lg(13), lg(14), lg(15), lg(16), lg(17), lg(18), lg(19), lg(20), lg(21), lg(22), lg(23), lg(24), lg(25), lg(26), lg(27),]; let log = take_log();
    ck!(b.as_slice() == &nat[..], "box_arr! list of 28: contents differ from the native array literal");
    ck!(log == seq(28), "box_arr! list of 28: element expressions were evaluated in order {:?}, expected 0..28 once each", &log[..log.len().min(12)]);
    ck!(*b == a, "box_arr! and arr! with the same arguments differ");
    Ok(())
}
fn case_list_noncopy_28() -> Result<(), String> {
    take_log(); let a: GA<String, N<28>> = arr![ls(0), ls(1), ls(2), ls(3), ls(4), ls(5), ls(6), ls(7), ls(8), ls(9), ls(10), ls(11), ls(12), ls(13), ls(14), ls(15), ls(16), ls(17), ls(18), ls(19), ls(20), ls(21), ls(22), ls(23), ls(24), ls(25), ls(26), ls(27)]; let log = take_log();
    ck!(a.iter().enumerate().all(|(i, s)| *s == format!("s{i}")) && a.len() == 28, "arr! list of 28 Strings: wrong contents");
    ck!(log == seq(28), "arr! list of 28 Strings: evaluation order {:?}", &log[..log.len().min(12)]);
    take_log(); take_drops();
    { let d: GA<D, N<28>> = arr![ld(0), ld(1), ld(2), ld(3), ld(4), ld(5), ld(6), ld(7), ld(8), ld(9), ld(10), ld(11), ld(12), ld(13), ld(14), ld(15), ld(16), ld(17), ld(18), ld(19), ld(20), ld(21), ld(22), ld(23), ld(24), ld(25), ld(26), ld(27)]; ck!(take_drops().is_empty(), "arr! list of 28: an element was dropped while the array is alive");
      ck!(d.iter().enumerate().all(|(i, x)| x.0 == i as u32), "arr! list of 28 drop-tracked elements: wrong contents"); }
    let mut dr = take_drops(); dr.sort(); ck!(dr == seq(28), "arr! list of 28: drop counts after the array is gone: {:?}", &dr[..dr.len().min(12)]);
    take_log(); take_drops();
    { let d: Box<GA<D, N<28>>> = box_arr![ld(0), ld(1), ld(2), ld(3), ld(4), ld(5), ld(6), ld(7), ld(8), ld(9), ld(10), ld(11), ld(12), ld(13), ld(14), ld(15), ld(16), ld(17), ld(18), ld(19), ld(20), ld(21), ld(22), ld(23), ld(24), ld(25), ld(26), ld(27)]; ck!(take_drops().is_empty(), "box_arr! list of 28: an element was dropped while the box is alive");
      ck!(d.iter().enumerate().all(|(i, x)| x.0 == i as u32), "box_arr! list of 28 drop-tracked elements: wrong contents"); ck!(take_log() == seq(28), "box_arr! list of 28: evaluation order"); }
    let mut dr = take_drops(); dr.sort(); ck!(dr == seq(28), "box_arr! list of 28: drop counts after the box is gone: {:?}", &dr[..dr.len().min(12)]);
    Ok(())
}
const CL_28: GA<u8, N<28>> = arr![1u8, 6u8, 11u8, 16u8, 21u8, 26u8, 31u8, 36u8, 41u8, 46u8, 51u8, 56u8, 61u8, 66u8, 71u8, 76u8, 81u8, 86u8, 91u8, 96u8, 101u8, 106u8, 111u8, 116u8, 121u8, 126u8, 131u8, 136u8];
static SL_28: GA<u8, N<28>> = arr![1u8, 6u8, 11u8, 16u8, 21u8, 26u8, 31u8, 36u8, 41u8, 46u8, 51u8, 56u8, 61u8, 66u8, 71u8, 76u8, 81u8, 86u8, 91u8, 96u8, 101u8, 106u8, 111u8, 116u8, 121u8, 126u8, 131u8, 136u8,];
const fn cfl_28() -> GA<u8, N<28>> { arr![1u8, 6u8, 11u8, 16u8, 21u8, 26u8, 31u8, 36u8, 41u8, 46u8, 51u8, 56u8, 61u8, 66u8, 71u8, 76u8, 81u8, 86u8, 91u8, 96u8, 101u8, 106u8, 111u8, 116u8, 121u8, 126u8, 131u8, 136u8] }
fn case_list_const_28() -> Result<(), String> {
    let nat: [u8; 28] = [1u8, 6u8, 11u8, 16u8, 21u8, 26u8, 31u8, 36u8, 41u8, 46u8, 51u8, 56u8, 61u8, 66u8, 71u8, 76u8, 81u8, 86u8, 91u8, 96u8, 101u8, 106u8, 111u8, 116u8, 121u8, 126u8, 131u8, 136u8];
    ck!(CL_28.as_slice() == &nat[..] && SL_28.as_slice() == &nat[..] && cfl_28().as_slice() == &nat[..], "arr! list of 28 in const / static / const fn position differs from the native literal");
    Ok(())
}
fn case_list_29() -> Result<(), String> {
    take_log(); let a: GA<u32, N<29>> = arr![lg(0), lg(1), lg(2), lg(3), lg(4), lg(5), lg(6), lg(7), lg(8), lg(9), lg(10), lg(11), lg(12), lg(13), lg(14), lg(15), lg(16), lg(17), lg(18), lg(19), lg(20), lg(21), lg(22), lg(23), lg(24), lg(25), lg(26), lg(27), lg(28)]; let log = take_log();
    let nat: [u32; 29] = [0u32.wrapping_mul(2654435761), 1u32.wrapping_mul(2654435761), 2u32.wrapping_mul(2654435761), 3u32.wrapping_mul(2654435761), 4u32.wrapping_mul(2654435761), 5u32.wrapping_mul(2654435761), 6u32.wrapping_mul(2654435761), 7u32.wrapping_mul(2654435761), 8u32.wrapping_mul(2654435761), 9u32.wrapping_mul(2654435761), 10u32.wrapping_mul(2654435761), 11u32.wrapping_mul(2654435761), 12u32.wrapping_mul(2654435761), 13u32.wrapping_mul(2654435761), 14u32.wrapping_mul(2654435761), 15u32.wrapping_mul(2654435761), 16u32.wrapping_mul(2654435761), 17u32.wrapping_mul(2654435761), 18u32.wrapping_mul(2654435761), 19u32.wrapping_mul(2654435761), 20u32.wrapping_mul(2654435761), 21u32.wrapping_mul(2654435761), 22u32.wrapping_mul(2654435761), 23u32.wrapping_mul(2654435761), 24u32.wrapping_mul(2654435761), 25u32.wrapping_mul(2654435761), 26u32.wrapping_mul(2654435761), 27u32.wrapping_mul(2654435761), 28u32.wrapping_mul(2654435761)];
    ck!(a.as_slice() == &nat[..], "arr! list of 29: contents {:?} differ from the native array literal", &a.as_slice()[..a.len().min(8)]);
    ck!(log == seq(29), "arr! list of 29: element expressions were evaluated in order {:?}, expected 0..29 once each", &log[..log.len().min(12)]);
    take_log(); let b: Box<GA<u32, N<29>>> = box_arr![lg(0), lg(1), lg(2), lg(3), lg(4), lg(5), lg(6), lg(7), lg(8), lg(9), lg(10), lg(11), lg(12), lg(13), lg(14), lg(15), lg(16), lg(17), lg(18), lg(19), lg(20), lg(21), lg(22), lg(23), lg(24), lg(25), lg(26), lg(27), lg(28)]; let log = take_log();
    ck!(b.as_slice() == &nat[..], "box_arr! list of 29: contents differ from the native array literal");
    ck!(log == seq(29), "box_arr! list of 29: element expressions were evaluated in order {:?}, expected 0..29 once each", &log[..log.len().min(12)]);
    ck!(*b == a, "box_arr! and arr! with the same arguments differ");
    Ok(())
}
fn case_list_29_trailing() -> Result<(), String> {
    take_log(); let a: GA<u32, N<29>> = arr![lg(0), lg(1), lg(2), lg(3), lg(4), lg(5), lg(6), lg(7), lg(8), lg(9), lg(10), lg(11), lg(12), lg(13), lg(14), lg(15), lg(16), lg(17), lg(18), lg(19), lg(20), lg(21), lg(22), lg(23), lg(24), lg(25), lg(26), lg(27), lg(28),]; let log = take_log();
    let nat: [u32; 29] = [0u32.wrapping_mul(2654435761), 1u32.wrapping_mul(2654435761), 2u32.wrapping_mul(2654435761), 3u32.wrapping_mul(2654435761), 4u32.wrapping_mul(2654435761), 5u32.wrapping_mul(2654435761), 6u32.wrapping_mul(2654435761), 7u32.wrapping_mul(2654435761), 8u32.wrapping_mul(2654435761), 9u32.wrapping_mul(2654435761), 10u32.wrapping_mul(2654435761), 11u32.wrapping_mul(2654435761), 12u32.wrapping_mul(2654435761), 13u32.wrapping_mul(2654435761), 14u32.wrapping_mul(2654435761), 15u32.wrapping_mul(2654435761), 16u32.wrapping_mul(2654435761), 17u32.wrapping_mul(2654435761), 18u32.wrapping_mul(2654435761), 19u32.wrapping_mul(2654435761), 20u32.wrapping_mul(2654435761), 21u32.wrapping_mul(2654435761), 22u32.wrapping_mul(2654435761), 23u32.wrapping_mul(2654435761), 24u32.wrapping_mul(2654435761), 25u32.wrapping_mul(2654435761), 26u32.wrapping_mul(2654435761), 27u32.wrapping_mul(2654435761), 28u32.wrapping_mul(2654435761)];
    ck!(a.as_slice() == &nat[..], "arr! list of 29: contents {:?} differ from the native array literal", &a.as_slice()[..a.len().min(8)]);
    ck!(log == seq(29), "arr! list of 29: element expressions were evaluated in order {:?}, expected 0..29 once each", &log[..log.len().min(12)]);
    take_log(); let b: Box<GA<u32, N<29>>> = box_arr![lg(0), lg(1), lg(2), lg(3), lg(4), lg(5), lg(6), lg(7), lg(8), lg(9), lg(10), lg(11), lg(12), lg(13), lg(14), lg(15), lg(16), lg(17), lg(18), lg(19), lg(20), lg(21), lg(22), lg(23), lg(24), lg(25), lg(26), lg(27), lg(28),]; let log = take_log();
    ck!(b.as_slice() == &nat[..], "box_arr! list of 29: contents differ from the native array literal");
    ck!(log == seq(29), "box_arr! list of 29: element expressions were evaluated in order {:?}, expected 0..29 once each", &log[..log.len().min(12)]);
    ck!(*b == a, "box_arr! and arr! with the same arguments differ");
    Ok(())
}
fn case_list_noncopy_29() -> Result<(), String> {
    take_log(); let a: GA<String, N<29>> = arr![ls(0), ls(1), ls(2), ls(3), ls(4), ls(5), ls(6), ls(7), ls(8), ls(9), ls(10), ls(11), ls(12), ls(13), ls(14), ls(15), ls(16), ls(17), ls(18), ls(19), ls(20), ls(21), ls(22), ls(23), ls(24), ls(25), ls(26), ls(27), ls(28)]; let log = take_log();
    ck!(a.iter().enumerate().all(|(i, s)| *s == format!("s{i}")) && a.len() == 29, "arr! list of 29 Strings: wrong contents");
    ck!(log == seq(29), "arr! list of 29 Strings: evaluation order {:?}", &log[..log.len().min(12)]);
    take_log(); take_drops();
    { let d: GA<D, N<29>> = arr![ld(0), ld(1), ld(2), ld(3), ld(4), ld(5), ld(6), ld(7), ld(8), ld(9), ld(10), ld(11), ld(12), ld(13), ld(14), ld(15), ld(16), ld(17), ld(18), ld(19), ld(20), ld(21), ld(22), ld(23), ld(24), ld(25), ld(26), ld(27), ld(28)]; ck!(take_drops().is_empty(), "arr! list of 29: an element was dropped while the array is alive");
      ck!(d.iter().enumerate().all(|(i, x)| x.0 == i as u32), "arr! list of 29 drop-tracked elements: wrong contents"); }
    let mut dr = take_drops(); dr.sort(); ck!(dr == seq(29), "arr! list of 29: drop counts after the array is gone: {:?}", &dr[..dr.len().min(12)]);
    take_log(); take_drops();
    { let d: Box<GA<D, N<29>>> = box_arr![ld(0), ld(1), ld(2), ld(3), ld(4), ld(5), ld(6), ld(7), ld(8), ld(9), ld(10), ld(11), ld(12), ld(13), ld(14), ld(15), ld(16), ld(17), ld(18), ld(19), ld(20), ld(21), ld(22), ld(23), ld(24), ld(25), ld(26), ld(27), ld(28)]; ck!(take_drops().is_empty(), "box_arr! list of 29: an element was dropped while the box is alive");
      ck!(d.iter().enumerate().all(|(i, x)| x.0 == i as u32), "box_arr! list of 29 drop-tracked elements: wrong contents"); ck!(take_log() == seq(29), "box_arr! list of 29: evaluation order"); }
    let mut dr = take_drops(); dr.sort(); ck!(dr == seq(29), "box_arr! list of 29: drop counts after the box is gone: {:?}", &dr[..dr.len().min(12)]);
    Ok(())
}
const CL_29: GA<u8, N<29>> = arr![1u8, 6u8, 11u8, 16u8, 21u8, 26u8, 31u8, 36u8, 41u8, 46u8, 51u8, 56u8, 61u8, 66u8, 71u8, 76u8, 81u8, 86u8, 91u8, 96u8, 101u8, 106u8, 111u8, 116u8, 121u8, 126u8, 131u8, 136u8, 141u8];
static SL_29: GA<u8, N<29>> = arr![1u8, 6u8, 11u8, 16u8, 21u8, 26u8, 31u8, 36u8, 41u8, 46u8, 51u8, 56u8, 61u8, 66u8, 71u8, 76u8, 81u8, 86u8, 91u8, 96u8, 101u8, 106u8, 111u8, 116u8, 121u8, 126u8, 131u8, 136u8, 141u8,];
const fn cfl_29() -> GA<u8, N<29>> { arr![1u8, 6u8, 11u8, 16u8, 21u8, 26u8, 31u8, 36u8, 41u8, 46u8, 51u8, 56u8, 61u8, 66u8, 71u8, 76u8, 81u8, 86u8, 91u8, 96u8, 101u8, 106u8, 111u8, 116u8, 121u8, 126u8, 131u8, 136u8, 141u8] }
fn case_list_const_29() -> Result<(), String> {
    let nat: [u8; 29] = [1u8, 6u8, 11u8, 16u8, 21u8, 26u8, 31u8, 36u8, 41u8, 46u8, 51u8, 56u8, 61u8, 66u8, 71u8, 76u8, 81u8, 86u8, 91u8, 96u8, 101u8, 106u8, 111u8, 116u8, 121u8, 126u8, 131u8, 136u8, 141u8];
    ck!(CL_29.as_slice() == &nat[..] && SL_29.as_slice() == &nat[..] && cfl_29().as_slice() == &nat[..], "arr! list of 29 in const / static / const fn position differs from the native literal");
    Ok(())
}
fn case_list_30() -> Result<(), String> {
    take_log(); let a: GA<u32, N<30>> = arr![lg(0), lg(1), lg(2), lg(3), lg(4), lg(5), lg(6), lg(7), lg(8), lg(9), lg(10), lg(11), lg(12), lg(13), lg(14), lg(15), lg(16), lg(17), lg(18), lg(19), lg(20), lg(21), lg(22), lg(23), lg(24), lg(25), lg(26), lg(27), lg(28), lg(29)]; let log = take_log();
    let nat: [u32; 30] = [0u32.wrapping_mul(2654435761), 1u32.wrapping_mul(2654435761), 2u32.wrapping_mul(2654435761), 3u32.wrapping_mul(2654435761), 4u32.wrapping_mul(2654435761), 5u32.wrapping_mul(2654435761), 6u32.wrapping_mul(2654435761), 7u32.wrapping_mul(2654435761), 8u32.wrapping_mul(2654435761), 9u32.wrapping_mul(2654435761), 10u32.wrapping_mul(2654435761), 11u32.wrapping_mul(2654435761), 12u32.wrapping_mul(2654435761), 13u32.wrapping_mul(2654435761), 14u32.wrapping_mul(2654435761), 15u32.wrapping_mul(2654435761), 16u32.wrapping_mul(2654435761), 17u32.wrapping_mul(2654435761), 18u32.wrapping_mul(2654435761), 19u32.wrapping_mul(2654435761), 20u32.wrapping_mul(2654435761), 21u32.wrapping_mul(2654435761), 22u32.wrapping_mul(2654435761), 23u32.wrapping_mul(2654435761), 24u32.wrapping_mul(2654435761), 25u32.wrapping_mul(2654435761), 26u32.wrapping_mul(2654435761), 27u32.wrapping_mul(2654435761), 28u32.wrapping_mul(2654435761), 29u32.wrapping_mul(2654435761)];
    ck!(a.as_slice() == &nat[..], "arr! list of 30: contents {:?} differ from the native array literal", &a.as_slice()[..a.len().min(8)]);
    ck!(log == seq(30), "arr! list of 30: element expressions were evaluated in order {:?}, expected 0..30 once each", &log[..log.len().min(12)]);
    take_log(); let b: Box<GA<u32, N<30>>> = box_arr![lg(0), lg(1), lg(2), lg(3), lg(4), lg(5), lg(6), lg(7), lg(8), lg(9), lg(10), lg(11), lg(12), lg(13), lg(14), lg(15), lg(16), lg(17), lg(18), lg(19), lg(20), lg(21), lg(22), lg(23), lg(24), lg(25), lg(26), lg(27), lg(28), lg(29)]; let log = take_log();
    ck!(b.as_slice() == &nat[..], "box_arr! list of 30: contents differ from the native array literal");
    ck!(log == seq(30), "box_arr! list of 30: element expressions were evaluated in order {:?}, expected 0..30 once each", &log[..log.len().min(12)]);
    ck!(*b == a, "box_arr! and arr! with the same arguments differ");
    Ok(())
}
fn case_list_30_trailing() -> Result<(), String> {
    take_log(); let a: GA<u32, N<30>> = arr![lg(0), lg(1), lg(2), lg(3), lg(4), lg(5), lg(6), lg(7), lg(8), lg(9), lg(10), lg(11), lg(12), lg(13), lg(14), lg(15), lg(16), lg(17), lg(18), lg(19), lg(20), lg(21), lg(22), lg(23), lg(24), lg(25), lg(26), lg(27), lg(28), lg(29),]; let log = take_log();
    let nat: [u32; 30] = [0u32.wrapping_mul(2654435761), 1u32.wrapping_mul(2654435761), 2u32.wrapping_mul(2654435761), 3u32.wrapping_mul(2654435761), 4u32.wrapping_mul(2654435761), 5u32.wrapping_mul(2654435761), 6u32.wrapping_mul(2654435761), 7u32.wrapping_mul(2654435761), 8u32.wrapping_mul(2654435761), 9u32.wrapping_mul(2654435761), 10u32.wrapping_mul(2654435761), 11u32.wrapping_mul(2654435761), 12u32.wrapping_mul(2654435761), 13u32.wrapping_mul(2654435761), 14u32.wrapping_mul(2654435761), 15u32.wrapping_mul(2654435761), 16u32.wrapping_mul(2654435761), 17u32.wrapping_mul(2654435761), 18u32.wrapping_mul(2654435761), 19u32.wrapping_mul(2654435761), 20u32.wrapping_mul(2654435761), 21u32.wrapping_mul(2654435761), 22u32.wrapping_mul(2654435761), 23u32.wrapping_mul(2654435761), 24u32.wrapping_mul(2654435761), 25u32.wrapping_mul(2654435761), 26u32.wrapping_mul(2654435761), 27u32.wrapping_mul(2654435761), 28u32.wrapping_mul(2654435761), 29u32.wrapping_mul(2654435761)];
    ck!(a.as_slice() == &nat[..], "arr! list of 30: contents {:?} differ from the native array literal", &a.as_slice()[..a.len().min(8)]);
    ck!(log == seq(30), "arr! list of 30: element expressions were evaluated in order {:?}, expected 0..30 once each", &log[..log.len().min(12)]);
    take_log(); let b: Box<GA<u32, N<30>>> = box_arr![lg(0), lg(1), lg(2), lg(3), lg(4), lg(5), lg(6), lg(7), lg(8), lg(9), lg(10), lg(11), lg(12), lg(13), lg(14), lg(15), lg(16), lg(17), lg(18), lg(19), lg(20), lg(21), lg(22), lg(23), lg(24), lg(25), lg(26), lg(27), lg(28), lg(29),]; let log = take_log();
    ck!(b.as_slice() == &nat[..], "box_arr! list of 30: contents differ from the native array literal");
    ck!(log == seq(30), "box_arr! list of 30: element expressions were evaluated in order {:?}, expected 0..30 once each", &log[..log.len().min(12)]);
    ck!(*b == a, "box_arr! and arr! with the same arguments differ");
    Ok(())
}
fn case_list_noncopy_30() -> Result<(), String> {
    take_log(); let a: GA<String, N<30>> = arr![ls(0), ls(1), ls(2), ls(3), ls(4), ls(5), ls(6), ls(7), ls(8), ls(9), ls(10), ls(11), ls(12), ls(13), ls(14), ls(15), ls(16), ls(17), ls(18), ls(19), ls(20), ls(21), ls(22), ls(23), ls(24), ls(25), ls(26), ls(27), ls(28), ls(29)]; let log = take_log();
    ck!(a.iter().enumerate().all(|(i, s)| *s == format!("s{i}")) && a.len() == 30, "arr! list of 30 Strings: wrong contents");
    ck!(log == seq(30), "arr! list of 30 Strings: evaluation order {:?}", &log[..log.len().min(12)]);
    take_log(); take_drops();
    { let d: GA<D, N<30>> = arr![ld(0), ld(1), ld(2), ld(3), ld(4), ld(5), ld(6), ld(7), ld(8), ld(9), ld(10), ld(11), ld(12), ld(13), ld(14), ld(15), ld(16), ld(17), ld(18), ld(19), ld(20), ld(21), ld(22), ld(23), ld(24), ld(25), ld(26), ld(27), ld(28), ld(29)]; ck!(take_drops().is_empty(), "arr! list of 30: an element was dropped while the array is alive");
      ck!(d.iter().enumerate().all(|(i, x)| x.0 == i as u32), "arr! list of 30 drop-tracked elements: wrong contents"); }
    let mut dr = take_drops(); dr.sort(); ck!(dr == seq(30), "arr! list of 30: drop counts after the array is gone: {:?}", &dr[..dr.len().min(12)]);
    take_log(); take_drops();
    { let d: Box<GA<D, N<30>>> = box_arr![ld(0), ld(1), ld(2), ld(3), ld(4), ld(5), ld(6), ld(7), ld(8), ld(9), ld(10), ld(11), ld(12), ld(13), ld(14), ld(15), ld(16), ld(17), ld(18), ld(19), ld(20), ld(21), ld(22), ld(23), ld(24), ld(25), ld(26), ld(27), ld(28), ld(29)]; ck!(take_drops().is_empty(), "box_arr! list of 30: an element was dropped while the box is alive");
      ck!(d.iter().enumerate().all(|(i, x)| x.0 == i as u32), "box_arr! list of 30 drop-tracked elements: wrong contents"); ck!(take_log() == seq(30), "box_arr! list of 30: evaluation order"); }
    let mut dr = take_drops(); dr.sort(); ck!(dr == seq(30), "box_arr! list of 30: drop counts after the box is gone: {:?}", &dr[..dr.len().min(12)]);
    Ok(())
}
const CL_30: GA<u8, N<30>> = arr![1u8, 6u8, 11u8, 16u8, 21u8, 26u8, 31u8, 36u8, 41u8, 46u8, 51u8, 56u8, 61u8, 66u8, 71u8, 76u8, 81u8, 86u8, 91u8, 96u8, 101u8, 106u8, 111u8, 116u8, 121u8, 126u8, 131u8, 136u8, 141u8, 146u8];
static SL_30: GA<u8, N<30>> = arr![1u8, 6u8, 11u8, 16u8, 21u8, 26u8, 31u8, 36u8, 41u8, 46u8, 51u8, 56u8, 61u8, 66u8, 71u8, 76u8, 81u8, 86u8, 91u8, 96u8, 101u8, 106u8, 111u8, 116u8, 121u8, 126u8, 131u8, 136u8, 141u8, 146u8,];
const fn cfl_30() -> GA<u8, N<30>> { arr![1u8, 6u8, 11u8, 16u8, 21u8, 26u8, 31u8, 36u8, 41u8, 46u8, 51u8, 56u8, 61u8, 66u8, 71u8, 76u8, 81u8, 86u8, 91u8, 96u8, 101u8, 106u8, 111u8, 116u8, 121u8, 126u8, 131u8, 136u8, 141u8, 146u8] }
fn case_list_const_30() -> Result<(), String> {
    let nat: [u8; 30] = [1u8, 6u8, 11u8, 16u8, 21u8, 26u8, 31u8, 36u8, 41u8, 46u8, 51u8, 56u8, 61u8, 66u8, 71u8, 76u8, 81u8, 86u8, 91u8, 96u8, 101u8, 106u8, 111u8, 116u8, 121u8, 126u8, 131u8, 136u8, 141u8, 146u8];
    ck!(CL_30.as_slice() == &nat[..] && SL_30.as_slice() == &nat[..] && cfl_30().as_slice() == &nat[..], "arr! list of 30 in const / static / const fn position differs from the native literal");
    Ok(())
}
fn case_list_31() -> Result<(), String> {
    take_log(); let a: GA<u32, N<31>> = arr![lg(0), lg(1), lg(2), lg(3), lg(4), lg(5), lg(6), lg(7), lg(8), lg(9), lg(10), lg(11), lg(12), lg(13), lg(14), lg(15), lg(16), lg(17), lg(18), lg(19), lg(20), lg(21), lg(22), lg(23), lg(24), lg(25), lg(26), lg(27), lg(28), lg(29), lg(30)]; let log = take_log();
    let nat: [u32; 31] = [0u32.wrapping_mul(2654435761), 1u32.wrapping_mul(2654435761), 2u32.wrapping_mul(2654435761), 3u32.wrapping_mul(2654435761), 4u32.wrapping_mul(2654435761), 5u32.wrapping_mul(2654435761), 6u32.wrapping_mul(2654435761), 7u32.wrapping_mul(2654435761), 8u32.wrapping_mul(2654435761), 9u32.wrapping_mul(2654435761), 10u32.wrapping_mul(2654435761), 11u32.wrapping_mul(2654435761), 12u32.wrapping_mul(2654435761), 13u32.wrapping_mul(2654435761), 14u32.wrapping_mul(2654435761), 15u32.wrapping_mul(2654435761), 16u32.wrapping_mul(2654435761), 17u32.wrapping_mul(2654435761), 18u32.wrapping_mul(2654435761), 19u32.wrapping_mul(2654435761), 20u32.wrapping_mul(2654435761), 21u32.wrapping_mul(2654435761), 22u32.wrapping_mul(2654435761), 23u32.wrapping_mul(2654435761), 24u32.wrapping_mul(2654435761), 25u32.wrapping_mul(2654435761), 26u32.wrapping_mul(2654435761), 27u32.wrapping_mul(2654435761), 28u32.wrapping_mul(2654435761), 29u32.wrapping_mul(2654435761), 30u32.wrapping_mul(2654435761)];
    ck!(a.as_slice() == &nat[..], "arr! list of 31: contents {:?} differ from the native array literal", &a.as_slice()[..a.len().min(8)]);
    ck!(log == seq(31), "arr! list of 31: element expressions were evaluated in order {:?}, expected 0..31 once each", &log[..log.len().min(12)]);
    take_log(); let b: Box<GA<u32, N<31>>> = box_arr![lg(0), lg(1), lg(2), lg(3), lg(4), lg(5), lg(6), lg(7), lg(8), lg(9), lg(10), lg(11), lg(12), lg(13), lg(14), lg(15), lg(16), lg(17), lg(18), lg(19), lg(20), lg(21), lg(22), lg(23), lg(24), lg(25), lg(26), lg(27), lg(28), lg(29), lg(30)]; let log = take_log();
    ck!(b.as_slice() == &nat[..], "box_arr! list of 31: contents differ from the native array literal");
    ck!(log == seq(31), "box_arr! list of 31: element expressions were evaluated in order {:?}, expected 0..31 once each", &log[..log.len().min(12)]);
    ck!(*b == a, "box_arr! and arr! with the same arguments differ");
    Ok(())
}
fn case_list_31_trailing() -> Result<(), String> {
    take_log(); let a: GA<u32, N<31>> = arr![lg(0), lg(1), lg(2), lg(3), lg(4), lg(5), lg(6), lg(7), lg(8), lg(9), lg(10), lg(11), lg(12), lg(13), lg(14), lg(15), lg(16), lg(17), lg(18), lg(19), lg(20), lg(21), lg(22), lg(23), lg(24), lg(25), lg(26), lg(27), lg(28), lg(29), lg(30),]; let log = take_log();
    let nat: [u32; 31] = [0u32.wrapping_mul(2654435761), 1u32.wrapping_mul(2654435761), 2u32.wrapping_mul(2654435761), 3u32.wrapping_mul(2654435761), 4u32.wrapping_mul(2654435761), 5u32.wrapping_mul(2654435761), 6u32.wrapping_mul(2654435761), 7u32.wrapping_mul(2654435761), 8u32.wrapping_mul(2654435761), 9u32.wrapping_mul(2654435761), 10u32.wrapping_mul(2654435761), 11u32.wrapping_mul(2654435761), 12u32.wrapping_mul(2654435761), 13u32.wrapping_mul(2654435761), 14u32.wrapping_mul(2654435761), 15u32.wrapping_mul(2654435761), 16u32.wrapping_mul(2654435761), 17u32.wrapping_mul(2654435761), 18u32.wrapping_mul(2654435761), 19u32.wrapping_mul(2654435761), 20u32.wrapping_mul(2654435761), 21u32.wrapping_mul(2654435761), 22u32.wrapping_mul(2654435761), 23u32.wrapping_mul(2654435761), 24u32.wrapping_mul(2654435761), 25u32.wrapping_mul(2654435761), 26u32.wrapping_mul(2654435761), 27u32.wrapping_mul(2654435761), 28u32.wrapping_mul(2654435761), 29u32.wrapping_mul(2654435761), 30u32.wrapping_mul(2654435761)];
    ck!(a.as_slice() == &nat[..], "arr! list of 31: contents {:?} differ from the native array literal", &a.as_slice()[..a.len().min(8)]);
    ck!(log == seq(31), "arr! list of 31: element expressions were evaluated in order {:?}, expected 0..31 once each", &log[..log.len().min(12)]);
    take_log(); let b: Box<GA<u32, N<31>>> = box_arr![lg(0), lg(1), lg(2), lg(3), lg(4), lg(5), lg(6), lg(7), lg(8), lg(9), lg(10), lg(11), lg(12), lg(13), lg(14), lg(15), lg(16), lg(17), lg(18), lg(19), lg(20), lg(21), lg(22), lg(23), lg(24), lg(25), lg(26), lg(27), lg(28), lg(29), lg(30),]; let log = take_log();
    ck!(b.as_slice() == &nat[..], "box_arr! list of 31: contents differ from the native array literal");
    ck!(log == seq(31), "box_arr! list of 31: element expressions were evaluated in order {:?}, expected 0..31 once each", &log[..log.len().min(12)]);
    ck!(*b == a, "box_arr! and arr! with the same arguments differ");
    Ok(())
}
fn case_list_noncopy_31() -> Result<(), String> {
    take_log(); let a: GA<String, N<31>> = arr![ls(0), ls(1), ls(2), ls(3), ls(4), ls(5), ls(6), ls(7), ls(8), ls(9), ls(10), ls(11), ls(12), ls(13), ls(14), ls(15), ls(16), ls(17), ls(18), ls(19), ls(20), ls(21), ls(22), ls(23), ls(24), ls(25), ls(26), ls(27), ls(28), ls(29), ls(30)]; let log = take_log();
    ck!(a.iter().enumerate().all(|(i, s)| *s == format!("s{i}")) && a.len() == 31, "arr! list of 31 Strings: wrong contents");
    ck!(log == seq(31), "arr! list of 31 Strings: evaluation order {:?}", &log[..log.len().min(12)]);
    take_log(); take_drops();
    { let d: GA<D, N<31>> = arr![ld(0), ld(1), ld(2), ld(3), ld(4), ld(5), ld(6), ld(7), ld(8), ld(9), ld(10), ld(11), ld(12), ld(13), ld(14), ld(15), ld(16), ld(17), ld(18), ld(19), ld(20), ld(21), ld(22), ld(23), ld(24), ld(25), ld(26), ld(27), ld(28), ld(29), ld(30)]; ck!(take_drops().is_empty(), "arr! list of 31: an element was dropped while the array is alive");
      ck!(d.iter().enumerate().all(|(i, x)| x.0 == i as u32), "arr! list of 31 drop-tracked elements: wrong contents"); }
    let mut dr = take_drops(); dr.sort(); ck!(dr == seq(31), "arr! list of 31: drop counts after the array is gone: {:?}", &dr[..dr.len().min(12)]);
    take_log(); take_drops();
    { let d: Box<GA<D, N<31>>> = box_arr![ld(0), ld(1), ld(2), ld(3), ld(4), ld(5), ld(6), ld(7), ld(8), ld(9), ld(10), ld(11), ld(12), ld(13), ld(14), ld(15), ld(16), ld(17), ld(18), ld(19), ld(20), ld(21), ld(22), ld(23), ld(24), ld(25), ld(26), ld(27), ld(28), ld(29), ld(30)]; ck!(take_drops().is_empty(), "box_arr! list of 31: an element was dropped while the box is alive");
      ck!(d.iter().enumerate().all(|(i, x)| x.0 == i as u32), "box_arr! list of 31 drop-tracked elements: wrong contents"); ck!(take_log() == seq(31), "box_arr! list of 31: evaluation order"); }
    let mut dr = take_drops(); dr.sort(); ck!(dr == seq(31), "box_arr! list of 31: drop counts after the box is gone: {:?}", &dr[..dr.len().min(12)]);
    Ok(())
}
const CL_31: GA<u8, N<31>> = arr![1u8, 6u8, 11u8, 16u8, 21u8, 26u8, 31u8, 36u8, 41u8, 46u8, 51u8, 56u8, 61u8, 66u8, 71u8, 76u8, 81u8, 86u8, 91u8, 96u8, 101u8, 106u8, 111u8, 116u8, 121u8, 126u8, 131u8, 136u8, 141u8, 146u8, 151u8];
static SL_31: GA<u8, N<31>> = arr![1u8, 6u8, 11u8, 16u8, 21u8, 26u8, 31u8, 36u8, 41u8, 46u8, 51u8, 56u8, 61u8, 66u8, 71u8, 76u8, 81u8, 86u8, 91u8, 96u8, 101u8, 106u8, 111u8, 116u8, 121u8, 126u8, 131u8, 136u8, 141u8, 146u8, 151u8,];
const fn cfl_31() -> GA<u8, N<31>> { arr![1u8, 6u8, 11u8, 16u8, 21u8, 26u8, 31u8, 36u8, 41u8, 46u8, 51u8, 56u8, 61u8, 66u8, 71u8, 76u8, 81u8, 86u8, 91u8, 96u8, 101u8, 106u8, 111u8, 116u8, 121u8, 126u8, 131u8, 136u8, 141u8, 146u8, 151u8] }
fn case_list_const_31() -> Result<(), String> {
    let nat: [u8; 31] = [1u8, 6u8, 11u8, 16u8, 21u8, 26u8, 31u8, 36u8, 41u8, 46u8, 51u8, 56u8, 61u8, 66u8, 71u8, 76u8, 81u8, 86u8, 91u8, 96u8, 101u8, 106u8, 111u8, 116u8, 121u8, 126u8, 131u8, 136u8, 141u8, 146u8, 151u8];
    ck!(CL_31.as_slice() == &nat[..] && SL_31.as_slice() == &nat[..] && cfl_31().as_slice() == &nat[..], "arr! list of 31 in const / static / const fn position differs from the native literal");
    Ok(())
}
fn case_list_32() -> Result<(), String> {
    take_log(); let a: GA<u32, N<32>> = arr![lg(0), lg(1), lg(2), lg(3), lg(4), lg(5), lg(6), lg(7), lg(8), lg(9), lg(10), lg(11), lg(12), lg(13), lg(14), lg(15), lg(16), lg(17), lg(18), lg(19), lg(20), lg(21), lg(22), lg(23), lg(24), lg(25), lg(26), lg(27), lg(28), lg(29), lg(30), lg(31)]; let log = take_log();
    let nat: [u32; 32] = [0u32.wrapping_mul(2654435761), 1u32.wrapping_mul(2654435761), 2u32.wrapping_mul(2654435761), 3u32.wrapping_mul(2654435761), 4u32.wrapping_mul(2654435761), 5u32.wrapping_mul(2654435761), 6u32.wrapping_mul(2654435761), 7u32.wrapping_mul(2654435761), 8u32.wrapping_mul(2654435761), 9u32.wrapping_mul(2654435761), 10u32.wrapping_mul(2654435761), 11u32.wrapping_mul(2654435761), 12u32.wrapping_mul(2654435761), 13u32.wrapping_mul(2654435761), 14u32.wrapping_mul(2654435761), 15u32.wrapping_mul(2654435761), 16u32.wrapping_mul(2654435761), 17u32.wrapping_mul(2654435761), 18u32.wrapping_mul(2654435761), 19u32.wrapping_mul(2654435761), 20u32.wrapping_mul(2654435761), 21u32.wrapping_mul(2654435761), 22u32.wrapping_mul(2654435761), 23u32.wrapping_mul(2654435761), 24u32.wrapping_mul(2654435761), 25u32.wrapping_mul(2654435761), 26u32.wrapping_mul(2654435761), 27u32.wrapping_mul(2654435761), 28u32.wrapping_mul(2654435761), 29u32.wrapping_mul(2654435761), 30u32.wrapping_mul(2654435761), 31u32.wrapping_mul(2654435761)];
    ck!(a.as_slice() == &nat[..], "arr! list of 32: contents {:?} differ from the native array literal", &a.as_slice()[..a.len().min(8)]);
    ck!(log == seq(32), "arr! list of 32: element expressions were evaluated in order {:?}, expected 0..32 once each", &log[..log.len().min(12)]);
    take_log(); let b: Box<GA<u32, N<32>>> = box_arr![lg(0), lg(1), lg(2), lg(3), lg(4), lg(5), lg(6), lg(7), lg(8), lg(9), lg(10), lg(11), lg(12), lg(13), lg(14), lg(15), lg(16), lg(17), lg(18), lg(19), lg(20), lg(21), lg(22), lg(23), lg(24), lg(25), lg(26), lg(27), lg(28), lg(29), lg(30), lg(31)]; let log = take_log();
    ck!(b.as_slice() == &nat[..], "box_arr! list of 32: contents differ from the native array literal");
    ck!(log == seq(32), "box_arr! list of 32: element expressions were evaluated in order {:?}, expected 0..32 once each", &log[..log.len().min(12)]);
    ck!(*b == a, "box_arr! and arr! with the same arguments differ");
    Ok(())
}
fn case_list_32_trailing() -> Result<(), String> {
    take_log(); let a: GA<u32, N<32>> = arr![lg(0), lg(1), lg(2), lg(3), lg(4), lg(5), lg(6), lg(7), lg(8), lg(9), lg(10), lg(11), lg(12), lg(13), lg(14), lg(15), lg(16), lg(17), lg(18), lg(19), lg(20), lg(21), lg(22), lg(23), lg(24), lg(25), lg(26), lg(27), lg(28), lg(29), lg(30), lg(31),]; let log = take_log();
    let nat: [u32; 32] = [0u32.wrapping_mul(2654435761), 1u32.wrapping_mul(2654435761), 2u32.wrapping_mul(2654435761), 3u32.wrapping_mul(2654435761), 4u32.wrapping_mul(2654435761), 5u32.wrapping_mul(2654435761), 6u32.wrapping_mul(2654435761), 7u32.wrapping_mul(2654435761), 8u32.wrapping_mul(2654435761), 9u32.wrapping_mul(2654435761), 10u32.wrapping_mul(2654435761), 11u32.wrapping_mul(2654435761), 12u32.wrapping_mul(2654435761), 13u32.wrapping_mul(2654435761), 14u32.wrapping_mul(2654435761), 15u32.wrapping_mul(2654435761), 16u32.wrapping_mul(2654435761), 17u32.wrapping_mul(2654435761), 18u32.wrapping_mul(2654435761), 19u32.wrapping_mul(2654435761), 20u32.wrapping_mul(2654435761), 21u32.wrapping_mul(2654435761), 22u32.wrapping_mul(2654435761), 23u32.wrapping_mul(2654435761), 24u32.wrapping_mul(2654435761), 25u32.wrapping_mul(2654435761), 26u32.wrapping_mul(2654435761), 27u32.wrapping_mul(2654435761), 28u32.wrapping_mul(2654435761), 29u32.wrapping_mul(2654435761), 30u32.wrapping_mul(2654435761), 31u32.wrapping_mul(2654435761)];
    ck!(a.as_slice() == &nat[..], "arr! list of 32: contents {:?} differ from the native array literal", &a.as_slice()[..a.len().min(8)]);
    ck!(log == seq(32), "arr! list of 32: element expressions were evaluated in order {:?}, expected 0..32 once each", &log[..log.len().min(12)]);
    take_log(); let b: Box<GA<u32, N<32>>> = box_arr![lg(0), lg(1), lg(2), lg(3), lg(4), lg(5), lg(6), lg(7), lg(8), lg(9), lg(10), lg(11), lg(12), lg(13), lg(14), lg(15), lg(16), lg(17), lg(18), lg(19), lg(20), lg(21), lg(22), lg(23), lg(24), lg(25), lg(26), lg(27), lg(28), lg(29), lg(30), lg(31),]; let log = take_log();
    ck!(b.as_slice() == &nat[..], "box_arr! list of 32: contents differ from the native array literal");
    ck!(log == seq(32), "box_arr! list of 32: element expressions were evaluated in order {:?}, expected 0..32 once each", &log[..log.len().min(12)]);
    ck!(*b == a, "box_arr! and arr! with the same arguments differ");
    Ok(())
}
fn case_list_noncopy_32() -> Result<(), String> {
    take_log(); let a: GA<String, N<32>> = arr![ls(0), ls(1), ls(2), ls(3), ls(4), ls(5), ls(6), ls(7), ls(8), ls(9), ls(10), ls(11), ls(12), ls(13), ls(14), ls(15), ls(16), ls(17), ls(18), ls(19), ls(20), ls(21), ls(22), ls(23), ls(24), ls(25), ls(26), ls(27), ls(28), ls(29), ls(30), ls(31)]; let log = take_log();
    ck!(a.iter().enumerate().all(|(i, s)| *s == format!("s{i}")) && a.len() == 32, "arr! list of 32 Strings: wrong contents");
    ck!(log == seq(32), "arr! list of 32 Strings: evaluation order {:?}", &log[..log.len().min(12)]);
    take_log(); take_drops();
    { let d: GA<D, N<32>> = arr![ld(0), ld(1), ld(2), ld(3), ld(4), ld(5), ld(6), ld(7), ld(8), ld(9), ld(10), ld(11), ld(12), ld(13), ld(14), ld(15), ld(16), ld(17), ld(18), ld(19), ld(20), ld(21), ld(22), ld(23), ld(24), ld(25), ld(26), ld(27), ld(28), ld(29), ld(30), ld(31)]; ck!(take_drops().is_empty(), "arr! list of 32: an element was dropped while the array is alive");
      ck!(d.iter().enumerate().all(|(i, x)| x.0 == i as u32), "arr! list of 32 drop-tracked elements: wrong contents"); }
    let mut dr = take_drops(); dr.sort(); ck!(dr == seq(32), "arr! list of 32: drop counts after the array is gone: {:?}", &dr[..dr.len().min(12)]);
    take_log(); take_drops();
    { let d: Box<GA<D, N<32>>> = box_arr![ld(0), ld(1), ld(2), ld(3), ld(4), ld(5), ld(6), ld(7), ld(8), ld(9), ld(10), ld(11), ld(12), ld(13), ld(14), ld(15), ld(16), ld(17), ld(18), ld(19), ld(20), ld(21), ld(22), ld(23), ld(24), ld(25), ld(26), ld(27), ld(28), ld(29), ld(30), ld(31)]; ck!(take_drops().is_empty(), "box_arr! list of 32: an element was dropped while the box is alive");
      ck!(d.iter().enumerate().all(|(i, x)| x.0 == i as u32), "box_arr! list of 32 drop-tracked elements: wrong contents"); ck!(take_log() == seq(32), "box_arr! list of 32: evaluation order"); }
    let mut dr = take_drops(); dr.sort(); ck!(dr == seq(32), "box_arr! list of 32: drop counts after the box is gone: {:?}", &dr[..dr.len().min(12)]);
    Ok(())
}
const CL_32: GA<u8, N<32>> = arr![1u8, 6u8, 11u8, 16u8, 21u8, 26u8, 31u8, 36u8, 41u8, 46u8, 51u8, 56u8, 61u8, 66u8, 71u8, 76u8, 81u8, 86u8, 91u8, 96u8, 101u8, 106u8, 111u8, 116u8, 121u8, 126u8, 131u8, 136u8, 141u8, 146u8, 151u8, 156u8];
static SL_32: GA<u8, N<32>> = arr![1u8, 6u8, 11u8, 16u8, 21u8, 26u8, 31u8, 36u8, 41u8, 46u8, 51u8, 56u8, 61u8, 66u8, 71u8, 76u8, 81u8, 86u8, 91u8, 96u8, 101u8, 106u8, 111u8, 116u8, 121u8, 126u8, 131u8, 136u8, 141u8, 146u8, 151u8, 156u8,];
const fn cfl_32() -> GA<u8, N<32>> { arr![1u8, 6u8, 11u8, 16u8, 21u8, 26u8, 31u8, 36u8, 41u8, 46u8, 51u8, 56u8, 61u8, 66u8, 71u8, 76u8, 81u8, 86u8, 91u8, 96u8, 101u8, 106u8, 111u8, 116u8, 121u8, 126u8, 131u8, 136u8, 141u8, 146u8, 151u8, 156u8] }
fn case_list_const_32() -> Result<(), String> {
    let nat: [u8; 32] = [1u8, 6u8, 11u8, 16u8, 21u8, 26u8, 31u8, 36u8, 41u8, 46u8, 51u8, 56u8, 61u8, 66u8, 71u8, 76u8, 81u8, 86u8, 91u8, 96u8, 101u8, 106u8, 111u8, 116u8, 121u8, 126u8, 131u8, 136u8, 141u8, 146u8, 151u8, 156u8];
    ck!(CL_32.as_slice() == &nat[..] && SL_32.as_slice() == &nat[..] && cfl_32().as_slice() == &nat[..], "arr! list of 32 in const / static / const fn position differs from the native literal");
    Ok(())
}
fn case_list_33() -> Result<(), String> {
    take_log(); let a: GA<u32, N<33>> = arr![lg(0), lg(1), lg(2), lg(3), lg(4), lg(5), lg(6), lg(7), lg(8), lg(9), lg(10), lg(11), lg(12), lg(13), lg(14), lg(15), lg(16), lg(17), lg(18), lg(19), lg(20), lg(21), lg(22), lg(23), lg(24), lg(25), lg(26), lg(27), lg(28), lg(29), lg(30), lg(31), lg(32)]; let log = take_log();
    let nat: [u32; 33] = [0u32.wrapping_mul(2654435761), 1u32.wrapping_mul(2654435761), 2u32.wrapping_mul(2654435761), 3u32.wrapping_mul(2654435761), 4u32.wrapping_mul(2654435761), 5u32.wrapping_mul(2654435761), 6u32.wrapping_mul(2654435761), 7u32.wrapping_mul(2654435761), 8u32.wrapping_mul(2654435761), 9u32.wrapping_mul(2654435761), 10u32.wrapping_mul(2654435761), 11u32.wrapping_mul(2654435761), 12u32.wrapping_mul(2654435761), 13u32.wrapping_mul(2654435761), 14u32.wrapping_mul(2654435761), 15u32.wrapping_mul(2654435761), 16u32.wrapping_mul(2654435761), 17u32.wrapping_mul(2654435761), 18u32.wrapping_mul(2654435761), 19u32.wrapping_mul(2654435761), 20u32.wrapping_mul(2654435761), 21u32.wrapping_mul(2654435761), 22u32.wrapping_mul(2654435761), 23u32.wrapping_mul(2654435761), 24u32.wrapping_mul(2654435761), 25u32.wrapping_mul(2654435761), 26u32.wrapping_mul(2654435761), 27u32.wrapping_mul(2654435761), 28u32.wrapping_mul(2654435761), 29u32.wrapping_mul(2654435761), 30u32.wrapping_mul(2654435761), 31u32.wrapping_mul(2654435761), 32u32.wrapping_mul(2654435761)];
    ck!(a.as_slice() == &nat[..], "arr! list of 33: contents {:?} differ from the native array literal", &a.as_slice()[..a.len().min(8)]);
    ck!(log == seq(33), "arr! list of 33: element expressions were evaluated in order {:?}, expected 0..33 once each", &log[..log.len().min(12)]);
    take_log(); let b: Box<GA<u32, N<33>>> = box_arr![lg(0), lg(1), lg(2), lg(3), lg(4), lg(5), lg(6), lg(7), lg(8), lg(9), lg(10), lg(11), lg(12), lg(13), lg(14), lg(15), lg(16), lg(17), lg(18), lg(19), lg(20), lg(21), lg(22), lg(23), lg(24), lg(25), lg(26), lg(27), lg(28), lg(29), lg(30), lg(31), lg(32)]; let log = take_log();
    ck!(b.as_slice() == &nat[..], "box_arr! list of 33: contents differ from the native array literal");
    ck!(log == seq(33), "box_arr! list of 33: element expressions were evaluated in order {:?}, expected 0..33 once each", &log[..log.len().min(12)]);
    ck!(*b == a, "box_arr! and arr! with the same arguments differ");
    Ok(())
}
fn case_list_33_trailing() -> Result<(), String> {
    take_log(); let a: GA<u32, N<33>> = arr![lg(0), lg(1), lg(2), lg(3), lg(4), lg(5), lg(6), lg(7), lg(8), lg(9), lg(10), lg(11), lg(12), lg(13), lg(14), lg(15), lg(16), lg(17), lg(18), lg(19), lg(20), lg(21), lg(22), lg(23), lg(24), lg(25), lg(26), lg(27), lg(28), lg(29), lg(30), lg(31), lg(32),]; let log = take_log();
    let nat: [u32; 33] = [0u32.wrapping_mul(2654435761), 1u32.wrapping_mul(2654435761), 2u32.wrapping_mul(2654435761), 3u32.wrapping_mul(2654435761), 4u32.wrapping_mul(2654435761), 5u32.wrapping_mul(2654435761), 6u32.wrapping_mul(2654435761), 7u32.wrapping_mul(2654435761), 8u32.wrapping_mul(2654435761), 9u32.wrapping_mul(2654435761), 10u32.wrapping_mul(2654435761), 11u32.wrapping_mul(2654435761), 12u32.wrapping_mul(2654435761), 13u32.wrapping_mul(2654435761), 14u32.wrapping_mul(2654435761), 15u32.wrapping_mul(2654435761), 16u32.wrapping_mul(2654435761), 17u32.wrapping_mul(2654435761), 18u32.wrapping_mul(2654435761), 19u32.wrapping_mul(2654435761), 20u32.wrapping_mul(2654435761), 21u32.wrapping_mul(2654435761), 22u32.wrapping_mul(2654435761), 23u32.wrapping_mul(2654435761), 24u32.wrapping_mul(2654435761), 25u32.wrapping_mul(2654435761), 26u32.wrapping_mul(2654435761), 27u32.wrapping_mul(2654435761), 28u32.wrapping_mul(2654435761), 29u32.wrapping_mul(2654435761), 30u32.wrapping_mul(2654435761), 31u32.wrapping_mul(2654435761), 32u32.wrapping_mul(2654435761)];
    ck!(a.as_slice() == &nat[..], "arr! list of 33: contents {:?} differ from the native array literal", &a.as_slice()[..a.len().min(8)]);
    ck!(log == seq(33), "arr! list of 33: element expressions were evaluated in order {:?}, expected 0..33 once each", &log[..log.len().min(12)]);
    take_log(); let b: Box<GA<u32, N<33>>> = box_arr![lg(0), lg(1), lg(2), lg(3), lg(4), lg(5), lg(6), lg(7), lg(8), lg(9), lg(10), lg(11), lg(12), lg(13), lg(14), lg(15), lg(16), lg(17), lg(18), lg(19), lg(20), lg(21), lg(22), lg(23), lg(24), lg(25), lg(26), lg(27), lg(28), lg(29), lg(30), lg(31), lg(32),]; let log = take_log();
    ck!(b.as_slice() == &nat[..], "box_arr! list of 33: contents differ from the native array literal");
    ck!(log == seq(33), "box_arr! list of 33: element expressions were evaluated in order {:?}, expected 0..33 once each", &log[..log.len().min(12)]);
    ck!(*b == a, "box_arr! and arr! with the same arguments differ");
    Ok(())
}
fn case_list_noncopy_33() -> Result<(), String> {
    take_log(); let a: GA<String, N<33>> = arr![ls(0), ls(1), ls(2), ls(3), ls(4), ls(5), ls(6), ls(7), ls(8), ls(9), ls(10), ls(11), ls(12), ls(13), ls(14), ls(15), ls(16), ls(17), ls(18), ls(19), ls(20), ls(21), ls(22), ls(23), ls(24), ls(25), ls(26), ls(27), ls(28), ls(29), ls(30), ls(31), ls(32)]; let log = take_log();
    ck!(a.iter().enumerate().all(|(i, s)| *s == format!("s{i}")) && a.len() == 33, "arr! list of 33 Strings: wrong contents");
    ck!(log == seq(33), "arr! list of 33 Strings: evaluation order {:?}", &log[..log.len().min(12)]);
    take_log(); take_drops();
    { let d: GA<D, N<33>> = arr![ld(0), ld(1), ld(2), ld(3), ld(4), ld(5), ld(6), ld(7), ld(8), ld(9), ld(10), ld(11), ld(12), ld(13), ld(14), ld(15), ld(16), ld(17), ld(18), ld(19), ld(20), ld(21), ld(22), ld(23), ld(24), ld(25), ld(26), ld(27), ld(28), ld(29), ld(30), ld(31), ld(32)]; ck!(take_drops().is_empty(), "arr! list of 33: an element was dropped while the array is alive");
      ck!(d.iter().enumerate().all(|(i, x)| x.0 == i as u32), "arr! list of 33 drop-tracked elements: wrong contents"); }
    let mut dr = take_drops(); dr.sort(); ck!(dr == seq(33), "arr! list of 33: drop counts after the array is gone: {:?}", &dr[..dr.len().min(12)]);
    take_log(); take_drops();
    { let d: Box<GA<D, N<33>>> = box_arr![ld(0), ld(1), ld(2), ld(3), ld(4), ld(5), ld(6), ld(7), ld(8), ld(9), ld(10), ld(11), ld(12), ld(13), ld(14), ld(15), ld(16), ld(17), ld(18), ld(19), ld(20), ld(21), ld(22), ld(23), ld(24), ld(25), ld(26), ld(27), ld(28), ld(29), ld(30), ld(31), ld(32)]; ck!(take_drops().is_empty(), "box_arr! list of 33: an element was dropped while the box is alive");
      ck!(d.iter().enumerate().all(|(i, x)| x.0 == i as u32), "box_arr! list of 33 drop-tracked elements: wrong contents"); ck!(take_log() == seq(33), "box_arr! list of 33: evaluation order"); }
    let mut dr = take_drops(); dr.sort(); ck!(dr == seq(33), "box_arr! list of 33: drop counts after the box is gone: {:?}", &dr[..dr.len().min(12)]);
    Ok(())
}
const CL_33: GA<u8, N<33>> = arr![1u8, 6u8, 11u8, 16u8, 21u8, 26u8, 31u8, 36u8, 41u8, 46u8, 51u8, 56u8, 61u8, 66u8, 71u8, 76u8, 81u8, 86u8, 91u8, 96u8, 101u8, 106u8, 111u8, 116u8, 121u8, 126u8, 131u8, 136u8, 141u8, 146u8, 151u8, 156u8, 161u8];
static SL_33: GA<u8, N<33>> = arr![1u8, 6u8, 11u8, 16u8, 21u8, 26u8, 31u8, 36u8, 41u8, 46u8, 51u8, 56u8, 61u8, 66u8, 71u8, 76u8, 81u8, 86u8, 91u8, 96u8, 101u8, 106u8, 111u8, 116u8, 121u8, 126u8, 131u8, 136u8, 141u8, 146u8, 151u8, 156u8, 161u8,];
const fn cfl_33() -> GA<u8, N<33>> { arr![1u8, 6u8, 11u8, 16u8, 21u8, 26u8, 31u8, 36u8, 41u8, 46u8, 51u8, 56u8, 61u8, 66u8, 71u8, 76u8, 81u8, 86u8, 91u8, 96u8, 101u8, 106u8, 111u8, 116u8, 121u8, 126u8, 131u8, 136u8, 141u8, 146u8, 151u8, 156u8, 161u8] }
fn case_list_const_33() -> Result<(), String> {
    let nat: [u8; 33] = [1u8, 6u8, 11u8, 16u8, 21u8, 26u8, 31u8, 36u8, 41u8, 46u8, 51u8, 56u8, 61u8, 66u8, 71u8, 76u8, 81u8, 86u8, 91u8, 96u8, 101u8, 106u8, 111u8, 116u8, 121u8, 126u8, 131u8, 136u8, 141u8, 146u8, 151u8, 156u8, 161u8];
    ck!(CL_33.as_slice() == &nat[..] && SL_33.as_slice() == &nat[..] && cfl_33().as_slice() == &nat[..], "arr! list of 33 in const / static / const fn position differs from the native literal");
    Ok(())
}
fn case_list_34() -> Result<(), String> {
    take_log(); let a: GA<u32, N<34>> = arr![lg(0), lg(1), lg(2), lg(3), lg(4), lg(5), lg(6), lg(7), lg(8), lg(9), lg(10), lg(11), lg(12), lg(13), lg(14), lg(15), lg(16), lg(17), lg(18), lg(19), lg(20), lg(21), lg(22), lg(23), lg(24), lg(25), lg(26), lg(27), lg(28), lg(29), lg(30), lg(31), lg(32), lg(33)]; let log = take_log();
    let nat: [u32; 34] = [0u32.wrapping_mul(2654435761), 1u32.wrapping_mul(2654435761), 2u32.wrapping_mul(2654435761), 3u32.wrapping_mul(2654435761), 4u32.wrapping_mul(2654435761), 5u32.wrapping_mul(2654435761), 6u32.wrapping_mul(2654435761), 7u32.wrapping_mul(2654435761), 8u32.wrapping_mul(2654435761), 9u32.wrapping_mul(2654435761), 10u32.wrapping_mul(2654435761), 11u32.wrapping_mul(2654435761), 12u32.wrapping_mul(2654435761), 13u32.wrapping_mul(2654435761), 14u32.wrapping_mul(2654435761), 15u32.wrapping_mul(2654435761), 16u32.wrapping_mul(2654435761), 17u32.wrapping_mul(2654435761), 18u32.wrapping_mul(2654435761), 19u32.wrapping_mul(2654435761), 20u32.wrapping_mul(2654435761), 21u32.wrapping_mul(2654435761), 22u32.wrapping_mul(2654435761), 23u32.wrapping_mul(2654435761), 24u32.wrapping_mul(2654435761), 25u32.wrapping_mul(2654435761), 26u32.wrapping_mul(2654435761), 27u32.wrapping_mul(2654435761), 28u32.wrapping_mul(2654435761), 29u32.wrapping_mul(2654435761), 30u32.wrapping_mul(2654435761), 31u32.wrapping_mul(2654435761), 32u32.wrapping_mul(2654435761), 33u32.wrapping_mul(2654435761)];
    ck!(a.as_slice() == &nat[..], "arr! list of 34: contents {:?} differ from the native array literal", &a.as_slice()[..a.len().min(8)]);
    ck!(log == seq(34), "arr! list of 34: element expressions were evaluated in order {:?}, expected 0..34 once each", &log[..log.len().min(12)]);
    take_log(); let b: Box<GA<u32, N<34>>> = box_arr![lg(0), lg(1), lg(2), lg(3), lg(4), lg(5), lg(6), lg(7), lg(8), lg(9), lg(10), lg(11), lg(12), lg(13), lg(14), lg(15), lg(16), lg(17), lg(18), lg(19), lg(20), lg(21), lg(22), lg(23), lg(24), lg(25), lg(26), lg(27), lg(28), lg(29), lg(30), lg(31), lg(32), lg(33)]; let log = take_log();
    ck!(b.as_slice() == &nat[..], "box_arr! list of 34: contents differ from the native array literal");
    ck!(log == seq(34), "box_arr! list of 34: element expressions were evaluated in order {:?}, expected 0..34 once each", &log[..log.len().min(12)]);
    ck!(*b == a, "box_arr! and arr! with the same arguments differ");
    Ok(())
}
fn case_list_34_trailing() -> Result<(), String> {
    take_log(); let a: GA<u32, N<34>> = arr![lg(0), lg(1), lg(2), lg(3), lg(4), lg(5), lg(6), lg(7), lg(8), lg(9), lg(10), lg(11), lg(12), lg(13), lg(14), lg(15), lg(16), lg(17), lg(18), lg(19), lg(20), lg(21), lg(22), lg(23), lg(24), lg(25), lg(26), lg(27), lg(28), lg(29), lg(30), lg(31), lg(32), lg(33),]; let log = take_log();
    let nat: [u32; 34] = [0u32.wrapping_mul(2654435761), 1u32.wrapping_mul(2654435761), 2u32.wrapping_mul(2654435761), 3u32.wrapping_mul(2654435761), 4u32.wrapping_mul(2654435761), 5u32.wrapping_mul(2654435761), 6u32.wrapping_mul(2654435761), 7u32.wrapping_mul(2654435761), 8u32.wrapping_mul(2654435761), 9u32.wrapping_mul(2654435761), 10u32.wrapping_mul(2654435761), 11u32.wrapping_mul(2654435761), 12u32.wrapping_mul(2654435761), 13u32.wrapping_mul(2654435761), 14u32.wrapping_mul(2654435761), 15u32.wrapping_mul(2654435761), 16u32.wrapping_mul(2654435761), 17u32.wrapping_mul(2654435761), 18u32.wrapping_mul(2654435761), 19u32.wrapping_mul(2654435761), 20u32.wrapping_mul(2654435761), 21u32.wrapping_mul(2654435761), 22u32.wrapping_mul(2654435761), 23u32.wrapping_mul(2654435761), 24u32.wrapping_mul(2654435761), 25u32.wrapping_mul(2654435761), 26u32.wrapping_mul(2654435761), 27u32.wrapping_mul(2654435761), 28u32.wrapping_mul(2654435761), 29u32.wrapping_mul(2654435761), 30u32.wrapping_mul(2654435761), 31u32.wrapping_mul(2654435761), 32u32.wrapping_mul(2654435761), 33u32.wrapping_mul(2654435761)];
    ck!(a.as_slice() == &nat[..], "arr! list of 34: contents {:?} differ from the native array literal", &a.as_slice()[..a.len().min(8)]);
    ck!(log == seq(34), "arr! list of 34: element expressions were evaluated in order {:?}, expected 0..34 once each", &log[..log.len().min(12)]);
    take_log(); let b: Box<GA<u32, N<34>>> = box_arr![lg(0), lg(1), lg(2), lg(3), lg(4), lg(5), lg(6), lg(7), lg(8), lg(9), lg(10), lg(11), lg(12), lg(13), lg(14), lg(15), lg(16), lg(17), lg(18), lg(19), lg(20), lg(21), lg(22), lg(23), lg(24), lg(25), lg(26), lg(27), lg(28), lg(29), lg(30), lg(31), lg(32), lg(33),]; let log = take_log();
    ck!(b.as_slice() == &nat[..], "box_arr! list of 34: contents differ from the native array literal");
    ck!(log == seq(34), "box_arr! list of 34: element expressions were evaluated in order {:?}, expected 0..34 once each", &log[..log.len().min(12)]);
    ck!(*b == a, "box_arr! and arr! with the same arguments differ");
    Ok(())
}
const CL_34: GA<u8, N<34>> = arr![1u8, 6u8, 11u8, 16u8, 21u8, 26u8, 31u8, 36u8, 41u8, 46u8, 51u8, 56u8, 61u8, 66u8, 71u8, 76u8, 81u8, 86u8, 91u8, 96u8, 101u8, 106u8, 111u8, 116u8, 121u8, 126u8, 131u8, 136u8, 141u8, 146u8, 151u8, 156u8, 161u8, 166u8];
static SL_34: GA<u8, N<34>> = arr![1u8, 6u8, 11u8, 16u8, 21u8, 26u8, 31u8, 36u8, 41u8, 46u8, 51u8, 56u8, 61u8, 66u8, 71u8, 76u8, 81u8, 86u8, 91u8, 96u8, 101u8, 106u8, 111u8, 116u8, 121u8, 126u8, 131u8, 136u8, 141u8, 146u8, 151u8, 156u8, 161u8, 166u8,];
const fn cfl_34() -> GA<u8, N<34>> { arr![1u8, 6u8, 11u8, 16u8, 21u8, 26u8, 31u8, 36u8, 41u8, 46u8, 51u8, 56u8, 61u8, 66u8, 71u8, 76u8, 81u8, 86u8, 91u8, 96u8, 101u8, 106u8, 111u8, 116u8, 121u8, 126u8, 131u8, 136u8, 141u8, 146u8, 151u8, 156u8, 161u8, 166u8] }
fn case_list_const_34() -> Result<(), String> {
    let nat: [u8; 34] = [1u8, 6u8, 11u8, 16u8, 21u8, 26u8, 31u8, 36u8, 41u8, 46u8, 51u8, 56u8, 61u8, 66u8, 71u8, 76u8, 81u8, 86u8, 91u8, 96u8, 101u8, 106u8, 111u8, 116u8, 121u8, 126u8, 131u8, 136u8, 141u8, 146u8, 151u8, 156u8, 161u8, 166u8];
    ck!(CL_34.as_slice() == &nat[..] && SL_34.as_slice() == &nat[..] && cfl_34().as_slice() == &nat[..], "arr! list of 34 in const / static / const fn position differs from the native literal");
    Ok(())
}
fn case_list_35() -> Result<(), String> {
    take_log(); let a: GA<u32, N<35>> = arr![lg(0), lg(1), lg(2), lg(3), lg(4), lg(5), lg(6), lg(7), lg(8), lg(9), lg(10), lg(11), lg(12), lg(13), lg(14), lg(15), lg(16), lg(17), lg(18), lg(19), lg(20), lg(21), lg(22), lg(23), lg(24), lg(25), lg(26), lg(27), lg(28), lg(29), lg(30), lg(31), lg(32), lg(33), lg(34)]; let log = take_log();
    let nat: [u32; 35] = [0u32.wrapping_mul(2654435761), 1u32.wrapping_mul(2654435761), 2u32.wrapping_mul(2654435761), 3u32.wrapping_mul(2654435761), 4u32.wrapping_mul(2654435761), 5u32.wrapping_mul(2654435761), 6u32.wrapping_mul(2654435761), 7u32.wrapping_mul(2654435761), 8u32.wrapping_mul(2654435761), 9u32.wrapping_mul(2654435761), 10u32.wrapping_mul(2654435761), 11u32.wrapping_mul(2654435761), 12u32.wrapping_mul(2654435761), 13u32.wrapping_mul(2654435761), 14u32.wrapping_mul(2654435761), 15u32.wrapping_mul(2654435761), 16u32.wrapping_mul(2654435761), 17u32.wrapping_mul(2654435761), 18u32.wrapping_mul(2654435761), 19u32.wrapping_mul(2654435761), 20u32.wrapping_mul(2654435761), 21u32.wrapping_mul(2654435761), 22u32.wrapping_mul(2654435761), 23u32.wrapping_mul(2654435761), 24u32.wrapping_mul(2654435761), 25u32.wrapping_mul(2654435761), 26u32.wrapping_mul(2654435761), 27u32.wrapping_mul(2654435761), 28u32.wrapping_mul(2654435761), 29u32.wrapping_mul(2654435761), 30u32.wrapping_mul(2654435761), 31u32.wrapping_mul(2654435761), 32u32.wrapping_mul(2654435761), 33u32.wrapping_mul(2654435761), 34u32.wrapping_mul(2654435761)];
    ck!(a.as_slice() == &nat[..], "arr! list of 35: contents {:?} differ from the native array literal", &a.as_slice()[..a.len().min(8)]);
    ck!(log == seq(35), "arr! list of 35: element expressions were evaluated in order {:?}, expected 0..35 once each", &log[..log.len().min(12)]);
    take_log(); let b: Box<GA<u32, N<35>>> = box_arr![lg(0), lg(1), lg(2), lg(3), lg(4), lg(5), lg(6), lg(7), lg(8), lg(9), lg(10), lg(11), lg(12), lg(13), lg(14), lg(15), lg(16), lg(17), lg(18), lg(19), lg(20), lg(21), lg(22), lg(23), lg(24), lg(25), lg(26), lg(27), lg(28), lg(29), lg(30), lg(31), lg(32), lg(33), lg(34)]; let log = take_log();
    ck!(b.as_slice() == &nat[..], "box_arr! list of 35: contents differ from the native array literal");
    ck!(log == seq(35), "box_arr! list of 35: element expressions were evaluated in order {:?}, expected 0..35 once each", &log[..log.len().min(12)]);
    ck!(*b == a, "box_arr! and arr! with the same arguments differ");
    Ok(())
}
fn case_list_35_trailing() -> Result<(), String> {
    take_log(); let a: GA<u32, N<35>> = arr![lg(0), lg(1), lg(2), lg(3), lg(4), lg(5), lg(6), lg(7), lg(8), lg(9), lg(10), lg(11), lg(12), lg(13), lg(14), lg(15), lg(16), lg(17), lg(18), lg(19), lg(20), lg(21), lg(22), lg(23), lg(24), lg(25), lg(26), lg(27), lg(28), lg(29), lg(30), lg(31), lg(32), lg(33), lg(34),]; let log = take_log();
    let nat: [u32; 35] = [0u32.wrapping_mul(2654435761), 1u32.wrapping_mul(2654435761), 2u32.wrapping_mul(2654435761), 3u32.wrapping_mul(2654435761), 4u32.wrapping_mul(2654435761), 5u32.wrapping_mul(2654435761), 6u32.wrapping_mul(2654435761), 7u32.wrapping_mul(2654435761), 8u32.wrapping_mul(2654435761), 9u32.wrapping_mul(2654435761), 10u32.wrapping_mul(2654435761), 11u32.wrapping_mul(2654435761), 12u32.wrapping_mul(2654435761), 13u32.wrapping_mul(2654435761), 14u32.wrapping_mul(2654435761), 15u32.wrapping_mul(2654435761), 16u32.wrapping_mul(2654435761), 17u32.wrapping_mul(2654435761), 18u32.wrapping_mul(2654435761), 19u32.wrapping_mul(2654435761), 20u32.wrapping_mul(2654435761), 21u32.wrapping_mul(2654435761), 22u32.wrapping_mul(2654435761), 23u32.wrapping_mul(2654435761), 24u32.wrapping_mul(2654435761), 25u32.wrapping_mul(2654435761), 26u32.wrapping_mul(2654435761), 27u32.wrapping_mul(2654435761), 28u32.wrapping_mul(2654435761), 29u32.wrapping_mul(2654435761), 30u32.wrapping_mul(2654435761), 31u32.wrapping_mul(2654435761), 32u32.wrapping_mul(2654435761), 33u32.wrapping_mul(2654435761), 34u32.wrapping_mul(2654435761)];
    ck!(a.as_slice() == &nat[..], "arr! list of 35: contents {:?} differ from the native array literal", &a.as_slice()[..a.len().min(8)]);
    ck!(log == seq(35), "arr! list of 35: element expressions were evaluated in order {:?}, expected 0..35 once each", &log[..log.len().min(12)]);
    take_log(); let b: Box<GA<u32, N<35>>> = box_arr![lg(0), lg(1), lg(2), lg(3), lg(4), lg(5), lg(6), lg(7), lg(8), lg(9), lg(10), lg(11), lg(12), lg(13), lg(14), lg(15), lg(16), lg(17), lg(18), lg(19), lg(20), lg(21), lg(22), lg(23), lg(24), lg(25), lg(26), lg(27), lg(28), lg(29), lg(30), lg(31), lg(32), lg(33), lg(34),]; let log = take_log();
    ck!(b.as_slice() == &nat[..], "box_arr! list of 35: contents differ from the native array literal");
    ck!(log == seq(35), "box_arr! list of 35: element expressions were evaluated in order {:?}, expected 0..35 once each", &log[..log.len().min(12)]);
    ck!(*b == a, "box_arr! and arr! with the same arguments differ");
    Ok(())
}
const CL_35: GA<u8, N<35>> = arr![1u8, 6u8, 11u8, 16u8, 21u8, 26u8, 31u8, 36u8, 41u8, 46u8, 51u8, 56u8, 61u8, 66u8, 71u8, 76u8, 81u8, 86u8, 91u8, 96u8, 101u8, 106u8, 111u8, 116u8, 121u8, 126u8, 131u8, 136u8, 141u8, 146u8, 151u8, 156u8, 161u8, 166u8, 171u8];
static SL_35: GA<u8, N<35>> = arr![1u8, 6u8, 11u8, 16u8, 21u8, 26u8, 31u8, 36u8, 41u8, 46u8, 51u8, 56u8, 61u8, 66u8, 71u8, 76u8, 81u8, 86u8, 91u8, 96u8, 101u8, 106u8, 111u8, 116u8, 121u8, 126u8, 131u8, 136u8, 141u8, 146u8, 151u8, 156u8, 161u8, 166u8, 171u8,];
const fn cfl_35() -> GA<u8, N<35>> { arr![1u8, 6u8, 11u8, 16u8, 21u8, 26u8, 31u8, 36u8, 41u8, 46u8, 51u8, 56u8, 61u8, 66u8, 71u8, 76u8, 81u8, 86u8, 91u8, 96u8, 101u8, 106u8, 111u8, 116u8, 121u8, 126u8, 131u8, 136u8, 141u8, 146u8, 151u8, 156u8, 161u8, 166u8, 171u8] }
fn case_list_const_35() -> Result<(), String> {
    let nat: [u8; 35] = [1u8, 6u8, 11u8, 16u8, 21u8, 26u8, 31u8, 36u8, 41u8, 46u8, 51u8, 56u8, 61u8, 66u8, 71u8, 76u8, 81u8, 86u8, 91u8, 96u8, 101u8, 106u8, 111u8, 116u8, 121u8, 126u8, 131u8, 136u8, 141u8, 146u8, 151u8, 156u8, 161u8, 166u8, 171u8];
    ck!(CL_35.as_slice() == &nat[..] && SL_35.as_slice() == &nat[..] && cfl_35().as_slice() == &nat[..], "arr! list of 35 in const / static / const fn position differs from the native literal");
    Ok(())
}
fn case_list_36() -> Result<(), String> {
    take_log(); let a: GA<u32, N<36>> = arr![lg(0), lg(1), lg(2), lg(3), lg(4), lg(5), lg(6), lg(7), lg(8), lg(9), lg(10), lg(11), lg(12), lg(13), lg(14), lg(15), lg(16), lg(17), lg(18), lg(19), lg(20), lg(21), lg(22), lg(23), lg(24), lg(25), lg(26), lg(27), lg(28), lg(29), lg(30), lg(31), lg(32), lg(33), lg(34), lg(35)]; let log = take_log();
    let nat: [u32; 36] = [0u32.wrapping_mul(2654435761), 1u32.wrapping_mul(2654435761), 2u32.wrapping_mul(2654435761), 3u32.wrapping_mul(2654435761), 4u32.wrapping_mul(2654435761), 5u32.wrapping_mul(2654435761), 6u32.wrapping_mul(2654435761), 7u32.wrapping_mul(2654435761), 8u32.wrapping_mul(2654435761), 9u32.wrapping_mul(2654435761), 10u32.wrapping_mul(2654435761), 11u32.wrapping_mul(2654435761), 12u32.wrapping_mul(2654435761), 13u32.wrapping_mul(2654435761), 14u32.wrapping_mul(2654435761), 15u32.wrapping_mul(2654435761), 16u32.wrapping_mul(2654435761), 17u32.wrapping_mul(2654435761), 18u32.wrapping_mul(2654435761), 19u32.wrapping_mul(2654435761), 20u32.wrapping_mul(2654435761), 21u32.wrapping_mul(2654435761), 22u32.wrapping_mul(2654435761), 23u32.wrapping_mul(2654435761), 24u32.wrapping_mul(2654435761), 25u32.wrapping_mul(2654435761), 26u32.wrapping_mul(2654435761), 27u32.wrapping_mul(2654435761), 28u32.wrapping_mul(2654435761), 29u32.wrapping_mul(2654435761), 30u32.wrapping_mul(2654435761), 31u32.wrapping_mul(2654435761), 32u32.wrapping_mul(2654435761), 33u32.wrapping_mul(2654435761), 34u32.wrapping_mul(2654435761), 35u32.wrapping_mul(2654435761)];
    ck!(a.as_slice() == &nat[..], "arr! list of 36: contents {:?} differ from the native array literal", &a.as_slice()[..a.len().min(8)]);
    ck!(log == seq(36), "arr! list of 36: element expressions were evaluated in order {:?}, expected 0..36 once each", &log[..log.len().min(12)]);
    take_log(); let b: Box<GA<u32, N<36>>> = box_arr![lg(0), lg(1), lg(2), lg(3), lg(4), lg(5), lg(6), lg(7), lg(8), lg(9), lg(10), lg(11), lg(12), lg(13), lg(14), lg(15), lg(16), lg(17), lg(18), lg(19), lg(20), lg(21), lg(22), lg(23), lg(24), lg(25), lg(26), lg(27), lg(28), lg(29), lg(30), lg(31), lg(32), lg(33), lg(34), lg(35)]; let log = take_log();
    ck!(b.as_slice() == &nat[..], "box_arr! list of 36: contents differ from the native array literal");
    ck!(log == seq(36), "box_arr! list of 36: element expressions were evaluated in order {:?}, expected 0..36 once each", &log[..log.len().min(12)]);
    ck!(*b == a, "box_arr! and arr! with the same arguments differ");
    Ok(())
}
fn case_list_36_trailing() -> Result<(), String> {
    take_log(); let a: GA<u32, N<36>> = arr![lg(0), lg(1), lg(2), lg(3), lg(4), lg(5), lg(6), lg(7), lg(8), lg(9), lg(10), lg(11), lg(12), lg(13), lg(14), lg(15), lg(16), lg(17), lg(18), lg(19), lg(20), lg(21), lg(22), lg(23), lg(24), lg(25), lg(26), lg(27), lg(28), lg(29), lg(30), lg(31), lg(32), lg(33), lg(34), lg(35),]; let log = take_log();
    let nat: [u32; 36] = [0u32.wrapping_mul(2654435761), 1u32.wrapping_mul(2654435761), 2u32.wrapping_mul(2654435761), 3u32.wrapping_mul(2654435761), 4u32.wrapping_mul(2654435761), 5u32.wrapping_mul(2654435761), 6u32.wrapping_mul(2654435761), 7u32.wrapping_mul(2654435761), 8u32.wrapping_mul(2654435761), 9u32.wrapping_mul(2654435761), 10u32.wrapping_mul(2654435761), 11u32.wrapping_mul(2654435761), 12u32.wrapping_mul(2654435761), 13u32.wrapping_mul(2654435761), 14u32.wrapping_mul(2654435761), 15u32.wrapping_mul(2654435761), 16u32.wrapping_mul(2654435761), 17u32.wrapping_mul(2654435761), 18u32.wrapping_mul(2654435761), 19u32.wrapping_mul(2654435761), 20u32.wrapping_mul(2654435761), 21u32.wrapping_mul(2654435761), 22u32.wrapping_mul(2654435761), 23u32.wrapping_mul(2654435761), 24u32.wrapping_mul(2654435761), 25u32.wrapping_mul(2654435761), 26u32.wrapping_mul(2654435761), 27u32.wrapping_mul(2654435761), 28u32.wrapping_mul(2654435761), 29u32.wrapping_mul(2654435761), 30u32.wrapping_mul(2654435761), 31u32.wrapping_mul(2654435761), 32u32.wrapping_mul(2654435761), 33u32.wrapping_mul(2654435761), 34u32.wrapping_mul(2654435761), 35u32.wrapping_mul(2654435761)];
    ck!(a.as_slice() == &nat[..], "arr! list of 36: contents {:?} differ from the native array literal", &a.as_slice()[..a.len().min(8)]);
    ck!(log == seq(36), "arr! list of 36: element expressions were evaluated in order {:?}, expected 0..36 once each", &log[..log.len().min(12)]);
    take_log(); let b: Box<GA<u32, N<36>>> = box_arr![lg(0), lg(1), lg(2), lg(3), lg(4), lg(5), lg(6), lg(7), lg(8), lg(9), lg(10), lg(11), lg(12), lg(13), lg(14), lg(15), lg(16), lg(17), lg(18), lg(19), lg(20), lg(21), lg(22), lg(23), lg(24), lg(25), lg(26), lg(27), lg(28), lg(29), lg(30), lg(31), lg(32), lg(33), lg(34), lg(35),]; let log = take_log();
    ck!(b.as_slice() == &nat[..], "box_arr! list of 36: contents differ from the native array literal");
    ck!(log == seq(36), "box_arr! list of 36: element expressions were evaluated in order {:?}, expected 0..36 once each", &log[..log.len().min(12)]);
    ck!(*b == a, "box_arr! and arr! with the same arguments differ");
    Ok(())
}
const CL_36: GA<u8, N<36>> = arr![1u8, 6u8, 11u8, 16u8, 21u8, 26u8, 31u8, 36u8, 41u8, 46u8, 51u8, 56u8, 61u8, 66u8, 71u8, 76u8, 81u8, 86u8, 91u8, 96u8, 101u8, 106u8, 111u8, 116u8, 121u8, 126u8, 131u8, 136u8, 141u8, 146u8, 151u8, 156u8, 161u8, 166u8, 171u8, 176u8];
static SL_36: GA<u8, N<36>> = arr![1u8, 6u8, 11u8, 16u8, 21u8, 26u8, 31u8, 36u8, 41u8, 46u8, 51u8, 56u8, 61u8, 66u8, 71u8, 76u8, 81u8, 86u8, 91u8, 96u8, 101u8, 106u8, 111u8, 116u8, 121u8, 126u8, 131u8, 136u8, 141u8, 146u8, 151u8, 156u8, 161u8, 166u8, 171u8, 176u8,];
const fn cfl_36() -> GA<u8, N<36>> { arr![1u8, 6u8, 11u8, 16u8, 21u8, 26u8, 31u8, 36u8, 41u8, 46u8, 51u8, 56u8, 61u8, 66u8, 71u8, 76u8, 81u8, 86u8, 91u8, 96u8, 101u8, 106u8, 111u8, 116u8, 121u8, 126u8, 131u8, 136u8, 141u8, 146u8, 151u8, 156u8, 161u8, 166u8, 171u8, 176u8] }
fn case_list_const_36() -> Result<(), String> {
    let nat: [u8; 36] = [1u8, 6u8, 11u8, 16u8, 21u8, 26u8, 31u8, 36u8, 41u8, 46u8, 51u8, 56u8, 61u8, 66u8, 71u8, 76u8, 81u8, 86u8, 91u8, 96u8, 101u8, 106u8, 111u8, 116u8, 121u8, 126u8, 131u8, 136u8, 141u8, 146u8, 151u8, 156u8, 161u8, 166u8, 171u8, 176u8];
    ck!(CL_36.as_slice() == &nat[..] && SL_36.as_slice() == &nat[..] && cfl_36().as_slice() == &nat[..], "arr! list of 36 in const / static / const fn position differs from the native literal");
    Ok(())
}
fn case_list_37() -> Result<(), String> {
    take_log(); let a: GA<u32, N<37>> = arr![lg(0), lg(1), lg(2), lg(3), lg(4), lg(5), lg(6), lg(7), lg(8), lg(9), lg(10), lg(11), lg(12), lg(13), lg(14), lg(15), lg(16), lg(17), lg(18), lg(19), lg(20), lg(21), lg(22), lg(23), lg(24), lg(25), lg(26), lg(27), lg(28), lg(29), lg(30), lg(31), lg(32), lg(33), lg(34), lg(35), lg(36)]; let log = take_log();
    let nat: [u32; 37] = [0u32.wrapping_mul(2654435761), 1u32.wrapping_mul(2654435761), 2u32.wrapping_mul(2654435761), 3u32.wrapping_mul(2654435761), 4u32.wrapping_mul(2654435761), 5u32.wrapping_mul(2654435761), 6u32.wrapping_mul(2654435761), 7u32.wrapping_mul(2654435761), 8u32.wrapping_mul(2654435761), 9u32.wrapping_mul(2654435761), 10u32.wrapping_mul(2654435761), 11u32.wrapping_mul(2654435761), 12u32.wrapping_mul(2654435761), 13u32.wrapping_mul(2654435761), 14u32.wrapping_mul(2654435761), 15u32.wrapping_mul(2654435761), 16u32.wrapping_mul(2654435761), 17u32.wrapping_mul(2654435761), 18u32.wrapping_mul(2654435761), 19u32.wrapping_mul(2654435761), 20u32.wrapping_mul(2654435761), 21u32.wrapping_mul(2654435761), 22u32.wrapping_mul(2654435761), 23u32.wrapping_mul(2654435761), 24u32.wrapping_mul(2654435761), 25u32.wrapping_mul(2654435761), 26u32.wrapping_mul(2654435761), 27u32.wrapping_mul(2654435761), 28u32.wrapping_mul(2654435761), 29u32.wrapping_mul(2654435761), 30u32.wrapping_mul(2654435761), 31u32.wrapping_mul(2654435761), 32u32.wrapping_mul(2654435761), 33u32.wrapping_mul(2654435761), 34u32.wrapping_mul(2654435761), 35u32.wrapping_mul(2654435761), 36u32.wrapping_mul(2654435761)];
    ck!(a.as_slice() == &nat[..], "arr! list of 37: contents {:?} differ from the native array literal", &a.as_slice()[..a.len().min(8)]);
    ck!(log == seq(37), "arr! list of 37: element expressions were evaluated in order {:?}, expected 0..37 once each", &log[..log.len().min(12)]);
    take_log(); let b: Box<GA<u32, N<37>>> = box_arr![lg(0), lg(1), lg(2), lg(3), lg(4), lg(5), lg(6), lg(7), lg(8), lg(9), lg(10), lg(11), lg(12), lg(13), lg(14), lg(15), lg(16), lg(17), lg(18), lg(19), lg(20), lg(21), lg(22), lg(23), lg(24), lg(25), lg(26), lg(27), lg(28), lg(29), lg(30), lg(31), lg(32), lg(33), lg(34), lg(35), lg(36)]; let log = take_log();
    ck!(b.as_slice() == &nat[..], "box_arr! list of 37: contents differ from the native array literal");
    ck!(log == seq(37), "box_arr! list of 37: element expressions were evaluated in order {:?}, expected 0..37 once each", &log[..log.len().min(12)]);
    ck!(*b == a, "box_arr! and arr! with the same arguments differ");
    Ok(())
}
fn case_list_37_trailing() -> Result<(), String> {
    take_log(); let a: GA<u32, N<37>> = arr![lg(0), lg(1), lg(2), lg(3), lg(4), lg(5), lg(6), lg(7), lg(8), lg(9), lg(10), lg(11), lg(12), lg(13), lg(14), lg(15), lg(16), lg(17), lg(18), lg(19), lg(20), lg(21), lg(22), lg(23), lg(24), lg(25), lg(26), lg(27), lg(28), lg(29), lg(30), lg(31), lg(32), lg(33), lg(34), lg(35), lg(36),]; let log = take_log();
    let nat: [u32; 37] = [0u32.wrapping_mul(2654435761), 1u32.wrapping_mul(2654435761), 2u32.wrapping_mul(2654435761), 3u32.wrapping_mul(2654435761), 4u32.wrapping_mul(2654435761), 5u32.wrapping_mul(2654435761), 6u32.wrapping_mul(2654435761), 7u32.wrapping_mul(2654435761), 8u32.wrapping_mul(2654435761), 9u32.wrapping_mul(2654435761), 10u32.wrapping_mul(2654435761), 11u32.wrapping_mul(2654435761), 12u32.wrapping_mul(2654435761), 13u32.wrapping_mul(2654435761), 14u32.wrapping_mul(2654435761), 15u32.wrapping_mul(2654435761), 16u32.wrapping_mul(2654435761), 17u32.wrapping_mul(2654435761), 18u32.wrapping_mul(2654435761), 19u32.wrapping_mul(2654435761), 20u32.wrapping_mul(2654435761), 21u32.wrapping_mul(2654435761), 22u32.wrapping_mul(2654435761), 23u32.wrapping_mul(2654435761), 24u32.wrapping_mul(2654435761), 25u32.wrapping_mul(2654435761), 26u32.wrapping_mul(2654435761), 27u32.wrapping_mul(2654435761), 28u32.wrapping_mul(2654435761), 29u32.wrapping_mul(2654435761), 30u32.wrapping_mul(2654435761), 31u32.wrapping_mul(2654435761), 32u32.wrapping_mul(2654435761), 33u32.wrapping_mul(2654435761), 34u32.wrapping_mul(2654435761), 35u32.wrapping_mul(2654435761), 36u32.wrapping_mul(2654435761)];
    ck!(a.as_slice() == &nat[..], "arr! list of 37: contents {:?} differ from the native array literal", &a.as_slice()[..a.len().min(8)]);
    ck!(log == seq(37), "arr! list of 37: element expressions were evaluated in order {:?}, expected 0..37 once each", &log[..log.len().min(12)]);
    take_log(); let b: Box<GA<u32, N<37>>> = box_arr![lg(0), lg(1), lg(2), lg(3), lg(4), lg(5), lg(6), lg(7), lg(8), lg(9), lg(10), lg(11), lg(12), lg(13), lg(14), lg(15), lg(16), lg(17), lg(18), lg(19), lg(20), lg(21), lg(22), lg(23), lg(24), lg(25), lg(26), lg(27), lg(28), lg(29), lg(30), lg(31), lg(32), lg(33), lg(34), lg(35), lg(36),]; let log = take_log();
    ck!(b.as_slice() == &nat[..], "box_arr! list of 37: contents differ from the native array literal");
    ck!(log == seq(37), "box_arr! list of 37: element expressions were evaluated in order {:?}, expected 0..37 once each", &log[..log.len().min(12)]);
    ck!(*b == a, "box_arr! and arr! with the same arguments differ");
    Ok(())
}
const CL_37: GA<u8, N<37>> = arr![1u8, 6u8, 11u8, 16u8, 21u8, 26u8, 31u8, 36u8, 41u8, 46u8, 51u8, 56u8, 61u8, 66u8, 71u8, 76u8, 81u8, 86u8, 91u8, 96u8, 101u8, 106u8, 111u8, 116u8, 121u8, 126u8, 131u8, 136u8, 141u8, 146u8, 151u8, 156u8, 161u8, 166u8, 171u8, 176u8, 181u8];
static SL_37: GA<u8, N<37>> = arr![1u8, 6u8, 11u8, 16u8, 21u8, 26u8, 31u8, 36u8, 41u8, 46u8, 51u8, 56u8, 61u8, 66u8, 71u8, 76u8, 81u8, 86u8, 91u8, 96u8, 101u8, 106u8, 111u8, 116u8, 121u8, 126u8, 131u8, 136u8, 141u8, 146u8, 151u8, 156u8, 161u8, 166u8, 171u8, 176u8, 181u8,];
const fn cfl_37() -> GA<u8, N<37>> { arr![1u8, 6u8, 11u8, 16u8, 21u8, 26u8, 31u8, 36u8, 41u8, 46u8, 51u8, 56u8, 61u8, 66u8, 71u8, 76u8, 81u8, 86u8, 91u8, 96u8, 101u8, 106u8, 111u8, 116u8, 121u8, 126u8, 131u8, 136u8, 141u8, 146u8, 151u8, 156u8, 161u8, 166u8, 171u8, 176u8, 181u8] }
fn case_list_const_37() -> Result<(), String> {
    let nat: [u8; 37] = [1u8, 6u8, 11u8, 16u8, 21u8, 26u8, 31u8, 36u8, 41u8, 46u8, 51u8, 56u8, 61u8, 66u8, 71u8, 76u8, 81u8, 86u8, 91u8, 96u8, 101u8, 106u8, 111u8, 116u8, 121u8, 126u8, 131u8, 136u8, 141u8, 146u8, 151u8, 156u8, 161u8, 166u8, 171u8, 176u8, 181u8];
    ck!(CL_37.as_slice() == &nat[..] && SL_37.as_slice() == &nat[..] && cfl_37().as_slice() == &nat[..], "arr! list of 37 in const / static / const fn position differs from the native literal");
    Ok(())
}
fn case_list_38() -> Result<(), String> {
    take_log(); let a: GA<u32, N<38>> = arr![lg(0), lg(1), lg(2), lg(3), lg(4), lg(5), lg(6), lg(7), lg(8), lg(9), lg(10), lg(11), lg(12), lg(13), lg(14), lg(15), lg(16), lg(17), lg(18), lg(19), lg(20), lg(21), lg(22), lg(23), lg(24), lg(25), lg(26), lg(27), lg(28), lg(29), lg(30), lg(31), lg(32), lg(33), lg(34), lg(35), lg(36), lg(37)]; let log = take_log();
    let nat: [u32; 38] = [0u32.wrapping_mul(2654435761), 1u32.wrapping_mul(2654435761), 2u32.wrapping_mul(2654435761), 3u32.wrapping_mul(2654435761), 4u32.wrapping_mul(2654435761), 5u32.wrapping_mul(2654435761), 6u32.wrapping_mul(2654435761), 7u32.wrapping_mul(2654435761), 8u32.wrapping_mul(2654435761), 9u32.wrapping_mul(2654435761), 10u32.wrapping_mul(2654435761), 11u32.wrapping_mul(2654435761), 12u32.wrapping_mul(2654435761), 13u32.wrapping_mul(2654435761), 14u32.wrapping_mul(2654435761), 15u32.wrapping_mul(2654435761), 16u32.wrapping_mul(2654435761), 17u32.wrapping_mul(2654435761), 18u32.wrapping_mul(2654435761), 19u32.wrapping_mul(2654435761), 20u32.wrapping_mul(2654435761), 21u32.wrapping_mul(2654435761), 22u32.wrapping_mul(2654435761), 23u32.wrapping_mul(2654435761), 24u32.wrapping_mul(2654435761), 25u32.wrapping_mul(2654435761), 26u32.wrapping_mul(2654435761), 27u32.wrapping_mul(2654435761), 28u32.wrapping_mul(2654435761), 29u32.wrapping_mul(2654435761), 30u32.wrapping_mul(2654435761), 31u32.wrapping_mul(2654435761), 32u32.wrapping_mul(2654435761), 33u32.wrapping_mul(2654435761), 34u32.wrapping_mul(2654435761), 35u32.wrapping_mul(2654435761), 36u32.wrapping_mul(2654435761), 37u32.wrapping_mul(2654435761)];
    ck!(a.as_slice() == &nat[..], "arr! list of 38: contents {:?} differ from the native array literal", &a.as_slice()[..a.len().min(8)]);
    ck!(log == seq(38), "arr! list of 38: element expressions were evaluated in order {:?}, expected 0..38 once each", &log[..log.len().min(12)]);
    take_log(); let b: Box<GA<u32, N<38>>> = box_arr![lg(0), lg(1), lg(2), lg(3), lg(4), lg(5), lg(6), lg(7), lg(8), lg(9), lg(10), lg(11), lg(12), lg(13), lg(14), lg(15), lg(16), lg(17), lg(18), lg(19), lg(20), lg(21), lg(22), lg(23), lg(24), lg(25), lg(26), lg(27), lg(28), lg(29), lg(30), lg(31), lg(32), lg(33), lg(34), lg(35), lg(36), lg(37)]; let log = take_log();
    ck!(b.as_slice() == &nat[..], "box_arr! list of 38: contents differ from the native array literal");
    ck!(log == seq(38), "box_arr! list of 38: element expressions were evaluated in order {:?}, expected 0..38 once each", &log[..log.len().min(12)]);
    ck!(*b == a, "box_arr! and arr! with the same arguments differ");
    Ok(())
}
fn case_list_38_trailing() -> Result<(), String> {
    take_log(); let a: GA<u32, N<38>> = arr![lg(0), lg(1), lg(2), lg(3), lg(4), lg(5), lg(6), lg(7), lg(8), lg(9), lg(10), lg(11), lg(12), lg(13), lg(14), lg(15), lg(16), lg(17), lg(18), lg(19), lg(20), lg(21), lg(22), lg(23), lg(24), lg(25), lg(26), lg(27), lg(28), lg(29), lg(30), lg(31), lg(32), lg(33), lg(34), lg(35), lg(36), lg(37),]; let log = take_log();
    let nat: [u32; 38] = [0u32.wrapping_mul(2654435761), 1u32.wrapping_mul(2654435761), 2u32.wrapping_mul(2654435761), 3u32.wrapping_mul(2654435761), 4u32.wrapping_mul(2654435761), 5u32.wrapping_mul(2654435761), 6u32.wrapping_mul(2654435761), 7u32.wrapping_mul(2654435761), 8u32.wrapping_mul(2654435761), 9u32.wrapping_mul(2654435761), 10u32.wrapping_mul(2654435761), 11u32.wrapping_mul(2654435761), 12u32.wrapping_mul(2654435761), 13u32.wrapping_mul(2654435761), 14u32.wrapping_mul(2654435761), 15u32.wrapping_mul(2654435761), 16u32.wrapping_mul(2654435761), 17u32.wrapping_mul(2654435761), 18u32.wrapping_mul(2654435761), 19u32.wrapping_mul(2654435761), 20u32.wrapping_mul(2654435761), 21u32.wrapping_mul(2654435761), 22u32.wrapping_mul(2654435761), 23u32.wrapping_mul(2654435761), 24u32.wrapping_mul(2654435761), 25u32.wrapping_mul(2654435761), 26u32.wrapping_mul(2654435761), 27u32.wrapping_mul(2654435761), 28u32.wrapping_mul(2654435761), 29u32.wrapping_mul(2654435761), 30u32.wrapping_mul(2654435761), 31u32.wrapping_mul(2654435761), 32u32.wrapping_mul(2654435761), 33u32.wrapping_mul(2654435761), 34u32.wrapping_mul(2654435761), 35u32.wrapping_mul(2654435761), 36u32.wrapping_mul(2654435761), 37u32.wrapping_mul(2654435761)];
    ck!(a.as_slice() == &nat[..], "arr! list of 38: contents {:?} differ from the native array literal", &a.as_slice()[..a.len().min(8)]);
    ck!(log == seq(38), "arr! list of 38: element expressions were evaluated in order {:?}, expected 0..38 once each", &log[..log.len().min(12)]);
    take_log(); let b: Box<GA<u32, N<38>>> = box_arr![lg(0), lg(1), lg(2), lg(3), lg(4), lg(5), lg(6), lg(7), lg(8), lg(9), lg(10), lg(11), lg(12), lg(13), lg(14), lg(15), lg(16), lg(17), lg(18), lg(19), lg(20), lg(21), lg(22), lg(23), lg(24), lg(25), lg(26), lg(27), lg(28), lg(29), lg(30), lg(31), lg(32), lg(33), lg(34), lg(35), lg(36), lg(37),]; let log = take_log();
    ck!(b.as_slice() == &nat[..], "box_arr! list of 38: contents differ from the native array literal");
    ck!(log == seq(38), "box_arr! list of 38: element expressions were evaluated in order {:?}, expected 0..38 once each", &log[..log.len().min(12)]);
    ck!(*b == a, "box_arr! and arr! with the same arguments differ");
    Ok(())
}
const CL_38: GA<u8, N<38>> = arr![1u8, 6u8, 11u8, 16u8, 21u8, 26u8, 31u8, 36u8, 41u8, 46u8, 51u8, 56u8, 61u8, 66u8, 71u8, 76u8, 81u8, 86u8, 91u8, 96u8, 101u8, 106u8, 111u8, 116u8, 121u8, 126u8, 131u8, 136u8, 141u8, 146u8, 151u8, 156u8, 161u8, 166u8, 171u8, 176u8, 181u8, 186u8];
static SL_38: GA<u8, N<38>> = arr![1u8, 6u8, 11u8, 16u8, 21u8, 26u8, 31u8, 36u8, 41u8, 46u8, 51u8, 56u8, 61u8, 66u8, 71u8, 76u8, 81u8, 86u8, 91u8, 96u8, 101u8, 106u8, 111u8, 116u8, 121u8, 126u8, 131u8, 136u8, 141u8, 146u8, 151u8, 156u8, 161u8, 166u8, 171u8, 176u8, 181u8, 186u8,];
const fn cfl_38() -> GA<u8, N<38>> { arr![1u8, 6u8, 11u8, 16u8, 21u8, 26u8, 31u8, 36u8, 41u8, 46u8, 51u8, 56u8, 61u8, 66u8, 71u8, 76u8, 81u8, 86u8, 91u8, 96u8, 101u8, 106u8, 111u8, 116u8, 121u8, 126u8, 131u8, 136u8, 141u8, 146u8, 151u8, 156u8, 161u8, 166u8, 171u8, 176u8, 181u8, 186u8] }
fn case_list_const_38() -> Result<(), String> {
    let nat: [u8; 38] = [1u8, 6u8, 11u8, 16u8, 21u8, 26u8, 31u8, 36u8, 41u8, 46u8, 51u8, 56u8, 61u8, 66u8, 71u8, 76u8, 81u8, 86u8, 91u8, 96u8, 101u8, 106u8, 111u8, 116u8, 121u8, 126u8, 131u8, 136u8, 141u8, 146u8, 151u8, 156u8, 161u8, 166u8, 171u8, 176u8, 181u8, 186u8];
    ck!(CL_38.as_slice() == &nat[..] && SL_38.as_slice() == &nat[..] && cfl_38().as_slice() == &nat[..], "arr! list of 38 in const / static / const fn position differs from the native literal");
    Ok(())
}
fn case_list_39() -> Result<(), String> {
    take_log(); let a: GA<u32, N<39>> = arr![lg(0), lg(1), lg(2), lg(3), lg(4), lg(5), lg(6), lg(7), lg(8), lg(9), lg(10), lg(11), lg(12), lg(13), lg(14), lg(15), lg(16), lg(17), lg(18), lg(19), lg(20), lg(21), lg(22), lg(23), lg(24), lg(25), lg(26), lg(27), lg(28), lg(29), lg(30), lg(31), lg(32), lg(33), lg(34), lg(35), lg(36), lg(37), lg(38)]; let log = take_log();
    let nat: [u32; 39] = [0u32.wrapping_mul(2654435761), 1u32.wrapping_mul(2654435761), 2u32.wrapping_mul(2654435761), 3u32.wrapping_mul(2654435761), 4u32.wrapping_mul(2654435761), 5u32.wrapping_mul(2654435761), 6u32.wrapping_mul(2654435761), 7u32.wrapping_mul(2654435761), 8u32.wrapping_mul(2654435761), 9u32.wrapping_mul(2654435761), 10u32.wrapping_mul(2654435761), 11u32.wrapping_mul(2654435761), 12u32.wrapping_mul(2654435761), 13u32.wrapping_mul(2654435761), 14u32.wrapping_mul(2654435761), 15u32.wrapping_mul(2654435761), 16u32.wrapping_mul(2654435761), 17u32.wrapping_mul(2654435761), 18u32.wrapping_mul(2654435761), 19u32.wrapping_mul(2654435761), 20u32.wrapping_mul(2654435761), 21u32.wrapping_mul(2654435761), 22u32.wrapping_mul(2654435761), 23u32.wrapping_mul(2654435761), 24u32.wrapping_mul(2654435761), 25u32.wrapping_mul(2654435761), 26u32.wrapping_mul(2654435761), 27u32.wrapping_mul(2654435761), 28u32.wrapping_mul(2654435761), 29u32.wrapping_mul(2654435761), 30u32.wrapping_mul(2654435761), 31u32.wrapping_mul(2654435761), 32u32.wrapping_mul(2654435761), 33u32.wrapping_mul(2654435761), 34u32.wrapping_mul(2654435761), 35u32.wrapping_mul(2654435761), 36u32.wrapping_mul(2654435761), 37u32.wrapping_mul(2654435761), 38u32.wrapping_mul(2654435761)];
    ck!(a.as_slice() == &nat[..], "arr! list of 39: contents {:?} differ from the native array literal", &a.as_slice()[..a.len().min(8)]);
    ck!(log == seq(39), "arr! list of 39: element expressions were evaluated in order {:?}, expected 0..39 once each", &log[..log.len().min(12)]);
    take_log(); let b: Box<GA<u32, N<39>>> = box_arr![lg(0), lg(1), lg(2), lg(3), lg(4), lg(5), lg(6), lg(7), lg(8), lg(9), lg(10), lg(11), lg(12), lg(13), lg(14), lg(15), lg(16), lg(17), lg(18), lg(19), lg(20), lg(21), lg(22), lg(23), lg(24), lg(25), lg(26), lg(27), lg(28), lg(29), lg(30), lg(31), lg(32), lg(33), lg(34), lg(35), lg(36), lg(37), lg(38)]; let log = take_log();
    ck!(b.as_slice() == &nat[..], "box_arr! list of 39: contents differ from the native array literal");
    ck!(log == seq(39), "box_arr! list of 39: element expressions were evaluated in order {:?}, expected 0..39 once each", &log[..log.len().min(12)]);
    ck!(*b == a, "box_arr! and arr! with the same arguments differ");
    Ok(())
}
fn case_list_39_trailing() -> Result<(), String> {
    take_log(); let a: GA<u32, N<39>> = arr![lg(0), lg(1), lg(2), lg(3), lg(4), lg(5), lg(6), lg(7), lg(8), lg(9), lg(10), lg(11), lg(12), lg(13), lg(14), lg(15), lg(16), lg(17), lg(18), lg(19), lg(20), lg(21), lg(22), lg(23), lg(24), lg(25), lg(26), lg(27), lg(28), lg(29), lg(30), lg(31), lg(32), lg(33), lg(34), lg(35), lg(36), lg(37), lg(38),]; let log = take_log();
    let nat: [u32; 39] = [0u32.wrapping_mul(2654435761), 1u32.wrapping_mul(2654435761), 2u32.wrapping_mul(2654435761), 3u32.wrapping_mul(2654435761), 4u32.wrapping_mul(2654435761), 5u32.wrapping_mul(2654435761), 6u32.wrapping_mul(2654435761), 7u32.wrapping_mul(2654435761), 8u32.wrapping_mul(2654435761), 9u32.wrapping_mul(2654435761), 10u32.wrapping_mul(2654435761), 11u32.wrapping_mul(2654435761), 12u32.wrapping_mul(2654435761), 13u32.wrapping_mul(2654435761), 14u32.wrapping_mul(2654435761), 15u32.wrapping_mul(2654435761), 16u32.wrapping_mul(2654435761), 17u32.wrapping_mul(2654435761), 18u32.wrapping_mul(2654435761), 19u32.wrapping_mul(2654435761), 20u32.wrapping_mul(2654435761), 21u32.wrapping_mul(2654435761), 22u32.wrapping_mul(2654435761), 23u32.wrapping_mul(2654435761), 24u32.wrapping_mul(2654435761), 25u32.wrapping_mul(2654435761), 26u32.wrapping_mul(2654435761), 27u32.wrapping_mul(2654435761), 28u32.wrapping_mul(2654435761), 29u32.wrapping_mul(2654435761), 30u32.wrapping_mul(2654435761), 31u32.wrapping_mul(2654435761), 32u32.wrapping_mul(2654435761), 33u32.wrapping_mul(2654435761), 34u32.wrapping_mul(2654435761), 35u32.wrapping_mul(2654435761), 36u32.wrapping_mul(2654435761), 37u32.wrapping_mul(2654435761), 38u32.wrapping_mul(2654435761)];
    ck!(a.as_slice() == &nat[..], "arr! list of 39: contents {:?} differ from the native array literal", &a.as_slice()[..a.len().min(8)]);
    ck!(log == seq(39), "arr! list of 39: element expressions were evaluated in order {:?}, expected 0..39 once each", &log[..log.len().min(12)]);
    take_log(); let b: Box<GA<u32, N<39>>> = box_arr![lg(0), lg(1), lg(2), lg(3), lg(4), lg(5), lg(6), lg(7), lg(8), lg(9), lg(10), lg(11), lg(12), lg(13), lg(14), lg(15), lg(16), lg(17), lg(18), lg(19), lg(20), lg(21), lg(22), lg(23), lg(24), lg(25), lg(26), lg(27), lg(28), lg(29), lg(30), lg(31), lg(32), lg(33), lg(34), lg(35), lg(36), lg(37), lg(38),]; let log = take_log();
    ck!(b.as_slice() == &nat[..], "box_arr! list of 39: contents differ from the native array literal");
    ck!(log == seq(39), "box_arr! list of 39: element expressions were evaluated in order {:?}, expected 0..39 once each", &log[..log.len().min(12)]);
    ck!(*b == a, "box_arr! and arr! with the same arguments differ");
    Ok(())
}
const CL_39: GA<u8, N<39>> = arr![1u8, 6u8, 11u8, 16u8, 21u8, 26u8, 31u8, 36u8, 41u8, 46u8, 51u8, 56u8, 61u8, 66u8, 71u8, 76u8, 81u8, 86u8, 91u8, 96u8, 101u8, 106u8, 111u8, 116u8, 121u8, 126u8, 131u8, 136u8, 141u8, 146u8, 151u8, 156u8, 161u8, 166u8, 171u8, 176u8, 181u8, 186u8, 191u8];
static SL_39: GA<u8, N<39>> = arr![1u8, 6u8, 11u8, 16u8, 21u8, 26u8, 31u8, 36u8, 41u8, 46u8, 51u8, 56u8, 61u8, 66u8, 71u8, 76u8, 81u8, 86u8, 91u8, 96u8, 101u8, 106u8, 111u8, 116u8, 121u8, 126u8, 131u8, 136u8, 141u8, 146u8, 151u8, 156u8, 161u8, 166u8, 171u8, 176u8, 181u8, 186u8, 191u8,];
const fn cfl_39() -> GA<u8, N<39>> { arr![1u8, 6u8, 11u8, 16u8, 21u8, 26u8, 31u8, 36u8, 41u8, 46u8, 51u8, 56u8, 61u8, 66u8, 71u8, 76u8, 81u8, 86u8, 91u8, 96u8, 101u8, 106u8, 111u8, 116u8, 121u8, 126u8, 131u8, 136u8, 141u8, 146u8, 151u8, 156u8, 161u8, 166u8, 171u8, 176u8, 181u8, 186u8, 191u8] }
fn case_list_const_39() -> Result<(), String> {
    let nat: [u8; 39] = [1u8, 6u8, 11u8, 16u8, 21u8, 26u8, 31u8, 36u8, 41u8, 46u8, 51u8, 56u8, 61u8, 66u8, 71u8, 76u8, 81u8, 86u8, 91u8, 96u8, 101u8, 106u8, 111u8, 116u8, 121u8, 126u8, 131u8, 136u8, 141u8, 146u8, 151u8, 156u8, 161u8, 166u8, 171u8, 176u8, 181u8, 186u8, 191u8];
    ck!(CL_39.as_slice() == &nat[..] && SL_39.as_slice() == &nat[..] && cfl_39().as_slice() == &nat[..], "arr! list of 39 in const / static / const fn position differs from the native literal");
    Ok(())
}
fn case_list_40() -> Result<(), String> {
    take_log(); let a: GA<u32, N<40>> = arr![lg(0), lg(1), lg(2), lg(3), lg(4), lg(5), lg(6), lg(7), lg(8), lg(9), lg(10), lg(11), lg(12), lg(13), lg(14), lg(15), lg(16), lg(17), lg(18), lg(19), lg(20), lg(21), lg(22), lg(23), lg(24), lg(25), lg(26), lg(27), lg(28), lg(29), lg(30), lg(31), lg(32), lg(33), lg(34), lg(35), lg(36), lg(37), lg(38), lg(39)]; let log = take_log();
    let nat: [u32; 40] = [0u32.wrapping_mul(2654435761), 1u32.wrapping_mul(2654435761), 2u32.wrapping_mul(2654435761), 3u32.wrapping_mul(2654435761), 4u32.wrapping_mul(2654435761), 5u32.wrapping_mul(2654435761), 6u32.wrapping_mul(2654435761), 7u32.wrapping_mul(2654435761), 8u32.wrapping_mul(2654435761), 9u32.wrapping_mul(2654435761), 10u32.wrapping_mul(2654435761), 11u32.wrapping_mul(2654435761), 12u32.wrapping_mul(2654435761), 13u32.wrapping_mul(2654435761), 14u32.wrapping_mul(2654435761), 15u32.wrapping_mul(2654435761), 16u32.wrapping_mul(2654435761), 17u32.wrapping_mul(2654435761), 18u32.wrapping_mul(2654435761), 19u32.wrapping_mul(2654435761), 20u32.wrapping_mul(2654435761), 21u32.wrapping_mul(2654435761), 22u32.wrapping_mul(2654435761), 23u32.wrapping_mul(2654435761), 24u32.wrapping_mul(2654435761), 25u32.wrapping_mul(2654435761), 26u32.wrapping_mul(2654435761), 27u32.wrapping_mul(2654435761), 28u32.wrapping_mul(2654435761), 29u32.wrapping_mul(2654435761), 30u32.wrapping_mul(2654435761), 31u32.wrapping_mul(2654435761), 32u32.wrapping_mul(2654435761), 33u32.wrapping_mul(2654435761), 34u32.wrapping_mul(2654435761), 35u32.wrapping_mul(2654435761), 36u32.wrapping_mul(2654435761), 37u32.wrapping_mul(2654435761), 38u32.wrapping_mul(2654435761), 39u32.wrapping_mul(2654435761)];
    ck!(a.as_slice() == &nat[..], "arr! list of 40: contents {:?} differ from the native array literal", &a.as_slice()[..a.len().min(8)]);
    ck!(log == seq(40), "arr! list of 40: element expressions were evaluated in order {:?}, expected 0..40 once each", &log[..log.len().min(12)]);
    take_log(); let b: Box<GA<u32, N<40>>> = box_arr![lg(0), lg(1), lg(2), lg(3), lg(4), lg(5), lg(6), lg(7), lg(8), lg(9), lg(10), lg(11), lg(12), lg(13), lg(14), lg(15), lg(16), lg(17), lg(18), lg(19), lg(20), lg(21), lg(22), lg(23), lg(24), lg(25), lg(26), lg(27), lg(28), lg(29), lg(30), lg(31), lg(32), lg(33), lg(34), lg(35), lg(36), lg(37), lg(38), lg(39)]; let log = take_log();
    ck!(b.as_slice() == &nat[..], "box_arr! list of 40: contents differ from the native array literal");
    ck!(log == seq(40), "box_arr! list of 40: element expressions were evaluated in order {:?}, expected 0..40 once each", &log[..log.len().min(12)]);
    ck!(*b == a, "box_arr! and arr! with the same arguments differ");
    Ok(())
}
fn case_list_40_trailing() -> Result<(), String> {
    take_log(); let a: GA<u32, N<40>> = arr![lg(0), lg(1), lg(2), lg(3), lg(4), lg(5), lg(6), lg(7), lg(8), lg(9), lg(10), lg(11), lg(12), lg(13), lg(14), lg(15), lg(16), lg(17), lg(18), lg(19), lg(20), lg(21), lg(22), lg(23), lg(24), lg(25), lg(26), lg(27), lg(28), lg(29), lg(30), lg(31), lg(32), lg(33), lg(34), lg(35), lg(36), lg(37), lg(38), lg(39),]; let log = take_log();
    let nat: [u32; 40] = [0u32.wrapping_mul(2654435761), 1u32.wrapping_mul(2654435761), 2u32.wrapping_mul(2654435761), 3u32.wrapping_mul(2654435761), 4u32.wrapping_mul(2654435761), 5u32.wrapping_mul(2654435761), 6u32.wrapping_mul(2654435761), 7u32.wrapping_mul(2654435761), 8u32.wrapping_mul(2654435761), 9u32.wrapping_mul(2654435761), 10u32.wrapping_mul(2654435761), 11u32.wrapping_mul(2654435761), 12u32.wrapping_mul(2654435761), 13u32.wrapping_mul(2654435761), 14u32.wrapping_mul(2654435761), 15u32.wrapping_mul(2654435761), 16u32.wrapping_mul(2654435761), 17u32.wrapping_mul(2654435761), 18u32.wrapping_mul(2654435761), 19u32.wrapping_mul(2654435761), 20u32.wrapping_mul(2654435761), 21u32.wrapping_mul(2654435761), 22u32.wrapping_mul(2654435761), 23u32.wrapping_mul(2654435761), 24u32.wrapping_mul(2654435761), 25u32.wrapping_mul(2654435761), 26u32.wrapping_mul(2654435761), 27u32.wrapping_mul(2654435761), 28u32.wrapping_mul(2654435761), 29u32.wrapping_mul(2654435761), 30u32.wrapping_mul(2654435761), 31u32.wrapping_mul(2654435761), 32u32.wrapping_mul(2654435761), 33u32.wrapping_mul(2654435761), 34u32.wrapping_mul(2654435761), 35u32.wrapping_mul(2654435761), 36u32.wrapping_mul(2654435761), 37u32.wrapping_mul(2654435761), 38u32.wrapping_mul(2654435761), 39u32.wrapping_mul(2654435761)];
    ck!(a.as_slice() == &nat[..], "arr! list of 40: contents {:?} differ from the native array literal", &a.as_slice()[..a.len().min(8)]);
    ck!(log == seq(40), "arr! list of 40: element expressions were evaluated in order {:?}, expected 0..40 once each", &log[..log.len().min(12)]);
    take_log(); let b: Box<GA<u32, N<40>>> = box_arr![lg(0), lg(1), lg(2), lg(3), lg(4), lg(5), lg(6), lg(7), lg(8), lg(9), lg(10), lg(11), lg(12), lg(13), lg(14), lg(15), lg(16), lg(17), lg(18), lg(19), lg(20), lg(21), lg(22), lg(23), lg(24), lg(25), lg(26), lg(27), lg(28), lg(29), lg(30), lg(31), lg(32), lg(33), lg(34), lg(35), lg(36), lg(37), lg(38), lg(39),]; let log = take_log();
    ck!(b.as_slice() == &nat[..], "box_arr! list of 40: contents differ from the native array literal");
    ck!(log == seq(40), "box_arr! list of 40: element expressions were evaluated in order {:?}, expected 0..40 once each", &log[..log.len().min(12)]);
    ck!(*b == a, "box_arr! and arr! with the same arguments differ");
    Ok(())
}
const CL_40: GA<u8, N<40>> = arr![1u8, 6u8, 11u8, 16u8, 21u8, 26u8, 31u8, 36u8, 41u8, 46u8, 51u8, 56u8, 61u8, 66u8, 71u8, 76u8, 81u8, 86u8, 91u8, 96u8, 101u8, 106u8, 111u8, 116u8, 121u8, 126u8, 131u8, 136u8, 141u8, 146u8, 151u8, 156u8, 161u8, 166u8, 171u8, 176u8, 181u8, 186u8, 191u8, 196u8];
static SL_40: GA<u8, N<40>> = arr![1u8, 6u8, 11u8, 16u8, 21u8, 26u8, 31u8, 36u8, 41u8, 46u8, 51u8, 56u8, 61u8, 66u8, 71u8, 76u8, 81u8, 86u8, 91u8, 96u8, 101u8, 106u8, 111u8, 116u8, 121u8, 126u8, 131u8, 136u8, 141u8, 146u8, 151u8, 156u8, 161u8, 166u8, 171u8, 176u8, 181u8, 186u8, 191u8, 196u8,];
const fn cfl_40() -> GA<u8, N<40>> { arr![1u8, 6u8, 11u8, 16u8, 21u8, 26u8, 31u8, 36u8, 41u8, 46u8, 51u8, 56u8, 61u8, 66u8, 71u8, 76u8, 81u8, 86u8, 91u8, 96u8, 101u8, 106u8, 111u8, 116u8, 121u8, 126u8, 131u8, 136u8, 141u8, 146u8, 151u8, 156u8, 161u8, 166u8, 171u8, 176u8, 181u8, 186u8, 191u8, 196u8] }
fn case_list_const_40() -> Result<(), String> {
    let nat: [u8; 40] = [1u8, 6u8, 11u8, 16u8, 21u8, 26u8, 31u8, 36u8, 41u8, 46u8, 51u8, 56u8, 61u8, 66u8, 71u8, 76u8, 81u8, 86u8, 91u8, 96u8, 101u8, 106u8, 111u8, 116u8, 121u8, 126u8, 131u8, 136u8, 141u8, 146u8, 151u8, 156u8, 161u8, 166u8, 171u8, 176u8, 181u8, 186u8, 191u8, 196u8];
    ck!(CL_40.as_slice() == &nat[..] && SL_40.as_slice() == &nat[..] && cfl_40().as_slice() == &nat[..], "arr! list of 40 in const / static / const fn position differs from the native literal");
    Ok(())
}
fn case_list_41() -> Result<(), String> {
    take_log(); let a: GA<u32, N<41>> = arr![lg(0), lg(1), lg(2), lg(3), lg(4), lg(5), lg(6), lg(7), lg(8), lg(9), lg(10), lg(11), lg(12), lg(13), lg(14), lg(15), lg(16), lg(17), lg(18), lg(19), lg(20), lg(21), lg(22), lg(23), lg(24), lg(25), lg(26), lg(27), lg(28), lg(29), lg(30), lg(31), lg(32), lg(33), lg(34), lg(35), lg(36), lg(37), lg(38), lg(39), lg(40)]; let log = take_log();
    let nat: [u32; 41] = [0u32.wrapping_mul(2654435761), 1u32.wrapping_mul(2654435761), 2u32.wrapping_mul(2654435761), 3u32.wrapping_mul(2654435761), 4u32.wrapping_mul(2654435761), 5u32.wrapping_mul(2654435761), 6u32.wrapping_mul(2654435761), 7u32.wrapping_mul(2654435761), 8u32.wrapping_mul(2654435761), 9u32.wrapping_mul(2654435761), 10u32.wrapping_mul(2654435761), 11u32.wrapping_mul(2654435761), 12u32.wrapping_mul(2654435761), 13u32.wrapping_mul(2654435761), 14u32.wrapping_mul(2654435761), 15u32.wrapping_mul(2654435761), 16u32.wrapping_mul(2654435761), 17u32.wrapping_mul(2654435761), 18u32.wrapping_mul(2654435761), 19u32.wrapping_mul(2654435761), 20u32.wrapping_mul(2654435761), 21u32.wrapping_mul(2654435761), 22u32.wrapping_mul(2654435761), 23u32.wrapping_mul(2654435761), 24u32.wrapping_mul(2654435761), 25u32.wrapping_mul(2654435761), 26u32.wrapping_mul(2654435761), 27u32.wrapping_mul(2654435761), 28u32.wrapping_mul(2654435761), 29u32.wrapping_mul(2654435761), 30u32.wrapping_mul(2654435761), 31u32.wrapping_mul(2654435761), 32u32.wrapping_mul(2654435761), 33u32.wrapping_mul(2654435761), 34u32.wrapping_mul(2654435761), 35u32.wrapping_mul(2654435761), 36u32.wrapping_mul(2654435761), 37u32.wrapping_mul(2654435761), 38u32.wrapping_mul(2654435761), 39u32.wrapping_mul(2654435761), 40u32.wrapping_mul(2654435761)];
    ck!(a.as_slice() == &nat[..], "arr! list of 41: contents {:?} differ from the native array literal", &a.as_slice()[..a.len().min(8)]);
    ck!(log == seq(41), "arr! list of 41: element expressions were evaluated in order {:?}, expected 0..41 once each", &log[..log.len().min(12)]);
    take_log(); let b: Box<GA<u32, N<41>>> = box_arr![lg(0), lg(1), lg(2), lg(3), lg(4), lg(5), lg(6), lg(7), lg(8), lg(9), lg(10), lg(11), lg(12), lg(13), lg(14), lg(15), lg(16), lg(17), lg(18), lg(19), lg(20), lg(21), lg(22), lg(23), lg(24), lg(25), lg(26), lg(27), lg(28), lg(29), lg(30), lg(31), lg(32), lg(33), lg(34), lg(35), lg(36), lg(37), lg(38), lg(39), lg(40)]; let log = take_log();
    ck!(b.as_slice() == &nat[..], "box_arr! list of 41: contents differ from the native array literal");
    ck!(log == seq(41), "box_arr! list of 41: element expressions were evaluated in order {:?}, expected 0..41 once each", &log[..log.len().min(12)]);
    ck!(*b == a, "box_arr! and arr! with the same arguments differ");
    Ok(())
}
fn case_list_41_trailing() -> Result<(), String> {
    take_log(); let a: GA<u32, N<41>> = arr![lg(0), lg(1), lg(2), lg(3), lg(4), lg(5), lg(6), lg(7), lg(8), lg(9), lg(10), lg(11), lg(12), lg(13), lg(14), lg(15), lg(16), lg(17), lg(18), lg(19), lg(20), lg(21), lg(22), lg(23), lg(24), lg(25), lg(26), lg(27), lg(28), lg(29), lg(30), lg(31), lg(32), lg(33), lg(34), lg(35), lg(36), lg(37), lg(38), lg(39), lg(40),]; let log = take_log();
    let nat: [u32; 41] = [0u32.wrapping_mul(2654435761), 1u32.wrapping_mul(2654435761), 2u32.wrapping_mul(2654435761), 3u32.wrapping_mul(2654435761), 4u32.wrapping_mul(2654435761), 5u32.wrapping_mul(2654435761), 6u32.wrapping_mul(2654435761), 7u32.wrapping_mul(2654435761), 8u32.wrapping_mul(2654435761), 9u32.wrapping_mul(2654435761), 10u32.wrapping_mul(2654435761), 11u32.wrapping_mul(2654435761), 12u32.wrapping_mul(2654435761), 13u32.wrapping_mul(2654435761), 14u32.wrapping_mul(2654435761), 15u32.wrapping_mul(2654435761), 16u32.wrapping_mul(2654435761), 17u32.wrapping_mul(2654435761), 18u32.wrapping_mul(2654435761), 19u32.wrapping_mul(2654435761), 20u32.wrapping_mul(2654435761), 21u32.wrapping_mul(2654435761), 22u32.wrapping_mul(2654435761), 23u32.wrapping_mul(2654435761), 24u32.wrapping_mul(2654435761), 25u32.wrapping_mul(2654435761), 26u32.wrapping_mul(2654435761), 27u32.wrapping_mul(2654435761), 28u32.wrapping_mul(2654435761), 29u32.wrapping_mul(2654435761), 30u32.wrapping_mul(2654435761), 31u32.wrapping_mul(2654435761), 32u32.wrapping_mul(2654435761), 33u32.wrapping_mul(2654435761), 34u32.wrapping_mul(2654435761), 35u32.wrapping_mul(2654435761), 36u32.wrapping_mul(2654435761), 37u32.wrapping_mul(2654435761), 38u32.wrapping_mul(2654435761), 39u32.wrapping_mul(2654435761), 40u32.wrapping_mul(2654435761)];
    ck!(a.as_slice() == &nat[..], "arr! list of 41: contents {:?} differ from the native array literal", &a.as_slice()[..a.len().min(8)]);
    ck!(log == seq(41), "arr! list of 41: element expressions were evaluated in order {:?}, expected 0..41 once each", &log[..log.len().min(12)]);
    take_log(); let b: Box<GA<u32, N<41>>> = box_arr![lg(0), lg(1), lg(2), lg(3), lg(4), lg(5), lg(6), lg(7), lg(8), lg(9), lg(10), lg(11), lg(12), lg(13), lg(14), lg(15), lg(16), lg(17), lg(18), lg(19), lg(20), lg(21), lg(22), lg(23), lg(24), lg(25), lg(26), lg(27), lg(28), lg(29), lg(30), lg(31), lg(32), lg(33), lg(34), lg(35), lg(36), lg(37), lg(38), lg(39), lg(40),]; let log = take_log();
    ck!(b.as_slice() == &nat[..], "box_arr! list of 41: contents differ from the native array literal");
    ck!(log == seq(41), "box_arr! list of 41: element expressions were evaluated in order {:?}, expected 0..41 once each", &log[..log.len().min(12)]);
    ck!(*b == a, "box_arr! and arr! with the same arguments differ");
    Ok(())
}
const CL_41: GA<u8, N<41>> = arr![1u8, 6u8, 11u8, 16u8, 21u8, 26u8, 31u8, 36u8, 41u8, 46u8, 51u8, 56u8, 61u8, 66u8, 71u8, 76u8, 81u8, 86u8, 91u8, 96u8, 101u8, 106u8, 111u8, 116u8, 121u8, 126u8, 131u8, 136u8, 141u8, 146u8, 151u8, 156u8, 161u8, 166u8, 171u8, 176u8, 181u8, 186u8, 191u8, 196u8, 201u8];
static SL_41: GA<u8, N<41>> = arr![1u8, 6u8, 11u8, 16u8, 21u8, 26u8, 31u8, 36u8, 41u8, 46u8, 51u8, 56u8, 61u8, 66u8, 71u8, 76u8, 81u8, 86u8, 91u8, 96u8, 101u8, 106u8, 111u8, 116u8, 121u8, 126u8, 131u8, 136u8, 141u8, 146u8, 151u8, 156u8, 161u8, 166u8, 171u8, 176u8, 181u8, 186u8, 191u8, 196u8, 201u8,];
const fn cfl_41() -> GA<u8, N<41>> { arr![1u8, 6u8, 11u8, 16u8, 21u8, 26u8, 31u8, 36u8, 41u8, 46u8, 51u8, 56u8, 61u8, 66u8, 71u8, 76u8, 81u8, 86u8, 91u8, 96u8, 101u8, 106u8, 111u8, 116u8, 121u8, 126u8, 131u8, 136u8, 141u8, 146u8, 151u8, 156u8, 161u8, 166u8, 171u8, 176u8, 181u8, 186u8, 191u8, 196u8, 201u8] }
fn case_list_const_41() -> Result<(), String> {
    let nat: [u8; 41] = [1u8, 6u8, 11u8, 16u8, 21u8, 26u8, 31u8, 36u8, 41u8, 46u8, 51u8, 56u8, 61u8, 66u8, 71u8, 76u8, 81u8, 86u8, 91u8, 96u8, 101u8, 106u8, 111u8, 116u8, 121u8, 126u8, 131u8, 136u8, 141u8, 146u8, 151u8, 156u8, 161u8, 166u8, 171u8, 176u8, 181u8, 186u8, 191u8, 196u8, 201u8];
    ck!(CL_41.as_slice() == &nat[..] && SL_41.as_slice() == &nat[..] && cfl_41().as_slice() == &nat[..], "arr! list of 41 in const / static / const fn position differs from the native literal");
    Ok(())
}
fn case_list_42() -> Result<(), String> {
    take_log(); let a: GA<u32, N<42>> = arr![lg(0), lg(1), lg(2), lg(3), lg(4), lg(5), lg(6), lg(7), lg(8), lg(9), lg(10), lg(11), lg(12), lg(13), lg(14), lg(15), lg(16), lg(17), lg(18), lg(19), lg(20), lg(21), lg(22), lg(23), lg(24), lg(25), lg(26), lg(27), lg(28), lg(29), lg(30), lg(31), lg(32), lg(33), lg(34), lg(35), lg(36), lg(37), lg(38), lg(39), lg(40), lg(41)]; let log = take_log();
    let nat: [u32; 42] = [0u32.wrapping_mul(2654435761), 1u32.wrapping_mul(2654435761), 2u32.wrapping_mul(2654435761), 3u32.wrapping_mul(2654435761), 4u32.wrapping_mul(2654435761), 5u32.wrapping_mul(2654435761), 6u32.wrapping_mul(2654435761), 7u32.wrapping_mul(2654435761), 8u32.wrapping_mul(2654435761), 9u32.wrapping_mul(2654435761), 10u32.wrapping_mul(2654435761), 11u32.wrapping_mul(2654435761), 12u32.wrapping_mul(2654435761), 13u32.wrapping_mul(2654435761), 14u32.wrapping_mul(2654435761), 15u32.wrapping_mul(2654435761), 16u32.wrapping_mul(2654435761), 17u32.wrapping_mul(2654435761), 18u32.wrapping_mul(2654435761), 19u32.wrapping_mul(2654435761), 20u32.wrapping_mul(2654435761), 21u32.wrapping_mul(2654435761), 22u32.wrapping_mul(2654435761), 23u32.wrapping_mul(2654435761), 24u32.wrapping_mul(2654435761), 25u32.wrapping_mul(2654435761), 26u32.wrapping_mul(2654435761), 27u32.wrapping_mul(2654435761), 28u32.wrapping_mul(2654435761), 29u32.wrapping_mul(2654435761), 30u32.wrapping_mul(2654435761), 31u32.wrapping_mul(2654435761), 32u32.wrapping_mul(2654435761), 33u32.wrapping_mul(2654435761), 34u32.wrapping_mul(2654435761), 35u32.wrapping_mul(2654435761), 36u32.wrapping_mul(2654435761), 37u32.wrapping_mul(2654435761), 38u32.wrapping_mul(2654435761), 39u32.wrapping_mul(2654435761), 40u32.wrapping_mul(2654435761), 41u32.wrapping_mul(2654435761)];
    ck!(a.as_slice() == &nat[..], "arr! list of 42: contents {:?} differ from the native array literal", &a.as_slice()[..a.len().min(8)]);
    ck!(log == seq(42), "arr! list of 42: element expressions were evaluated in order {:?}, expected 0..42 once each", &log[..log.len().min(12)]);
    take_log(); let b: Box<GA<u32, N<42>>> = box_arr![lg(0), lg(1), lg(2), lg(3), lg(4), lg(5), lg(6), lg(7), lg(8), lg(9), lg(10), lg(11), lg(12), lg(13), lg(14), lg(15), lg(16), lg(17), lg(18), lg(19), lg(20), lg(21), lg(22), lg(23), lg(24), lg(25), lg(26), lg(27), lg(28), lg(29), lg(30), lg(31), lg(32), lg(33), lg(34), lg(35), lg(36), lg(37), lg(38), lg(39), lg(40), lg(41)]; let log = take_log();
    ck!(b.as_slice() == &nat[..], "box_arr! list of 42: contents differ from the native array literal");
    ck!(log == seq(42), "box_arr! list of 42: element expressions were evaluated in order {:?}, expected 0..42 once each", &log[..log.len().min(12)]);
    ck!(*b == a, "box_arr! and arr! with the same arguments differ");
    Ok(())
}
fn case_list_42_trailing() -> Result<(), String> {
    take_log(); let a: GA<u32, N<42>> = arr![lg(0), lg(1), lg(2), lg(3), lg(4), lg(5), lg(6), lg(7), lg(8), lg(9), lg(10), lg(11), lg(12), lg(13), lg(14), lg(15), lg(16), lg(17), lg(18), lg(19), lg(20), lg(21), lg(22), lg(23), lg(24), lg(25), lg(26), lg(27), lg(28), lg(29), lg(30), lg(31), lg(32), lg(33), lg(34), lg(35), lg(36), lg(37), lg(38), lg(39), lg(40), lg(41),]; let log = take_log();
    let nat: [u32; 42] = [0u32.wrapping_mul(2654435761), 1u32.wrapping_mul(2654435761), 2u32.wrapping_mul(2654435761), 3u32.wrapping_mul(2654435761), 4u32.wrapping_mul(2654435761), 5u32.wrapping_mul(2654435761), 6u32.wrapping_mul(2654435761), 7u32.wrapping_mul(2654435761), 8u32.wrapping_mul(2654435761), 9u32.wrapping_mul(2654435761), 10u32.wrapping_mul(2654435761), 11u32.wrapping_mul(2654435761), 12u32.wrapping_mul(2654435761), 13u32.wrapping_mul(2654435761), 14u32.wrapping_mul(2654435761), 15u32.wrapping_mul(2654435761), 16u32.wrapping_mul(2654435761), 17u32.wrapping_mul(2654435761), 18u32.wrapping_mul(2654435761), 19u32.wrapping_mul(2654435761), 20u32.wrapping_mul(2654435761), 21u32.wrapping_mul(2654435761), 22u32.wrapping_mul(2654435761), 23u32.wrapping_mul(2654435761), 24u32.wrapping_mul(2654435761), 25u32.wrapping_mul(2654435761), 26u32.wrapping_mul(2654435761), 27u32.wrapping_mul(2654435761), 28u32.wrapping_mul(2654435761), 29u32.wrapping_mul(2654435761), 30u32.wrapping_mul(2654435761), 31u32.wrapping_mul(2654435761), 32u32.wrapping_mul(2654435761), 33u32.wrapping_mul(2654435761), 34u32.wrapping_mul(2654435761), 35u32.wrapping_mul(2654435761), 36u32.wrapping_mul(2654435761), 37u32.wrapping_mul(2654435761), 38u32.wrapping_mul(2654435761), 39u32.wrapping_mul(2654435761), 40u32.wrapping_mul(2654435761), 41u32.wrapping_mul(2654435761)];
    ck!(a.as_slice() == &nat[..], "arr! list of 42: contents {:?} differ from the native array literal", &a.as_slice()[..a.len().min(8)]);
    ck!(log == seq(42), "arr! list of 42: element expressions were evaluated in order {:?}, expected 0..42 once each", &log[..log.len().min(12)]);
    take_log(); let b: Box<GA<u32, N<42>>> = box_arr![lg(0), lg(1), lg(2), lg(3), lg(4), lg(5), lg(6), lg(7), lg(8), lg(9), lg(10), lg(11), lg(12), lg(13), lg(14), lg(15), lg(16), lg(17), lg(18), lg(19), lg(20), lg(21), lg(22), lg(23), lg(24), lg(25), lg(26), lg(27), lg(28), lg(29), lg(30), lg(31), lg(32), lg(33), lg(34), lg(35), lg(36), lg(37), lg(38), lg(39), lg(40), lg(41),]; let log = take_log();
    ck!(b.as_slice() == &nat[..], "box_arr! list of 42: contents differ from the native array literal");
    ck!(log == seq(42), "box_arr! list of 42: element expressions were evaluated in order {:?}, expected 0..42 once each", &log[..log.len().min(12)]);
    ck!(*b == a, "box_arr! and arr! with the same arguments differ");
    Ok(())
}
const CL_42: GA<u8, N<42>> = arr![1u8, 6u8, 11u8, 16u8, 21u8, 26u8, 31u8, 36u8, 41u8, 46u8, 51u8, 56u8, 61u8, 66u8, 71u8, 76u8, 81u8, 86u8, 91u8, 96u8, 101u8, 106u8, 111u8, 116u8, 121u8, 126u8, 131u8, 136u8, 141u8, 146u8, 151u8, 156u8, 161u8, 166u8, 171u8, 176u8, 181u8, 186u8, 191u8, 196u8, 201u8, 206u8];
static SL_42: GA<u8, N<42>> = arr![1u8, 6u8, 11u8, 16u8, 21u8, 26u8, 31u8, 36u8, 41u8, 46u8, 51u8, 56u8, 61u8, 66u8, 71u8, 76u8, 81u8, 86u8, 91u8, 96u8, 101u8, 106u8, 111u8, 116u8, 121u8, 126u8, 131u8, 136u8, 141u8, 146u8, 151u8, 156u8, 161u8, 166u8, 171u8, 176u8, 181u8, 186u8, 191u8, 196u8, 201u8, 206u8,];
const fn cfl_42() -> GA<u8, N<42>> { arr![1u8, 6u8, 11u8, 16u8, 21u8, 26u8, 31u8, 36u8, 41u8, 46u8, 51u8, 56u8, 61u8, 66u8, 71u8, 76u8, 81u8, 86u8, 91u8, 96u8, 101u8, 106u8, 111u8, 116u8, 121u8, 126u8, 131u8, 136u8, 141u8, 146u8, 151u8, 156u8, 161u8, 166u8, 171u8, 176u8, 181u8, 186u8, 191u8, 196u8, 201u8, 206u8] }
fn case_list_const_42() -> Result<(), String> {
    let nat: [u8; 42] = [1u8, 6u8, 11u8, 16u8, 21u8, 26u8, 31u8, 36u8, 41u8, 46u8, 51u8, 56u8, 61u8, 66u8, 71u8, 76u8, 81u8, 86u8, 91u8, 96u8, 101u8, 106u8, 111u8, 116u8, 121u8, 126u8, 131u8, 136u8, 141u8, 146u8, 151u8, 156u8, 161u8, 166u8, 171u8, 176u8, 181u8, 186u8, 191u8, 196u8, 201u8, 206u8];
    ck!(CL_42.as_slice() == &nat[..] && SL_42.as_slice() == &nat[..] && cfl_42().as_slice() == &nat[..], "arr! list of 42 in const / static / const fn position differs from the native literal");
    Ok(())
}
fn case_list_43() -> Result<(), String> {
    take_log(); let a: GA<u32, N<43>> = arr![lg(0), lg(1), lg(2), lg(3), lg(4), lg(5), lg(6), lg(7), lg(8), lg(9), lg(10), lg(11), lg(12), lg(13), lg(14), lg(15), lg(16), lg(17), lg(18), lg(19), lg(20), lg(21), lg(22), lg(23), lg(24), lg(25), lg(26), lg(27), lg(28), lg(29), lg(30), lg(31), lg(32), lg(33), lg(34), lg(35), lg(36), lg(37), lg(38), lg(39), lg(40), lg(41), lg(42)]; let log = take_log();
    let nat: [u32; 43] = [0u32.wrapping_mul(2654435761), 1u32.wrapping_mul(2654435761), 2u32.wrapping_mul(2654435761), 3u32.wrapping_mul(2654435761), 4u32.wrapping_mul(2654435761), 5u32.wrapping_mul(2654435761), 6u32.wrapping_mul(2654435761), 7u32.wrapping_mul(2654435761), 8u32.wrapping_mul(2654435761), 9u32.wrapping_mul(2654435761), 10u32.wrapping_mul(2654435761), 11u32.wrapping_mul(2654435761), 12u32.wrapping_mul(2654435761), 13u32.wrapping_mul(2654435761), 14u32.wrapping_mul(2654435761), 15u32.wrapping_mul(2654435761), 16u32.wrapping_mul(2654435761), 17u32.wrapping_mul(2654435761), 18u32.wrapping_mul(2654435761), 19u32.wrapping_mul(2654435761), 20u32.wrapping_mul(2654435761), 21u32.wrapping_mul(2654435761), 22u32.wrapping_mul(2654435761), 23u32.wrapping_mul(2654435761), 24u32.wrapping_mul(2654435761), 25u32.wrapping_mul(2654435761), 26u32.wrapping_mul(2654435761), 27u32.wrapping_mul(2654435761), 28u32.wrapping_mul(2654435761), 29u32.wrapping_mul(2654435761), 30u32.wrapping_mul(2654435761), 31u32.wrapping_mul(2654435761), 32u32.wrapping_mul(2654435761), 33u32.wrapping_mul(2654435761), 34u32.wrapping_mul(2654435761), 35u32.wrapping_mul(2654435761), 36u32.wrapping_mul(2654435761), 37u32.wrapping_mul(2654435761), 38u32.wrapping_mul(2654435761), 39u32.wrapping_mul(2654435761), 40u32.wrapping_mul(2654435761), 41u32.wrapping_mul(2654435761), 42u32.wrapping_mul(2654435761)];
    ck!(a.as_slice() == &nat[..], "arr! list of 43: contents {:?} differ from the native array literal", &a.as_slice()[..a.len().min(8)]);
    ck!(log == seq(43), "arr! list of 43: element expressions were evaluated in order {:?}, expected 0..43 once each", &log[..log.len().min(12)]);
    take_log(); let b: Box<GA<u32, N<43>>> = box_arr![lg(0), lg(1), lg(2), lg(3), lg(4), lg(5), lg(6), lg(7), lg(8), lg(9), lg(10), lg(11), lg(12), lg(13), lg(14), lg(15), lg(16), lg(17), lg(18), lg(19), lg(20), lg(21), lg(22), lg(23), lg(24), lg(25), lg(26), lg(27), lg(28), lg(29), lg(30), lg(31), lg(32), lg(33), lg(34), lg(35), lg(36), lg(37), lg(38), lg(39), lg(40), lg(41), lg(42)]; let log = take_log();
    ck!(b.as_slice() == &nat[..], "box_arr! list of 43: contents differ from the native array literal");
    ck!(log == seq(43), "box_arr! list of 43: element expressions were evaluated in order {:?}, expected 0..43 once each", &log[..log.len().min(12)]);
    ck!(*b == a, "box_arr! and arr! with the same arguments differ");
    Ok(())
}
fn case_list_43_trailing() -> Result<(), String> {
    take_log(); let a: GA<u32, N<43>> = arr![lg(0), lg(1), lg(2), lg(3), lg(4), lg(5), lg(6), lg(7), lg(8), lg(9), lg(10), lg(11), lg(12), lg(13), lg(14), lg(15), lg(16), lg(17), lg(18), lg(19), lg(20), lg(21), lg(22), lg(23), lg(24), lg(25), lg(26), lg(27), lg(28), lg(29), lg(30), lg(31), lg(32), lg(33), lg(34), lg(35), lg(36), lg(37), lg(38), lg(39), lg(40), lg(41), lg(42),]; let log = take_log();
    let nat: [u32; 43] = [0u32.wrapping_mul(2654435761), 1u32.wrapping_mul(2654435761), 2u32.wrapping_mul(2654435761), 3u32.wrapping_mul(2654435761), 4u32.wrapping_mul(2654435761), 5u32.wrapping_mul(2654435761), 6u32.wrapping_mul(2654435761), 7u32.wrapping_mul(2654435761), 8u32.wrapping_mul(2654435761), 9u32.wrapping_mul(2654435761), 10u32.wrapping_mul(2654435761), 11u32.wrapping_mul(2654435761), 12u32.wrapping_mul(2654435761), 13u32.wrapping_mul(2654435761), 14u32.wrapping_mul(2654435761), 15u32.wrapping_mul(2654435761), 16u32.wrapping_mul(2654435761), 17u32.wrapping_mul(2654435761), 18u32.wrapping_mul(2654435761), 19u32.wrapping_mul(2654435761), 20u32.wrapping_mul(2654435761), 21u32.wrapping_mul(2654435761), 22u32.wrapping_mul(2654435761), 23u32.wrapping_mul(2654435761), 24u32.wrapping_mul(2654435761), 25u32.wrapping_mul(2654435761), 26u32.wrapping_mul(2654435761), 27u32.wrapping_mul(2654435761), 28u32.wrapping_mul(2654435761), 29u32.wrapping_mul(2654435761), 30u32.wrapping_mul(2654435761), 31u32.wrapping_mul(2654435761), 32u32.wrapping_mul(2654435761), 33u32.wrapping_mul(2654435761), 34u32.wrapping_mul(2654435761), 35u32.wrapping_mul(2654435761), 36u32.wrapping_mul(2654435761), 37u32.wrapping_mul(2654435761), 38u32.wrapping_mul(2654435761), 39u32.wrapping_mul(2654435761), 40u32.wrapping_mul(2654435761), 41u32.wrapping_mul(2654435761), 42u32.wrapping_mul(2654435761)];
    ck!(a.as_slice() == &nat[..], "arr! list of 43: contents {:?} differ from the native array literal", &a.as_slice()[..a.len().min(8)]);
    ck!(log == seq(43), "arr! list of 43: element expressions were evaluated in order {:?}, expected 0..43 once each", &log[..log.len().min(12)]);
    take_log(); let b: Box<GA<u32, N<43>>> = box_arr![lg(0), lg(1), lg(2), lg(3), lg(4), lg(5), lg(6), lg(7), lg(8), lg(9), lg(10), lg(11), lg(12), lg(13), lg(14), lg(15), lg(16), lg(17), lg(18), lg(19), lg(20), lg(21), lg(22), lg(23), lg(24), lg(25), lg(26), lg(27), lg(28), lg(29), lg(30), lg(31), lg(32), lg(33), lg(34), lg(35), lg(36), lg(37), lg(38), lg(39), lg(40), lg(41), lg(42),]; let log = take_log();
    ck!(b.as_slice() == &nat[..], "box_arr! list of 43: contents differ from the native array literal");
    ck!(log == seq(43), "box_arr! list of 43: element expressions were evaluated in order {:?}, expected 0..43 once each", &log[..log.len().min(12)]);
    ck!(*b == a, "box_arr! and arr! with the same arguments differ");
    Ok(())
}
const CL_43: GA<u8, N<43>> = arr![1u8, 6u8, 11u8, 16u8, 21u8, 26u8, 31u8, 36u8, 41u8, 46u8, 51u8, 56u8, 61u8, 66u8, 71u8, 76u8, 81u8, 86u8, 91u8, 96u8, 101u8, 106u8, 111u8, 116u8, 121u8, 126u8, 131u8, 136u8, 141u8, 146u8, 151u8, 156u8, 161u8, 166u8, 171u8, 176u8, 181u8, 186u8, 191u8, 196u8, 201u8, 206u8, 211u8];
static SL_43: GA<u8, N<43>> = arr![1u8, 6u8, 11u8, 16u8, 21u8, 26u8, 31u8, 36u8, 41u8, 46u8, 51u8, 56u8, 61u8, 66u8, 71u8, 76u8, 81u8, 86u8, 91u8, 96u8, 101u8, 106u8, 111u8, 116u8, 121u8, 126u8, 131u8, 136u8, 141u8, 146u8, 151u8, 156u8, 161u8, 166u8, 171u8, 176u8, 181u8, 186u8, 191u8, 196u8, 201u8, 206u8, 211u8,];
const fn cfl_43() -> GA<u8, N<43>> { arr![1u8, 6u8, 11u8, 16u8, 21u8, 26u8, 31u8, 36u8, 41u8, 46u8, 51u8, 56u8, 61u8, 66u8, 71u8, 76u8, 81u8, 86u8, 91u8, 96u8, 101u8, 106u8, 111u8, 116u8, 121u8, 126u8, 131u8, 136u8, 141u8, 146u8, 151u8, 156u8, 161u8, 166u8, 171u8, 176u8, 181u8, 186u8, 191u8, 196u8, 201u8, 206u8, 211u8] }
fn case_list_const_43() -> Result<(), String> {
    let nat: [u8; 43] = [1u8, 6u8, 11u8, 16u8, 21u8, 26u8, 31u8, 36u8, 41u8, 46u8, 51u8, 56u8, 61u8, 66u8, 71u8, 76u8, 81u8, 86u8, 91u8, 96u8, 101u8, 106u8, 111u8, 116u8, 121u8, 126u8, 131u8, 136u8, 141u8, 146u8, 151u8, 156u8, 161u8, 166u8, 171u8, 176u8, 181u8, 186u8, 191u8, 196u8, 201u8, 206u8, 211u8];
    ck!(CL_43.as_slice() == &nat[..] && SL_43.as_slice() == &nat[..] && cfl_43().as_slice() == &nat[..], "arr! list of 43 in const / static / const fn position differs from the native literal");
    Ok(())
}
fn case_list_44() -> Result<(), String> {
    take_log(); let a: GA<u32, N<44>> = arr![lg(0), lg(1), lg(2), lg(3), lg(4), lg(5), lg(6), lg(7), lg(8), lg(9), lg(10), lg(11), lg(12), lg(13), lg(14), lg(15), lg(16), lg(17), lg(18), lg(19), lg(20), lg(21), lg(22), lg(23), lg(24), lg(25), lg(26), lg(27), lg(28), lg(29), lg(30), lg(31), lg(32), lg(33), lg(34), lg(35), lg(36), lg(37), lg(38), lg(39), lg(40), lg(41), lg(42), lg(43)]; let log = take_log();
    let nat: [u32; 44] = [0u32.wrapping_mul(2654435761), 1u32.wrapping_mul(2654435761), 2u32.wrapping_mul(2654435761), 3u32.wrapping_mul(2654435761), 4u32.wrapping_mul(2654435761), 5u32.wrapping_mul(2654435761), 6u32.wrapping_mul(2654435761), 7u32.wrapping_mul(2654435761), 8u32.wrapping_mul(2654435761), 9u32.wrapping_mul(2654435761), 10u32.wrapping_mul(2654435761), 11u32.wrapping_mul(2654435761), 12u32.wrapping_mul(2654435761), 13u32.wrapping_mul(2654435761), 14u32.wrapping_mul(2654435761), 15u32.wrapping_mul(2654435761), 16u32.wrapping_mul(2654435761), 17u32.wrapping_mul(2654435761), 18u32.wrapping_mul(2654435761), 19u32.wrapping_mul(2654435761), 20u32.wrapping_mul(2654435761), 21u32.wrapping_mul(2654435761), 22u32.wrapping_mul(2654435761), 23u32.wrapping_mul(2654435761), 24u32.wrapping_mul(2654435761), 25u32.wrapping_mul(2654435761), 26u32.wrapping_mul(2654435761), 27u32.wrapping_mul(2654435761), 28u32.wrapping_mul(2654435761), 29u32.wrapping_mul(2654435761), 30u32.wrapping_mul(2654435761), 31u32.wrapping_mul(2654435761), 32u32.wrapping_mul(2654435761), 33u32.wrapping_mul(2654435761), 34u32.wrapping_mul(2654435761), 35u32.wrapping_mul(2654435761), 36u32.wrapping_mul(2654435761), 37u32.wrapping_mul(2654435761), 38u32.wrapping_mul(2654435761), 39u32.wrapping_mul(2654435761), 40u32.wrapping_mul(2654435761), 41u32.wrapping_mul(2654435761), 42u32.wrapping_mul(2654435761), 43u32.wrapping_mul(2654435761)];
    ck!(a.as_slice() == &nat[..], "arr! list of 44: contents {:?} differ from the native array literal", &a.as_slice()[..a.len().min(8)]);
    ck!(log == seq(44), "arr! list of 44: element expressions were evaluated in order {:?}, expected 0..44 once each", &log[..log.len().min(12)]);
    take_log(); let b: Box<GA<u32, N<44>>> = box_arr![lg(0), lg(1), lg(2), lg(3), lg(4), lg(5), lg(6), lg(7), lg(8), lg(9), lg(10), lg(11), lg(12), lg(13), lg(14), lg(15), lg(16), lg(17), lg(18), lg(19), lg(20), lg(21), lg(22), lg(23), lg(24), lg(25), lg(26), lg(27), lg(28), lg(29), lg(30), lg(31), lg(32), lg(33), lg(34), lg(35), lg(36), lg(37), lg(38), lg(39), lg(40), lg(41), lg(42), lg(43)]; let log = take_log();
    ck!(b.as_slice() == &nat[..], "box_arr! list of 44: contents differ from the native array literal");
    ck!(log == seq(44), "box_arr! list of 44: element expressions were evaluated in order {:?}, expected 0..44 once each", &log[..log.len().min(12)]);
    ck!(*b == a, "box_arr! and arr! with the same arguments differ");
    Ok(())
}
fn case_list_44_trailing() -> Result<(), String> {
    take_log(); let a: GA<u32, N<44>> = arr![lg(0), lg(1), lg(2), lg(3), lg(4), lg(5), lg(6), lg(7), lg(8), lg(9), lg(10), lg(11), lg(12), lg(13), lg(14), lg(15), lg(16), lg(17), lg(18), lg(19), lg(20), lg(21), lg(22), lg(23), lg(24), lg(25), lg(26), lg(27), lg(28), lg(29), lg(30), lg(31), lg(32), lg(33), lg(34), lg(35), lg(36), lg(37), lg(38), lg(39), lg(40), lg(41), lg(42), lg(43),]; let log = take_log();
    let nat: [u32; 44] = [0u32.wrapping_mul(2654435761), 1u32.wrapping_mul(2654435761), 2u32.wrapping_mul(2654435761), 3u32.wrapping_mul(2654435761), 4u32.wrapping_mul(2654435761), 5u32.wrapping_mul(2654435761), 6u32.wrapping_mul(2654435761), 7u32.wrapping_mul(2654435761), 8u32.wrapping_mul(2654435761), 9u32.wrapping_mul(2654435761), 10u32.wrapping_mul(2654435761), 11u32.wrapping_mul(2654435761), 12u32.wrapping_mul(2654435761), 13u32.wrapping_mul(2654435761), 14u32.wrapping_mul(2654435761), 15u32.wrapping_mul(2654435761), 16u32.wrapping_mul(2654435761), 17u32.wrapping_mul(2654435761), 18u32.wrapping_mul(2654435761), 19u32.wrapping_mul(2654435761), 20u32.wrapping_mul(2654435761), 21u32.wrapping_mul(2654435761), 22u32.wrapping_mul(2654435761), 23u32.wrapping_mul(2654435761), 24u32.wrapping_mul(2654435761), 25u32.wrapping_mul(2654435761), 26u32.wrapping_mul(2654435761), 27u32.wrapping_mul(2654435761), 28u32.wrapping_mul(2654435761), 29u32.wrapping_mul(2654435761), 30u32.wrapping_mul(2654435761), 31u32.wrapping_mul(2654435761), 32u32.wrapping_mul(2654435761), 33u32.wrapping_mul(2654435761), 34u32.wrapping_mul(2654435761), 35u32.wrapping_mul(2654435761), 36u32.wrapping_mul(2654435761), 37u32.wrapping_mul(2654435761), 38u32.wrapping_mul(2654435761), 39u32.wrapping_mul(2654435761), 40u32.wrapping_mul(2654435761), 41u32.wrapping_mul(2654435761), 42u32.wrapping_mul(2654435761), 43u32.wrapping_mul(2654435761)];
    ck!(a.as_slice() == &nat[..], "arr! list of 44: contents {:?} differ from the native array literal", &a.as_slice()[..a.len().min(8)]);
    ck!(log == seq(44), "arr! list of 44: element expressions were evaluated in order {:?}, expected 0..44 once each", &log[..log.len().min(12)]);
    take_log(); let b: Box<GA<u32, N<44>>> = box_arr![lg(0), lg(1), lg(2), lg(3), lg(4), lg(5), lg(6), lg(7), lg(8), lg(9), lg(10), lg(11), lg(12), lg(13), lg(14), lg(15), lg(16), lg(17), lg(18), lg(19), lg(20), lg(21), lg(22), lg(23), lg(24), lg(25), lg(26), lg(27), lg(28), lg(29), lg(30), lg(31), lg(32), lg(33), lg(34), lg(35), lg(36), lg(37), lg(38), lg(39), lg(40), lg(41), lg(42), lg(43),]; let log = take_log();
    ck!(b.as_slice() == &nat[..], "box_arr! list of 44: contents differ from the native array literal");
    ck!(log == seq(44), "box_arr! list of 44: element expressions were evaluated in order {:?}, expected 0..44 once each", &log[..log.len().min(12)]);
    ck!(*b == a, "box_arr! and arr! with the same arguments differ");
    Ok(())
}
const CL_44: GA<u8, N<44>> = arr![1u8, 6u8, 11u8, 16u8, 21u8, 26u8, 31u8, 36u8, 41u8, 46u8, 51u8, 56u8, 61u8, 66u8, 71u8, 76u8, 81u8, 86u8, 91u8, 96u8, 101u8, 106u8, 111u8, 116u8, 121u8, 126u8, 131u8, 136u8, 141u8, 146u8, 151u8, 156u8, 161u8, 166u8, 171u8, 176u8, 181u8, 186u8, 191u8, 196u8, 201u8, 206u8, 211u8, 216u8];
static SL_44: GA<u8, N<44>> = arr![1u8, 6u8, 11u8, 16u8, 21u8, 26u8, 31u8, 36u8, 41u8, 46u8, 51u8, 56u8, 61u8, 66u8, 71u8, 76u8, 81u8, 86u8, 91u8, 96u8, 101u8, 106u8, 111u8, 116u8, 121u8, 126u8, 131u8, 136u8, 141u8, 146u8, 151u8, 156u8, 161u8, 166u8, 171u8, 176u8, 181u8, 186u8, 191u8, 196u8, 201u8, 206u8, 211u8, 216u8,];
const fn cfl_44() -> GA<u8, N<44>> { arr![1u8, 6u8, 11u8, 16u8, 21u8, 26u8, 31u8, 36u8, 41u8, 46u8, 51u8, 56u8, 61u8, 66u8, 71u8, 76u8, 81u8, 86u8, 91u8, 96u8, 101u8, 106u8, 111u8, 116u8, 121u8, 126u8, 131u8, 136u8, 141u8, 146u8, 151u8, 156u8, 161u8, 166u8, 171u8, 176u8, 181u8, 186u8, 191u8, 196u8, 201u8, 206u8, 211u8, 216u8] }
fn case_list_const_44() -> Result<(), String> {
    let nat: [u8; 44] = [1u8, 6u8, 11u8, 16u8, 21u8, 26u8, 31u8, 36u8, 41u8, 46u8, 51u8, 56u8, 61u8, 66u8, 71u8, 76u8, 81u8, 86u8, 91u8, 96u8, 101u8, 106u8, 111u8, 116u8, 121u8, 126u8, 131u8, 136u8, 141u8, 146u8, 151u8, 156u8, 161u8, 166u8, 171u8, 176u8, 181u8, 186u8, 191u8, 196u8, 201u8, 206u8, 211u8, 216u8];
    ck!(CL_44.as_slice() == &nat[..] && SL_44.as_slice() == &nat[..] && cfl_44().as_slice() == &nat[..], "arr! list of 44 in const / static / const fn position differs from the native literal");
    Ok(())
}
fn case_list_45() -> Result<(), String> {
    take_log(); let a: GA<u32, N<45>> = arr![lg(0), lg(1), lg(2), lg(3), lg(4), lg(5), lg(6), lg(7), lg(8), lg(9), lg(10), lg(11), lg(12), lg(13), lg(14), lg(15), lg(16), lg(17), lg(18), lg(19), lg(20), lg(21), lg(22), lg(23), lg(24), lg(25), lg(26), lg(27), lg(28), lg(29), lg(30), lg(31), lg(32), lg(33), lg(34), lg(35), lg(36), lg(37), lg(38), lg(39), lg(40), lg(41), lg(42), lg(43), lg(44)]; let log = take_log();
    let nat: [u32; 45] = [0u32.wrapping_mul(2654435761), 1u32.wrapping_mul(2654435761), 2u32.wrapping_mul(2654435761), 3u32.wrapping_mul(2654435761), 4u32.wrapping_mul(2654435761), 5u32.wrapping_mul(2654435761), 6u32.wrapping_mul(2654435761), 7u32.wrapping_mul(2654435761), 8u32.wrapping_mul(2654435761), 9u32.wrapping_mul(2654435761), 10u32.wrapping_mul(2654435761), 11u32.wrapping_mul(2654435761), 12u32.wrapping_mul(2654435761), 13u32.wrapping_mul(2654435761), 14u32.wrapping_mul(2654435761), 15u32.wrapping_mul(2654435761), 16u32.wrapping_mul(2654435761), 17u32.wrapping_mul(2654435761), 18u32.wrapping_mul(2654435761), 19u32.wrapping_mul(2654435761), 20u32.wrapping_mul(2654435761), 21u32.wrapping_mul(2654435761), 22u32.wrapping_mul(2654435761), 23u32.wrapping_mul(2654435761), 24u32.wrapping_mul(2654435761), 25u32.wrapping_mul(2654435761), 26u32.wrapping_mul(2654435761), 27u32.wrapping_mul(2654435761), 28u32.wrapping_mul(2654435761), 29u32.wrapping_mul(2654435761), 30u32.wrapping_mul(2654435761), 31u32.wrapping_mul(2654435761), 32u32.wrapping_mul(2654435761), 33u32.wrapping_mul(2654435761), 34u32.wrapping_mul(2654435761), 35u32.wrapping_mul(2654435761), 36u32.wrapping_mul(2654435761), 37u32.wrapping_mul(2654435761), 38u32.wrapping_mul(2654435761), 39u32.wrapping_mul(2654435761), 40u32.wrapping_mul(2654435761), 41u32.wrapping_mul(2654435761), 42u32.wrapping_mul(2654435761), 43u32.wrapping_mul(2654435761), 44u32.wrapping_mul(2654435761)];
    ck!(a.as_slice() == &nat[..], "arr! list of 45: contents {:?} differ from the native array literal", &a.as_slice()[..a.len().min(8)]);
    ck!(log == seq(45), "arr! list of 45: element expressions were evaluated in order {:?}, expected 0..45 once each", &log[..log.len().min(12)]);
    take_log(); let b: Box<GA<u32, N<45>>> = box_arr![lg(0), lg(1), lg(2), lg(3), lg(4), lg(5), lg(6), lg(7), lg(8), lg(9), lg(10), lg(11), lg(12), lg(13), lg(14), lg(15), lg(16), lg(17), lg(18), lg(19), lg(20), lg(21), lg(22), lg(23), lg(24), lg(25), lg(26), lg(27), lg(28), lg(29), lg(30), lg(31), lg(32), lg(33), lg(34), lg(35), lg(36), lg(37), lg(38), lg(39), lg(40), lg(41), lg(42), lg(43), lg(44)]; let log = take_log();
    ck!(b.as_slice() == &nat[..], "box_arr! list of 45: contents differ from the native array literal");
    ck!(log == seq(45), "box_arr! list of 45: element expressions were evaluated in order {:?}, expected 0..45 once each", &log[..log.len().min(12)]);
    ck!(*b == a, "box_arr! and arr! with the same arguments differ");
    Ok(())
}
fn case_list_45_trailing() -> Result<(), String> {
    take_log(); let a: GA<u32, N<45>> = arr![lg(0), lg(1), lg(2), lg(3), lg(4), lg(5), lg(6), lg(7), lg(8), lg(9), lg(10), lg(11), lg(12), lg(13), lg(14), lg(15), lg(16), lg(17), lg(18), lg(19), lg(20), lg(21), lg(22), lg(23), lg(24), lg(25), lg(26), lg(27), lg(28), lg(29), lg(30), lg(31), lg(32), lg(33), lg(34), lg(35), lg(36), lg(37), lg(38), lg(39), lg(40), lg(41), lg(42), lg(43), lg(44),]; let log = take_log();
    let nat: [u32; 45] = [0u32.wrapping_mul(2654435761), 1u32.wrapping_mul(2654435761), 2u32.wrapping_mul(2654435761), 3u32.wrapping_mul(2654435761), 4u32.wrapping_mul(2654435761), 5u32.wrapping_mul(2654435761), 6u32.wrapping_mul(2654435761), 7u32.wrapping_mul(2654435761), 8u32.wrapping_mul(2654435761), 9u32.wrapping_mul(2654435761), 10u32.wrapping_mul(2654435761), 11u32.wrapping_mul(2654435761), 12u32.wrapping_mul(2654435761), 13u32.wrapping_mul(2654435761), 14u32.wrapping_mul(2654435761), 15u32.wrapping_mul(2654435761), 16u32.wrapping_mul(2654435761), 17u32.wrapping_mul(2654435761), 18u32.wrapping_mul(2654435761), 19u32.wrapping_mul(2654435761), 20u32.wrapping_mul(2654435761), 21u32.wrapping_mul(2654435761), 22u32.wrapping_mul(2654435761), 23u32.wrapping_mul(2654435761), 24u32.wrapping_mul(2654435761), 25u32.wrapping_mul(2654435761), 26u32.wrapping_mul(2654435761), 27u32.wrapping_mul(2654435761), 28u32.wrapping_mul(2654435761), 29u32.wrapping_mul(2654435761), 30u32.wrapping_mul(2654435761), 31u32.wrapping_mul(2654435761), 32u32.wrapping_mul(2654435761), 33u32.wrapping_mul(2654435761), 34u32.wrapping_mul(2654435761), 35u32.wrapping_mul(2654435761), 36u32.wrapping_mul(2654435761), 37u32.wrapping_mul(2654435761), 38u32.wrapping_mul(2654435761), 39u32.wrapping_mul(2654435761), 40u32.wrapping_mul(2654435761), 41u32.wrapping_mul(2654435761), 42u32.wrapping_mul(2654435761), 43u32.wrapping_mul(2654435761), 44u32.wrapping_mul(2654435761)];
    ck!(a.as_slice() == &nat[..], "arr! list of 45: contents {:?} differ from the native array literal", &a.as_slice()[..a.len().min(8)]);
    ck!(log == seq(45), "arr! list of 45: element expressions were evaluated in order {:?}, expected 0..45 once each", &log[..log.len().min(12)]);
    take_log(); let b: Box<GA<u32, N<45>>> = box_arr![lg(0), lg(1), lg(2), lg(3), lg(4), lg(5), lg(6), lg(7), lg(8), lg(9), lg(10), lg(11), lg(12), lg(13), lg(14), lg(15), lg(16), lg(17), lg(18), lg(19), lg(20), lg(21), lg(22), lg(23), lg(24), lg(25), lg(26), lg(27), lg(28), lg(29), lg(30), lg(31), lg(32), lg(33), lg(34), lg(35), lg(36), lg(37), lg(38), lg(39), lg(40), lg(41), lg(42), lg(43), lg(44),]; let log = take_log();
    ck!(b.as_slice() == &nat[..], "box_arr! list of 45: contents differ from the native array literal");
    ck!(log == seq(45), "box_arr! list of 45: element expressions were evaluated in order {:?}, expected 0..45 once each", &log[..log.len().min(12)]);
    ck!(*b == a, "box_arr! and arr! with the same arguments differ");
    Ok(())
}
const CL_45: GA<u8, N<45>> = arr![1u8, 6u8, 11u8, 16u8, 21u8, 26u8, 31u8, 36u8, 41u8, 46u8, 51u8, 56u8, 61u8, 66u8, 71u8, 76u8, 81u8, 86u8, 91u8, 96u8, 101u8, 106u8, 111u8, 116u8, 121u8, 126u8, 131u8, 136u8, 141u8, 146u8, 151u8, 156u8, 161u8, 166u8, 171u8, 176u8, 181u8, 186u8, 191u8, 196u8, 201u8, 206u8, 211u8, 216u8, 221u8];
static SL_45: GA<u8, N<45>> = arr![1u8, 6u8, 11u8, 16u8, 21u8, 26u8, 31u8, 36u8, 41u8, 46u8, 51u8, 56u8, 61u8, 66u8, 71u8, 76u8, 81u8, 86u8, 91u8, 96u8, 101u8, 106u8, 111u8, 116u8, 121u8, 126u8, 131u8, 136u8, 141u8, 146u8, 151u8, 156u8, 161u8, 166u8, 171u8, 176u8, 181u8, 186u8, 191u8, 196u8, 201u8, 206u8, 211u8, 216u8, 221u8,];
const fn cfl_45() -> GA<u8, N<45>> { arr![1u8, 6u8, 11u8, 16u8, 21u8, 26u8, 31u8, 36u8, 41u8, 46u8, 51u8, 56u8, 61u8, 66u8, 71u8, 76u8, 81u8, 86u8, 91u8, 96u8, 101u8, 106u8, 111u8, 116u8, 121u8, 126u8, 131u8, 136u8, 141u8, 146u8, 151u8, 156u8, 161u8, 166u8, 171u8, 176u8, 181u8, 186u8, 191u8, 196u8, 201u8, 206u8, 211u8, 216u8, 221u8] }
fn case_list_const_45() -> Result<(), String> {
    let nat: [u8; 45] = [1u8, 6u8, 11u8, 16u8, 21u8, 26u8, 31u8, 36u8, 41u8, 46u8, 51u8, 56u8, 61u8, 66u8, 71u8, 76u8, 81u8, 86u8, 91u8, 96u8, 101u8, 106u8, 111u8, 116u8, 121u8, 126u8, 131u8, 136u8, 141u8, 146u8, 151u8, 156u8, 161u8, 166u8, 171u8, 176u8, 181u8, 186u8, 191u8, 196u8, 201u8, 206u8, 211u8, 216u8, 221u8];
    ck!(CL_45.as_slice() == &nat[..] && SL_45.as_slice() == &nat[..] && cfl_45().as_slice() == &nat[..], "arr! list of 45 in const / static / const fn position differs from the native literal");
    Ok(())
}
fn case_list_46() -> Result<(), String> {
    take_log(); let a: GA<u32, N<46>> = arr![lg(0), lg(1), lg(2), lg(3), lg(4), lg(5), lg(6), lg(7), lg(8), lg(9), lg(10), lg(11), lg(12), lg(13), lg(14), lg(15), lg(16), lg(17), lg(18), lg(19), lg(20), lg(21), lg(22), lg(23), lg(24), lg(25), lg(26), lg(27), lg(28), lg(29), lg(30), lg(31), lg(32), lg(33), lg(34), lg(35), lg(36), lg(37), lg(38), lg(39), lg(40), lg(41), lg(42), lg(43), lg(44), lg(45)]; let log = take_log();
    let nat: [u32; 46] = [0u32.wrapping_mul(2654435761), 1u32.wrapping_mul(2654435761), 2u32.wrapping_mul(2654435761), 3u32.wrapping_mul(2654435761), 4u32.wrapping_mul(2654435761), 5u32.wrapping_mul(2654435761), 6u32.wrapping_mul(2654435761), 7u32.wrapping_mul(2654435761), 8u32.wrapping_mul(2654435761), 9u32.wrapping_mul(2654435761), 10u32.wrapping_mul(2654435761), 11u32.wrapping_mul(2654435761), 12u32.wrapping_mul(2654435761), 13u32.wrapping_mul(2654435761), 14u32.wrapping_mul(2654435761), 15u32.wrapping_mul(2654435761), 16u32.wrapping_mul(2654435761), 17u32.wrapping_mul(2654435761), 18u32.wrapping_mul(2654435761), 19u32.wrapping_mul(2654435761), 20u32.wrapping_mul(2654435761), 21u32.wrapping_mul(2654435761), 22u32.wrapping_mul(2654435761), 23u32.wrapping_mul(2654435761), 24u32.wrapping_mul(2654435761), 25u32.wrapping_mul(2654435761), 26u32.wrapping_mul(2654435761), 27u32.wrapping_mul(2654435761), 28u32.wrapping_mul(2654435761), 29u32.wrapping_mul(2654435761), 30u32.wrapping_mul(2654435761), 31u32.wrapping_mul(2654435761), 32u32.wrapping_mul(2654435761), 33u32.wrapping_mul(2654435761), 34u32.wrapping_mul(2654435761), 35u32.wrapping_mul(2654435761), 36u32.wrapping_mul(2654435761), 37u32.wrapping_mul(2654435761), 38u32.wrapping_mul(2654435761), 39u32.wrapping_mul(2654435761), 40u32.wrapping_mul(2654435761), 41u32.wrapping_mul(2654435761), 42u32.wrapping_mul(2654435761), 43u32.wrapping_mul(2654435761), 44u32.wrapping_mul(2654435761), 45u32.wrapping_mul(2654435761)];
    ck!(a.as_slice() == &nat[..], "arr! list of 46: contents {:?} differ from the native array literal", &a.as_slice()[..a.len().min(8)]);
    ck!(log == seq(46), "arr! list of 46: element expressions were evaluated in order {:?}, expected 0..46 once each", &log[..log.len().min(12)]);
    take_log(); let b: Box<GA<u32, N<46>>> = box_arr![lg(0), lg(1), lg(2), lg(3), lg(4), lg(5), lg(6), lg(7), lg(8), lg(9), lg(10), lg(11), lg(12), lg(13), lg(14), lg(15), lg(16), lg(17), lg(18), lg(19), lg(20), lg(21), lg(22), lg(23), lg(24), lg(25), lg(26), lg(27), lg(28), lg(29), lg(30), lg(31), lg(32), lg(33), lg(34), lg(35), lg(36), lg(37), lg(38), lg(39), lg(40), lg(41), lg(42), lg(43), lg(44), lg(45)]; let log = take_log();
    ck!(b.as_slice() == &nat[..], "box_arr! list of 46: contents differ from the native array literal");
    ck!(log == seq(46), "box_arr! list of 46: element expressions were evaluated in order {:?}, expected 0..46 once each", &log[..log.len().min(12)]);
    ck!(*b == a, "box_arr! and arr! with the same arguments differ");
    Ok(())
}
fn case_list_46_trailing() -> Result<(), String> {
    take_log(); let a: GA<u32, N<46>> = arr![lg(0), lg(1), lg(2), lg(3), lg(4), lg(5), lg(6), lg(7), lg(8), lg(9), lg(10), lg(11), lg(12), lg(13), lg(14), lg(15), lg(16), lg(17), lg(18), lg(19), lg(20), lg(21), lg(22), lg(23), lg(24), lg(25), lg(26), lg(27), lg(28), lg(29), lg(30), lg(31), lg(32), lg(33), lg(34), lg(35), lg(36), lg(37), lg(38), lg(39), lg(40), lg(41), lg(42), lg(43), lg(44), lg(45),]; let log = take_log();
    let nat: [u32; 46] = [0u32.wrapping_mul(2654435761), 1u32.wrapping_mul(2654435761), 2u32.wrapping_mul(2654435761), 3u32.wrapping_mul(2654435761), 4u32.wrapping_mul(2654435761), 5u32.wrapping_mul(2654435761), 6u32.wrapping_mul(2654435761), 7u32.wrapping_mul(2654435761), 8u32.wrapping_mul(2654435761), 9u32.wrapping_mul(2654435761), 10u32.wrapping_mul(2654435761), 11u32.wrapping_mul(2654435761), 12u32.wrapping_mul(2654435761), 13u32.wrapping_mul(2654435761), 14u32.wrapping_mul(2654435761), 15u32.wrapping_mul(2654435761), 16u32.wrapping_mul(2654435761), 17u32.wrapping_mul(2654435761), 18u32.wrapping_mul(2654435761), 19u32.wrapping_mul(2654435761), 20u32.wrapping_mul(2654435761), 21u32.wrapping_mul(2654435761), 22u32.wrapping_mul(2654435761), 23u32.wrapping_mul(2654435761), 24u32.wrapping_mul(2654435761), 25u32.wrapping_mul(2654435761), 26u32.wrapping_mul(2654435761), 27u32.wrapping_mul(2654435761), 28u32.wrapping_mul(2654435761), 29u32.wrapping_mul(2654435761), 30u32.wrapping_mul(2654435761), 31u32.wrapping_mul(2654435761), 32u32.wrapping_mul(2654435761), 33u32.wrapping_mul(2654435761), 34u32.wrapping_mul(2654435761), 35u32.wrapping_mul(2654435761), 36u32.wrapping_mul(2654435761), 37u32.wrapping_mul(2654435761), 38u32.wrapping_mul(2654435761), 39u32.wrapping_mul(2654435761), 40u32.wrapping_mul(2654435761), 41u32.wrapping_mul(2654435761), 42u32.wrapping_mul(2654435761), 43u32.wrapping_mul(2654435761), 44u32.wrapping_mul(2654435761), 45u32.wrapping_mul(2654435761)];
    ck!(a.as_slice() == &nat[..], "arr! list of 46: contents {:?} differ from the native array literal", &a.as_slice()[..a.len().min(8)]);
    ck!(log == seq(46), "arr! list of 46: element expressions were evaluated in order {:?}, expected 0..46 once each", &log[..log.len().min(12)]);
    take_log(); let b: Box<GA<u32, N<46>>> = box_arr![lg(0), lg(1), lg(2), lg(3), lg(4), lg(5), lg(6), lg(7), lg(8), lg(9), lg(10), lg(11), lg(12), lg(13), lg(14), lg(15), lg(16), lg(17), lg(18), lg(19), lg(20), lg(21), lg(22), lg(23), lg(24), lg(25), lg(26), lg(27), lg(28), lg(29), lg(30), lg(31), lg(32), lg(33), lg(34), lg(35), lg(36), lg(37), lg(38), lg(39), lg(40), lg(41), lg(42), lg(43), lg(44), lg(45),]; let log = take_log();
    ck!(b.as_slice() == &nat[..], "box_arr! list of 46: contents differ from the native array literal");
    ck!(log == seq(46), "box_arr! list of 46: element expressions were evaluated in order {:?}, expected 0..46 once each", &log[..log.len().min(12)]);
    ck!(*b == a, "box_arr! and arr! with the same arguments differ");
    Ok(())
}
const CL_46: GA<u8, N<46>> = arr![1u8, 6u8, 11u8, 16u8, 21u8, 26u8, 31u8, 36u8, 41u8, 46u8, 51u8, 56u8, 61u8, 66u8, 71u8, 76u8, 81u8, 86u8, 91u8, 96u8, 101u8, 106u8, 111u8, 116u8, 121u8, 126u8, 131u8, 136u8, 141u8, 146u8, 151u8, 156u8, 161u8, 166u8, 171u8, 176u8, 181u8, 186u8, 191u8, 196u8, 201u8, 206u8, 211u8, 216u8, 221u8, 226u8];
static SL_46: GA<u8, N<46>> = arr![1u8, 6u8, 11u8, 16u8, 21u8, 26u8, 31u8, 36u8, 41u8, 46u8, 51u8, 56u8, 61u8, 66u8, 71u8, 76u8, 81u8, 86u8, 91u8, 96u8, 101u8, 106u8, 111u8, 116u8, 121u8, 126u8, 131u8, 136u8, 141u8, 146u8, 151u8, 156u8, 161u8, 166u8, 171u8, 176u8, 181u8, 186u8, 191u8, 196u8, 201u8, 206u8, 211u8, 216u8, 221u8, 226u8,];
const fn cfl_46() -> GA<u8, N<46>> { arr![1u8, 6u8, 11u8, 16u8, 21u8, 26u8, 31u8, 36u8, 41u8, 46u8, 51u8, 56u8, 61u8, 66u8, 71u8, 76u8, 81u8, 86u8, 91u8, 96u8, 101u8, 106u8, 111u8, 116u8, 121u8, 126u8, 131u8, 136u8, 141u8, 146u8, 151u8, 156u8, 161u8, 166u8, 171u8, 176u8, 181u8, 186u8, 191u8, 196u8, 201u8, 206u8, 211u8, 216u8, 221u8, 226u8] }
fn case_list_const_46() -> Result<(), String> {
    let nat: [u8; 46] = [1u8, 6u8, 11u8, 16u8, 21u8, 26u8, 31u8, 36u8, 41u8, 46u8, 51u8, 56u8, 61u8, 66u8, 71u8, 76u8, 81u8, 86u8, 91u8, 96u8, 101u8, 106u8, 111u8, 116u8, 121u8, 126u8, 131u8, 136u8, 141u8, 146u8, 151u8, 156u8, 161u8, 166u8, 171u8, 176u8, 181u8, 186u8, 191u8, 196u8, 201u8, 206u8, 211u8, 216u8, 221u8, 226u8];
    ck!(CL_46.as_slice() == &nat[..] && SL_46.as_slice() == &nat[..] && cfl_46().as_slice() == &nat[..], "arr! list of 46 in const / static / const fn position differs from the native literal");
    Ok(())
}
fn case_list_47() -> Result<(), String> {
    take_log(); let a: GA<u32, N<47>> = arr![lg(0), lg(1), lg(2), lg(3), lg(4), lg(5), lg(6), lg(7), lg(8), lg(9), lg(10), lg(11), lg(12), lg(13), lg(14), lg(15), lg(16), lg(17), lg(18), lg(19), lg(20), lg(21), lg(22), lg(23), lg(24), lg(25), lg(26), lg(27), lg(28), lg(29), lg(30), lg(31), lg(32), lg(33), lg(34), lg(35), lg(36), lg(37), lg(38), lg(39), lg(40), lg(41), lg(42), lg(43), lg(44), lg(45), lg(46)]; let log = take_log();
    let nat: [u32; 47] = [0u32.wrapping_mul(2654435761), 1u32.wrapping_mul(2654435761), 2u32.wrapping_mul(2654435761), 3u32.wrapping_mul(2654435761), 4u32.wrapping_mul(2654435761), 5u32.wrapping_mul(2654435761), 6u32.wrapping_mul(2654435761), 7u32.wrapping_mul(2654435761), 8u32.wrapping_mul(2654435761), 9u32.wrapping_mul(2654435761), 10u32.wrapping_mul(2654435761), 11u32.wrapping_mul(2654435761), 12u32.wrapping_mul(2654435761), 13u32.wrapping_mul(2654435761), 14u32.wrapping_mul(2654435761), 15u32.wrapping_mul(2654435761), 16u32.wrapping_mul(2654435761), 17u32.wrapping_mul(2654435761), 18u32.wrapping_mul(2654435761), 19u32.wrapping_mul(2654435761), 20u32.wrapping_mul(2654435761), 21u32.wrapping_mul(2654435761), 22u32.wrapping_mul(2654435761), 23u32.wrapping_mul(2654435761), 24u32.wrapping_mul(2654435761), 25u32.wrapping_mul(2654435761), 26u32.wrapping_mul(2654435761), 27u32.wrapping_mul(2654435761), 28u32.wrapping_mul(2654435761), 29u32.wrapping_mul(2654435761), 30u32.wrapping_mul(2654435761), 31u32.wrapping_mul(2654435761), 32u32.wrapping_mul(2654435761), 33u32.wrapping_mul(2654435761), 34u32.wrapping_mul(2654435761), 35u32.wrapping_mul(2654435761), 36u32.wrapping_mul(2654435761), 37u32.wrapping_mul(2654435761), 38u32.wrapping_mul(2654435761), 39u32.wrapping_mul(2654435761), 40u32.wrapping_mul(2654435761), 41u32.wrapping_mul(2654435761), 42u32.wrapping_mul(2654435761), 43u32.wrapping_mul(2654435761), 44u32.wrapping_mul(2654435761), 45u32.wrapping_mul(2654435761), 46u32.wrapping_mul(2654435761)];
    ck!(a.as_slice() == &nat[..], "arr! list of 47: contents {:?} differ from the native array literal", &a.as_slice()[..a.len().min(8)]);
    ck!(log == seq(47), "arr! list of 47: element expressions were evaluated in order {:?}, expected 0..47 once each", &log[..log.len().min(12)]);
    take_log(); let b: Box<GA<u32, N<47>>> = box_arr![lg(0), lg(1), lg(2), lg(3), lg(4), lg(5), lg(6), lg(7), lg(8), lg(9), lg(10), lg(11), lg(12), lg(13), lg(14), lg(15), lg(16), lg(17), lg(18), lg(19), lg(20), lg(21), lg(22), lg(23), lg(24), lg(25), lg(26), lg(27), lg(28), lg(29), lg(30), lg(31), lg(32), lg(33), lg(34), lg(35), lg(36), lg(37), lg(38), lg(39), lg(40), lg(41), lg(42), lg(43), lg(44), lg(45), lg(46)]; let log = take_log();
    ck!(b.as_slice() == &nat[..], "box_arr! list of 47: contents differ from the native array literal");
    ck!(log == seq(47), "box_arr! list of 47: element expressions were evaluated in order {:?}, expected 0..47 once each", &log[..log.len().min(12)]);
    ck!(*b == a, "box_arr! and arr! with the same arguments differ");
    Ok(())
}
fn case_list_47_trailing() -> Result<(), String> {
    take_log(); let a: GA<u32, N<47>> = arr![lg(0), lg(1), lg(2), lg(3), lg(4), lg(5), lg(6), lg(7), lg(8), lg(9), lg(10), lg(11), lg(12), lg(13), lg(14), lg(15), lg(16), lg(17), lg(18), lg(19), lg(20), lg(21), lg(22), lg(23), lg(24), lg(25), lg(26), lg(27), lg(28), lg(29), lg(30), lg(31), lg(32), lg(33), lg(34), lg(35), lg(36), lg(37), lg(38), lg(39), lg(40), lg(41), lg(42), lg(43), lg(44), lg(45), lg(46),]; let log = take_log();
    let nat: [u32; 47] = [0u32.wrapping_mul(2654435761), 1u32.wrapping_mul(2654435761), 2u32.wrapping_mul(2654435761), 3u32.wrapping_mul(2654435761), 4u32.wrapping_mul(2654435761), 5u32.wrapping_mul(2654435761), 6u32.wrapping_mul(2654435761), 7u32.wrapping_mul(2654435761), 8u32.wrapping_mul(2654435761), 9u32.wrapping_mul(2654435761), 10u32.wrapping_mul(2654435761), 11u32.wrapping_mul(2654435761), 12u32.wrapping_mul(2654435761), 13u32.wrapping_mul(2654435761), 14u32.wrapping_mul(2654435761), 15u32.wrapping_mul(2654435761), 16u32.wrapping_mul(2654435761), 17u32.wrapping_mul(2654435761), 18u32.wrapping_mul(2654435761), 19u32.wrapping_mul(2654435761), 20u32.wrapping_mul(2654435761), 21u32.wrapping_mul(2654435761), 22u32.wrapping_mul(2654435761), 23u32.wrapping_mul(2654435761), 24u32.wrapping_mul(2654435761), 25u32.wrapping_mul(2654435761), 26u32.wrapping_mul(2654435761), 27u32.wrapping_mul(2654435761), 28u32.wrapping_mul(2654435761), 29u32.wrapping_mul(2654435761), 30u32.wrapping_mul(2654435761), 31u32.wrapping_mul(2654435761), 32u32.wrapping_mul(2654435761), 33u32.wrapping_mul(2654435761), 34u32.wrapping_mul(2654435761), 35u32.wrapping_mul(2654435761), 36u32.wrapping_mul(2654435761), 37u32.wrapping_mul(2654435761), 38u32.wrapping_mul(2654435761), 39u32.wrapping_mul(2654435761), 40u32.wrapping_mul(2654435761), 41u32.wrapping_mul(2654435761), 42u32.wrapping_mul(2654435761), 43u32.wrapping_mul(2654435761), 44u32.wrapping_mul(2654435761), 45u32.wrapping_mul(2654435761), 46u32.wrapping_mul(2654435761)];
    ck!(a.as_slice() == &nat[..], "arr! list of 47: contents {:?} differ from the native array literal", &a.as_slice()[..a.len().min(8)]);
    ck!(log == seq(47), "arr! list of 47: element expressions were evaluated in order {:?}, expected 0..47 once each", &log[..log.len().min(12)]);
    take_log(); let b: Box<GA<u32, N<47>>> = box_arr![lg(0), lg(1), lg(2), lg(3), lg(4), lg(5), lg(6), lg(7), lg(8), lg(9), lg(10), lg(11), lg(12), lg(13), lg(14), lg(15), lg(16), lg(17), lg(18), lg(19), lg(20), lg(21), lg(22), lg(23), lg(24), lg(25), lg(26), lg(27), lg(28), lg(29), lg(30), lg(31), lg(32), lg(33), lg(34), lg(35), lg(36), lg(37), lg(38), lg(39), lg(40), lg(41), lg(42), lg(43), lg(44), lg(45), lg(46),]; let log = take_log();
    ck!(b.as_slice() == &nat[..], "box_arr! list of 47: contents differ from the native array literal");
    ck!(log == seq(47), "box_arr! list of 47: element expressions were evaluated in order {:?}, expected 0..47 once each", &log[..log.len().min(12)]);
    ck!(*b == a, "box_arr! and arr! with the same arguments differ");
    Ok(())
}
const CL_47: GA<u8, N<47>> = arr![1u8, 6u8, 11u8, 16u8, 21u8, 26u8, 31u8, 36u8, 41u8, 46u8, 51u8, 56u8, 61u8, 66u8, 71u8, 76u8, 81u8, 86u8, 91u8, 96u8, 101u8, 106u8, 111u8, 116u8, 121u8, 126u8, 131u8, 136u8, 141u8, 146u8, 151u8, 156u8, 161u8, 166u8, 171u8, 176u8, 181u8, 186u8, 191u8, 196u8, 201u8, 206u8, 211u8, 216u8, 221u8, 226u8, 231u8];
static SL_47: GA<u8, N<47>> = arr![1u8, 6u8, 11u8, 16u8, 21u8, 26u8, 31u8, 36u8, 41u8, 46u8, 51u8, 56u8, 61u8, 66u8, 71u8, 76u8, 81u8, 86u8, 91u8, 96u8, 101u8, 106u8, 111u8, 116u8, 121u8, 126u8, 131u8, 136u8, 141u8, 146u8, 151u8, 156u8, 161u8, 166u8, 171u8, 176u8, 181u8, 186u8, 191u8, 196u8, 201u8, 206u8, 211u8, 216u8, 221u8, 226u8, 231u8,];
const fn cfl_47() -> GA<u8, N<47>> { arr![1u8, 6u8, 11u8, 16u8, 21u8, 26u8, 31u8, 36u8, 41u8, 46u8, 51u8, 56u8, 61u8, 66u8, 71u8, 76u8, 81u8, 86u8, 91u8, 96u8, 101u8, 106u8, 111u8, 116u8, 121u8, 126u8, 131u8, 136u8, 141u8, 146u8, 151u8, 156u8, 161u8, 166u8, 171u8, 176u8, 181u8, 186u8, 191u8, 196u8, 201u8, 206u8, 211u8, 216u8, 221u8, 226u8, 231u8] }
fn case_list_const_47() -> Result<(), String> {
    let nat: [u8; 47] = [1u8, 6u8, 11u8, 16u8, 21u8, 26u8, 31u8, 36u8, 41u8, 46u8, 51u8, 56u8, 61u8, 66u8, 71u8, 76u8, 81u8, 86u8, 91u8, 96u8, 101u8, 106u8, 111u8, 116u8, 121u8, 126u8, 131u8, 136u8, 141u8, 146u8, 151u8, 156u8, 161u8, 166u8, 171u8, 176u8, 181u8, 186u8, 191u8, 196u8, 201u8, 206u8, 211u8, 216u8, 221u8, 226u8, 231u8];
    ck!(CL_47.as_slice() == &nat[..] && SL_47.as_slice() == &nat[..] && cfl_47().as_slice() == &nat[..], "arr! list of 47 in const / static / const fn position differs from the native literal");
    Ok(())
}
fn case_list_48() -> Result<(), String> {
    take_log(); let a: GA<u32, N<48>> = arr![lg(0), lg(1), lg(2), lg(3), lg(4), lg(5), lg(6), lg(7), lg(8), lg(9), lg(10), lg(11), lg(12), lg(13), lg(14), lg(15), lg(16), lg(17), lg(18), lg(19), lg(20), lg(21), lg(22), lg(23), lg(24), lg(25), lg(26), lg(27), lg(28), lg(29), lg(30), lg(31), lg(32), lg(33), lg(34), lg(35), lg(36), lg(37), lg(38), lg(39), lg(40), lg(41), lg(42), lg(43), lg(44), lg(45), lg(46), lg(47)]; let log = take_log();
    let nat: [u32; 48] = [0u32.wrapping_mul(2654435761), 1u32.wrapping_mul(2654435761), 2u32.wrapping_mul(2654435761), 3u32.wrapping_mul(2654435761), 4u32.wrapping_mul(2654435761), 5u32.wrapping_mul(2654435761), 6u32.wrapping_mul(2654435761), 7u32.wrapping_mul(2654435761), 8u32.wrapping_mul(2654435761), 9u32.wrapping_mul(2654435761), 10u32.wrapping_mul(2654435761), 11u32.wrapping_mul(2654435761), 12u32.wrapping_mul(2654435761), 13u32.wrapping_mul(2654435761), 14u32.wrapping_mul(2654435761), 15u32.wrapping_mul(2654435761), 16u32.wrapping_mul(2654435761), 17u32.wrapping_mul(2654435761), 18u32.wrapping_mul(2654435761), 19u32.wrapping_mul(2654435761), 20u32.wrapping_mul(2654435761), 21u32.wrapping_mul(2654435761), 22u32.wrapping_mul(2654435761), 23u32.wrapping_mul(2654435761), 24u32.wrapping_mul(2654435761), 25u32.wrapping_mul(2654435761), 26u32.wrapping_mul(2654435761), 27u32.wrapping_mul(2654435761), 28u32.wrapping_mul(2654435761), 29u32.wrapping_mul(2654435761), 30u32.wrapping_mul(2654435761), 31u32.wrapping_mul(2654435761), 32u32.wrapping_mul(2654435761), 33u32.wrapping_mul(2654435761), 34u32.wrapping_mul(2654435761), 35u32.wrapping_mul(2654435761), 36u32.wrapping_mul(2654435761), 37u32.wrapping_mul(2654435761), 38u32.wrapping_mul(2654435761), 39u32.wrapping_mul(2654435761), 40u32.wrapping_mul(2654435761), 41u32.wrapping_mul(2654435761), 42u32.wrapping_mul(2654435761), 43u32.wrapping_mul(2654435761), 44u32.wrapping_mul(2654435761), 45u32.wrapping_mul(2654435761), 46u32.wrapping_mul(2654435761), 47u32.wrapping_mul(2654435761)];
    ck!(a.as_slice() == &nat[..], "arr! list of 48: contents {:?} differ from the native array literal", &a.as_slice()[..a.len().min(8)]);
    ck!(log == seq(48), "arr! list of 48: element expressions were evaluated in order {:?}, expected 0..48 once each", &log[..log.len().min(12)]);
    take_log(); let b: Box<GA<u32, N<48>>> = box_arr![lg(0), lg(1), lg(2), lg(3), lg(4), lg(5), lg(6), lg(7), lg(8), lg(9), lg(10), lg(11), lg(12), lg(13), lg(14), lg(15), lg(16), lg(17), lg(18), lg(19), lg(20), lg(21), lg(22), lg(23), lg(24), lg(25), lg(26), lg(27), lg(28), lg(29), lg(30), lg(31), lg(32), lg(33), lg(34), lg(35), lg(36), lg(37), lg(38), lg(39), lg(40), lg(41), lg(42), lg(43), lg(44), lg(45), lg(46), lg(47)]; let log = take_log();
    ck!(b.as_slice() == &nat[..], "box_arr! list of 48: contents differ from the native array literal");
    ck!(log == seq(48), "box_arr! list of 48: element expressions were evaluated in order {:?}, expected 0..48 once each", &log[..log.len().min(12)]);
    ck!(*b == a, "box_arr! and arr! with the same arguments differ");
    Ok(())
}
fn case_list_48_trailing() -> Result<(), String> {
    take_log(); let a: GA<u32, N<48>> = arr![lg(0), lg(1), lg(2), lg(3), lg(4), lg(5), lg(6), lg(7), lg(8), lg(9), lg(10), lg(11), lg(12), lg(13), lg(14), lg(15), lg(16), lg(17), lg(18), lg(19), lg(20), lg(21), lg(22), lg(23), lg(24), lg(25), lg(26), lg(27), lg(28), lg(29), lg(30), lg(31), lg(32), lg(33), lg(34), lg(35), lg(36), lg(37), lg(38), lg(39), lg(40), lg(41), lg(42), lg(43), lg(44), lg(45), lg(46), lg(47),]; let log = take_log();
    let nat: [u32; 48] = [0u32.wrapping_mul(2654435761), 1u32.wrapping_mul(2654435761), 2u32.wrapping_mul(2654435761), 3u32.wrapping_mul(2654435761), 4u32.wrapping_mul(2654435761), 5u32.wrapping_mul(2654435761), 6u32.wrapping_mul(2654435761), 7u32.wrapping_mul(2654435761), 8u32.wrapping_mul(2654435761), 9u32.wrapping_mul(2654435761), 10u32.wrapping_mul(2654435761), 11u32.wrapping_mul(2654435761), 12u32.wrapping_mul(2654435761), 13u32.wrapping_mul(2654435761), 14u32.wrapping_mul(2654435761), 15u32.wrapping_mul(2654435761), 16u32.wrapping_mul(2654435761), 17u32.wrapping_mul(2654435761), 18u32.wrapping_mul(2654435761), 19u32.wrapping_mul(2654435761), 20u32.wrapping_mul(2654435761), 21u32.wrapping_mul(2654435761), 22u32.wrapping_mul(2654435761), 23u32.wrapping_mul(2654435761), 24u32.wrapping_mul(2654435761), 25u32.wrapping_mul(2654435761), 26u32.wrapping_mul(2654435761), 27u32.wrapping_mul(2654435761), 28u32.wrapping_mul(2654435761), 29u32.wrapping_mul(2654435761), 30u32.wrapping_mul(2654435761), 31u32.wrapping_mul(2654435761), 32u32.wrapping_mul(2654435761), 33u32.wrapping_mul(2654435761), 34u32.wrapping_mul(2654435761), 35u32.wrapping_mul(2654435761), 36u32.wrapping_mul(2654435761), 37u32.wrapping_mul(2654435761), 38u32.wrapping_mul(2654435761), 39u32.wrapping_mul(2654435761), 40u32.wrapping_mul(2654435761), 41u32.wrapping_mul(2654435761), 42u32.wrapping_mul(2654435761), 43u32.wrapping_mul(2654435761), 44u32.wrapping_mul(2654435761), 45u32.wrapping_mul(2654435761), 46u32.wrapping_mul(2654435761), 47u32.wrapping_mul(2654435761)];
    ck!(a.as_slice() == &nat[..], "arr! list of 48: contents {:?} differ from the native array literal", &a.as_slice()[..a.len().min(8)]);
    ck!(log == seq(48), "arr! list of 48: element expressions were evaluated in order {:?}, expected 0..48 once each", &log[..log.len().min(12)]);
    take_log(); let b: Box<GA<u32, N<48>>> = box_arr![lg(0), lg(1), lg(2), lg(3), lg(4), lg(5), lg(6), lg(7), lg(8), lg(9), lg(10), lg(11), lg(12), lg(13), lg(14), lg(15), lg(16), lg(17), lg(18), lg(19), lg(20), lg(21), lg(22), lg(23), lg(24), lg(25), lg(26), lg(27), lg(28), lg(29), lg(30), lg(31), lg(32), lg(33), lg(34), lg(35), lg(36), lg(37), lg(38), lg(39), lg(40), lg(41), lg(42), lg(43), lg(44), lg(45), lg(46), lg(47),]; let log = take_log();
    ck!(b.as_slice() == &nat[..], "box_arr! list of 48: contents differ from the native array literal");
    ck!(log == seq(48), "box_arr! list of 48: element expressions were evaluated in order {:?}, expected 0..48 once each", &log[..log.len().min(12)]);
    ck!(*b == a, "box_arr! and arr! with the same arguments differ");
    Ok(())
}
const CL_48: GA<u8, N<48>> = arr![1u8, 6u8, 11u8, 16u8, 21u8, 26u8, 31u8, 36u8, 41u8, 46u8, 51u8, 56u8, 61u8, 66u8, 71u8, 76u8, 81u8, 86u8, 91u8, 96u8, 101u8, 106u8, 111u8, 116u8, 121u8, 126u8, 131u8, 136u8, 141u8, 146u8, 151u8, 156u8, 161u8, 166u8, 171u8, 176u8, 181u8, 186u8, 191u8, 196u8, 201u8, 206u8, 211u8, 216u8, 221u8, 226u8, 231u8, 236u8];
static SL_48: GA<u8, N<48>> = arr![1u8, 6u8, 11u8, 16u8, 21u8, 26u8, 31u8, 36u8, 41u8, 46u8, 51u8, 56u8, 61u8, 66u8, 71u8, 76u8, 81u8, 86u8, 91u8, 96u8, 101u8, 106u8, 111u8, 116u8, 121u8, 126u8, 131u8, 136u8, 141u8, 146u8, 151u8, 156u8, 161u8, 166u8, 171u8, 176u8, 181u8, 186u8, 191u8, 196u8, 201u8, 206u8, 211u8, 216u8, 221u8, 226u8, 231u8, 236u8,];
const fn cfl_48() -> GA<u8, N<48>> { arr![1u8, 6u8, 11u8, 16u8, 21u8, 26u8, 31u8, 36u8, 41u8, 46u8, 51u8, 56u8, 61u8, 66u8, 71u8, 76u8, 81u8, 86u8, 91u8, 96u8, 101u8, 106u8, 111u8, 116u8, 121u8, 126u8, 131u8, 136u8, 141u8, 146u8, 151u8, 156u8, 161u8, 166u8, 171u8, 176u8, 181u8, 186u8, 191u8, 196u8, 201u8, 206u8, 211u8, 216u8, 221u8, 226u8, 231u8, 236u8] }
fn case_list_const_48() -> Result<(), String> {
    let nat: [u8; 48] = [1u8, 6u8, 11u8, 16u8, 21u8, 26u8, 31u8, 36u8, 41u8, 46u8, 51u8, 56u8, 61u8, 66u8, 71u8, 76u8, 81u8, 86u8, 91u8, 96u8, 101u8, 106u8, 111u8, 116u8, 121u8, 126u8, 131u8, 136u8, 141u8, 146u8, 151u8, 156u8, 161u8, 166u8, 171u8, 176u8, 181u8, 186u8, 191u8, 196u8, 201u8, 206u8, 211u8, 216u8, 221u8, 226u8, 231u8, 236u8];
    ck!(CL_48.as_slice() == &nat[..] && SL_48.as_slice() == &nat[..] && cfl_48().as_slice() == &nat[..], "arr! list of 48 in const / static / const fn position differs from the native literal");
    Ok(())
}
fn case_list_49() -> Result<(), String> {
    take_log(); let a: GA<u32, N<49>> = arr![lg(0), lg(1), lg(2), lg(3), lg(4), lg(5), lg(6), lg(7), lg(8), lg(9), lg(10), lg(11), lg(12), lg(13), lg(14), lg(15), lg(16), lg(17), lg(18), lg(19), lg(20), lg(21), lg(22), lg(23), lg(24), lg(25), lg(26), lg(27), lg(28), lg(29), lg(30), lg(31), lg(32), lg(33), lg(34), lg(35), lg(36), lg(37), lg(38), lg(39), lg(40), lg(41), lg(42), lg(43), lg(44), lg(45), lg(46), lg(47), lg(48)]; let log = take_log();
    let nat: [u32; 49] = [0u32.wrapping_mul(2654435761), 1u32.wrapping_mul(2654435761), 2u32.wrapping_mul(2654435761), 3u32.wrapping_mul(2654435761), 4u32.wrapping_mul(2654435761), 5u32.wrapping_mul(2654435761), 6u32.wrapping_mul(2654435761), 7u32.wrapping_mul(2654435761), 8u32.wrapping_mul(2654435761), 9u32.wrapping_mul(2654435761), 10u32.wrapping_mul(2654435761), 11u32.wrapping_mul(2654435761), 12u32.wrapping_mul(2654435761), 13u32.wrapping_mul(2654435761), 14u32.wrapping_mul(2654435761), 15u32.wrapping_mul(2654435761), 16u32.wrapping_mul(2654435761), 17u32.wrapping_mul(2654435761), 18u32.wrapping_mul(2654435761), 19u32.wrapping_mul(2654435761), 20u32.wrapping_mul(2654435761), 21u32.wrapping_mul(2654435761), 22u32.wrapping_mul(2654435761), 23u32.wrapping_mul(2654435761), 24u32.wrapping_mul(2654435761), 25u32.wrapping_mul(2654435761), 26u32.wrapping_mul(2654435761), 27u32.wrapping_mul(2654435761), 28u32.wrapping_mul(2654435761), 29u32.wrapping_mul(2654435761), 30u32.wrapping_mul(2654435761), 31u32.wrapping_mul(2654435761), 32u32.wrapping_mul(2654435761), 33u32.wrapping_mul(2654435761), 34u32.wrapping_mul(2654435761), 35u32.wrapping_mul(2654435761), 36u32.wrapping_mul(2654435761), 37u32.wrapping_mul(2654435761), 38u32.wrapping_mul(2654435761), 39u32.wrapping_mul(2654435761), 40u32.wrapping_mul(2654435761), 41u32.wrapping_mul(2654435761), 42u32.wrapping_mul(2654435761), 43u32.wrapping_mul(2654435761), 44u32.wrapping_mul(2654435761), 45u32.wrapping_mul(2654435761), 46u32.wrapping_mul(2654435761), 47u32.wrapping_mul(2654435761), 48u32.wrapping_mul(2654435761)];
    ck!(a.as_slice() == &nat[..], "arr! list of 49: contents {:?} differ from the native array literal", &a.as_slice()[..a.len().min(8)]);
    ck!(log == seq(49), "arr! list of 49: element expressions were evaluated in order {:?}, expected 0..49 once each", &log[..log.len().min(12)]);
    take_log(); let b: Box<GA<u32, N<49>>> = box_arr![lg(0), lg(1), lg(2), lg(3), lg(4), lg(5), lg(6), lg(7), lg(8), lg(9), lg(10), lg(11), lg(12), lg(13), lg(14), lg(15), lg(16), lg(17), lg(18), lg(19), lg(20), lg(21), lg(22), lg(23), lg(24), lg(25), lg(26), lg(27), lg(28), lg(29), lg(30), lg(31), lg(32), lg(33), lg(34), lg(35), lg(36), lg(37), lg(38), lg(39), lg(40), lg(41), lg(42), lg(43), lg(44), lg(45), lg(46), lg(47), lg(48)]; let log = take_log();
    ck!(b.as_slice() == &nat[..], "box_arr! list of 49: contents differ from the native array literal");
    ck!(log == seq(49), "box_arr! list of 49: element expressions were evaluated in order {:?}, expected 0..49 once each", &log[..log.len().min(12)]);
    ck!(*b == a, "box_arr! and arr! with the same arguments differ");
    Ok(())
}
fn case_list_49_trailing() -> Result<(), String> {
    take_log(); let a: GA<u32, N<49>> = arr![lg(0), lg(1), lg(2), lg(3), lg(4), lg(5), lg(6), lg(7), lg(8), lg(9), lg(10), lg(11), lg(12), lg(13), lg(14), lg(15), lg(16), lg(17), lg(18), lg(19), lg(20), lg(21), lg(22), lg(23), lg(24), lg(25), lg(26), lg(27), lg(28), lg(29), lg(30), lg(31), lg(32), lg(33), lg(34), lg(35), lg(36), lg(37), lg(38), lg(39), lg(40), lg(41), lg(42), lg(43), lg(44), lg(45), lg(46), lg(47), lg(48),]; let log = take_log();
    let nat: [u32; 49] = [0u32.wrapping_mul(2654435761), 1u32.wrapping_mul(2654435761), 2u32.wrapping_mul(2654435761), 3u32.wrapping_mul(2654435761), 4u32.wrapping_mul(2654435761), 5u32.wrapping_mul(2654435761), 6u32.wrapping_mul(2654435761), 7u32.wrapping_mul(2654435761), 8u32.wrapping_mul(2654435761), 9u32.wrapping_mul(2654435761), 10u32.wrapping_mul(2654435761), 11u32.wrapping_mul(2654435761), 12u32.wrapping_mul(2654435761), 13u32.wrapping_mul(2654435761), 14u32.wrapping_mul(2654435761), 15u32.wrapping_mul(2654435761), 16u32.wrapping_mul(2654435761), 17u32.wrapping_mul(2654435761), 18u32.wrapping_mul(2654435761), 19u32.wrapping_mul(2654435761), 20u32.wrapping_mul(2654435761), 21u32.wrapping_mul(2654435761), 22u32.wrapping_mul(2654435761), 23u32.wrapping_mul(2654435761), 24u32.wrapping_mul(2654435761), 25u32.wrapping_mul(2654435761), 26u32.wrapping_mul(2654435761), 27u32.wrapping_mul(2654435761), 28u32.wrapping_mul(2654435761), 29u32.wrapping_mul(2654435761), 30u32.wrapping_mul(2654435761), 31u32.wrapping_mul(2654435761), 32u32.wrapping_mul(2654435761), 33u32.wrapping_mul(2654435761), 34u32.wrapping_mul(2654435761), 35u32.wrapping_mul(2654435761), 36u32.wrapping_mul(2654435761), 37u32.wrapping_mul(2654435761), 38u32.wrapping_mul(2654435761), 39u32.wrapping_mul(2654435761), 40u32.wrapping_mul(2654435761), 41u32.wrapping_mul(2654435761), 42u32.wrapping_mul(2654435761), 43u32.wrapping_mul(2654435761), 44u32.wrapping_mul(2654435761), 45u32.wrapping_mul(2654435761), 46u32.wrapping_mul(2654435761), 47u32.wrapping_mul(2654435761), 48u32.wrapping_mul(2654435761)];
    ck!(a.as_slice() == &nat[..], "arr! list of 49: contents {:?} differ from the native array literal", &a.as_slice()[..a.len().min(8)]);
    ck!(log == seq(49), "arr! list of 49: element expressions were evaluated in order {:?}, expected 0..49 once each", &log[..log.len().min(12)]);
    take_log(); let b: Box<GA<u32, N<49>>> = box_arr![lg(0), lg(1), lg(2), lg(3), lg(4), lg(5), lg(6), lg(7), lg(8), lg(9), lg(10), lg(11), lg(12), lg(13), lg(14), lg(15), lg(16), lg(17), lg(18), lg(19), lg(20), lg(21), lg(22), lg(23), lg(24), lg(25), lg(26), lg(27), lg(28), lg(29), lg(30), lg(31), lg(32), lg(33), lg(34), lg(35), lg(36), lg(37), lg(38), lg(39), lg(40), lg(41), lg(42), lg(43), lg(44), lg(45), lg(46), lg(47), lg(48),]; let log = take_log();
    ck!(b.as_slice() == &nat[..], "box_arr! list of 49: contents differ from the native array literal");
    ck!(log == seq(49), "box_arr! list of 49: element expressions were evaluated in order {:?}, expected 0..49 once each", &log[..log.len().min(12)]);
    ck!(*b == a, "box_arr! and arr! with the same arguments differ");
    Ok(())
}
const CL_49: GA<u8, N<49>> = arr![1u8, 6u8, 11u8, 16u8, 21u8, 26u8, 31u8, 36u8, 41u8, 46u8, 51u8, 56u8, 61u8, 66u8, 71u8, 76u8, 81u8, 86u8, 91u8, 96u8, 101u8, 106u8, 111u8, 116u8, 121u8, 126u8, 131u8, 136u8, 141u8, 146u8, 151u8, 156u8, 161u8, 166u8, 171u8, 176u8, 181u8, 186u8, 191u8, 196u8, 201u8, 206u8, 211u8, 216u8, 221u8, 226u8, 231u8, 236u8, 241u8];
static SL_49: GA<u8, N<49>> = arr![1u8, 6u8, 11u8, 16u8, 21u8, 26u8, 31u8, 36u8, 41u8, 46u8, 51u8, 56u8, 61u8, 66u8, 71u8, 76u8, 81u8, 86u8, 91u8, 96u8, 101u8, 106u8, 111u8, 116u8, 121u8, 126u8, 131u8, 136u8, 141u8, 146u8, 151u8, 156u8, 161u8, 166u8, 171u8, 176u8, 181u8, 186u8, 191u8, 196u8, 201u8, 206u8, 211u8, 216u8, 221u8, 226u8, 231u8, 236u8, 241u8,];
const fn cfl_49() -> GA<u8, N<49>> { arr![1u8, 6u8, 11u8, 16u8, 21u8, 26u8, 31u8, 36u8, 41u8, 46u8, 51u8, 56u8, 61u8, 66u8, 71u8, 76u8, 81u8, 86u8, 91u8, 96u8, 101u8, 106u8, 111u8, 116u8, 121u8, 126u8, 131u8, 136u8, 141u8, 146u8, 151u8, 156u8, 161u8, 166u8, 171u8, 176u8, 181u8, 186u8, 191u8, 196u8, 201u8, 206u8, 211u8, 216u8, 221u8, 226u8, 231u8, 236u8, 241u8] }
fn case_list_const_49() -> Result<(), String> {
    let nat: [u8; 49] = [1u8, 6u8, 11u8, 16u8, 21u8, 26u8, 31u8, 36u8, 41u8, 46u8, 51u8, 56u8, 61u8, 66u8, 71u8, 76u8, 81u8, 86u8, 91u8, 96u8, 101u8, 106u8, 111u8, 116u8, 121u8, 126u8, 131u8, 136u8, 141u8, 146u8, 151u8, 156u8, 161u8, 166u8, 171u8, 176u8, 181u8, 186u8, 191u8, 196u8, 201u8, 206u8, 211u8, 216u8, 221u8, 226u8, 231u8, 236u8, 241u8];
    ck!(CL_49.as_slice() == &nat[..] && SL_49.as_slice() == &nat[..] && cfl_49().as_slice() == &nat[..], "arr! list of 49 in const / static / const fn position differs from the native literal");
    Ok(())
}
fn case_list_50() -> Result<(), String> {
    take_log(); let a: GA<u32, N<50>> = arr![lg(0), lg(1), lg(2), lg(3), lg(4), lg(5), lg(6), lg(7), lg(8), lg(9), lg(10), lg(11), lg(12), lg(13), lg(14), lg(15), lg(16), lg(17), lg(18), lg(19), lg(20), lg(21), lg(22), lg(23), lg(24), lg(25), lg(26), lg(27), lg(28), lg(29), lg(30), lg(31), lg(32), lg(33), lg(34), lg(35), lg(36), lg(37), lg(38), lg(39), lg(40), lg(41), lg(42), lg(43), lg(44), lg(45), lg(46), lg(47), lg(48), lg(49)]; let log = take_log();
    let nat: [u32; 50] = [0u32.wrapping_mul(2654435761), 1u32.wrapping_mul(2654435761), 2u32.wrapping_mul(2654435761), 3u32.wrapping_mul(2654435761), 4u32.wrapping_mul(2654435761), 5u32.wrapping_mul(2654435761), 6u32.wrapping_mul(2654435761), 7u32.wrapping_mul(2654435761), 8u32.wrapping_mul(2654435761), 9u32.wrapping_mul(2654435761), 10u32.wrapping_mul(2654435761), 11u32.wrapping_mul(2654435761), 12u32.wrapping_mul(2654435761), 13u32.wrapping_mul(2654435761), 14u32.wrapping_mul(2654435761), 15u32.wrapping_mul(2654435761), 16u32.wrapping_mul(2654435761), 17u32.wrapping_mul(2654435761), 18u32.wrapping_mul(2654435761), 19u32.wrapping_mul(2654435761), 20u32.wrapping_mul(2654435761), 21u32.wrapping_mul(2654435761), 22u32.wrapping_mul(2654435761), 23u32.wrapping_mul(2654435761), 24u32.wrapping_mul(2654435761), 25u32.wrapping_mul(2654435761), 26u32.wrapping_mul(2654435761), 27u32.wrapping_mul(2654435761), 28u32.wrapping_mul(2654435761), 29u32.wrapping_mul(2654435761), 30u32.wrapping_mul(2654435761), 31u32.wrapping_mul(2654435761), 32u32.wrapping_mul(2654435761), 33u32.wrapping_mul(2654435761), 34u32.wrapping_mul(2654435761), 35u32.wrapping_mul(2654435761), 36u32.wrapping_mul(2654435761), 37u32.wrapping_mul(2654435761), 38u32.wrapping_mul(2654435761), 39u32.wrapping_mul(2654435761), 40u32.wrapping_mul(2654435761), 41u32.wrapping_mul(2654435761), 42u32.wrapping_mul(2654435761), 43u32.wrapping_mul(2654435761), 44u32.wrapping_mul(2654435761), 45u32.wrapping_mul(2654435761), 46u32.wrapping_mul(2654435761), 47u32.wrapping_mul(2654435761), 48u32.wrapping_mul(2654435761), 49u32.wrapping_mul(2654435761)];
    ck!(a.as_slice() == &nat[..], "arr! list of 50: contents {:?} differ from the native array literal", &a.as_slice()[..a.len().min(8)]);
    ck!(log == seq(50), "arr! list of 50: element expressions were evaluated in order {:?}, expected 0..50 once each", &log[..log.len().min(12)]);
    take_log(); let b: Box<GA<u32, N<50>>> = box_arr![lg(0), lg(1), lg(2), lg(3), lg(4), lg(5), lg(6), lg(7), lg(8), lg(9), lg(10), lg(11), lg(12), lg(13), lg(14), lg(15), lg(16), lg(17), lg(18), lg(19), lg(20), lg(21), lg(22), lg(23), lg(24), lg(25), lg(26), lg(27), lg(28), lg(29), lg(30), lg(31), lg(32), lg(33), lg(34), lg(35), lg(36), lg(37), lg(38), lg(39), lg(40), lg(41), lg(42), lg(43), lg(44), lg(45), lg(46), lg(47), lg(48), lg(49)]; let log = take_log();
    ck!(b.as_slice() == &nat[..], "box_arr! list of 50: contents differ from the native array literal");
    ck!(log == seq(50), "box_arr! list of 50: element expressions were evaluated in order {:?}, expected 0..50 once each", &log[..log.len().min(12)]);
    ck!(*b == a, "box_arr! and arr! with the same arguments differ");
    Ok(())
}
fn case_list_50_trailing() -> Result<(), String> {
    take_log(); let a: GA<u32, N<50>> = arr![lg(0), lg(1), lg(2), lg(3), lg(4), lg(5), lg(6), lg(7), lg(8), lg(9), lg(10), lg(11), lg(12), lg(13), lg(14), lg(15), lg(16), lg(17), lg(18), lg(19), lg(20), lg(21), lg(22), lg(23), lg(24), lg(25), lg(26), lg(27), lg(28), lg(29), lg(30), lg(31), lg(32), lg(33), lg(34), lg(35), lg(36), lg(37), lg(38), lg(39), lg(40), lg(41), lg(42), lg(43), lg(44), lg(45), lg(46), lg(47), lg(48), lg(49),]; let log = take_log();
    let nat: [u32; 50] = [0u32.wrapping_mul(2654435761), 1u32.wrapping_mul(2654435761), 2u32.wrapping_mul(2654435761), 3u32.wrapping_mul(2654435761), 4u32.wrapping_mul(2654435761), 5u32.wrapping_mul(2654435761), 6u32.wrapping_mul(2654435761), 7u32.wrapping_mul(2654435761), 8u32.wrapping_mul(2654435761), 9u32.wrapping_mul(2654435761), 10u32.wrapping_mul(2654435761), 11u32.wrapping_mul(2654435761), 12u32.wrapping_mul(2654435761), 13u32.wrapping_mul(2654435761), 14u32.wrapping_mul(2654435761), 15u32.wrapping_mul(2654435761), 16u32.wrapping_mul(2654435761), 17u32.wrapping_mul(2654435761), 18u32.wrapping_mul(2654435761), 19u32.wrapping_mul(2654435761), 20u32.wrapping_mul(2654435761), 21u32.wrapping_mul(2654435761), 22u32.wrapping_mul(2654435761), 23u32.wrapping_mul(2654435761), 24u32.wrapping_mul(2654435761), 25u32.wrapping_mul(2654435761), 26u32.wrapping_mul(2654435761), 27u32.wrapping_mul(2654435761), 28u32.wrapping_mul(2654435761), 29u32.wrapping_mul(2654435761), 30u32.wrapping_mul(2654435761), 31u32.wrapping_mul(2654435761), 32u32.wrapping_mul(2654435761), 33u32.wrapping_mul(2654435761), 34u32.wrapping_mul(2654435761), 35u32.wrapping_mul(2654435761), 36u32.wrapping_mul(2654435761), 37u32.wrapping_mul(2654435761), 38u32.wrapping_mul(2654435761), 39u32.wrapping_mul(2654435761), 40u32.wrapping_mul(2654435761), 41u32.wrapping_mul(2654435761), 42u32.wrapping_mul(2654435761), 43u32.wrapping_mul(2654435761), 44u32.wrapping_mul(2654435761), 45u32.wrapping_mul(2654435761), 46u32.wrapping_mul(2654435761), 47u32.wrapping_mul(2654435761), 48u32.wrapping_mul(2654435761), 49u32.wrapping_mul(2654435761)];
    ck!(a.as_slice() == &nat[..], "arr! list of 50: contents {:?} differ from the native array literal", &a.as_slice()[..a.len().min(8)]);
    ck!(log == seq(50), "arr! list of 50: element expressions were evaluated in order {:?}, expected 0..50 once each", &log[..log.len().min(12)]);
    take_log(); let b: Box<GA<u32, N<50>>> = box_arr![lg(0), lg(1), lg(2), lg(3), lg(4), lg(5), lg(6), lg(7), lg(8), lg(9), lg(10), lg(11), lg(12), lg(13), lg(14), lg(15), lg(16), lg(17), lg(18), lg(19), lg(20), lg(21), lg(22), lg(23), lg(24), lg(25), lg(26), lg(27), lg(28), lg(29), lg(30), lg(31), lg(32), lg(33), lg(34), lg(35), lg(36), lg(37), lg(38), lg(39), lg(40), lg(41), lg(42), lg(43), lg(44), lg(45), lg(46), lg(47), lg(48), lg(49),]; let log = take_log();
    ck!(b.as_slice() == &nat[..], "box_arr! list of 50: contents differ from the native array literal");
    ck!(log == seq(50), "box_arr! list of 50: element expressions were evaluated in order {:?}, expected 0..50 once each", &log[..log.len().min(12)]);
    ck!(*b == a, "box_arr! and arr! with the same arguments differ");
    Ok(())
}
const CL_50: GA<u8, N<50>> = arr![1u8, 6u8, 11u8, 16u8, 21u8, 26u8, 31u8, 36u8, 41u8, 46u8, 51u8, 56u8, 61u8, 66u8, 71u8, 76u8, 81u8, 86u8, 91u8, 96u8, 101u8, 106u8, 111u8, 116u8, 121u8, 126u8, 131u8, 136u8, 141u8, 146u8, 151u8, 156u8, 161u8, 166u8, 171u8, 176u8, 181u8, 186u8, 191u8, 196u8, 201u8, 206u8, 211u8, 216u8, 221u8, 226u8, 231u8, 236u8, 241u8, 246u8];
static SL_50: GA<u8, N<50>> = arr![1u8, 6u8, 11u8, 16u8, 21u8, 26u8, 31u8, 36u8, 41u8, 46u8, 51u8, 56u8, 61u8, 66u8, 71u8, 76u8, 81u8, 86u8, 91u8, 96u8, 101u8, 106u8, 111u8, 116u8, 121u8, 126u8, 131u8, 136u8, 141u8, 146u8, 151u8, 156u8, 161u8, 166u8, 171u8, 176u8, 181u8, 186u8, 191u8, 196u8, 201u8, 206u8, 211u8, 216u8, 221u8, 226u8, 231u8, 236u8, 241u8, 246u8,];
const fn cfl_50() -> GA<u8, N<50>> { arr![1u8, 6u8, 11u8, 16u8, 21u8, 26u8, 31u8, 36u8, 41u8, 46u8, 51u8, 56u8, 61u8, 66u8, 71u8, 76u8, 81u8, 86u8, 91u8, 96u8, 101u8, 106u8, 111u8, 116u8, 121u8, 126u8, 131u8, 136u8, 141u8, 146u8, 151u8, 156u8, 161u8, 166u8, 171u8, 176u8, 181u8, 186u8, 191u8, 196u8, 201u8, 206u8, 211u8, 216u8, 221u8, 226u8, 231u8, 236u8, 241u8, 246u8] }
fn case_list_const_50() -> Result<(), String> {
    let nat: [u8; 50] = [1u8, 6u8, 11u8, 16u8, 21u8, 26u8, 31u8, 36u8, 41u8, 46u8, 51u8, 56u8, 61u8, 66u8, 71u8, 76u8, 81u8, 86u8, 91u8, 96u8, 101u8, 106u8, 111u8, 116u8, 121u8, 126u8, 131u8, 136u8, 141u8, 146u8, 151u8, 156u8, 161u8, 166u8, 171u8, 176u8, 181u8, 186u8, 191u8, 196u8, 201u8, 206u8, 211u8, 216u8, 221u8, 226u8, 231u8, 236u8, 241u8, 246u8];
    ck!(CL_50.as_slice() == &nat[..] && SL_50.as_slice() == &nat[..] && cfl_50().as_slice() == &nat[..], "arr! list of 50 in const / static / const fn position differs from the native literal");
    Ok(())
}
fn case_list_51() -> Result<(), String> {
    take_log(); let a: GA<u32, N<51>> = arr![lg(0), lg(1), lg(2), lg(3), lg(4), lg(5), lg(6), lg(7), lg(8), lg(9), lg(10), lg(11), lg(12), lg(13), lg(14), lg(15), lg(16), lg(17), lg(18), lg(19), lg(20), lg(21), lg(22), lg(23), lg(24), lg(25), lg(26), lg(27), lg(28), lg(29), lg(30), lg(31), lg(32), lg(33), lg(34), lg(35), lg(36), lg(37), lg(38), lg(39), lg(40), lg(41), lg(42), lg(43), lg(44), lg(45), lg(46), lg(47), lg(48), lg(49), lg(50)]; let log = take_log();
    let nat: [u32; 51] = [0u32.wrapping_mul(2654435761), 1u32.wrapping_mul(2654435761), 2u32.wrapping_mul(2654435761), 3u32.wrapping_mul(2654435761), 4u32.wrapping_mul(2654435761), 5u32.wrapping_mul(2654435761), 6u32.wrapping_mul(2654435761), 7u32.wrapping_mul(2654435761), 8u32.wrapping_mul(2654435761), 9u32.wrapping_mul(2654435761), 10u32.wrapping_mul(2654435761), 11u32.wrapping_mul(2654435761), 12u32.wrapping_mul(2654435761), 13u32.wrapping_mul(2654435761), 14u32.wrapping_mul(2654435761), 15u32.wrapping_mul(2654435761), 16u32.wrapping_mul(2654435761), 17u32.wrapping_mul(2654435761), 18u32.wrapping_mul(2654435761), 19u32.wrapping_mul(2654435761), 20u32.wrapping_mul(2654435761), 21u32.wrapping_mul(2654435761), 22u32.wrapping_mul(2654435761), 23u32.wrapping_mul(2654435761), 24u32.wrapping_mul(2654435761), 25u32.wrapping_mul(2654435761), 26u32.wrapping_mul(2654435761), 27u32.wrapping_mul(2654435761), 28u32.wrapping_mul(2654435761), 29u32.wrapping_mul(2654435761), 30u32.wrapping_mul(2654435761), 31u32.wrapping_mul(2654435761), 32u32.wrapping_mul(2654435761), 33u32.wrapping_mul(2654435761), 34u32.wrapping_mul(2654435761), 35u32.wrapping_mul(2654435761), 36u32.wrapping_mul(2654435761), 37u32.wrapping_mul(2654435761), 38u32.wrapping_mul(2654435761), 39u32.wrapping_mul(2654435761), 40u32.wrapping_mul(2654435761), 41u32.wrapping_mul(2654435761), 42u32.wrapping_mul(2654435761), 43u32.wrapping_mul(2654435761), 44u32.wrapping_mul(2654435761), 45u32.wrapping_mul(2654435761), 46u32.wrapping_mul(2654435761), 47u32.wrapping_mul(2654435761), 48u32.wrapping_mul(2654435761), 49u32.wrapping_mul(2654435761), 50u32.wrapping_mul(2654435761)];
    ck!(a.as_slice() == &nat[..], "arr! list of 51: contents {:?} differ from the native array literal", &a.as_slice()[..a.len().min(8)]);
    ck!(log == seq(51), "arr! list of 51: element expressions were evaluated in order {:?}, expected 0..51 once each", &log[..log.len().min(12)]);
    take_log(); let b: Box<GA<u32, N<51>>> = box_arr![lg(0), lg(1), lg(2), lg(3), lg(4), lg(5), lg(6), lg(7), lg(8), lg(9), lg(10), lg(11), lg(12), lg(13), lg(14), lg(15), lg(16), lg(17), lg(18), lg(19), lg(20), lg(21), lg(22), lg(23), lg(24), lg(25), lg(26), lg(27), lg(28), lg(29), lg(30), lg(31), lg(32), lg(33), lg(34), lg(35), lg(36), lg(37), lg(38), lg(39), lg(40), lg(41), lg(42), lg(43), lg(44), lg(45), lg(46), lg(47), lg(48), lg(49), lg(50)]; let log = take_log();
    ck!(b.as_slice() == &nat[..], "box_arr! list of 51: contents differ from the native array literal");
    ck!(log == seq(51), "box_arr! list of 51: element expressions were evaluated in order {:?}, expected 0..51 once each", &log[..log.len().min(12)]);
    ck!(*b == a, "box_arr! and arr! with the same arguments differ");
    Ok(())
}
fn case_list_51_trailing() -> Result<(), String> {
    take_log(); let a: GA<u32, N<51>> = arr![lg(0), lg(1), lg(2), lg(3), lg(4), lg(5), lg(6), lg(7), lg(8), lg(9), lg(10), lg(11), lg(12), lg(13), lg(14), lg(15), lg(16), lg(17), lg(18), lg(19), lg(20), lg(21), lg(22), lg(23), lg(24), lg(25), lg(26), lg(27), lg(28), lg(29), lg(30), lg(31), lg(32), lg(33), lg(34), lg(35), lg(36), lg(37), lg(38), lg(39), lg(40), lg(41), lg(42), lg(43), lg(44), lg(45), lg(46), lg(47), lg(48), lg(49), lg(50),]; let log = take_log();
    let nat: [u32; 51] = [0u32.wrapping_mul(2654435761), 1u32.wrapping_mul(2654435761), 2u32.wrapping_mul(2654435761), 3u32.wrapping_mul(2654435761), 4u32.wrapping_mul(2654435761), 5u32.wrapping_mul(2654435761), 6u32.wrapping_mul(2654435761), 7u32.wrapping_mul(2654435761), 8u32.wrapping_mul(2654435761), 9u32.wrapping_mul(2654435761), 10u32.wrapping_mul(2654435761), 11u32.wrapping_mul(2654435761), 12u32.wrapping_mul(2654435761), 13u32.wrapping_mul(2654435761), 14u32.wrapping_mul(2654435761), 15u32.wrapping_mul(2654435761), 16u32.wrapping_mul(2654435761), 17u32.wrapping_mul(2654435761), 18u32.wrapping_mul(2654435761), 19u32.wrapping_mul(2654435761), 20u32.wrapping_mul(2654435761), 21u32.wrapping_mul(2654435761), 22u32.wrapping_mul(2654435761), 23u32.wrapping_mul(2654435761), 24u32.wrapping_mul(2654435761), 25u32.wrapping_mul(2654435761), 26u32.wrapping_mul(2654435761), 27u32.wrapping_mul(2654435761), 28u32.wrapping_mul(2654435761), 29u32.wrapping_mul(2654435761), 30u32.wrapping_mul(2654435761), 31u32.wrapping_mul(2654435761), 32u32.wrapping_mul(2654435761), 33u32.wrapping_mul(2654435761), 34u32.wrapping_mul(2654435761), 35u32.wrapping_mul(2654435761), 36u32.wrapping_mul(2654435761), 37u32.wrapping_mul(2654435761), 38u32.wrapping_mul(2654435761), 39u32.wrapping_mul(2654435761), 40u32.wrapping_mul(2654435761), 41u32.wrapping_mul(2654435761), 42u32.wrapping_mul(2654435761), 43u32.wrapping_mul(2654435761), 44u32.wrapping_mul(2654435761), 45u32.wrapping_mul(2654435761), 46u32.wrapping_mul(2654435761), 47u32.wrapping_mul(2654435761), 48u32.wrapping_mul(2654435761), 49u32.wrapping_mul(2654435761), 50u32.wrapping_mul(2654435761)];
    ck!(a.as_slice() == &nat[..], "arr! list of 51: contents {:?} differ from the native array literal", &a.as_slice()[..a.len().min(8)]);
    ck!(log == seq(51), "arr! list of 51: element expressions were evaluated in order {:?}, expected 0..51 once each", &log[..log.len().min(12)]);
    take_log(); let b: Box<GA<u32, N<51>>> = box_arr![lg(0), lg(1), lg(2), lg(3), lg(4), lg(5), lg(6), lg(7), lg(8), lg(9), lg(10), lg(11), lg(12), lg(13), lg(14), lg(15), lg(16), lg(17), lg(18), lg(19), lg(20), lg(21), lg(22), lg(23), lg(24), lg(25), lg(26), lg(27), lg(28), lg(29), lg(30), lg(31), lg(32), lg(33), lg(34), lg(35), lg(36), lg(37), lg(38), lg(39), lg(40), lg(41), lg(42), lg(43), lg(44), lg(45), lg(46), lg(47), lg(48), lg(49), lg(50),]; let log = take_log();
    ck!(b.as_slice() == &nat[..], "box_arr! list of 51: contents differ from the native array literal");
    ck!(log == seq(51), "box_arr! list of 51: element expressions were evaluated in order {:?}, expected 0..51 once each", &log[..log.len().min(12)]);
    ck!(*b == a, "box_arr! and arr! with the same arguments differ");
    Ok(())
}
const CL_51: GA<u8, N<51>> = arr![1u8, 6u8, 11u8, 16u8, 21u8, 26u8, 31u8, 36u8, 41u8, 46u8, 51u8, 56u8, 61u8, 66u8, 71u8, 76u8, 81u8, 86u8, 91u8, 96u8, 101u8, 106u8, 111u8, 116u8, 121u8, 126u8, 131u8, 136u8, 141u8, 146u8, 151u8, 156u8, 161u8, 166u8, 171u8, 176u8, 181u8, 186u8, 191u8, 196u8, 201u8, 206u8, 211u8, 216u8, 221u8, 226u8, 231u8, 236u8, 241u8, 246u8, 0u8];
static SL_51: GA<u8, N<51>> = arr![1u8, 6u8, 11u8, 16u8, 21u8, 26u8, 31u8, 36u8, 41u8, 46u8, 51u8, 56u8, 61u8, 66u8, 71u8, 76u8, 81u8, 86u8, 91u8, 96u8, 101u8, 106u8, 111u8, 116u8, 121u8, 126u8, 131u8, 136u8, 141u8, 146u8, 151u8, 156u8, 161u8, 166u8, 171u8, 176u8, 181u8, 186u8, 191u8, 196u8, 201u8, 206u8, 211u8, 216u8, 221u8, 226u8, 231u8, 236u8, 241u8, 246u8, 0u8,];
const fn cfl_51() -> GA<u8, N<51>> { arr![1u8, 6u8, 11u8, 16u8, 21u8, 26u8, 31u8, 36u8, 41u8, 46u8, 51u8, 56u8, 61u8, 66u8, 71u8, 76u8, 81u8, 86u8, 91u8, 96u8, 101u8, 106u8, 111u8, 116u8, 121u8, 126u8, 131u8, 136u8, 141u8, 146u8, 151u8, 156u8, 161u8, 166u8, 171u8, 176u8, 181u8, 186u8, 191u8, 196u8, 201u8, 206u8, 211u8, 216u8, 221u8, 226u8, 231u8, 236u8, 241u8, 246u8, 0u8] }
fn case_list_const_51() -> Result<(), String> {
    let nat: [u8; 51] = [1u8, 6u8, 11u8, 16u8, 21u8, 26u8, 31u8, 36u8, 41u8, 46u8, 51u8, 56u8, 61u8, 66u8, 71u8, 76u8, 81u8, 86u8, 91u8, 96u8, 101u8, 106u8, 111u8, 116u8, 121u8, 126u8, 131u8, 136u8, 141u8, 146u8, 151u8, 156u8, 161u8, 166u8, 171u8, 176u8, 181u8, 186u8, 191u8, 196u8, 201u8, 206u8, 211u8, 216u8, 221u8, 226u8, 231u8, 236u8, 241u8, 246u8, 0u8];
    ck!(CL_51.as_slice() == &nat[..] && SL_51.as_slice() == &nat[..] && cfl_51().as_slice() == &nat[..], "arr! list of 51 in const / static / const fn position differs from the native literal");
    Ok(())
}
fn case_list_52() -> Result<(), String> {
    take_log(); let a: GA<u32, N<52>> = arr![lg(0), lg(1), lg(2), lg(3), lg(4), lg(5), lg(6), lg(7), lg(8), lg(9), lg(10), lg(11), lg(12), lg(13), lg(14), lg(15), lg(16), lg(17), lg(18), lg(19), lg(20), lg(21), lg(22), lg(23), lg(24), lg(25), lg(26), lg(27), lg(28), lg(29), lg(30), lg(31), lg(32), lg(33), lg(34), lg(35), lg(36), lg(37), lg(38), lg(39), lg(40), lg(41), lg(42), lg(43), lg(44), lg(45), lg(46), lg(47), lg(48), lg(49), lg(50), lg(51)]; let log = take_log();
    let nat: [u32; 52] = [0u32.wrapping_mul(2654435761), 1u32.wrapping_mul(2654435761), 2u32.wrapping_mul(2654435761), 3u32.wrapping_mul(2654435761), 4u32.wrapping_mul(2654435761), 5u32.wrapping_mul(2654435761), 6u32.wrapping_mul(2654435761), 7u32.wrapping_mul(2654435761), 8u32.wrapping_mul(2654435761), 9u32.wrapping_mul(2654435761), 10u32.wrapping_mul(2654435761), 11u32.wrapping_mul(2654435761), 12u32.wrapping_mul(2654435761), 13u32.wrapping_mul(2654435761), 14u32.wrapping_mul(2654435761), 15u32.wrapping_mul(2654435761), 16u32.wrapping_mul(2654435761), 17u32.wrapping_mul(2654435761), 18u32.wrapping_mul(2654435761), 19u32.wrapping_mul(2654435761), 20u32.wrapping_mul(2654435761), 21u32.wrapping_mul(2654435761), 22u32.wrapping_mul(2654435761), 23u32.wrapping_mul(2654435761), 24u32.wrapping_mul(2654435761), 25u32.wrapping_mul(2654435761), 26u32.wrapping_mul(2654435761), 27u32.wrapping_mul(2654435761), 28u32.wrapping_mul(2654435761), 29u32.wrapping_mul(2654435761), 30u32.wrapping_mul(2654435761), 31u32.wrapping_mul(2654435761), 32u32.wrapping_mul(2654435761), 33u32.wrapping_mul(2654435761), 34u32.wrapping_mul(2654435761), 35u32.wrapping_mul(2654435761), 36u32.wrapping_mul(2654435761), 37u32.wrapping_mul(2654435761), 38u32.wrapping_mul(2654435761), 39u32.wrapping_mul(2654435761), 40u32.wrapping_mul(2654435761), 41u32.wrapping_mul(2654435761), 42u32.wrapping_mul(2654435761), 43u32.wrapping_mul(2654435761), 44u32.wrapping_mul(2654435761), 45u32.wrapping_mul(2654435761), 46u32.wrapping_mul(2654435761), 47u32.wrapping_mul(2654435761), 48u32.wrapping_mul(2654435761), 49u32.wrapping_mul(2654435761), 50u32.wrapping_mul(2654435761), 51u32.wrapping_mul(2654435761)];
    ck!(a.as_slice() == &nat[..], "arr! list of 52: contents {:?} differ from the native array literal", &a.as_slice()[..a.len().min(8)]);
    ck!(log == seq(52), "arr! list of 52: element expressions were evaluated in order {:?}, expected 0..52 once each", &log[..log.len().min(12)]);
    take_log(); let b: Box<GA<u32, N<52>>> = box_arr![lg(0), lg(1), lg(2), lg(3), lg(4), lg(5), lg(6), lg(7), lg(8), lg(9), lg(10), lg(11), lg(12), lg(13), lg(14), lg(15), lg(16), lg(17), lg(18), lg(19), lg(20), lg(21), lg(22), lg(23), lg(24), lg(25), lg(26), lg(27), lg(28), lg(29), lg(30), lg(31), lg(32), lg(33), lg(34), lg(35), lg(36), lg(37), lg(38), lg(39), lg(40), lg(41), lg(42), lg(43), lg(44), lg(45), lg(46), lg(47), lg(48), lg(49), lg(50), lg(51)]; let log = take_log();
    ck!(b.as_slice() == &nat[..], "box_arr! list of 52: contents differ from the native array literal");
    ck!(log == seq(52), "box_arr! list of 52: element expressions were evaluated in order {:?}, expected 0..52 once each", &log[..log.len().min(12)]);
    ck!(*b == a, "box_arr! and arr! with the same arguments differ");
    Ok(())
}
fn case_list_52_trailing() -> Result<(), String> {
    take_log(); let a: GA<u32, N<52>> = arr![lg(0), lg(1), lg(2), lg(3), lg(4), lg(5), lg(6), lg(7), lg(8), lg(9), lg(10), lg(11), lg(12), lg(13), lg(14), lg(15), lg(16), lg(17), lg(18), lg(19), lg(20), lg(21), lg(22), lg(23), lg(24), lg(25), lg(26), lg(27), lg(28), lg(29), lg(30), lg(31), lg(32), lg(33), lg(34), lg(35), lg(36), lg(37), lg(38), lg(39), lg(40), lg(41), lg(42), lg(43), lg(44), lg(45), lg(46), lg(47), lg(48), lg(49), lg(50), lg(51),]; let log = take_log();
    let nat: [u32; 52] = [0u32.wrapping_mul(2654435761), 1u32.wrapping_mul(2654435761), 2u32.wrapping_mul(2654435761), 3u32.wrapping_mul(2654435761), 4u32.wrapping_mul(2654435761), 5u32.wrapping_mul(2654435761), 6u32.wrapping_mul(2654435761), 7u32.wrapping_mul(2654435761), 8u32.wrapping_mul(2654435761), 9u32.wrapping_mul(2654435761), 10u32.wrapping_mul(2654435761), 11u32.wrapping_mul(2654435761), 12u32.wrapping_mul(2654435761), 13u32.wrapping_mul(2654435761), 14u32.wrapping_mul(2654435761), 15u32.wrapping_mul(2654435761), 16u32.wrapping_mul(2654435761), 17u32.wrapping_mul(2654435761), 18u32.wrapping_mul(2654435761), 19u32.wrapping_mul(2654435761), 20u32.wrapping_mul(2654435761), 21u32.wrapping_mul(2654435761), 22u32.wrapping_mul(2654435761), 23u32.wrapping_mul(2654435761), 24u32.wrapping_mul(2654435761), 25u32.wrapping_mul(2654435761), 26u32.wrapping_mul(2654435761), 27u32.wrapping_mul(2654435761), 28u32.wrapping_mul(2654435761), 29u32.wrapping_mul(2654435761), 30u32.wrapping_mul(2654435761), 31u32.wrapping_mul(2654435761), 32u32.wrapping_mul(2654435761), 33u32.wrapping_mul(2654435761), 34u32.wrapping_mul(2654435761), 35u32.wrapping_mul(2654435761), 36u32.wrapping_mul(2654435761), 37u32.wrapping_mul(2654435761), 38u32.wrapping_mul(2654435761), 39u32.wrapping_mul(2654435761), 40u32.wrapping_mul(2654435761), 41u32.wrapping_mul(2654435761), 42u32.wrapping_mul(2654435761), 43u32.wrapping_mul(2654435761), 44u32.wrapping_mul(2654435761), 45u32.wrapping_mul(2654435761), 46u32.wrapping_mul(2654435761), 47u32.wrapping_mul(2654435761), 48u32.wrapping_mul(2654435761), 49u32.wrapping_mul(2654435761), 50u32.wrapping_mul(2654435761), 51u32.wrapping_mul(2654435761)];
    ck!(a.as_slice() == &nat[..], "arr! list of 52: contents {:?} differ from the native array literal", &a.as_slice()[..a.len().min(8)]);
    ck!(log == seq(52), "arr! list of 52: element expressions were evaluated in order {:?}, expected 0..52 once each", &log[..log.len().min(12)]);
    take_log(); let b: Box<GA<u32, N<52>>> = box_arr![lg(0), lg(1), lg(2), lg(3), lg(4), lg(5), lg(6), lg(7), lg(8), lg(9), lg(10), lg(11), lg(12), lg(13), lg(14), lg(15), lg(16), lg(17), lg(18), lg(19), lg(20), lg(21), lg(22), lg(23), lg(24), lg(25), lg(26), lg(27), lg(28), lg(29), lg(30), lg(31), lg(32), lg(33), lg(34), lg(35), lg(36), lg(37), lg(38), lg(39), lg(40), lg(41), lg(42), lg(43), lg(44), lg(45), lg(46), lg(47), lg(48), lg(49), lg(50), lg(51),]; let log = take_log();
    ck!(b.as_slice() == &nat[..], "box_arr! list of 52: contents differ from the native array literal");
    ck!(log == seq(52), "box_arr! list of 52: element expressions were evaluated in order {:?}, expected 0..52 once each", &log[..log.len().min(12)]);
    ck!(*b == a, "box_arr! and arr! with the same arguments differ");
    Ok(())
}
const CL_52: GA<u8, N<52>> = arr![1u8, 6u8, 11u8, 16u8, 21u8, 26u8, 31u8, 36u8, 41u8, 46u8, 51u8, 56u8, 61u8, 66u8, 71u8, 76u8, 81u8, 86u8, 91u8, 96u8, 101u8, 106u8, 111u8, 116u8, 121u8, 126u8, 131u8, 136u8, 141u8, 146u8, 151u8, 156u8, 161u8, 166u8, 171u8, 176u8, 181u8, 186u8, 191u8, 196u8, 201u8, 206u8, 211u8, 216u8, 221u8, 226u8, 231u8, 236u8, 241u8, 246u8, 0u8, 5u8];
static SL_52: GA<u8, N<52>> = arr![1u8, 6u8, 11u8, 16u8, 21u8, 26u8, 31u8, 36u8, 41u8, 46u8, 51u8, 56u8, 61u8, 66u8, 71u8, 76u8, 81u8, 86u8, 91u8, 96u8, 101u8, 106u8, 111u8, 116u8, 121u8, 126u8, 131u8, 136u8, 141u8, 146u8, 151u8, 156u8, 161u8, 166u8, 171u8, 176u8, 181u8, 186u8, 191u8, 196u8, 201u8, 206u8, 211u8, 216u8, 221u8, 226u8, 231u8, 236u8, 241u8, 246u8, 0u8, 5u8,];
const fn cfl_52() -> GA<u8, N<52>> { arr![1u8, 6u8, 11u8, 16u8, 21u8, 26u8, 31u8, 36u8, 41u8, 46u8, 51u8, 56u8, 61u8, 66u8, 71u8, 76u8, 81u8, 86u8, 91u8, 96u8, 101u8, 106u8, 111u8, 116u8, 121u8, 126u8, 131u8, 136u8, 141u8, 146u8, 151u8, 156u8, 161u8, 166u8, 171u8, 176u8, 181u8, 186u8, 191u8, 196u8, 201u8, 206u8, 211u8, 216u8, 221u8, 226u8, 231u8, 236u8, 241u8, 246u8, 0u8, 5u8] }
fn case_list_const_52() -> Result<(), String> {
    let nat: [u8; 52] = [1u8, 6u8, 11u8, 16u8, 21u8, 26u8, 31u8, 36u8, 41u8, 46u8, 51u8, 56u8, 61u8, 66u8, 71u8, 76u8, 81u8, 86u8, 91u8, 96u8, 101u8, 106u8, 111u8, 116u8, 121u8, 126u8, 131u8, 136u8, 141u8, 146u8, 151u8, 156u8, 161u8, 166u8, 171u8, 176u8, 181u8, 186u8, 191u8, 196u8, 201u8, 206u8, 211u8, 216u8, 221u8, 226u8, 231u8, 236u8, 241u8, 246u8, 0u8, 5u8];
    ck!(CL_52.as_slice() == &nat[..] && SL_52.as_slice() == &nat[..] && cfl_52().as_slice() == &nat[..], "arr! list of 52 in const / static / const fn position differs from the native literal");
    Ok(())
}
fn case_list_53() -> Result<(), String> {
    take_log(); let a: GA<u32, N<53>> = arr![lg(0), lg(1), lg(2), lg(3), lg(4), lg(5), lg(6), lg(7), lg(8), lg(9), lg(10), lg(11), lg(12), lg(13), lg(14), lg(15), lg(16), lg(17), lg(18), lg(19), lg(20), lg(21), lg(22), lg(23), lg(24), lg(25), lg(26), lg(27), lg(28), lg(29), lg(30), lg(31), lg(32), lg(33), lg(34), lg(35), lg(36), lg(37), lg(38), lg(39), lg(40), lg(41), lg(42), lg(43), lg(44), lg(45), lg(46), lg(47), lg(48), lg(49), lg(50), lg(51), lg(52)]; let log = take_log();
    let nat: [u32; 53] = [0u32.wrapping_mul(2654435761), 1u32.wrapping_mul(2654435761), 2u32.wrapping_mul(2654435761), 3u32.wrapping_mul(2654435761), 4u32.wrapping_mul(2654435761), 5u32.wrapping_mul(2654435761), 6u32.wrapping_mul(2654435761), 7u32.wrapping_mul(2654435761), 8u32.wrapping_mul(2654435761), 9u32.wrapping_mul(2654435761), 10u32.wrapping_mul(2654435761), 11u32.wrapping_mul(2654435761), 12u32.wrapping_mul(2654435761), 13u32.wrapping_mul(2654435761), 14u32.wrapping_mul(2654435761), 15u32.wrapping_mul(2654435761), 16u32.wrapping_mul(2654435761), 17u32.wrapping_mul(2654435761), 18u32.wrapping_mul(2654435761), 19u32.wrapping_mul(2654435761), 20u32.wrapping_mul(2654435761), 21u32.wrapping_mul(2654435761), 22u32.wrapping_mul(2654435761), 23u32.wrapping_mul(2654435761), 24u32.wrapping_mul(2654435761), 25u32.wrapping_mul(2654435761), 26u32.wrapping_mul(2654435761), 27u32.wrapping_mul(2654435761), 28u32.wrapping_mul(2654435761), 29u32.wrapping_mul(2654435761), 30u32.wrapping_mul(2654435761), 31u32.wrapping_mul(2654435761), 32u32.wrapping_mul(2654435761), 33u32.wrapping_mul(2654435761), 34u32.wrapping_mul(2654435761), 35u32.wrapping_mul(2654435761), 36u32.wrapping_mul(2654435761), 37u32.wrapping_mul(2654435761), 38u32.wrapping_mul(2654435761), 39u32.wrapping_mul(2654435761), 40u32.wrapping_mul(2654435761), 41u32.wrapping_mul(2654435761), 42u32.wrapping_mul(2654435761), 43u32.wrapping_mul(2654435761), 44u32.wrapping_mul(2654435761), 45u32.wrapping_mul(2654435761), 46u32.wrapping_mul(2654435761), 47u32.wrapping_mul(2654435761), 48u32.wrapping_mul(2654435761), 49u32.wrapping_mul(2654435761), 50u32.wrapping_mul(2654435761), 51u32.wrapping_mul(2654435761), 52u32.wrapping_mul(2654435761)];
    ck!(a.as_slice() == &nat[..], "arr! list of 53: contents {:?} differ from the native array literal", &a.as_slice()[..a.len().min(8)]);
    ck!(log == seq(53), "arr! list of 53: element expressions were evaluated in order {:?}, expected 0..53 once each", &log[..log.len().min(12)]);
    take_log(); let b: Box<GA<u32, N<53>>> = box_arr![lg(0), lg(1), lg(2), lg(3), lg(4), lg(5), lg(6), lg(7), lg(8), lg(9), lg(10), lg(11), lg(12), lg(13), lg(14), lg(15), lg(16), lg(17), lg(18), lg(19), lg(20), lg(21), lg(22), lg(23), lg(24), lg(25), lg(26), lg(27), lg(28), lg(29), lg(30), lg(31), lg(32), lg(33), lg(34), lg(35), lg(36), lg(37), lg(38), lg(39), lg(40), lg(41), lg(42), lg(43), lg(44), lg(45), lg(46), lg(47), lg(48), lg(49), lg(50), lg(51), lg(52)]; let log = take_log();
    ck!(b.as_slice() == &nat[..], "box_arr! list of 53: contents differ from the native array literal");
    ck!(log == seq(53), "box_arr! list of 53: element expressions were evaluated in order {:?}, expected 0..53 once each", &log[..log.len().min(12)]);
    ck!(*b == a, "box_arr! and arr! with the same arguments differ");
    Ok(())
}
fn case_list_53_trailing() -> Result<(), String> {
    take_log(); let a: GA<u32, N<53>> = arr![lg(0), lg(1), lg(2), lg(3), lg(4), lg(5), lg(6), lg(7), lg(8), lg(9), lg(10), lg(11), lg(12), lg(13), lg(14), lg(15), lg(16), lg(17), lg(18), lg(19), lg(20), lg(21), lg(22), lg(23), lg(24), lg(25), lg(26), lg(27), lg(28), lg(29), lg(30), lg(31), lg(32), lg(33), lg(34), lg(35), lg(36), lg(37), lg(38), lg(39), lg(40), lg(41), lg(42), lg(43), lg(44), lg(45), lg(46), lg(47), lg(48), lg(49), lg(50), lg(51), lg(52),]; let log = take_log();
    let nat: [u32; 53] = [0u32.wrapping_mul(2654435761), 1u32.wrapping_mul(2654435761), 2u32.wrapping_mul(2654435761), 3u32.wrapping_mul(2654435761), 4u32.wrapping_mul(2654435761), 5u32.wrapping_mul(2654435761), 6u32.wrapping_mul(2654435761), 7u32.wrapping_mul(2654435761), 8u32.wrapping_mul(2654435761), 9u32.wrapping_mul(2654435761), 10u32.wrapping_mul(2654435761), 11u32.wrapping_mul(2654435761), 12u32.wrapping_mul(2654435761), 13u32.wrapping_mul(2654435761), 14u32.wrapping_mul(2654435761), 15u32.wrapping_mul(2654435761), 16u32.wrapping_mul(2654435761), 17u32.wrapping_mul(2654435761), 18u32.wrapping_mul(2654435761), 19u32.wrapping_mul(2654435761), 20u32.wrapping_mul(2654435761), 21u32.wrapping_mul(2654435761), 22u32.wrapping_mul(2654435761), 23u32.wrapping_mul(2654435761), 24u32.wrapping_mul(2654435761), 25u32.wrapping_mul(2654435761), 26u32.wrapping_mul(2654435761), 27u32.wrapping_mul(2654435761), 28u32.wrapping_mul(2654435761), 29u32.wrapping_mul(2654435761), 30u32.wrapping_mul(2654435761), 31u32.wrapping_mul(2654435761), 32u32.wrapping_mul(2654435761), 33u32.wrapping_mul(2654435761), 34u32.wrapping_mul(2654435761), 35u32.wrapping_mul(2654435761), 36u32.wrapping_mul(2654435761), 37u32.wrapping_mul(2654435761), 38u32.wrapping_mul(2654435761), 39u32.wrapping_mul(2654435761), 40u32.wrapping_mul(2654435761), 41u32.wrapping_mul(2654435761), 42u32.wrapping_mul(2654435761), 43u32.wrapping_mul(2654435761), 44u32.wrapping_mul(2654435761), 45u32.wrapping_mul(2654435761), 46u32.wrapping_mul(2654435761), 47u32.wrapping_mul(2654435761), 48u32.wrapping_mul(2654435761), 49u32.wrapping_mul(2654435761), 50u32.wrapping_mul(2654435761), 51u32.wrapping_mul(2654435761), 52u32.wrapping_mul(2654435761)];
    ck!(a.as_slice() == &nat[..], "arr! list of 53: contents {:?} differ from the native array literal", &a.as_slice()[..a.len().min(8)]);
    ck!(log == seq(53), "arr! list of 53: element expressions were evaluated in order {:?}, expected 0..53 once each", &log[..log.len().min(12)]);
    take_log(); let b: Box<GA<u32, N<53>>> = box_arr![lg(0), lg(1), lg(2), lg(3), lg(4), lg(5), lg(6), lg(7), lg(8), lg(9), lg(10), lg(11), lg(12), lg(13), lg(14), lg(15), lg(16), lg(17), lg(18), lg(19), lg(20), lg(21), lg(22), lg(23), lg(24), lg(25), lg(26), lg(27), lg(28), lg(29), lg(30), lg(31), lg(32), lg(33), lg(34), lg(35), lg(36), lg(37), lg(38), lg(39), lg(40), lg(41), lg(42), lg(43), lg(44), lg(45), lg(46), lg(47), lg(48), lg(49), lg(50), lg(51), lg(52),]; let log = take_log();
    ck!(b.as_slice() == &nat[..], "box_arr! list of 53: contents differ from the native array literal");
    ck!(log == seq(53), "box_arr! list of 53: element expressions were evaluated in order {:?}, expected 0..53 once each", &log[..log.len().min(12)]);
    ck!(*b == a, "box_arr! and arr! with the same arguments differ");
    Ok(())
}
const CL_53: GA<u8, N<53>> = arr![1u8, 6u8, 11u8, 16u8, 21u8, 26u8, 31u8, 36u8, 41u8, 46u8, 51u8, 56u8, 61u8, 66u8, 71u8, 76u8, 81u8, 86u8, 91u8, 96u8, 101u8, 106u8, 111u8, 116u8, 121u8, 126u8, 131u8, 136u8, 141u8, 146u8, 151u8, 156u8, 161u8, 166u8, 171u8, 176u8, 181u8, 186u8, 191u8, 196u8, 201u8, 206u8, 211u8, 216u8, 221u8, 226u8, 231u8, 236u8, 241u8, 246u8, 0u8, 5u8, 10u8];
static SL_53: GA<u8, N<53>> = arr![1u8, 6u8, 11u8, 16u8, 21u8, 26u8, 31u8, 36u8, 41u8, 46u8, 51u8, 56u8, 61u8, 66u8, 71u8, 76u8, 81u8, 86u8, 91u8, 96u8, 101u8, 106u8, 111u8, 116u8, 121u8, 126u8, 131u8, 136u8, 141u8, 146u8, 151u8, 156u8, 161u8, 166u8, 171u8, 176u8, 181u8, 186u8, 191u8, 196u8, 201u8, 206u8, 211u8, 216u8, 221u8, 226u8, 231u8, 236u8, 241u8, 246u8, 0u8, 5u8, 10u8,];
const fn cfl_53() -> GA<u8, N<53>> { arr![1u8, 6u8, 11u8, 16u8, 21u8, 26u8, 31u8, 36u8, 41u8, 46u8, 51u8, 56u8, 61u8, 66u8, 71u8, 76u8, 81u8, 86u8, 91u8, 96u8, 101u8, 106u8, 111u8, 116u8, 121u8, 126u8, 131u8, 136u8, 141u8, 146u8, 151u8, 156u8, 161u8, 166u8, 171u8, 176u8, 181u8, 186u8, 191u8, 196u8, 201u8, 206u8, 211u8, 216u8, 221u8, 226u8, 231u8, 236u8, 241u8, 246u8, 0u8, 5u8, 10u8] }
fn case_list_const_53() -> Result<(), String> {
    let nat: [u8; 53] = [1u8, 6u8, 11u8, 16u8, 21u8, 26u8, 31u8, 36u8, 41u8, 46u8, 51u8, 56u8, 61u8, 66u8, 71u8, 76u8, 81u8, 86u8, 91u8, 96u8, 101u8, 106u8, 111u8, 116u8, 121u8, 126u8, 131u8, 136u8, 141u8, 146u8, 151u8, 156u8, 161u8, 166u8, 171u8, 176u8, 181u8, 186u8, 191u8, 196u8, 201u8, 206u8, 211u8, 216u8, 221u8, 226u8, 231u8, 236u8, 241u8, 246u8, 0u8, 5u8, 10u8];
    ck!(CL_53.as_slice() == &nat[..] && SL_53.as_slice() == &nat[..] && cfl_53().as_slice() == &nat[..], "arr! list of 53 in const / static / const fn position differs from the native literal");
    Ok(())
}
fn case_list_54() -> Result<(), String> {
    take_log(); let a: GA<u32, N<54>> = arr![lg(0), lg(1), lg(2), lg(3), lg(4), lg(5), lg(6), lg(7), lg(8), lg(9), lg(10), lg(11), lg(12), lg(13), lg(14), lg(15), lg(16), lg(17), lg(18), lg(19), lg(20), lg(21), lg(22), lg(23), lg(24), lg(25), lg(26), lg(27), lg(28), lg(29), lg(30), lg(31), lg(32), lg(33), lg(34), lg(35), lg(36), lg(37), lg(38), lg(39), lg(40), lg(41), lg(42), lg(43), lg(44), lg(45), lg(46), lg(47), lg(48), lg(49), lg(50), lg(51), lg(52), lg(53)]; let log = take_log();
    let nat: [u32; 54] = [0u32.wrapping_mul(2654435761), 1u32.wrapping_mul(2654435761), 2u32.wrapping_mul(2654435761), 3u32.wrapping_mul(2654435761), 4u32.wrapping_mul(2654435761), 5u32.wrapping_mul(2654435761), 6u32.wrapping_mul(2654435761), 7u32.wrapping_mul(2654435761), 8u32.wrapping_mul(2654435761), 9u32.wrapping_mul(2654435761), 10u32.wrapping_mul(2654435761), 11u32.wrapping_mul(2654435761), 12u32.wrapping_mul(2654435761), 13u32.wrapping_mul(2654435761), 14u32.wrapping_mul(2654435761), 15u32.wrapping_mul(2654435761), 16u32.wrapping_mul(2654435761), 17u32.wrapping_mul(2654435761), 18u32.wrapping_mul(2654435761), 19u32.wrapping_mul(2654435761), 20u32.wrapping_mul(2654435761), 21u32.wrapping_mul(2654435761), 22u32.wrapping_mul(2654435761), 23u32.wrapping_mul(2654435761), 24u32.wrapping_mul(2654435761), 25u32.wrapping_mul(2654435761), 26u32.wrapping_mul(2654435761), 27u32.wrapping_mul(2654435761), 28u32.wrapping_mul(2654435761), 29u32.wrapping_mul(2654435761), 30u32.wrapping_mul(2654435761), 31u32.wrapping_mul(2654435761), 32u32.wrapping_mul(2654435761), 33u32.wrapping_mul(2654435761), 34u32.wrapping_mul(2654435761), 35u32.wrapping_mul(2654435761), 36u32.wrapping_mul(2654435761), 37u32.wrapping_mul(2654435761), 38u32.wrapping_mul(2654435761), 39u32.wrapping_mul(2654435761), 40u32.wrapping_mul(2654435761), 41u32.wrapping_mul(2654435761), 42u32.wrapping_mul(2654435761), 43u32.wrapping_mul(2654435761), 44u32.wrapping_mul(2654435761), 45u32.wrapping_mul(2654435761), 46u32.wrapping_mul(2654435761), 47u32.wrapping_mul(2654435761), 48u32.wrapping_mul(2654435761), 49u32.wrapping_mul(2654435761), 50u32.wrapping_mul(2654435761), 51u32.wrapping_mul(2654435761), 52u32.wrapping_mul(2654435761), 53u32.wrapping_mul(2654435761)];
    ck!(a.as_slice() == &nat[..], "arr! list of 54: contents {:?} differ from the native array literal", &a.as_slice()[..a.len().min(8)]);
    ck!(log == seq(54), "arr! list of 54: element expressions were evaluated in order {:?}, expected 0..54 once each", &log[..log.len().min(12)]);
    take_log(); let b: Box<GA<u32, N<54>>> = box_arr![lg(0), lg(1), lg(2), lg(3), lg(4), lg(5), lg(6), lg(7), lg(8), lg(9), lg(10), lg(11), lg(12), lg(13), lg(14), lg(15), lg(16), lg(17), lg(18), lg(19), lg(20), lg(21), lg(22), lg(23), lg(24), lg(25), lg(26), lg(27), lg(28), lg(29), lg(30), lg(31), lg(32), lg(33), lg(34), lg(35), lg(36), lg(37), lg(38), lg(39), lg(40), lg(41), lg(42), lg(43), lg(44), lg(45), lg(46), lg(47), lg(48), lg(49), lg(50), lg(51), lg(52), lg(53)]; let log = take_log();
    ck!(b.as_slice() == &nat[..], "box_arr! list of 54: contents differ from the native array literal");
    ck!(log == seq(54), "box_arr! list of 54: element expressions were evaluated in order {:?}, expected 0..54 once each", &log[..log.len().min(12)]);
    ck!(*b == a, "box_arr! and arr! with the same arguments differ");
    Ok(())
}
fn case_list_54_trailing() -> Result<(), String> {
    take_log(); let a: GA<u32, N<54>> = arr![lg(0), lg(1), lg(2), lg(3), lg(4), lg(5), lg(6), lg(7), lg(8), lg(9), lg(10), lg(11), lg(12), lg(13), lg(14), lg(15), lg(16), lg(17), lg(18), lg(19), lg(20), lg(21), lg(22), lg(23), lg(24), lg(25), lg(26), lg(27), lg(28), lg(29), lg(30), lg(31), lg(32), lg(33), lg(34), lg(35), lg(36), lg(37), lg(38), lg(39), lg(40), lg(41), lg(42), lg(43), lg(44), lg(45), lg(46), lg(47), lg(48), lg(49), lg(50), lg(51), lg(52), lg(53),]; let log = take_log();
    let nat: [u32; 54] = [0u32.wrapping_mul(2654435761), 1u32.wrapping_mul(2654435761), 2u32.wrapping_mul(2654435761), 3u32.wrapping_mul(2654435761), 4u32.wrapping_mul(2654435761), 5u32.wrapping_mul(2654435761), 6u32.wrapping_mul(2654435761), 7u32.wrapping_mul(2654435761), 8u32.wrapping_mul(2654435761), 9u32.wrapping_mul(2654435761), 10u32.wrapping_mul(2654435761), 11u32.wrapping_mul(2654435761), 12u32.wrapping_mul(2654435761), 13u32.wrapping_mul(2654435761), 14u32.wrapping_mul(2654435761), 15u32.wrapping_mul(2654435761), 16u32.wrapping_mul(2654435761), 17u32.wrapping_mul(2654435761), 18u32.wrapping_mul(2654435761), 19u32.wrapping_mul(2654435761), 20u32.wrapping_mul(2654435761), 21u32.wrapping_mul(2654435761), 22u32.wrapping_mul(2654435761), 23u32.wrapping_mul(2654435761), 24u32.wrapping_mul(2654435761), 25u32.wrapping_mul(2654435761), 26u32.wrapping_mul(2654435761), 27u32.wrapping_mul(2654435761), 28u32.wrapping_mul(2654435761), 29u32.wrapping_mul(2654435761), 30u32.wrapping_mul(2654435761), 31u32.wrapping_mul(2654435761), 32u32.wrapping_mul(2654435761), 33u32.wrapping_mul(2654435761), 34u32.wrapping_mul(2654435761), 35u32.wrapping_mul(2654435761), 36u32.wrapping_mul(2654435761), 37u32.wrapping_mul(2654435761), 38u32.wrapping_mul(2654435761), 39u32.wrapping_mul(2654435761), 40u32.wrapping_mul(2654435761), 41u32.wrapping_mul(2654435761), 42u32.wrapping_mul(2654435761), 43u32.wrapping_mul(2654435761), 44u32.wrapping_mul(2654435761), 45u32.wrapping_mul(2654435761), 46u32.wrapping_mul(2654435761), 47u32.wrapping_mul(2654435761), 48u32.wrapping_mul(2654435761), 49u32.wrapping_mul(2654435761), 50u32.wrapping_mul(2654435761), 51u32.wrapping_mul(2654435761), 52u32.wrapping_mul(2654435761), 53u32.wrapping_mul(2654435761)];
    ck!(a.as_slice() == &nat[..], "arr! list of 54: contents {:?} differ from the native array literal", &a.as_slice()[..a.len().min(8)]);
    ck!(log == seq(54), "arr! list of 54: element expressions were evaluated in order {:?}, expected 0..54 once each", &log[..log.len().min(12)]);
    take_log(); let b: Box<GA<u32, N<54>>> = box_arr![lg(0), lg(1), lg(2), lg(3), lg(4), lg(5), lg(6), lg(7), lg(8), lg(9), lg(10), lg(11), lg(12), lg(13), lg(14), lg(15), lg(16), lg(17), lg(18), lg(19), lg(20), lg(21), lg(22), lg(23), lg(24), lg(25), lg(26), lg(27), lg(28), lg(29), lg(30), lg(31), lg(32), lg(33), lg(34), lg(35), lg(36), lg(37), lg(38), lg(39), lg(40), lg(41), lg(42), lg(43), lg(44), lg(45), lg(46), lg(47), lg(48), lg(49), lg(50), lg(51), lg(52), lg(53),]; let log = take_log();
    ck!(b.as_slice() == &nat[..], "box_arr! list of 54: contents differ from the native array literal");
    ck!(log == seq(54), "box_arr! list of 54: element expressions were evaluated in order {:?}, expected 0..54 once each", &log[..log.len().min(12)]);
    ck!(*b == a, "box_arr! and arr! with the same arguments differ");
    Ok(())
}
const CL_54: GA<u8, N<54>> = arr![1u8, 6u8, 11u8, 16u8, 21u8, 26u8, 31u8, 36u8, 41u8, 46u8, 51u8, 56u8, 61u8, 66u8, 71u8, 76u8, 81u8, 86u8, 91u8, 96u8, 101u8, 106u8, 111u8, 116u8, 121u8, 126u8, 131u8, 136u8, 141u8, 146u8, 151u8, 156u8, 161u8, 166u8, 171u8, 176u8, 181u8, 186u8, 191u8, 196u8, 201u8, 206u8, 211u8, 216u8, 221u8, 226u8, 231u8, 236u8, 241u8, 246u8, 0u8, 5u8, 10u8, 15u8];
static SL_54: GA<u8, N<54>> = arr![1u8, 6u8, 11u8, 16u8, 21u8, 26u8, 31u8, 36u8, 41u8, 46u8, 51u8, 56u8, 61u8, 66u8, 71u8, 76u8, 81u8, 86u8, 91u8, 96u8, 101u8, 106u8, 111u8, 116u8, 121u8, 126u8, 131u8, 136u8, 141u8, 146u8, 151u8, 156u8, 161u8, 166u8, 171u8, 176u8, 181u8, 186u8, 191u8, 196u8, 201u8, 206u8, 211u8, 216u8, 221u8, 226u8, 231u8, 236u8, 241u8, 246u8, 0u8, 5u8, 10u8, 15u8,];
const fn cfl_54() -> GA<u8, N<54>> { arr![1u8, 6u8, 11u8, 16u8, 21u8, 26u8, 31u8, 36u8, 41u8, 46u8, 51u8, 56u8, 61u8, 66u8, 71u8, 76u8, 81u8, 86u8, 91u8, 96u8, 101u8, 106u8, 111u8, 116u8, 121u8, 126u8, 131u8, 136u8, 141u8, 146u8, 151u8, 156u8, 161u8, 166u8, 171u8, 176u8, 181u8, 186u8, 191u8, 196u8, 201u8, 206u8, 211u8, 216u8, 221u8, 226u8, 231u8, 236u8, 241u8, 246u8, 0u8, 5u8, 10u8, 15u8] }
fn case_list_const_54() -> Result<(), String> {
    let nat: [u8; 54] = [1u8, 6u8, 11u8, 16u8, 21u8, 26u8, 31u8, 36u8, 41u8, 46u8, 51u8, 56u8, 61u8, 66u8, 71u8, 76u8, 81u8, 86u8, 91u8, 96u8, 101u8, 106u8, 111u8, 116u8, 121u8, 126u8, 131u8, 136u8, 141u8, 146u8, 151u8, 156u8, 161u8, 166u8, 171u8, 176u8, 181u8, 186u8, 191u8, 196u8, 201u8, 206u8, 211u8, 216u8, 221u8, 226u8, 231u8, 236u8, 241u8, 246u8, 0u8, 5u8, 10u8, 15u8];
    ck!(CL_54.as_slice() == &nat[..] && SL_54.as_slice() == &nat[..] && cfl_54().as_slice() == &nat[..], "arr! list of 54 in const / static / const fn position differs from the native literal");
    Ok(())
}
fn case_list_55() -> Result<(), String> {
    take_log(); let a: GA<u32, N<55>> = arr![lg(0), lg(1), lg(2), lg(3), lg(4), lg(5), lg(6), lg(7), lg(8), lg(9), lg(10), lg(11), lg(12), lg(13), lg(14), lg(15), lg(16), lg(17), lg(18), lg(19), lg(20), lg(21), lg(22), lg(23), lg(24), lg(25), lg(26), lg(27), lg(28), lg(29), lg(30), lg(31), lg(32), lg(33), lg(34), lg(35), lg(36), lg(37), lg(38), lg(39), lg(40), lg(41), lg(42), lg(43), lg(44), lg(45), lg(46), lg(47), lg(48), lg(49), lg(50), lg(51), lg(52), lg(53), lg(54)]; let log = take_log();
    let nat: [u32; 55] = [0u32.wrapping_mul(2654435761), 1u32.wrapping_mul(2654435761), 2u32.wrapping_mul(2654435761), 3u32.wrapping_mul(2654435761), 4u32.wrapping_mul(2654435761), 5u32.wrapping_mul(2654435761), 6u32.wrapping_mul(2654435761), 7u32.wrapping_mul(2654435761), 8u32.wrapping_mul(2654435761), 9u32.wrapping_mul(2654435761), 10u32.wrapping_mul(2654435761), 11u32.wrapping_mul(2654435761), 12u32.wrapping_mul(2654435761), 13u32.wrapping_mul(2654435761), 14u32.wrapping_mul(2654435761), 15u32.wrapping_mul(2654435761), 16u32.wrapping_mul(2654435761), 17u32.wrapping_mul(2654435761), 18u32.wrapping_mul(2654435761), 19u32.wrapping_mul(2654435761), 20u32.wrapping_mul(2654435761), 21u32.wrapping_mul(2654435761), 22u32.wrapping_mul(2654435761), 23u32.wrapping_mul(2654435761), 24u32.wrapping_mul(2654435761), 25u32.wrapping_mul(2654435761), 26u32.wrapping_mul(2654435761), 27u32.wrapping_mul(2654435761), 28u32.wrapping_mul(2654435761), 29u32.wrapping_mul(2654435761), 30u32.wrapping_mul(2654435761), 31u32.wrapping_mul(2654435761), 32u32.wrapping_mul(2654435761), 33u32.wrapping_mul(2654435761), 34u32.wrapping_mul(2654435761), 35u32.wrapping_mul(2654435761), 36u32.wrapping_mul(2654435761), 37u32.wrapping_mul(2654435761), 38u32.wrapping_mul(2654435761), 39u32.wrapping_mul(2654435761), 40u32.wrapping_mul(2654435761), 41u32.wrapping_mul(2654435761), 42u32.wrapping_mul(2654435761), 43u32.wrapping_mul(2654435761), 44u32.wrapping_mul(2654435761), 45u32.wrapping_mul(2654435761), 46u32.wrapping_mul(2654435761), 47u32.wrapping_mul(2654435761), 48u32.wrapping_mul(2654435761), 49u32.wrapping_mul(2654435761), 50u32.wrapping_mul(2654435761), 51u32.wrapping_mul(2654435761), 52u32.wrapping_mul(2654435761), 53u32.wrapping_mul(2654435761), 54u32.wrapping_mul(2654435761)];
    ck!(a.as_slice() == &nat[..], "arr! list of 55: contents {:?} differ from the native array literal", &a.as_slice()[..a.len().min(8)]);
    ck!(log == seq(55), "arr! list of 55: element expressions were evaluated in order {:?}, expected 0..55 once each", &log[..log.len().min(12)]);
    take_log(); let b: Box<GA<u32, N<55>>> = box_arr![lg(0), lg(1), lg(2), lg(3), lg(4), lg(5), lg(6), lg(7), lg(8), lg(9), lg(10), lg(11), lg(12), lg(13), lg(14), lg(15), lg(16), lg(17), lg(18), lg(19), lg(20), lg(21), lg(22), lg(23), lg(24), lg(25), lg(26), lg(27), lg(28), lg(29), lg(30), lg(31), lg(32), lg(33), lg(34), lg(35), lg(36), lg(37), lg(38), lg(39), lg(40), lg(41), lg(42), lg(43), lg(44), lg(45), lg(46), lg(47), lg(48), lg(49), lg(50), lg(51), lg(52), lg(53), lg(54)]; let log = take_log();
    ck!(b.as_slice() == &nat[..], "box_arr! list of 55: contents differ from the native array literal");
    ck!(log == seq(55), "box_arr! list of 55: element expressions were evaluated in order {:?}, expected 0..55 once each", &log[..log.len().min(12)]);
    ck!(*b == a, "box_arr! and arr! with the same arguments differ");
    Ok(())
}
fn case_list_55_trailing() -> Result<(), String> {
    take_log(); let a: GA<u32, N<55>> = arr![lg(0), lg(1), lg(2), lg(3), lg(4), lg(5), lg(6), lg(7), lg(8), lg(9), lg(10), lg(11), lg(12), lg(13), lg(14), lg(15), lg(16), lg(17), lg(18), lg(19), lg(20), lg(21), lg(22), lg(23), lg(24), lg(25), lg(26), lg(27), lg(28), lg(29), lg(30), lg(31), lg(32), lg(33), lg(34), lg(35), lg(36), lg(37), lg(38), lg(39), lg(40), lg(41), lg(42), lg(43), lg(44), lg(45), lg(46), lg(47), lg(48), lg(49), lg(50), lg(51), lg(52), lg(53), lg(54),]; let log = take_log();
    let nat: [u32; 55] = [0u32.wrapping_mul(2654435761), 1u32.wrapping_mul(2654435761), 2u32.wrapping_mul(2654435761), 3u32.wrapping_mul(2654435761), 4u32.wrapping_mul(2654435761), 5u32.wrapping_mul(2654435761), 6u32.wrapping_mul(2654435761), 7u32.wrapping_mul(2654435761), 8u32.wrapping_mul(2654435761), 9u32.wrapping_mul(2654435761), 10u32.wrapping_mul(2654435761), 11u32.wrapping_mul(2654435761), 12u32.wrapping_mul(2654435761), 13u32.wrapping_mul(2654435761), 14u32.wrapping_mul(2654435761), 15u32.wrapping_mul(2654435761), 16u32.wrapping_mul(2654435761), 17u32.wrapping_mul(2654435761), 18u32.wrapping_mul(2654435761), 19u32.wrapping_mul(2654435761), 20u32.wrapping_mul(2654435761), 21u32.wrapping_mul(2654435761), 22u32.wrapping_mul(2654435761), 23u32.wrapping_mul(2654435761), 24u32.wrapping_mul(2654435761), 25u32.wrapping_mul(2654435761), 26u32.wrapping_mul(2654435761), 27u32.wrapping_mul(2654435761), 28u32.wrapping_mul(2654435761), 29u32.wrapping_mul(2654435761), 30u32.wrapping_mul(2654435761), 31u32.wrapping_mul(2654435761), 32u32.wrapping_mul(2654435761), 33u32.wrapping_mul(2654435761), 34u32.wrapping_mul(2654435761), 35u32.wrapping_mul(2654435761), 36u32.wrapping_mul(2654435761), 37u32.wrapping_mul(2654435761), 38u32.wrapping_mul(2654435761), 39u32.wrapping_mul(2654435761), 40u32.wrapping_mul(2654435761), 41u32.wrapping_mul(2654435761), 42u32.wrapping_mul(2654435761), 43u32.wrapping_mul(2654435761), 44u32.wrapping_mul(2654435761), 45u32.wrapping_mul(2654435761), 46u32.wrapping_mul(2654435761), 47u32.wrapping_mul(2654435761), 48u32.wrapping_mul(2654435761), 49u32.wrapping_mul(2654435761), 50u32.wrapping_mul(2654435761), 51u32.wrapping_mul(2654435761), 52u32.wrapping_mul(2654435761), 53u32.wrapping_mul(2654435761), 54u32.wrapping_mul(2654435761)];
    ck!(a.as_slice() == &nat[..], "arr! list of 55: contents {:?} differ from the native array literal", &a.as_slice()[..a.len().min(8)]);
    ck!(log == seq(55), "arr! list of 55: element expressions were evaluated in order {:?}, expected 0..55 once each", &log[..log.len().min(12)]);
    take_log(); let b: Box<GA<u32, N<55>>> = box_arr![lg(0), lg(1), lg(2), lg(3), lg(4), lg(5), lg(6), lg(7), lg(8), lg(9), lg(10), lg(11), lg(12), lg(13), lg(14), lg(15), lg(16), lg(17), lg(18), lg(19), lg(20), lg(21), lg(22), lg(23), lg(24), lg(25), lg(26), lg(27), lg(28), lg(29), lg(30), lg(31), lg(32), lg(33), lg(34), lg(35), lg(36), lg(37), lg(38), lg(39), lg(40), lg(41), lg(42), lg(43), lg(44), lg(45), lg(46), lg(47), lg(48), lg(49), lg(50), lg(51), lg(52), lg(53), lg(54),]; let log = take_log();
    ck!(b.as_slice() == &nat[..], "box_arr! list of 55: contents differ from the native array literal");
    ck!(log == seq(55), "box_arr! list of 55: element expressions were evaluated in order {:?}, expected 0..55 once each", &log[..log.len().min(12)]);
    ck!(*b == a, "box_arr! and arr! with the same arguments differ");
    Ok(())
}
const CL_55: GA<u8, N<55>> = arr![1u8, 6u8, 11u8, 16u8, 21u8, 26u8, 31u8, 36u8, 41u8, 46u8, 51u8, 56u8, 61u8, 66u8, 71u8, 76u8, 81u8, 86u8, 91u8, 96u8, 101u8, 106u8, 111u8, 116u8, 121u8, 126u8, 131u8, 136u8, 141u8, 146u8, 151u8, 156u8, 161u8, 166u8, 171u8, 176u8, 181u8, 186u8, 191u8, 196u8, 201u8, 206u8, 211u8, 216u8, 221u8, 226u8, 231u8, 236u8, 241u8, 246u8, 0u8, 5u8, 10u8, 15u8, 20u8];
static SL_55: GA<u8, N<55>> = arr![1u8, 6u8, 11u8, 16u8, 21u8, 26u8, 31u8, 36u8, 41u8, 46u8, 51u8, 56u8, 61u8, 66u8, 71u8, 76u8, 81u8, 86u8, 91u8, 96u8, 101u8, 106u8, 111u8, 116u8, 121u8, 126u8, 131u8, 136u8, 141u8, 146u8, 151u8, 156u8, 161u8, 166u8, 171u8, 176u8, 181u8, 186u8, 191u8, 196u8, 201u8, 206u8, 211u8, 216u8, 221u8, 226u8, 231u8, 236u8, 241u8, 246u8, 0u8, 5u8, 10u8, 15u8, 20u8,];
const fn cfl_55() -> GA<u8, N<55>> { arr![1u8, 6u8, 11u8, 16u8, 21u8, 26u8, 31u8, 36u8, 41u8, 46u8, 51u8, 56u8, 61u8, 66u8, 71u8, 76u8, 81u8, 86u8, 91u8, 96u8, 101u8, 106u8, 111u8, 116u8, 121u8, 126u8, 131u8, 136u8, 141u8, 146u8, 151u8, 156u8, 161u8, 166u8, 171u8, 176u8, 181u8, 186u8, 191u8, 196u8, 201u8, 206u8, 211u8, 216u8, 221u8, 226u8, 231u8, 236u8, 241u8, 246u8, 0u8, 5u8, 10u8, 15u8, 20u8] }
fn case_list_const_55() -> Result<(), String> {
    let nat: [u8; 55] = [1u8, 6u8, 11u8, 16u8, 21u8, 26u8, 31u8, 36u8, 41u8, 46u8, 51u8, 56u8, 61u8, 66u8, 71u8, 76u8, 81u8, 86u8, 91u8, 96u8, 101u8, 106u8, 111u8, 116u8, 121u8, 126u8, 131u8, 136u8, 141u8, 146u8, 151u8, 156u8, 161u8, 166u8, 171u8, 176u8, 181u8, 186u8, 191u8, 196u8, 201u8, 206u8, 211u8, 216u8, 221u8, 226u8, 231u8, 236u8, 241u8, 246u8, 0u8, 5u8, 10u8, 15u8, 20u8];
    ck!(CL_55.as_slice() == &nat[..] && SL_55.as_slice() == &nat[..] && cfl_55().as_slice() == &nat[..], "arr! list of 55 in const / static / const fn position differs from the native literal");
    Ok(())
}
fn case_list_56() -> Result<(), String> {
    take_log(); let a: GA<u32, N<56>> = arr![lg(0), lg(1), lg(2), lg(3), lg(4), lg(5), lg(6), lg(7), lg(8), lg(9), lg(10), lg(11), lg(12), lg(13), lg(14), lg(15), lg(16), lg(17), lg(18), lg(19), lg(20), lg(21), lg(22), lg(23), lg(24), lg(25), lg(26), lg(27), lg(28), lg(29), lg(30), lg(31), lg(32), lg(33), lg(34), lg(35), lg(36), lg(37), lg(38), lg(39), lg(40), lg(41), lg(42), lg(43), lg(44), lg(45), lg(46), lg(47), lg(48), lg(49), lg(50), lg(51), lg(52), lg(53), lg(54), lg(55)]; let log = take_log();
    let nat: [u32; 56] = [0u32.wrapping_mul(2654435761), 1u32.wrapping_mul(2654435761), 2u32.wrapping_mul(2654435761), 3u32.wrapping_mul(2654435761), 4u32.wrapping_mul(2654435761), 5u32.wrapping_mul(2654435761), 6u32.wrapping_mul(2654435761), 7u32.wrapping_mul(2654435761), 8u32.wrapping_mul(2654435761), 9u32.wrapping_mul(2654435761), 10u32.wrapping_mul(2654435761), 11u32.wrapping_mul(2654435761), 12u32.wrapping_mul(2654435761), 13u32.wrapping_mul(2654435761), 14u32.wrapping_mul(2654435761), 15u32.wrapping_mul(2654435761), 16u32.wrapping_mul(2654435761), 17u32.wrapping_mul(2654435761), 18u32.wrapping_mul(2654435761), 19u32.wrapping_mul(2654435761), 20u32.wrapping_mul(2654435761), 21u32.wrapping_mul(2654435761), 22u32.wrapping_mul(2654435761), 23u32.wrapping_mul(2654435761), 24u32.wrapping_mul(2654435761), 25u32.wrapping_mul(2654435761), 26u32.wrapping_mul(2654435761), 27u32.wrapping_mul(2654435761), 28u32.wrapping_mul(2654435761), 29u32.wrapping_mul(2654435761), 30u32.wrapping_mul(2654435761), 31u32.wrapping_mul(2654435761), 32u32.wrapping_mul(2654435761), 33u32.wrapping_mul(2654435761), 34u32.wrapping_mul(2654435761), 35u32.wrapping_mul(2654435761), 36u32.wrapping_mul(2654435761), 37u32.wrapping_mul(2654435761), 38u32.wrapping_mul(2654435761), 39u32.wrapping_mul(2654435761), 40u32.wrapping_mul(2654435761), 41u32.wrapping_mul(2654435761), 42u32.wrapping_mul(2654435761), 43u32.wrapping_mul(2654435761), 44u32.wrapping_mul(2654435761), 45u32.wrapping_mul(2654435761), 46u32.wrapping_mul(2654435761), 47u32.wrapping_mul(2654435761), 48u32.wrapping_mul(2654435761), 49u32.wrapping_mul(2654435761), 50u32.wrapping_mul(2654435761), 51u32.wrapping_mul(2654435761), 52u32.wrapping_mul(2654435761), 53u32.wrapping_mul(2654435761), 54u32.wrapping_mul(2654435761), 55u32.wrapping_mul(2654435761)];
    ck!(a.as_slice() == &nat[..], "arr! list of 56: contents {:?} differ from the native array literal", &a.as_slice()[..a.len().min(8)]);
    ck!(log == seq(56), "arr! list of 56: element expressions were evaluated in order {:?}, expected 0..56 once each", &log[..log.len().min(12)]);
    take_log(); let b: Box<GA<u32, N<56>>> = box_arr![lg(0), lg(1), lg(2), lg(3), lg(4), lg(5), lg(6), lg(7), lg(8), lg(9), lg(10), lg(11), lg(12), lg(13), lg(14), lg(15), lg(16), lg(17), lg(18), lg(19), lg(20), lg(21), lg(22), lg(23), lg(24), lg(25), lg(26), lg(27), lg(28), lg(29), lg(30), lg(31), lg(32), lg(33), lg(34), lg(35), lg(36), lg(37), lg(38), lg(39), lg(40), lg(41), lg(42), lg(43), lg(44), lg(45), lg(46), lg(47), lg(48), lg(49), lg(50), lg(51), lg(52), lg(53), lg(54), lg(55)]; let log = take_log();
    ck!(b.as_slice() == &nat[..], "box_arr! list of 56: contents differ from the native array literal");
    ck!(log == seq(56), "box_arr! list of 56: element expressions were evaluated in order {:?}, expected 0..56 once each", &log[..log.len().min(12)]);
    ck!(*b == a, "box_arr! and arr! with the same arguments differ");
    Ok(())
}
fn case_list_56_trailing() -> Result<(), String> {
    take_log(); let a: GA<u32, N<56>> = arr![lg(0), lg(1), lg(2), lg(3), lg(4), lg(5), lg(6), lg(7), lg(8), lg(9), lg(10), lg(11), lg(12), lg(13), lg(14), lg(15), lg(16), lg(17), lg(18), lg(19), lg(20), lg(21), lg(22), lg(23), lg(24), lg(25), lg(26), lg(27), lg(28), lg(29), lg(30), lg(31), lg(32), lg(33), lg(34), lg(35), lg(36), lg(37), lg(38), lg(39), lg(40), lg(41), lg(42), lg(43), lg(44), lg(45), lg(46), lg(47), lg(48), lg(49), lg(50), lg(51), lg(52), lg(53), lg(54), lg(55),]; let log = take_log();
    let nat: [u32; 56] = [0u32.wrapping_mul(2654435761), 1u32.wrapping_mul(2654435761), 2u32.wrapping_mul(2654435761), 3u32.wrapping_mul(2654435761), 4u32.wrapping_mul(2654435761), 5u32.wrapping_mul(2654435761), 6u32.wrapping_mul(2654435761), 7u32.wrapping_mul(2654435761), 8u32.wrapping_mul(2654435761), 9u32.wrapping_mul(2654435761), 10u32.wrapping_mul(2654435761), 11u32.wrapping_mul(2654435761), 12u32.wrapping_mul(2654435761), 13u32.wrapping_mul(2654435761), 14u32.wrapping_mul(2654435761), 15u32.wrapping_mul(2654435761), 16u32.wrapping_mul(2654435761), 17u32.wrapping_mul(2654435761), 18u32.wrapping_mul(2654435761), 19u32.wrapping_mul(2654435761), 20u32.wrapping_mul(2654435761), 21u32.wrapping_mul(2654435761), 22u32.wrapping_mul(2654435761), 23u32.wrapping_mul(2654435761), 24u32.wrapping_mul(2654435761), 25u32.wrapping_mul(2654435761), 26u32.wrapping_mul(2654435761), 27u32.wrapping_mul(2654435761), 28u32.wrapping_mul(2654435761), 29u32.wrapping_mul(2654435761), 30u32.wrapping_mul(2654435761), 31u32.wrapping_mul(2654435761), 32u32.wrapping_mul(2654435761), 33u32.wrapping_mul(2654435761), 34u32.wrapping_mul(2654435761), 35u32.wrapping_mul(2654435761), 36u32.wrapping_mul(2654435761), 37u32.wrapping_mul(2654435761), 38u32.wrapping_mul(2654435761), 39u32.wrapping_mul(2654435761), 40u32.wrapping_mul(2654435761), 41u32.wrapping_mul(2654435761), 42u32.wrapping_mul(2654435761), 43u32.wrapping_mul(2654435761), 44u32.wrapping_mul(2654435761), 45u32.wrapping_mul(2654435761), 46u32.wrapping_mul(2654435761), 47u32.wrapping_mul(2654435761), 48u32.wrapping_mul(2654435761), 49u32.wrapping_mul(2654435761), 50u32.wrapping_mul(2654435761), 51u32.wrapping_mul(2654435761), 52u32.wrapping_mul(2654435761), 53u32.wrapping_mul(2654435761), 54u32.wrapping_mul(2654435761), 55u32.wrapping_mul(2654435761)];
    ck!(a.as_slice() == &nat[..], "arr! list of 56: contents {:?} differ from the native array literal", &a.as_slice()[..a.len().min(8)]);
    ck!(log == seq(56), "arr! list of 56: element expressions were evaluated in order {:?}, expected 0..56 once each", &log[..log.len().min(12)]);
    take_log(); let b: Box<GA<u32, N<56>>> = box_arr![lg(0), lg(1), lg(2), lg(3), lg(4), lg(5), lg(6), lg(7), lg(8), lg(9), lg(10), lg(11), lg(12), lg(13), lg(14), lg(15), lg(16), lg(17), lg(18), lg(19), lg(20), lg(21), lg(22), lg(23), lg(24), lg(25), lg(26), lg(27), lg(28), lg(29), lg(30), lg(31), lg(32), lg(33), lg(34), lg(35), lg(36), lg(37), lg(38), lg(39), lg(40), lg(41), lg(42), lg(43), lg(44), lg(45), lg(46), lg(47), lg(48), lg(49), lg(50), lg(51), lg(52), lg(53), lg(54), lg(55),]; let log = take_log();
    ck!(b.as_slice() == &nat[..], "box_arr! list of 56: contents differ from the native array literal");
    ck!(log == seq(56), "box_arr! list of 56: element expressions were evaluated in order {:?}, expected 0..56 once each", &log[..log.len().min(12)]);
    ck!(*b == a, "box_arr! and arr! with the same arguments differ");
    Ok(())
}
const CL_56: GA<u8, N<56>> = arr![1u8, 6u8, 11u8, 16u8, 21u8, 26u8, 31u8, 36u8, 41u8, 46u8, 51u8, 56u8, 61u8, 66u8, 71u8, 76u8, 81u8, 86u8, 91u8, 96u8, 101u8, 106u8, 111u8, 116u8, 121u8, 126u8, 131u8, 136u8, 141u8, 146u8, 151u8, 156u8, 161u8, 166u8, 171u8, 176u8, 181u8, 186u8, 191u8, 196u8, 201u8, 206u8, 211u8, 216u8, 221u8, 226u8, 231u8, 236u8, 241u8, 246u8, 0u8, 5u8, 10u8, 15u8, 20u8, 25u8];
static SL_56: GA<u8, N<56>> = arr![1u8, 6u8, 11u8, 16u8, 21u8, 26u8, 31u8, 36u8, 41u8, 46u8, 51u8, 56u8, 61u8, 66u8, 71u8, 76u8, 81u8, 86u8, 91u8, 96u8, 101u8, 106u8, 111u8, 116u8, 121u8, 126u8, 131u8, 136u8, 141u8, 146u8, 151u8, 156u8, 161u8, 166u8, 171u8, 176u8, 181u8, 186u8, 191u8, 196u8, 201u8, 206u8, 211u8, 216u8, 221u8, 226u8, 231u8, 236u8, 241u8, 246u8, 0u8, 5u8, 10u8, 15u8, 20u8, 25u8,];
const fn cfl_56() -> GA<u8, N<56>> { arr![1u8, 6u8, 11u8, 16u8, 21u8, 26u8, 31u8, 36u8, 41u8, 46u8, 51u8, 56u8, 61u8, 66u8, 71u8, 76u8, 81u8, 86u8, 91u8, 96u8, 101u8, 106u8, 111u8, 116u8, 121u8, 126u8, 131u8, 136u8, 141u8, 146u8, 151u8, 156u8, 161u8, 166u8, 171u8, 176u8, 181u8, 186u8, 191u8, 196u8, 201u8, 206u8, 211u8, 216u8, 221u8, 226u8, 231u8, 236u8, 241u8, 246u8, 0u8, 5u8, 10u8, 15u8, 20u8, 25u8] }
fn case_list_const_56() -> Result<(), String> {
    let nat: [u8; 56] = [1u8, 6u8, 11u8, 16u8, 21u8, 26u8, 31u8, 36u8, 41u8, 46u8, 51u8, 56u8, 61u8, 66u8, 71u8, 76u8, 81u8, 86u8, 91u8, 96u8, 101u8, 106u8, 111u8, 116u8, 121u8, 126u8, 131u8, 136u8, 141u8, 146u8, 151u8, 156u8, 161u8, 166u8, 171u8, 176u8, 181u8, 186u8, 191u8, 196u8, 201u8, 206u8, 211u8, 216u8, 221u8, 226u8, 231u8, 236u8, 241u8, 246u8, 0u8, 5u8, 10u8, 15u8, 20u8, 25u8];
    ck!(CL_56.as_slice() == &nat[..] && SL_56.as_slice() == &nat[..] && cfl_56().as_slice() == &nat[..], "arr! list of 56 in const / static / const fn position differs from the native literal");
    Ok(())
}
fn case_list_57() -> Result<(), String> {
    take_log(); let a: GA<u32, N<57>> = arr![lg(0), lg(1), lg(2), lg(3), lg(4), lg(5), lg(6), lg(7), lg(8), lg(9), lg(10), lg(11), lg(12), lg(13), lg(14), lg(15), lg(16), lg(17), lg(18), lg(19), lg(20), lg(21), lg(22), lg(23), lg(24), lg(25), lg(26), lg(27), lg(28), lg(29), lg(30), lg(31), lg(32), lg(33), lg(34), lg(35), lg(36), lg(37), lg(38), lg(39), lg(40), lg(41), lg(42), lg(43), lg(44), lg(45), lg(46), lg(47), lg(48), lg(49), lg(50), lg(51), lg(52), lg(53), lg(54), lg(55), lg(56)]; let log = take_log();
    let nat: [u32; 57] = [0u32.wrapping_mul(2654435761), 1u32.wrapping_mul(2654435761), 2u32.wrapping_mul(2654435761), 3u32.wrapping_mul(2654435761), 4u32.wrapping_mul(2654435761), 5u32.wrapping_mul(2654435761), 6u32.wrapping_mul(2654435761), 7u32.wrapping_mul(2654435761), 8u32.wrapping_mul(2654435761), 9u32.wrapping_mul(2654435761), 10u32.wrapping_mul(2654435761), 11u32.wrapping_mul(2654435761), 12u32.wrapping_mul(2654435761), 13u32.wrapping_mul(2654435761), 14u32.wrapping_mul(2654435761), 15u32.wrapping_mul(2654435761), 16u32.wrapping_mul(2654435761), 17u32.wrapping_mul(2654435761), 18u32.wrapping_mul(2654435761), 19u32.wrapping_mul(2654435761), 20u32.wrapping_mul(2654435761), 21u32.wrapping_mul(2654435761), 22u32.wrapping_mul(2654435761), 23u32.wrapping_mul(2654435761), 24u32.wrapping_mul(2654435761), 25u32.wrapping_mul(2654435761), 26u32.wrapping_mul(2654435761), 27u32.wrapping_mul(2654435761), 28u32.wrapping_mul(2654435761), 29u32.wrapping_mul(2654435761), 30u32.wrapping_mul(2654435761), 31u32.wrapping_mul(2654435761), 32u32.wrapping_mul(2654435761), 33u32.wrapping_mul(2654435761), 34u32.wrapping_mul(2654435761), 35u32.wrapping_mul(2654435761), 36u32.wrapping_mul(2654435761), 37u32.wrapping_mul(2654435761), 38u32.wrapping_mul(2654435761), 39u32.wrapping_mul(2654435761), 40u32.wrapping_mul(2654435761), 41u32.wrapping_mul(2654435761), 42u32.wrapping_mul(2654435761), 43u32.wrapping_mul(2654435761), 44u32.wrapping_mul(2654435761), 45u32.wrapping_mul(2654435761), 46u32.wrapping_mul(2654435761), 47u32.wrapping_mul(2654435761), 48u32.wrapping_mul(2654435761), 49u32.wrapping_mul(2654435761), 50u32.wrapping_mul(2654435761), 51u32.wrapping_mul(2654435761), 52u32.wrapping_mul(2654435761), 53u32.wrapping_mul(2654435761), 54u32.wrapping_mul(2654435761), 55u32.wrapping_mul(2654435761), 56u32.wrapping_mul(2654435761)];
    ck!(a.as_slice() == &nat[..], "arr! list of 57: contents {:?} differ from the native array literal", &a.as_slice()[..a.len().min(8)]);
    ck!(log == seq(57), "arr! list of 57: element expressions were evaluated in order {:?}, expected 0..57 once each", &log[..log.len().min(12)]);
    take_log(); let b: Box<GA<u32, N<57>>> = box_arr![lg(0), lg(1), lg(2), lg(3), lg(4), lg(5), lg(6), lg(7), lg(8), lg(9), lg(10), lg(11), lg(12), lg(13), lg(14), lg(15), lg(16), lg(17), lg(18), lg(19), lg(20), lg(21), lg(22), lg(23), lg(24), lg(25), lg(26), lg(27), lg(28), lg(29), lg(30), lg(31), lg(32), lg(33), lg(34), lg(35), lg(36), lg(37), lg(38), lg(39), lg(40), lg(41), lg(42), lg(43), lg(44), lg(45), lg(46), lg(47), lg(48), lg(49), lg(50), lg(51), lg(52), lg(53), lg(54), lg(55), lg(56)]; let log = take_log();
    ck!(b.as_slice() == &nat[..], "box_arr! list of 57: contents differ from the native array literal");
    ck!(log == seq(57), "box_arr! list of 57: element expressions were evaluated in order {:?}, expected 0..57 once each", &log[..log.len().min(12)]);
    ck!(*b == a, "box_arr! and arr! with the same arguments differ");
    Ok(())
}
fn case_list_57_trailing() -> Result<(), String> {
    take_log(); let a: GA<u32, N<57>> = arr![lg(0), lg(1), lg(2), lg(3), lg(4), lg(5), lg(6), lg(7), lg(8), lg(9), lg(10), lg(11), lg(12), lg(13), lg(14), lg(15), lg(16), lg(17), lg(18), lg(19), lg(20), lg(21), lg(22), lg(23), lg(24), lg(25), lg(26), lg(27), lg(28), lg(29), lg(30), lg(31), lg(32), lg(33), lg(34), lg(35), lg(36), lg(37), lg(38), lg(39), lg(40), lg(41), lg(42), lg(43), lg(44), lg(45), lg(46), lg(47), lg(48), lg(49), lg(50), lg(51), lg(52), lg(53), lg(54), lg(55), lg(56),]; let log = take_log();
    let nat: [u32; 57] = [0u32.wrapping_mul(2654435761), 1u32.wrapping_mul(2654435761), 2u32.wrapping_mul(2654435761), 3u32.wrapping_mul(2654435761), 4u32.wrapping_mul(2654435761), 5u32.wrapping_mul(2654435761), 6u32.wrapping_mul(2654435761), 7u32.wrapping_mul(2654435761), 8u32.wrapping_mul(2654435761), 9u32.wrapping_mul(2654435761), 10u32.wrapping_mul(2654435761), 11u32.wrapping_mul(2654435761), 12u32.wrapping_mul(2654435761), 13u32.wrapping_mul(2654435761), 14u32.wrapping_mul(2654435761), 15u32.wrapping_mul(2654435761), 16u32.wrapping_mul(2654435761), 17u32.wrapping_mul(2654435761), 18u32.wrapping_mul(2654435761), 19u32.wrapping_mul(2654435761), 20u32.wrapping_mul(2654435761), 21u32.wrapping_mul(2654435761), 22u32.wrapping_mul(2654435761), 23u32.wrapping_mul(2654435761), 24u32.wrapping_mul(2654435761), 25u32.wrapping_mul(2654435761), 26u32.wrapping_mul(2654435761), 27u32.wrapping_mul(2654435761), 28u32.wrapping_mul(2654435761), 29u32.wrapping_mul(2654435761), 30u32.wrapping_mul(2654435761), 31u32.wrapping_mul(2654435761), 32u32.wrapping_mul(2654435761), 33u32.wrapping_mul(2654435761), 34u32.wrapping_mul(2654435761), 35u32.wrapping_mul(2654435761), 36u32.wrapping_mul(2654435761), 37u32.wrapping_mul(2654435761), 38u32.wrapping_mul(2654435761), 39u32.wrapping_mul(2654435761), 40u32.wrapping_mul(2654435761), 41u32.wrapping_mul(2654435761), 42u32.wrapping_mul(2654435761), 43u32.wrapping_mul(2654435761), 44u32.wrapping_mul(2654435761), 45u32.wrapping_mul(2654435761), 46u32.wrapping_mul(2654435761), 47u32.wrapping_mul(2654435761), 48u32.wrapping_mul(2654435761), 49u32.wrapping_mul(2654435761), 50u32.wrapping_mul(2654435761), 51u32.wrapping_mul(2654435761), 52u32.wrapping_mul(2654435761), 53u32.wrapping_mul(2654435761), 54u32.wrapping_mul(2654435761), 55u32.wrapping_mul(2654435761), 56u32.wrapping_mul(2654435761)];
    ck!(a.as_slice() == &nat[..], "arr! list of 57: contents {:?} differ from the native array literal", &a.as_slice()[..a.len().min(8)]);
    ck!(log == seq(57), "arr! list of 57: element expressions were evaluated in order {:?}, expected 0..57 once each", &log[..log.len().min(12)]);
    take_log(); let b: Box<GA<u32, N<57>>> = box_arr![lg(0), lg(1), lg(2), lg(3), lg(4), lg(5), lg(6), lg(7), lg(8), lg(9), lg(10), lg(11), lg(12), lg(13), lg(14), lg(15), lg(16), lg(17), lg(18), lg(19), lg(20), lg(21), lg(22), lg(23), lg(24), lg(25), lg(26), lg(27), lg(28), lg(29), lg(30), lg(31), lg(32), lg(33), lg(34), lg(35), lg(36), lg(37), lg(38), lg(39), lg(40), lg(41), lg(42), lg(43), lg(44), lg(45), lg(46), lg(47), lg(48), lg(49), lg(50), lg(51), lg(52), lg(53), lg(54), lg(55), lg(56),]; let log = take_log();
    ck!(b.as_slice() == &nat[..], "box_arr! list of 57: contents differ from the native array literal");
    ck!(log == seq(57), "box_arr! list of 57: element expressions were evaluated in order {:?}, expected 0..57 once each", &log[..log.len().min(12)]);
    ck!(*b == a, "box_arr! and arr! with the same arguments differ");
    Ok(())
}
const CL_57: GA<u8, N<57>> = arr![1u8, 6u8, 11u8, 16u8, 21u8, 26u8, 31u8, 36u8, 41u8, 46u8, 51u8, 56u8, 61u8, 66u8, 71u8, 76u8, 81u8, 86u8, 91u8, 96u8, 101u8, 106u8, 111u8, 116u8, 121u8, 126u8, 131u8, 136u8, 141u8, 146u8, 151u8, 156u8, 161u8, 166u8, 171u8, 176u8, 181u8, 186u8, 191u8, 196u8, 201u8, 206u8, 211u8, 216u8, 221u8, 226u8, 231u8, 236u8, 241u8, 246u8, 0u8, 5u8, 10u8, 15u8, 20u8, 25u8, 30u8];
static SL_57: GA<u8, N<57>> = arr![1u8, 6u8, 11u8, 16u8, 21u8, 26u8, 31u8, 36u8, 41u8, 46u8, 51u8, 56u8, 61u8, 66u8, 71u8, 76u8, 81u8, 86u8, 91u8, 96u8, 101u8, 106u8, 111u8, 116u8, 121u8, 126u8, 131u8, 136u8, 141u8, 146u8, 151u8, 156u8, 161u8, 166u8, 171u8, 176u8, 181u8, 186u8, 191u8, 196u8, 201u8, 206u8, 211u8, 216u8, 221u8, 226u8, 231u8, 236u8, 241u8, 246u8, 0u8, 5u8, 10u8, 15u8, 20u8, 25u8, 30u8,];
const fn cfl_57() -> GA<u8, N<57>> { arr![1u8, 6u8, 11u8, 16u8, 21u8, 26u8, 31u8, 36u8, 41u8, 46u8, 51u8, 56u8, 61u8, 66u8, 71u8, 76u8, 81u8, 86u8, 91u8, 96u8, 101u8, 106u8, 111u8, 116u8, 121u8, 126u8, 131u8, 136u8, 141u8, 146u8, 151u8, 156u8, 161u8, 166u8, 171u8, 176u8, 181u8, 186u8, 191u8, 196u8, 201u8, 206u8, 211u8, 216u8, 221u8, 226u8, 231u8, 236u8, 241u8, 246u8, 0u8, 5u8, 10u8, 15u8, 20u8, 25u8, 30u8] }
fn case_list_const_57() -> Result<(), String> {
    let nat: [u8; 57] = [1u8, 6u8, 11u8, 16u8, 21u8, 26u8, 31u8, 36u8, 41u8, 46u8, 51u8, 56u8, 61u8, 66u8, 71u8, 76u8, 81u8, 86u8, 91u8, 96u8, 101u8, 106u8, 111u8, 116u8, 121u8, 126u8, 131u8, 136u8, 141u8, 146u8, 151u8, 156u8, 161u8, 166u8, 171u8, 176u8, 181u8, 186u8, 191u8, 196u8, 201u8, 206u8, 211u8, 216u8, 221u8, 226u8, 231u8, 236u8, 241u8, 246u8, 0u8, 5u8, 10u8, 15u8, 20u8, 25u8, 30u8];
    ck!(CL_57.as_slice() == &nat[..] && SL_57.as_slice() == &nat[..] && cfl_57().as_slice() == &nat[..], "arr! list of 57 in const / static / const fn position differs from the native literal");
    Ok(())
}
fn case_list_58() -> Result<(), String> {
    take_log(); let a: GA<u32, N<58>> = arr![lg(0), lg(1), lg(2), lg(3), lg(4), lg(5), lg(6), lg(7), lg(8), lg(9), lg(10), lg(11), lg(12), lg(13), lg(14), lg(15), lg(16), lg(17), lg(18), lg(19), lg(20), lg(21), lg(22), lg(23), lg(24), lg(25), lg(26), lg(27), lg(28), lg(29), lg(30), lg(31), lg(32), lg(33), lg(34), lg(35), lg(36), lg(37), lg(38), lg(39), lg(40), lg(41), lg(42), lg(43), lg(44), lg(45), lg(46), lg(47), lg(48), lg(49), lg(50), lg(51), lg(52), lg(53), lg(54), lg(55), lg(56), lg(57)]; let log = take_log();
    let nat: [u32; 58] = [0u32.wrapping_mul(2654435761), 1u32.wrapping_mul(2654435761), 2u32.wrapping_mul(2654435761), 3u32.wrapping_mul(2654435761), 4u32.wrapping_mul(2654435761), 5u32.wrapping_mul(2654435761), 6u32.wrapping_mul(2654435761), 7u32.wrapping_mul(2654435761), 8u32.wrapping_mul(2654435761), 9u32.wrapping_mul(2654435761), 10u32.wrapping_mul(2654435761), 11u32.wrapping_mul(2654435761), 12u32.wrapping_mul(2654435761), 13u32.wrapping_mul(2654435761), 14u32.wrapping_mul(2654435761), 15u32.wrapping_mul(2654435761), 16u32.wrapping_mul(2654435761), 17u32.wrapping_mul(2654435761), 18u32.wrapping_mul(2654435761), 19u32.wrapping_mul(2654435761), 20u32.wrapping_mul(2654435761), 21u32.wrapping_mul(2654435761), 22u32.wrapping_mul(2654435761), 23u32.wrapping_mul(2654435761), 24u32.wrapping_mul(2654435761), 25u32.wrapping_mul(2654435761), 26u32.wrapping_mul(2654435761), 27u32.wrapping_mul(2654435761), 28u32.wrapping_mul(2654435761), 29u32.wrapping_mul(2654435761), 30u32.wrapping_mul(2654435761), 31u32.wrapping_mul(2654435761), 32u32.wrapping_mul(2654435761), 33u32.wrapping_mul(2654435761), 34u32.wrapping_mul(2654435761), 35u32.wrapping_mul(2654435761), 36u32.wrapping_mul(2654435761), 37u32.wrapping_mul(2654435761), 38u32.wrapping_mul(2654435761), 39u32.wrapping_mul(2654435761), 40u32.wrapping_mul(2654435761), 41u32.wrapping_mul(2654435761), 42u32.wrapping_mul(2654435761), 43u32.wrapping_mul(2654435761), 44u32.wrapping_mul(2654435761), 45u32.wrapping_mul(2654435761), 46u32.wrapping_mul(2654435761), 47u32.wrapping_mul(2654435761), 48u32.wrapping_mul(2654435761), 49u32.wrapping_mul(2654435761), 50u32.wrapping_mul(2654435761), 51u32.wrapping_mul(2654435761), 52u32.wrapping_mul(2654435761), 53u32.wrapping_mul(2654435761), 54u32.wrapping_mul(2654435761), 55u32.wrapping_mul(2654435761), 56u32.wrapping_mul(2654435761), 57u32.wrapping_mul(2654435761)];
    ck!(a.as_slice() == &nat[..], "arr! list of 58: contents {:?} differ from the native array literal", &a.as_slice()[..a.len().min(8)]);
    ck!(log == seq(58), "arr! list of 58: element expressions were evaluated in order {:?}, expected 0..58 once each", &log[..log.len().min(12)]);
    take_log(); let b: Box<GA<u32, N<58>>> = box_arr![lg(0), lg(1), lg(2), lg(3), lg(4), lg(5), lg(6), lg(7), lg(8), lg(9), lg(10), lg(11), lg(12), lg(13), lg(14), lg(15), lg(16), lg(17), lg(18), lg(19), lg(20), lg(21), lg(22), lg(23), lg(24), lg(25), lg(26), lg(27), lg(28), lg(29), lg(30), lg(31), lg(32), lg(33), lg(34), lg(35), lg(36), lg(37), lg(38), lg(39), lg(40), lg(41), lg(42), lg(43), lg(44), lg(45), lg(46), lg(47), lg(48), lg(49), lg(50), lg(51), lg(52), lg(53), lg(54), lg(55), lg(56), lg(57)]; let log = take_log();
    ck!(b.as_slice() == &nat[..], "box_arr! list of 58: contents differ from the native array literal");
    ck!(log == seq(58), "box_arr! list of 58: element expressions were evaluated in order {:?}, expected 0..58 once each", &log[..log.len().min(12)]);
    ck!(*b == a, "box_arr! and arr! with the same arguments differ");
    Ok(())
}
fn case_list_58_trailing() -> Result<(), String> {
    take_log(); let a: GA<u32, N<58>> = arr![lg(0), lg(1), lg(2), lg(3), lg(4), lg(5), lg(6), lg(7), lg(8), lg(9), lg(10), lg(11), lg(12), lg(13), lg(14), lg(15), lg(16), lg(17), lg(18), lg(19), lg(20), lg(21), lg(22), lg(23), lg(24), lg(25), lg(26), lg(27), lg(28), lg(29), lg(30), lg(31), lg(32), lg(33), lg(34), lg(35), lg(36), lg(37), lg(38), lg(39), lg(40), lg(41), lg(42), lg(43), lg(44), lg(45), lg(46), lg(47), lg(48), lg(49), lg(50), lg(51), lg(52), lg(53), lg(54), lg(55), lg(56), lg(57),]; let log = take_log();
    let nat: [u32; 58] = [0u32.wrapping_mul(2654435761), 1u32.wrapping_mul(2654435761), 2u32.wrapping_mul(2654435761), 3u32.wrapping_mul(2654435761), 4u32.wrapping_mul(2654435761), 5u32.wrapping_mul(2654435761), 6u32.wrapping_mul(2654435761), 7u32.wrapping_mul(2654435761), 8u32.wrapping_mul(2654435761), 9u32.wrapping_mul(2654435761), 10u32.wrapping_mul(2654435761), 11u32.wrapping_mul(2654435761), 12u32.wrapping_mul(2654435761), 13u32.wrapping_mul(2654435761), 14u32.wrapping_mul(2654435761), 15u32.wrapping_mul(2654435761), 16u32.wrapping_mul(2654435761), 17u32.wrapping_mul(2654435761), 18u32.wrapping_mul(2654435761), 19u32.wrapping_mul(2654435761), 20u32.wrapping_mul(2654435761), 21u32.wrapping_mul(2654435761), 22u32.wrapping_mul(2654435761), 23u32.wrapping_mul(2654435761), 24u32.wrapping_mul(2654435761), 25u32.wrapping_mul(2654435761), 26u32.wrapping_mul(2654435761), 27u32.wrapping_mul(2654435761), 28u32.wrapping_mul(2654435761), 29u32.wrapping_mul(2654435761), 30u32.wrapping_mul(2654435761), 31u32.wrapping_mul(2654435761), 32u32.wrapping_mul(2654435761), 33u32.wrapping_mul(2654435761), 34u32.wrapping_mul(2654435761), 35u32.wrapping_mul(2654435761), 36u32.wrapping_mul(2654435761), 37u32.wrapping_mul(2654435761), 38u32.wrapping_mul(2654435761), 39u32.wrapping_mul(2654435761), 40u32.wrapping_mul(2654435761), 41u32.wrapping_mul(2654435761), 42u32.wrapping_mul(2654435761), 43u32.wrapping_mul(2654435761), 44u32.wrapping_mul(2654435761), 45u32.wrapping_mul(2654435761), 46u32.wrapping_mul(2654435761), 47u32.wrapping_mul(2654435761), 48u32.wrapping_mul(2654435761), 49u32.wrapping_mul(2654435761), 50u32.wrapping_mul(2654435761), 51u32.wrapping_mul(2654435761), 52u32.wrapping_mul(2654435761), 53u32.wrapping_mul(2654435761), 54u32.wrapping_mul(2654435761), 55u32.wrapping_mul(2654435761), 56u32.wrapping_mul(2654435761), 57u32.wrapping_mul(2654435761)];
    ck!(a.as_slice() == &nat[..], "arr! list of 58: contents {:?} differ from the native array literal", &a.as_slice()[..a.len().min(8)]);
    ck!(log == seq(58), "arr! list of 58: element expressions were evaluated in order {:?}, expected 0..58 once each", &log[..log.len().min(12)]);
    take_log(); let b: Box<GA<u32, N<58>>> = box_arr![lg(0), lg(1), lg(2), lg(3), lg(4), lg(5), lg(6), lg(7), lg(8), lg(9), lg(10), lg(11), lg(12), lg(13), lg(14), lg(15), lg(16), lg(17), lg(18), lg(19), lg(20), lg(21), lg(22), lg(23), lg(24), lg(25), lg(26), lg(27), lg(28), lg(29), lg(30), lg(31), lg(32), lg(33), lg(34), lg(35), lg(36), lg(37), lg(38), lg(39), lg(40), lg(41), lg(42), lg(43), lg(44), lg(45), lg(46), lg(47), lg(48), lg(49), lg(50), lg(51), lg(52), lg(53), lg(54), lg(55), lg(56), lg(57),]; let log = take_log();
    ck!(b.as_slice() == &nat[..], "box_arr! list of 58: contents differ from the native array literal");
    ck!(log == seq(58), "box_arr! list of 58: element expressions were evaluated in order {:?}, expected 0..58 once each", &log[..log.len().min(12)]);
    ck!(*b == a, "box_arr! and arr! with the same arguments differ");
    Ok(())
}
const CL_58: GA<u8, N<58>> = arr![1u8, 6u8, 11u8, 16u8, 21u8, 26u8, 31u8, 36u8, 41u8, 46u8, 51u8, 56u8, 61u8, 66u8, 71u8, 76u8, 81u8, 86u8, 91u8, 96u8, 101u8, 106u8, 111u8, 116u8, 121u8, 126u8, 131u8, 136u8, 141u8, 146u8, 151u8, 156u8, 161u8, 166u8, 171u8, 176u8, 181u8, 186u8, 191u8, 196u8, 201u8, 206u8, 211u8, 216u8, 221u8, 226u8, 231u8, 236u8, 241u8, 246u8, 0u8, 5u8, 10u8, 15u8, 20u8, 25u8, 30u8, 35u8];
static SL_58: GA<u8, N<58>> = arr![1u8, 6u8, 11u8, 16u8, 21u8, 26u8, 31u8, 36u8, 41u8, 46u8, 51u8, 56u8, 61u8, 66u8, 71u8, 76u8, 81u8, 86u8, 91u8, 96u8, 101u8, 106u8, 111u8, 116u8, 121u8, 126u8, 131u8, 136u8, 141u8, 146u8, 151u8, 156u8, 161u8, 166u8, 171u8, 176u8, 181u8, 186u8, 191u8, 196u8, 201u8, 206u8, 211u8, 216u8, 221u8, 226u8, 231u8, 236u8, 241u8, 246u8, 0u8, 5u8, 10u8, 15u8, 20u8, 25u8, 30u8, 35u8,];
const fn cfl_58() -> GA<u8, N<58>> { arr![1u8, 6u8, 11u8, 16u8, 21u8, 26u8, 31u8, 36u8, 41u8, 46u8, 51u8, 56u8, 61u8, 66u8, 71u8, 76u8, 81u8, 86u8, 91u8, 96u8, 101u8, 106u8, 111u8, 116u8, 121u8, 126u8, 131u8, 136u8, 141u8, 146u8, 151u8, 156u8, 161u8, 166u8, 171u8, 176u8, 181u8, 186u8, 191u8, 196u8, 201u8, 206u8, 211u8, 216u8, 221u8, 226u8, 231u8, 236u8, 241u8, 246u8, 0u8, 5u8, 10u8, 15u8, 20u8, 25u8, 30u8, 35u8] }
fn case_list_const_58() -> Result<(), String> {
    let nat: [u8; 58] = [1u8, 6u8, 11u8, 16u8, 21u8, 26u8, 31u8, 36u8, 41u8, 46u8, 51u8, 56u8, 61u8, 66u8, 71u8, 76u8, 81u8, 86u8, 91u8, 96u8, 101u8, 106u8, 111u8, 116u8, 121u8, 126u8, 131u8, 136u8, 141u8, 146u8, 151u8, 156u8, 161u8, 166u8, 171u8, 176u8, 181u8, 186u8, 191u8, 196u8, 201u8, 206u8, 211u8, 216u8, 221u8, 226u8, 231u8, 236u8, 241u8, 246u8, 0u8, 5u8, 10u8, 15u8, 20u8, 25u8, 30u8, 35u8];
    ck!(CL_58.as_slice() == &nat[..] && SL_58.as_slice() == &nat[..] && cfl_58().as_slice() == &nat[..], "arr! list of 58 in const / static / const fn position differs from the native literal");
    Ok(())
}
fn case_list_59() -> Result<(), String> {
    take_log(); let a: GA<u32, N<59>> = arr![lg(0), lg(1), lg(2), lg(3), lg(4), lg(5), lg(6), lg(7), lg(8), lg(9), lg(10), lg(11), lg(12), lg(13), lg(14), lg(15), lg(16), lg(17), lg(18), lg(19), lg(20), lg(21), lg(22), lg(23), lg(24), lg(25), lg(26), lg(27), lg(28), lg(29), lg(30), lg(31), lg(32), lg(33), lg(34), lg(35), lg(36), lg(37), lg(38), lg(39), lg(40), lg(41), lg(42), lg(43), lg(44), lg(45), lg(46), lg(47), lg(48), lg(49), lg(50), lg(51), lg(52), lg(53), lg(54), lg(55), lg(56), lg(57), lg(58)]; let log = take_log();
    let nat: [u32; 59] = [0u32.wrapping_mul(2654435761), 1u32.wrapping_mul(2654435761), 2u32.wrapping_mul(2654435761), 3u32.wrapping_mul(2654435761), 4u32.wrapping_mul(2654435761), 5u32.wrapping_mul(2654435761), 6u32.wrapping_mul(2654435761), 7u32.wrapping_mul(2654435761), 8u32.wrapping_mul(2654435761), 9u32.wrapping_mul(2654435761), 10u32.wrapping_mul(2654435761), 11u32.wrapping_mul(2654435761), 12u32.wrapping_mul(2654435761), 13u32.wrapping_mul(2654435761), 14u32.wrapping_mul(2654435761), 15u32.wrapping_mul(2654435761), 16u32.wrapping_mul(2654435761), 17u32.wrapping_mul(2654435761), 18u32.wrapping_mul(2654435761), 19u32.wrapping_mul(2654435761), 20u32.wrapping_mul(2654435761), 21u32.wrapping_mul(2654435761), 22u32.wrapping_mul(2654435761), 23u32.wrapping_mul(2654435761), 24u32.wrapping_mul(2654435761), 25u32.wrapping_mul(2654435761), 26u32.wrapping_mul(2654435761), 27u32.wrapping_mul(2654435761), 28u32.wrapping_mul(2654435761), 29u32.wrapping_mul(2654435761), 30u32.wrapping_mul(2654435761), 31u32.wrapping_mul(2654435761), 32u32.wrapping_mul(2654435761), 33u32.wrapping_mul(2654435761), 34u32.wrapping_mul(2654435761), 35u32.wrapping_mul(2654435761), 36u32.wrapping_mul(2654435761), 37u32.wrapping_mul(2654435761), 38u32.wrapping_mul(2654435761), 39u32.wrapping_mul(2654435761), 40u32.wrapping_mul(2654435761), 41u32.wrapping_mul(2654435761), 42u32.wrapping_mul(2654435761), 43u32.wrapping_mul(2654435761), 44u32.wrapping_mul(2654435761), 45u32.wrapping_mul(2654435761), 46u32.wrapping_mul(2654435761), 47u32.wrapping_mul(2654435761), 48u32.wrapping_mul(2654435761), 49u32.wrapping_mul(2654435761), 50u32.wrapping_mul(2654435761), 51u32.wrapping_mul(2654435761), 52u32.wrapping_mul(2654435761), 53u32.wrapping_mul(2654435761), 54u32.wrapping_mul(2654435761), 55u32.wrapping_mul(2654435761), 56u32.wrapping_mul(2654435761), 57u32.wrapping_mul(2654435761), 58u32.wrapping_mul(2654435761)];
    ck!(a.as_slice() == &nat[..], "arr! list of 59: contents {:?} differ from the native array literal", &a.as_slice()[..a.len().min(8)]);
    ck!(log == seq(59), "arr! list of 59: element expressions were evaluated in order {:?}, expected 0..59 once each", &log[..log.len().min(12)]);
    take_log(); let b: Box<GA<u32, N<59>>> = box_arr![lg(0), lg(1), lg(2), lg(3), lg(4), lg(5), lg(6), lg(7), lg(8), lg(9), lg(10), lg(11), lg(12), lg(13), lg(14), lg(15), lg(16), lg(17), lg(18), lg(19), lg(20), lg(21), lg(22), lg(23), lg(24), lg(25), lg(26), lg(27), lg(28), lg(29), lg(30), lg(31), lg(32), lg(33), lg(34), lg(35), lg(36), lg(37), lg(38), lg(39), lg(40), lg(41), lg(42), lg(43), lg(44), lg(45), lg(46), lg(47), lg(48), lg(49), lg(50), lg(51), lg(52), lg(53), lg(54), lg(55), lg(56), lg(57), lg(58)]; let log = take_log();
    ck!(b.as_slice() == &nat[..], "box_arr! list of 59: contents differ from the native array literal");
    ck!(log == seq(59), "box_arr! list of 59: element expressions were evaluated in order {:?}, expected 0..59 once each", &log[..log.len().min(12)]);
    ck!(*b == a, "box_arr! and arr! with the same arguments differ");
    Ok(())
}
fn case_list_59_trailing() -> Result<(), String> {
    take_log(); let a: GA<u32, N<59>> = arr![lg(0), lg(1), lg(2), lg(3), lg(4), lg(5), lg(6), lg(7), lg(8), lg(9), lg(10), lg(11), lg(12), lg(13), lg(14), lg(15), lg(16), lg(17), lg(18), lg(19), lg(20), lg(21), lg(22), lg(23), lg(24), lg(25), lg(26), lg(27), lg(28), lg(29), lg(30), lg(31), lg(32), lg(33), lg(34), lg(35), lg(36), lg(37), lg(38), lg(39), lg(40), lg(41), lg(42), lg(43), lg(44), lg(45), lg(46), lg(47), lg(48), lg(49), lg(50), lg(51), lg(52), lg(53), lg(54), lg(55), lg(56), lg(57), lg(58),]; let log = take_log();
    let nat: [u32; 59] = [0u32.wrapping_mul(2654435761), 1u32.wrapping_mul(2654435761), 2u32.wrapping_mul(2654435761), 3u32.wrapping_mul(2654435761), 4u32.wrapping_mul(2654435761), 5u32.wrapping_mul(2654435761), 6u32.wrapping_mul(2654435761), 7u32.wrapping_mul(2654435761), 8u32.wrapping_mul(2654435761), 9u32.wrapping_mul(2654435761), 10u32.wrapping_mul(2654435761), 11u32.wrapping_mul(2654435761), 12u32.wrapping_mul(2654435761), 13u32.wrapping_mul(2654435761), 14u32.wrapping_mul(2654435761), 15u32.wrapping_mul(2654435761), 16u32.wrapping_mul(2654435761), 17u32.wrapping_mul(2654435761), 18u32.wrapping_mul(2654435761), 19u32.wrapping_mul(2654435761), 20u32.wrapping_mul(2654435761), 21u32.wrapping_mul(2654435761), 22u32.wrapping_mul(2654435761), 23u32.wrapping_mul(2654435761), 24u32.wrapping_mul(2654435761), 25u32.wrapping_mul(2654435761), 26u32.wrapping_mul(2654435761), 27u32.wrapping_mul(2654435761), 28u32.wrapping_mul(2654435761), 29u32.wrapping_mul(2654435761), 30u32.wrapping_mul(2654435761), 31u32.wrapping_mul(2654435761), 32u32.wrapping_mul(2654435761), 33u32.wrapping_mul(2654435761), 34u32.wrapping_mul(2654435761), 35u32.wrapping_mul(2654435761), 36u32.wrapping_mul(2654435761), 37u32.wrapping_mul(2654435761), 38u32.wrapping_mul(2654435761), 39u32.wrapping_mul(2654435761), 40u32.wrapping_mul(2654435761), 41u32.wrapping_mul(2654435761), 42u32.wrapping_mul(2654435761), 43u32.wrapping_mul(2654435761), 44u32.wrapping_mul(2654435761), 45u32.wrapping_mul(2654435761), 46u32.wrapping_mul(2654435761), 47u32.wrapping_mul(2654435761), 48u32.wrapping_mul(2654435761), 49u32.wrapping_mul(2654435761), 50u32.wrapping_mul(2654435761), 51u32.wrapping_mul(2654435761), 52u32.wrapping_mul(2654435761), 53u32.wrapping_mul(2654435761), 54u32.wrapping_mul(2654435761), 55u32.wrapping_mul(2654435761), 56u32.wrapping_mul(2654435761), 57u32.wrapping_mul(2654435761), 58u32.wrapping_mul(2654435761)];
    ck!(a.as_slice() == &nat[..], "arr! list of 59: contents {:?} differ from the native array literal", &a.as_slice()[..a.len().min(8)]);
    ck!(log == seq(59), "arr! list of 59: element expressions were evaluated in order {:?}, expected 0..59 once each", &log[..log.len().min(12)]);
    take_log(); let b: Box<GA<u32, N<59>>> = box_arr![lg(0), lg(1), lg(2), lg(3), lg(4), lg(5), lg(6), lg(7), lg(8), lg(9), lg(10), lg(11), lg(12), lg(13), lg(14), lg(15), lg(16), lg(17), lg(18), lg(19), lg(20), lg(21), lg(22), lg(23), lg(24), lg(25), lg(26), lg(27), lg(28), lg(29), lg(30), lg(31), lg(32), lg(33), lg(34), lg(35), lg(36), lg(37), lg(38), lg(39), lg(40), lg(41), lg(42), lg(43), lg(44), lg(45), lg(46), lg(47), lg(48), lg(49), lg(50), lg(51), lg(52), lg(53), lg(54), lg(55), lg(56), lg(57), lg(58),]; let log = take_log();
    ck!(b.as_slice() == &nat[..], "box_arr! list of 59: contents differ from the native array literal");
    ck!(log == seq(59), "box_arr! list of 59: element expressions were evaluated in order {:?}, expected 0..59 once each", &log[..log.len().min(12)]);
    ck!(*b == a, "box_arr! and arr! with the same arguments differ");
    Ok(())
}
const CL_59: GA<u8, N<59>> = arr![1u8, 6u8, 11u8, 16u8, 21u8, 26u8, 31u8, 36u8, 41u8, 46u8, 51u8, 56u8, 61u8, 66u8, 71u8, 76u8, 81u8, 86u8, 91u8, 96u8, 101u8, 106u8, 111u8, 116u8, 121u8, 126u8, 131u8, 136u8, 141u8, 146u8, 151u8, 156u8, 161u8, 166u8, 171u8, 176u8, 181u8, 186u8, 191u8, 196u8, 201u8, 206u8, 211u8, 216u8, 221u8, 226u8, 231u8, 236u8, 241u8, 246u8, 0u8, 5u8, 10u8, 15u8, 20u8, 25u8, 30u8, 35u8, 40u8];
static SL_59: GA<u8, N<59>> = arr![1u8, 6u8, 11u8, 16u8, 21u8, 26u8, 31u8, 36u8, 41u8, 46u8, 51u8, 56u8, 61u8, 66u8, 71u8, 76u8, 81u8, 86u8, 91u8, 96u8, 101u8, 106u8, 111u8, 116u8, 121u8, 126u8, 131u8, 136u8, 141u8, 146u8, 151u8, 156u8, 161u8, 166u8, 171u8, 176u8, 181u8, 186u8, 191u8, 196u8, 201u8, 206u8, 211u8, 216u8, 221u8, 226u8, 231u8, 236u8, 241u8, 246u8, 0u8, 5u8, 10u8, 15u8, 20u8, 25u8, 30u8, 35u8, 40u8,];
const fn cfl_59() -> GA<u8, N<59>> { arr![1u8, 6u8, 11u8, 16u8, 21u8, 26u8, 31u8, 36u8, 41u8, 46u8, 51u8, 56u8, 61u8, 66u8, 71u8, 76u8, 81u8, 86u8, 91u8, 96u8, 101u8, 106u8, 111u8, 116u8, 121u8, 126u8, 131u8, 136u8, 141u8, 146u8, 151u8, 156u8, 161u8, 166u8, 171u8, 176u8, 181u8, 186u8, 191u8, 196u8, 201u8, 206u8, 211u8, 216u8, 221u8, 226u8, 231u8, 236u8, 241u8, 246u8, 0u8, 5u8, 10u8, 15u8, 20u8, 25u8, 30u8, 35u8, 40u8] }
fn case_list_const_59() -> Result<(), String> {
    let nat: [u8; 59] = [1u8, 6u8, 11u8, 16u8, 21u8, 26u8, 31u8, 36u8, 41u8, 46u8, 51u8, 56u8, 61u8, 66u8, 71u8, 76u8, 81u8, 86u8, 91u8, 96u8, 101u8, 106u8, 111u8, 116u8, 121u8, 126u8, 131u8, 136u8, 141u8, 146u8, 151u8, 156u8, 161u8, 166u8, 171u8, 176u8, 181u8, 186u8, 191u8, 196u8, 201u8, 206u8, 211u8, 216u8, 221u8, 226u8, 231u8, 236u8, 241u8, 246u8, 0u8, 5u8, 10u8, 15u8, 20u8, 25u8, 30u8, 35u8, 40u8];
    ck!(CL_59.as_slice() == &nat[..] && SL_59.as_slice() == &nat[..] && cfl_59().as_slice() == &nat[..], "arr! list of 59 in const / static / const fn position differs from the native literal");
    Ok(())
}
fn case_list_60() -> Result<(), String> {
    take_log(); let a: GA<u32, N<60>> = arr![lg(0), lg(1), lg(2), lg(3), lg(4), lg(5), lg(6), lg(7), lg(8), lg(9), lg(10), lg(11), lg(12), lg(13), lg(14), lg(15), lg(16), lg(17), lg(18), lg(19), lg(20), lg(21), lg(22), lg(23), lg(24), lg(25), lg(26), lg(27), lg(28), lg(29), lg(30), lg(31), lg(32), lg(33), lg(34), lg(35), lg(36), lg(37), lg(38), lg(39), lg(40), lg(41), lg(42), lg(43), lg(44), lg(45), lg(46), lg(47), lg(48), lg(49), lg(50), lg(51), lg(52), lg(53), lg(54), lg(55), lg(56), lg(57), lg(58), lg(59)]; let log = take_log();
    let nat: [u32; 60] = [0u32.wrapping_mul(2654435761), 1u32.wrapping_mul(2654435761), 2u32.wrapping_mul(2654435761), 3u32.wrapping_mul(2654435761), 4u32.wrapping_mul(2654435761), 5u32.wrapping_mul(2654435761), 6u32.wrapping_mul(2654435761), 7u32.wrapping_mul(2654435761), 8u32.wrapping_mul(2654435761), 9u32.wrapping_mul(2654435761), 10u32.wrapping_mul(2654435761), 11u32.wrapping_mul(2654435761), 12u32.wrapping_mul(2654435761), 13u32.wrapping_mul(2654435761), 14u32.wrapping_mul(2654435761), 15u32.wrapping_mul(2654435761), 16u32.wrapping_mul(2654435761), 17u32.wrapping_mul(2654435761), 18u32.wrapping_mul(2654435761), 19u32.wrapping_mul(2654435761), 20u32.wrapping_mul(2654435761), 21u32.wrapping_mul(2654435761), 22u32.wrapping_mul(2654435761), 23u32.wrapping_mul(2654435761), 24u32.wrapping_mul(2654435761), 25u32.wrapping_mul(2654435761), 26u32.wrapping_mul(2654435761), 27u32.wrapping_mul(2654435761), 28u32.wrapping_mul(2654435761), 29u32.wrapping_mul(2654435761), 30u32.wrapping_mul(2654435761), 31u32.wrapping_mul(2654435761), 32u32.wrapping_mul(2654435761), 33u32.wrapping_mul(2654435761), 34u32.wrapping_mul(2654435761), 35u32.wrapping_mul(2654435761), 36u32.wrapping_mul(2654435761), 37u32.wrapping_mul(2654435761), 38u32.wrapping_mul(2654435761), 39u32.wrapping_mul(2654435761), 40u32.wrapping_mul(2654435761), 41u32.wrapping_mul(2654435761), 42u32.wrapping_mul(2654435761), 43u32.wrapping_mul(2654435761), 44u32.wrapping_mul(2654435761), 45u32.wrapping_mul(2654435761), 46u32.wrapping_mul(2654435761), 47u32.wrapping_mul(2654435761), 48u32.wrapping_mul(2654435761), 49u32.wrapping_mul(2654435761), 50u32.wrapping_mul(2654435761), 51u32.wrapping_mul(2654435761), 52u32.wrapping_mul(2654435761), 53u32.wrapping_mul(2654435761), 54u32.wrapping_mul(2654435761), 55u32.wrapping_mul(2654435761), 56u32.wrapping_mul(2654435761), 57u32.wrapping_mul(2654435761), 58u32.wrapping_mul(2654435761), 59u32.wrapping_mul(2654435761)];
    ck!(a.as_slice() == &nat[..], "arr! list of 60: contents {:?} differ from the native array literal", &a.as_slice()[..a.len().min(8)]);
    ck!(log == seq(60), "arr! list of 60: element expressions were evaluated in order {:?}, expected 0..60 once each", &log[..log.len().min(12)]);
    take_log(); let b: Box<GA<u32, N<60>>> = box_arr![lg(0), lg(1), lg(2), lg(3), lg(4), lg(5), lg(6), lg(7), lg(8), lg(9), lg(10), lg(11), lg(12), lg(13), lg(14), lg(15), lg(16), lg(17), lg(18), lg(19), lg(20), lg(21), lg(22), lg(23), lg(24), lg(25), lg(26), lg(27), lg(28), lg(29), lg(30), lg(31), lg(32), lg(33), lg(34), lg(35), lg(36), lg(37), lg(38), lg(39), lg(40), lg(41), lg(42), lg(43), lg(44), lg(45), lg(46), lg(47), lg(48), lg(49), lg(50), lg(51), lg(52), lg(53), lg(54), lg(55), lg(56), lg(57), lg(58), lg(59)]; let log = take_log();
    ck!(b.as_slice() == &nat[..], "box_arr! list of 60: contents differ from the native array literal");
    ck!(log == seq(60), "box_arr! list of 60: element expressions were evaluated in order {:?}, expected 0..60 once each", &log[..log.len().min(12)]);
    ck!(*b == a, "box_arr! and arr! with the same arguments differ");
    Ok(())
}
fn case_list_60_trailing() -> Result<(), String> {
    take_log(); let a: GA<u32, N<60>> = arr![lg(0), lg(1), lg(2), lg(3), lg(4), lg(5), lg(6), lg(7), lg(8), lg(9), lg(10), lg(11), lg(12), lg(13), lg(14), lg(15), lg(16), lg(17), lg(18), lg(19), lg(20), lg(21), lg(22), lg(23), lg(24), lg(25), lg(26), lg(27), lg(28), lg(29), lg(30), lg(31), lg(32), lg(33), lg(34), lg(35), lg(36), lg(37), lg(38), lg(39), lg(40), lg(41), lg(42), lg(43), lg(44), lg(45), lg(46), lg(47), lg(48), lg(49), lg(50), lg(51), lg(52), lg(53), lg(54), lg(55), lg(56), lg(57), lg(58), lg(59),]; let log = take_log();
    let nat: [u32; 60] = [0u32.wrapping_mul(2654435761), 1u32.wrapping_mul(2654435761), 2u32.wrapping_mul(2654435761), 3u32.wrapping_mul(2654435761), 4u32.wrapping_mul(2654435761), 5u32.wrapping_mul(2654435761), 6u32.wrapping_mul(2654435761), 7u32.wrapping_mul(2654435761), 8u32.wrapping_mul(2654435761), 9u32.wrapping_mul(2654435761), 10u32.wrapping_mul(2654435761), 11u32.wrapping_mul(2654435761), 12u32.wrapping_mul(2654435761), 13u32.wrapping_mul(2654435761), 14u32.wrapping_mul(2654435761), 15u32.wrapping_mul(2654435761), 16u32.wrapping_mul(2654435761), 17u32.wrapping_mul(2654435761), 18u32.wrapping_mul(2654435761), 19u32.wrapping_mul(2654435761), 20u32.wrapping_mul(2654435761), 21u32.wrapping_mul(2654435761), 22u32.wrapping_mul(2654435761), 23u32.wrapping_mul(2654435761), 24u32.wrapping_mul(2654435761), 25u32.wrapping_mul(2654435761), 26u32.wrapping_mul(2654435761), 27u32.wrapping_mul(2654435761), 28u32.wrapping_mul(2654435761), 29u32.wrapping_mul(2654435761), 30u32.wrapping_mul(2654435761), 31u32.wrapping_mul(2654435761), 32u32.wrapping_mul(2654435761), 33u32.wrapping_mul(2654435761), 34u32.wrapping_mul(2654435761), 35u32.wrapping_mul(2654435761), 36u32.wrapping_mul(2654435761), 37u32.wrapping_mul(2654435761), 38u32.wrapping_mul(2654435761), 39u32.wrapping_mul(2654435761), 40u32.wrapping_mul(2654435761), 41u32.wrapping_mul(2654435761), 42u32.wrapping_mul(2654435761), 43u32.wrapping_mul(2654435761), 44u32.wrapping_mul(2654435761), 45u32.wrapping_mul(2654435761), 46u32.wrapping_mul(2654435761), 47u32.wrapping_mul(2654435761), 48u32.wrapping_mul(2654435761), 49u32.wrapping_mul(2654435761), 50u32.wrapping_mul(2654435761), 51u32.wrapping_mul(2654435761), 52u32.wrapping_mul(2654435761), 53u32.wrapping_mul(2654435761), 54u32.wrapping_mul(2654435761), 55u32.wrapping_mul(2654435761), 56u32.wrapping_mul(2654435761), 57u32.wrapping_mul(2654435761), 58u32.wrapping_mul(2654435761), 59u32.wrapping_mul(2654435761)];
    ck!(a.as_slice() == &nat[..], "arr! list of 60: contents {:?} differ from the native array literal", &a.as_slice()[..a.len().min(8)]);
    ck!(log == seq(60), "arr! list of 60: element expressions were evaluated in order {:?}, expected 0..60 once each", &log[..log.len().min(12)]);
    take_log(); let b: Box<GA<u32, N<60>>> = box_arr![lg(0), lg(1), lg(2), lg(3), lg(4), lg(5), lg(6), lg(7), lg(8), lg(9), lg(10), lg(11), lg(12), lg(13), lg(14), lg(15), lg(16), lg(17), lg(18), lg(19), lg(20), lg(21), lg(22), lg(23), lg(24), lg(25), lg(26), lg(27), lg(28), lg(29), lg(30), lg(31), lg(32), lg(33), lg(34), lg(35), lg(36), lg(37), lg(38), lg(39), lg(40), lg(41), lg(42), lg(43), lg(44), lg(45), lg(46), lg(47), lg(48), lg(49), lg(50), lg(51), lg(52), lg(53), lg(54), lg(55), lg(56), lg(57), lg(58), lg(59),]; let log = take_log();
    ck!(b.as_slice() == &nat[..], "box_arr! list of 60: contents differ from the native array literal");
    ck!(log == seq(60), "box_arr! list of 60: element expressions were evaluated in order {:?}, expected 0..60 once each", &log[..log.len().min(12)]);
    ck!(*b == a, "box_arr! and arr! with the same arguments differ");
    Ok(())
}
const CL_60: GA<u8, N<60>> = arr![1u8, 6u8, 11u8, 16u8, 21u8, 26u8, 31u8, 36u8, 41u8, 46u8, 51u8, 56u8, 61u8, 66u8, 71u8, 76u8, 81u8, 86u8, 91u8, 96u8, 101u8, 106u8, 111u8, 116u8, 121u8, 126u8, 131u8, 136u8, 141u8, 146u8, 151u8, 156u8, 161u8, 166u8, 171u8, 176u8, 181u8, 186u8, 191u8, 196u8, 201u8, 206u8, 211u8, 216u8, 221u8, 226u8, 231u8, 236u8, 241u8, 246u8, 0u8, 5u8, 10u8, 15u8, 20u8, 25u8, 30u8, 35u8, 40u8, 45u8];
static SL_60: GA<u8, N<60>> = arr![1u8, 6u8, 11u8, 16u8, 21u8, 26u8, 31u8, 36u8, 41u8, 46u8, 51u8, 56u8, 61u8, 66u8, 71u8, 76u8, 81u8, 86u8, 91u8, 96u8, 101u8, 106u8, 111u8, 116u8, 121u8, 126u8, 131u8, 136u8, 141u8, 146u8, 151u8, 156u8, 161u8, 166u8, 171u8, 176u8, 181u8, 186u8, 191u8, 196u8, 201u8, 206u8, 211u8, 216u8, 221u8, 226u8, 231u8, 236u8, 241u8, 246u8, 0u8, 5u8, 10u8, 15u8, 20u8, 25u8, 30u8, 35u8, 40u8, 45u8,];
const fn cfl_60() -> GA<u8, N<60>> { arr![1u8, 6u8, 11u8, 16u8, 21u8, 26u8, 31u8, 36u8, 41u8, 46u8, 51u8, 56u8, 61u8, 66u8, 71u8, 76u8, 81u8, 86u8, 91u8, 96u8, 101u8, 106u8, 111u8, 116u8, 121u8, 126u8, 131u8, 136u8, 141u8, 146u8, 151u8, 156u8, 161u8, 166u8, 171u8, 176u8, 181u8, 186u8, 191u8, 196u8, 201u8, 206u8, 211u8, 216u8, 221u8, 226u8, 231u8, 236u8, 241u8, 246u8, 0u8, 5u8, 10u8, 15u8, 20u8, 25u8, 30u8, 35u8, 40u8, 45u8] }
fn case_list_const_60() -> Result<(), String> {
    let nat: [u8; 60] = [1u8, 6u8, 11u8, 16u8, 21u8, 26u8, 31u8, 36u8, 41u8, 46u8, 51u8, 56u8, 61u8, 66u8, 71u8, 76u8, 81u8, 86u8, 91u8, 96u8, 101u8, 106u8, 111u8, 116u8, 121u8, 126u8, 131u8, 136u8, 141u8, 146u8, 151u8, 156u8, 161u8, 166u8, 171u8, 176u8, 181u8, 186u8, 191u8, 196u8, 201u8, 206u8, 211u8, 216u8, 221u8, 226u8, 231u8, 236u8, 241u8, 246u8, 0u8, 5u8, 10u8, 15u8, 20u8, 25u8, 30u8, 35u8, 40u8, 45u8];
    ck!(CL_60.as_slice() == &nat[..] && SL_60.as_slice() == &nat[..] && cfl_60().as_slice() == &nat[..], "arr! list of 60 in const / static / const fn position differs from the native literal");
    Ok(())
}
fn case_list_61() -> Result<(), String> {
    take_log(); let a: GA<u32, N<61>> = arr![lg(0), lg(1), lg(2), lg(3), lg(4), lg(5), lg(6), lg(7), lg(8), lg(9), lg(10), lg(11), lg(12), lg(13), lg(14), lg(15), lg(16), lg(17), lg(18), lg(19), lg(20), lg(21), lg(22), lg(23), lg(24), lg(25), lg(26), lg(27), lg(28), lg(29), lg(30), lg(31), lg(32), lg(33), lg(34), lg(35), lg(36), lg(37), lg(38), lg(39), lg(40), lg(41), lg(42), lg(43), lg(44), lg(45), lg(46), lg(47), lg(48), lg(49), lg(50), lg(51), lg(52), lg(53), lg(54), lg(55), lg(56), lg(57), lg(58), lg(59), lg(60)]; let log = take_log();
    let nat: [u32; 61] = [0u32.wrapping_mul(2654435761), 1u32.wrapping_mul(2654435761), 2u32.wrapping_mul(2654435761), 3u32.wrapping_mul(2654435761), 4u32.wrapping_mul(2654435761), 5u32.wrapping_mul(2654435761), 6u32.wrapping_mul(2654435761), 7u32.wrapping_mul(2654435761), 8u32.wrapping_mul(2654435761), 9u32.wrapping_mul(2654435761), 10u32.wrapping_mul(2654435761), 11u32.wrapping_mul(2654435761), 12u32.wrapping_mul(2654435761), 13u32.wrapping_mul(2654435761), 14u32.wrapping_mul(2654435761), 15u32.wrapping_mul(2654435761), 16u32.wrapping_mul(2654435761), 17u32.wrapping_mul(2654435761), 18u32.wrapping_mul(2654435761), 19u32.wrapping_mul(2654435761), 20u32.wrapping_mul(2654435761), 21u32.wrapping_mul(2654435761), 22u32.wrapping_mul(2654435761), 23u32.wrapping_mul(2654435761), 24u32.wrapping_mul(2654435761), 25u32.wrapping_mul(2654435761), 26u32.wrapping_mul(2654435761), 27u32.wrapping_mul(2654435761), 28u32.wrapping_mul(2654435761), 29u32.wrapping_mul(2654435761), 30u32.wrapping_mul(2654435761), 31u32.wrapping_mul(2654435761), 32u32.wrapping_mul(2654435761), 33u32.wrapping_mul(2654435761), 34u32.wrapping_mul(2654435761), 35u32.wrapping_mul(2654435761), 36u32.wrapping_mul(2654435761), 37u32.wrapping_mul(2654435761), 38u32.wrapping_mul(2654435761), 39u32.wrapping_mul(2654435761), 40u32.wrapping_mul(2654435761), 41u32.wrapping_mul(2654435761), 42u32.wrapping_mul(2654435761), 43u32.wrapping_mul(2654435761), 44u32.wrapping_mul(2654435761), 45u32.wrapping_mul(2654435761), 46u32.wrapping_mul(2654435761), 47u32.wrapping_mul(2654435761), 48u32.wrapping_mul(2654435761), 49u32.wrapping_mul(2654435761), 50u32.wrapping_mul(2654435761), 51u32.wrapping_mul(2654435761), 52u32.wrapping_mul(2654435761), 53u32.wrapping_mul(2654435761), 54u32.wrapping_mul(2654435761), 55u32.wrapping_mul(2654435761), 56u32.wrapping_mul(2654435761), 57u32.wrapping_mul(2654435761), 58u32.wrapping_mul(2654435761), 59u32.wrapping_mul(2654435761), 60u32.wrapping_mul(2654435761)];
    ck!(a.as_slice() == &nat[..], "arr! list of 61: contents {:?} differ from the native array literal", &a.as_slice()[..a.len().min(8)]);
    ck!(log == seq(61), "arr! list of 61: element expressions were evaluated in order {:?}, expected 0..61 once each", &log[..log.len().min(12)]);
    take_log(); let b: Box<GA<u32, N<61>>> = box_arr![lg(0), lg(1), lg(2), lg(3), lg(4), lg(5), lg(6), lg(7), lg(8), lg(9), lg(10), lg(11), lg(12), lg(13), lg(14), lg(15), lg(16), lg(17), lg(18), lg(19), lg(20), lg(21), lg(22), lg(23), lg(24), lg(25), lg(26), lg(27), lg(28), lg(29), lg(30), lg(31), lg(32), lg(33), lg(34), lg(35), lg(36), lg(37), lg(38), lg(39), lg(40), lg(41), lg(42), lg(43), lg(44), lg(45), lg(46), lg(47), lg(48), lg(49), lg(50), lg(51), lg(52), lg(53), lg(54), lg(55), lg(56), lg(57), lg(58), lg(59), lg(60)]; let log = take_log();
    ck!(b.as_slice() == &nat[..], "box_arr! list of 61: contents differ from the native array literal");
    ck!(log == seq(61), "box_arr! list of 61: element expressions were evaluated in order {:?}, expected 0..61 once each", &log[..log.len().min(12)]);
    ck!(*b == a, "box_arr! and arr! with the same arguments differ");
    Ok(())
}
fn case_list_61_trailing() -> Result<(), String> {
    take_log(); let a: GA<u32, N<61>> = arr![lg(0), lg(1), lg(2), lg(3), lg(4), lg(5), lg(6), lg(7), lg(8), lg(9), lg(10), lg(11), lg(12), lg(13), lg(14), lg(15), lg(16), lg(17), lg(18), lg(19), lg(20), lg(21), lg(22), lg(23), lg(24), lg(25), lg(26), lg(27), lg(28), lg(29), lg(30), lg(31), lg(32), lg(33), lg(34), lg(35), lg(36), lg(37), lg(38), lg(39), lg(40), lg(41), lg(42), lg(43), lg(44), lg(45), lg(46), lg(47), lg(48), lg(49), lg(50), lg(51), lg(52), lg(53), lg(54), lg(55), lg(56), lg(57), lg(58), lg(59), lg(60),]; let log = take_log();
    let nat: [u32; 61] = [0u32.wrapping_mul(2654435761), 1u32.wrapping_mul(2654435761), 2u32.wrapping_mul(2654435761), 3u32.wrapping_mul(2654435761), 4u32.wrapping_mul(2654435761), 5u32.wrapping_mul(2654435761), 6u32.wrapping_mul(2654435761), 7u32.wrapping_mul(2654435761), 8u32.wrapping_mul(2654435761), 9u32.wrapping_mul(2654435761), 10u32.wrapping_mul(2654435761), 11u32.wrapping_mul(2654435761), 12u32.wrapping_mul(2654435761), 13u32.wrapping_mul(2654435761), 14u32.wrapping_mul(2654435761), 15u32.wrapping_mul(2654435761), 16u32.wrapping_mul(2654435761), 17u32.wrapping_mul(2654435761), 18u32.wrapping_mul(2654435761), 19u32.wrapping_mul(2654435761), 20u32.wrapping_mul(2654435761), 21u32.wrapping_mul(2654435761), 22u32.wrapping_mul(2654435761), 23u32.wrapping_mul(2654435761), 24u32.wrapping_mul(2654435761), 25u32.wrapping_mul(2654435761), 26u32.wrapping_mul(2654435761), 27u32.wrapping_mul(2654435761), 28u32.wrapping_mul(2654435761), 29u32.wrapping_mul(2654435761), 30u32.wrapping_mul(2654435761), 31u32.wrapping_mul(2654435761), 32u32.wrapping_mul(2654435761), 33u32.wrapping_mul(2654435761), 34u32.wrapping_mul(2654435761), 35u32.wrapping_mul(2654435761), 36u32.wrapping_mul(2654435761), 37u32.wrapping_mul(2654435761), 38u32.wrapping_mul(2654435761), 39u32.wrapping_mul(2654435761), 40u32.wrapping_mul(2654435761), 41u32.wrapping_mul(2654435761), 42u32.wrapping_mul(2654435761), 43u32.wrapping_mul(2654435761), 44u32.wrapping_mul(2654435761), 45u32.wrapping_mul(2654435761), 46u32.wrapping_mul(2654435761), 47u32.wrapping_mul(2654435761), 48u32.wrapping_mul(2654435761), 49u32.wrapping_mul(2654435761), 50u32.wrapping_mul(2654435761), 51u32.wrapping_mul(2654435761), 52u32.wrapping_mul(2654435761), 53u32.wrapping_mul(2654435761), 54u32.wrapping_mul(2654435761), 55u32.wrapping_mul(2654435761), 56u32.wrapping_mul(2654435761), 57u32.wrapping_mul(2654435761), 58u32.wrapping_mul(2654435761), 59u32.wrapping_mul(2654435761), 60u32.wrapping_mul(2654435761)];
    ck!(a.as_slice() == &nat[..], "arr! list of 61: contents {:?} differ from the native array literal", &a.as_slice()[..a.len().min(8)]);
    ck!(log == seq(61), "arr! list of 61: element expressions were evaluated in order {:?}, expected 0..61 once each", &log[..log.len().min(12)]);
    take_log(); let b: Box<GA<u32, N<61>>> = box_arr![lg(0), lg(1), lg(2), lg(3), lg(4), lg(5), lg(6), lg(7), lg(8), lg(9), lg(10), lg(11), lg(12), lg(13), lg(14), lg(15), lg(16), lg(17), lg(18), lg(19), lg(20), lg(21), lg(22), lg(23), lg(24), lg(25), lg(26), lg(27), lg(28), lg(29), lg(30), lg(31), lg(32), lg(33), lg(34), lg(35), lg(36), lg(37), lg(38), lg(39), lg(40), lg(41), lg(42), lg(43), lg(44), lg(45), lg(46), lg(47), lg(48), lg(49), lg(50), lg(51), lg(52), lg(53), lg(54), lg(55), lg(56), lg(57), lg(58), lg(59), lg(60),]; let log = take_log();
    ck!(b.as_slice() == &nat[..], "box_arr! list of 61: contents differ from the native array literal");
    ck!(log == seq(61), "box_arr! list of 61: element expressions were evaluated in order {:?}, expected 0..61 once each", &log[..log.len().min(12)]);
    ck!(*b == a, "box_arr! and arr! with the same arguments differ");
    Ok(())
}
const CL_61: GA<u8, N<61>> = arr![1u8, 6u8, 11u8, 16u8, 21u8, 26u8, 31u8, 36u8, 41u8, 46u8, 51u8, 56u8, 61u8, 66u8, 71u8, 76u8, 81u8, 86u8, 91u8, 96u8, 101u8, 106u8, 111u8, 116u8, 121u8, 126u8, 131u8, 136u8, 141u8, 146u8, 151u8, 156u8, 161u8, 166u8, 171u8, 176u8, 181u8, 186u8, 191u8, 196u8, 201u8, 206u8, 211u8, 216u8, 221u8, 226u8, 231u8, 236u8, 241u8, 246u8, 0u8, 5u8, 10u8, 15u8, 20u8, 25u8, 30u8, 35u8, 40u8, 45u8, 50u8];
static SL_61: GA<u8, N<61>> = arr![1u8, 6u8, 11u8, 16u8, 21u8, 26u8, 31u8, 36u8, 41u8, 46u8, 51u8, 56u8, 61u8, 66u8, 71u8, 76u8, 81u8, 86u8, 91u8, 96u8, 101u8, 106u8, 111u8, 116u8, 121u8, 126u8, 131u8, 136u8, 141u8, 146u8, 151u8, 156u8, 161u8, 166u8, 171u8, 176u8, 181u8, 186u8, 191u8, 196u8, 201u8, 206u8, 211u8, 216u8, 221u8, 226u8, 231u8, 236u8, 241u8, 246u8, 0u8, 5u8, 10u8, 15u8, 20u8, 25u8, 30u8, 35u8, 40u8, 45u8, 50u8,];
const fn cfl_61() -> GA<u8, N<61>> { arr![1u8, 6u8, 11u8, 16u8, 21u8, 26u8, 31u8, 36u8, 41u8, 46u8, 51u8, 56u8, 61u8, 66u8, 71u8, 76u8, 81u8, 86u8, 91u8, 96u8, 101u8, 106u8, 111u8, 116u8, 121u8, 126u8, 131u8, 136u8, 141u8, 146u8, 151u8, 156u8, 161u8, 166u8, 171u8, 176u8, 181u8, 186u8, 191u8, 196u8, 201u8, 206u8, 211u8, 216u8, 221u8, 226u8, 231u8, 236u8, 241u8, 246u8, 0u8, 5u8, 10u8, 15u8, 20u8, 25u8, 30u8, 35u8, 40u8, 45u8, 50u8] }
fn case_list_const_61() -> Result<(), String> {
    let nat: [u8; 61] = [1u8, 6u8, 11u8, 16u8, 21u8, 26u8, 31u8, 36u8, 41u8, 46u8, 51u8, 56u8, 61u8, 66u8, 71u8, 76u8, 81u8, 86u8, 91u8, 96u8, 101u8, 106u8, 111u8, 116u8, 121u8, 126u8, 131u8, 136u8, 141u8, 146u8, 151u8, 156u8, 161u8, 166u8, 171u8, 176u8, 181u8, 186u8, 191u8, 196u8, 201u8, 206u8, 211u8, 216u8, 221u8, 226u8, 231u8, 236u8, 241u8, 246u8, 0u8, 5u8, 10u8, 15u8, 20u8, 25u8, 30u8, 35u8, 40u8, 45u8, 50u8];
    ck!(CL_61.as_slice() == &nat[..] && SL_61.as_slice() == &nat[..] && cfl_61().as_slice() == &nat[..], "arr! list of 61 in const / static / const fn position differs from the native literal");
    Ok(())
}
fn case_list_62() -> Result<(), String> {
    take_log(); let a: GA<u32, N<62>> = arr![lg(0), lg(1), lg(2), lg(3), lg(4), lg(5), lg(6), lg(7), lg(8), lg(9), lg(10), lg(11), lg(12), lg(13), lg(14), lg(15), lg(16), lg(17), lg(18), lg(19), lg(20), lg(21), lg(22), lg(23), lg(24), lg(25), lg(26), lg(27), lg(28), lg(29), lg(30), lg(31), lg(32), lg(33), lg(34), lg(35), lg(36), lg(37), lg(38), lg(39), lg(40), lg(41), lg(42), lg(43), lg(44), lg(45), lg(46), lg(47), lg(48), lg(49), lg(50), lg(51), lg(52), lg(53), lg(54), lg(55), lg(56), lg(57), lg(58), lg(59), lg(60), lg(61)]; let log = take_log();
    let nat: [u32; 62] = [0u32.wrapping_mul(2654435761), 1u32.wrapping_mul(2654435761), 2u32.wrapping_mul(2654435761), 3u32.wrapping_mul(2654435761), 4u32.wrapping_mul(2654435761), 5u32.wrapping_mul(2654435761), 6u32.wrapping_mul(2654435761), 7u32.wrapping_mul(2654435761), 8u32.wrapping_mul(2654435761), 9u32.wrapping_mul(2654435761), 10u32.wrapping_mul(2654435761), 11u32.wrapping_mul(2654435761), 12u32.wrapping_mul(2654435761), 13u32.wrapping_mul(2654435761), 14u32.wrapping_mul(2654435761), 15u32.wrapping_mul(2654435761), 16u32.wrapping_mul(2654435761), 17u32.wrapping_mul(2654435761), 18u32.wrapping_mul(2654435761), 19u32.wrapping_mul(2654435761), 20u32.wrapping_mul(2654435761), 21u32.wrapping_mul(2654435761), 22u32.wrapping_mul(2654435761), 23u32.wrapping_mul(2654435761), 24u32.wrapping_mul(2654435761), 25u32.wrapping_mul(2654435761), 26u32.wrapping_mul(2654435761), 27u32.wrapping_mul(2654435761), 28u32.wrapping_mul(2654435761), 29u32.wrapping_mul(2654435761), 30u32.wrapping_mul(2654435761), 31u32.wrapping_mul(2654435761), 32u32.wrapping_mul(2654435761), 33u32.wrapping_mul(2654435761), 34u32.wrapping_mul(2654435761), 35u32.wrapping_mul(2654435761), 36u32.wrapping_mul(2654435761), 37u32.wrapping_mul(2654435761), 38u32.wrapping_mul(2654435761), 39u32.wrapping_mul(2654435761), 40u32.wrapping_mul(2654435761), 41u32.wrapping_mul(2654435761), 42u32.wrapping_mul(2654435761), 43u32.wrapping_mul(2654435761), 44u32.wrapping_mul(2654435761), 45u32.wrapping_mul(2654435761), 46u32.wrapping_mul(2654435761), 47u32.wrapping_mul(2654435761), 48u32.wrapping_mul(2654435761), 49u32.wrapping_mul(2654435761), 50u32.wrapping_mul(2654435761), 51u32.wrapping_mul(2654435761), 52u32.wrapping_mul(2654435761), 53u32.wrapping_mul(2654435761), 54u32.wrapping_mul(2654435761), 55u32.wrapping_mul(2654435761), 56u32.wrapping_mul(2654435761), 57u32.wrapping_mul(2654435761), 58u32.wrapping_mul(2654435761), 59u32.wrapping_mul(2654435761), 60u32.wrapping_mul(2654435761), 61u32.wrapping_mul(2654435761)];
    ck!(a.as_slice() == &nat[..], "arr! list of 62: contents {:?} differ from the native array literal", &a.as_slice()[..a.len().min(8)]);
    ck!(log == seq(62), "arr! list of 62: element expressions were evaluated in order {:?}, expected 0..62 once each", &log[..log.len().min(12)]);
    take_log(); let b: Box<GA<u32, N<62>>> = box_arr![lg(0), lg(1), lg(2), lg(3), lg(4), lg(5), lg(6), lg(7), lg(8), lg(9), lg(10), lg(11), lg(12), lg(13), lg(14), lg(15), lg(16), lg(17), lg(18), lg(19), lg(20), lg(21), lg(22), lg(23), lg(24), lg(25), lg(26), lg(27), lg(28), lg(29), lg(30), lg(31), lg(32), lg(33), lg(34), lg(35), lg(36), lg(37), lg(38), lg(39), lg(40), lg(41), lg(42), lg(43), lg(44), lg(45), lg(46), lg(47), lg(48), lg(49), lg(50), lg(51), lg(52), lg(53), lg(54), lg(55), lg(56), lg(57), lg(58), lg(59), lg(60), lg(61)]; let log = take_log();
    ck!(b.as_slice() == &nat[..], "box_arr! list of 62: contents differ from the native array literal");
    ck!(log == seq(62), "box_arr! list of 62: element expressions were evaluated in order {:?}, expected 0..62 once each", &log[..log.len().min(12)]);
    ck!(*b == a, "box_arr! and arr! with the same arguments differ");
    Ok(())
}
fn case_list_62_trailing() -> Result<(), String> {
    take_log(); let a: GA<u32, N<62>> = arr![lg(0), lg(1), lg(2), lg(3), lg(4), lg(5), lg(6), lg(7), lg(8), lg(9), lg(10), lg(11), lg(12), lg(13), lg(14), lg(15), lg(16), lg(17), lg(18), lg(19), lg(20), lg(21), lg(22), lg(23), lg(24), lg(25), lg(26), lg(27), lg(28), lg(29), lg(30), lg(31), lg(32), lg(33), lg(34), lg(35), lg(36), lg(37), lg(38), lg(39), lg(40), lg(41), lg(42), lg(43), lg(44), lg(45), lg(46), lg(47), lg(48), lg(49), lg(50), lg(51), lg(52), lg(53), lg(54), lg(55), lg(56), lg(57), lg(58), lg(59), lg(60), lg(61),]; let log = take_log();
    let nat: [u32; 62] = [0u32.wrapping_mul(2654435761), 1u32.wrapping_mul(2654435761), 2u32.wrapping_mul(2654435761), 3u32.wrapping_mul(2654435761), 4u32.wrapping_mul(2654435761), 5u32.wrapping_mul(2654435761), 6u32.wrapping_mul(2654435761), 7u32.wrapping_mul(2654435761), 8u32.wrapping_mul(2654435761), 9u32.wrapping_mul(2654435761), 10u32.wrapping_mul(2654435761), 11u32.wrapping_mul(2654435761), 12u32.wrapping_mul(2654435761), 13u32.wrapping_mul(2654435761), 14u32.wrapping_mul(2654435761), 15u32.wrapping_mul(2654435761), 16u32.wrapping_mul(2654435761), 17u32.wrapping_mul(2654435761), 18u32.wrapping_mul(2654435761), 19u32.wrapping_mul(2654435761), 20u32.wrapping_mul(2654435761), 21u32.wrapping_mul(2654435761), 22u32.wrapping_mul(2654435761), 23u32.wrapping_mul(2654435761), 24u32.wrapping_mul(2654435761), 25u32.wrapping_mul(2654435761), 26u32.wrapping_mul(2654435761), 27u32.wrapping_mul(2654435761), 28u32.wrapping_mul(2654435761), 29u32.wrapping_mul(2654435761), 30u32.wrapping_mul(2654435761), 31u32.wrapping_mul(2654435761), 32u32.wrapping_mul(2654435761), 33u32.wrapping_mul(2654435761), 34u32.wrapping_mul(2654435761), 35u32.wrapping_mul(2654435761), 36u32.wrapping_mul(2654435761), 37u32.wrapping_mul(2654435761), 38u32.wrapping_mul(2654435761), 39u32.wrapping_mul(2654435761), 40u32.wrapping_mul(2654435761), 41u32.wrapping_mul(2654435761), 42u32.wrapping_mul(2654435761), 43u32.wrapping_mul(2654435761), 44u32.wrapping_mul(2654435761), 45u32.wrapping_mul(2654435761), 46u32.wrapping_mul(2654435761), 47u32.wrapping_mul(2654435761), 48u32.wrapping_mul(2654435761), 49u32.wrapping_mul(2654435761), 50u32.wrapping_mul(2654435761), 51u32.wrapping_mul(2654435761), 52u32.wrapping_mul(2654435761), 53u32.wrapping_mul(2654435761), 54u32.wrapping_mul(2654435761), 55u32.wrapping_mul(2654435761), 56u32.wrapping_mul(2654435761), 57u32.wrapping_mul(2654435761), 58u32.wrapping_mul(2654435761), 59u32.wrapping_mul(2654435761), 60u32.wrapping_mul(2654435761), 61u32.wrapping_mul(2654435761)];
    ck!(a.as_slice() == &nat[..], "arr! list of 62: contents {:?} differ from the native array literal", &a.as_slice()[..a.len().min(8)]);
    ck!(log == seq(62), "arr! list of 62: element expressions were evaluated in order {:?}, expected 0..62 once each", &log[..log.len().min(12)]);
    take_log(); let b: Box<GA<u32, N<62>>> = box_arr![lg(0), lg(1), lg(2), lg(3), lg(4), lg(5), lg(6), lg(7), lg(8), lg(9), lg(10), lg(11), lg(12), lg(13), lg(14), lg(15), lg(16), lg(17), lg(18), lg(19), lg(20), lg(21), lg(22), lg(23), lg(24), lg(25), lg(26), lg(27), lg(28), lg(29), lg(30), lg(31), lg(32), lg(33), lg(34), lg(35), lg(36), lg(37), lg(38), lg(39), lg(40), lg(41), lg(42), lg(43), lg(44), lg(45), lg(46), lg(47), lg(48), lg(49), lg(50), lg(51), lg(52), lg(53), lg(54), lg(55), lg(56), lg(57), lg(58), lg(59), lg(60), lg(61),]; let log = take_log();
    ck!(b.as_slice() == &nat[..], "box_arr! list of 62: contents differ from the native array literal");
    ck!(log == seq(62), "box_arr! list of 62: element expressions were evaluated in order {:?}, expected 0..62 once each", &log[..log.len().min(12)]);
    ck!(*b == a, "box_arr! and arr! with the same arguments differ");
    Ok(())
}
const CL_62: GA<u8, N<62>> = arr![1u8, 6u8, 11u8, 16u8, 21u8, 26u8, 31u8, 36u8, 41u8, 46u8, 51u8, 56u8, 61u8, 66u8, 71u8, 76u8, 81u8, 86u8, 91u8, 96u8, 101u8, 106u8, 111u8, 116u8, 121u8, 126u8, 131u8, 136u8, 141u8, 146u8, 151u8, 156u8, 161u8, 166u8, 171u8, 176u8, 181u8, 186u8, 191u8, 196u8, 201u8, 206u8, 211u8, 216u8, 221u8, 226u8, 231u8, 236u8, 241u8, 246u8, 0u8, 5u8, 10u8, 15u8, 20u8, 25u8, 30u8, 35u8, 40u8, 45u8, 50u8, 55u8];
static SL_62: GA<u8, N<62>> = arr![1u8, 6u8, 11u8, 16u8, 21u8, 26u8, 31u8, 36u8, 41u8, 46u8, 51u8, 56u8, 61u8, 66u8, 71u8, 76u8, 81u8, 86u8, 91u8, 96u8, 101u8, 106u8, 111u8, 116u8, 121u8, 126u8, 131u8, 136u8, 141u8, 146u8, 151u8, 156u8, 161u8, 166u8, 171u8, 176u8, 181u8, 186u8, 191u8, 196u8, 201u8, 206u8, 211u8, 216u8, 221u8, 226u8, 231u8, 236u8, 241u8, 246u8, 0u8, 5u8, 10u8, 15u8, 20u8, 25u8, 30u8, 35u8, 40u8, 45u8, 50u8, 55u8,];
const fn cfl_62() -> GA<u8, N<62>> { arr![1u8, 6u8, 11u8, 16u8, 21u8, 26u8, 31u8, 36u8, 41u8, 46u8, 51u8, 56u8, 61u8, 66u8, 71u8, 76u8, 81u8, 86u8, 91u8, 96u8, 101u8, 106u8, 111u8, 116u8, 121u8, 126u8, 131u8, 136u8, 141u8, 146u8, 151u8, 156u8, 161u8, 166u8, 171u8, 176u8, 181u8, 186u8, 191u8, 196u8, 201u8, 206u8, 211u8, 216u8, 221u8, 226u8, 231u8, 236u8, 241u8, 246u8, 0u8, 5u8, 10u8, 15u8, 20u8, 25u8, 30u8, 35u8, 40u8, 45u8, 50u8, 55u8] }
fn case_list_const_62() -> Result<(), String> {
    let nat: [u8; 62] = [1u8, 6u8, 11u8, 16u8, 21u8, 26u8, 31u8, 36u8, 41u8, 46u8, 51u8, 56u8, 61u8, 66u8, 71u8, 76u8, 81u8, 86u8, 91u8, 96u8, 101u8, 106u8, 111u8, 116u8, 121u8, 126u8, 131u8, 136u8, 141u8, 146u8, 151u8, 156u8, 161u8, 166u8, 171u8, 176u8, 181u8, 186u8, 191u8, 196u8, 201u8, 206u8, 211u8, 216u8, 221u8, 226u8, 231u8, 236u8, 241u8, 246u8, 0u8, 5u8, 10u8, 15u8, 20u8, 25u8, 30u8, 35u8, 40u8, 45u8, 50u8, 55u8];
    ck!(CL_62.as_slice() == &nat[..] && SL_62.as_slice() == &nat[..] && cfl_62().as_slice() == &nat[..], "arr! list of 62 in const / static / const fn position differs from the native literal");
    Ok(())
}
fn case_list_63() -> Result<(), String> {
    take_log(); let a: GA<u32, N<63>> = arr![lg(0), lg(1), lg(2), lg(3), lg(4), lg(5), lg(6), lg(7), lg(8), lg(9), lg(10), lg(11), lg(12), lg(13), lg(14), lg(15), lg(16), lg(17), lg(18), lg(19), lg(20), lg(21), lg(22), lg(23), lg(24), lg(25), lg(26), lg(27), lg(28), lg(29), lg(30), lg(31), lg(32), lg(33), lg(34), lg(35), lg(36), lg(37), lg(38), lg(39), lg(40), lg(41), lg(42), lg(43), lg(44), lg(45), lg(46), lg(47), lg(48), lg(49), lg(50), lg(51), lg(52), lg(53), lg(54), lg(55), lg(56), lg(57), lg(58), lg(59), lg(60), lg(61), lg(62)]; let log = take_log();
    let nat: [u32; 63] = [0u32.wrapping_mul(2654435761), 1u32.wrapping_mul(2654435761), 2u32.wrapping_mul(2654435761), 3u32.wrapping_mul(2654435761), 4u32.wrapping_mul(2654435761), 5u32.wrapping_mul(2654435761), 6u32.wrapping_mul(2654435761), 7u32.wrapping_mul(2654435761), 8u32.wrapping_mul(2654435761), 9u32.wrapping_mul(2654435761), 10u32.wrapping_mul(2654435761), 11u32.wrapping_mul(2654435761), 12u32.wrapping_mul(2654435761), 13u32.wrapping_mul(2654435761), 14u32.wrapping_mul(2654435761), 15u32.wrapping_mul(2654435761), 16u32.wrapping_mul(2654435761), 17u32.wrapping_mul(2654435761), 18u32.wrapping_mul(2654435761), 19u32.wrapping_mul(2654435761), 20u32.wrapping_mul(2654435761), 21u32.wrapping_mul(2654435761), 22u32.wrapping_mul(2654435761), 23u32.wrapping_mul(2654435761), 24u32.wrapping_mul(2654435761), 25u32.wrapping_mul(2654435761), 26u32.wrapping_mul(2654435761), 27u32.wrapping_mul(2654435761), 28u32.wrapping_mul(2654435761), 29u32.wrapping_mul(2654435761), 30u32.wrapping_mul(2654435761), 31u32.wrapping_mul(2654435761), 32u32.wrapping_mul(2654435761), 33u32.wrapping_mul(2654435761), 34u32.wrapping_mul(2654435761), 35u32.wrapping_mul(2654435761), 36u32.wrapping_mul(2654435761), 37u32.wrapping_mul(2654435761), 38u32.wrapping_mul(2654435761), 39u32.wrapping_mul(2654435761), 40u32.wrapping_mul(2654435761), 41u32.wrapping_mul(2654435761), 42u32.wrapping_mul(2654435761), 43u32.wrapping_mul(2654435761), 44u32.wrapping_mul(2654435761), 45u32.wrapping_mul(2654435761), 46u32.wrapping_mul(2654435761), 47u32.wrapping_mul(2654435761), 48u32.wrapping_mul(2654435761), 49u32.wrapping_mul(2654435761), 50u32.wrapping_mul(2654435761), 51u32.wrapping_mul(2654435761), 52u32.wrapping_mul(2654435761), 53u32.wrapping_mul(2654435761), 54u32.wrapping_mul(2654435761), 55u32.wrapping_mul(2654435761), 56u32.wrapping_mul(2654435761), 57u32.wrapping_mul(2654435761), 58u32.wrapping_mul(2654435761), 59u32.wrapping_mul(2654435761), 60u32.wrapping_mul(2654435761), 61u32.wrapping_mul(2654435761), 62u32.wrapping_mul(2654435761)];
    ck!(a.as_slice() == &nat[..], "arr! list of 63: contents {:?} differ from the native array literal", &a.as_slice()[..a.len().min(8)]);
    ck!(log == seq(63), "arr! list of 63: element expressions were evaluated in order {:?}, expected 0..63 once each", &log[..log.len().min(12)]);
    take_log(); let b: Box<GA<u32, N<63>>> = box_arr![lg(0), lg(1), lg(2), lg(3), lg(4), lg(5), lg(6), lg(7), lg(8), lg(9), lg(10), lg(11), lg(12), lg(13), lg(14), lg(15), lg(16), lg(17), lg(18), lg(19), lg(20), lg(21), lg(22), lg(23), lg(24), lg(25), lg(26), lg(27), lg(28), lg(29), lg(30), lg(31), lg(32), lg(33), lg(34), lg(35), lg(36), lg(37), lg(38), lg(39), lg(40), lg(41), lg(42), lg(43), lg(44), lg(45), lg(46), lg(47), lg(48), lg(49), lg(50), lg(51), lg(52), lg(53), lg(54), lg(55), lg(56), lg(57), lg(58), lg(59), lg(60), lg(61), lg(62)]; let log = take_log();
    ck!(b.as_slice() == &nat[..], "box_arr! list of 63: contents differ from the native array literal");
    ck!(log == seq(63), "box_arr! list of 63: element expressions were evaluated in order {:?}, expected 0..63 once each", &log[..log.len().min(12)]);
    ck!(*b == a, "box_arr! and arr! with the same arguments differ");
    Ok(())
}
fn case_list_63_trailing() -> Result<(), String> {
    take_log(); let a: GA<u32, N<63>> = arr![lg(0), lg(1), lg(2), lg(3), lg(4), lg(5), lg(6), lg(7), lg(8), lg(9), lg(10), lg(11), lg(12), lg(13), lg(14), lg(15), lg(16), lg(17), lg(18), lg(19), lg(20), lg(21), lg(22), lg(23), lg(24), lg(25), lg(26), lg(27), lg(28), lg(29), lg(30), lg(31), lg(32), lg(33), lg(34), lg(35), lg(36), lg(37), lg(38), lg(39), lg(40), lg(41), lg(42), lg(43), lg(44), lg(45), lg(46), lg(47), lg(48), lg(49), lg(50), lg(51), lg(52), lg(53), lg(54), lg(55), lg(56), lg(57), lg(58), lg(59), lg(60), lg(61), lg(62),]; let log = take_log();
    let nat: [u32; 63] = [0u32.wrapping_mul(2654435761), 1u32.wrapping_mul(2654435761), 2u32.wrapping_mul(2654435761), 3u32.wrapping_mul(2654435761), 4u32.wrapping_mul(2654435761), 5u32.wrapping_mul(2654435761), 6u32.wrapping_mul(2654435761), 7u32.wrapping_mul(2654435761), 8u32.wrapping_mul(2654435761), 9u32.wrapping_mul(2654435761), 10u32.wrapping_mul(2654435761), 11u32.wrapping_mul(2654435761), 12u32.wrapping_mul(2654435761), 13u32.wrapping_mul(2654435761), 14u32.wrapping_mul(2654435761), 15u32.wrapping_mul(2654435761), 16u32.wrapping_mul(2654435761), 17u32.wrapping_mul(2654435761), 18u32.wrapping_mul(2654435761), 19u32.wrapping_mul(2654435761), 20u32.wrapping_mul(2654435761), 21u32.wrapping_mul(2654435761), 22u32.wrapping_mul(2654435761), 23u32.wrapping_mul(2654435761), 24u32.wrapping_mul(2654435761), 25u32.wrapping_mul(2654435761), 26u32.wrapping_mul(2654435761), 27u32.wrapping_mul(2654435761), 28u32.wrapping_mul(2654435761), 29u32.wrapping_mul(2654435761), 30u32.wrapping_mul(2654435761), 31u32.wrapping_mul(2654435761), 32u32.wrapping_mul(2654435761), 33u32.wrapping_mul(2654435761), 34u32.wrapping_mul(2654435761), 35u32.wrapping_mul(2654435761), 36u32.wrapping_mul(2654435761), 37u32.wrapping_mul(2654435761), 38u32.wrapping_mul(2654435761), 39u32.wrapping_mul(2654435761), 40u32.wrapping_mul(2654435761), 41u32.wrapping_mul(2654435761), 42u32.wrapping_mul(2654435761), 43u32.wrapping_mul(2654435761), 44u32.wrapping_mul(2654435761), 45u32.wrapping_mul(2654435761), 46u32.wrapping_mul(2654435761), 47u32.wrapping_mul(2654435761), 48u32.wrapping_mul(2654435761), 49u32.wrapping_mul(2654435761), 50u32.wrapping_mul(2654435761), 51u32.wrapping_mul(2654435761), 52u32.wrapping_mul(2654435761), 53u32.wrapping_mul(2654435761), 54u32.wrapping_mul(2654435761), 55u32.wrapping_mul(2654435761), 56u32.wrapping_mul(2654435761), 57u32.wrapping_mul(2654435761), 58u32.wrapping_mul(2654435761), 59u32.wrapping_mul(2654435761), 60u32.wrapping_mul(2654435761), 61u32.wrapping_mul(2654435761), 62u32.wrapping_mul(2654435761)];
    ck!(a.as_slice() == &nat[..], "arr! list of 63: contents {:?} differ from the native array literal", &a.as_slice()[..a.len().min(8)]);
    ck!(log == seq(63), "arr! list of 63: element expressions were evaluated in order {:?}, expected 0..63 once each", &log[..log.len().min(12)]);
    take_log(); let b: Box<GA<u32, N<63>>> = box_arr![lg(0), lg(1), lg(2), lg(3), lg(4), lg(5), lg(6), lg(7), lg(8), lg(9), lg(10), lg(11), lg(12), lg(13), lg(14), lg(15), lg(16), lg(17), lg(18), lg(19), lg(20), lg(21), lg(22), lg(23), lg(24), lg(25), lg(26), lg(27), lg(28), lg(29), lg(30), lg(31), lg(32), lg(33), lg(34), lg(35), lg(36), lg(37), lg(38), lg(39), lg(40), lg(41), lg(42), lg(43), lg(44), lg(45), lg(46), lg(47), lg(48), lg(49), lg(50), lg(51), lg(52), lg(53), lg(54), lg(55), lg(56), lg(57), lg(58), lg(59), lg(60), lg(61), lg(62),]; let log = take_log();
    ck!(b.as_slice() == &nat[..], "box_arr! list of 63: contents differ from the native array literal");
    ck!(log == seq(63), "box_arr! list of 63: element expressions were evaluated in order {:?}, expected 0..63 once each", &log[..log.len().min(12)]);
    ck!(*b == a, "box_arr! and arr! with the same arguments differ");
    Ok(())
}
const CL_63: GA<u8, N<63>> = arr![1u8, 6u8, 11u8, 16u8, 21u8, 26u8, 31u8, 36u8, 41u8, 46u8, 51u8, 56u8, 61u8, 66u8, 71u8, 76u8, 81u8, 86u8, 91u8, 96u8, 101u8, 106u8, 111u8, 116u8, 121u8, 126u8, 131u8, 136u8, 141u8, 146u8, 151u8, 156u8, 161u8, 166u8, 171u8, 176u8, 181u8, 186u8, 191u8, 196u8, 201u8, 206u8, 211u8, 216u8, 221u8, 226u8, 231u8, 236u8, 241u8, 246u8, 0u8, 5u8, 10u8, 15u8, 20u8, 25u8, 30u8, 35u8, 40u8, 45u8, 50u8, 55u8, 60u8];
static SL_63: GA<u8, N<63>> = arr![1u8, 6u8, 11u8, 16u8, 21u8, 26u8, 31u8, 36u8, 41u8, 46u8, 51u8, 56u8, 61u8, 66u8, 71u8, 76u8, 81u8, 86u8, 91u8, 96u8, 101u8, 106u8, 111u8, 116u8, 121u8, 126u8, 131u8, 136u8, 141u8, 146u8, 151u8, 156u8, 161u8, 166u8, 171u8, 176u8, 181u8, 186u8, 191u8, 196u8, 201u8, 206u8, 211u8, 216u8, 221u8, 226u8, 231u8, 236u8, 241u8, 246u8, 0u8, 5u8, 10u8, 15u8, 20u8, 25u8, 30u8, 35u8, 40u8, 45u8, 50u8, 55u8, 60u8,];
const fn cfl_63() -> GA<u8, N<63>> { arr![1u8, 6u8, 11u8, 16u8, 21u8, 26u8, 31u8, 36u8, 41u8, 46u8, 51u8, 56u8, 61u8, 66u8, 71u8, 76u8, 81u8, 86u8, 91u8, 96u8, 101u8, 106u8, 111u8, 116u8, 121u8, 126u8, 131u8, 136u8, 141u8, 146u8, 151u8, 156u8, 161u8, 166u8, 171u8, 176u8, 181u8, 186u8, 191u8, 196u8, 201u8, 206u8, 211u8, 216u8, 221u8, 226u8, 231u8, 236u8, 241u8, 246u8, 0u8, 5u8, 10u8, 15u8, 20u8, 25u8, 30u8, 35u8, 40u8, 45u8, 50u8, 55u8, 60u8] }
fn case_list_const_63() -> Result<(), String> {
    let nat: [u8; 63] = [1u8, 6u8, 11u8, 16u8, 21u8, 26u8, 31u8, 36u8, 41u8, 46u8, 51u8, 56u8, 61u8, 66u8, 71u8, 76u8, 81u8, 86u8, 91u8, 96u8, 101u8, 106u8, 111u8, 116u8, 121u8, 126u8, 131u8, 136u8, 141u8, 146u8, 151u8, 156u8, 161u8, 166u8, 171u8, 176u8, 181u8, 186u8, 191u8, 196u8, 201u8, 206u8, 211u8, 216u8, 221u8, 226u8, 231u8, 236u8, 241u8, 246u8, 0u8, 5u8, 10u8, 15u8, 20u8, 25u8, 30u8, 35u8, 40u8, 45u8, 50u8, 55u8, 60u8];
    ck!(CL_63.as_slice() == &nat[..] && SL_63.as_slice() == &nat[..] && cfl_63().as_slice() == &nat[..], "arr! list of 63 in const / static / const fn position differs from the native literal");
    Ok(())
}
fn case_list_64() -> Result<(), String> {
    take_log(); let a: GA<u32, N<64>> = arr![lg(0), lg(1), lg(2), lg(3), lg(4), lg(5), lg(6), lg(7), lg(8), lg(9), lg(10), lg(11), lg(12), lg(13), lg(14), lg(15), lg(16), lg(17), lg(18), lg(19), lg(20), lg(21), lg(22), lg(23), lg(24), lg(25), lg(26), lg(27), lg(28), lg(29), lg(30), lg(31), lg(32), lg(33), lg(34), lg(35), lg(36), lg(37), lg(38), lg(39), lg(40), lg(41), lg(42), lg(43), lg(44), lg(45), lg(46), lg(47), lg(48), lg(49), lg(50), lg(51), lg(52), lg(53), lg(54), lg(55), lg(56), lg(57), lg(58), lg(59), lg(60), lg(61), lg(62), lg(63)]; let log = take_log();
    let nat: [u32; 64] = [0u32.wrapping_mul(2654435761), 1u32.wrapping_mul(2654435761), 2u32.wrapping_mul(2654435761), 3u32.wrapping_mul(2654435761), 4u32.wrapping_mul(2654435761), 5u32.wrapping_mul(2654435761), 6u32.wrapping_mul(2654435761), 7u32.wrapping_mul(2654435761), 8u32.wrapping_mul(2654435761), 9u32.wrapping_mul(2654435761), 10u32.wrapping_mul(2654435761), 11u32.wrapping_mul(2654435761), 12u32.wrapping_mul(2654435761), 13u32.wrapping_mul(2654435761), 14u32.wrapping_mul(2654435761), 15u32.wrapping_mul(2654435761), 16u32.wrapping_mul(2654435761), 17u32.wrapping_mul(2654435761), 18u32.wrapping_mul(2654435761), 19u32.wrapping_mul(2654435761), 20u32.wrapping_mul(2654435761), 21u32.wrapping_mul(2654435761), 22u32.wrapping_mul(2654435761), 23u32.wrapping_mul(2654435761), 24u32.wrapping_mul(2654435761), 25u32.wrapping_mul(2654435761), 26u32.wrapping_mul(2654435761), 27u32.wrapping_mul(2654435761), 28u32.wrapping_mul(2654435761), 29u32.wrapping_mul(2654435761), 30u32.wrapping_mul(2654435761), 31u32.wrapping_mul(2654435761), 32u32.wrapping_mul(2654435761), 33u32.wrapping_mul(2654435761), 34u32.wrapping_mul(2654435761), 35u32.wrapping_mul(2654435761), 36u32.wrapping_mul(2654435761), 37u32.wrapping_mul(2654435761), 38u32.wrapping_mul(2654435761), 39u32.wrapping_mul(2654435761), 40u32.wrapping_mul(2654435761), 41u32.wrapping_mul(2654435761), 42u32.wrapping_mul(2654435761), 43u32.wrapping_mul(2654435761), 44u32.wrapping_mul(2654435761), 45u32.wrapping_mul(2654435761), 46u32.wrapping_mul(2654435761), 47u32.wrapping_mul(2654435761), 48u32.wrapping_mul(2654435761), 49u32.wrapping_mul(2654435761), 50u32.wrapping_mul(2654435761), 51u32.wrapping_mul(2654435761), 52u32.wrapping_mul(2654435761), 53u32.wrapping_mul(2654435761), 54u32.wrapping_mul(2654435761), 55u32.wrapping_mul(2654435761), 56u32.wrapping_mul(2654435761), 57u32.wrapping_mul(2654435761), 58u32.wrapping_mul(2654435761), 59u32.wrapping_mul(2654435761), 60u32.wrapping_mul(2654435761), 61u32.wrapping_mul(2654435761), 62u32.wrapping_mul(2654435761), 63u32.wrapping_mul(2654435761)];
    ck!(a.as_slice() == &nat[..], "arr! list of 64: contents {:?} differ from the native array literal", &a.as_slice()[..a.len().min(8)]);
    ck!(log == seq(64), "arr! list of 64: element expressions were evaluated in order {:?}, expected 0..64 once each", &log[..log.len().min(12)]);
    take_log(); let b: Box<GA<u32, N<64>>> = box_arr![lg(0), lg(1), lg(2), lg(3), lg(4), lg(5), lg(6), lg(7), lg(8), lg(9), lg(10), lg(11), lg(12), lg(13), lg(14), lg(15), lg(16), lg(17), lg(18), lg(19), lg(20), lg(21), lg(22), lg(23), lg(24), lg(25), lg(26), lg(27), lg(28), lg(29), lg(30), lg(31), lg(32), lg(33), lg(34), lg(35), lg(36), lg(37), lg(38), lg(39), lg(40), lg(41), lg(42), lg(43), lg(44), lg(45), lg(46), lg(47), lg(48), lg(49), lg(50), lg(51), lg(52), lg(53), lg(54), lg(55), lg(56), lg(57), lg(58), lg(59), lg(60), lg(61), lg(62), lg(63)]; let log = take_log();
    ck!(b.as_slice() == &nat[..], "box_arr! list of 64: contents differ from the native array literal");
    ck!(log == seq(64), "box_arr! list of 64: element expressions were evaluated in order {:?}, expected 0..64 once each", &log[..log.len().min(12)]);
    ck!(*b == a, "box_arr! and arr! with the same arguments differ");
    Ok(())
}
fn case_list_64_trailing() -> Result<(), String> {
    take_log(); let a: GA<u32, N<64>> = arr![lg(0), lg(1), lg(2), lg(3), lg(4), lg(5), lg(6), lg(7), lg(8), lg(9), lg(10), lg(11), lg(12), lg(13), lg(14), lg(15), lg(16), lg(17), lg(18), lg(19), lg(20), lg(21), lg(22), lg(23), lg(24), lg(25), lg(26), lg(27), lg(28), lg(29), lg(30), lg(31), lg(32), lg(33), lg(34), lg(35), lg(36), lg(37), lg(38), lg(39), lg(40), lg(41), lg(42), lg(43), lg(44), lg(45), lg(46), lg(47), lg(48), lg(49), lg(50), lg(51), lg(52), lg(53), lg(54), lg(55), lg(56), lg(57), lg(58), lg(59), lg(60), lg(61), lg(62), lg(63),]; let log = take_log();
    let nat: [u32; 64] = [0u32.wrapping_mul(2654435761), 1u32.wrapping_mul(2654435761), 2u32.wrapping_mul(2654435761), 3u32.wrapping_mul(2654435761), 4u32.wrapping_mul(2654435761), 5u32.wrapping_mul(2654435761), 6u32.wrapping_mul(2654435761), 7u32.wrapping_mul(2654435761), 8u32.wrapping_mul(2654435761), 9u32.wrapping_mul(2654435761), 10u32.wrapping_mul(2654435761), 11u32.wrapping_mul(2654435761), 12u32.wrapping_mul(2654435761), 13u32.wrapping_mul(2654435761), 14u32.wrapping_mul(2654435761), 15u32.wrapping_mul(2654435761), 16u32.wrapping_mul(2654435761), 17u32.wrapping_mul(2654435761), 18u32.wrapping_mul(2654435761), 19u32.wrapping_mul(2654435761), 20u32.wrapping_mul(2654435761), 21u32.wrapping_mul(2654435761), 22u32.wrapping_mul(2654435761), 23u32.wrapping_mul(2654435761), 24u32.wrapping_mul(2654435761), 25u32.wrapping_mul(2654435761), 26u32.wrapping_mul(2654435761), 27u32.wrapping_mul(2654435761), 28u32.wrapping_mul(2654435761), 29u32.wrapping_mul(2654435761), 30u32.wrapping_mul(2654435761), 31u32.wrapping_mul(2654435761), 32u32.wrapping_mul(2654435761), 33u32.wrapping_mul(2654435761), 34u32.wrapping_mul(2654435761), 35u32.wrapping_mul(2654435761), 36u32.wrapping_mul(2654435761), 37u32.wrapping_mul(2654435761), 38u32.wrapping_mul(2654435761), 39u32.wrapping_mul(2654435761), 40u32.wrapping_mul(2654435761), 41u32.wrapping_mul(2654435761), 42u32.wrapping_mul(2654435761), 43u32.wrapping_mul(2654435761), 44u32.wrapping_mul(2654435761), 45u32.wrapping_mul(2654435761), 46u32.wrapping_mul(2654435761), 47u32.wrapping_mul(2654435761), 48u32.wrapping_mul(2654435761), 49u32.wrapping_mul(2654435761), 50u32.wrapping_mul(2654435761), 51u32.wrapping_mul(2654435761), 52u32.wrapping_mul(2654435761), 53u32.wrapping_mul(2654435761), 54u32.wrapping_mul(2654435761), 55u32.wrapping_mul(2654435761), 56u32.wrapping_mul(2654435761), 57u32.wrapping_mul(2654435761), 58u32.wrapping_mul(2654435761), 59u32.wrapping_mul(2654435761), 60u32.wrapping_mul(2654435761), 61u32.wrapping_mul(2654435761), 62u32.wrapping_mul(2654435761), 63u32.wrapping_mul(2654435761)];
    ck!(a.as_slice() == &nat[..], "arr! list of 64: contents {:?} differ from the native array literal", &a.as_slice()[..a.len().min(8)]);
    ck!(log == seq(64), "arr! list of 64: element expressions were evaluated in order {:?}, expected 0..64 once each", &log[..log.len().min(12)]);
    take_log(); let b: Box<GA<u32, N<64>>> = box_arr![lg(0), lg(1), lg(2), lg(3), lg(4), lg(5), lg(6), lg(7), lg(8), lg(9), lg(10), lg(11), lg(12), lg(13), lg(14), lg(15), lg(16), lg(17), lg(18), lg(19), lg(20), lg(21), lg(22), lg(23), lg(24), lg(25), lg(26), lg(27), lg(28), lg(29), lg(30), lg(31), lg(32), lg(33), lg(34), lg(35), lg(36), lg(37), lg(38), lg(39), lg(40), lg(41), lg(42), lg(43), lg(44), lg(45), lg(46), lg(47), lg(48), lg(49), lg(50), lg(51), lg(52), lg(53), lg(54), lg(55), lg(56), lg(57), lg(58), lg(59), lg(60), lg(61), lg(62), lg(63),]; let log = take_log();
    ck!(b.as_slice() == &nat[..], "box_arr! list of 64: contents differ from the native array literal");
    ck!(log == seq(64), "box_arr! list of 64: element expressions were evaluated in order {:?}, expected 0..64 once each", &log[..log.len().min(12)]);
    ck!(*b == a, "box_arr! and arr! with the same arguments differ");
    Ok(())
}
fn case_list_noncopy_64() -> Result<(), String> {
    take_log(); let a: GA<String, N<64>> = arr![ls(0), ls(1), ls(2), ls(3), ls(4), ls(5), ls(6), ls(7), ls(8), ls(9), ls(10), ls(11), ls(12), ls(13), ls(14), ls(15), ls(16), ls(17), ls(18), ls(19), ls(20), ls(21), ls(22), ls(23), ls(24), ls(25), ls(26), ls(27), ls(28), ls(29), ls(30), ls(31), ls(32), ls(33), ls(34), ls(35), ls(36), ls(37), ls(38), ls(39), ls(40), ls(41), ls(42), ls(43), ls(44), ls(45), ls(46), ls(47), ls(48), ls(49), ls(50), ls(51), ls(52), ls(53), ls(54), ls(55), ls(56), ls(57), ls(58), ls(59), ls(60), ls(61), ls(62), ls(63)]; let log = take_log();
    ck!(a.iter().enumerate().all(|(i, s)| *s == format!("s{i}")) && a.len() == 64, "arr! list of 64 Strings: wrong contents");
    ck!(log == seq(64), "arr! list of 64 Strings: evaluation order {:?}", &log[..log.len().min(12)]);
    take_log(); take_drops();
    { let d: GA<D, N<64>> = arr![ld(0), ld(1), ld(2), ld(3), ld(4), ld(5), ld(6), ld(7), ld(8), ld(9), ld(10), ld(11), ld(12), ld(13), ld(14), ld(15), ld(16), ld(17), ld(18), ld(19), ld(20), ld(21), ld(22), ld(23), ld(24), ld(25), ld(26), ld(27), ld(28), ld(29), ld(30), ld(31), ld(32), ld(33), ld(34), ld(35), ld(36), ld(37), ld(38), ld(39), ld(40), ld(41), ld(42), ld(43), ld(44), ld(45), ld(46), ld(47), ld(48), ld(49), ld(50), ld(51), ld(52), ld(53), ld(54), ld(55), ld(56), ld(57), ld(58), ld(59), ld(60), ld(61), ld(62), ld(63)]; ck!(take_drops().is_empty(), "arr! list of 64: an element was dropped while the array is alive");
      ck!(d.iter().enumerate().all(|(i, x)| x.0 == i as u32), "arr! list of 64 drop-tracked elements: wrong contents"); }
    let mut dr = take_drops(); dr.sort(); ck!(dr == seq(64), "arr! list of 64: drop counts after the array is gone: {:?}", &dr[..dr.len().min(12)]);
    take_log(); take_drops();
    { let d: Box<GA<D, N<64>>> = box_arr![ld(0), ld(1), ld(2), ld(3), ld(4), ld(5), ld(6), ld(7), ld(8), ld(9), ld(10), ld(11), ld(12), ld(13), ld(14), ld(15), ld(16), ld(17), ld(18), ld(19), ld(20), ld(21), ld(22), ld(23), ld(24), ld(25), ld(26), ld(27), ld(28), ld(29), ld(30), ld(31), ld(32), ld(33), ld(34), ld(35), ld(36), ld(37), ld(38), ld(39), ld(40), ld(41), ld(42), ld(43), ld(44), ld(45), ld(46), ld(47), ld(48), ld(49), ld(50), ld(51), ld(52), ld(53), ld(54), ld(55), ld(56), ld(57), ld(58), ld(59), ld(60), ld(61), ld(62), ld(63)]; ck!(take_drops().is_empty(), "box_arr! list of 64: an element was dropped while the box is alive");
      ck!(d.iter().enumerate().all(|(i, x)| x.0 == i as u32), "box_arr! list of 64 drop-tracked elements: wrong contents"); ck!(take_log() == seq(64), "box_arr! list of 64: evaluation order"); }
    let mut dr = take_drops(); dr.sort(); ck!(dr == seq(64), "box_arr! list of 64: drop counts after the box is gone: {:?}", &dr[..dr.len().min(12)]);
    Ok(())
}
const CL_64: GA<u8, N<64>> = arr![1u8, 6u8, 11u8, 16u8, 21u8, 26u8, 31u8, 36u8, 41u8, 46u8, 51u8, 56u8, 61u8, 66u8, 71u8, 76u8, 81u8, 86u8, 91u8, 96u8, 101u8, 106u8, 111u8, 116u8, 121u8, 126u8, 131u8, 136u8, 141u8, 146u8, 151u8, 156u8, 161u8, 166u8, 171u8, 176u8, 181u8, 186u8, 191u8, 196u8, 201u8, 206u8, 211u8, 216u8, 221u8, 226u8, 231u8, 236u8, 241u8, 246u8, 0u8, 5u8, 10u8, 15u8, 20u8, 25u8, 30u8, 35u8, 40u8, 45u8, 50u8, 55u8, 60u8, 65u8];
static SL_64: GA<u8, N<64>> = arr![1u8, 6u8, 11u8, 16u8, 21u8, 26u8, 31u8, 36u8, 41u8, 46u8, 51u8, 56u8, 61u8, 66u8, 71u8, 76u8, 81u8, 86u8, 91u8, 96u8, 101u8, 106u8, 111u8, 116u8, 121u8, 126u8, 131u8, 136u8, 141u8, 146u8, 151u8, 156u8, 161u8, 166u8, 171u8, 176u8, 181u8, 186u8, 191u8, 196u8, 201u8, 206u8, 211u8, 216u8, 221u8, 226u8, 231u8, 236u8, 241u8, 246u8, 0u8, 5u8, 10u8, 15u8, 20u8, 25u8, 30u8, 35u8, 40u8, 45u8, 50u8, 55u8, 60u8, 65u8,];
const fn cfl_64() -> GA<u8, N<64>> { arr![1u8, 6u8, 11u8, 16u8, 21u8, 26u8, 31u8, 36u8, 41u8, 46u8, 51u8, 56u8, 61u8, 66u8, 71u8, 76u8, 81u8, 86u8, 91u8, 96u8, 101u8, 106u8, 111u8, 116u8, 121u8, 126u8, 131u8, 136u8, 141u8, 146u8, 151u8, 156u8, 161u8, 166u8, 171u8, 176u8, 181u8, 186u8, 191u8, 196u8, 201u8, 206u8, 211u8, 216u8, 221u8, 226u8, 231u8, 236u8, 241u8, 246u8, 0u8, 5u8, 10u8, 15u8, 20u8, 25u8, 30u8, 35u8, 40u8, 45u8, 50u8, 55u8, 60u8, 65u8] }
fn case_list_const_64() -> Result<(), String> {
    let nat: [u8; 64] = [1u8, 6u8, 11u8, 16u8, 21u8, 26u8, 31u8, 36u8, 41u8, 46u8, 51u8, 56u8, 61u8, 66u8, 71u8, 76u8, 81u8, 86u8, 91u8, 96u8, 101u8, 106u8, 111u8, 116u8, 121u8, 126u8, 131u8, 136u8, 141u8, 146u8, 151u8, 156u8, 161u8, 166u8, 171u8, 176u8, 181u8, 186u8, 191u8, 196u8, 201u8, 206u8, 211u8, 216u8, 221u8, 226u8, 231u8, 236u8, 241u8, 246u8, 0u8, 5u8, 10u8, 15u8, 20u8, 25u8, 30u8, 35u8, 40u8, 45u8, 50u8, 55u8, 60u8, 65u8];
    ck!(CL_64.as_slice() == &nat[..] && SL_64.as_slice() == &nat[..] && cfl_64().as_slice() == &nat[..], "arr! list of 64 in const / static / const fn position differs from the native literal");
    Ok(())
}
fn case_list_100() -> Result<(), String> {
    take_log(); let a: GA<u32, N<100>> = arr![lg(0), lg(1), lg(2), lg(3), lg(4), lg(5), lg(6), lg(7), lg(8), lg(9), lg(10), lg(11), lg(12), lg(13), lg(14), lg(15), lg(16), lg(17), lg(18), lg(19), lg(20), lg(21), lg(22), lg(23), lg(24), lg(25), lg(26), lg(27), lg(28), lg(29), lg(30), lg(31), lg(32), lg(33), lg(34), lg(35), lg(36), lg(37), lg(38), lg(39), lg(40), lg(41), lg(42), lg(43), lg(44), lg(45), lg(46), lg(47), lg(48), lg(49), lg(50), lg(51), lg(52), lg(53), lg(54), lg(55), lg(56), lg(57), lg(58), lg(59), lg(60), lg(61), lg(62), lg(63), lg(64), lg(65), lg(66), lg(67), lg(68), lg(69), lg(70), lg(71), lg(72), lg(73), lg(74), lg(75), lg(76), lg(77), lg(78), lg(79), lg(80), lg(81), lg(82), lg(83), lg(84), lg(85), lg(86), lg(87), lg(88), lg(89), lg(90), lg(91), lg(92), lg(93), lg(94), lg(95), lg(96), lg(97), lg(98), lg(99)]; let log = take_log();
    let nat: [u32; 100] = [0u32.wrapping_mul(2654435761), 1u32.wrapping_mul(2654435761), 2u32.wrapping_mul(2654435761), 3u32.wrapping_mul(2654435761), 4u32.wrapping_mul(2654435761), 5u32.wrapping_mul(2654435761), 6u32.wrapping_mul(2654435761), 7u32.wrapping_mul(2654435761), 8u32.wrapping_mul(2654435761), 9u32.wrapping_mul(2654435761), 10u32.wrapping_mul(2654435761), 11u32.wrapping_mul(2654435761), 12u32.wrapping_mul(2654435761), 13u32.wrapping_mul(2654435761), 14u32.wrapping_mul(2654435761), 15u32.wrapping_mul(2654435761), 16u32.wrapping_mul(2654435761), 17u32.wrapping_mul(2654435761), 18u32.wrapping_mul(2654435761), 19u32.wrapping_mul(2654435761), 20u32.wrapping_mul(2654435761), 21u32.wrapping_mul(2654435761), 22u32.wrapping_mul(2654435761), 23u32.wrapping_mul(2654435761), 24u32.wrapping_mul(2654435761), 25u32.wrapping_mul(2654435761), 26u32.wrapping_mul(2654435761), 27u32.wrapping_mul(2654435761), 28u32.wrapping_mul(2654435761), 29u32.wrapping_mul(2654435761), 30u32.wrapping_mul(2654435761), 31u32.wrapping_mul(2654435761), 32u32.wrapping_mul(2654435761), 33u32.wrapping_mul(2654435761), 34u32.wrapping_mul(2654435761), 35u32.wrapping_mul(2654435761), 36u32.wrapping_mul(2654435761), 37u32.wrapping_mul(2654435761), 38u32.wrapping_mul(2654435761), 39u32.wrapping_mul(2654435761), 40u32.wrapping_mul(2654435761), 41u32.wrapping_mul(2654435761), 42u32.wrapping_mul(2654435761), 43u32.wrapping_mul(2654435761), 44u32.wrapping_mul(2654435761), 45u32.wrapping_mul(2654435761), 46u32.wrapping_mul(2654435761), 47u32.wrapping_mul(2654435761), 48u32.wrapping_mul(2654435761), 49u32.wrapping_mul(2654435761), 50u32.wrapping_mul(2654435761), 51u32.wrapping_mul(2654435761), 52u32.wrapping_mul(2654435761), 53u32.wrapping_mul(2654435761), 54u32.wrapping_mul(2654435761), 55u32.wrapping_mul(2654435761), 56u32.wrapping_mul(2654435761), 57u32.wrapping_mul(2654435761), 58u32.wrapping_mul(2654435761), 59u32.wrapping_mul(2654435761), 60u32.wrapping_mul(2654435761), 61u32.wrapping_mul(2654435761), 62u32.wrapping_mul(2654435761), 63u32.wrapping_mul(2654435761), 64u32.wrapping_mul(2654435761), 65u32.wrapping_mul(2654435761), 66u32.wrapping_mul(2654435761), 67u32.wrapping_mul(2654435761), 68u32.wrapping_mul(2654435761), 69u32.wrapping_mul(2654435761), 70u32.wrapping_mul(2654435761), 71u32.wrapping_mul(2654435761), 72u32.wrapping_mul(2654435761), 73u32.wrapping_mul(2654435761), 74u32.wrapping_mul(2654435761), 75u32.wrapping_mul(2654435761), 76u32.wrapping_mul(2654435761), 77u32.wrapping_mul(2654435761), 78u32.wrapping_mul(2654435761), 79u32.wrapping_mul(2654435761), 80u32.wrapping_mul(2654435761), 81u32.wrapping_mul(2654435761), 82u32.wrapping_mul(2654435761), 83u32.wrapping_mul(2654435761), 84u32.wrapping_mul(2654435761), 85u32.wrapping_mul(2654435761), 86u32.wrapping_mul(2654435761), 87u32.wrapping_mul(2654435761), 88u32.wrapping_mul(2654435761), 89u32.wrapping_mul(2654435761), 90u32.wrapping_mul(2654435761), 91u32.wrapping_mul(2654435761), 92u32.wrapping_mul(2654435761), 93u32.wrapping_mul(2654435761), 94u32.wrapping_mul(2654435761), 95u32.wrapping_mul(2654435761), 96u32.wrapping_mul(2654435761), 97u32.wrapping_mul(2654435761), 98u32.wrapping_mul(2654435761), 99u32.wrapping_mul(2654435761)];
    ck!(a.as_slice() == &nat[..], "arr! list of 100: contents {:?} differ from the native array literal", &a.as_slice()[..a.len().min(8)]);
    ck!(log == seq(100), "arr! list of 100: element expressions were evaluated in order {:?}, expected 0..100 once each", &log[..log.len().min(12)]);
    take_log(); let b: Box<GA<u32, N<100>>> = box_arr![lg(0), lg(1), lg(2), lg(3), lg(4), lg(5), lg(6), lg(7), lg(8), lg(9), lg(10), lg(11), lg(12), lg(13), lg(14), lg(15), lg(16), lg(17), lg(18), lg(19), lg(20), lg(21), lg(22), lg(23), lg(24), lg(25), lg(26), lg(27), lg(28), lg(29), lg(30), lg(31), lg(32), lg(33), lg(34), lg(35), lg(36), lg(37), lg(38), lg(39), lg(40), lg(41), lg(42), lg(43), lg(44), lg(45), lg(46), lg(47), lg(48), lg(49), lg(50), lg(51), lg(52), lg(53), lg(54), lg(55), lg(56), lg(57), lg(58), lg(59), lg(60), lg(61), lg(62), lg(63), lg(64), lg(65), lg(66), lg(67), lg(68), lg(69), lg(70), lg(71), lg(72), lg(73), lg(74), lg(75), lg(76), lg(77), lg(78), lg(79), lg(80), lg(81), lg(82), lg(83), lg(84), lg(85), lg(86), lg(87), lg(88), lg(89), lg(90), lg(91), lg(92), lg(93), lg(94), lg(95), lg(96), lg(97), lg(98), lg(99)]; let log = take_log();
    ck!(b.as_slice() == &nat[..], "box_arr! list of 100: contents differ from the native array literal");
    ck!(log == seq(100), "box_arr! list of 100: element expressions were evaluated in order {:?}, expected 0..100 once each", &log[..log.len().min(12)]);
    ck!(*b == a, "box_arr! and arr! with the same arguments differ");
    Ok(())
}
fn case_list_100_trailing() -> Result<(), String> {
    take_log(); let a: GA<u32, N<100>> = arr![lg(0), lg(1), lg(2), lg(3), lg(4), lg(5), lg(6), lg(7), lg(8), lg(9), lg(10), lg(11), lg(12), lg(13), lg(14), lg(15), lg(16), lg(17), lg(18), lg(19), lg(20), lg(21), lg(22), lg(23), lg(24), lg(25), lg(26), lg(27), lg(28), lg(29), lg(30), lg(31), lg(32), lg(33), lg(34), lg(35), lg(36), lg(37), lg(38), lg(39), lg(40), lg(41), lg(42), lg(43), lg(44), lg(45), lg(46), lg(47), lg(48), lg(49), lg(50), lg(51), lg(52), lg(53), lg(54), lg(55), lg(56), lg(57), lg(58), lg(59), lg(60), lg(61), lg(62), lg(63), lg(64), lg(65), lg(66), lg(67), lg(68), lg(69), lg(70), lg(71), lg(72), lg(73), lg(74), lg(75), lg(76), lg(77), lg(78), lg(79), lg(80), lg(81), lg(82), lg(83), lg(84), lg(85), lg(86), lg(87), lg(88), lg(89), lg(90), lg(91), lg(92), lg(93), lg(94), lg(95), lg(96), lg(97), lg(98), lg(99),]; let log = take_log();
    let nat: [u32; 100] = [0u32.wrapping_mul(2654435761), 1u32.wrapping_mul(2654435761), 2u32.wrapping_mul(2654435761), 3u32.wrapping_mul(2654435761), 4u32.wrapping_mul(2654435761), 5u32.wrapping_mul(2654435761), 6u32.wrapping_mul(2654435761), 7u32.wrapping_mul(2654435761), 8u32.wrapping_mul(2654435761), 9u32.wrapping_mul(2654435761), 10u32.wrapping_mul(2654435761), 11u32.wrapping_mul(2654435761), 12u32.wrapping_mul(2654435761), 13u32.wrapping_mul(2654435761), 14u32.wrapping_mul(2654435761), 15u32.wrapping_mul(2654435761), 16u32.wrapping_mul(2654435761), 17u32.wrapping_mul(2654435761), 18u32.wrapping_mul(2654435761), 19u32.wrapping_mul(2654435761), 20u32.wrapping_mul(2654435761), 21u32.wrapping_mul(2654435761), 22u32.wrapping_mul(2654435761), 23u32.wrapping_mul(2654435761), 24u32.wrapping_mul(2654435761), 25u32.wrapping_mul(2654435761), 26u32.wrapping_mul(2654435761), 27u32.wrapping_mul(2654435761), 28u32.wrapping_mul(2654435761), 29u32.wrapping_mul(2654435761), 30u32.wrapping_mul(2654435761), 31u32.wrapping_mul(2654435761), 32u32.wrapping_mul(2654435761), 33u32.wrapping_mul(2654435761), 34u32.wrapping_mul(2654435761), 35u32.wrapping_mul(2654435761), 36u32.wrapping_mul(2654435761), 37u32.wrapping_mul(2654435761), 38u32.wrapping_mul(2654435761), 39u32.wrapping_mul(2654435761), 40u32.wrapping_mul(2654435761), 41u32.wrapping_mul(2654435761), 42u32.wrapping_mul(2654435761), 43u32.wrapping_mul(2654435761), 44u32.wrapping_mul(2654435761), 45u32.wrapping_mul(2654435761), 46u32.wrapping_mul(2654435761), 47u32.wrapping_mul(2654435761), 48u32.wrapping_mul(2654435761), 49u32.wrapping_mul(2654435761), 50u32.wrapping_mul(2654435761), 51u32.wrapping_mul(2654435761), 52u32.wrapping_mul(2654435761), 53u32.wrapping_mul(2654435761), 54u32.wrapping_mul(2654435761), 55u32.wrapping_mul(2654435761), 56u32.wrapping_mul(2654435761), 57u32.wrapping_mul(2654435761), 58u32.wrapping_mul(2654435761), 59u32.wrapping_mul(2654435761), 60u32.wrapping_mul(2654435761), 61u32.wrapping_mul(2654435761), 62u32.wrapping_mul(2654435761), 63u32.wrapping_mul(2654435761), 64u32.wrapping_mul(2654435761), 65u32.wrapping_mul(2654435761), 66u32.wrapping_mul(2654435761), 67u32.wrapping_mul(2654435761), 68u32.wrapping_mul(2654435761), 69u32.wrapping_mul(2654435761), 70u32.wrapping_mul(2654435761), 71u32.wrapping_mul(2654435761), 72u32.wrapping_mul(2654435761), 73u32.wrapping_mul(2654435761), 74u32.wrapping_mul(2654435761), 75u32.wrapping_mul(2654435761), 76u32.wrapping_mul(2654435761), 77u32.wrapping_mul(2654435761), 78u32.wrapping_mul(2654435761), 79u32.wrapping_mul(2654435761), 80u32.wrapping_mul(2654435761), 81u32.wrapping_mul(2654435761), 82u32.wrapping_mul(2654435761), 83u32.wrapping_mul(2654435761), 84u32.wrapping_mul(2654435761), 85u32.wrapping_mul(2654435761), 86u32.wrapping_mul(2654435761), 87u32.wrapping_mul(2654435761), 88u32.wrapping_mul(2654435761), 89u32.wrapping_mul(2654435761), 90u32.wrapping_mul(2654435761), 91u32.wrapping_mul(2654435761), 92u32.wrapping_mul(2654435761), 93u32.wrapping_mul(2654435761), 94u32.wrapping_mul(2654435761), 95u32.wrapping_mul(2654435761), 96u32.wrapping_mul(2654435761), 97u32.wrapping_mul(2654435761), 98u32.wrapping_mul(2654435761), 99u32.wrapping_mul(2654435761)];
    ck!(a.as_slice() == &nat[..], "arr! list of 100: contents {:?} differ from the native array literal", &a.as_slice()[..a.len().min(8)]);
    ck!(log == seq(100), "arr! list of 100: element expressions were evaluated in order {:?}, expected 0..100 once each", &log[..log.len().min(12)]);
    take_log(); let b: Box<GA<u32, N<100>>> = box_arr![lg(0), lg(1), lg(2), lg(3), lg(4), lg(5), lg(6), lg(7), lg(8), lg(9), lg(10), lg(11), lg(12), lg(13), lg(14), lg(15), lg(16), lg(17), lg(18), lg(19), lg(20), lg(21), lg(22), lg(23), lg(24), lg(25), lg(26), lg(27), lg(28), lg(29), lg(30), lg(31), lg(32), lg(33), lg(34), lg(35), lg(36), lg(37), lg(38), lg(39), lg(40), lg(41), lg(42), lg(43), lg(44), lg(45), lg(46), lg(47), lg(48), lg(49), lg(50), lg(51), lg(52), lg(53), lg(54), lg(55), lg(56), lg(57), lg(58), lg(59), lg(60), lg(61), lg(62), lg(63), lg(64), lg(65), lg(66), lg(67), lg(68), lg(69), lg(70), lg(71), lg(72), lg(73), lg(74), lg(75), lg(76), lg(77), lg(78), lg(79), lg(80), lg(81), lg(82), lg(83), lg(84), lg(85), lg(86), lg(87), lg(88), lg(89), lg(90), lg(91), lg(92), lg(93), lg(94), lg(95), lg(96), lg(97), lg(98), lg(99),]; let log = take_log();
    ck!(b.as_slice() == &nat[..], "box_arr! list of 100: contents differ from the native array literal");
    ck!(log == seq(100), "box_arr! list of 100: element expressions were evaluated in order {:?}, expected 0..100 once each", &log[..log.len().min(12)]);
    ck!(*b == a, "box_arr! and arr! with the same arguments differ");
    Ok(())
}
fn case_list_128() -> Result<(), String> {
    take_log(); let a: GA<u32, N<128>> = arr![lg(0), lg(1), lg(2), lg(3), lg(4), lg(5), lg(6), lg(7), lg(8), lg(9), lg(10), lg(11), lg(12), lg(13), lg(14), lg(15), lg(16), lg(17), lg(18), lg(19), lg(20), lg(21), lg(22), lg(23), lg(24), lg(25), lg(26), lg(27), lg(28), lg(29), lg(30), lg(31), lg(32), lg(33), lg(34), lg(35), lg(36), lg(37), lg(38), lg(39), lg(40), lg(41), lg(42), lg(43), lg(44), lg(45), lg(46), lg(47), lg(48), lg(49), lg(50), lg(51), lg(52), lg(53), lg(54), lg(55), lg(56), lg(57), lg(58), lg(59), lg(60), lg(61), lg(62), lg(63), lg(64), lg(65), lg(66), lg(67), lg(68), lg(69), lg(70), lg(71), lg(72), lg(73), lg(74), lg(75), lg(76), lg(77), lg(78), lg(79), lg(80), lg(81), lg(82), lg(83), lg(84), lg(85), lg(86), lg(87), lg(88), lg(89), lg(90), lg(91), lg(92), lg(93), lg(94), lg(95), lg(96), lg(97), lg(98), lg(99), lg(100), lg(101), lg(102), lg(103), lg(104), lg(105), lg(106), lg(107), lg(108), lg(109), lg(110), lg(111), lg(112), lg(113), lg(114), lg(115), lg(116), lg(117), lg(118), lg(119), lg(120), lg(121), lg(122), lg(123), lg(124), lg(125), lg(126), lg(127)]; let log = take_log();
    let nat: [u32; 128] = [0u32.wrapping_mul(2654435761), 1u32.wrapping_mul(2654435761), 2u32.wrapping_mul(2654435761), 3u32.wrapping_mul(2654435761), 4u32.wrapping_mul(2654435761), 5u32.wrapping_mul(2654435761), 6u32.wrapping_mul(2654435761), 7u32.wrapping_mul(2654435761), 8u32.wrapping_mul(2654435761), 9u32.wrapping_mul(2654435761), 10u32.wrapping_mul(2654435761), 11u32.wrapping_mul(2654435761), 12u32.wrapping_mul(2654435761), 13u32.wrapping_mul(2654435761), 14u32.wrapping_mul(2654435761), 15u32.wrapping_mul(2654435761), 16u32.wrapping_mul(2654435761), 17u32.wrapping_mul(2654435761), 18u32.wrapping_mul(2654435761), 19u32.wrapping_mul(2654435761), 20u32.wrapping_mul(2654435761), 21u32.wrapping_mul(2654435761), 22u32.wrapping_mul(2654435761), 23u32.wrapping_mul(2654435761), 24u32.wrapping_mul(2654435761), 25u32.wrapping_mul(2654435761), 26u32.wrapping_mul(2654435761), 27u32.wrapping_mul(2654435761), 28u32.wrapping_mul(2654435761), 29u32.wrapping_mul(2654435761), 30u32.wrapping_mul(2654435761), 31u32.wrapping_mul(2654435761), 32u32.wrapping_mul(2654435761), 33u32.wrapping_mul(2654435761), 34u32.wrapping_mul(2654435761), 35u32.wrapping_mul(2654435761), 36u32.wrapping_mul(2654435761), 37u32.wrapping_mul(2654435761), 38u32.wrapping_mul(2654435761), 39u32.wrapping_mul(2654435761), 40u32.wrapping_mul(2654435761), 41u32.wrapping_mul(2654435761), 42u32.wrapping_mul(2654435761), 43u32.wrapping_mul(2654435761), 44u32.wrapping_mul(2654435761), 45u32.wrapping_mul(2654435761), 46u32.wrapping_mul(2654435761), 47u32.wrapping_mul(2654435761), 48u32.wrapping_mul(2654435761), 49u32.wrapping_mul(2654435761), 50u32.wrapping_mul(2654435761), 51u32.wrapping_mul(2654435761), 52u32.wrapping_mul(2654435761), 53u32.wrapping_mul(2654435761), 54u32.wrapping_mul(2654435761), 55u32.wrapping_mul(2654435761), 56u32.wrapping_mul(2654435761), 57u32.wrapping_mul(2654435761), 58u32.wrapping_mul(2654435761), 59u32.wrapping_mul(2654435761), 60u32.wrapping_mul(2654435761), 61u32.wrapping_mul(2654435761), 62u32.wrapping_mul(2654435761), 63u32.wrapping_mul(2654435761), 64u32.wrapping_mul(2654435761), 65u32.wrapping_mul(2654435761), 66u32.wrapping_mul(2654435761), 67u32.wrapping_mul(2654435761), 68u32.wrapping_mul(2654435761), 69u32.wrapping_mul(2654435761), 70u32.wrapping_mul(2654435761), 71u32.wrapping_mul(2654435761), 72u32.wrapping_mul(2654435761), 73u32.wrapping_mul(2654435761), 74u32.wrapping_mul(2654435761), 75u32.wrapping_mul(2654435761), 76u32.wrapping_mul(2654435761), 77u32.wrapping_mul(2654435761), 78u32.wrapping_mul(2654435761), 79u32.wrapping_mul(2654435761), 80u32.wrapping_mul(2654435761), 81u32.wrapping_mul(2654435761), 82u32.wrapping_mul(2654435761), 83u32.wrapping_mul(2654435761), 84u32.wrapping_mul(2654435761), 85u32.wrapping_mul(2654435761), 86u32.wrapping_mul(2654435761), 87u32.wrapping_mul(2654435761), 88u32.wrapping_mul(2654435761), 89u32.wrapping_mul(2654435761), 90u32.wrapping_mul(2654435761), 91u32.wrapping_mul(2654435761), 92u32.wrapping_mul(2654435761), 93u32.wrapping_mul(2654435761), 94u32.wrapping_mul(2654435761), 95u32.wrapping_mul(2654435761), 96u32.wrapping_mul(2654435761), 97u32.wrapping_mul(2654435761), 98u32.wrapping_mul(2654435761), 99u32.wrapping_mul(2654435761), 100u32.wrapping_mul(2654435761), 101u32.wrapping_mul(2654435761), 102u32.wrapping_mul(2654435761), 103u32.wrapping_mul(2654435761), 104u32.wrapping_mul(2654435761), 105u32.wrapping_mul(2654435761), 106u32.wrapping_mul(2654435761), 107u32.wrapping_mul(2654435761), 108u32.wrapping_mul(2654435761), 109u32.wrapping_mul(2654435761), 110u32.wrapping_mul(2654435761), 111u32.wrapping_mul(2654435761), 112u32.wrapping_mul(2654435761), 113u32.wrapping_mul(2654435761), 114u32.wrapping_mul(2654435761), 115u32.wrapping_mul(2654435761), 116u32.wrapping_mul(2654435761), 117u32.wrapping_mul(2654435761), 118u32.wrapping_mul(2654435761), 119u32.wrapping_mul(2654435761), 120u32.wrapping_mul(2654435761), 121u32.wrapping_mul(2654435761), 122u32.wrapping_mul(2654435761), 123u32.wrapping_mul(2654435761), 124u32.wrapping_mul(2654435761), 125u32.wrapping_mul(2654435761), 126u32.wrapping_mul(2654435761), 127u32.wrapping_mul(2654435761)];
    ck!(a.as_slice() == &nat[..], "arr! list of 128: contents {:?} differ from the native array literal", &a.as_slice()[..a.len().min(8)]);
    ck!(log == seq(128), "arr! list of 128: element expressions were evaluated in order {:?}, expected 0..128 once each", &log[..log.len().min(12)]);
    take_log(); let b: Box<GA<u32, N<128>>> = box_arr![lg(0), lg(1), lg(2), lg(3), lg(4), lg(5), lg(6), lg(7), lg(8), lg(9), lg(10), lg(11), lg(12), lg(13), lg(14), lg(15), lg(16), lg(17), lg(18), lg(19), lg(20), lg(21), lg(22), lg(23), lg(24), lg(25), lg(26), lg(27), lg(28), lg(29), lg(30), lg(31), lg(32), lg(33), lg(34), lg(35), lg(36), lg(37), lg(38), lg(39), lg(40), lg(41), lg(42), lg(43), lg(44), lg(45), lg(46), lg(47), lg(48), lg(49), lg(50), lg(51), lg(52), lg(53), lg(54), lg(55), lg(56), lg(57), lg(58), lg(59), lg(60), lg(61), lg(62), lg(63), lg(64), lg(65), lg(66), lg(67), lg(68), lg(69), lg(70), lg(71), lg(72), lg(73), lg(74), lg(75), lg(76), lg(77), lg(78), lg(79), lg(80), lg(81), lg(82), lg(83), lg(84), lg(85), lg(86), lg(87), lg(88), lg(89), lg(90), lg(91), lg(92), lg(93), lg(94), lg(95), lg(96), lg(97), lg(98), lg(99), lg(100), lg(101), lg(102), lg(103), lg(104), lg(105), lg(106), lg(107), lg(108), lg(109), lg(110), lg(111), lg(112), lg(113), lg(114), lg(115), lg(116), lg(117), lg(118), lg(119), lg(120), lg(121), lg(122), lg(123), lg(124), lg(125), lg(126), lg(127)]; let log = take_log();
    ck!(b.as_slice() == &nat[..], "box_arr! list of 128: contents differ from the native array literal");
    ck!(log == seq(128), "box_arr! list of 128: element expressions were evaluated in order {:?}, expected 0..128 once each", &log[..log.len().min(12)]);
    ck!(*b == a, "box_arr! and arr! with the same arguments differ");
    Ok(())
}
fn case_list_128_trailing() -> Result<(), String> {
    take_log(); let a: GA<u32, N<128>> = arr![lg(0), lg(1), lg(2), lg(3), lg(4), lg(5), lg(6), lg(7), lg(8), lg(9), lg(10), lg(11), lg(12), lg(13), lg(14), lg(15), lg(16), lg(17), lg(18), lg(19), lg(20), lg(21), lg(22), lg(23), lg(24), lg(25), lg(26), lg(27), lg(28), lg(29), lg(30), lg(31), lg(32), lg(33), lg(34), lg(35), lg(36), lg(37), lg(38), lg(39), lg(40), lg(41), lg(42), lg(43), lg(44), lg(45), lg(46), lg(47), lg(48), lg(49), lg(50), lg(51), lg(52), lg(53), lg(54), lg(55), lg(56), lg(57), lg(58), lg(59), lg(60), lg(61), lg(62), lg(63), lg(64), lg(65), lg(66), lg(67), lg(68), lg(69), lg(70), lg(71), lg(72), lg(73), lg(74), lg(75), lg(76), lg(77), lg(78), lg(79), lg(80), lg(81), lg(82), lg(83), lg(84), lg(85), lg(86), lg(87), lg(88), lg(89), lg(90), lg(91), lg(92), lg(93), lg(94), lg(95), lg(96), lg(97), lg(98), lg(99), lg(100), lg(101), lg(102), lg(103), lg(104), lg(105), lg(106), lg(107), lg(108), lg(109), lg(110), lg(111), lg(112), lg(113), lg(114), lg(115), lg(116), lg(117), lg(118), lg(119), lg(120), lg(121), lg(122), lg(123), lg(124), lg(125), lg(126), lg(127),]; let log = take_log();
    let nat: [u32; 128] = [0u32.wrapping_mul(2654435761), 1u32.wrapping_mul(2654435761), 2u32.wrapping_mul(2654435761), 3u32.wrapping_mul(2654435761), 4u32.wrapping_mul(2654435761), 5u32.wrapping_mul(2654435761), 6u32.wrapping_mul(2654435761), 7u32.wrapping_mul(2654435761), 8u32.wrapping_mul(2654435761), 9u32.wrapping_mul(2654435761), 10u32.wrapping_mul(2654435761), 11u32.wrapping_mul(2654435761), 12u32.wrapping_mul(2654435761), 13u32.wrapping_mul(2654435761), 14u32.wrapping_mul(2654435761), 15u32.wrapping_mul(2654435761), 16u32.wrapping_mul(2654435761), 17u32.wrapping_mul(2654435761), 18u32.wrapping_mul(2654435761), 19u32.wrapping_mul(2654435761), 20u32.wrapping_mul(2654435761), 21u32.wrapping_mul(2654435761), 22u32.wrapping_mul(2654435761), 23u32.wrapping_mul(2654435761), 24u32.wrapping_mul(2654435761), 25u32.wrapping_mul(2654435761), 26u32.wrapping_mul(2654435761), 27u32.wrapping_mul(2654435761), 28u32.wrapping_mul(2654435761), 29u32.wrapping_mul(2654435761), 30u32.wrapping_mul(2654435761), 31u32.wrapping_mul(2654435761), 32u32.wrapping_mul(2654435761), 33u32.wrapping_mul(2654435761), 34u32.wrapping_mul(2654435761), 35u32.wrapping_mul(2654435761), 36u32.wrapping_mul(2654435761), 37u32.wrapping_mul(2654435761), 38u32.wrapping_mul(2654435761), 39u32.wrapping_mul(2654435761), 40u32.wrapping_mul(2654435761), 41u32.wrapping_mul(2654435761), 42u32.wrapping_mul(2654435761), 43u32.wrapping_mul(2654435761), 44u32.wrapping_mul(2654435761), 45u32.wrapping_mul(2654435761), 46u32.wrapping_mul(2654435761), 47u32.wrapping_mul(2654435761), 48u32.wrapping_mul(2654435761), 49u32.wrapping_mul(2654435761), 50u32.wrapping_mul(2654435761), 51u32.wrapping_mul(2654435761), 52u32.wrapping_mul(2654435761), 53u32.wrapping_mul(2654435761), 54u32.wrapping_mul(2654435761), 55u32.wrapping_mul(2654435761), 56u32.wrapping_mul(2654435761), 57u32.wrapping_mul(2654435761), 58u32.wrapping_mul(2654435761), 59u32.wrapping_mul(2654435761), 60u32.wrapping_mul(2654435761), 61u32.wrapping_mul(2654435761), 62u32.wrapping_mul(2654435761), 63u32.wrapping_mul(2654435761), 64u32.wrapping_mul(2654435761), 65u32.wrapping_mul(2654435761), 66u32.wrapping_mul(2654435761), 67u32.wrapping_mul(2654435761), 68u32.wrapping_mul(2654435761), 69u32.wrapping_mul(2654435761), 70u32.wrapping_mul(2654435761), 71u32.wrapping_mul(2654435761), 72u32.wrapping_mul(2654435761), 73u32.wrapping_mul(2654435761), 74u32.wrapping_mul(2654435761), 75u32.wrapping_mul(2654435761), 76u32.wrapping_mul(2654435761), 77u32.wrapping_mul(2654435761), 78u32.wrapping_mul(2654435761), 79u32.wrapping_mul(2654435761), 80u32.wrapping_mul(2654435761), 81u32.wrapping_mul(2654435761), 82u32.wrapping_mul(2654435761), 83u32.wrapping_mul(2654435761), 84u32.wrapping_mul(2654435761), 85u32.wrapping_mul(2654435761), 86u32.wrapping_mul(2654435761), 87u32.wrapping_mul(2654435761), 88u32.wrapping_mul(2654435761), 89u32.wrapping_mul(2654435761), 90u32.wrapping_mul(2654435761), 91u32.wrapping_mul(2654435761), 92u32.wrapping_mul(2654435761), 93u32.wrapping_mul(2654435761), 94u32.wrapping_mul(2654435761), 95u32.wrapping_mul(2654435761), 96u32.wrapping_mul(2654435761), 97u32.wrapping_mul(2654435761), 98u32.wrapping_mul(2654435761), 99u32.wrapping_mul(2654435761), 100u32.wrapping_mul(2654435761), 101u32.wrapping_mul(2654435761), 102u32.wrapping_mul(2654435761), 103u32.wrapping_mul(2654435761), 104u32.wrapping_mul(2654435761), 105u32.wrapping_mul(2654435761), 106u32.wrapping_mul(2654435761), 107u32.wrapping_mul(2654435761), 108u32.wrapping_mul(2654435761), 109u32.wrapping_mul(2654435761), 110u32.wrapping_mul(2654435761), 111u32.wrapping_mul(2654435761), 112u32.wrapping_mul(2654435761), 113u32.wrapping_mul(2654435761), 114u32.wrapping_mul(2654435761), 115u32.wrapping_mul(2654435761), 116u32.wrapping_mul(2654435761), 117u32.wrapping_mul(2654435761), 118u32.wrapping_mul(2654435761), 119u32.wrapping_mul(2654435761), 120u32.wrapping_mul(2654435761), 121u32.wrapping_mul(2654435761), 122u32.wrapping_mul(2654435761), 123u32.wrapping_mul(2654435761), 124u32.wrapping_mul(2654435761), 125u32.wrapping_mul(2654435761), 126u32.wrapping_mul(2654435761), 127u32.wrapping_mul(2654435761)];
    ck!(a.as_slice() == &nat[..], "arr! list of 128: contents {:?} differ from the native array literal", &a.as_slice()[..a.len().min(8)]);
    ck!(log == seq(128), "arr! list of 128: element expressions were evaluated in order {:?}, expected 0..128 once each", &log[..log.len().min(12)]);
    take_log(); let b: Box<GA<u32, N<128>>> = box_arr![lg(0), lg(1), lg(2), lg(3), lg(4), lg(5), lg(6), lg(7), lg(8), lg(9), lg(10), lg(11), lg(12), lg(13), lg(14), lg(15), lg(16), lg(17), lg(18), lg(19), lg(20), lg(21), lg(22), lg(23), lg(24), lg(25), lg(26), lg(27), lg(28), lg(29), lg(30), lg(31), lg(32), lg(33), lg(34), lg(35), lg(36), lg(37), lg(38), lg(39), lg(40), lg(41), lg(42), lg(43), lg(44), lg(45), lg(46), lg(47), lg(48), lg(49), lg(50), lg(51), lg(52), lg(53), lg(54), lg(55), lg(56), lg(57), lg(58), lg(59), lg(60), lg(61), lg(62), lg(63), lg(64), lg(65), lg(66), lg(67), lg(68), lg(69), lg(70), lg(71), lg(72), lg(73), lg(74), lg(75), lg(76), lg(77), lg(78), lg(79), lg(80), lg(81), lg(82), lg(83), lg(84), lg(85), lg(86), lg(87), lg(88), lg(89), lg(90), lg(91), lg(92), lg(93), lg(94), lg(95), lg(96), lg(97), lg(98), lg(99), lg(100), lg(101), lg(102), lg(103), lg(104), lg(105), lg(106), lg(107), lg(108), lg(109), lg(110), lg(111), lg(112), lg(113), lg(114), lg(115), lg(116), lg(117), lg(118), lg(119), lg(120), lg(121), lg(122), lg(123), lg(124), lg(125), lg(126), lg(127),]; let log = take_log();
    ck!(b.as_slice() == &nat[..], "box_arr! list of 128: contents differ from the native array literal");
    ck!(log == seq(128), "box_arr! list of 128: element expressions were evaluated in order {:?}, expected 0..128 once each", &log[..log.len().min(12)]);
    ck!(*b == a, "box_arr! and arr! with the same arguments differ");
    Ok(())
}
fn case_list_255() -> Result<(), String> {
    take_log(); let a: GA<u32, N<255>> = arr![lg(0), lg(1), lg(2), lg(3), lg(4), lg(5), lg(6), lg(7), lg(8), lg(9), lg(10), lg(11), lg(12), lg(13), lg(14), lg(15), lg(16), lg(17), lg(18), lg(19), lg(20), lg(21), lg(22), lg(23), lg(24), lg(25), lg(26), lg(27), lg(28), lg(29), lg(30), lg(31), lg(32), lg(33), lg(34), lg(35), lg(36), lg(37), lg(38), lg(39), lg(40), lg(41), lg(42), lg(43), lg(44), lg(45), lg(46), lg(47), lg(48), lg(49), lg(50), lg(51), lg(52), lg(53), lg(54), lg(55), lg(56), lg(57), lg(58), lg(59), lg(60), lg(61), lg(62), lg(63), lg(64), lg(65), lg(66), lg(67), lg(68), lg(69), lg(70), lg(71), lg(72), lg(73), lg(74), lg(75), lg(76), lg(77), lg(78), lg(79), lg(80), lg(81), lg(82), lg(83), lg(84), lg(85), lg(86), lg(87), lg(88), lg(89), lg(90), lg(91), lg(92), lg(93), lg(94), lg(95), lg(96), lg(97), lg(98), lg(99), lg(100), lg(101), lg(102), lg(103), lg(104), lg(105), lg(106), lg(107), lg(108), lg(109), lg(110), lg(111), lg(112), lg(113), lg(114), lg(115), lg(116), lg(117), lg(118), lg(119), lg(120), lg(121), lg(122), lg(123), lg(124), lg(125), lg(126), lg(127), lg(128), lg(129), lg(130), lg(131), lg(132), lg(133), lg(134), lg(135), lg(136), lg(137), lg(138), lg(139), lg(140), lg(141), lg(142), lg(143), lg(144), lg(145), lg(146), lg(147), lg(148), lg(149), lg(150), lg(151), lg(152), lg(153), lg(154), lg(155), lg(156), lg(157), lg(158), lg(159), lg(160), lg(161), lg(162), lg(163), lg(164), lg(165), lg(166), lg(167), lg(168), lg(169), lg(170), lg(171), lg(172), lg(173), lg(174), lg(175), lg(176), lg(177), lg(178), lg(179), lg(180), lg(181), lg(182), lg(183), lg(184), lg(185), lg(186), lg(187), lg(188), lg(189), lg(190), lg(191), lg(192), lg(193), lg(194), lg(195), lg(196), lg(197), lg(198), lg(199), lg(200), lg(201), lg(202), lg(203), lg(204), lg(205), lg(206), lg(207), lg(208), lg(209), lg(210), lg(211), lg(212), lg(213), lg(214), lg(215), lg(216), lg(217), lg(218), lg(219), lg(220), lg(221), lg(222), lg(223), lg(224), lg(225), lg(226), lg(227), lg(228), lg(229), lg(230), lg(231), lg(232), lg(233), lg(234), lg(235), lg(236), lg(237), lg(238), lg(239), lg(240), lg(241), lg(242), lg(243), lg(244), lg(245), lg(246), lg(247), lg(248), lg(249), lg(250), lg(251), lg(252), lg(253), lg(254)]; let log = take_log();
    let nat: [u32; 255] = [0u32.wrapping_mul(2654435761), 1u32.wrapping_mul(2654435761), 2u32.wrapping_mul(2654435761), 3u32.wrapping_mul(2654435761), 4u32.wrapping_mul(2654435761), 5u32.wrapping_mul(2654435761), 6u32.wrapping_mul(2654435761), 7u32.wrapping_mul(2654435761), 8u32.wrapping_mul(2654435761), 9u32.wrapping_mul(2654435761), 10u32.wrapping_mul(2654435761), 11u32.wrapping_mul(2654435761), 12u32.wrapping_mul(2654435761), 13u32.wrapping_mul(2654435761), 14u32.wrapping_mul(2654435761), 15u32.wrapping_mul(2654435761), 16u32.wrapping_mul(2654435761), 17u32.wrapping_mul(2654435761), 18u32.wrapping_mul(2654435761), 19u32.wrapping_mul(2654435761), 20u32.wrapping_mul(2654435761), 21u32.wrapping_mul(2654435761), 22u32.wrapping_mul(2654435761), 23u32.wrapping_mul(2654435761), 24u32.wrapping_mul(2654435761), 25u32.wrapping_mul(2654435761), 26u32.wrapping_mul(2654435761), 27u32.wrapping_mul(2654435761), 28u32.wrapping_mul(2654435761), 29u32.wrapping_mul(2654435761), 30u32.wrapping_mul(2654435761), 31u32.wrapping_mul(2654435761), 32u32.wrapping_mul(2654435761), 33u32.wrapping_mul(2654435761), 34u32.wrapping_mul(2654435761), 35u32.wrapping_mul(2654435761), 36u32.wrapping_mul(2654435761), 37u32.wrapping_mul(2654435761), 38u32.wrapping_mul(2654435761), 39u32.wrapping_mul(2654435761), 40u32.wrapping_mul(2654435761), 41u32.wrapping_mul(2654435761), 42u32.wrapping_mul(2654435761), 43u32.wrapping_mul(2654435761), 44u32.wrapping_mul(2654435761), 45u32.wrapping_mul(2654435761), 46u32.wrapping_mul(2654435761), 47u32.wrapping_mul(2654435761), 48u32.wrapping_mul(2654435761), 49u32.wrapping_mul(2654435761), 50u32.wrapping_mul(2654435761), 51u32.wrapping_mul(2654435761), 52u32.wrapping_mul(2654435761), 53u32.wrapping_mul(2654435761), 54u32.wrapping_mul(2654435761), 55u32.wrapping_mul(2654435761), 56u32.wrapping_mul(2654435761), 57u32.wrapping_mul(2654435761), 58u32.wrapping_mul(2654435761), 59u32.wrapping_mul(2654435761), 60u32.wrapping_mul(2654435761), 61u32.wrapping_mul(2654435761), 62u32.wrapping_mul(2654435761), 63u32.wrapping_mul(2654435761), 64u32.wrapping_mul(2654435761), 65u32.wrapping_mul(2654435761), 66u32.wrapping_mul(2654435761), 67u32.wrapping_mul(2654435761), 68u32.wrapping_mul(2654435761), 69u32.wrapping_mul(2654435761), 70u32.wrapping_mul(2654435761), 71u32.wrapping_mul(2654435761), 72u32.wrapping_mul(2654435761), 73u32.wrapping_mul(2654435761), 74u32.wrapping_mul(2654435761), 75u32.wrapping_mul(2654435761), 76u32.wrapping_mul(2654435761), 77u32.wrapping_mul(2654435761), 78u32.wrapping_mul(2654435761), 79u32.wrapping_mul(2654435761), 80u32.wrapping_mul(2654435761), 81u32.wrapping_mul(2654435761), 82u32.wrapping_mul(2654435761), 83u32.wrapping_mul(2654435761), 84u32.wrapping_mul(2654435761), 85u32.wrapping_mul(2654435761), 86u32.wrapping_mul(2654435761), 87u32.wrapping_mul(2654435761), 88u32.wrapping_mul(2654435761), 89u32.wrapping_mul(2654435761), 90u32.wrapping_mul(2654435761), 91u32.wrapping_mul(2654435761), 92u32.wrapping_mul(2654435761), 93u32.wrapping_mul(2654435761), 94u32.wrapping_mul(2654435761), 95u32.wrapping_mul(2654435761), 96u32.wrapping_mul(2654435761), 97u32.wrapping_mul(2654435761), 98u32.wrapping_mul(2654435761), 99u32.wrapping_mul(2654435761), 100u32.wrapping_mul(2654435761), 101u32.wrapping_mul(2654435761), 102u32.wrapping_mul(2654435761), 103u32.wrapping_mul(2654435761), 104u32.wrapping_mul(2654435761), 105u32.wrapping_mul(2654435761), 106u32.wrapping_mul(2654435761), 107u32.wrapping_mul(2654435761), 108u32.wrapping_mul(2654435761), 109u32.wrapping_mul(2654435761), 110u32.wrapping_mul(2654435761), 111u32.wrapping_mul(2654435761), 112u32.wrapping_mul(2654435761), 113u32.wrapping_mul(2654435761), 114u32.wrapping_mul(2654435761), 115u32.wrapping_mul(2654435761), 116u32.wrapping_mul(2654435761), 117u32.wrapping_mul(2654435761), 118u32.wrapping_mul(2654435761), 119u32.wrapping_mul(2654435761), 120u32.wrapping_mul(2654435761), 121u32.wrapping_mul(2654435761), 122u32.wrapping_mul(2654435761), 123u32.wrapping_mul(2654435761), 124u32.wrapping_mul(2654435761), 125u32.wrapping_mul(2654435761), 126u32.wrapping_mul(2654435761), 127u32.wrapping_mul(2654435761), 128u32.wrapping_mul(2654435761), 129u32.wrapping_mul(2654435761), 130u32.wrapping_mul(2654435761), 131u32.wrapping_mul(2654435761), 132u32.wrapping_mul(2654435761), 133u32.wrapping_mul(2654435761), 134u32.wrapping_mul(2654435761), 135u32.wrapping_mul(2654435761), 136u32.wrapping_mul(2654435761), 137u32.wrapping_mul(2654435761), 138u32.wrapping_mul(2654435761), 139u32.wrapping_mul(2654435761), 140u32.wrapping_mul(2654435761), 141u32.wrapping_mul(2654435761), 142u32.wrapping_mul(2654435761), 143u32.wrapping_mul(2654435761), 144u32.wrapping_mul(2654435761), 145u32.wrapping_mul(2654435761), 146u32.wrapping_mul(2654435761), 147u32.wrapping_mul(2654435761), 148u32.wrapping_mul(2654435761), 149u32.wrapping_mul(2654435761), 150u32.wrapping_mul(2654435761), 151u32.wrapping_mul(2654435761), 152u32.wrapping_mul(2654435761), 153u32.wrapping_mul(2654435761), 154u32.wrapping_mul(2654435761), 155u32.wrapping_mul(2654435761), 156u32.wrapping_mul(2654435761), 157u32.wrapping_mul(2654435761), 158u32.wrapping_mul(2654435761), 159u32.wrapping_mul(2654435761), 160u32.wrapping_mul(2654435761), 161u32.wrapping_mul(2654435761), 162u32.wrapping_mul(2654435761), 163u32.wrapping_mul(2654435761), 164u32.wrapping_mul(2654435761), 165u32.wrapping_mul(2654435761), 166u32.wrapping_mul(2654435761), 167u32.wrapping_mul(2654435761), 168u32.wrapping_mul(2654435761), 169u32.wrapping_mul(2654435761), 170u32.wrapping_mul(2654435761), 171u32.wrapping_mul(2654435761), 172u32.wrapping_mul(2654435761), 173u32.wrapping_mul(2654435761), 174u32.wrapping_mul(2654435761), 175u32.wrapping_mul(2654435761), 176u32.wrapping_mul(2654435761), 177u32.wrapping_mul(2654435761), 178u32.wrapping_mul(2654435761), 179u32.wrapping_mul(2654435761), 180u32.wrapping_mul(2654435761), 181u32.wrapping_mul(2654435761), 182u32.wrapping_mul(2654435761), 183u32.wrapping_mul(2654435761), 184u32.wrapping_mul(2654435761), 185u32.wrapping_mul(2654435761), 186u32.wrapping_mul(2654435761), 187u32.wrapping_mul(2654435761), 188u32.wrapping_mul(2654435761), 189u32.wrapping_mul(2654435761), 190u32.wrapping_mul(2654435761), 191u32.wrapping_mul(2654435761), 192u32.wrapping_mul(2654435761), 193u32.wrapping_mul(2654435761), 194u32.wrapping_mul(2654435761), 195u32.wrapping_mul(2654435761), 196u32.wrapping_mul(2654435761), 197u32.wrapping_mul(2654435761), 198u32.wrapping_mul(2654435761), 199u32.wrapping_mul(2654435761), 200u32.wrapping_mul(2654435761), 201u32.wrapping_mul(2654435761), 202u32.wrapping_mul(2654435761), 203u32.wrapping_mul(2654435761), 204u32.wrapping_mul(2654435761), 205u32.wrapping_mul(2654435761), 206u32.wrapping_mul(2654435761), 207u32.wrapping_mul(2654435761), 208u32.wrapping_mul(2654435761), 209u32.wrapping_mul(2654435761), 210u32.wrapping_mul(2654435761), 211u32.wrapping_mul(2654435761), 212u32.wrapping_mul(2654435761), 213u32.wrapping_mul(2654435761), 214u32.wrapping_mul(2654435761), 215u32.wrapping_mul(2654435761), 216u32.wrapping_mul(2654435761), 217u32.wrapping_mul(2654435761), 218u32.wrapping_mul(2654435761), 219u32.wrapping_mul(2654435761), 220u32.wrapping_mul(2654435761), 221u32.wrapping_mul(2654435761), 222u32.wrapping_mul(2654435761), 223u32.wrapping_mul(2654435761), 224u32.wrapping_mul(2654435761), 225u32.wrapping_mul(2654435761), 226u32.wrapping_mul(2654435761), 227u32.wrapping_mul(2654435761), 228u32.wrapping_mul(2654435761), 229u32.wrapping_mul(2654435761), 230u32.wrapping_mul(2654435761), 231u32.wrapping_mul(2654435761), 232u32.wrapping_mul(2654435761), 233u32.wrapping_mul(2654435761), 234u32.wrapping_mul(2654435761), 235u32.wrapping_mul(2654435761), 236u32.wrapping_mul(2654435761), 237u32.wrapping_mul(2654435761), 238u32.wrapping_mul(2654435761), 239u32.wrapping_mul(2654435761), 240u32.wrapping_mul(2654435761), 241u32.wrapping_mul(2654435761), 242u32.wrapping_mul(2654435761), 243u32.wrapping_mul(2654435761), 244u32.wrapping_mul(2654435761), 245u32.wrapping_mul(2654435761), 246u32.wrapping_mul(2654435761), 247u32.wrapping_mul(2654435761), 248u32.wrapping_mul(2654435761), 249u32.wrapping_mul(2654435761), 250u32.wrapping_mul(2654435761), 251u32.wrapping_mul(2654435761), 252u32.wrapping_mul(2654435761), 253u32.wrapping_mul(2654435761), 254u32.wrapping_mul(2654435761)];
    ck!(a.as_slice() == &nat[..], "arr! list of 255: contents {:?} differ from the native array literal", &a.as_slice()[..a.len().min(8)]);
    ck!(log == seq(255), "arr! list of 255: element expressions were evaluated in order {:?}, expected 0..255 once each", &log[..log.len().min(12)]);
    take_log(); let b: Box<GA<u32, N<255>>> = box_arr![lg(0), lg(1), lg(2), lg(3), lg(4), lg(5), lg(6), lg(7), lg(8), lg(9), lg(10), lg(11), lg(12), lg(13), lg(14), lg(15), lg(16), lg(17), lg(18), lg(19), lg(20), lg(21), lg(22), lg(23), lg(24), lg(25), lg(26), lg(27), lg(28), lg(29), lg(30), lg(31), lg(32), lg(33), lg(34), lg(35), lg(36), lg(37), lg(38), lg(39), lg(40), lg(41), lg(42), lg(43), lg(44), lg(45), lg(46), lg(47), lg(48), lg(49), lg(50), lg(51), lg(52), lg(53), lg(54), lg(55), lg(56), lg(57), lg(58), lg(59), lg(60), lg(61), lg(62), lg(63), lg(64), lg(65), lg(66), lg(67), lg(68), lg(69), lg(70), lg(71), lg(72), lg(73), lg(74), lg(75), lg(76), lg(77), lg(78), lg(79), lg(80), lg(81), lg(82), lg(83), lg(84), lg(85), lg(86), lg(87), lg(88), lg(89), lg(90), lg(91), lg(92), lg(93), lg(94), lg(95), lg(96), lg(97), lg(98), lg(99), lg(100), lg(101), lg(102), lg(103), lg(104), lg(105), lg(106), lg(107), lg(108), lg(109), lg(110), lg(111), lg(112), lg(113), lg(114), lg(115), lg(116), lg(117), lg(118), lg(119), lg(120), lg(121), lg(122), lg(123), lg(124), lg(125), lg(126), lg(127), lg(128), lg(129), lg(130), lg(131), lg(132), lg(133), lg(134), lg(135), lg(136), lg(137), lg(138), lg(139), lg(140), lg(141), lg(142), lg(143), lg(144), lg(145), lg(146), lg(147), lg(148), lg(149), lg(150), lg(151), lg(152), lg(153), lg(154), lg(155), lg(156), lg(157), lg(158), lg(159), lg(160), lg(161), lg(162), lg(163), lg(164), lg(165), lg(166), lg(167), lg(168), lg(169), lg(170), lg(171), lg(172), lg(173), lg(174), lg(175), lg(176), lg(177), lg(178), lg(179), lg(180), lg(181), lg(182), lg(183), lg(184), lg(185), lg(186), lg(187), lg(188), lg(189), lg(190), lg(191), lg(192), lg(193), lg(194), lg(195), lg(196), lg(197), lg(198), lg(199), lg(200), lg(201), lg(202), lg(203), lg(204), lg(205), lg(206), lg(207), lg(208), lg(209), lg(210), lg(211), lg(212), lg(213), lg(214), lg(215), lg(216), lg(217), lg(218), lg(219), lg(220), lg(221), lg(222), lg(223), lg(224), lg(225), lg(226), lg(227), lg(228), lg(229), lg(230), lg(231), lg(232), lg(233), lg(234), lg(235), lg(236), lg(237), lg(238), lg(239), lg(240), lg(241), lg(242), lg(243), lg(244), lg(245), lg(246), lg(247), lg(248), lg(249), lg(250), lg(251), lg(252), lg(253), lg(254)]; let log = take_log();
    ck!(b.as_slice() == &nat[..], "box_arr! list of 255: contents differ from the native array literal");
    ck!(log == seq(255), "box_arr! list of 255: element expressions were evaluated in order {:?}, expected 0..255 once each", &log[..log.len().min(12)]);
    ck!(*b == a, "box_arr! and arr! with the same arguments differ");
    Ok(())
}
fn case_list_255_trailing() -> Result<(), String> {
    take_log(); let a: GA<u32, N<255>> = arr![lg(0), lg(1), lg(2), lg(3), lg(4), lg(5), lg(6), lg(7), lg(8), lg(9), lg(10), lg(11), lg(12), lg(13), lg(14), lg(15), lg(16), lg(17), lg(18), lg(19), lg(20), lg(21), lg(22), lg(23), lg(24), lg(25), lg(26), lg(27), lg(28), lg(29), lg(30), lg(31), lg(32), lg(33), lg(34), lg(35), lg(36), lg(37), lg(38), lg(39), lg(40), lg(41), lg(42), lg(43), lg(44), lg(45), lg(46), lg(47), lg(48), lg(49), lg(50), lg(51), lg(52), lg(53), lg(54), lg(55), lg(56), lg(57), lg(58), lg(59), lg(60), lg(61), lg(62), lg(63), lg(64), lg(65), lg(66), lg(67), lg(68), lg(69), lg(70), lg(71), lg(72), lg(73), lg(74), lg(75), lg(76), lg(77), lg(78), lg(79), lg(80), lg(81), lg(82), lg(83), lg(84), lg(85), lg(86), lg(87), lg(88), lg(89), lg(90), lg(91), lg(92), lg(93), lg(94), lg(95), lg(96), lg(97), lg(98), lg(99), lg(100), lg(101), lg(102), lg(103), lg(104), lg(105), lg(106), lg(107), lg(108), lg(109), lg(110), lg(111), lg(112), lg(113), lg(114), lg(115), lg(116), lg(117), lg(118), lg(119), lg(120), lg(121), lg(122), lg(123), lg(124), lg(125), lg(126), lg(127), lg(128), lg(129), lg(130), lg(131), lg(132), lg(133), lg(134), lg(135), lg(136), lg(137), lg(138), lg(139), lg(140), lg(141), lg(142), lg(143), lg(144), lg(145), lg(146), lg(147), lg(148), lg(149), lg(150), lg(151), lg(152), lg(153), lg(154), lg(155), lg(156), lg(157), lg(158), lg(159), lg(160), lg(161), lg(162), lg(163), lg(164), lg(165), lg(166), lg(167), lg(168), lg(169), lg(170), lg(171), lg(172), lg(173), lg(174), lg(175), lg(176), lg(177), lg(178), lg(179), lg(180), lg(181), lg(182), lg(183), lg(184), lg(185), lg(186), lg(187), lg(188), lg(189), lg(190), lg(191), lg(192), lg(193), lg(194), lg(195), lg(196), lg(197), lg(198), lg(199), lg(200), lg(201), lg(202), lg(203), lg(204), lg(205), lg(206), lg(207), lg(208), lg(209), lg(210), lg(211), lg(212), lg(213), lg(214), lg(215), lg(216), lg(217), lg(218), lg(219), lg(220), lg(221), lg(222), lg(223), lg(224), lg(225), lg(226), lg(227), lg(228), lg(229), lg(230), lg(231), lg(232), lg(233), lg(234), lg(235), lg(236), lg(237), lg(238), lg(239), lg(240), lg(241), lg(242), lg(243), lg(244), lg(245), lg(246), lg(247), lg(248), lg(249), lg(250), lg(251), lg(252), lg(253), lg(254),]; let log = take_log();
    let nat: [u32; 255] = [0u32.wrapping_mul(2654435761), 1u32.wrapping_mul(2654435761), 2u32.wrapping_mul(2654435761), 3u32.wrapping_mul(2654435761), 4u32.wrapping_mul(2654435761), 5u32.wrapping_mul(2654435761), 6u32.wrapping_mul(2654435761), 7u32.wrapping_mul(2654435761), 8u32.wrapping_mul(2654435761), 9u32.wrapping_mul(2654435761), 10u32.wrapping_mul(2654435761), 11u32.wrapping_mul(2654435761), 12u32.wrapping_mul(2654435761), 13u32.wrapping_mul(2654435761), 14u32.wrapping_mul(2654435761), 15u32.wrapping_mul(2654435761), 16u32.wrapping_mul(2654435761), 17u32.wrapping_mul(2654435761), 18u32.wrapping_mul(2654435761), 19u32.wrapping_mul(2654435761), 20u32.wrapping_mul(2654435761), 21u32.wrapping_mul(2654435761), 22u32.wrapping_mul(2654435761), 23u32.wrapping_mul(2654435761), 24u32.wrapping_mul(2654435761), 25u32.wrapping_mul(2654435761), 26u32.wrapping_mul(2654435761), 27u32.wrapping_mul(2654435761), 28u32.wrapping_mul(2654435761), 29u32.wrapping_mul(2654435761), 30u32.wrapping_mul(2654435761), 31u32.wrapping_mul(2654435761), 32u32.wrapping_mul(2654435761), 33u32.wrapping_mul(2654435761), 34u32.wrapping_mul(2654435761), 35u32.wrapping_mul(2654435761), 36u32.wrapping_mul(2654435761), 37u32.wrapping_mul(2654435761), 38u32.wrapping_mul(2654435761), 39u32.wrapping_mul(2654435761), 40u32.wrapping_mul(2654435761), 41u32.wrapping_mul(2654435761), 42u32.wrapping_mul(2654435761), 43u32.wrapping_mul(2654435761), 44u32.wrapping_mul(2654435761), 45u32.wrapping_mul(2654435761), 46u32.wrapping_mul(2654435761), 47u32.wrapping_mul(2654435761), 48u32.wrapping_mul(2654435761), 49u32.wrapping_mul(2654435761), 50u32.wrapping_mul(2654435761), 51u32.wrapping_mul(2654435761), 52u32.wrapping_mul(2654435761), 53u32.wrapping_mul(2654435761), 54u32.wrapping_mul(2654435761), 55u32.wrapping_mul(2654435761), 56u32.wrapping_mul(2654435761), 57u32.wrapping_mul(2654435761), 58u32.wrapping_mul(2654435761), 59u32.wrapping_mul(2654435761), 60u32.wrapping_mul(2654435761), 61u32.wrapping_mul(2654435761), 62u32.wrapping_mul(2654435761), 63u32.wrapping_mul(2654435761), 64u32.wrapping_mul(2654435761), 65u32.wrapping_mul(2654435761), 66u32.wrapping_mul(2654435761), 67u32.wrapping_mul(2654435761), 68u32.wrapping_mul(2654435761), 69u32.wrapping_mul(2654435761), 70u32.wrapping_mul(2654435761), 71u32.wrapping_mul(2654435761), 72u32.wrapping_mul(2654435761), 73u32.wrapping_mul(2654435761), 74u32.wrapping_mul(2654435761), 75u32.wrapping_mul(2654435761), 76u32.wrapping_mul(2654435761), 77u32.wrapping_mul(2654435761), 78u32.wrapping_mul(2654435761), 79u32.wrapping_mul(2654435761), 80u32.wrapping_mul(2654435761), 81u32.wrapping_mul(2654435761), 82u32.wrapping_mul(2654435761), 83u32.wrapping_mul(2654435761), 84u32.wrapping_mul(2654435761), 85u32.wrapping_mul(2654435761), 86u32.wrapping_mul(2654435761), 87u32.wrapping_mul(2654435761), 88u32.wrapping_mul(2654435761), 89u32.wrapping_mul(2654435761), 90u32.wrapping_mul(2654435761), 91u32.wrapping_mul(2654435761), 92u32.wrapping_mul(2654435761), 93u32.wrapping_mul(2654435761), 94u32.wrapping_mul(2654435761), 95u32.wrapping_mul(2654435761), 96u32.wrapping_mul(2654435761), 97u32.wrapping_mul(2654435761), 98u32.wrapping_mul(2654435761), 99u32.wrapping_mul(2654435761), 100u32.wrapping_mul(2654435761), 101u32.wrapping_mul(2654435761), 102u32.wrapping_mul(2654435761), 103u32.wrapping_mul(2654435761), 104u32.wrapping_mul(2654435761), 105u32.wrapping_mul(2654435761), 106u32.wrapping_mul(2654435761), 107u32.wrapping_mul(2654435761), 108u32.wrapping_mul(2654435761), 109u32.wrapping_mul(2654435761), 110u32.wrapping_mul(2654435761), 111u32.wrapping_mul(2654435761), 112u32.wrapping_mul(2654435761), 113u32.wrapping_mul(2654435761), 114u32.wrapping_mul(2654435761), 115u32.wrapping_mul(2654435761), 116u32.wrapping_mul(2654435761), 117u32.wrapping_mul(2654435761), 118u32.wrapping_mul(2654435761), 119u32.wrapping_mul(2654435761), 120u32.wrapping_mul(2654435761), 121u32.wrapping_mul(2654435761), 122u32.wrapping_mul(2654435761), 123u32.wrapping_mul(2654435761), 124u32.wrapping_mul(2654435761), 125u32.wrapping_mul(2654435761), 126u32.wrapping_mul(2654435761), 127u32.wrapping_mul(2654435761), 128u32.wrapping_mul(2654435761), 129u32.wrapping_mul(2654435761), 130u32.wrapping_mul(2654435761), 131u32.wrapping_mul(2654435761), 132u32.wrapping_mul(2654435761), 133u32.wrapping_mul(2654435761), 134u32.wrapping_mul(2654435761), 135u32.wrapping_mul(2654435761), 136u32.wrapping_mul(2654435761), 137u32.wrapping_mul(2654435761), 138u32.wrapping_mul(2654435761), 139u32.wrapping_mul(2654435761), 140u32.wrapping_mul(2654435761), 141u32.wrapping_mul(2654435761), 142u32.wrapping_mul(2654435761), 143u32.wrapping_mul(2654435761), 144u32.wrapping_mul(2654435761), 145u32.wrapping_mul(2654435761), 146u32.wrapping_mul(2654435761), 147u32.wrapping_mul(2654435761), 148u32.wrapping_mul(2654435761), 149u32.wrapping_mul(2654435761), 150u32.wrapping_mul(2654435761), 151u32.wrapping_mul(2654435761), 152u32.wrapping_mul(2654435761), 153u32.wrapping_mul(2654435761), 154u32.wrapping_mul(2654435761), 155u32.wrapping_mul(2654435761), 156u32.wrapping_mul(2654435761), 157u32.wrapping_mul(2654435761), 158u32.wrapping_mul(2654435761), 159u32.wrapping_mul(2654435761), 160u32.wrapping_mul(2654435761), 161u32.wrapping_mul(2654435761), 162u32.wrapping_mul(2654435761), 163u32.wrapping_mul(2654435761), 164u32.wrapping_mul(2654435761), 165u32.wrapping_mul(2654435761), 166u32.wrapping_mul(2654435761), 167u32.wrapping_mul(2654435761), 168u32.wrapping_mul(2654435761), 169u32.wrapping_mul(2654435761), 170u32.wrapping_mul(2654435761), 171u32.wrapping_mul(2654435761), 172u32.wrapping_mul(2654435761), 173u32.wrapping_mul(2654435761), 174u32.wrapping_mul(2654435761), 175u32.wrapping_mul(2654435761), 176u32.wrapping_mul(2654435761), 177u32.wrapping_mul(2654435761), 178u32.wrapping_mul(2654435761), 179u32.wrapping_mul(2654435761), 180u32.wrapping_mul(2654435761), 181u32.wrapping_mul(2654435761), 182u32.wrapping_mul(2654435761), 183u32.wrapping_mul(2654435761), 184u32.wrapping_mul(2654435761), 185u32.wrapping_mul(2654435761), 186u32.wrapping_mul(2654435761), 187u32.wrapping_mul(2654435761), 188u32.wrapping_mul(2654435761), 189u32.wrapping_mul(2654435761), 190u32.wrapping_mul(2654435761), 191u32.wrapping_mul(2654435761), 192u32.wrapping_mul(2654435761), 193u32.wrapping_mul(2654435761), 194u32.wrapping_mul(2654435761), 195u32.wrapping_mul(2654435761), 196u32.wrapping_mul(2654435761), 197u32.wrapping_mul(2654435761), 198u32.wrapping_mul(2654435761), 199u32.wrapping_mul(2654435761), 200u32.wrapping_mul(2654435761), 201u32.wrapping_mul(2654435761), 202u32.wrapping_mul(2654435761), 203u32.wrapping_mul(2654435761), 204u32.wrapping_mul(2654435761), 205u32.wrapping_mul(2654435761), 206u32.wrapping_mul(2654435761), 207u32.wrapping_mul(2654435761), 208u32.wrapping_mul(2654435761), 209u32.wrapping_mul(2654435761), 210u32.wrapping_mul(2654435761), 211u32.wrapping_mul(2654435761), 212u32.wrapping_mul(2654435761), 213u32.wrapping_mul(2654435761), 214u32.wrapping_mul(2654435761), 215u32.wrapping_mul(2654435761), 216u32.wrapping_mul(2654435761), 217u32.wrapping_mul(2654435761), 218u32.wrapping_mul(2654435761), 219u32.wrapping_mul(2654435761), 220u32.wrapping_mul(2654435761), 221u32.wrapping_mul(2654435761), 222u32.wrapping_mul(2654435761), 223u32.wrapping_mul(2654435761), 224u32.wrapping_mul(2654435761), 225u32.wrapping_mul(2654435761), 226u32.wrapping_mul(2654435761), 227u32.wrapping_mul(2654435761), 228u32.wrapping_mul(2654435761), 229u32.wrapping_mul(2654435761), 230u32.wrapping_mul(2654435761), 231u32.wrapping_mul(2654435761), 232u32.wrapping_mul(2654435761), 233u32.wrapping_mul(2654435761), 234u32.wrapping_mul(2654435761), 235u32.wrapping_mul(2654435761), 236u32.wrapping_mul(2654435761), 237u32.wrapping_mul(2654435761), 238u32.wrapping_mul(2654435761), 239u32.wrapping_mul(2654435761), 240u32.wrapping_mul(2654435761), 241u32.wrapping_mul(2654435761), 242u32.wrapping_mul(2654435761), 243u32.wrapping_mul(2654435761), 244u32.wrapping_mul(2654435761), 245u32.wrapping_mul(2654435761), 246u32.wrapping_mul(2654435761), 247u32.wrapping_mul(2654435761), 248u32.wrapping_mul(2654435761), 249u32.wrapping_mul(2654435761), 250u32.wrapping_mul(2654435761), 251u32.wrapping_mul(2654435761), 252u32.wrapping_mul(2654435761), 253u32.wrapping_mul(2654435761), 254u32.wrapping_mul(2654435761)];
    ck!(a.as_slice() == &nat[..], "arr! list of 255: contents {:?} differ from the native array literal", &a.as_slice()[..a.len().min(8)]);
    ck!(log == seq(255), "arr! list of 255: element expressions were evaluated in order {:?}, expected 0..255 once each", &log[..log.len().min(12)]);
    take_log(); let b: Box<GA<u32, N<255>>> = box_arr![lg(0), lg(1), lg(2), lg(3), lg(4), lg(5), lg(6), lg(7), lg(8), lg(9), lg(10), lg(11), lg(12), lg(13), lg(14), lg(15), lg(16), lg(17), lg(18), lg(19), lg(20), lg(21), lg(22), lg(23), lg(24), lg(25), lg(26), lg(27), lg(28), lg(29), lg(30), lg(31), lg(32), lg(33), lg(34), lg(35), lg(36), lg(37), lg(38), lg(39), lg(40), lg(41), lg(42), lg(43), lg(44), lg(45), lg(46), lg(47), lg(48), lg(49), lg(50), lg(51), lg(52), lg(53), lg(54), lg(55), lg(56), lg(57), lg(58), lg(59), lg(60), lg(61), lg(62), lg(63), lg(64), lg(65), lg(66), lg(67), lg(68), lg(69), lg(70), lg(71), lg(72), lg(73), lg(74), lg(75), lg(76), lg(77), lg(78), lg(79), lg(80), lg(81), lg(82), lg(83), lg(84), lg(85), lg(86), lg(87), lg(88), lg(89), lg(90), lg(91), lg(92), lg(93), lg(94), lg(95), lg(96), lg(97), lg(98), lg(99), lg(100), lg(101), lg(102), lg(103), lg(104), lg(105), lg(106), lg(107), lg(108), lg(109), lg(110), lg(111), lg(112), lg(113), lg(114), lg(115), lg(116), lg(117), lg(118), lg(119), lg(120), lg(121), lg(122), lg(123), lg(124), lg(125), lg(126), lg(127), lg(128), lg(129), lg(130), lg(131), lg(132), lg(133), lg(134), lg(135), lg(136), lg(137), lg(138), lg(139), lg(140), lg(141), lg(142), lg(143), lg(144), lg(145), lg(146), lg(147), lg(148), lg(149), lg(150), lg(151), lg(152), lg(153), lg(154), lg(155), lg(156), lg(157), lg(158), lg(159), lg(160), lg(161), lg(162), lg(163), lg(164), lg(165), lg(166), lg(167), lg(168), lg(169), lg(170), lg(171), lg(172), lg(173), lg(174), lg(175), lg(176), lg(177), lg(178), lg(179), lg(180), lg(181), lg(182), lg(183), lg(184), lg(185), lg(186), lg(187), lg(188), lg(189), lg(190), lg(191), lg(192), lg(193), lg(194), lg(195), lg(196), lg(197), lg(198), lg(199), lg(200), lg(201), lg(202), lg(203), lg(204), lg(205), lg(206), lg(207), lg(208), lg(209), lg(210), lg(211), lg(212), lg(213), lg(214), lg(215), lg(216), lg(217), lg(218), lg(219), lg(220), lg(221), lg(222), lg(223), lg(224), lg(225), lg(226), lg(227), lg(228), lg(229), lg(230), lg(231), lg(232), lg(233), lg(234), lg(235), lg(236), lg(237), lg(238), lg(239), lg(240), lg(241), lg(242), lg(243), lg(244), lg(245), lg(246), lg(247), lg(248), lg(249), lg(250), lg(251), lg(252), lg(253), lg(254),]; let log = take_log();
    ck!(b.as_slice() == &nat[..], "box_arr! list of 255: contents differ from the native array literal");
    ck!(log == seq(255), "box_arr! list of 255: element expressions were evaluated in order {:?}, expected 0..255 once each", &log[..log.len().min(12)]);
    ck!(*b == a, "box_arr! and arr! with the same arguments differ");
    Ok(())
}
fn case_list_256() -> Result<(), String> {
    take_log(); let a: GA<u32, N<256>> = arr![lg(0), lg(1), lg(2), lg(3), lg(4), lg(5), lg(6), lg(7), lg(8), lg(9), lg(10), lg(11), lg(12), lg(13), lg(14), lg(15), lg(16), lg(17), lg(18), lg(19), lg(20), lg(21), lg(22), lg(23), lg(24), lg(25), lg(26), lg(27), lg(28), lg(29), lg(30), lg(31), lg(32), lg(33), lg(34), lg(35), lg(36), lg(37), lg(38), lg(39), lg(40), lg(41), lg(42), lg(43), lg(44), lg(45), lg(46), lg(47), lg(48), lg(49), lg(50), lg(51), lg(52), lg(53), lg(54), lg(55), lg(56), lg(57), lg(58), lg(59), lg(60), lg(61), lg(62), lg(63), lg(64), lg(65), lg(66), lg(67), lg(68), lg(69), lg(70), lg(71), lg(72), lg(73), lg(74), lg(75), lg(76), lg(77), lg(78), lg(79), lg(80), lg(81), lg(82), lg(83), lg(84), lg(85), lg(86), lg(87), lg(88), lg(89), lg(90), lg(91), lg(92), lg(93), lg(94), lg(95), lg(96), lg(97), lg(98), lg(99), lg(100), lg(101), lg(102), lg(103), lg(104), lg(105), lg(106), lg(107), lg(108), lg(109), lg(110), lg(111), lg(112), lg(113), lg(114), lg(115), lg(116), lg(117), lg(118), lg(119), lg(120), lg(121), lg(122), lg(123), lg(124), lg(125), lg(126), lg(127), lg(128), lg(129), lg(130), lg(131), lg(132), lg(133), lg(134), lg(135), lg(136), lg(137), lg(138), lg(139), lg(140), lg(141), lg(142), lg(143), lg(144), lg(145), lg(146), lg(147), lg(148), lg(149), lg(150), lg(151), lg(152), lg(153), lg(154), lg(155), lg(156), lg(157), lg(158), lg(159), lg(160), lg(161), lg(162), lg(163), lg(164), lg(165), lg(166), lg(167), lg(168), lg(169), lg(170), lg(171), lg(172), lg(173), lg(174), lg(175), lg(176), lg(177), lg(178), lg(179), lg(180), lg(181), lg(182), lg(183), lg(184), lg(185), lg(186), lg(187), lg(188), lg(189), lg(190), lg(191), lg(192), lg(193), lg(194), lg(195), lg(196), lg(197), lg(198), lg(199), lg(200), lg(201), lg(202), lg(203), lg(204), lg(205), lg(206), lg(207), lg(208), lg(209), lg(210), lg(211), lg(212), lg(213), lg(214), lg(215), lg(216), lg(217), lg(218), lg(219), lg(220), lg(221), lg(222), lg(223), lg(224), lg(225), lg(226), lg(227), lg(228), lg(229), lg(230), lg(231), lg(232), lg(233), lg(234), lg(235), lg(236), lg(237), lg(238), lg(239), lg(240), lg(241), lg(242), lg(243), lg(244), lg(245), lg(246), lg(247), lg(248), lg(249), lg(250), lg(251), lg(252), lg(253), lg(254), lg(255)]; let log = take_log();
    let nat: [u32; 256] = [0u32.wrapping_mul(2654435761), 1u32.wrapping_mul(2654435761), 2u32.wrapping_mul(2654435761), 3u32.wrapping_mul(2654435761), 4u32.wrapping_mul(2654435761), 5u32.wrapping_mul(2654435761), 6u32.wrapping_mul(2654435761), 7u32.wrapping_mul(2654435761), 8u32.wrapping_mul(2654435761), 9u32.wrapping_mul(2654435761), 10u32.wrapping_mul(2654435761), 11u32.wrapping_mul(2654435761), 12u32.wrapping_mul(2654435761), 13u32.wrapping_mul(2654435761), 14u32.wrapping_mul(2654435761), 15u32.wrapping_mul(2654435761), 16u32.wrapping_mul(2654435761), 17u32.wrapping_mul(2654435761), 18u32.wrapping_mul(2654435761), 19u32.wrapping_mul(2654435761), 20u32.wrapping_mul(2654435761), 21u32.wrapping_mul(2654435761), 22u32.wrapping_mul(2654435761), 23u32.wrapping_mul(2654435761), 24u32.wrapping_mul(2654435761), 25u32.wrapping_mul(2654435761), 26u32.wrapping_mul(2654435761), 27u32.wrapping_mul(2654435761), 28u32.wrapping_mul(2654435761), 29u32.wrapping_mul(2654435761), 30u32.wrapping_mul(2654435761), 31u32.wrapping_mul(2654435761), 32u32.wrapping_mul(2654435761), 33u32.wrapping_mul(2654435761), 34u32.wrapping_mul(2654435761), 35u32.wrapping_mul(2654435761), 36u32.wrapping_mul(2654435761), 37u32.wrapping_mul(2654435761), 38u32.wrapping_mul(2654435761), 39u32.wrapping_mul(2654435761), 40u32.wrapping_mul(2654435761), 41u32.wrapping_mul(2654435761), 42u32.wrapping_mul(2654435761), 43u32.wrapping_mul(2654435761), 44u32.wrapping_mul(2654435761), 45u32.wrapping_mul(2654435761), 46u32.wrapping_mul(2654435761), 47u32.wrapping_mul(2654435761), 48u32.wrapping_mul(2654435761), 49u32.wrapping_mul(2654435761), 50u32.wrapping_mul(2654435761), 51u32.wrapping_mul(2654435761), 52u32.wrapping_mul(2654435761), 53u32.wrapping_mul(2654435761), 54u32.wrapping_mul(2654435761), 55u32.wrapping_mul(2654435761), 56u32.wrapping_mul(2654435761), 57u32.wrapping_mul(2654435761), 58u32.wrapping_mul(2654435761), 59u32.wrapping_mul(2654435761), 60u32.wrapping_mul(2654435761), 61u32.wrapping_mul(2654435761), 62u32.wrapping_mul(2654435761), 63u32.wrapping_mul(2654435761), 64u32.wrapping_mul(2654435761), 65u32.wrapping_mul(2654435761), 66u32.wrapping_mul(2654435761), 67u32.wrapping_mul(2654435761), 68u32.wrapping_mul(2654435761), 69u32.wrapping_mul(2654435761), 70u32.wrapping_mul(2654435761), 71u32.wrapping_mul(2654435761), 72u32.wrapping_mul(2654435761), 73u32.wrapping_mul(2654435761), 74u32.wrapping_mul(2654435761), 75u32.wrapping_mul(2654435761), 76u32.wrapping_mul(2654435761), 77u32.wrapping_mul(2654435761), 78u32.wrapping_mul(2654435761), 79u32.wrapping_mul(2654435761), 80u32.wrapping_mul(2654435761), 81u32.wrapping_mul(2654435761), 82u32.wrapping_mul(2654435761), 83u32.wrapping_mul(2654435761), 84u32.wrapping_mul(2654435761), 85u32.wrapping_mul(2654435761), 86u32.wrapping_mul(2654435761), 87u32.wrapping_mul(2654435761), 88u32.wrapping_mul(2654435761), 89u32.wrapping_mul(2654435761), 90u32.wrapping_mul(2654435761), 91u32.wrapping_mul(2654435761), 92u32.wrapping_mul(2654435761), 93u32.wrapping_mul(2654435761), 94u32.wrapping_mul(2654435761), 95u32.wrapping_mul(2654435761), 96u32.wrapping_mul(2654435761), 97u32.wrapping_mul(2654435761), 98u32.wrapping_mul(2654435761), 99u32.wrapping_mul(2654435761), 100u32.wrapping_mul(2654435761), 101u32.wrapping_mul(2654435761), 102u32.wrapping_mul(2654435761), 103u32.wrapping_mul(2654435761), 104u32.wrapping_mul(2654435761), 105u32.wrapping_mul(2654435761), 106u32.wrapping_mul(2654435761), 107u32.wrapping_mul(2654435761), 108u32.wrapping_mul(2654435761), 109u32.wrapping_mul(2654435761), 110u32.wrapping_mul(2654435761), 111u32.wrapping_mul(2654435761), 112u32.wrapping_mul(2654435761), 113u32.wrapping_mul(2654435761), 114u32.wrapping_mul(2654435761), 115u32.wrapping_mul(2654435761), 116u32.wrapping_mul(2654435761), 117u32.wrapping_mul(2654435761), 118u32.wrapping_mul(2654435761), 119u32.wrapping_mul(2654435761), 120u32.wrapping_mul(2654435761), 121u32.wrapping_mul(2654435761), 122u32.wrapping_mul(2654435761), 123u32.wrapping_mul(2654435761), 124u32.wrapping_mul(2654435761), 125u32.wrapping_mul(2654435761), 126u32.wrapping_mul(2654435761), 127u32.wrapping_mul(2654435761), 128u32.wrapping_mul(2654435761), 129u32.wrapping_mul(2654435761), 130u32.wrapping_mul(2654435761), 131u32.wrapping_mul(2654435761), 132u32.wrapping_mul(2654435761), 133u32.wrapping_mul(2654435761), 134u32.wrapping_mul(2654435761), 135u32.wrapping_mul(2654435761), 136u32.wrapping_mul(2654435761), 137u32.wrapping_mul(2654435761), 138u32.wrapping_mul(2654435761), 139u32.wrapping_mul(2654435761), 140u32.wrapping_mul(2654435761), 141u32.wrapping_mul(2654435761), 142u32.wrapping_mul(2654435761), 143u32.wrapping_mul(2654435761), 144u32.wrapping_mul(2654435761), 145u32.wrapping_mul(2654435761), 146u32.wrapping_mul(2654435761), 147u32.wrapping_mul(2654435761), 148u32.wrapping_mul(2654435761), 149u32.wrapping_mul(2654435761), 150u32.wrapping_mul(2654435761), 151u32.wrapping_mul(2654435761), 152u32.wrapping_mul(2654435761), 153u32.wrapping_mul(2654435761), 154u32.wrapping_mul(2654435761), 155u32.wrapping_mul(2654435761), 156u32.wrapping_mul(2654435761), 157u32.wrapping_mul(2654435761), 158u32.wrapping_mul(2654435761), 159u32.wrapping_mul(2654435761), 160u32.wrapping_mul(2654435761), 161u32.wrapping_mul(2654435761), 162u32.wrapping_mul(2654435761), 163u32.wrapping_mul(2654435761), 164u32.wrapping_mul(2654435761), 165u32.wrapping_mul(2654435761), 166u32.wrapping_mul(2654435761), 167u32.wrapping_mul(2654435761), 168u32.wrapping_mul(2654435761), 169u32.wrapping_mul(2654435761), 170u32.wrapping_mul(2654435761), 171u32.wrapping_mul(2654435761), 172u32.wrapping_mul(2654435761), 173u32.wrapping_mul(2654435761), 174u32.wrapping_mul(2654435761), 175u32.wrapping_mul(2654435761), 176u32.wrapping_mul(2654435761), 177u32.wrapping_mul(2654435761), 178u32.wrapping_mul(2654435761), 179u32.wrapping_mul(2654435761), 180u32.wrapping_mul(2654435761), 181u32.wrapping_mul(2654435761), 182u32.wrapping_mul(2654435761), 183u32.wrapping_mul(2654435761), 184u32.wrapping_mul(2654435761), 185u32.wrapping_mul(2654435761), 186u32.wrapping_mul(2654435761), 187u32.wrapping_mul(2654435761), 188u32.wrapping_mul(2654435761), 189u32.wrapping_mul(2654435761), 190u32.wrapping_mul(2654435761), 191u32.wrapping_mul(2654435761), 192u32.wrapping_mul(2654435761), 193u32.wrapping_mul(2654435761), 194u32.wrapping_mul(2654435761), 195u32.wrapping_mul(2654435761), 196u32.wrapping_mul(2654435761), 197u32.wrapping_mul(2654435761), 198u32.wrapping_mul(2654435761), 199u32.wrapping_mul(2654435761), 200u32.wrapping_mul(2654435761), 201u32.wrapping_mul(2654435761), 202u32.wrapping_mul(2654435761), 203u32.wrapping_mul(2654435761), 204u32.wrapping_mul(2654435761), 205u32.wrapping_mul(2654435761), 206u32.wrapping_mul(2654435761), 207u32.wrapping_mul(2654435761), 208u32.wrapping_mul(2654435761), 209u32.wrapping_mul(2654435761), 210u32.wrapping_mul(2654435761), 211u32.wrapping_mul(2654435761), 212u32.wrapping_mul(2654435761), 213u32.wrapping_mul(2654435761), 214u32.wrapping_mul(2654435761), 215u32.wrapping_mul(2654435761), 216u32.wrapping_mul(2654435761), 217u32.wrapping_mul(2654435761), 218u32.wrapping_mul(2654435761), 219u32.wrapping_mul(2654435761), 220u32.wrapping_mul(2654435761), 221u32.wrapping_mul(2654435761), 222u32.wrapping_mul(2654435761), 223u32.wrapping_mul(2654435761), 224u32.wrapping_mul(2654435761), 225u32.wrapping_mul(2654435761), 226u32.wrapping_mul(2654435761), 227u32.wrapping_mul(2654435761), 228u32.wrapping_mul(2654435761), 229u32.wrapping_mul(2654435761), 230u32.wrapping_mul(2654435761), 231u32.wrapping_mul(2654435761), 232u32.wrapping_mul(2654435761), 233u32.wrapping_mul(2654435761), 234u32.wrapping_mul(2654435761), 235u32.wrapping_mul(2654435761), 236u32.wrapping_mul(2654435761), 237u32.wrapping_mul(2654435761), 238u32.wrapping_mul(2654435761), 239u32.wrapping_mul(2654435761), 240u32.wrapping_mul(2654435761), 241u32.wrapping_mul(2654435761), 242u32.wrapping_mul(2654435761), 243u32.wrapping_mul(2654435761), 244u32.wrapping_mul(2654435761), 245u32.wrapping_mul(2654435761), 246u32.wrapping_mul(2654435761), 247u32.wrapping_mul(2654435761), 248u32.wrapping_mul(2654435761), 249u32.wrapping_mul(2654435761), 250u32.wrapping_mul(2654435761), 251u32.wrapping_mul(2654435761), 252u32.wrapping_mul(2654435761), 253u32.wrapping_mul(2654435761), 254u32.wrapping_mul(2654435761), 255u32.wrapping_mul(2654435761)];
    ck!(a.as_slice() == &nat[..], "arr! list of 256: contents {:?} differ from the native array literal", &a.as_slice()[..a.len().min(8)]);
    ck!(log == seq(256), "arr! list of 256: element expressions were evaluated in order {:?}, expected 0..256 once each", &log[..log.len().min(12)]);
    take_log(); let b: Box<GA<u32, N<256>>> = box_arr![lg(0), lg(1), lg(2), lg(3), lg(4), lg(5), lg(6), lg(7), lg(8), lg(9), lg(10), lg(11), lg(12), lg(13), lg(14), lg(15), lg(16), lg(17), lg(18), lg(19), lg(20), lg(21), lg(22), lg(23), lg(24), lg(25), lg(26), lg(27), lg(28), lg(29), lg(30), lg(31), lg(32), lg(33), lg(34), lg(35), lg(36), lg(37), lg(38), lg(39), lg(40), lg(41), lg(42), lg(43), lg(44), lg(45), lg(46), lg(47), lg(48), lg(49), lg(50), lg(51), lg(52), lg(53), lg(54), lg(55), lg(56), lg(57), lg(58), lg(59), lg(60), lg(61), lg(62), lg(63), lg(64), lg(65), lg(66), lg(67), lg(68), lg(69), lg(70), lg(71), lg(72), lg(73), lg(74), lg(75), lg(76), lg(77), lg(78), lg(79), lg(80), lg(81), lg(82), lg(83), lg(84), lg(85), lg(86), lg(87), lg(88), lg(89), lg(90), lg(91), lg(92), lg(93), lg(94), lg(95), lg(96), lg(97), lg(98), lg(99), lg(100), lg(101), lg(102), lg(103), lg(104), lg(105), lg(106), lg(107), lg(108), lg(109), lg(110), lg(111), lg(112), lg(113), lg(114), lg(115), lg(116), lg(117), lg(118), lg(119), lg(120), lg(121), lg(122), lg(123), lg(124), lg(125), lg(126), lg(127), lg(128), lg(129), lg(130), lg(131), lg(132), lg(133), lg(134), lg(135), lg(136), lg(137), lg(138), lg(139), lg(140), lg(141), lg(142), lg(143), lg(144), lg(145), lg(146), lg(147), lg(148), lg(149), lg(150), lg(151), lg(152), lg(153), lg(154), lg(155), lg(156), lg(157), lg(158), lg(159), lg(160), lg(161), lg(162), lg(163), lg(164), lg(165), lg(166), lg(167), lg(168), lg(169), lg(170), lg(171), lg(172), lg(173), lg(174), lg(175), lg(176), lg(177), lg(178), lg(179), lg(180), lg(181), lg(182), lg(183), lg(184), lg(185), lg(186), lg(187), lg(188), lg(189), lg(190), lg(191), lg(192), lg(193), lg(194), lg(195), lg(196), lg(197), lg(198), lg(199), lg(200), lg(201), lg(202), lg(203), lg(204), lg(205), lg(206), lg(207), lg(208), lg(209), lg(210), lg(211), lg(212), lg(213), lg(214), lg(215), lg(216), lg(217), lg(218), lg(219), lg(220), lg(221), lg(222), lg(223), lg(224), lg(225), lg(226), lg(227), lg(228), lg(229), lg(230), lg(231), lg(232), lg(233), lg(234), lg(235), lg(236), lg(237), lg(238), lg(239), lg(240), lg(241), lg(242), lg(243), lg(244), lg(245), lg(246), lg(247), lg(248), lg(249), lg(250), lg(251), lg(252), lg(253), lg(254), lg(255)]; let log = take_log();
    ck!(b.as_slice() == &nat[..], "box_arr! list of 256: contents differ from the native array literal");
    ck!(log == seq(256), "box_arr! list of 256: element expressions were evaluated in order {:?}, expected 0..256 once each", &log[..log.len().min(12)]);
    ck!(*b == a, "box_arr! and arr! with the same arguments differ");
    Ok(())
}
fn case_list_256_trailing() -> Result<(), String> {
    take_log(); let a: GA<u32, N<256>> = arr![lg(0), lg(1), lg(2), lg(3), lg(4), lg(5), lg(6), lg(7), lg(8), lg(9), lg(10), lg(11), lg(12), lg(13), lg(14), lg(15), lg(16), lg(17), lg(18), lg(19), lg(20), lg(21), lg(22), lg(23), lg(24), lg(25), lg(26), lg(27), lg(28), lg(29), lg(30), lg(31), lg(32), lg(33), lg(34), lg(35), lg(36), lg(37), lg(38), lg(39), lg(40), lg(41), lg(42), lg(43), lg(44), lg(45), lg(46), lg(47), lg(48), lg(49), lg(50), lg(51), lg(52), lg(53), lg(54), lg(55), lg(56), lg(57), lg(58), lg(59), lg(60), lg(61), lg(62), lg(63), lg(64), lg(65), lg(66), lg(67), lg(68), lg(69), lg(70), lg(71), lg(72), lg(73), lg(74), lg(75), lg(76), lg(77), lg(78), lg(79), lg(80), lg(81), lg(82), lg(83), lg(84), lg(85), lg(86), lg(87), lg(88), lg(89), lg(90), lg(91), lg(92), lg(93), lg(94), lg(95), lg(96), lg(97), lg(98), lg(99), lg(100), lg(101), lg(102), lg(103), lg(104), lg(105), lg(106), lg(107), lg(108), lg(109), lg(110), lg(111), lg(112), lg(113), lg(114), lg(115), lg(116), lg(117), lg(118), lg(119), lg(120), lg(121), lg(122), lg(123), lg(124), lg(125), lg(126), lg(127), lg(128), lg(129), lg(130), lg(131), lg(132), lg(133), lg(134), lg(135), lg(136), lg(137), lg(138), lg(139), lg(140), lg(141), lg(142), lg(143), lg(144), lg(145), lg(146), lg(147), lg(148), lg(149), lg(150), lg(151), lg(152), lg(153), lg(154), lg(155), lg(156), lg(157), lg(158), lg(159), lg(160), lg(161), lg(162), lg(163), lg(164), lg(165), lg(166), lg(167), lg(168), lg(169), lg(170), lg(171), lg(172), lg(173), lg(174), lg(175), lg(176), lg(177), lg(178), lg(179), lg(180), lg(181), lg(182), lg(183), lg(184), lg(185), lg(186), lg(187), lg(188), lg(189), lg(190), lg(191), lg(192), lg(193), lg(194), lg(195), lg(196), lg(197), lg(198), lg(199), lg(200), lg(201), lg(202), lg(203), lg(204), lg(205), lg(206), lg(207), lg(208), lg(209), lg(210), lg(211), lg(212), lg(213), lg(214), lg(215), lg(216), lg(217), lg(218), lg(219), lg(220), lg(221), lg(222), lg(223), lg(224), lg(225), lg(226), lg(227), lg(228), lg(229), lg(230), lg(231), lg(232), lg(233), lg(234), lg(235), lg(236), lg(237), lg(238), lg(239), lg(240), lg(241), lg(242), lg(243), lg(244), lg(245), lg(246), lg(247), lg(248), lg(249), lg(250), lg(251), lg(252), lg(253), lg(254), lg(255),]; let log = take_log();
    let nat: [u32; 256] = [0u32.wrapping_mul(2654435761), 1u32.wrapping_mul(2654435761), 2u32.wrapping_mul(2654435761), 3u32.wrapping_mul(2654435761), 4u32.wrapping_mul(2654435761), 5u32.wrapping_mul(2654435761), 6u32.wrapping_mul(2654435761), 7u32.wrapping_mul(2654435761), 8u32.wrapping_mul(2654435761), 9u32.wrapping_mul(2654435761), 10u32.wrapping_mul(2654435761), 11u32.wrapping_mul(2654435761), 12u32.wrapping_mul(2654435761), 13u32.wrapping_mul(2654435761), 14u32.wrapping_mul(2654435761), 15u32.wrapping_mul(2654435761), 16u32.wrapping_mul(2654435761), 17u32.wrapping_mul(2654435761), 18u32.wrapping_mul(2654435761), 19u32.wrapping_mul(2654435761), 20u32.wrapping_mul(2654435761), 21u32.wrapping_mul(2654435761), 22u32.wrapping_mul(2654435761), 23u32.wrapping_mul(2654435761), 24u32.wrapping_mul(2654435761), 25u32.wrapping_mul(2654435761), 26u32.wrapping_mul(2654435761), 27u32.wrapping_mul(2654435761), 28u32.wrapping_mul(2654435761), 29u32.wrapping_mul(2654435761), 30u32.wrapping_mul(2654435761), 31u32.wrapping_mul(2654435761), 32u32.wrapping_mul(2654435761), 33u32.wrapping_mul(2654435761), 34u32.wrapping_mul(2654435761), 35u32.wrapping_mul(2654435761), 36u32.wrapping_mul(2654435761), 37u32.wrapping_mul(2654435761), 38u32.wrapping_mul(2654435761), 39u32.wrapping_mul(2654435761), 40u32.wrapping_mul(2654435761), 41u32.wrapping_mul(2654435761), 42u32.wrapping_mul(2654435761), 43u32.wrapping_mul(2654435761), 44u32.wrapping_mul(2654435761), 45u32.wrapping_mul(2654435761), 46u32.wrapping_mul(2654435761), 47u32.wrapping_mul(2654435761), 48u32.wrapping_mul(2654435761), 49u32.wrapping_mul(2654435761), 50u32.wrapping_mul(2654435761), 51u32.wrapping_mul(2654435761), 52u32.wrapping_mul(2654435761), 53u32.wrapping_mul(2654435761), 54u32.wrapping_mul(2654435761), 55u32.wrapping_mul(2654435761), 56u32.wrapping_mul(2654435761), 57u32.wrapping_mul(2654435761), 58u32.wrapping_mul(2654435761), 59u32.wrapping_mul(2654435761), 60u32.wrapping_mul(2654435761), 61u32.wrapping_mul(2654435761), 62u32.wrapping_mul(2654435761), 63u32.wrapping_mul(2654435761), 64u32.wrapping_mul(2654435761), 65u32.wrapping_mul(2654435761), 66u32.wrapping_mul(2654435761), 67u32.wrapping_mul(2654435761), 68u32.wrapping_mul(2654435761), 69u32.wrapping_mul(2654435761), 70u32.wrapping_mul(2654435761), 71u32.wrapping_mul(2654435761), 72u32.wrapping_mul(2654435761), 73u32.wrapping_mul(2654435761), 74u32.wrapping_mul(2654435761), 75u32.wrapping_mul(2654435761), 76u32.wrapping_mul(2654435761), 77u32.wrapping_mul(2654435761), 78u32.wrapping_mul(2654435761), 79u32.wrapping_mul(2654435761), 80u32.wrapping_mul(2654435761), 81u32.wrapping_mul(2654435761), 82u32.wrapping_mul(2654435761), 83u32.wrapping_mul(2654435761), 84u32.wrapping_mul(2654435761), 85u32.wrapping_mul(2654435761), 86u32.wrapping_mul(2654435761), 87u32.wrapping_mul(2654435761), 88u32.wrapping_mul(2654435761), 89u32.wrapping_mul(2654435761), 90u32.wrapping_mul(2654435761), 91u32.wrapping_mul(2654435761), 92u32.wrapping_mul(2654435761), 93u32.wrapping_mul(2654435761), 94u32.wrapping_mul(2654435761), 95u32.wrapping_mul(2654435761), 96u32.wrapping_mul(2654435761), 97u32.wrapping_mul(2654435761), 98u32.wrapping_mul(2654435761), 99u32.wrapping_mul(2654435761), 100u32.wrapping_mul(2654435761), 101u32.wrapping_mul(2654435761), 102u32.wrapping_mul(2654435761), 103u32.wrapping_mul(2654435761), 104u32.wrapping_mul(2654435761), 105u32.wrapping_mul(2654435761), 106u32.wrapping_mul(2654435761), 107u32.wrapping_mul(2654435761), 108u32.wrapping_mul(2654435761), 109u32.wrapping_mul(2654435761), 110u32.wrapping_mul(2654435761), 111u32.wrapping_mul(2654435761), 112u32.wrapping_mul(2654435761), 113u32.wrapping_mul(2654435761), 114u32.wrapping_mul(2654435761), 115u32.wrapping_mul(2654435761), 116u32.wrapping_mul(2654435761), 117u32.wrapping_mul(2654435761), 118u32.wrapping_mul(2654435761), 119u32.wrapping_mul(2654435761), 120u32.wrapping_mul(2654435761), 121u32.wrapping_mul(2654435761), 122u32.wrapping_mul(2654435761), 123u32.wrapping_mul(2654435761), 124u32.wrapping_mul(2654435761), 125u32.wrapping_mul(2654435761), 126u32.wrapping_mul(2654435761), 127u32.wrapping_mul(2654435761), 128u32.wrapping_mul(2654435761), 129u32.wrapping_mul(2654435761), 130u32.wrapping_mul(2654435761), 131u32.wrapping_mul(2654435761), 132u32.wrapping_mul(2654435761), 133u32.wrapping_mul(2654435761), 134u32.wrapping_mul(2654435761), 135u32.wrapping_mul(2654435761), 136u32.wrapping_mul(2654435761), 137u32.wrapping_mul(2654435761), 138u32.wrapping_mul(2654435761), 139u32.wrapping_mul(2654435761), 140u32.wrapping_mul(2654435761), 141u32.wrapping_mul(2654435761), 142u32.wrapping_mul(2654435761), 143u32.wrapping_mul(2654435761), 144u32.wrapping_mul(2654435761), 145u32.wrapping_mul(2654435761), 146u32.wrapping_mul(2654435761), 147u32.wrapping_mul(2654435761), 148u32.wrapping_mul(2654435761), 149u32.wrapping_mul(2654435761), 150u32.wrapping_mul(2654435761), 151u32.wrapping_mul(2654435761), 152u32.wrapping_mul(2654435761), 153u32.wrapping_mul(2654435761), 154u32.wrapping_mul(2654435761), 155u32.wrapping_mul(2654435761), 156u32.wrapping_mul(2654435761), 157u32.wrapping_mul(2654435761), 158u32.wrapping_mul(2654435761), 159u32.wrapping_mul(2654435761), 160u32.wrapping_mul(2654435761), 161u32.wrapping_mul(2654435761), 162u32.wrapping_mul(2654435761), 163u32.wrapping_mul(2654435761), 164u32.wrapping_mul(2654435761), 165u32.wrapping_mul(2654435761), 166u32.wrapping_mul(2654435761), 167u32.wrapping_mul(2654435761), 168u32.wrapping_mul(2654435761), 169u32.wrapping_mul(2654435761), 170u32.wrapping_mul(2654435761), 171u32.wrapping_mul(2654435761), 172u32.wrapping_mul(2654435761), 173u32.wrapping_mul(2654435761), 174u32.wrapping_mul(2654435761), 175u32.wrapping_mul(2654435761), 176u32.wrapping_mul(2654435761), 177u32.wrapping_mul(2654435761), 178u32.wrapping_mul(2654435761), 179u32.wrapping_mul(2654435761), 180u32.wrapping_mul(2654435761), 181u32.wrapping_mul(2654435761), 182u32.wrapping_mul(2654435761), 183u32.wrapping_mul(2654435761), 184u32.wrapping_mul(2654435761), 185u32.wrapping_mul(2654435761), 186u32.wrapping_mul(2654435761), 187u32.wrapping_mul(2654435761), 188u32.wrapping_mul(2654435761), 189u32.wrapping_mul(2654435761), 190u32.wrapping_mul(2654435761), 191u32.wrapping_mul(2654435761), 192u32.wrapping_mul(2654435761), 193u32.wrapping_mul(2654435761), 194u32.wrapping_mul(2654435761), 195u32.wrapping_mul(2654435761), 196u32.wrapping_mul(2654435761), 197u32.wrapping_mul(2654435761), 198u32.wrapping_mul(2654435761), 199u32.wrapping_mul(2654435761), 200u32.wrapping_mul(2654435761), 201u32.wrapping_mul(2654435761), 202u32.wrapping_mul(2654435761), 203u32.wrapping_mul(2654435761), 204u32.wrapping_mul(2654435761), 205u32.wrapping_mul(2654435761), 206u32.wrapping_mul(2654435761), 207u32.wrapping_mul(2654435761), 208u32.wrapping_mul(2654435761), 209u32.wrapping_mul(2654435761), 210u32.wrapping_mul(2654435761), 211u32.wrapping_mul(2654435761), 212u32.wrapping_mul(2654435761), 213u32.wrapping_mul(2654435761), 214u32.wrapping_mul(2654435761), 215u32.wrapping_mul(2654435761), 216u32.wrapping_mul(2654435761), 217u32.wrapping_mul(2654435761), 218u32.wrapping_mul(2654435761), 219u32.wrapping_mul(2654435761), 220u32.wrapping_mul(2654435761), 221u32.wrapping_mul(2654435761), 222u32.wrapping_mul(2654435761), 223u32.wrapping_mul(2654435761), 224u32.wrapping_mul(2654435761), 225u32.wrapping_mul(2654435761), 226u32.wrapping_mul(2654435761), 227u32.wrapping_mul(2654435761), 228u32.wrapping_mul(2654435761), 229u32.wrapping_mul(2654435761), 230u32.wrapping_mul(2654435761), 231u32.wrapping_mul(2654435761), 232u32.wrapping_mul(2654435761), 233u32.wrapping_mul(2654435761), 234u32.wrapping_mul(2654435761), 235u32.wrapping_mul(2654435761), 236u32.wrapping_mul(2654435761), 237u32.wrapping_mul(2654435761), 238u32.wrapping_mul(2654435761), 239u32.wrapping_mul(2654435761), 240u32.wrapping_mul(2654435761), 241u32.wrapping_mul(2654435761), 242u32.wrapping_mul(2654435761), 243u32.wrapping_mul(2654435761), 244u32.wrapping_mul(2654435761), 245u32.wrapping_mul(2654435761), 246u32.wrapping_mul(2654435761), 247u32.wrapping_mul(2654435761), 248u32.wrapping_mul(2654435761), 249u32.wrapping_mul(2654435761), 250u32.wrapping_mul(2654435761), 251u32.wrapping_mul(2654435761), 252u32.wrapping_mul(2654435761), 253u32.wrapping_mul(2654435761), 254u32.wrapping_mul(2654435761), 255u32.wrapping_mul(2654435761)];
    ck!(a.as_slice() == &nat[..], "arr! list of 256: contents {:?} differ from the native array literal", &a.as_slice()[..a.len().min(8)]);
    ck!(log == seq(256), "arr! list of 256: element expressions were evaluated in order {:?}, expected 0..256 once each", &log[..log.len().min(12)]);
    take_log(); let b: Box<GA<u32, N<256>>> = box_arr![lg(0), lg(1), lg(2), lg(3), lg(4), lg(5), lg(6), lg(7), lg(8), lg(9), lg(10), lg(11), lg(12), lg(13), lg(14), lg(15), lg(16), lg(17), lg(18), lg(19), lg(20), lg(21), lg(22), lg(23), lg(24), lg(25), lg(26), lg(27), lg(28), lg(29), lg(30), lg(31), lg(32), lg(33), lg(34), lg(35), lg(36), lg(37), lg(38), lg(39), lg(40), lg(41), lg(42), lg(43), lg(44), lg(45), lg(46), lg(47), lg(48), lg(49), lg(50), lg(51), lg(52), lg(53), lg(54), lg(55), lg(56), lg(57), lg(58), lg(59), lg(60), lg(61), lg(62), lg(63), lg(64), lg(65), lg(66), lg(67), lg(68), lg(69), lg(70), lg(71), lg(72), lg(73), lg(74), lg(75), lg(76), lg(77), lg(78), lg(79), lg(80), lg(81), lg(82), lg(83), lg(84), lg(85), lg(86), lg(87), lg(88), lg(89), lg(90), lg(91), lg(92), lg(93), lg(94), lg(95), lg(96), lg(97), lg(98), lg(99), lg(100), lg(101), lg(102), lg(103), lg(104), lg(105), lg(106), lg(107), lg(108), lg(109), lg(110), lg(111), lg(112), lg(113), lg(114), lg(115), lg(116), lg(117), lg(118), lg(119), lg(120), lg(121), lg(122), lg(123), lg(124), lg(125), lg(126), lg(127), lg(128), lg(129), lg(130), lg(131), lg(132), lg(133), lg(134), lg(135), lg(136), lg(137), lg(138), lg(139), lg(140), lg(141), lg(142), lg(143), lg(144), lg(145), lg(146), lg(147), lg(148), lg(149), lg(150), lg(151), lg(152), lg(153), lg(154), lg(155), lg(156), lg(157), lg(158), lg(159), lg(160), lg(161), lg(162), lg(163), lg(164), lg(165), lg(166), lg(167), lg(168), lg(169), lg(170), lg(171), lg(172), lg(173), lg(174), lg(175), lg(176), lg(177), lg(178), lg(179), lg(180), lg(181), lg(182), lg(183), lg(184), lg(185), lg(186), lg(187), lg(188), lg(189), lg(190), lg(191), lg(192), lg(193), lg(194), lg(195), lg(196), lg(197), lg(198), lg(199), lg(200), lg(201), lg(202), lg(203), lg(204), lg(205), lg(206), lg(207), lg(208), lg(209), lg(210), lg(211), lg(212), lg(213), lg(214), lg(215), lg(216), lg(217), lg(218), lg(219), lg(220), lg(221), lg(222), lg(223), lg(224), lg(225), lg(226), lg(227), lg(228), lg(229), lg(230), lg(231), lg(232), lg(233), lg(234), lg(235), lg(236), lg(237), lg(238), lg(239), lg(240), lg(241), lg(242), lg(243), lg(244), lg(245), lg(246), lg(247), lg(248), lg(249), lg(250), lg(251), lg(252), lg(253), lg(254), lg(255),]; let log = take_log();
    ck!(b.as_slice() == &nat[..], "box_arr! list of 256: contents differ from the native array literal");
    ck!(log == seq(256), "box_arr! list of 256: element expressions were evaluated in order {:?}, expected 0..256 once each", &log[..log.len().min(12)]);
    ck!(*b == a, "box_arr! and arr! with the same arguments differ");
    Ok(())
}
fn case_list_noncopy_256() -> Result<(), String> {
    take_log(); let a: GA<String, N<256>> = arr![ls(0), ls(1), ls(2), ls(3), ls(4), ls(5), ls(6), ls(7), ls(8), ls(9), ls(10), ls(11), ls(12), ls(13), ls(14), ls(15), ls(16), ls(17), ls(18), ls(19), ls(20), ls(21), ls(22), ls(23), ls(24), ls(25), ls(26), ls(27), ls(28), ls(29), ls(30), ls(31), ls(32), ls(33), ls(34), ls(35), ls(36), ls(37), ls(38), ls(39), ls(40), ls(41), ls(42), ls(43), ls(44), ls(45), ls(46), ls(47), ls(48), ls(49), ls(50), ls(51), ls(52), ls(53), ls(54), ls(55), ls(56), ls(57), ls(58), ls(59), ls(60), ls(61), ls(62), ls(63), ls(64), ls(65), ls(66), ls(67), ls(68), ls(69), ls(70), ls(71), ls(72), ls(73), ls(74), ls(75), ls(76), ls(77), ls(78), ls(79), ls(80), ls(81), ls(82), ls(83), ls(84), ls(85), ls(86), ls(87), ls(88), ls(89), ls(90), ls(91), ls(92), ls(93), ls(94), ls(95), ls(96), ls(97), ls(98), ls(99), ls(100), ls(101), ls(102), ls(103), ls(104), ls(105), ls(106), ls(107), ls(108), ls(109), ls(110), ls(111), ls(112), ls(113), ls(114), ls(115), ls(116), ls(117), ls(118), ls(119), ls(120), ls(121), ls(122), ls(123), ls(124), ls(125), ls(126), ls(127), ls(128), ls(129), ls(130), ls(131), ls(132), ls(133), ls(134), ls(135), ls(136), ls(137), ls(138), ls(139), ls(140), ls(141), ls(142), ls(143), ls(144), ls(145), ls(146), ls(147), ls(148), ls(149), ls(150), ls(151), ls(152), ls(153), ls(154), ls(155), ls(156), ls(157), ls(158), ls(159), ls(160), ls(161), ls(162), ls(163), ls(164), ls(165), ls(166), ls(167), ls(168), ls(169), ls(170), ls(171), ls(172), ls(173), ls(174), ls(175), ls(176), ls(177), ls(178), ls(179), ls(180), ls(181), ls(182), ls(183), ls(184), ls(185), ls(186), ls(187), ls(188), ls(189), ls(190), ls(191), ls(192), ls(193), ls(194), ls(195), ls(196), ls(197), ls(198), ls(199), ls(200), ls(201), ls(202), ls(203), ls(204), ls(205), ls(206), ls(207), ls(208), ls(209), ls(210), ls(211), ls(212), ls(213), ls(214), ls(215), ls(216), ls(217), ls(218), ls(219), ls(220), ls(221), ls(222), ls(223), ls(224), ls(225), ls(226), ls(227), ls(228), ls(229), ls(230), ls(231), ls(232), ls(233), ls(234), ls(235), ls(236), ls(237), ls(238), ls(239), ls(240), ls(241), ls(242), ls(243), ls(244), ls(245), ls(246), ls(247), ls(248), ls(249), ls(250), ls(251), ls(252), ls(253), ls(254), ls(255)]; let log = take_log();
    ck!(a.iter().enumerate().all(|(i, s)| *s == format!("s{i}")) && a.len() == 256, "arr! list of 256 Strings: wrong contents");
    ck!(log == seq(256), "arr! list of 256 Strings: evaluation order {:?}", &log[..log.len().min(12)]);
    take_log(); take_drops();
    { let d: GA<D, N<256>> = arr![ld(0), ld(1), ld(2), ld(3), ld(4), ld(5), ld(6), ld(7), ld(8), ld(9), ld(10), ld(11), ld(12), ld(13), ld(14), ld(15), ld(16), ld(17), ld(18), ld(19), ld(20), ld(21), ld(22), ld(23), ld(24), ld(25), ld(26), ld(27), ld(28), ld(29), ld(30), ld(31), ld(32), ld(33), ld(34), ld(35), ld(36), ld(37), ld(38), ld(39), ld(40), ld(41), ld(42), ld(43), ld(44), ld(45), ld(46), ld(47), ld(48), ld(49), ld(50), ld(51), ld(52), ld(53), ld(54), ld(55), ld(56), ld(57), ld(58), ld(59), ld(60), ld(61), ld(62), ld(63), ld(64), ld(65), ld(66), ld(67), ld(68), ld(69), ld(70), ld(71), ld(72), ld(73), ld(74), ld(75), ld(76), ld(77), ld(78), ld(79), ld(80), ld(81), ld(82), ld(83), ld(84), ld(85), ld(86), ld(87), ld(88), ld(89), ld(90), ld(91), ld(92), ld(93), ld(94), ld(95), ld(96), ld(97), ld(98), ld(99), ld(100), ld(101), ld(102), ld(103), ld(104), ld(105), ld(106), ld(107), ld(108), ld(109), ld(110), ld(111), ld(112), ld(113), ld(114), ld(115), ld(116), ld(117), ld(118), ld(119), ld(120), ld(121), ld(122), ld(123), ld(124), ld(125), ld(126), ld(127), ld(128), ld(129), ld(130), ld(131), ld(132), ld(133), ld(134), ld(135), ld(136), ld(137), ld(138), ld(139), ld(140), ld(141), ld(142), ld(143), ld(144), ld(145), ld(146), ld(147), ld(148), ld(149), ld(150), ld(151), ld(152), ld(153), ld(154), ld(155), ld(156), ld(157), ld(158), ld(159), ld(160), ld(161), ld(162), ld(163), ld(164), ld(165), ld(166), ld(167), ld(168), ld(169), ld(170), ld(171), ld(172), ld(173), ld(174), ld(175), ld(176), ld(177), ld(178), ld(179), ld(180), ld(181), ld(182), ld(183), ld(184), ld(185), ld(186), ld(187), ld(188), ld(189), ld(190), ld(191), ld(192), ld(193), ld(194), ld(195), ld(196), ld(197), ld(198), ld(199), ld(200), ld(201), ld(202), ld(203), ld(204), ld(205), ld(206), ld(207), ld(208), ld(209), ld(210), ld(211), ld(212), ld(213), ld(214), ld(215), ld(216), ld(217), ld(218), ld(219), ld(220), ld(221), ld(222), ld(223), ld(224), ld(225), ld(226), ld(227), ld(228), ld(229), ld(230), ld(231), ld(232), ld(233), ld(234), ld(235), ld(236), ld(237), ld(238), ld(239), ld(240), ld(241), ld(242), ld(243), ld(244), ld(245), ld(246), ld(247), ld(248), ld(249), ld(250), ld(251), ld(252), ld(253), ld(254), ld(255)]; ck!(take_drops().is_empty(), "arr! list of 256: an element was dropped while the array is alive");
      ck!(d.iter().enumerate().all(|(i, x)| x.0 == i as u32), "arr! list of 256 drop-tracked elements: wrong contents"); }
    let mut dr = take_drops(); dr.sort(); ck!(dr == seq(256), "arr! list of 256: drop counts after the array is gone: {:?}", &dr[..dr.len().min(12)]);
    take_log(); take_drops();
    { let d: Box<GA<D, N<256>>> = box_arr![ld(0), ld(1), ld(2), ld(3), ld(4), ld(5), ld(6), ld(7), ld(8), ld(9), ld(10), ld(11), ld(12), ld(13), ld(14), ld(15), ld(16), ld(17), ld(18), ld(19), ld(20), ld(21), ld(22), ld(23), ld(24), ld(25), ld(26), ld(27), ld(28), ld(29), ld(30), ld(31), ld(32), ld(33), ld(34), ld(35), ld(36), ld(37), ld(38), ld(39), ld(40), ld(41), ld(42), ld(43), ld(44), ld(45), ld(46), ld(47), ld(48), ld(49), ld(50), ld(51), ld(52), ld(53), ld(54), ld(55), ld(56), ld(57), ld(58), ld(59), ld(60), ld(61), ld(62), ld(63), ld(64), ld(65), ld(66), ld(67), ld(68), ld(69), ld(70), ld(71), ld(72), ld(73), ld(74), ld(75), ld(76), ld(77), ld(78), ld(79), ld(80), ld(81), ld(82), ld(83), ld(84), ld(85), ld(86), ld(87), ld(88), ld(89), ld(90), ld(91), ld(92), ld(93), ld(94), ld(95), ld(96), ld(97), ld(98), ld(99), ld(100), ld(101), ld(102), ld(103), ld(104), ld(105), ld(106), ld(107), ld(108), ld(109), ld(110), ld(111), ld(112), ld(113), ld(114), ld(115), ld(116), ld(117), ld(118), ld(119), ld(120), ld(121), ld(122), ld(123), ld(124), ld(125), ld(126), ld(127), ld(128), ld(129), ld(130), ld(131), ld(132), ld(133), ld(134), ld(135), ld(136), ld(137), ld(138), ld(139), ld(140), ld(141), ld(142), ld(143), ld(144), ld(145), ld(146), ld(147), ld(148), ld(149), ld(150), ld(151), ld(152), ld(153), ld(154), ld(155), ld(156), ld(157), ld(158), ld(159), ld(160), ld(161), ld(162), ld(163), ld(164), ld(165), ld(166), ld(167), ld(168), ld(169), ld(170), ld(171), ld(172), ld(173), ld(174), ld(175), ld(176), ld(177), ld(178), ld(179), ld(180), ld(181), ld(182), ld(183), ld(184), ld(185), ld(186), ld(187), ld(188), ld(189), ld(190), ld(191), ld(192), ld(193), ld(194), ld(195), ld(196), ld(197), ld(198), ld(199), ld(200), ld(201), ld(202), ld(203), ld(204), ld(205), ld(206), ld(207), ld(208), ld(209), ld(210), ld(211), ld(212), ld(213), ld(214), ld(215), ld(216), ld(217), ld(218), ld(219), ld(220), ld(221), ld(222), ld(223), ld(224), ld(225), ld(226), ld(227), ld(228), ld(229), ld(230), ld(231), ld(232), ld(233), ld(234), ld(235), ld(236), ld(237), ld(238), ld(239), ld(240), ld(241), ld(242), ld(243), ld(244), ld(245), ld(246), ld(247), ld(248), ld(249), ld(250), ld(251), ld(252), ld(253), ld(254), ld(255)]; ck!(take_drops().is_empty(), "box_arr! list of 256: an element was dropped while the box is alive");
      ck!(d.iter().enumerate().all(|(i, x)| x.0 == i as u32), "box_arr! list of 256 drop-tracked elements: wrong contents"); ck!(take_log() == seq(256), "box_arr! list of 256: evaluation order"); }
    let mut dr = take_drops(); dr.sort(); ck!(dr == seq(256), "box_arr! list of 256: drop counts after the box is gone: {:?}", &dr[..dr.len().min(12)]);
    Ok(())
}
const CL_256: GA<u8, N<256>> = arr![1u8, 6u8, 11u8, 16u8, 21u8, 26u8, 31u8, 36u8, 41u8, 46u8, 51u8, 56u8, 61u8, 66u8, 71u8, 76u8, 81u8, 86u8, 91u8, 96u8, 101u8, 106u8, 111u8, 116u8, 121u8, 126u8, 131u8, 136u8, 141u8, 146u8, 151u8, 156u8, 161u8, 166u8, 171u8, 176u8, 181u8, 186u8, 191u8, 196u8, 201u8, 206u8, 211u8, 216u8, 221u8, 226u8, 231u8, 236u8, 241u8, 246u8, 0u8, 5u8, 10u8, 15u8, 20u8, 25u8, 30u8, 35u8, 40u8, 45u8, 50u8, 55u8, 60u8, 65u8, 70u8, 75u8, 80u8, 85u8, 90u8, 95u8, 100u8, 105u8, 110u8, 115u8, 120u8, 125u8, 130u8, 135u8, 140u8, 145u8, 150u8, 155u8, 160u8, 165u8, 170u8, 175u8, 180u8, 185u8, 190u8, 195u8, 200u8, 205u8, 210u8, 215u8, 220u8, 225u8, 230u8, 235u8, 240u8, 245u8, 250u8, 4u8, 9u8, 14u8, 19u8, 24u8, 29u8, 34u8, 39u8, 44u8, 49u8, 54u8, 59u8, 64u8, 69u8, 74u8, 79u8, 84u8, 89u8, 94u8, 99u8, 104u8, 109u8, 114u8, 119u8, 124u8, 129u8, 134u8, 139u8, 144u8, 149u8, 154u8, 159u8, 164u8, 169u8, 174u8, 179u8, 184u8, 189u8, 194u8, 199u8, 204u8, 209u8, 214u8, 219u8, 224u8, 229u8, 234u8, 239u8, 244u8, 249u8, 3u8, 8u8, 13u8, 18u8, 23u8, 28u8, 33u8, 38u8, 43u8, 48u8, 53u8, 58u8, 63u8, 68u8, 73u8, 78u8, 83u8, 88u8, 93u8, 98u8, 103u8, 108u8, 113u8, 118u8, 123u8, 128u8, 133u8, 138u8, 143u8, 148u8, 153u8, 158u8, 163u8, 168u8, 173u8, 178u8, 183u8, 188u8, 193u8, 198u8, 203u8, 208u8, 213u8, 218u8, 223u8, 228u8, 233u8, 238u8, 243u8, 248u8, 2u8, 7u8, 12u8, 17u8, 22u8, 27u8, 32u8, 37u8, 42u8, 47u8, 52u8, 57u8, 62u8, 67u8, 72u8, 77u8, 82u8, 87u8, 92u8, 97u8, 102u8, 107u8, 112u8, 117u8, 122u8, 127u8, 132u8, 137u8, 142u8, 147u8, 152u8, 157u8, 162u8, 167u8, 172u8, 177u8, 182u8, 187u8, 192u8, 197u8, 202u8, 207u8, 212u8, 217u8, 222u8, 227u8, 232u8, 237u8, 242u8, 247u8, 1u8, 6u8, 11u8, 16u8, 21u8];
static SL_256: GA<u8, N<256>> = arr![1u8, 6u8, 11u8, 16u8, 21u8, 26u8, 31u8, 36u8, 41u8, 46u8, 51u8, 56u8, 61u8, 66u8, 71u8, 76u8, 81u8, 86u8, 91u8, 96u8, 101u8, 106u8, 111u8, 116u8, 121u8, 126u8, 131u8, 136u8, 141u8, 146u8, 151u8, 156u8, 161u8, 166u8, 171u8, 176u8, 181u8, 186u8, 191u8, 196u8, 201u8, 206u8, 211u8, 216u8, 221u8, 226u8, 231u8, 236u8, 241u8, 246u8, 0u8, 5u8, 10u8, 15u8, 20u8, 25u8, 30u8, 35u8, 40u8, 45u8, 50u8, 55u8, 60u8, 65u8, 70u8, 75u8, 80u8, 85u8, 90u8, 95u8, 100u8, 105u8, 110u8, 115u8, 120u8, 125u8, 130u8, 135u8, 140u8, 145u8, 150u8, 155u8, 160u8, 165u8, 170u8, 175u8, 180u8, 185u8, 190u8, 195u8, 200u8, 205u8, 210u8, 215u8, 220u8, 225u8, 230u8, 235u8, 240u8, 245u8, 250u8, 4u8, 9u8, 14u8, 19u8, 24u8, 29u8, 34u8, 39u8, 44u8, 49u8, 54u8, 59u8, 64u8, 69u8, 74u8, 79u8, 84u8, 89u8, 94u8, 99u8, 104u8, 109u8, 114u8, 119u8, 124u8, 129u8, 134u8, 139u8, 144u8, 149u8, 154u8, 159u8, 164u8, 169u8, 174u8, 179u8, 184u8, 189u8, 194u8, 199u8, 204u8, 209u8, 214u8, 219u8, 224u8, 229u8, 234u8, 239u8, 244u8, 249u8, 3u8, 8u8, 13u8, 18u8, 23u8, 28u8, 33u8, 38u8, 43u8, 48u8, 53u8, 58u8, 63u8, 68u8, 73u8, 78u8, 83u8, 88u8, 93u8, 98u8, 103u8, 108u8, 113u8, 118u8, 123u8, 128u8, 133u8, 138u8, 143u8, 148u8, 153u8, 158u8, 163u8, 168u8, 173u8, 178u8, 183u8, 188u8, 193u8, 198u8, 203u8, 208u8, 213u8, 218u8, 223u8, 228u8, 233u8, 238u8, 243u8, 248u8, 2u8, 7u8, 12u8, 17u8, 22u8, 27u8, 32u8, 37u8, 42u8, 47u8, 52u8, 57u8, 62u8, 67u8, 72u8, 77u8, 82u8, 87u8, 92u8, 97u8, 102u8, 107u8, 112u8, 117u8, 122u8, 127u8, 132u8, 137u8, 142u8, 147u8, 152u8, 157u8, 162u8, 167u8, 172u8, 177u8, 182u8, 187u8, 192u8, 197u8, 202u8, 207u8, 212u8, 217u8, 222u8, 227u8, 232u8, 237u8, 242u8, 247u8, 1u8, 6u8, 11u8, 16u8, 21u8,];
const fn cfl_256() -> GA<u8, N<256>> { arr![1u8, 6u8, 11u8, 16u8, 21u8, 26u8, 31u8, 36u8, 41u8, 46u8, 51u8, 56u8, 61u8, 66u8, 71u8, 76u8, 81u8, 86u8, 91u8, 96u8, 101u8, 106u8, 111u8, 116u8, 121u8, 126u8, 131u8, 136u8, 141u8, 146u8, 151u8, 156u8, 161u8, 166u8, 171u8, 176u8, 181u8, 186u8, 191u8, 196u8, 201u8, 206u8, 211u8, 216u8, 221u8, 226u8, 231u8, 236u8, 241u8, 246u8, 0u8, 5u8, 10u8, 15u8, 20u8, 25u8, 30u8, 35u8, 40u8, 45u8, 50u8, 55u8, 60u8, 65u8, 70u8, 75u8, 80u8, 85u8, 90u8, 95u8, 100u8, 105u8, 110u8, 115u8, 120u8, 125u8, 130u8, 135u8, 140u8, 145u8, 150u8, 155u8, 160u8, 165u8, 170u8, 175u8, 180u8, 185u8, 190u8, 195u8, 200u8, 205u8, 210u8, 215u8, 220u8, 225u8, 230u8, 235u8, 240u8, 245u8, 250u8, 4u8, 9u8, 14u8, 19u8, 24u8, 29u8, 34u8, 39u8, 44u8, 49u8, 54u8, 59u8, 64u8, 69u8, 74u8, 79u8, 84u8, 89u8, 94u8, 99u8, 104u8, 109u8, 114u8, 119u8, 124u8, 129u8, 134u8, 139u8, 144u8, 149u8, 154u8, 159u8, 164u8, 169u8, 174u8, 179u8, 184u8, 189u8, 194u8, 199u8, 204u8, 209u8, 214u8, 219u8, 224u8, 229u8, 234u8, 239u8, 244u8, 249u8, 3u8, 8u8, 13u8, 18u8, 23u8, 28u8, 33u8, 38u8, 43u8, 48u8, 53u8, 58u8, 63u8, 68u8, 73u8, 78u8, 83u8, 88u8, 93u8, 98u8, 103u8, 108u8, 113u8, 118u8, 123u8, 128u8, 133u8, 138u8, 143u8, 148u8, 153u8, 158u8, 163u8, 168u8, 173u8, 178u8, 183u8, 188u8, 193u8, 198u8, 203u8, 208u8, 213u8, 218u8, 223u8, 228u8, 233u8, 238u8, 243u8, 248u8, 2u8, 7u8, 12u8, 17u8, 22u8, 27u8, 32u8, 37u8, 42u8, 47u8, 52u8, 57u8, 62u8, 67u8, 72u8, 77u8, 82u8, 87u8, 92u8, 97u8, 102u8, 107u8, 112u8, 117u8, 122u8, 127u8, 132u8, 137u8, 142u8, 147u8, 152u8, 157u8, 162u8, 167u8, 172u8, 177u8, 182u8, 187u8, 192u8, 197u8, 202u8, 207u8, 212u8, 217u8, 222u8, 227u8, 232u8, 237u8, 242u8, 247u8, 1u8, 6u8, 11u8, 16u8, 21u8] }
fn case_list_const_256() -> Result<(), String> {
    let nat: [u8; 256] = [1u8, 6u8, 11u8, 16u8, 21u8, 26u8, 31u8, 36u8, 41u8, 46u8, 51u8, 56u8, 61u8, 66u8, 71u8, 76u8, 81u8, 86u8, 91u8, 96u8, 101u8, 106u8, 111u8, 116u8, 121u8, 126u8, 131u8, 136u8, 141u8, 146u8, 151u8, 156u8, 161u8, 166u8, 171u8, 176u8, 181u8, 186u8, 191u8, 196u8, 201u8, 206u8, 211u8, 216u8, 221u8, 226u8, 231u8, 236u8, 241u8, 246u8, 0u8, 5u8, 10u8, 15u8, 20u8, 25u8, 30u8, 35u8, 40u8, 45u8, 50u8, 55u8, 60u8, 65u8, 70u8, 75u8, 80u8, 85u8, 90u8, 95u8, 100u8, 105u8, 110u8, 115u8, 120u8, 125u8, 130u8, 135u8, 140u8, 145u8, 150u8, 155u8, 160u8, 165u8, 170u8, 175u8, 180u8, 185u8, 190u8, 195u8, 200u8, 205u8, 210u8, 215u8, 220u8, 225u8, 230u8, 235u8, 240u8, 245u8, 250u8, 4u8, 9u8, 14u8, 19u8, 24u8, 29u8, 34u8, 39u8, 44u8, 49u8, 54u8, 59u8, 64u8, 69u8, 74u8, 79u8, 84u8, 89u8, 94u8, 99u8, 104u8, 109u8, 114u8, 119u8, 124u8, 129u8, 134u8, 139u8, 144u8, 149u8, 154u8, 159u8, 164u8, 169u8, 174u8, 179u8, 184u8, 189u8, 194u8, 199u8, 204u8, 209u8, 214u8, 219u8, 224u8, 229u8, 234u8, 239u8, 244u8, 249u8, 3u8, 8u8, 13u8, 18u8, 23u8, 28u8, 33u8, 38u8, 43u8, 48u8, 53u8, 58u8, 63u8, 68u8, 73u8, 78u8, 83u8, 88u8, 93u8, 98u8, 103u8, 108u8, 113u8, 118u8, 123u8, 128u8, 133u8, 138u8, 143u8, 148u8, 153u8, 158u8, 163u8, 168u8, 173u8, 178u8, 183u8, 188u8, 193u8, 198u8, 203u8, 208u8, 213u8, 218u8, 223u8, 228u8, 233u8, 238u8, 243u8, 248u8, 2u8, 7u8, 12u8, 17u8, 22u8, 27u8, 32u8, 37u8, 42u8, 47u8, 52u8, 57u8, 62u8, 67u8, 72u8, 77u8, 82u8, 87u8, 92u8, 97u8, 102u8, 107u8, 112u8, 117u8, 122u8, 127u8, 132u8, 137u8, 142u8, 147u8, 152u8, 157u8, 162u8, 167u8, 172u8, 177u8, 182u8, 187u8, 192u8, 197u8, 202u8, 207u8, 212u8, 217u8, 222u8, 227u8, 232u8, 237u8, 242u8, 247u8, 1u8, 6u8, 11u8, 16u8, 21u8];
    ck!(CL_256.as_slice() == &nat[..] && SL_256.as_slice() == &nat[..] && cfl_256().as_slice() == &nat[..], "arr! list of 256 in const / static / const fn position differs from the native literal");
    Ok(())
}
const CT_0: GA<u16, N<0>> = arr![513u16; N<0>];
const CC_0: GA<u16, N<0>> = arr![513u16; 0];
static ST_0: GA<u16, N<0>> = arr![513u16; 0];
const fn cft_0() -> GA<u16, N<0>> { arr![513u16; N<0>] }
const fn cfc_0() -> GA<u16, N<0>> { arr![513u16; 0] }
fn case_repeat_0() -> Result<(), String> {
    take_log(); let a: GA<u32, N<0>> = arr![lg(7); N<0>]; let log = take_log();
    ck!(a.len() == 0 && a.iter().all(|x| *x == 7u32.wrapping_mul(2654435761)), "arr![x; N] (type-level length 0) is not 0 copies of x");
    ck!(log == vec![7], "arr![x; N] (type-level length 0) evaluated x {} times", log.len());
    take_log(); let c: GA<u32, N<0>> = arr![lg(8); 0]; let log = take_log();
    ck!(c.len() == 0 && c.iter().all(|x| *x == 8u32.wrapping_mul(2654435761)), "arr![x; n] (constant length 0) is not 0 copies of x");
    ck!(log == vec![8], "arr![x; n] (constant length 0) evaluated x {} times", log.len());
    take_log(); let b: Box<GA<u32, N<0>>> = box_arr![lg(7); N<0>]; let log = take_log();
    ck!(*b == a, "box_arr![x; N] (type-level length 0) differs from arr!");
    ck!(log == vec![7], "box_arr![x; N] (type-level length 0) evaluated x {} times", log.len());
    take_log(); let b2: Box<GA<u32, N<0>>> = box_arr![lg(8); 0]; let log = take_log();
    ck!(*b2 == c, "box_arr![x; n] (constant length 0) differs from arr!");
    ck!(log == vec![8], "box_arr![x; n] (constant length 0) evaluated x {} times", log.len());
    ck!(CT_0.len() == 0 && CT_0.iter().all(|x| *x == 513) && CC_0 == CT_0 && ST_0 == CT_0 && cft_0() == CT_0 && cfc_0() == CT_0, "repeat forms of length 0 in const / static / const fn position differ");
    Ok(())
}
const CT_1: GA<u16, N<1>> = arr![513u16; N<1>];
const CC_1: GA<u16, N<1>> = arr![513u16; 1];
static ST_1: GA<u16, N<1>> = arr![513u16; 1];
const fn cft_1() -> GA<u16, N<1>> { arr![513u16; N<1>] }
const fn cfc_1() -> GA<u16, N<1>> { arr![513u16; 1] }
fn case_repeat_1() -> Result<(), String> {
    take_log(); let a: GA<u32, N<1>> = arr![lg(7); N<1>]; let log = take_log();
    ck!(a.len() == 1 && a.iter().all(|x| *x == 7u32.wrapping_mul(2654435761)), "arr![x; N] (type-level length 1) is not 1 copies of x");
    ck!(log == vec![7], "arr![x; N] (type-level length 1) evaluated x {} times", log.len());
    take_log(); let c: GA<u32, N<1>> = arr![lg(8); 1]; let log = take_log();
    ck!(c.len() == 1 && c.iter().all(|x| *x == 8u32.wrapping_mul(2654435761)), "arr![x; n] (constant length 1) is not 1 copies of x");
    ck!(log == vec![8], "arr![x; n] (constant length 1) evaluated x {} times", log.len());
    take_log(); let b: Box<GA<u32, N<1>>> = box_arr![lg(7); N<1>]; let log = take_log();
    ck!(*b == a, "box_arr![x; N] (type-level length 1) differs from arr!");
    ck!(log == vec![7], "box_arr![x; N] (type-level length 1) evaluated x {} times", log.len());
    take_log(); let b2: Box<GA<u32, N<1>>> = box_arr![lg(8); 1]; let log = take_log();
    ck!(*b2 == c, "box_arr![x; n] (constant length 1) differs from arr!");
    ck!(log == vec![8], "box_arr![x; n] (constant length 1) evaluated x {} times", log.len());
    ck!(CT_1.len() == 1 && CT_1.iter().all(|x| *x == 513) && CC_1 == CT_1 && ST_1 == CT_1 && cft_1() == CT_1 && cfc_1() == CT_1, "repeat forms of length 1 in const / static / const fn position differ");
    Ok(())
}
const CT_2: GA<u16, N<2>> = arr![513u16; N<2>];
const CC_2: GA<u16, N<2>> = arr![513u16; 2];
static ST_2: GA<u16, N<2>> = arr![513u16; 2];
const fn cft_2() -> GA<u16, N<2>> { arr![513u16; N<2>] }
const fn cfc_2() -> GA<u16, N<2>> { arr![513u16; 2] }
fn case_repeat_2() -> Result<(), String> {
    take_log(); let a: GA<u32, N<2>> = arr![lg(7); N<2>]; let log = take_log();
    ck!(a.len() == 2 && a.iter().all(|x| *x == 7u32.wrapping_mul(2654435761)), "arr![x; N] (type-level length 2) is not 2 copies of x");
    ck!(log == vec![7], "arr![x; N] (type-level length 2) evaluated x {} times", log.len());
    take_log(); let c: GA<u32, N<2>> = arr![lg(8); 2]; let log = take_log();
    ck!(c.len() == 2 && c.iter().all(|x| *x == 8u32.wrapping_mul(2654435761)), "arr![x; n] (constant length 2) is not 2 copies of x");
    ck!(log == vec![8], "arr![x; n] (constant length 2) evaluated x {} times", log.len());
    take_log(); let b: Box<GA<u32, N<2>>> = box_arr![lg(7); N<2>]; let log = take_log();
    ck!(*b == a, "box_arr![x; N] (type-level length 2) differs from arr!");
    ck!(log == vec![7], "box_arr![x; N] (type-level length 2) evaluated x {} times", log.len());
    take_log(); let b2: Box<GA<u32, N<2>>> = box_arr![lg(8); 2]; let log = take_log();
    ck!(*b2 == c, "box_arr![x; n] (constant length 2) differs from arr!");
    ck!(log == vec![8], "box_arr![x; n] (constant length 2) evaluated x {} times", log.len());
    ck!(CT_2.len() == 2 && CT_2.iter().all(|x| *x == 513) && CC_2 == CT_2 && ST_2 == CT_2 && cft_2() == CT_2 && cfc_2() == CT_2, "repeat forms of length 2 in const / static / const fn position differ");
    Ok(())
}
const CT_3: GA<u16, N<3>> = arr![513u16; N<3>];
const CC_3: GA<u16, N<3>> = arr![513u16; 3];
static ST_3: GA<u16, N<3>> = arr![513u16; 3];
const fn cft_3() -> GA<u16, N<3>> { arr![513u16; N<3>] }
const fn cfc_3() -> GA<u16, N<3>> { arr![513u16; 3] }
fn case_repeat_3() -> Result<(), String> {
    take_log(); let a: GA<u32, N<3>> = arr![lg(7); N<3>]; let log = take_log();
    ck!(a.len() == 3 && a.iter().all(|x| *x == 7u32.wrapping_mul(2654435761)), "arr![x; N] (type-level length 3) is not 3 copies of x");
    ck!(log == vec![7], "arr![x; N] (type-level length 3) evaluated x {} times", log.len());
    take_log(); let c: GA<u32, N<3>> = arr![lg(8); 3]; let log = take_log();
    ck!(c.len() == 3 && c.iter().all(|x| *x == 8u32.wrapping_mul(2654435761)), "arr![x; n] (constant length 3) is not 3 copies of x");
    ck!(log == vec![8], "arr![x; n] (constant length 3) evaluated x {} times", log.len());
    take_log(); let b: Box<GA<u32, N<3>>> = box_arr![lg(7); N<3>]; let log = take_log();
    ck!(*b == a, "box_arr![x; N] (type-level length 3) differs from arr!");
    ck!(log == vec![7], "box_arr![x; N] (type-level length 3) evaluated x {} times", log.len());
    take_log(); let b2: Box<GA<u32, N<3>>> = box_arr![lg(8); 3]; let log = take_log();
    ck!(*b2 == c, "box_arr![x; n] (constant length 3) differs from arr!");
    ck!(log == vec![8], "box_arr![x; n] (constant length 3) evaluated x {} times", log.len());
    ck!(CT_3.len() == 3 && CT_3.iter().all(|x| *x == 513) && CC_3 == CT_3 && ST_3 == CT_3 && cft_3() == CT_3 && cfc_3() == CT_3, "repeat forms of length 3 in const / static / const fn position differ");
    Ok(())
}
const CT_5: GA<u16, N<5>> = arr![513u16; N<5>];
const CC_5: GA<u16, N<5>> = arr![513u16; 5];
static ST_5: GA<u16, N<5>> = arr![513u16; 5];
const fn cft_5() -> GA<u16, N<5>> { arr![513u16; N<5>] }
const fn cfc_5() -> GA<u16, N<5>> { arr![513u16; 5] }
fn case_repeat_5() -> Result<(), String> {
    take_log(); let a: GA<u32, N<5>> = arr![lg(7); N<5>]; let log = take_log();
    ck!(a.len() == 5 && a.iter().all(|x| *x == 7u32.wrapping_mul(2654435761)), "arr![x; N] (type-level length 5) is not 5 copies of x");
    ck!(log == vec![7], "arr![x; N] (type-level length 5) evaluated x {} times", log.len());
    take_log(); let c: GA<u32, N<5>> = arr![lg(8); 5]; let log = take_log();
    ck!(c.len() == 5 && c.iter().all(|x| *x == 8u32.wrapping_mul(2654435761)), "arr![x; n] (constant length 5) is not 5 copies of x");
    ck!(log == vec![8], "arr![x; n] (constant length 5) evaluated x {} times", log.len());
    take_log(); let b: Box<GA<u32, N<5>>> = box_arr![lg(7); N<5>]; let log = take_log();
    ck!(*b == a, "box_arr![x; N] (type-level length 5) differs from arr!");
    ck!(log == vec![7], "box_arr![x; N] (type-level length 5) evaluated x {} times", log.len());
    take_log(); let b2: Box<GA<u32, N<5>>> = box_arr![lg(8); 5]; let log = take_log();
    ck!(*b2 == c, "box_arr![x; n] (constant length 5) differs from arr!");
    ck!(log == vec![8], "box_arr![x; n] (constant length 5) evaluated x {} times", log.len());
    ck!(CT_5.len() == 5 && CT_5.iter().all(|x| *x == 513) && CC_5 == CT_5 && ST_5 == CT_5 && cft_5() == CT_5 && cfc_5() == CT_5, "repeat forms of length 5 in const / static / const fn position differ");
    Ok(())
}
const CT_7: GA<u16, N<7>> = arr![513u16; N<7>];
const CC_7: GA<u16, N<7>> = arr![513u16; 7];
static ST_7: GA<u16, N<7>> = arr![513u16; 7];
const fn cft_7() -> GA<u16, N<7>> { arr![513u16; N<7>] }
const fn cfc_7() -> GA<u16, N<7>> { arr![513u16; 7] }
fn case_repeat_7() -> Result<(), String> {
    take_log(); let a: GA<u32, N<7>> = arr![lg(7); N<7>]; let log = take_log();
    ck!(a.len() == 7 && a.iter().all(|x| *x == 7u32.wrapping_mul(2654435761)), "arr![x; N] (type-level length 7) is not 7 copies of x");
    ck!(log == vec![7], "arr![x; N] (type-level length 7) evaluated x {} times", log.len());
    take_log(); let c: GA<u32, N<7>> = arr![lg(8); 7]; let log = take_log();
    ck!(c.len() == 7 && c.iter().all(|x| *x == 8u32.wrapping_mul(2654435761)), "arr![x; n] (constant length 7) is not 7 copies of x");
    ck!(log == vec![8], "arr![x; n] (constant length 7) evaluated x {} times", log.len());
    take_log(); let b: Box<GA<u32, N<7>>> = box_arr![lg(7); N<7>]; let log = take_log();
    ck!(*b == a, "box_arr![x; N] (type-level length 7) differs from arr!");
    ck!(log == vec![7], "box_arr![x; N] (type-level length 7) evaluated x {} times", log.len());
    take_log(); let b2: Box<GA<u32, N<7>>> = box_arr![lg(8); 7]; let log = take_log();
    ck!(*b2 == c, "box_arr![x; n] (constant length 7) differs from arr!");
    ck!(log == vec![8], "box_arr![x; n] (constant length 7) evaluated x {} times", log.len());
    ck!(CT_7.len() == 7 && CT_7.iter().all(|x| *x == 513) && CC_7 == CT_7 && ST_7 == CT_7 && cft_7() == CT_7 && cfc_7() == CT_7, "repeat forms of length 7 in const / static / const fn position differ");
    Ok(())
}
const CT_8: GA<u16, N<8>> = arr![513u16; N<8>];
const CC_8: GA<u16, N<8>> = arr![513u16; 8];
static ST_8: GA<u16, N<8>> = arr![513u16; 8];
const fn cft_8() -> GA<u16, N<8>> { arr![513u16; N<8>] }
const fn cfc_8() -> GA<u16, N<8>> { arr![513u16; 8] }
fn case_repeat_8() -> Result<(), String> {
    take_log(); let a: GA<u32, N<8>> = arr![lg(7); N<8>]; let log = take_log();
    ck!(a.len() == 8 && a.iter().all(|x| *x == 7u32.wrapping_mul(2654435761)), "arr![x; N] (type-level length 8) is not 8 copies of x");
    ck!(log == vec![7], "arr![x; N] (type-level length 8) evaluated x {} times", log.len());
    take_log(); let c: GA<u32, N<8>> = arr![lg(8); 8]; let log = take_log();
    ck!(c.len() == 8 && c.iter().all(|x| *x == 8u32.wrapping_mul(2654435761)), "arr![x; n] (constant length 8) is not 8 copies of x");
    ck!(log == vec![8], "arr![x; n] (constant length 8) evaluated x {} times", log.len());
    take_log(); let b: Box<GA<u32, N<8>>> = box_arr![lg(7); N<8>]; let log = take_log();
    ck!(*b == a, "box_arr![x; N] (type-level length 8) differs from arr!");
    ck!(log == vec![7], "box_arr![x; N] (type-level length 8) evaluated x {} times", log.len());
    take_log(); let b2: Box<GA<u32, N<8>>> = box_arr![lg(8); 8]; let log = take_log();
    ck!(*b2 == c, "box_arr![x; n] (constant length 8) differs from arr!");
    ck!(log == vec![8], "box_arr![x; n] (constant length 8) evaluated x {} times", log.len());
    ck!(CT_8.len() == 8 && CT_8.iter().all(|x| *x == 513) && CC_8 == CT_8 && ST_8 == CT_8 && cft_8() == CT_8 && cfc_8() == CT_8, "repeat forms of length 8 in const / static / const fn position differ");
    Ok(())
}
const CT_15: GA<u16, N<15>> = arr![513u16; N<15>];
const CC_15: GA<u16, N<15>> = arr![513u16; 15];
static ST_15: GA<u16, N<15>> = arr![513u16; 15];
const fn cft_15() -> GA<u16, N<15>> { arr![513u16; N<15>] }
const fn cfc_15() -> GA<u16, N<15>> { arr![513u16; 15] }
fn case_repeat_15() -> Result<(), String> {
    take_log(); let a: GA<u32, N<15>> = arr![lg(7); N<15>]; let log = take_log();
    ck!(a.len() == 15 && a.iter().all(|x| *x == 7u32.wrapping_mul(2654435761)), "arr![x; N] (type-level length 15) is not 15 copies of x");
    ck!(log == vec![7], "arr![x; N] (type-level length 15) evaluated x {} times", log.len());
    take_log(); let c: GA<u32, N<15>> = arr![lg(8); 15]; let log = take_log();
    ck!(c.len() == 15 && c.iter().all(|x| *x == 8u32.wrapping_mul(2654435761)), "arr![x; n] (constant length 15) is not 15 copies of x");
    ck!(log == vec![8], "arr![x; n] (constant length 15) evaluated x {} times", log.len());
    take_log(); let b: Box<GA<u32, N<15>>> = box_arr![lg(7); N<15>]; let log = take_log();
    ck!(*b == a, "box_arr![x; N] (type-level length 15) differs from arr!");
    ck!(log == vec![7], "box_arr![x; N] (type-level length 15) evaluated x {} times", log.len());
    take_log(); let b2: Box<GA<u32, N<15>>> = box_arr![lg(8); 15]; let log = take_log();
    ck!(*b2 == c, "box_arr![x; n] (constant length 15) differs from arr!");
    ck!(log == vec![8], "box_arr![x; n] (constant length 15) evaluated x {} times", log.len());
    ck!(CT_15.len() == 15 && CT_15.iter().all(|x| *x == 513) && CC_15 == CT_15 && ST_15 == CT_15 && cft_15() == CT_15 && cfc_15() == CT_15, "repeat forms of length 15 in const / static / const fn position differ");
    Ok(())
}
const CT_16: GA<u16, N<16>> = arr![513u16; N<16>];
const CC_16: GA<u16, N<16>> = arr![513u16; 16];
static ST_16: GA<u16, N<16>> = arr![513u16; 16];
const fn cft_16() -> GA<u16, N<16>> { arr![513u16; N<16>] }
const fn cfc_16() -> GA<u16, N<16>> { arr![513u16; 16] }
fn case_repeat_16() -> Result<(), String> {
    take_log(); let a: GA<u32, N<16>> = arr![lg(7); N<16>]; let log = take_log();
    ck!(a.len() == 16 && a.iter().all(|x| *x == 7u32.wrapping_mul(2654435761)), "arr![x; N] (type-level length 16) is not 16 copies of x");
    ck!(log == vec![7], "arr![x; N] (type-level length 16) evaluated x {} times", log.len());
    take_log(); let c: GA<u32, N<16>> = arr![lg(8); 16]; let log = take_log();
    ck!(c.len() == 16 && c.iter().all(|x| *x == 8u32.wrapping_mul(2654435761)), "arr![x; n] (constant length 16) is not 16 copies of x");
    ck!(log == vec![8], "arr![x; n] (constant length 16) evaluated x {} times", log.len());
    take_log(); let b: Box<GA<u32, N<16>>> = box_arr![lg(7); N<16>]; let log = take_log();
    ck!(*b == a, "box_arr![x; N] (type-level length 16) differs from arr!");
    ck!(log == vec![7], "box_arr![x; N] (type-level length 16) evaluated x {} times", log.len());
    take_log(); let b2: Box<GA<u32, N<16>>> = box_arr![lg(8); 16]; let log = take_log();
    ck!(*b2 == c, "box_arr![x; n] (constant length 16) differs from arr!");
    ck!(log == vec![8], "box_arr![x; n] (constant length 16) evaluated x {} times", log.len());
    ck!(CT_16.len() == 16 && CT_16.iter().all(|x| *x == 513) && CC_16 == CT_16 && ST_16 == CT_16 && cft_16() == CT_16 && cfc_16() == CT_16, "repeat forms of length 16 in const / static / const fn position differ");
    Ok(())
}
const CT_17: GA<u16, N<17>> = arr![513u16; N<17>];
const CC_17: GA<u16, N<17>> = arr![513u16; 17];
static ST_17: GA<u16, N<17>> = arr![513u16; 17];
const fn cft_17() -> GA<u16, N<17>> { arr![513u16; N<17>] }
const fn cfc_17() -> GA<u16, N<17>> { arr![513u16; 17] }
fn case_repeat_17() -> Result<(), String> {
    take_log(); let a: GA<u32, N<17>> = arr![lg(7); N<17>]; let log = take_log();
    ck!(a.len() == 17 && a.iter().all(|x| *x == 7u32.wrapping_mul(2654435761)), "arr![x; N] (type-level length 17) is not 17 copies of x");
    ck!(log == vec![7], "arr![x; N] (type-level length 17) evaluated x {} times", log.len());
    take_log(); let c: GA<u32, N<17>> = arr![lg(8); 17]; let log = take_log();
    ck!(c.len() == 17 && c.iter().all(|x| *x == 8u32.wrapping_mul(2654435761)), "arr![x; n] (constant length 17) is not 17 copies of x");
    ck!(log == vec![8], "arr![x; n] (constant length 17) evaluated x {} times", log.len());
    take_log(); let b: Box<GA<u32, N<17>>> = box_arr![lg(7); N<17>]; let log = take_log();
    ck!(*b == a, "box_arr![x; N] (type-level length 17) differs from arr!");
    ck!(log == vec![7], "box_arr![x; N] (type-level length 17) evaluated x {} times", log.len());
    take_log(); let b2: Box<GA<u32, N<17>>> = box_arr![lg(8); 17]; let log = take_log();
    ck!(*b2 == c, "box_arr![x; n] (constant length 17) differs from arr!");
    ck!(log == vec![8], "box_arr![x; n] (constant length 17) evaluated x {} times", log.len());
    ck!(CT_17.len() == 17 && CT_17.iter().all(|x| *x == 513) && CC_17 == CT_17 && ST_17 == CT_17 && cft_17() == CT_17 && cfc_17() == CT_17, "repeat forms of length 17 in const / static / const fn position differ");
    Ok(())
}
const CT_31: GA<u16, N<31>> = arr![513u16; N<31>];
const CC_31: GA<u16, N<31>> = arr![513u16; 31];
static ST_31: GA<u16, N<31>> = arr![513u16; 31];
const fn cft_31() -> GA<u16, N<31>> { arr![513u16; N<31>] }
const fn cfc_31() -> GA<u16, N<31>> { arr![513u16; 31] }
fn case_repeat_31() -> Result<(), String> {
    take_log(); let a: GA<u32, N<31>> = arr![lg(7); N<31>]; let log = take_log();
    ck!(a.len() == 31 && a.iter().all(|x| *x == 7u32.wrapping_mul(2654435761)), "arr![x; N] (type-level length 31) is not 31 copies of x");
    ck!(log == vec![7], "arr![x; N] (type-level length 31) evaluated x {} times", log.len());
    take_log(); let c: GA<u32, N<31>> = arr![lg(8); 31]; let log = take_log();
    ck!(c.len() == 31 && c.iter().all(|x| *x == 8u32.wrapping_mul(2654435761)), "arr![x; n] (constant length 31) is not 31 copies of x");
    ck!(log == vec![8], "arr![x; n] (constant length 31) evaluated x {} times", log.len());
    take_log(); let b: Box<GA<u32, N<31>>> = box_arr![lg(7); N<31>]; let log = take_log();
    ck!(*b == a, "box_arr![x; N] (type-level length 31) differs from arr!");
    ck!(log == vec![7], "box_arr![x; N] (type-level length 31) evaluated x {} times", log.len());
    take_log(); let b2: Box<GA<u32, N<31>>> = box_arr![lg(8); 31]; let log = take_log();
    ck!(*b2 == c, "box_arr![x; n] (constant length 31) differs from arr!");
    ck!(log == vec![8], "box_arr![x; n] (constant length 31) evaluated x {} times", log.len());
    ck!(CT_31.len() == 31 && CT_31.iter().all(|x| *x == 513) && CC_31 == CT_31 && ST_31 == CT_31 && cft_31() == CT_31 && cfc_31() == CT_31, "repeat forms of length 31 in const / static / const fn position differ");
    Ok(())
}
const CT_32: GA<u16, N<32>> = arr![513u16; N<32>];
const CC_32: GA<u16, N<32>> = arr![513u16; 32];
static ST_32: GA<u16, N<32>> = arr![513u16; 32];
const fn cft_32() -> GA<u16, N<32>> { arr![513u16; N<32>] }
const fn cfc_32() -> GA<u16, N<32>> { arr![513u16; 32] }
fn case_repeat_32() -> Result<(), String> {
    take_log(); let a: GA<u32, N<32>> = arr![lg(7); N<32>]; let log = take_log();
    ck!(a.len() == 32 && a.iter().all(|x| *x == 7u32.wrapping_mul(2654435761)), "arr![x; N] (type-level length 32) is not 32 copies of x");
    ck!(log == vec![7], "arr![x; N] (type-level length 32) evaluated x {} times", log.len());
    take_log(); let c: GA<u32, N<32>> = arr![lg(8); 32]; let log = take_log();
    ck!(c.len() == 32 && c.iter().all(|x| *x == 8u32.wrapping_mul(2654435761)), "arr![x; n] (constant length 32) is not 32 copies of x");
    ck!(log == vec![8], "arr![x; n] (constant length 32) evaluated x {} times", log.len());
    take_log(); let b: Box<GA<u32, N<32>>> = box_arr![lg(7); N<32>]; let log = take_log();
    ck!(*b == a, "box_arr![x; N] (type-level length 32) differs from arr!");
    ck!(log == vec![7], "box_arr![x; N] (type-level length 32) evaluated x {} times", log.len());
    take_log(); let b2: Box<GA<u32, N<32>>> = box_arr![lg(8); 32]; let log = take_log();
    ck!(*b2 == c, "box_arr![x; n] (constant length 32) differs from arr!");
    ck!(log == vec![8], "box_arr![x; n] (constant length 32) evaluated x {} times", log.len());
    ck!(CT_32.len() == 32 && CT_32.iter().all(|x| *x == 513) && CC_32 == CT_32 && ST_32 == CT_32 && cft_32() == CT_32 && cfc_32() == CT_32, "repeat forms of length 32 in const / static / const fn position differ");
    Ok(())
}
const CT_33: GA<u16, N<33>> = arr![513u16; N<33>];
const CC_33: GA<u16, N<33>> = arr![513u16; 33];
static ST_33: GA<u16, N<33>> = arr![513u16; 33];
const fn cft_33() -> GA<u16, N<33>> { arr![513u16; N<33>] }
const fn cfc_33() -> GA<u16, N<33>> { arr![513u16; 33] }
fn case_repeat_33() -> Result<(), String> {
    take_log(); let a: GA<u32, N<33>> = arr![lg(7); N<33>]; let log = take_log();
    ck!(a.len() == 33 && a.iter().all(|x| *x == 7u32.wrapping_mul(2654435761)), "arr![x; N] (type-level length 33) is not 33 copies of x");
    ck!(log == vec![7], "arr![x; N] (type-level length 33) evaluated x {} times", log.len());
    take_log(); let c: GA<u32, N<33>> = arr![lg(8); 33]; let log = take_log();
    ck!(c.len() == 33 && c.iter().all(|x| *x == 8u32.wrapping_mul(2654435761)), "arr![x; n] (constant length 33) is not 33 copies of x");
    ck!(log == vec![8], "arr![x; n] (constant length 33) evaluated x {} times", log.len());
    take_log(); let b: Box<GA<u32, N<33>>> = box_arr![lg(7); N<33>]; let log = take_log();
    ck!(*b == a, "box_arr![x; N] (type-level length 33) differs from arr!");
    ck!(log == vec![7], "box_arr![x; N] (type-level length 33) evaluated x {} times", log.len());
    take_log(); let b2: Box<GA<u32, N<33>>> = box_arr![lg(8); 33]; let log = take_log();
    ck!(*b2 == c, "box_arr![x; n] (constant length 33) differs from arr!");
    ck!(log == vec![8], "box_arr![x; n] (constant length 33) evaluated x {} times", log.len());
    ck!(CT_33.len() == 33 && CT_33.iter().all(|x| *x == 513) && CC_33 == CT_33 && ST_33 == CT_33 && cft_33() == CT_33 && cfc_33() == CT_33, "repeat forms of length 33 in const / static / const fn position differ");
    Ok(())
}
const CT_64: GA<u16, N<64>> = arr![513u16; N<64>];
const CC_64: GA<u16, N<64>> = arr![513u16; 64];
static ST_64: GA<u16, N<64>> = arr![513u16; 64];
const fn cft_64() -> GA<u16, N<64>> { arr![513u16; N<64>] }
const fn cfc_64() -> GA<u16, N<64>> { arr![513u16; 64] }
fn case_repeat_64() -> Result<(), String> {
    take_log(); let a: GA<u32, N<64>> = arr![lg(7); N<64>]; let log = take_log();
    ck!(a.len() == 64 && a.iter().all(|x| *x == 7u32.wrapping_mul(2654435761)), "arr![x; N] (type-level length 64) is not 64 copies of x");
    ck!(log == vec![7], "arr![x; N] (type-level length 64) evaluated x {} times", log.len());
    take_log(); let c: GA<u32, N<64>> = arr![lg(8); 64]; let log = take_log();
    ck!(c.len() == 64 && c.iter().all(|x| *x == 8u32.wrapping_mul(2654435761)), "arr![x; n] (constant length 64) is not 64 copies of x");
    ck!(log == vec![8], "arr![x; n] (constant length 64) evaluated x {} times", log.len());
    take_log(); let b: Box<GA<u32, N<64>>> = box_arr![lg(7); N<64>]; let log = take_log();
    ck!(*b == a, "box_arr![x; N] (type-level length 64) differs from arr!");
    ck!(log == vec![7], "box_arr![x; N] (type-level length 64) evaluated x {} times", log.len());
    take_log(); let b2: Box<GA<u32, N<64>>> = box_arr![lg(8); 64]; let log = take_log();
    ck!(*b2 == c, "box_arr![x; n] (constant length 64) differs from arr!");
    ck!(log == vec![8], "box_arr![x; n] (constant length 64) evaluated x {} times", log.len());
    ck!(CT_64.len() == 64 && CT_64.iter().all(|x| *x == 513) && CC_64 == CT_64 && ST_64 == CT_64 && cft_64() == CT_64 && cfc_64() == CT_64, "repeat forms of length 64 in const / static / const fn position differ");
    Ok(())
}
const CT_100: GA<u16, N<100>> = arr![513u16; N<100>];
const CC_100: GA<u16, N<100>> = arr![513u16; 100];
static ST_100: GA<u16, N<100>> = arr![513u16; 100];
const fn cft_100() -> GA<u16, N<100>> { arr![513u16; N<100>] }
const fn cfc_100() -> GA<u16, N<100>> { arr![513u16; 100] }
fn case_repeat_100() -> Result<(), String> {
    take_log(); let a: GA<u32, N<100>> = arr![lg(7); N<100>]; let log = take_log();
    ck!(a.len() == 100 && a.iter().all(|x| *x == 7u32.wrapping_mul(2654435761)), "arr![x; N] (type-level length 100) is not 100 copies of x");
    ck!(log == vec![7], "arr![x; N] (type-level length 100) evaluated x {} times", log.len());
    take_log(); let c: GA<u32, N<100>> = arr![lg(8); 100]; let log = take_log();
    ck!(c.len() == 100 && c.iter().all(|x| *x == 8u32.wrapping_mul(2654435761)), "arr![x; n] (constant length 100) is not 100 copies of x");
    ck!(log == vec![8], "arr![x; n] (constant length 100) evaluated x {} times", log.len());
    take_log(); let b: Box<GA<u32, N<100>>> = box_arr![lg(7); N<100>]; let log = take_log();
    ck!(*b == a, "box_arr![x; N] (type-level length 100) differs from arr!");
    ck!(log == vec![7], "box_arr![x; N] (type-level length 100) evaluated x {} times", log.len());
    take_log(); let b2: Box<GA<u32, N<100>>> = box_arr![lg(8); 100]; let log = take_log();
    ck!(*b2 == c, "box_arr![x; n] (constant length 100) differs from arr!");
    ck!(log == vec![8], "box_arr![x; n] (constant length 100) evaluated x {} times", log.len());
    ck!(CT_100.len() == 100 && CT_100.iter().all(|x| *x == 513) && CC_100 == CT_100 && ST_100 == CT_100 && cft_100() == CT_100 && cfc_100() == CT_100, "repeat forms of length 100 in const / static / const fn position differ");
    Ok(())
}
const CT_255: GA<u16, N<255>> = arr![513u16; N<255>];
const CC_255: GA<u16, N<255>> = arr![513u16; 255];
static ST_255: GA<u16, N<255>> = arr![513u16; 255];
const fn cft_255() -> GA<u16, N<255>> { arr![513u16; N<255>] }
const fn cfc_255() -> GA<u16, N<255>> { arr![513u16; 255] }
fn case_repeat_255() -> Result<(), String> {
    take_log(); let a: GA<u32, N<255>> = arr![lg(7); N<255>]; let log = take_log();
    ck!(a.len() == 255 && a.iter().all(|x| *x == 7u32.wrapping_mul(2654435761)), "arr![x; N] (type-level length 255) is not 255 copies of x");
    ck!(log == vec![7], "arr![x; N] (type-level length 255) evaluated x {} times", log.len());
    take_log(); let c: GA<u32, N<255>> = arr![lg(8); 255]; let log = take_log();
    ck!(c.len() == 255 && c.iter().all(|x| *x == 8u32.wrapping_mul(2654435761)), "arr![x; n] (constant length 255) is not 255 copies of x");
    ck!(log == vec![8], "arr![x; n] (constant length 255) evaluated x {} times", log.len());
    take_log(); let b: Box<GA<u32, N<255>>> = box_arr![lg(7); N<255>]; let log = take_log();
    ck!(*b == a, "box_arr![x; N] (type-level length 255) differs from arr!");
    ck!(log == vec![7], "box_arr![x; N] (type-level length 255) evaluated x {} times", log.len());
    take_log(); let b2: Box<GA<u32, N<255>>> = box_arr![lg(8); 255]; let log = take_log();
    ck!(*b2 == c, "box_arr![x; n] (constant length 255) differs from arr!");
    ck!(log == vec![8], "box_arr![x; n] (constant length 255) evaluated x {} times", log.len());
    ck!(CT_255.len() == 255 && CT_255.iter().all(|x| *x == 513) && CC_255 == CT_255 && ST_255 == CT_255 && cft_255() == CT_255 && cfc_255() == CT_255, "repeat forms of length 255 in const / static / const fn position differ");
    Ok(())
}
const CT_256: GA<u16, N<256>> = arr![513u16; N<256>];
const CC_256: GA<u16, N<256>> = arr![513u16; 256];
static ST_256: GA<u16, N<256>> = arr![513u16; 256];
const fn cft_256() -> GA<u16, N<256>> { arr![513u16; N<256>] }
const fn cfc_256() -> GA<u16, N<256>> { arr![513u16; 256] }
fn case_repeat_256() -> Result<(), String> {
    take_log(); let a: GA<u32, N<256>> = arr![lg(7); N<256>]; let log = take_log();
    ck!(a.len() == 256 && a.iter().all(|x| *x == 7u32.wrapping_mul(2654435761)), "arr![x; N] (type-level length 256) is not 256 copies of x");
    ck!(log == vec![7], "arr![x; N] (type-level length 256) evaluated x {} times", log.len());
    take_log(); let c: GA<u32, N<256>> = arr![lg(8); 256]; let log = take_log();
    ck!(c.len() == 256 && c.iter().all(|x| *x == 8u32.wrapping_mul(2654435761)), "arr![x; n] (constant length 256) is not 256 copies of x");
    ck!(log == vec![8], "arr![x; n] (constant length 256) evaluated x {} times", log.len());
    take_log(); let b: Box<GA<u32, N<256>>> = box_arr![lg(7); N<256>]; let log = take_log();
    ck!(*b == a, "box_arr![x; N] (type-level length 256) differs from arr!");
    ck!(log == vec![7], "box_arr![x; N] (type-level length 256) evaluated x {} times", log.len());
    take_log(); let b2: Box<GA<u32, N<256>>> = box_arr![lg(8); 256]; let log = take_log();
    ck!(*b2 == c, "box_arr![x; n] (constant length 256) differs from arr!");
    ck!(log == vec![8], "box_arr![x; n] (constant length 256) evaluated x {} times", log.len());
    ck!(CT_256.len() == 256 && CT_256.iter().all(|x| *x == 513) && CC_256 == CT_256 && ST_256 == CT_256 && cft_256() == CT_256 && cfc_256() == CT_256, "repeat forms of length 256 in const / static / const fn position differ");
    Ok(())
}
const CT_1000: GA<u16, N<1000>> = arr![513u16; N<1000>];
const CC_1000: GA<u16, N<1000>> = arr![513u16; 1000];
static ST_1000: GA<u16, N<1000>> = arr![513u16; 1000];
const fn cft_1000() -> GA<u16, N<1000>> { arr![513u16; N<1000>] }
const fn cfc_1000() -> GA<u16, N<1000>> { arr![513u16; 1000] }
fn case_repeat_1000() -> Result<(), String> {
    take_log(); let a: GA<u32, N<1000>> = arr![lg(7); N<1000>]; let log = take_log();
    ck!(a.len() == 1000 && a.iter().all(|x| *x == 7u32.wrapping_mul(2654435761)), "arr![x; N] (type-level length 1000) is not 1000 copies of x");
    ck!(log == vec![7], "arr![x; N] (type-level length 1000) evaluated x {} times", log.len());
    take_log(); let c: GA<u32, N<1000>> = arr![lg(8); 1000]; let log = take_log();
    ck!(c.len() == 1000 && c.iter().all(|x| *x == 8u32.wrapping_mul(2654435761)), "arr![x; n] (constant length 1000) is not 1000 copies of x");
    ck!(log == vec![8], "arr![x; n] (constant length 1000) evaluated x {} times", log.len());
    take_log(); let b: Box<GA<u32, N<1000>>> = box_arr![lg(7); N<1000>]; let log = take_log();
    ck!(*b == a, "box_arr![x; N] (type-level length 1000) differs from arr!");
    ck!(log == vec![7], "box_arr![x; N] (type-level length 1000) evaluated x {} times", log.len());
    take_log(); let b2: Box<GA<u32, N<1000>>> = box_arr![lg(8); 1000]; let log = take_log();
    ck!(*b2 == c, "box_arr![x; n] (constant length 1000) differs from arr!");
    ck!(log == vec![8], "box_arr![x; n] (constant length 1000) evaluated x {} times", log.len());
    ck!(CT_1000.len() == 1000 && CT_1000.iter().all(|x| *x == 513) && CC_1000 == CT_1000 && ST_1000 == CT_1000 && cft_1000() == CT_1000 && cfc_1000() == CT_1000, "repeat forms of length 1000 in const / static / const fn position differ");
    Ok(())
}
const CT_1024: GA<u16, N<1024>> = arr![513u16; N<1024>];
const CC_1024: GA<u16, N<1024>> = arr![513u16; 1024];
static ST_1024: GA<u16, N<1024>> = arr![513u16; 1024];
const fn cft_1024() -> GA<u16, N<1024>> { arr![513u16; N<1024>] }
const fn cfc_1024() -> GA<u16, N<1024>> { arr![513u16; 1024] }
fn case_repeat_1024() -> Result<(), String> {
    take_log(); let a: GA<u32, N<1024>> = arr![lg(7); N<1024>]; let log = take_log();
    ck!(a.len() == 1024 && a.iter().all(|x| *x == 7u32.wrapping_mul(2654435761)), "arr![x; N] (type-level length 1024) is not 1024 copies of x");
    ck!(log == vec![7], "arr![x; N] (type-level length 1024) evaluated x {} times", log.len());
    take_log(); let c: GA<u32, N<1024>> = arr![lg(8); 1024]; let log = take_log();
    ck!(c.len() == 1024 && c.iter().all(|x| *x == 8u32.wrapping_mul(2654435761)), "arr![x; n] (constant length 1024) is not 1024 copies of x");
    ck!(log == vec![8], "arr![x; n] (constant length 1024) evaluated x {} times", log.len());
    take_log(); let b: Box<GA<u32, N<1024>>> = box_arr![lg(7); N<1024>]; let log = take_log();
    ck!(*b == a, "box_arr![x; N] (type-level length 1024) differs from arr!");
    ck!(log == vec![7], "box_arr![x; N] (type-level length 1024) evaluated x {} times", log.len());
    take_log(); let b2: Box<GA<u32, N<1024>>> = box_arr![lg(8); 1024]; let log = take_log();
    ck!(*b2 == c, "box_arr![x; n] (constant length 1024) differs from arr!");
    ck!(log == vec![8], "box_arr![x; n] (constant length 1024) evaluated x {} times", log.len());
    ck!(CT_1024.len() == 1024 && CT_1024.iter().all(|x| *x == 513) && CC_1024 == CT_1024 && ST_1024 == CT_1024 && cft_1024() == CT_1024 && cfc_1024() == CT_1024, "repeat forms of length 1024 in const / static / const fn position differ");
    Ok(())
}
fn case_repeat_box_clone_0() -> Result<(), String> {
    let s = String::from("moved"); let b: Box<GA<String, N<0>>> = box_arr![s; N<0>];
    ck!(b.len() == 0 && b.iter().all(|x| x == "moved"), "box_arr![s; N] with a moved String of length 0");
    let s2 = String::from("moved2"); let b: Box<GA<String, N<0>>> = box_arr![s2; 0];
    ck!(b.len() == 0 && b.iter().all(|x| x == "moved2"), "box_arr![s; n] with a moved String of length 0");
    Ok(())
}
fn case_repeat_box_clone_1() -> Result<(), String> {
    let s = String::from("moved"); let b: Box<GA<String, N<1>>> = box_arr![s; N<1>];
    ck!(b.len() == 1 && b.iter().all(|x| x == "moved"), "box_arr![s; N] with a moved String of length 1");
    let s2 = String::from("moved2"); let b: Box<GA<String, N<1>>> = box_arr![s2; 1];
    ck!(b.len() == 1 && b.iter().all(|x| x == "moved2"), "box_arr![s; n] with a moved String of length 1");
    Ok(())
}
fn case_repeat_box_clone_2() -> Result<(), String> {
    let s = String::from("moved"); let b: Box<GA<String, N<2>>> = box_arr![s; N<2>];
    ck!(b.len() == 2 && b.iter().all(|x| x == "moved"), "box_arr![s; N] with a moved String of length 2");
    let s2 = String::from("moved2"); let b: Box<GA<String, N<2>>> = box_arr![s2; 2];
    ck!(b.len() == 2 && b.iter().all(|x| x == "moved2"), "box_arr![s; n] with a moved String of length 2");
    Ok(())
}
fn case_repeat_box_clone_5() -> Result<(), String> {
    let s = String::from("moved"); let b: Box<GA<String, N<5>>> = box_arr![s; N<5>];
    ck!(b.len() == 5 && b.iter().all(|x| x == "moved"), "box_arr![s; N] with a moved String of length 5");
    let s2 = String::from("moved2"); let b: Box<GA<String, N<5>>> = box_arr![s2; 5];
    ck!(b.len() == 5 && b.iter().all(|x| x == "moved2"), "box_arr![s; n] with a moved String of length 5");
    Ok(())
}
fn case_repeat_noncopy_0() -> Result<(), String> {
    take_log(); take_drops();
    { let d: GA<D, N<0>> = arr![ld(5); N<0>]; ck!(d.len() == 0, "arr![x; N] with a drop-tracked x, length 0");
      ck!(take_drops().len() == 1 - 0, "arr![x; N] (type-level length 0): x was dropped while the array is alive"); ck!(d.iter().all(|x| x.0 == 5), "contents"); }
    ck!(take_drops().len() == 0 && take_log() == vec![5], "arr![x; N] (type-level length 0) with a drop-tracked x: x must be evaluated once and dropped exactly once in total");
    take_log(); take_drops();
    { let d: GA<D, N<0>> = arr![ld(6); 0]; ck!(d.len() == 0, "arr![x; n] with a drop-tracked x, length 0");
      ck!(take_drops().len() == 1 - 0, "arr![x; n] (constant length 0): x was dropped while the array is alive"); }
    ck!(take_drops().len() == 0 && take_log() == vec![6], "arr![x; n] (constant length 0) with a drop-tracked x: x must be evaluated once and dropped exactly once in total");
    Ok(())
}
fn case_repeat_noncopy_1() -> Result<(), String> {
    take_log(); take_drops();
    { let d: GA<D, N<1>> = arr![ld(5); N<1>]; ck!(d.len() == 1, "arr![x; N] with a drop-tracked x, length 1");
      ck!(take_drops().len() == 1 - 1, "arr![x; N] (type-level length 1): x was dropped while the array is alive"); ck!(d.iter().all(|x| x.0 == 5), "contents"); }
    ck!(take_drops().len() == 1 && take_log() == vec![5], "arr![x; N] (type-level length 1) with a drop-tracked x: x must be evaluated once and dropped exactly once in total");
    take_log(); take_drops();
    { let d: GA<D, N<1>> = arr![ld(6); 1]; ck!(d.len() == 1, "arr![x; n] with a drop-tracked x, length 1");
      ck!(take_drops().len() == 1 - 1, "arr![x; n] (constant length 1): x was dropped while the array is alive"); }
    ck!(take_drops().len() == 1 && take_log() == vec![6], "arr![x; n] (constant length 1) with a drop-tracked x: x must be evaluated once and dropped exactly once in total");
    Ok(())
}
fn case_misc() -> Result<(), String> {
    let a = arr![1u8; U4096]; ck!(a.len() == 4096 && a.iter().all(|x| *x == 1), "arr![x; U4096]");
    // type-level lengths that const generics cannot name (no Const<N> mapping in typenum): any Unsigned works
    let o = arr![2u8; Add1<U1024>]; ck!(o.len() == 1025 && o.iter().all(|x| *x == 2), "arr![x; 1025 as a type]");
    let t = arr![3u16; Prod<U3, U1000>]; ck!(t.len() == 3000 && t.iter().all(|x| *x == 3), "arr![x; 3000 as a type]");
    const CO: GA<u8, Add1<U1024>> = arr![4u8; Add1<U1024>]; ck!(CO.len() == 1025 && CO[1024] == 4, "arr![x; 1025 as a type] in a const item");
    let ob = box_arr![2u8; Add1<U1024>]; ck!(*ob == o, "box_arr![x; 1025 as a type]");
    let tb = box_arr![3u16; Prod<U3, U1000>]; ck!(*tb == t, "box_arr![x; 3000 as a type]");
    let b = box_arr![1u8; U4096]; ck!(*b == a, "box_arr![x; U4096]");
    let e: GA<u8, U0> = arr![]; let e2: GA<u8, U0> = arr![,]; ck!(e.len() == 0 && e2.len() == 0, "empty arr!");
    let eb: Box<GA<u8, U0>> = box_arr![]; ck!(eb.len() == 0, "empty box_arr!");
    let inferred = arr![1u8, 2, 3]; let _: &GA<u8, U3> = &inferred;
    let nested = arr![arr![1u8, 2], arr![3, 4], arr![5, 6]]; let _: &GA<GA<u8, U2>, U3> = &nested;
    ck!(nested[2][1] == 6, "nested arr!");
    Ok(())
}
fn case_cfg_elements_first() -> Result<(), String> {
    take_log(); let nat: &[u32] = &[#[cfg(any())] lg(0), lg(1), lg(2)]; let nlog = take_log();
    let a: GA<u32, _> = arr![#[cfg(any())] lg(0), lg(1), lg(2)]; let alog = take_log();
    ck!(a.as_slice() == &nat[..] && alog == nlog, "arr! with attribute-carrying elements gives {:?} (evaluated {:?}), the native literal gives {:?} (evaluated {:?})", a.as_slice(), alog, nat, nlog);
    let b: Box<GA<u32, _>> = box_arr![#[cfg(any())] lg(0), lg(1), lg(2)]; let blog = take_log();
    ck!(b.as_slice() == &nat[..] && blog == nlog, "box_arr! with attribute-carrying elements gives {:?} (evaluated {:?}), the native literal gives {:?} (evaluated {:?})", b.as_slice(), blog, nat, nlog);
    Ok(())
}
fn case_cfg_elements_middle() -> Result<(), String> {
    take_log(); let nat: &[u32] = &[lg(0), #[cfg(any())] lg(1), lg(2)]; let nlog = take_log();
    let a: GA<u32, _> = arr![lg(0), #[cfg(any())] lg(1), lg(2)]; let alog = take_log();
    ck!(a.as_slice() == &nat[..] && alog == nlog, "arr! with attribute-carrying elements gives {:?} (evaluated {:?}), the native literal gives {:?} (evaluated {:?})", a.as_slice(), alog, nat, nlog);
    let b: Box<GA<u32, _>> = box_arr![lg(0), #[cfg(any())] lg(1), lg(2)]; let blog = take_log();
    ck!(b.as_slice() == &nat[..] && blog == nlog, "box_arr! with attribute-carrying elements gives {:?} (evaluated {:?}), the native literal gives {:?} (evaluated {:?})", b.as_slice(), blog, nat, nlog);
    Ok(())
}
fn case_cfg_elements_last() -> Result<(), String> {
    take_log(); let nat: &[u32] = &[lg(0), lg(1), #[cfg(any())] lg(2)]; let nlog = take_log();
    let a: GA<u32, _> = arr![lg(0), lg(1), #[cfg(any())] lg(2)]; let alog = take_log();
    ck!(a.as_slice() == &nat[..] && alog == nlog, "arr! with attribute-carrying elements gives {:?} (evaluated {:?}), the native literal gives {:?} (evaluated {:?})", a.as_slice(), alog, nat, nlog);
    let b: Box<GA<u32, _>> = box_arr![lg(0), lg(1), #[cfg(any())] lg(2)]; let blog = take_log();
    ck!(b.as_slice() == &nat[..] && blog == nlog, "box_arr! with attribute-carrying elements gives {:?} (evaluated {:?}), the native literal gives {:?} (evaluated {:?})", b.as_slice(), blog, nat, nlog);
    Ok(())
}
fn case_cfg_elements_all() -> Result<(), String> {
    take_log(); let nat: &[u32] = &[#[cfg(any())] lg(0), #[cfg(any())] lg(1)]; let nlog = take_log();
    let a: GA<u32, _> = arr![#[cfg(any())] lg(0), #[cfg(any())] lg(1)]; let alog = take_log();
    ck!(a.as_slice() == &nat[..] && alog == nlog, "arr! with attribute-carrying elements gives {:?} (evaluated {:?}), the native literal gives {:?} (evaluated {:?})", a.as_slice(), alog, nat, nlog);
    let b: Box<GA<u32, _>> = box_arr![#[cfg(any())] lg(0), #[cfg(any())] lg(1)]; let blog = take_log();
    ck!(b.as_slice() == &nat[..] && blog == nlog, "box_arr! with attribute-carrying elements gives {:?} (evaluated {:?}), the native literal gives {:?} (evaluated {:?})", b.as_slice(), blog, nat, nlog);
    Ok(())
}
fn case_cfg_elements_enabled() -> Result<(), String> {
    take_log(); let nat: &[u32] = &[lg(0), #[cfg(all())] lg(1), #[allow(unused_parens)] (lg(2))]; let nlog = take_log();
    let a: GA<u32, _> = arr![lg(0), #[cfg(all())] lg(1), #[allow(unused_parens)] (lg(2))]; let alog = take_log();
    ck!(a.as_slice() == &nat[..] && alog == nlog, "arr! with attribute-carrying elements gives {:?} (evaluated {:?}), the native literal gives {:?} (evaluated {:?})", a.as_slice(), alog, nat, nlog);
    let b: Box<GA<u32, _>> = box_arr![lg(0), #[cfg(all())] lg(1), #[allow(unused_parens)] (lg(2))]; let blog = take_log();
    ck!(b.as_slice() == &nat[..] && blog == nlog, "box_arr! with attribute-carrying elements gives {:?} (evaluated {:?}), the native literal gives {:?} (evaluated {:?})", b.as_slice(), blog, nat, nlog);
    Ok(())
}
fn case_cfg_elements_two() -> Result<(), String> {
    take_log(); let nat: &[u32] = &[#[cfg(any())] lg(0), lg(1), #[cfg(any())] lg(2), lg(3),]; let nlog = take_log();
    let a: GA<u32, _> = arr![#[cfg(any())] lg(0), lg(1), #[cfg(any())] lg(2), lg(3),]; let alog = take_log();
    ck!(a.as_slice() == &nat[..] && alog == nlog, "arr! with attribute-carrying elements gives {:?} (evaluated {:?}), the native literal gives {:?} (evaluated {:?})", a.as_slice(), alog, nat, nlog);
    let b: Box<GA<u32, _>> = box_arr![#[cfg(any())] lg(0), lg(1), #[cfg(any())] lg(2), lg(3),]; let blog = take_log();
    ck!(b.as_slice() == &nat[..] && blog == nlog, "box_arr! with attribute-carrying elements gives {:?} (evaluated {:?}), the native literal gives {:?} (evaluated {:?})", b.as_slice(), blog, nat, nlog);
    Ok(())
}
struct Guard(u32);
impl Guard { fn v(&self) -> u32 { LOG.with(|l| l.borrow_mut().push(self.0)); self.0 } }
impl Drop for Guard { fn drop(&mut self) { LOG.with(|l| l.borrow_mut().push(1000 + self.0)); } }
fn g(i: u32) -> Guard { LOG.with(|l| l.borrow_mut().push(100 + i)); Guard(i) }
fn used<T: AsRef<[u32]>>(a: T) -> usize { LOG.with(|l| l.borrow_mut().push(500)); a.as_ref().len() }
fn case_temporaries() -> Result<(), String> {
    take_log(); let _ = used([g(1).v(), g(2).v(), g(3).v()]); let nat = take_log();
    let _ = used(arr![g(1).v(), g(2).v(), g(3).v()]); let a = take_log();
    ck!(a == nat, "temporaries of arr! element expressions: event order {:?}, with the native literal {:?}", a, nat);
    let _ = used(*box_arr![g(1).v(), g(2).v(), g(3).v()]); let b = take_log();
    ck!(b == nat, "temporaries of box_arr! element expressions: event order {:?}, with the native literal {:?}", b, nat);
    let nat = { take_log(); let n = [g(4).v(), g(5).v()].map(|x| { LOG.with(|l| l.borrow_mut().push(600)); x }); take_log() };
    let a = { let n = arr![g(4).v(), g(5).v()].map(|x| { LOG.with(|l| l.borrow_mut().push(600)); x }); take_log() };
    ck!(a == nat, "temporaries of arr! elements in a method chain: event order {:?}, with the native literal {:?}", a, nat);
    Ok(())
}
fn case_inference() -> Result<(), String> {
    let d: GA<&dyn core::fmt::Debug, U2> = arr![&1u8, &"x"]; ck!(format!("{:?}", d[1]) == "\"x\"", "arr! with elements coerced to a trait object");
    let o: GA<Option<u8>, U2> = arr![None, None]; ck!(o[0].is_none(), "arr! with the element type known from the expected type only");
    let ob: Box<GA<Option<u8>, U2>> = box_arr![None, None]; ck!(ob[1].is_none(), "box_arr! with the element type known from the expected type only");
    let db: Box<GA<&dyn core::fmt::Debug, U2>> = box_arr![&1u8, &"x"]; ck!(format!("{:?}", db[0]) == "1", "box_arr! with elements coerced to a trait object");
    let n = arr![&String::from("ab")[..], "c"].map(|s| s.len()); ck!(n == arr![2usize, 1], "arr! with an element borrowing from its own temporary");
    let nb = box_arr![&String::from("ab")[..], "c"].iter().map(|s| s.len()).sum::<usize>(); ck!(nb == 3, "box_arr! with an element borrowing from its own temporary");
    let f = arr![|x: u8| x + 1]; ck!((f[0])(1) == 2, "arr! of a closure");
    let fb = box_arr![|x: u8| x + 2]; ck!((fb[0])(1) == 3, "box_arr! of a closure");
    let big = box_arr![[7u8; 1 << 16], [8u8; 1 << 16]]; ck!(big[1][65535] == 8, "box_arr! of large elements");
    Ok(())
}
fn case_hygiene_ArrayLength() -> Result<(), String> {
    #[allow(non_upper_case_globals, non_snake_case)] {
    const ArrayLength: usize = 9;
    let a = arr![ArrayLength; U4]; ck!(a.as_slice() == [9usize; 4], "arr![ArrayLength; U4] with a caller constant named ArrayLength = 9 gives {:?}", a.as_slice());
    let c = arr![ArrayLength; 3]; ck!(c.as_slice() == [9usize; 3], "arr![ArrayLength; 3] with a caller constant named ArrayLength = 9 gives {:?}", c.as_slice());
    let l = arr![ArrayLength, ArrayLength + 1]; ck!(l.as_slice() == [9usize, 10], "arr![ArrayLength, ArrayLength + 1] with a caller constant named ArrayLength = 9 gives {:?}", l.as_slice());
    let b = box_arr![ArrayLength; U4]; ck!(b.as_slice() == [9usize; 4], "box_arr![ArrayLength; U4] with a caller constant named ArrayLength = 9 gives {:?}", b.as_slice());
    let b2 = box_arr![ArrayLength; 3]; ck!(b2.as_slice() == [9usize; 3], "box_arr![ArrayLength; 3] with a caller constant named ArrayLength = 9 gives {:?}", b2.as_slice());
    let bl = box_arr![ArrayLength, ArrayLength + 1]; ck!(bl.as_slice() == [9usize, 10], "box_arr![ArrayLength, ArrayLength + 1] with a caller constant named ArrayLength = 9 gives {:?}", bl.as_slice());
    }
    Ok(())
}
fn case_hygiene_Box() -> Result<(), String> {
    #[allow(non_upper_case_globals, non_snake_case)] {
    const Box: usize = 9;
    let a = arr![Box; U4]; ck!(a.as_slice() == [9usize; 4], "arr![Box; U4] with a caller constant named Box = 9 gives {:?}", a.as_slice());
    let c = arr![Box; 3]; ck!(c.as_slice() == [9usize; 3], "arr![Box; 3] with a caller constant named Box = 9 gives {:?}", c.as_slice());
    let l = arr![Box, Box + 1]; ck!(l.as_slice() == [9usize, 10], "arr![Box, Box + 1] with a caller constant named Box = 9 gives {:?}", l.as_slice());
    let b = box_arr![Box; U4]; ck!(b.as_slice() == [9usize; 4], "box_arr![Box; U4] with a caller constant named Box = 9 gives {:?}", b.as_slice());
    let b2 = box_arr![Box; 3]; ck!(b2.as_slice() == [9usize; 3], "box_arr![Box; 3] with a caller constant named Box = 9 gives {:?}", b2.as_slice());
    let bl = box_arr![Box, Box + 1]; ck!(bl.as_slice() == [9usize, 10], "box_arr![Box, Box + 1] with a caller constant named Box = 9 gives {:?}", bl.as_slice());
    }
    Ok(())
}
fn case_hygiene_Const() -> Result<(), String> {
    #[allow(non_upper_case_globals, non_snake_case)] {
    const Const: usize = 9;
    let a = arr![Const; U4]; ck!(a.as_slice() == [9usize; 4], "arr![Const; U4] with a caller constant named Const = 9 gives {:?}", a.as_slice());
    let c = arr![Const; 3]; ck!(c.as_slice() == [9usize; 3], "arr![Const; 3] with a caller constant named Const = 9 gives {:?}", c.as_slice());
    let l = arr![Const, Const + 1]; ck!(l.as_slice() == [9usize, 10], "arr![Const, Const + 1] with a caller constant named Const = 9 gives {:?}", l.as_slice());
    let b = box_arr![Const; U4]; ck!(b.as_slice() == [9usize; 4], "box_arr![Const; U4] with a caller constant named Const = 9 gives {:?}", b.as_slice());
    let b2 = box_arr![Const; 3]; ck!(b2.as_slice() == [9usize; 3], "box_arr![Const; 3] with a caller constant named Const = 9 gives {:?}", b2.as_slice());
    let bl = box_arr![Const, Const + 1]; ck!(bl.as_slice() == [9usize, 10], "box_arr![Const, Const + 1] with a caller constant named Const = 9 gives {:?}", bl.as_slice());
    }
    Ok(())
}
fn case_hygiene_DocTests() -> Result<(), String> {
    #[allow(non_upper_case_globals, non_snake_case)] {
    const DocTests: usize = 9;
    let a = arr![DocTests; U4]; ck!(a.as_slice() == [9usize; 4], "arr![DocTests; U4] with a caller constant named DocTests = 9 gives {:?}", a.as_slice());
    let c = arr![DocTests; 3]; ck!(c.as_slice() == [9usize; 3], "arr![DocTests; 3] with a caller constant named DocTests = 9 gives {:?}", c.as_slice());
    let l = arr![DocTests, DocTests + 1]; ck!(l.as_slice() == [9usize, 10], "arr![DocTests, DocTests + 1] with a caller constant named DocTests = 9 gives {:?}", l.as_slice());
    let b = box_arr![DocTests; U4]; ck!(b.as_slice() == [9usize; 4], "box_arr![DocTests; U4] with a caller constant named DocTests = 9 gives {:?}", b.as_slice());
    let b2 = box_arr![DocTests; 3]; ck!(b2.as_slice() == [9usize; 3], "box_arr![DocTests; 3] with a caller constant named DocTests = 9 gives {:?}", b2.as_slice());
    let bl = box_arr![DocTests, DocTests + 1]; ck!(bl.as_slice() == [9usize, 10], "box_arr![DocTests, DocTests + 1] with a caller constant named DocTests = 9 gives {:?}", bl.as_slice());
    }
    Ok(())
}
fn case_hygiene_GenericArray() -> Result<(), String> {
    #[allow(non_upper_case_globals, non_snake_case)] {
    const GenericArray: usize = 9;
    let a = arr![GenericArray; U4]; ck!(a.as_slice() == [9usize; 4], "arr![GenericArray; U4] with a caller constant named GenericArray = 9 gives {:?}", a.as_slice());
    let c = arr![GenericArray; 3]; ck!(c.as_slice() == [9usize; 3], "arr![GenericArray; 3] with a caller constant named GenericArray = 9 gives {:?}", c.as_slice());
    let l = arr![GenericArray, GenericArray + 1]; ck!(l.as_slice() == [9usize, 10], "arr![GenericArray, GenericArray + 1] with a caller constant named GenericArray = 9 gives {:?}", l.as_slice());
    let b = box_arr![GenericArray; U4]; ck!(b.as_slice() == [9usize; 4], "box_arr![GenericArray; U4] with a caller constant named GenericArray = 9 gives {:?}", b.as_slice());
    let b2 = box_arr![GenericArray; 3]; ck!(b2.as_slice() == [9usize; 3], "box_arr![GenericArray; 3] with a caller constant named GenericArray = 9 gives {:?}", b2.as_slice());
    let bl = box_arr![GenericArray, GenericArray + 1]; ck!(bl.as_slice() == [9usize, 10], "box_arr![GenericArray, GenericArray + 1] with a caller constant named GenericArray = 9 gives {:?}", bl.as_slice());
    }
    Ok(())
}
fn case_hygiene_IntoArrayLength() -> Result<(), String> {
    #[allow(non_upper_case_globals, non_snake_case)] {
    const IntoArrayLength: usize = 9;
    let a = arr![IntoArrayLength; U4]; ck!(a.as_slice() == [9usize; 4], "arr![IntoArrayLength; U4] with a caller constant named IntoArrayLength = 9 gives {:?}", a.as_slice());
    let c = arr![IntoArrayLength; 3]; ck!(c.as_slice() == [9usize; 3], "arr![IntoArrayLength; 3] with a caller constant named IntoArrayLength = 9 gives {:?}", c.as_slice());
    let l = arr![IntoArrayLength, IntoArrayLength + 1]; ck!(l.as_slice() == [9usize, 10], "arr![IntoArrayLength, IntoArrayLength + 1] with a caller constant named IntoArrayLength = 9 gives {:?}", l.as_slice());
    let b = box_arr![IntoArrayLength; U4]; ck!(b.as_slice() == [9usize; 4], "box_arr![IntoArrayLength; U4] with a caller constant named IntoArrayLength = 9 gives {:?}", b.as_slice());
    let b2 = box_arr![IntoArrayLength; 3]; ck!(b2.as_slice() == [9usize; 3], "box_arr![IntoArrayLength; 3] with a caller constant named IntoArrayLength = 9 gives {:?}", b2.as_slice());
    let bl = box_arr![IntoArrayLength, IntoArrayLength + 1]; ck!(bl.as_slice() == [9usize, 10], "box_arr![IntoArrayLength, IntoArrayLength + 1] with a caller constant named IntoArrayLength = 9 gives {:?}", bl.as_slice());
    }
    Ok(())
}
fn case_hygiene_USIZE() -> Result<(), String> {
    #[allow(non_upper_case_globals, non_snake_case)] {
    const USIZE: usize = 9;
    let a = arr![USIZE; U4]; ck!(a.as_slice() == [9usize; 4], "arr![USIZE; U4] with a caller constant named USIZE = 9 gives {:?}", a.as_slice());
    let c = arr![USIZE; 3]; ck!(c.as_slice() == [9usize; 3], "arr![USIZE; 3] with a caller constant named USIZE = 9 gives {:?}", c.as_slice());
    let l = arr![USIZE, USIZE + 1]; ck!(l.as_slice() == [9usize, 10], "arr![USIZE, USIZE + 1] with a caller constant named USIZE = 9 gives {:?}", l.as_slice());
    let b = box_arr![USIZE; U4]; ck!(b.as_slice() == [9usize; 4], "box_arr![USIZE; U4] with a caller constant named USIZE = 9 gives {:?}", b.as_slice());
    let b2 = box_arr![USIZE; 3]; ck!(b2.as_slice() == [9usize; 3], "box_arr![USIZE; 3] with a caller constant named USIZE = 9 gives {:?}", b2.as_slice());
    let bl = box_arr![USIZE, USIZE + 1]; ck!(bl.as_slice() == [9usize, 10], "box_arr![USIZE, USIZE + 1] with a caller constant named USIZE = 9 gives {:?}", bl.as_slice());
    }
    Ok(())
}
fn case_hygiene_Unsigned() -> Result<(), String> {
    #[allow(non_upper_case_globals, non_snake_case)] {
    const Unsigned: usize = 9;
    let a = arr![Unsigned; U4]; ck!(a.as_slice() == [9usize; 4], "arr![Unsigned; U4] with a caller constant named Unsigned = 9 gives {:?}", a.as_slice());
    let c = arr![Unsigned; 3]; ck!(c.as_slice() == [9usize; 3], "arr![Unsigned; 3] with a caller constant named Unsigned = 9 gives {:?}", c.as_slice());
    let l = arr![Unsigned, Unsigned + 1]; ck!(l.as_slice() == [9usize, 10], "arr![Unsigned, Unsigned + 1] with a caller constant named Unsigned = 9 gives {:?}", l.as_slice());
    let b = box_arr![Unsigned; U4]; ck!(b.as_slice() == [9usize; 4], "box_arr![Unsigned; U4] with a caller constant named Unsigned = 9 gives {:?}", b.as_slice());
    let b2 = box_arr![Unsigned; 3]; ck!(b2.as_slice() == [9usize; 3], "box_arr![Unsigned; 3] with a caller constant named Unsigned = 9 gives {:?}", b2.as_slice());
    let bl = box_arr![Unsigned, Unsigned + 1]; ck!(bl.as_slice() == [9usize, 10], "box_arr![Unsigned, Unsigned + 1] with a caller constant named Unsigned = 9 gives {:?}", bl.as_slice());
    }
    Ok(())
}
fn case_hygiene_Vec() -> Result<(), String> {
    #[allow(non_upper_case_globals, non_snake_case)] {
    const Vec: usize = 9;
    let a = arr![Vec; U4]; ck!(a.as_slice() == [9usize; 4], "arr![Vec; U4] with a caller constant named Vec = 9 gives {:?}", a.as_slice());
    let c = arr![Vec; 3]; ck!(c.as_slice() == [9usize; 3], "arr![Vec; 3] with a caller constant named Vec = 9 gives {:?}", c.as_slice());
    let l = arr![Vec, Vec + 1]; ck!(l.as_slice() == [9usize, 10], "arr![Vec, Vec + 1] with a caller constant named Vec = 9 gives {:?}", l.as_slice());
    let b = box_arr![Vec; U4]; ck!(b.as_slice() == [9usize; 4], "box_arr![Vec; U4] with a caller constant named Vec = 9 gives {:?}", b.as_slice());
    let b2 = box_arr![Vec; 3]; ck!(b2.as_slice() == [9usize; 3], "box_arr![Vec; 3] with a caller constant named Vec = 9 gives {:?}", b2.as_slice());
    let bl = box_arr![Vec, Vec + 1]; ck!(bl.as_slice() == [9usize, 10], "box_arr![Vec, Vec + 1] with a caller constant named Vec = 9 gives {:?}", bl.as_slice());
    }
    Ok(())
}
fn case_hygiene__empty() -> Result<(), String> {
    #[allow(non_upper_case_globals, non_snake_case)] {
    const _empty: usize = 9;
    let a = arr![_empty; U4]; ck!(a.as_slice() == [9usize; 4], "arr![_empty; U4] with a caller constant named _empty = 9 gives {:?}", a.as_slice());
    let c = arr![_empty; 3]; ck!(c.as_slice() == [9usize; 3], "arr![_empty; 3] with a caller constant named _empty = 9 gives {:?}", c.as_slice());
    let l = arr![_empty, _empty + 1]; ck!(l.as_slice() == [9usize, 10], "arr![_empty, _empty + 1] with a caller constant named _empty = 9 gives {:?}", l.as_slice());
    let b = box_arr![_empty; U4]; ck!(b.as_slice() == [9usize; 4], "box_arr![_empty; U4] with a caller constant named _empty = 9 gives {:?}", b.as_slice());
    let b2 = box_arr![_empty; 3]; ck!(b2.as_slice() == [9usize; 3], "box_arr![_empty; 3] with a caller constant named _empty = 9 gives {:?}", b2.as_slice());
    let bl = box_arr![_empty, _empty + 1]; ck!(bl.as_slice() == [9usize, 10], "box_arr![_empty, _empty + 1] with a caller constant named _empty = 9 gives {:?}", bl.as_slice());
    }
    Ok(())
}
fn case_hygiene_alloc() -> Result<(), String> {
    #[allow(non_upper_case_globals, non_snake_case)] {
    const alloc: usize = 9;
    let a = arr![alloc; U4]; ck!(a.as_slice() == [9usize; 4], "arr![alloc; U4] with a caller constant named alloc = 9 gives {:?}", a.as_slice());
    let c = arr![alloc; 3]; ck!(c.as_slice() == [9usize; 3], "arr![alloc; 3] with a caller constant named alloc = 9 gives {:?}", c.as_slice());
    let l = arr![alloc, alloc + 1]; ck!(l.as_slice() == [9usize, 10], "arr![alloc, alloc + 1] with a caller constant named alloc = 9 gives {:?}", l.as_slice());
    let b = box_arr![alloc; U4]; ck!(b.as_slice() == [9usize; 4], "box_arr![alloc; U4] with a caller constant named alloc = 9 gives {:?}", b.as_slice());
    let b2 = box_arr![alloc; 3]; ck!(b2.as_slice() == [9usize; 3], "box_arr![alloc; 3] with a caller constant named alloc = 9 gives {:?}", b2.as_slice());
    let bl = box_arr![alloc, alloc + 1]; ck!(bl.as_slice() == [9usize, 10], "box_arr![alloc, alloc + 1] with a caller constant named alloc = 9 gives {:?}", bl.as_slice());
    }
    Ok(())
}
fn case_hygiene_alloc_helper() -> Result<(), String> {
    #[allow(non_upper_case_globals, non_snake_case)] {
    const alloc_helper: usize = 9;
    let a = arr![alloc_helper; U4]; ck!(a.as_slice() == [9usize; 4], "arr![alloc_helper; U4] with a caller constant named alloc_helper = 9 gives {:?}", a.as_slice());
    let c = arr![alloc_helper; 3]; ck!(c.as_slice() == [9usize; 3], "arr![alloc_helper; 3] with a caller constant named alloc_helper = 9 gives {:?}", c.as_slice());
    let l = arr![alloc_helper, alloc_helper + 1]; ck!(l.as_slice() == [9usize, 10], "arr![alloc_helper, alloc_helper + 1] with a caller constant named alloc_helper = 9 gives {:?}", l.as_slice());
    let b = box_arr![alloc_helper; U4]; ck!(b.as_slice() == [9usize; 4], "box_arr![alloc_helper; U4] with a caller constant named alloc_helper = 9 gives {:?}", b.as_slice());
    let b2 = box_arr![alloc_helper; 3]; ck!(b2.as_slice() == [9usize; 3], "box_arr![alloc_helper; 3] with a caller constant named alloc_helper = 9 gives {:?}", b2.as_slice());
    let bl = box_arr![alloc_helper, alloc_helper + 1]; ck!(bl.as_slice() == [9usize, 10], "box_arr![alloc_helper, alloc_helper + 1] with a caller constant named alloc_helper = 9 gives {:?}", bl.as_slice());
    }
    Ok(())
}
fn case_hygiene_allow() -> Result<(), String> {
    #[allow(non_upper_case_globals, non_snake_case)] {
    const allow: usize = 9;
    let a = arr![allow; U4]; ck!(a.as_slice() == [9usize; 4], "arr![allow; U4] with a caller constant named allow = 9 gives {:?}", a.as_slice());
    let c = arr![allow; 3]; ck!(c.as_slice() == [9usize; 3], "arr![allow; 3] with a caller constant named allow = 9 gives {:?}", c.as_slice());
    let l = arr![allow, allow + 1]; ck!(l.as_slice() == [9usize, 10], "arr![allow, allow + 1] with a caller constant named allow = 9 gives {:?}", l.as_slice());
    let b = box_arr![allow; U4]; ck!(b.as_slice() == [9usize; 4], "box_arr![allow; U4] with a caller constant named allow = 9 gives {:?}", b.as_slice());
    let b2 = box_arr![allow; 3]; ck!(b2.as_slice() == [9usize; 3], "box_arr![allow; 3] with a caller constant named allow = 9 gives {:?}", b2.as_slice());
    let bl = box_arr![allow, allow + 1]; ck!(bl.as_slice() == [9usize, 10], "box_arr![allow, allow + 1] with a caller constant named allow = 9 gives {:?}", bl.as_slice());
    }
    Ok(())
}
fn case_hygiene_always() -> Result<(), String> {
    #[allow(non_upper_case_globals, non_snake_case)] {
    const always: usize = 9;
    let a = arr![always; U4]; ck!(a.as_slice() == [9usize; 4], "arr![always; U4] with a caller constant named always = 9 gives {:?}", a.as_slice());
    let c = arr![always; 3]; ck!(c.as_slice() == [9usize; 3], "arr![always; 3] with a caller constant named always = 9 gives {:?}", c.as_slice());
    let l = arr![always, always + 1]; ck!(l.as_slice() == [9usize, 10], "arr![always, always + 1] with a caller constant named always = 9 gives {:?}", l.as_slice());
    let b = box_arr![always; U4]; ck!(b.as_slice() == [9usize; 4], "box_arr![always; U4] with a caller constant named always = 9 gives {:?}", b.as_slice());
    let b2 = box_arr![always; 3]; ck!(b2.as_slice() == [9usize; 3], "box_arr![always; 3] with a caller constant named always = 9 gives {:?}", b2.as_slice());
    let bl = box_arr![always, always + 1]; ck!(bl.as_slice() == [9usize, 10], "box_arr![always, always + 1] with a caller constant named always = 9 gives {:?}", bl.as_slice());
    }
    Ok(())
}
fn case_hygiene_array() -> Result<(), String> {
    #[allow(non_upper_case_globals, non_snake_case)] {
    const array: usize = 9;
    let a = arr![array; U4]; ck!(a.as_slice() == [9usize; 4], "arr![array; U4] with a caller constant named array = 9 gives {:?}", a.as_slice());
    let c = arr![array; 3]; ck!(c.as_slice() == [9usize; 3], "arr![array; 3] with a caller constant named array = 9 gives {:?}", c.as_slice());
    let l = arr![array, array + 1]; ck!(l.as_slice() == [9usize, 10], "arr![array, array + 1] with a caller constant named array = 9 gives {:?}", l.as_slice());
    let b = box_arr![array; U4]; ck!(b.as_slice() == [9usize; 4], "box_arr![array; U4] with a caller constant named array = 9 gives {:?}", b.as_slice());
    let b2 = box_arr![array; 3]; ck!(b2.as_slice() == [9usize; 3], "box_arr![array; 3] with a caller constant named array = 9 gives {:?}", b2.as_slice());
    let bl = box_arr![array, array + 1]; ck!(bl.as_slice() == [9usize, 10], "box_arr![array, array + 1] with a caller constant named array = 9 gives {:?}", bl.as_slice());
    }
    Ok(())
}
fn case_hygiene_box_arr_helper() -> Result<(), String> {
    #[allow(non_upper_case_globals, non_snake_case)] {
    const box_arr_helper: usize = 9;
    let a = arr![box_arr_helper; U4]; ck!(a.as_slice() == [9usize; 4], "arr![box_arr_helper; U4] with a caller constant named box_arr_helper = 9 gives {:?}", a.as_slice());
    let c = arr![box_arr_helper; 3]; ck!(c.as_slice() == [9usize; 3], "arr![box_arr_helper; 3] with a caller constant named box_arr_helper = 9 gives {:?}", c.as_slice());
    let l = arr![box_arr_helper, box_arr_helper + 1]; ck!(l.as_slice() == [9usize, 10], "arr![box_arr_helper, box_arr_helper + 1] with a caller constant named box_arr_helper = 9 gives {:?}", l.as_slice());
    let b = box_arr![box_arr_helper; U4]; ck!(b.as_slice() == [9usize; 4], "box_arr![box_arr_helper; U4] with a caller constant named box_arr_helper = 9 gives {:?}", b.as_slice());
    let b2 = box_arr![box_arr_helper; 3]; ck!(b2.as_slice() == [9usize; 3], "box_arr![box_arr_helper; 3] with a caller constant named box_arr_helper = 9 gives {:?}", b2.as_slice());
    let bl = box_arr![box_arr_helper, box_arr_helper + 1]; ck!(bl.as_slice() == [9usize, 10], "box_arr![box_arr_helper, box_arr_helper + 1] with a caller constant named box_arr_helper = 9 gives {:?}", bl.as_slice());
    }
    Ok(())
}
fn case_hygiene_boxed() -> Result<(), String> {
    #[allow(non_upper_case_globals, non_snake_case)] {
    const boxed: usize = 9;
    let a = arr![boxed; U4]; ck!(a.as_slice() == [9usize; 4], "arr![boxed; U4] with a caller constant named boxed = 9 gives {:?}", a.as_slice());
    let c = arr![boxed; 3]; ck!(c.as_slice() == [9usize; 3], "arr![boxed; 3] with a caller constant named boxed = 9 gives {:?}", c.as_slice());
    let l = arr![boxed, boxed + 1]; ck!(l.as_slice() == [9usize, 10], "arr![boxed, boxed + 1] with a caller constant named boxed = 9 gives {:?}", l.as_slice());
    let b = box_arr![boxed; U4]; ck!(b.as_slice() == [9usize; 4], "box_arr![boxed; U4] with a caller constant named boxed = 9 gives {:?}", b.as_slice());
    let b2 = box_arr![boxed; 3]; ck!(b2.as_slice() == [9usize; 3], "box_arr![boxed; 3] with a caller constant named boxed = 9 gives {:?}", b2.as_slice());
    let bl = box_arr![boxed, boxed + 1]; ck!(bl.as_slice() == [9usize, 10], "box_arr![boxed, boxed + 1] with a caller constant named boxed = 9 gives {:?}", bl.as_slice());
    }
    Ok(())
}
fn case_hygiene_cfg() -> Result<(), String> {
    #[allow(non_upper_case_globals, non_snake_case)] {
    const cfg: usize = 9;
    let a = arr![cfg; U4]; ck!(a.as_slice() == [9usize; 4], "arr![cfg; U4] with a caller constant named cfg = 9 gives {:?}", a.as_slice());
    let c = arr![cfg; 3]; ck!(c.as_slice() == [9usize; 3], "arr![cfg; 3] with a caller constant named cfg = 9 gives {:?}", c.as_slice());
    let l = arr![cfg, cfg + 1]; ck!(l.as_slice() == [9usize, 10], "arr![cfg, cfg + 1] with a caller constant named cfg = 9 gives {:?}", l.as_slice());
    let b = box_arr![cfg; U4]; ck!(b.as_slice() == [9usize; 4], "box_arr![cfg; U4] with a caller constant named cfg = 9 gives {:?}", b.as_slice());
    let b2 = box_arr![cfg; 3]; ck!(b2.as_slice() == [9usize; 3], "box_arr![cfg; 3] with a caller constant named cfg = 9 gives {:?}", b2.as_slice());
    let bl = box_arr![cfg, cfg + 1]; ck!(bl.as_slice() == [9usize, 10], "box_arr![cfg, cfg + 1] with a caller constant named cfg = 9 gives {:?}", bl.as_slice());
    }
    Ok(())
}
fn case_hygiene_const_transmute() -> Result<(), String> {
    #[allow(non_upper_case_globals, non_snake_case)] {
    const const_transmute: usize = 9;
    let a = arr![const_transmute; U4]; ck!(a.as_slice() == [9usize; 4], "arr![const_transmute; U4] with a caller constant named const_transmute = 9 gives {:?}", a.as_slice());
    let c = arr![const_transmute; 3]; ck!(c.as_slice() == [9usize; 3], "arr![const_transmute; 3] with a caller constant named const_transmute = 9 gives {:?}", c.as_slice());
    let l = arr![const_transmute, const_transmute + 1]; ck!(l.as_slice() == [9usize, 10], "arr![const_transmute, const_transmute + 1] with a caller constant named const_transmute = 9 gives {:?}", l.as_slice());
    let b = box_arr![const_transmute; U4]; ck!(b.as_slice() == [9usize; 4], "box_arr![const_transmute; U4] with a caller constant named const_transmute = 9 gives {:?}", b.as_slice());
    let b2 = box_arr![const_transmute; 3]; ck!(b2.as_slice() == [9usize; 3], "box_arr![const_transmute; 3] with a caller constant named const_transmute = 9 gives {:?}", b2.as_slice());
    let bl = box_arr![const_transmute, const_transmute + 1]; ck!(bl.as_slice() == [9usize, 10], "box_arr![const_transmute, const_transmute + 1] with a caller constant named const_transmute = 9 gives {:?}", bl.as_slice());
    }
    Ok(())
}
fn case_hygiene_dead_code() -> Result<(), String> {
    #[allow(non_upper_case_globals, non_snake_case)] {
    const dead_code: usize = 9;
    let a = arr![dead_code; U4]; ck!(a.as_slice() == [9usize; 4], "arr![dead_code; U4] with a caller constant named dead_code = 9 gives {:?}", a.as_slice());
    let c = arr![dead_code; 3]; ck!(c.as_slice() == [9usize; 3], "arr![dead_code; 3] with a caller constant named dead_code = 9 gives {:?}", c.as_slice());
    let l = arr![dead_code, dead_code + 1]; ck!(l.as_slice() == [9usize, 10], "arr![dead_code, dead_code + 1] with a caller constant named dead_code = 9 gives {:?}", l.as_slice());
    let b = box_arr![dead_code; U4]; ck!(b.as_slice() == [9usize; 4], "box_arr![dead_code; U4] with a caller constant named dead_code = 9 gives {:?}", b.as_slice());
    let b2 = box_arr![dead_code; 3]; ck!(b2.as_slice() == [9usize; 3], "box_arr![dead_code; 3] with a caller constant named dead_code = 9 gives {:?}", b2.as_slice());
    let bl = box_arr![dead_code, dead_code + 1]; ck!(bl.as_slice() == [9usize, 10], "box_arr![dead_code, dead_code + 1] with a caller constant named dead_code = 9 gives {:?}", bl.as_slice());
    }
    Ok(())
}
fn case_hygiene_doc() -> Result<(), String> {
    #[allow(non_upper_case_globals, non_snake_case)] {
    const doc: usize = 9;
    let a = arr![doc; U4]; ck!(a.as_slice() == [9usize; 4], "arr![doc; U4] with a caller constant named doc = 9 gives {:?}", a.as_slice());
    let c = arr![doc; 3]; ck!(c.as_slice() == [9usize; 3], "arr![doc; 3] with a caller constant named doc = 9 gives {:?}", c.as_slice());
    let l = arr![doc, doc + 1]; ck!(l.as_slice() == [9usize, 10], "arr![doc, doc + 1] with a caller constant named doc = 9 gives {:?}", l.as_slice());
    let b = box_arr![doc; U4]; ck!(b.as_slice() == [9usize; 4], "box_arr![doc; U4] with a caller constant named doc = 9 gives {:?}", b.as_slice());
    let b2 = box_arr![doc; 3]; ck!(b2.as_slice() == [9usize; 3], "box_arr![doc; 3] with a caller constant named doc = 9 gives {:?}", b2.as_slice());
    let bl = box_arr![doc, doc + 1]; ck!(bl.as_slice() == [9usize, 10], "box_arr![doc, doc + 1] with a caller constant named doc = 9 gives {:?}", bl.as_slice());
    }
    Ok(())
}
fn case_hygiene_doctests_only() -> Result<(), String> {
    #[allow(non_upper_case_globals, non_snake_case)] {
    const doctests_only: usize = 9;
    let a = arr![doctests_only; U4]; ck!(a.as_slice() == [9usize; 4], "arr![doctests_only; U4] with a caller constant named doctests_only = 9 gives {:?}", a.as_slice());
    let c = arr![doctests_only; 3]; ck!(c.as_slice() == [9usize; 3], "arr![doctests_only; 3] with a caller constant named doctests_only = 9 gives {:?}", c.as_slice());
    let l = arr![doctests_only, doctests_only + 1]; ck!(l.as_slice() == [9usize, 10], "arr![doctests_only, doctests_only + 1] with a caller constant named doctests_only = 9 gives {:?}", l.as_slice());
    let b = box_arr![doctests_only; U4]; ck!(b.as_slice() == [9usize; 4], "box_arr![doctests_only; U4] with a caller constant named doctests_only = 9 gives {:?}", b.as_slice());
    let b2 = box_arr![doctests_only; 3]; ck!(b2.as_slice() == [9usize; 3], "box_arr![doctests_only; 3] with a caller constant named doctests_only = 9 gives {:?}", b2.as_slice());
    let bl = box_arr![doctests_only, doctests_only + 1]; ck!(bl.as_slice() == [9usize, 10], "box_arr![doctests_only, doctests_only + 1] with a caller constant named doctests_only = 9 gives {:?}", bl.as_slice());
    }
    Ok(())
}
fn case_hygiene_expr() -> Result<(), String> {
    #[allow(non_upper_case_globals, non_snake_case)] {
    const expr: usize = 9;
    let a = arr![expr; U4]; ck!(a.as_slice() == [9usize; 4], "arr![expr; U4] with a caller constant named expr = 9 gives {:?}", a.as_slice());
    let c = arr![expr; 3]; ck!(c.as_slice() == [9usize; 3], "arr![expr; 3] with a caller constant named expr = 9 gives {:?}", c.as_slice());
    let l = arr![expr, expr + 1]; ck!(l.as_slice() == [9usize, 10], "arr![expr, expr + 1] with a caller constant named expr = 9 gives {:?}", l.as_slice());
    let b = box_arr![expr; U4]; ck!(b.as_slice() == [9usize; 4], "box_arr![expr; U4] with a caller constant named expr = 9 gives {:?}", b.as_slice());
    let b2 = box_arr![expr; 3]; ck!(b2.as_slice() == [9usize; 3], "box_arr![expr; 3] with a caller constant named expr = 9 gives {:?}", b2.as_slice());
    let bl = box_arr![expr, expr + 1]; ck!(bl.as_slice() == [9usize, 10], "box_arr![expr, expr + 1] with a caller constant named expr = 9 gives {:?}", bl.as_slice());
    }
    Ok(())
}
fn case_hygiene_feature() -> Result<(), String> {
    #[allow(non_upper_case_globals, non_snake_case)] {
    const feature: usize = 9;
    let a = arr![feature; U4]; ck!(a.as_slice() == [9usize; 4], "arr![feature; U4] with a caller constant named feature = 9 gives {:?}", a.as_slice());
    let c = arr![feature; 3]; ck!(c.as_slice() == [9usize; 3], "arr![feature; 3] with a caller constant named feature = 9 gives {:?}", c.as_slice());
    let l = arr![feature, feature + 1]; ck!(l.as_slice() == [9usize, 10], "arr![feature, feature + 1] with a caller constant named feature = 9 gives {:?}", l.as_slice());
    let b = box_arr![feature; U4]; ck!(b.as_slice() == [9usize; 4], "box_arr![feature; U4] with a caller constant named feature = 9 gives {:?}", b.as_slice());
    let b2 = box_arr![feature; 3]; ck!(b2.as_slice() == [9usize; 3], "box_arr![feature; 3] with a caller constant named feature = 9 gives {:?}", b2.as_slice());
    let bl = box_arr![feature, feature + 1]; ck!(bl.as_slice() == [9usize, 10], "box_arr![feature, feature + 1] with a caller constant named feature = 9 gives {:?}", bl.as_slice());
    }
    Ok(())
}
fn case_hygiene_from_array() -> Result<(), String> {
    #[allow(non_upper_case_globals, non_snake_case)] {
    const from_array: usize = 9;
    let a = arr![from_array; U4]; ck!(a.as_slice() == [9usize; 4], "arr![from_array; U4] with a caller constant named from_array = 9 gives {:?}", a.as_slice());
    let c = arr![from_array; 3]; ck!(c.as_slice() == [9usize; 3], "arr![from_array; 3] with a caller constant named from_array = 9 gives {:?}", c.as_slice());
    let l = arr![from_array, from_array + 1]; ck!(l.as_slice() == [9usize, 10], "arr![from_array, from_array + 1] with a caller constant named from_array = 9 gives {:?}", l.as_slice());
    let b = box_arr![from_array; U4]; ck!(b.as_slice() == [9usize; 4], "box_arr![from_array; U4] with a caller constant named from_array = 9 gives {:?}", b.as_slice());
    let b2 = box_arr![from_array; 3]; ck!(b2.as_slice() == [9usize; 3], "box_arr![from_array; 3] with a caller constant named from_array = 9 gives {:?}", b2.as_slice());
    let bl = box_arr![from_array, from_array + 1]; ck!(bl.as_slice() == [9usize, 10], "box_arr![from_array, from_array + 1] with a caller constant named from_array = 9 gives {:?}", bl.as_slice());
    }
    Ok(())
}
fn case_hygiene_from_raw() -> Result<(), String> {
    #[allow(non_upper_case_globals, non_snake_case)] {
    const from_raw: usize = 9;
    let a = arr![from_raw; U4]; ck!(a.as_slice() == [9usize; 4], "arr![from_raw; U4] with a caller constant named from_raw = 9 gives {:?}", a.as_slice());
    let c = arr![from_raw; 3]; ck!(c.as_slice() == [9usize; 3], "arr![from_raw; 3] with a caller constant named from_raw = 9 gives {:?}", c.as_slice());
    let l = arr![from_raw, from_raw + 1]; ck!(l.as_slice() == [9usize, 10], "arr![from_raw, from_raw + 1] with a caller constant named from_raw = 9 gives {:?}", l.as_slice());
    let b = box_arr![from_raw; U4]; ck!(b.as_slice() == [9usize; 4], "box_arr![from_raw; U4] with a caller constant named from_raw = 9 gives {:?}", b.as_slice());
    let b2 = box_arr![from_raw; 3]; ck!(b2.as_slice() == [9usize; 3], "box_arr![from_raw; 3] with a caller constant named from_raw = 9 gives {:?}", b2.as_slice());
    let bl = box_arr![from_raw, from_raw + 1]; ck!(bl.as_slice() == [9usize, 10], "box_arr![from_raw, from_raw + 1] with a caller constant named from_raw = 9 gives {:?}", bl.as_slice());
    }
    Ok(())
}
fn case_hygiene_hidden() -> Result<(), String> {
    #[allow(non_upper_case_globals, non_snake_case)] {
    const hidden: usize = 9;
    let a = arr![hidden; U4]; ck!(a.as_slice() == [9usize; 4], "arr![hidden; U4] with a caller constant named hidden = 9 gives {:?}", a.as_slice());
    let c = arr![hidden; 3]; ck!(c.as_slice() == [9usize; 3], "arr![hidden; 3] with a caller constant named hidden = 9 gives {:?}", c.as_slice());
    let l = arr![hidden, hidden + 1]; ck!(l.as_slice() == [9usize, 10], "arr![hidden, hidden + 1] with a caller constant named hidden = 9 gives {:?}", l.as_slice());
    let b = box_arr![hidden; U4]; ck!(b.as_slice() == [9usize; 4], "box_arr![hidden; U4] with a caller constant named hidden = 9 gives {:?}", b.as_slice());
    let b2 = box_arr![hidden; 3]; ck!(b2.as_slice() == [9usize; 3], "box_arr![hidden; 3] with a caller constant named hidden = 9 gives {:?}", b2.as_slice());
    let bl = box_arr![hidden, hidden + 1]; ck!(bl.as_slice() == [9usize, 10], "box_arr![hidden, hidden + 1] with a caller constant named hidden = 9 gives {:?}", bl.as_slice());
    }
    Ok(())
}
fn case_hygiene_inline() -> Result<(), String> {
    #[allow(non_upper_case_globals, non_snake_case)] {
    const inline: usize = 9;
    let a = arr![inline; U4]; ck!(a.as_slice() == [9usize; 4], "arr![inline; U4] with a caller constant named inline = 9 gives {:?}", a.as_slice());
    let c = arr![inline; 3]; ck!(c.as_slice() == [9usize; 3], "arr![inline; 3] with a caller constant named inline = 9 gives {:?}", c.as_slice());
    let l = arr![inline, inline + 1]; ck!(l.as_slice() == [9usize, 10], "arr![inline, inline + 1] with a caller constant named inline = 9 gives {:?}", l.as_slice());
    let b = box_arr![inline; U4]; ck!(b.as_slice() == [9usize; 4], "box_arr![inline; U4] with a caller constant named inline = 9 gives {:?}", b.as_slice());
    let b2 = box_arr![inline; 3]; ck!(b2.as_slice() == [9usize; 3], "box_arr![inline; 3] with a caller constant named inline = 9 gives {:?}", b2.as_slice());
    let bl = box_arr![inline, inline + 1]; ck!(bl.as_slice() == [9usize, 10], "box_arr![inline, inline + 1] with a caller constant named inline = 9 gives {:?}", bl.as_slice());
    }
    Ok(())
}
fn case_hygiene_into_raw() -> Result<(), String> {
    #[allow(non_upper_case_globals, non_snake_case)] {
    const into_raw: usize = 9;
    let a = arr![into_raw; U4]; ck!(a.as_slice() == [9usize; 4], "arr![into_raw; U4] with a caller constant named into_raw = 9 gives {:?}", a.as_slice());
    let c = arr![into_raw; 3]; ck!(c.as_slice() == [9usize; 3], "arr![into_raw; 3] with a caller constant named into_raw = 9 gives {:?}", c.as_slice());
    let l = arr![into_raw, into_raw + 1]; ck!(l.as_slice() == [9usize, 10], "arr![into_raw, into_raw + 1] with a caller constant named into_raw = 9 gives {:?}", l.as_slice());
    let b = box_arr![into_raw; U4]; ck!(b.as_slice() == [9usize; 4], "box_arr![into_raw; U4] with a caller constant named into_raw = 9 gives {:?}", b.as_slice());
    let b2 = box_arr![into_raw; 3]; ck!(b2.as_slice() == [9usize; 3], "box_arr![into_raw; 3] with a caller constant named into_raw = 9 gives {:?}", b2.as_slice());
    let bl = box_arr![into_raw, into_raw + 1]; ck!(bl.as_slice() == [9usize, 10], "box_arr![into_raw, into_raw + 1] with a caller constant named into_raw = 9 gives {:?}", bl.as_slice());
    }
    Ok(())
}
fn case_hygiene_macro_export() -> Result<(), String> {
    #[allow(non_upper_case_globals, non_snake_case)] {
    const macro_export: usize = 9;
    let a = arr![macro_export; U4]; ck!(a.as_slice() == [9usize; 4], "arr![macro_export; U4] with a caller constant named macro_export = 9 gives {:?}", a.as_slice());
    let c = arr![macro_export; 3]; ck!(c.as_slice() == [9usize; 3], "arr![macro_export; 3] with a caller constant named macro_export = 9 gives {:?}", c.as_slice());
    let l = arr![macro_export, macro_export + 1]; ck!(l.as_slice() == [9usize, 10], "arr![macro_export, macro_export + 1] with a caller constant named macro_export = 9 gives {:?}", l.as_slice());
    let b = box_arr![macro_export; U4]; ck!(b.as_slice() == [9usize; 4], "box_arr![macro_export; U4] with a caller constant named macro_export = 9 gives {:?}", b.as_slice());
    let b2 = box_arr![macro_export; 3]; ck!(b2.as_slice() == [9usize; 3], "box_arr![macro_export; 3] with a caller constant named macro_export = 9 gives {:?}", b2.as_slice());
    let bl = box_arr![macro_export, macro_export + 1]; ck!(bl.as_slice() == [9usize, 10], "box_arr![macro_export, macro_export + 1] with a caller constant named macro_export = 9 gives {:?}", bl.as_slice());
    }
    Ok(())
}
fn case_hygiene_new() -> Result<(), String> {
    #[allow(non_upper_case_globals, non_snake_case)] {
    const new: usize = 9;
    let a = arr![new; U4]; ck!(a.as_slice() == [9usize; 4], "arr![new; U4] with a caller constant named new = 9 gives {:?}", a.as_slice());
    let c = arr![new; 3]; ck!(c.as_slice() == [9usize; 3], "arr![new; 3] with a caller constant named new = 9 gives {:?}", c.as_slice());
    let l = arr![new, new + 1]; ck!(l.as_slice() == [9usize, 10], "arr![new, new + 1] with a caller constant named new = 9 gives {:?}", l.as_slice());
    let b = box_arr![new; U4]; ck!(b.as_slice() == [9usize; 4], "box_arr![new; U4] with a caller constant named new = 9 gives {:?}", b.as_slice());
    let b2 = box_arr![new; 3]; ck!(b2.as_slice() == [9usize; 3], "box_arr![new; 3] with a caller constant named new = 9 gives {:?}", b2.as_slice());
    let bl = box_arr![new, new + 1]; ck!(bl.as_slice() == [9usize, 10], "box_arr![new, new + 1] with a caller constant named new = 9 gives {:?}", bl.as_slice());
    }
    Ok(())
}
fn case_hygiene_try_from_vec() -> Result<(), String> {
    #[allow(non_upper_case_globals, non_snake_case)] {
    const try_from_vec: usize = 9;
    let a = arr![try_from_vec; U4]; ck!(a.as_slice() == [9usize; 4], "arr![try_from_vec; U4] with a caller constant named try_from_vec = 9 gives {:?}", a.as_slice());
    let c = arr![try_from_vec; 3]; ck!(c.as_slice() == [9usize; 3], "arr![try_from_vec; 3] with a caller constant named try_from_vec = 9 gives {:?}", c.as_slice());
    let l = arr![try_from_vec, try_from_vec + 1]; ck!(l.as_slice() == [9usize, 10], "arr![try_from_vec, try_from_vec + 1] with a caller constant named try_from_vec = 9 gives {:?}", l.as_slice());
    let b = box_arr![try_from_vec; U4]; ck!(b.as_slice() == [9usize; 4], "box_arr![try_from_vec; U4] with a caller constant named try_from_vec = 9 gives {:?}", b.as_slice());
    let b2 = box_arr![try_from_vec; 3]; ck!(b2.as_slice() == [9usize; 3], "box_arr![try_from_vec; 3] with a caller constant named try_from_vec = 9 gives {:?}", b2.as_slice());
    let bl = box_arr![try_from_vec, try_from_vec + 1]; ck!(bl.as_slice() == [9usize, 10], "box_arr![try_from_vec, try_from_vec + 1] with a caller constant named try_from_vec = 9 gives {:?}", bl.as_slice());
    }
    Ok(())
}
fn case_hygiene_ty() -> Result<(), String> {
    #[allow(non_upper_case_globals, non_snake_case)] {
    const ty: usize = 9;
    let a = arr![ty; U4]; ck!(a.as_slice() == [9usize; 4], "arr![ty; U4] with a caller constant named ty = 9 gives {:?}", a.as_slice());
    let c = arr![ty; 3]; ck!(c.as_slice() == [9usize; 3], "arr![ty; 3] with a caller constant named ty = 9 gives {:?}", c.as_slice());
    let l = arr![ty, ty + 1]; ck!(l.as_slice() == [9usize, 10], "arr![ty, ty + 1] with a caller constant named ty = 9 gives {:?}", l.as_slice());
    let b = box_arr![ty; U4]; ck!(b.as_slice() == [9usize; 4], "box_arr![ty; U4] with a caller constant named ty = 9 gives {:?}", b.as_slice());
    let b2 = box_arr![ty; 3]; ck!(b2.as_slice() == [9usize; 3], "box_arr![ty; 3] with a caller constant named ty = 9 gives {:?}", b2.as_slice());
    let bl = box_arr![ty, ty + 1]; ck!(bl.as_slice() == [9usize, 10], "box_arr![ty, ty + 1] with a caller constant named ty = 9 gives {:?}", bl.as_slice());
    }
    Ok(())
}
fn case_hygiene_typenum() -> Result<(), String> {
    #[allow(non_upper_case_globals, non_snake_case)] {
    const typenum: usize = 9;
    let a = arr![typenum; U4]; ck!(a.as_slice() == [9usize; 4], "arr![typenum; U4] with a caller constant named typenum = 9 gives {:?}", a.as_slice());
    let c = arr![typenum; 3]; ck!(c.as_slice() == [9usize; 3], "arr![typenum; 3] with a caller constant named typenum = 9 gives {:?}", c.as_slice());
    let l = arr![typenum, typenum + 1]; ck!(l.as_slice() == [9usize, 10], "arr![typenum, typenum + 1] with a caller constant named typenum = 9 gives {:?}", l.as_slice());
    let b = box_arr![typenum; U4]; ck!(b.as_slice() == [9usize; 4], "box_arr![typenum; U4] with a caller constant named typenum = 9 gives {:?}", b.as_slice());
    let b2 = box_arr![typenum; 3]; ck!(b2.as_slice() == [9usize; 3], "box_arr![typenum; 3] with a caller constant named typenum = 9 gives {:?}", b2.as_slice());
    let bl = box_arr![typenum, typenum + 1]; ck!(bl.as_slice() == [9usize, 10], "box_arr![typenum, typenum + 1] with a caller constant named typenum = 9 gives {:?}", bl.as_slice());
    }
    Ok(())
}
fn case_hygiene_unit() -> Result<(), String> {
    #[allow(non_upper_case_globals, non_snake_case)] {
    const unit: usize = 9;
    let a = arr![unit; U4]; ck!(a.as_slice() == [9usize; 4], "arr![unit; U4] with a caller constant named unit = 9 gives {:?}", a.as_slice());
    let c = arr![unit; 3]; ck!(c.as_slice() == [9usize; 3], "arr![unit; 3] with a caller constant named unit = 9 gives {:?}", c.as_slice());
    let l = arr![unit, unit + 1]; ck!(l.as_slice() == [9usize, 10], "arr![unit, unit + 1] with a caller constant named unit = 9 gives {:?}", l.as_slice());
    let b = box_arr![unit; U4]; ck!(b.as_slice() == [9usize; 4], "box_arr![unit; U4] with a caller constant named unit = 9 gives {:?}", b.as_slice());
    let b2 = box_arr![unit; 3]; ck!(b2.as_slice() == [9usize; 3], "box_arr![unit; 3] with a caller constant named unit = 9 gives {:?}", b2.as_slice());
    let bl = box_arr![unit, unit + 1]; ck!(bl.as_slice() == [9usize, 10], "box_arr![unit, unit + 1] with a caller constant named unit = 9 gives {:?}", bl.as_slice());
    }
    Ok(())
}
fn case_hygiene_unwrap() -> Result<(), String> {
    #[allow(non_upper_case_globals, non_snake_case)] {
    const unwrap: usize = 9;
    let a = arr![unwrap; U4]; ck!(a.as_slice() == [9usize; 4], "arr![unwrap; U4] with a caller constant named unwrap = 9 gives {:?}", a.as_slice());
    let c = arr![unwrap; 3]; ck!(c.as_slice() == [9usize; 3], "arr![unwrap; 3] with a caller constant named unwrap = 9 gives {:?}", c.as_slice());
    let l = arr![unwrap, unwrap + 1]; ck!(l.as_slice() == [9usize, 10], "arr![unwrap, unwrap + 1] with a caller constant named unwrap = 9 gives {:?}", l.as_slice());
    let b = box_arr![unwrap; U4]; ck!(b.as_slice() == [9usize; 4], "box_arr![unwrap; U4] with a caller constant named unwrap = 9 gives {:?}", b.as_slice());
    let b2 = box_arr![unwrap; 3]; ck!(b2.as_slice() == [9usize; 3], "box_arr![unwrap; 3] with a caller constant named unwrap = 9 gives {:?}", b2.as_slice());
    let bl = box_arr![unwrap, unwrap + 1]; ck!(bl.as_slice() == [9usize, 10], "box_arr![unwrap, unwrap + 1] with a caller constant named unwrap = 9 gives {:?}", bl.as_slice());
    }
    Ok(())
}
fn case_hygiene_unwrap_unchecked() -> Result<(), String> {
    #[allow(non_upper_case_globals, non_snake_case)] {
    const unwrap_unchecked: usize = 9;
    let a = arr![unwrap_unchecked; U4]; ck!(a.as_slice() == [9usize; 4], "arr![unwrap_unchecked; U4] with a caller constant named unwrap_unchecked = 9 gives {:?}", a.as_slice());
    let c = arr![unwrap_unchecked; 3]; ck!(c.as_slice() == [9usize; 3], "arr![unwrap_unchecked; 3] with a caller constant named unwrap_unchecked = 9 gives {:?}", c.as_slice());
    let l = arr![unwrap_unchecked, unwrap_unchecked + 1]; ck!(l.as_slice() == [9usize, 10], "arr![unwrap_unchecked, unwrap_unchecked + 1] with a caller constant named unwrap_unchecked = 9 gives {:?}", l.as_slice());
    let b = box_arr![unwrap_unchecked; U4]; ck!(b.as_slice() == [9usize; 4], "box_arr![unwrap_unchecked; U4] with a caller constant named unwrap_unchecked = 9 gives {:?}", b.as_slice());
    let b2 = box_arr![unwrap_unchecked; 3]; ck!(b2.as_slice() == [9usize; 3], "box_arr![unwrap_unchecked; 3] with a caller constant named unwrap_unchecked = 9 gives {:?}", b2.as_slice());
    let bl = box_arr![unwrap_unchecked, unwrap_unchecked + 1]; ck!(bl.as_slice() == [9usize, 10], "box_arr![unwrap_unchecked, unwrap_unchecked + 1] with a caller constant named unwrap_unchecked = 9 gives {:?}", bl.as_slice());
    }
    Ok(())
}
fn case_hygiene_vec() -> Result<(), String> {
    #[allow(non_upper_case_globals, non_snake_case)] {
    const vec: usize = 9;
    let a = arr![vec; U4]; ck!(a.as_slice() == [9usize; 4], "arr![vec; U4] with a caller constant named vec = 9 gives {:?}", a.as_slice());
    let c = arr![vec; 3]; ck!(c.as_slice() == [9usize; 3], "arr![vec; 3] with a caller constant named vec = 9 gives {:?}", c.as_slice());
    let l = arr![vec, vec + 1]; ck!(l.as_slice() == [9usize, 10], "arr![vec, vec + 1] with a caller constant named vec = 9 gives {:?}", l.as_slice());
    let b = box_arr![vec; U4]; ck!(b.as_slice() == [9usize; 4], "box_arr![vec; U4] with a caller constant named vec = 9 gives {:?}", b.as_slice());
    let b2 = box_arr![vec; 3]; ck!(b2.as_slice() == [9usize; 3], "box_arr![vec; 3] with a caller constant named vec = 9 gives {:?}", b2.as_slice());
    let bl = box_arr![vec, vec + 1]; ck!(bl.as_slice() == [9usize, 10], "box_arr![vec, vec + 1] with a caller constant named vec = 9 gives {:?}", bl.as_slice());
    }
    Ok(())
}
fn main() {
    std::panic::set_hook(Box::new(|_| {}));
    let cases: Vec<(&str, fn() -> Result<(), String>)> = vec![
        ("list_0", case_list_0),
        ("list_0_trailing", case_list_0_trailing),
        ("list_noncopy_0", case_list_noncopy_0),
        ("list_const_0", case_list_const_0),
        ("list_1", case_list_1),
        ("list_1_trailing", case_list_1_trailing),
        ("list_noncopy_1", case_list_noncopy_1),
        ("list_const_1", case_list_const_1),
        ("list_2", case_list_2),
        ("list_2_trailing", case_list_2_trailing),
        ("list_noncopy_2", case_list_noncopy_2),
        ("list_const_2", case_list_const_2),
        ("list_3", case_list_3),
        ("list_3_trailing", case_list_3_trailing),
        ("list_noncopy_3", case_list_noncopy_3),
        ("list_const_3", case_list_const_3),
        ("list_4", case_list_4),
        ("list_4_trailing", case_list_4_trailing),
        ("list_noncopy_4", case_list_noncopy_4),
        ("list_const_4", case_list_const_4),
        ("list_5", case_list_5),
        ("list_5_trailing", case_list_5_trailing),
        ("list_noncopy_5", case_list_noncopy_5),
        ("list_const_5", case_list_const_5),
        ("list_6", case_list_6),
        ("list_6_trailing", case_list_6_trailing),
        ("list_noncopy_6", case_list_noncopy_6),
        ("list_const_6", case_list_const_6),
        ("list_7", case_list_7),
        ("list_7_trailing", case_list_7_trailing),
        ("list_noncopy_7", case_list_noncopy_7),
        ("list_const_7", case_list_const_7),
        ("list_8", case_list_8),
        ("list_8_trailing", case_list_8_trailing),
        ("list_noncopy_8", case_list_noncopy_8),
        ("list_const_8", case_list_const_8),
        ("list_9", case_list_9),
        ("list_9_trailing", case_list_9_trailing),
        ("list_noncopy_9", case_list_noncopy_9),
        ("list_const_9", case_list_const_9),
        ("list_10", case_list_10),
        ("list_10_trailing", case_list_10_trailing),
        ("list_noncopy_10", case_list_noncopy_10),
        ("list_const_10", case_list_const_10),
        ("list_11", case_list_11),
        ("list_11_trailing", case_list_11_trailing),
        ("list_noncopy_11", case_list_noncopy_11),
        ("list_const_11", case_list_const_11),
        ("list_12", case_list_12),
        ("list_12_trailing", case_list_12_trailing),
        ("list_noncopy_12", case_list_noncopy_12),
        ("list_const_12", case_list_const_12),
        ("list_13", case_list_13),
        ("list_13_trailing", case_list_13_trailing),
        ("list_noncopy_13", case_list_noncopy_13),
        ("list_const_13", case_list_const_13),
        ("list_14", case_list_14),
        ("list_14_trailing", case_list_14_trailing),
        ("list_noncopy_14", case_list_noncopy_14),
        ("list_const_14", case_list_const_14),
        ("list_15", case_list_15),
        ("list_15_trailing", case_list_15_trailing),
        ("list_noncopy_15", case_list_noncopy_15),
        ("list_const_15", case_list_const_15),
        ("list_16", case_list_16),
        ("list_16_trailing", case_list_16_trailing),
        ("list_noncopy_16", case_list_noncopy_16),
        ("list_const_16", case_list_const_16),
        ("list_17", case_list_17),
        ("list_17_trailing", case_list_17_trailing),
        ("list_noncopy_17", case_list_noncopy_17),
        ("list_const_17", case_list_const_17),
        ("list_18", case_list_18),
        ("list_18_trailing", case_list_18_trailing),
        ("list_noncopy_18", case_list_noncopy_18),
        ("list_const_18", case_list_const_18),
        ("list_19", case_list_19),
        ("list_19_trailing", case_list_19_trailing),
        ("list_noncopy_19", case_list_noncopy_19),
        ("list_const_19", case_list_const_19),
        ("list_20", case_list_20),
        ("list_20_trailing", case_list_20_trailing),
        ("list_noncopy_20", case_list_noncopy_20),
        ("list_const_20", case_list_const_20),
        ("list_21", case_list_21),
        ("list_21_trailing", case_list_21_trailing),
        ("list_noncopy_21", case_list_noncopy_21),
        ("list_const_21", case_list_const_21),
        ("list_22", case_list_22),
        ("list_22_trailing", case_list_22_trailing),
        ("list_noncopy_22", case_list_noncopy_22),
        ("list_const_22", case_list_const_22),
        ("list_23", case_list_23),
        ("list_23_trailing", case_list_23_trailing),
        ("list_noncopy_23", case_list_noncopy_23),
        ("list_const_23", case_list_const_23),
        ("list_24", case_list_24),
        ("list_24_trailing", case_list_24_trailing),
        ("list_noncopy_24", case_list_noncopy_24),
        ("list_const_24", case_list_const_24),
        ("list_25", case_list_25),
        ("list_25_trailing", case_list_25_trailing),
        ("list_noncopy_25", case_list_noncopy_25),
        ("list_const_25", case_list_const_25),
        ("list_26", case_list_26),
        ("list_26_trailing", case_list_26_trailing),
        ("list_noncopy_26", case_list_noncopy_26),
        ("list_const_26", case_list_const_26),
        ("list_27", case_list_27),
        ("list_27_trailing", case_list_27_trailing),
        ("list_noncopy_27", case_list_noncopy_27),
        ("list_const_27", case_list_const_27),
        ("list_28", case_list_28),
        ("list_28_trailing", case_list_28_trailing),
        ("list_noncopy_28", case_list_noncopy_28),
        ("list_const_28", case_list_const_28),
        ("list_29", case_list_29),
        ("list_29_trailing", case_list_29_trailing),
        ("list_noncopy_29", case_list_noncopy_29),
        ("list_const_29", case_list_const_29),
        ("list_30", case_list_30),
        ("list_30_trailing", case_list_30_trailing),
        ("list_noncopy_30", case_list_noncopy_30),
        ("list_const_30", case_list_const_30),
        ("list_31", case_list_31),
        ("list_31_trailing", case_list_31_trailing),
        ("list_noncopy_31", case_list_noncopy_31),
        ("list_const_31", case_list_const_31),
        ("list_32", case_list_32),
        ("list_32_trailing", case_list_32_trailing),
        ("list_noncopy_32", case_list_noncopy_32),
        ("list_const_32", case_list_const_32),
        ("list_33", case_list_33),
        ("list_33_trailing", case_list_33_trailing),
        ("list_noncopy_33", case_list_noncopy_33),
        ("list_const_33", case_list_const_33),
        ("list_34", case_list_34),
        ("list_34_trailing", case_list_34_trailing),
        ("list_const_34", case_list_const_34),
        ("list_35", case_list_35),
        ("list_35_trailing", case_list_35_trailing),
        ("list_const_35", case_list_const_35),
        ("list_36", case_list_36),
        ("list_36_trailing", case_list_36_trailing),
        ("list_const_36", case_list_const_36),
        ("list_37", case_list_37),
        ("list_37_trailing", case_list_37_trailing),
        ("list_const_37", case_list_const_37),
        ("list_38", case_list_38),
        ("list_38_trailing", case_list_38_trailing),
        ("list_const_38", case_list_const_38),
        ("list_39", case_list_39),
        ("list_39_trailing", case_list_39_trailing),
        ("list_const_39", case_list_const_39),
        ("list_40", case_list_40),
        ("list_40_trailing", case_list_40_trailing),
        ("list_const_40", case_list_const_40),
        ("list_41", case_list_41),
        ("list_41_trailing", case_list_41_trailing),
        ("list_const_41", case_list_const_41),
        ("list_42", case_list_42),
        ("list_42_trailing", case_list_42_trailing),
        ("list_const_42", case_list_const_42),
        ("list_43", case_list_43),
        ("list_43_trailing", case_list_43_trailing),
        ("list_const_43", case_list_const_43),
        ("list_44", case_list_44),
        ("list_44_trailing", case_list_44_trailing),
        ("list_const_44", case_list_const_44),
        ("list_45", case_list_45),
        ("list_45_trailing", case_list_45_trailing),
        ("list_const_45", case_list_const_45),
        ("list_46", case_list_46),
        ("list_46_trailing", case_list_46_trailing),
        ("list_const_46", case_list_const_46),
        ("list_47", case_list_47),
        ("list_47_trailing", case_list_47_trailing),
        ("list_const_47", case_list_const_47),
        ("list_48", case_list_48),
        ("list_48_trailing", case_list_48_trailing),
        ("list_const_48", case_list_const_48),
        ("list_49", case_list_49),
        ("list_49_trailing", case_list_49_trailing),
        ("list_const_49", case_list_const_49),
        ("list_50", case_list_50),
        ("list_50_trailing", case_list_50_trailing),
        ("list_const_50", case_list_const_50),
        ("list_51", case_list_51),
        ("list_51_trailing", case_list_51_trailing),
        ("list_const_51", case_list_const_51),
        ("list_52", case_list_52),
        ("list_52_trailing", case_list_52_trailing),
        ("list_const_52", case_list_const_52),
        ("list_53", case_list_53),
        ("list_53_trailing", case_list_53_trailing),
        ("list_const_53", case_list_const_53),
        ("list_54", case_list_54),
        ("list_54_trailing", case_list_54_trailing),
        ("list_const_54", case_list_const_54),
        ("list_55", case_list_55),
        ("list_55_trailing", case_list_55_trailing),
        ("list_const_55", case_list_const_55),
        ("list_56", case_list_56),
        ("list_56_trailing", case_list_56_trailing),
        ("list_const_56", case_list_const_56),
        ("list_57", case_list_57),
        ("list_57_trailing", case_list_57_trailing),
        ("list_const_57", case_list_const_57),
        ("list_58", case_list_58),
        ("list_58_trailing", case_list_58_trailing),
        ("list_const_58", case_list_const_58),
        ("list_59", case_list_59),
        ("list_59_trailing", case_list_59_trailing),
        ("list_const_59", case_list_const_59),
        ("list_60", case_list_60),
        ("list_60_trailing", case_list_60_trailing),
        ("list_const_60", case_list_const_60),
        ("list_61", case_list_61),
        ("list_61_trailing", case_list_61_trailing),
        ("list_const_61", case_list_const_61),
        ("list_62", case_list_62),
        ("list_62_trailing", case_list_62_trailing),
        ("list_const_62", case_list_const_62),
        ("list_63", case_list_63),
        ("list_63_trailing", case_list_63_trailing),
        ("list_const_63", case_list_const_63),
        ("list_64", case_list_64),
        ("list_64_trailing", case_list_64_trailing),
        ("list_noncopy_64", case_list_noncopy_64),
        ("list_const_64", case_list_const_64),
        ("list_100", case_list_100),
        ("list_100_trailing", case_list_100_trailing),
        ("list_128", case_list_128),
        ("list_128_trailing", case_list_128_trailing),
        ("list_255", case_list_255),
        ("list_255_trailing", case_list_255_trailing),
        ("list_256", case_list_256),
        ("list_256_trailing", case_list_256_trailing),
        ("list_noncopy_256", case_list_noncopy_256),
        ("list_const_256", case_list_const_256),
        ("repeat_0", case_repeat_0),
        ("repeat_1", case_repeat_1),
        ("repeat_2", case_repeat_2),
        ("repeat_3", case_repeat_3),
        ("repeat_5", case_repeat_5),
        ("repeat_7", case_repeat_7),
        ("repeat_8", case_repeat_8),
        ("repeat_15", case_repeat_15),
        ("repeat_16", case_repeat_16),
        ("repeat_17", case_repeat_17),
        ("repeat_31", case_repeat_31),
        ("repeat_32", case_repeat_32),
        ("repeat_33", case_repeat_33),
        ("repeat_64", case_repeat_64),
        ("repeat_100", case_repeat_100),
        ("repeat_255", case_repeat_255),
        ("repeat_256", case_repeat_256),
        ("repeat_1000", case_repeat_1000),
        ("repeat_1024", case_repeat_1024),
        ("repeat_box_clone_0", case_repeat_box_clone_0),
        ("repeat_box_clone_1", case_repeat_box_clone_1),
        ("repeat_box_clone_2", case_repeat_box_clone_2),
        ("repeat_box_clone_5", case_repeat_box_clone_5),
        ("repeat_noncopy_0", case_repeat_noncopy_0),
        ("repeat_noncopy_1", case_repeat_noncopy_1),
        ("misc", case_misc),
        ("cfg_elements_first", case_cfg_elements_first),
        ("cfg_elements_middle", case_cfg_elements_middle),
        ("cfg_elements_last", case_cfg_elements_last),
        ("cfg_elements_all", case_cfg_elements_all),
        ("cfg_elements_enabled", case_cfg_elements_enabled),
        ("cfg_elements_two", case_cfg_elements_two),
        ("temporaries", case_temporaries),
        ("inference", case_inference),
        ("hygiene_ArrayLength", case_hygiene_ArrayLength),
        ("hygiene_Box", case_hygiene_Box),
        ("hygiene_Const", case_hygiene_Const),
        ("hygiene_DocTests", case_hygiene_DocTests),
        ("hygiene_GenericArray", case_hygiene_GenericArray),
        ("hygiene_IntoArrayLength", case_hygiene_IntoArrayLength),
        ("hygiene_USIZE", case_hygiene_USIZE),
        ("hygiene_Unsigned", case_hygiene_Unsigned),
        ("hygiene_Vec", case_hygiene_Vec),
        ("hygiene__empty", case_hygiene__empty),
        ("hygiene_alloc", case_hygiene_alloc),
        ("hygiene_alloc_helper", case_hygiene_alloc_helper),
        ("hygiene_allow", case_hygiene_allow),
        ("hygiene_always", case_hygiene_always),
        ("hygiene_array", case_hygiene_array),
        ("hygiene_box_arr_helper", case_hygiene_box_arr_helper),
        ("hygiene_boxed", case_hygiene_boxed),
        ("hygiene_cfg", case_hygiene_cfg),
        ("hygiene_const_transmute", case_hygiene_const_transmute),
        ("hygiene_dead_code", case_hygiene_dead_code),
        ("hygiene_doc", case_hygiene_doc),
        ("hygiene_doctests_only", case_hygiene_doctests_only),
        ("hygiene_expr", case_hygiene_expr),
        ("hygiene_feature", case_hygiene_feature),
        ("hygiene_from_array", case_hygiene_from_array),
        ("hygiene_from_raw", case_hygiene_from_raw),
        ("hygiene_hidden", case_hygiene_hidden),
        ("hygiene_inline", case_hygiene_inline),
        ("hygiene_into_raw", case_hygiene_into_raw),
        ("hygiene_macro_export", case_hygiene_macro_export),
        ("hygiene_new", case_hygiene_new),
        ("hygiene_try_from_vec", case_hygiene_try_from_vec),
        ("hygiene_ty", case_hygiene_ty),
        ("hygiene_typenum", case_hygiene_typenum),
        ("hygiene_unit", case_hygiene_unit),
        ("hygiene_unwrap", case_hygiene_unwrap),
        ("hygiene_unwrap_unchecked", case_hygiene_unwrap_unchecked),
        ("hygiene_vec", case_hygiene_vec),
    ];
    let from: usize = std::env::args().nth(1).and_then(|s| s.parse().ok()).unwrap_or(0);
    use std::io::Write;
    let mut bad = 0; for (k, (n, f)) in cases.iter().enumerate().skip(from) { println!("START {k} {n}"); std::io::stdout().flush().ok(); match std::panic::catch_unwind(f) { Ok(Ok(())) => {}, Ok(Err(e)) => { bad += 1; println!("FAIL {n}: {e}"); }, Err(_) => { bad += 1; println!("FAIL {n}: panicked"); } } }
    println!("RAN {} FAILED {}", cases.len() - from.min(cases.len()), bad);
}
