#![allow(unused)]
use generic_array::typenum::*;
use generic_array::GenericArray as GA;
pub const F_FROM_SLICE_SHORT: usize = GA::<u8, U3>::from_slice(&[1u8, 2]).as_slice().len();
pub const F_FROM_SLICE_LONG: usize = GA::<u8, U3>::from_slice(&[1u8, 2, 3, 4]).as_slice().len();
pub const F_FROM_SLICE_U0_NONEMPTY: usize = GA::<u8, U0>::from_slice(&[1u8]).as_slice().len();
pub const F_FROM_SLICE_ZST_LONG: usize = GA::<(), U2>::from_slice(&[(), (), ()]).as_slice().len();
pub const F_FROM_MUT_SLICE_SHORT: usize = { let mut b = [1u8, 2]; GA::<u8, U3>::from_mut_slice(&mut b).as_slice().len() };
pub const F_FROM_MUT_SLICE_LONG: usize = { let mut b = [1u8, 2, 3, 4]; GA::<u8, U3>::from_mut_slice(&mut b).as_slice().len() };
pub const F_FROM_MUT_SLICE_ZST_SHORT: usize = { let mut b = [(), ()]; GA::<(), U3>::from_mut_slice(&mut b).as_slice().len() };
pub const F_CHUNKS_U0_NONEMPTY: usize = GA::<u8, U0>::chunks_from_slice(&[1u8]).1.len();
pub const F_CHUNKS_MUT_U0_NONEMPTY: usize = { let mut b = [1u8, 2]; GA::<u8, U0>::chunks_from_slice_mut(&mut b).1.len() };
pub const F_CHUNKS_U0_ZST_NONEMPTY: usize = GA::<(), U0>::chunks_from_slice(&[()]).1.len();
pub const F_CONST_TRANSMUTE_SIZE_MISMATCH: usize = unsafe { generic_array::const_transmute::<[u8; 3], u32>([1, 2, 3]) as usize };
pub const F_CONST_TRANSMUTE_SOURCE_LARGER: usize = unsafe { generic_array::const_transmute::<[u8; 5], u32>([1, 2, 3, 4, 5]) as usize };
pub const F_CONST_TRANSMUTE_ARRAY_TO_SHORTER_NATIVE: usize = unsafe { generic_array::const_transmute::<GA<u8, U3>, [u8; 2]>(GA::<u8, U3>::from_array([1, 2, 3]))[0] as usize };
pub const F_TRY_FROM_SLICE_UNWRAP_ERR: usize = match GA::<u8, U3>::try_from_slice(&[1u8, 2]) { Ok(a) => a.as_slice().len(), Err(_) => panic!("LengthError as expected") };
