"""C01 — memory layout identical to [T; N] for every element layout and length.

The enumerated space is (element layout x length); the executor is rustc's layout computation on the real type
definitions: generated `static TABLE` entries hold size_of / align_of of GenericArray<L, Un>, of L and of [L; n],
so no value of the (possibly 2^60-byte) type is ever created.  A second generated part builds real (zeroed,
heap-allocated) values for small and boundary lengths and walks the element addresses through the slice view.
"""
import json, os, re, subprocess, time, shutil, glob
from concurrent.futures import ThreadPoolExecutor
import vdriver
from vdriver import Machinery, BASE, REPO, NCPU, env_base

OBJ_BOUND = 1 << 61


def named_lengths():
    pats = glob.glob(os.path.expanduser('~/.cargo/registry/src/*/typenum-*/src/gen/consts.rs'))
    lock = open(os.path.join(REPO, 'Cargo.lock')).read()
    m = re.search(r'name = "typenum"\nversion = "([^"]+)"', lock)
    ver = m.group(1) if m else ''
    pats = [p for p in pats if f'typenum-{ver}/' in p] or pats
    if not pats:
        raise Machinery('typenum sources not found in the cargo registry')
    ns = sorted({int(x) for x in re.findall(r'pub type U(\d+) ', open(pats[0]).read())})
    return ns


def uint_type(n):
    """typenum's nested binary type for n, written out (for lengths typenum does not name)"""
    if n == 0:
        return 'UTerm'
    bits = bin(n)[2:]
    t = 'UTerm'
    for b in bits:
        t = f'UInt<{t}, B{b}>'
    return t


def deep_lengths():
    out = []
    for d in range(11, 63):
        alt1 = int(('10' * 40)[:d], 2)
        alt2 = int(('1101' * 20)[:d], 2)
        for n in {1 << d, (1 << d) - 1, (1 << d) + 1, alt1, alt2}:
            out.append(n)
    return sorted(set(out))


def layouts():
    """(id, definition text or None, type expression, size, align)"""
    L = []
    for a in (1, 2, 4, 8, 16, 32, 64):
        for s in range(0, 65):
            if s % a:
                continue
            name = f'L{a}_{s}'
            L.append((name, f'#[derive(Clone, Copy)] #[repr(C, align({a}))] pub struct {name}([u8; {s}]);', name, s, a, 'grid'))
    named = [
        ('T_u8_u16', None, '(u8, u16)'), ('T_u8_u64_u8', None, '(u8, u64, u8)'), ('T_u16_u8', None, '(u16, u8)'), ('T_unit', None, '()'), ('T_u128', None, 'u128'),
        ('Packed41', '#[derive(Clone, Copy)] #[repr(C, packed)] pub struct Packed41 { a: u8, b: u64, c: [u32; 8] }', 'Packed41'),
        ('Packed3', '#[derive(Clone, Copy)] #[repr(C, packed)] pub struct Packed3(u8, u16);', 'Packed3'),
        ('Packed2_6', '#[derive(Clone, Copy)] #[repr(C, packed(2))] pub struct Packed2_6(u8, u32);', 'Packed2_6'),
        ('Z_u64_0', None, '[u64; 0]'), ('Z_align64', '#[derive(Clone, Copy)] #[repr(align(64))] pub struct ZAlign64;', 'ZAlign64'), ('Z_phantom', None, 'core::marker::PhantomData<u64>'),
        ('MU_u8_u16', None, 'core::mem::MaybeUninit<(u8, u16)>'), ('MU_u64', None, 'core::mem::MaybeUninit<u64>'), ('MD_u16_u8', None, 'core::mem::ManuallyDrop<(u16, u8)>'),
        ('MU_L16_48', None, 'core::mem::MaybeUninit<L16_48>'), ('MU_Z', None, 'core::mem::MaybeUninit<ZAlign64>'),
        ('GA_u8_3', None, 'GenericArray<u8, U3>'), ('GA_u32_0', None, 'GenericArray<u32, U0>'), ('GA_p_5', None, 'GenericArray<(u8, u16), U5>'), ('GA_L8_24_7', None, 'GenericArray<L8_24, U7>'),
        ('Opt_ref', None, "Option<&'static u8>"), ('F64', None, 'f64'), ('Str', None, "&'static str"),
    ]
    for nm in named:
        L.append((nm[0], nm[1], nm[2], None, None, 'named'))
    return L


NAMED_SIZE = {'T_u8_u16': 4, 'T_u8_u64_u8': 24, 'T_u16_u8': 4, 'T_unit': 1, 'T_u128': 16, 'Packed41': 41, 'Packed3': 3, 'Packed2_6': 6, 'Z_u64_0': 1, 'Z_align64': 1, 'Z_phantom': 1,
              'MU_u8_u16': 4, 'MU_u64': 8, 'MD_u16_u8': 4, 'MU_L16_48': 48, 'MU_Z': 1, 'GA_u8_3': 3, 'GA_u32_0': 1, 'GA_p_5': 20, 'GA_L8_24_7': 168, 'Opt_ref': 8, 'F64': 8, 'Str': 16}


def size_upper(l):
    # conservative byte size used only to skip pairs whose array would exceed rustc's object-size bound
    if l[3] is not None:
        return max(l[3], 1)
    return NAMED_SIZE.get(l[0], 256)


def write_table_crate(dirp, name, lays, pairs, walk_pairs):
    os.makedirs(os.path.join(dirp, 'src'), exist_ok=True)
    with open(os.path.join(dirp, 'Cargo.toml'), 'w') as f:
        f.write(f'[package]\nname = "{name}"\nversion = "0.0.0"\nedition = "2021"\n\n[dependencies]\ngeneric-array = {{ path = "{REPO}", features = ["alloc"] }}\n\n'
                )
    shutil.copy(os.path.join(REPO, 'Cargo.lock'), os.path.join(dirp, 'Cargo.lock'))
    out = ['#![allow(unused, dead_code, non_camel_case_types, clippy::all)]', '#![recursion_limit = "512"]',
           'use core::mem::{align_of, size_of};', 'use generic_array::typenum::*;', 'use generic_array::{ArrayLength, GenericArray};']
    alldefs = {l[0]: l for l in layouts()}
    need = set(l[0] for l in lays)
    # definitions referenced by named shapes
    for l in layouts():
        if l[1] and (l[0] in need or l[0] in ('L16_48', 'L8_24', 'ZAlign64', 'Z_align64')):
            out.append(l[1])
    out.append('/// (layout index, n, size_of GA, align_of GA, size_of T, align_of T, size_of [T; n])')
    out.append(f'static TABLE: [(u32, u64, u64, u64, u64, u64, u64); {len(pairs)}] = [')
    lidx = {l[0]: i for i, l in enumerate(lays)}
    for lname, n, nty in pairs:
        t = alldefs[lname][2]
        out.append(f'    ({lidx[lname]}, {n}, size_of::<GenericArray<{t}, {nty}>>() as u64, align_of::<GenericArray<{t}, {nty}>>() as u64, size_of::<{t}>() as u64, align_of::<{t}>() as u64, size_of::<[{t}; {n}]>() as u64),')
    out.append('];')
    out.append('static NAMES: &[&str] = &[' + ', '.join(f'"{l[0]}"' for l in lays) + '];')
    out.append('''
/// Build a real (zeroed, heap-allocated) array and walk the element addresses through the slice view.
fn walk<T, N: ArrayLength>(name: &str, bad: &mut usize) {
    let n = N::USIZE;
    // the array sits inside a larger heap block after a non-zero-sized field, so that even an array of zero-sized
    // elements has a real (non-dangling) address
    #[repr(C)]
    struct Holder<A> { pad: [u64; 3], arr: A, tail: u8 }
    let b: Box<core::mem::MaybeUninit<Holder<GenericArray<T, N>>>> = Box::new_zeroed();
    // only addresses and the length are inspected: the elements themselves are never read
    let mut b = b;
    let base = unsafe { &(*b.as_ptr()).arr } as *const GenericArray<T, N> as usize;
    // every way of viewing the array as a slice starts at the array's address and has N elements
    {
        let am: &mut GenericArray<T, N> = unsafe { &mut (*b.as_mut_ptr()).arr };
        let mut views: Vec<(&str, usize, usize)> = Vec::new();
        { let v: &mut [T] = am.as_mut_slice(); views.push(("as_mut_slice", v.as_ptr() as usize, v.len())); }
        { let v: &mut [T] = &mut am[..]; views.push(("DerefMut", v.as_ptr() as usize, v.len())); }
        { let v: &mut [T] = core::convert::AsMut::<[T]>::as_mut(am); views.push(("AsMut", v.as_ptr() as usize, v.len())); }
        { let v: &mut [T] = core::borrow::BorrowMut::<[T]>::borrow_mut(am); views.push(("BorrowMut", v.as_ptr() as usize, v.len())); }
        { let v = (&mut *am).into_iter().into_slice(); views.push(("iter_mut", v.as_ptr() as usize, v.len())); }
        let ar: &GenericArray<T, N> = am;
        { let v: &[T] = &ar[..]; views.push(("Deref", v.as_ptr() as usize, v.len())); }
        { let v: &[T] = core::convert::AsRef::<[T]>::as_ref(ar); views.push(("AsRef", v.as_ptr() as usize, v.len())); }
        { let v: &[T] = core::borrow::Borrow::<[T]>::borrow(ar); views.push(("Borrow", v.as_ptr() as usize, v.len())); }
        { let v = ar.into_iter().as_slice(); views.push(("iter", v.as_ptr() as usize, v.len())); }
        for (what, p, l) in views {
            if l != n || p != base {
                *bad += 1; println!("FAIL walk;{name};N={n}: the {what} view is (addr +{}, len {l}), array is (+0, {n})", p.wrapping_sub(base));
                return;
            }
        }
    }
    let arr: &GenericArray<T, N> = unsafe { &(*b.as_ptr()).arr };
    let s: &[T] = arr.as_slice();
    if s.len() != n || s.as_ptr() as usize != base {
        *bad += 1; println!("FAIL walk;{name};N={n}: slice view is (addr +{}, len {}), array is (+0, {n})", (s.as_ptr() as usize).wrapping_sub(base), s.len());
        return;
    }
    let step = if n > 256 { n / 97 + 1 } else { 1 };
    let mut i = 0;
    while i < n {
        let addr = unsafe { s.as_ptr().add(i) } as usize;
        let via_index = &s[i] as *const T as usize;
        if addr != base + i * size_of::<T>() || via_index != addr {
            *bad += 1; println!("FAIL walk;{name};N={n}: element {i} lives at +{}, expected +{}", via_index.wrapping_sub(base), i * size_of::<T>());
            return;
        }
        i += step;
    }
    if n > 0 {
        let last = &s[n - 1] as *const T as usize;
        if last + size_of::<T>() != base + size_of::<GenericArray<T, N>>() {
            *bad += 1; println!("FAIL walk;{name};N={n}: last element ends at +{}, array ends at +{}", last + size_of::<T>() - base, size_of::<GenericArray<T, N>>());
        }
    }
    if base % align_of::<T>() != 0 { *bad += 1; println!("FAIL walk;{name};N={n}: array address not aligned for T"); }
}
''')
    out.append('fn main() {')
    out.append('    let mut bad = 0usize;')
    out.append('''    for &(l, n, sz, al, st, at, snat) in TABLE.iter() {
        let name = NAMES[l as usize];
        if sz != n * st || al != at || sz != snat {
            bad += 1;
            println!("FAIL layout;{name};N={n}: GenericArray has (size {sz}, align {al}); [T; N] has (size {snat}, align {at}); N * size_of::<T>() = {}", n as u128 * st as u128);
        }
    }''')
    out.append('    println!("TABLE-DONE {} {}", TABLE.len(), bad);')
    out.append('    use std::io::Write;')
    for lname, n, nty in walk_pairs:
        t = alldefs[lname][2]
        out.append(f'    println!("WALK walk;{lname};N={n}"); std::io::stdout().flush().ok();')
        out.append(f'    walk::<{t}, {nty}>("{lname}", &mut bad);')
    out.append(f'    println!("PAIRS {{}} WALKS {len(walk_pairs)} BAD {{}}", TABLE.len(), bad);')
    out.append('}')
    open(os.path.join(dirp, 'src', 'main.rs'), 'w').write('\n'.join(out) + '\n')


def run(part, tier):
    t0 = time.time()
    lays = layouts()
    grid = [l for l in lays if l[5] == 'grid']
    named = [l for l in lays if l[5] == 'named']
    ns = named_lengths()
    if tier == 'quick':
        sel = grid[::7] + named
        deep = [n for i, n in enumerate(deep_lengths()) if i % 3 == 0]
        ncr = 8
    else:
        sel = grid + named
        deep = deep_lengths()
        ncr = 16
    pairs = []
    for l in sel:
        su = size_upper(l)
        for n in ns:
            if n * su >= OBJ_BOUND or n >= (1 << 63):
                continue
            pairs.append((l[0], n, f'U{n}'))
    deep_l = [l for l in sel if l[5] == 'named' or l[0] in ('L1_0', 'L1_1', 'L2_6', 'L4_12', 'L8_24', 'L16_48', 'L64_64', 'L32_0')]
    for l in deep_l:
        su = size_upper(l)
        for n in deep:
            if n * su >= OBJ_BOUND:
                continue
            pairs.append((l[0], n, uint_type(n)))
    walk_ns = list(range(0, 65)) + [65, 100, 127, 128, 255, 256, 257, 1000, 1023, 1024]
    walk_l = [l for l in sel if l[0] in ('L1_0', 'L1_1', 'L1_3', 'L2_6', 'L4_4', 'L8_24', 'L16_48', 'L64_64', 'L32_0', 'T_u8_u16', 'T_u8_u64_u8', 'T_unit', 'Z_align64', 'Z_u64_0', 'Packed41', 'Packed3', 'GA_u8_3', 'GA_u32_0', 'MU_u64', 'F64')]
    if tier == 'quick':
        walk_ns = list(range(0, 18)) + [31, 32, 33, 63, 64, 65, 100, 255, 256, 1024]
    walks = [(l[0], n, f'U{n}') for l in walk_l for n in walk_ns]
    # arrays of zero-sized elements cost nothing at any length: lengths around and far beyond 2^32
    huge = [(1 << 32) - 1, 1 << 32, (1 << 32) + 3, (1 << 40) + 1, 1 << 62]
    walks += [(l[0], n, uint_type(n)) for l in walk_l if l[0] in ('T_unit', 'Z_align64', 'Z_u64_0', 'L1_0', 'L32_0', 'GA_u32_0') for n in huge]
    cdir = os.path.join(BASE, 'corpus')
    target = os.path.join(BASE, 'target', 'corpus01')
    os.makedirs(cdir, exist_ok=True)

    ws = os.path.join(cdir, 'c01')
    shutil.rmtree(ws, ignore_errors=True)
    os.makedirs(ws)
    for i in range(ncr):
        write_table_crate(os.path.join(ws, f'c01_{i}'), f'c01_{i}', sel, pairs[i::ncr], walks[i::ncr])
        os.remove(os.path.join(ws, f'c01_{i}', 'Cargo.lock'))
    with open(os.path.join(ws, 'Cargo.toml'), 'w') as f:
        f.write('[workspace]\nresolver = "2"\nmembers = [' + ', '.join(f'"c01_{i}"' for i in range(ncr)) + ']\n\n[profile.dev]\ndebug = false\nincremental = false\nopt-level = 0\ncodegen-units = 4\n')
    shutil.copy(os.path.join(REPO, 'Cargo.lock'), os.path.join(ws, 'Cargo.lock'))
    env = env_base()
    env['CARGO_TARGET_DIR'] = target
    pb = subprocess.run(['cargo', 'build', '--offline', '-q', '--workspace'], cwd=ws, env=env, stdout=subprocess.PIPE, stderr=subprocess.PIPE, text=True)
    if pb.returncode != 0:
        raise Machinery('layout table workspace does not build:\n' + pb.stderr[-3000:])

    def one(i):
        name = f'c01_{i}'
        r = subprocess.run([os.path.join(target, 'debug', name)], capture_output=True, text=True, env=env_base())
        return name, r.stdout, r.stderr

    viols = []
    npairs = nwalks = 0
    with ThreadPoolExecutor(max_workers=min(ncr, NCPU)) as ex:
        for name, outp, err in ex.map(one, range(ncr)):
            if outp is None:
                raise Machinery(f'layout table crate {name} does not build:\n{err}')
            ok = False
            table_done = False
            last_walk = None
            for line in outp.splitlines():
                if line.startswith('FAIL '):
                    body = line[5:]
                    desc, _, what = body.partition(': ')
                    viols.append({'desc': 'C01;' + desc, 'what': what[:500], 'stable': True})
                elif line.startswith('TABLE-DONE '):
                    table_done = True
                    npairs += int(line.split()[1])
                elif line.startswith('WALK '):
                    last_walk = line[5:]
                    nwalks += 1
                elif line.startswith('PAIRS '):
                    ok = True
            if not ok:
                if table_done and last_walk:
                    # the process died inside an address walk (e.g. std's debug precondition check on a misaligned slice view)
                    key = [l.strip() for l in err.splitlines() if 'unsafe precondition' in l or 'panicked at' in l]
                    viols.append({'desc': 'C01;' + last_walk, 'what': 'the process died while viewing this array as a slice: ' + ' | '.join(key[:2])[:400], 'stable': True})
                else:
                    raise Machinery(f'layout table binary {name} gave no summary: {err[-500:]}')
    depth_max = max(n.bit_length() for _, n, _ in pairs)
    samples = [{'layout': a, 'n': n, 'length_type': t[:80]} for a, n, t in (pairs[:2] + pairs[len(pairs) // 2: len(pairs) // 2 + 2] + pairs[-2:])] + [{'walk': a, 'n': n} for a, n, _ in walks[5:7]]
    result = {'evaluations': npairs + nwalks, 'distinct_nontrivial': sum(1 for _, n, _ in pairs if n > 0) + sum(1 for _, n, _ in walks if n > 0),
              'outcomes': {'layout-pairs': npairs, 'address-walks': nwalks}, 'element_layouts': len(sel), 'named_lengths': len(ns), 'deep_pattern_lengths': len(deep), 'max_binary_depth': depth_max,
              'samples': samples, 'wall_s': round(time.time() - t0, 2), 'crates': ncr}
    return {'violations': viols, 'result': result, 'substrates': {'rustc layout computation': subprocess.run(['rustc', '--version'], capture_output=True, text=True).stdout.strip()}}


def replay(part, body):
    res = run(part, 'quick')
    hit = [v for v in res['violations'] if v['desc'] == body['desc']]
    if hit or not res['violations']:
        return hit
    res = run(part, 'thorough')
    return [v for v in res['violations'] if v['desc'] == body['desc']]


def part():
    return {'name': 'layout-table', 'run': run, 'replay': replay}
