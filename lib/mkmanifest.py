#!/usr/bin/env python3
"""Regenerate MANIFEST.json from lib/props.py (single source of truth for what is claimed)."""
import json, os, sys
sys.path.insert(0, os.path.dirname(os.path.abspath(__file__)))
from props import PROPS
root = os.path.dirname(os.path.dirname(os.path.abspath(__file__)))
ids = [json.loads(l)['id'] for l in open(os.path.join(root, 'properties.jsonl'))]
DESIGN = {i: f'DESIGN.md §2 {i}' for i in ids}
checks = []
for i in ids:
    if i not in PROPS:
        continue
    s = PROPS[i]
    checks.append({
        'property_id': i,
        'quick_cmd': f'./check {i} --tier quick',
        'thorough_cmd': f'./check {i} --tier thorough',
        'evidence_file': f'evidence/{i}.json',
        'replay_cmd_template': f'./check {i} --replay {{path}}',
        'engine': '+'.join(p['name'] for p in s['parts']),
        'level_claimed': {'category': s['level'], 'text': s['level_text'] if 'level_text' in s else s['rule'][:600], 'design_ref': DESIGN[i]},
        'level_note': ' | '.join(s['assumptions']),
        'technique': s['technique'],
    })
na = [{'property_id': i, 'reason': 'no check is registered for this property yet in this commit (engine under construction); nothing is claimed'} for i in ids if i not in PROPS]
man = {
    'version': 1,
    'setup_cmd': './setup.sh',
    'hooks': {
        'guard': 'generic_array_verif',
        'enable': 'no source hooks are needed: engines observe the crate through its public API and its own `internals` cargo feature (path dependency on /repo)',
        'baseline_off_cmd': 'cd /repo && cargo test --workspace --no-fail-fast --offline',
        'source_commits': [],
        'add_only': True,
    },
    'engines': [
        {'name': 'harness', 'path': 'harness/', 'serves_properties': sorted(PROPS), 'kind_free_text': 'cargo workspace of Rust exploration engines (bounded exhaustive enumeration / BFS over the real crate)'},
        {'name': 'driver', 'path': 'check + lib/', 'serves_properties': sorted(PROPS), 'kind_free_text': 'python orchestration: build, shard, crash isolation, evidence, known findings'},
    ],
    'checks': checks,
    'notes': 'All checks rebuild the crate from /repo through a cargo path dependency. Exit 0 held / 1 VIOLATION / 2 machinery failure. Known findings: known_findings.jsonl (six genuine defects, all repaired by fix: commits in /repo: 583e954, 9d41e6c, 0468555, 56d4bb7; entries with status fixed suppress nothing). Seeded property-breaking changes: seeded/ (RESULTS.md); property-preserving changes used to look for false alarms: benign/ (RESULTS.md).',
    'not_applicable': na,
}
json.dump(man, open(os.path.join(root, 'MANIFEST.json'), 'w'), indent=1)
print('wrote MANIFEST.json:', len(checks), 'checks', len(na), 'n/a')
