#!/bin/bash
# usage: lib/benignimport.sh <out-dir-of-agent> <worktree> <tag>
# confirms that each patch p*/patch.diff applies to a clean checkout and passes the crate's own suite (default and all
# features), then stores it as /verif/benign/<tag>p<k>/ {patch.diff, notes.md, meta.json}
set -u
OUT=$1; WT=$2; TAG=$3
ROOT=$(cd "$(dirname "$0")/.." && pwd)
export CARGO_NET_OFFLINE=true CARGO_TARGET_DIR=$WT/target CARGO_PROFILE_DEV_DEBUG=0 CARGO_INCREMENTAL=0
for p in "$OUT"/p*/; do
  k=$(basename "$p"); id="$TAG$k"
  git -C "$WT" checkout -q -- . ; git -C "$WT" clean -fdq -e target -e Cargo.lock
  if ! git -C "$WT" apply "$p/patch.diff"; then echo "$id: patch does not apply"; continue; fi
  d=$( (cd "$WT" && cargo test -q 2>&1 | grep -E "^test result" | awk '{s+=$4; f+=$6} END{print s":"f}') )
  a=$( (cd "$WT" && cargo test -q --all-features 2>&1 | grep -E "^test result" | awk '{s+=$4; f+=$6} END{print s":"f}') )
  files=$(git -C "$WT" diff --name-only | tr '\n' ' ')
  git -C "$WT" checkout -q -- .
  echo "$id: default $d all-features $a files: $files"
  if [ "${d#*:}" != "0" ] || [ "${a#*:}" != "0" ] || [ "${d%:*}" -lt 90 ]; then echo "$id: suite does not pass - not imported"; continue; fi
  mkdir -p "$ROOT/benign/$id"
  cp "$p/patch.diff" "$p/notes.md" "$ROOT/benign/$id/"
  python3 - "$ROOT/benign/$id" "$id" "$d" "$a" $files <<'PY'
import json,sys,re
d,i,dd,aa,*files=sys.argv[1:]
title=''
for l in open(d+'/notes.md'):
    l=l.strip().lstrip('#').strip()
    if l: title=l[:160]; break
json.dump({'id':i,'property':'NONE','kind':'property-preserving change','title':title,'files_changed':files,
  'origin':'independent sub-agent given the 20 property statements and a scratch worktree; asked for a behaviour-changing but property-preserving patch',
  'confirmed_by_me':{'suite_default_passed':int(dd.split(':')[0]),'suite_full_passed':int(aa.split(':')[0]),'failed':0}},open(d+'/meta.json','w'),indent=1)
PY
done
