"""Orchestration only: build, shard, collect, classify, write evidence.  No deciding logic here —
the enumeration and the oracles live in the Rust engines and in the program-corpus modules."""
import json, os, re, subprocess, sys, time, hashlib, signal
from concurrent.futures import ThreadPoolExecutor

ROOT = os.path.dirname(os.path.dirname(os.path.abspath(__file__)))
KNOWN = os.environ.get('VERIF_KNOWN_FILE', os.path.join(ROOT, 'known_findings.jsonl'))   # the override exists only to test the mechanism
NCPU = int(os.environ.get('VERIF_JOBS', os.cpu_count() or 4))
# Normal operation: everything lives in /verif and the crate under test is /repo.
# Shadow operation (used only by lib/seedeval.py to evaluate seeded changes in scratch worktrees without touching
# /repo or /verif/evidence): VERIF_REPO names the crate copy, VERIF_SHADOW a scratch directory that receives a copy of
# the harness (with its path dependency rewritten), the build output, the evidence and the replays.
REPO = os.environ.get('VERIF_REPO', '/repo')
SHADOW = os.environ.get('VERIF_SHADOW')
BASE = SHADOW if SHADOW else ROOT
HARNESS = os.path.join(BASE, 'harness')
TARGET = os.path.join(BASE, 'target')
EVID = os.path.join(BASE, 'evidence')
REPLAYS = os.path.join(BASE, 'replays')


def prepare_shadow():
    if not SHADOW:
        return
    os.makedirs(SHADOW, exist_ok=True)
    subprocess.run(['rsync', '-a', '--delete', '--exclude', 'target', os.path.join(ROOT, 'harness') + '/', HARNESS + '/'], check=True)
    for dirpath, _, files in os.walk(HARNESS):
        for f in files:
            if f == 'Cargo.toml':
                pth = os.path.join(dirpath, f)
                t = open(pth).read()
                if '"/repo"' in t:
                    open(pth, 'w').write(t.replace('"/repo"', '"%s"' % REPO))


class Machinery(Exception):
    pass


class BuildBroken(Machinery):
    """an engine (client code of the crate's public API) no longer compiles although the crate itself does"""
    def __init__(self, pkg, errors, text):
        super().__init__(f'build of {pkg} failed:\n{text}')
        self.pkg = pkg
        self.errors = errors   # list of (file, line, code, message)


def env_base():
    e = dict(os.environ)
    e['CARGO_NET_OFFLINE'] = 'true'
    e['CARGO_TARGET_DIR'] = TARGET
    e.setdefault('RUST_MIN_STACK', str(64 * 1024 * 1024))
    e['RUST_BACKTRACE'] = '0'
    return e


def sh(cmd, cwd=None, env=None, timeout=None, check=False):
    p = subprocess.run(cmd, cwd=cwd, env=env, stdout=subprocess.PIPE, stderr=subprocess.PIPE, text=True, timeout=timeout)
    if check and p.returncode != 0:
        raise Machinery(f"command failed ({p.returncode}): {' '.join(cmd)}\n{p.stderr[-4000:]}")
    return p


def cargo_build(pkg, profile='dev', features=None, toolchain=None, extra_env=None, target_dir=None, extra_args=None):
    cmd = ['cargo']
    if toolchain:
        cmd.append('+' + toolchain)
    cmd += ['build', '--offline', '-q', '-p', pkg]
    if profile == 'release':
        cmd.append('--release')
    elif profile != 'dev':
        cmd += ['--profile', profile]
    if features:
        cmd += ['--features', features]
    if extra_args:
        cmd += extra_args
    env = env_base()
    if target_dir:
        env['CARGO_TARGET_DIR'] = target_dir
    if extra_env:
        env.update(extra_env)
    t0 = time.time()
    p = sh(cmd, cwd=HARNESS, env=env)
    if p.returncode != 0:
        # collect the diagnostics in machine-readable form: errors located in an engine's own sources mean that
        # client code written against the crate's public API stopped compiling
        pj = sh(cmd + ['--message-format=json'], cwd=HARNESS, env=env)
        errors = []
        crate_broken = False
        for line in pj.stdout.splitlines():
            try:
                m = json.loads(line)
            except Exception:
                continue
            if m.get('reason') != 'compiler-message' or m['message'].get('level') != 'error' or not m['message'].get('spans'):
                continue
            tname = m.get('target', {}).get('name', '')
            if tname in ('generic_array', 'generic-array'):
                crate_broken = True
            d = m['message']
            sp = next((x for x in d['spans'] if x.get('is_primary')), d['spans'][0])
            errors.append((sp.get('file_name', ''), sp.get('line_start'), (d.get('code') or {}).get('code') or '', d.get('message', '')[:300]))
        if errors and not crate_broken:
            raise BuildBroken(pkg, errors, p.stderr[-3000:])
        raise Machinery(f"build of {pkg} ({profile}) failed:\n{p.stderr[-6000:]}")
    return time.time() - t0


def bin_path(pkg, profile='dev', target_dir=None, triple=None):
    d = target_dir or TARGET
    if triple:
        d = os.path.join(d, triple)
    return os.path.join(d, 'debug' if profile == 'dev' else profile, pkg)


def parse_engine_output(text):
    viols, result = [], None
    last_case = None
    for line in text.splitlines():
        if line.startswith('VIOL '):
            try:
                viols.append(json.loads(line[5:]))
            except Exception:
                viols.append({'desc': '?', 'what': line[5:], 'stable': False})
        elif line.startswith('RESULT '):
            result = json.loads(line[7:])
        elif line.startswith('CASE '):
            last_case = line[5:]
    return viols, result, last_case


def run_engine_once(binary, args, env=None, timeout=None):
    e = env_base()
    if env:
        e.update(env)
    try:
        cmd = (list(binary) if isinstance(binary, (list, tuple)) else [binary]) + args
        p = subprocess.run(cmd, cwd=(HARNESS if isinstance(binary, (list, tuple)) else None), stdout=subprocess.PIPE, stderr=subprocess.PIPE, text=True, env=e, timeout=timeout, errors='replace')
        return p.returncode, p.stdout, p.stderr
    except subprocess.TimeoutExpired as ex:
        return -999, (ex.stdout or b'').decode(errors='replace') if isinstance(ex.stdout, bytes) else (ex.stdout or ''), 'TIMEOUT'


def run_engine(binary, mode, tier, shards=1, env=None, timeout=3600, extra_args=None, label='dev'):
    """Run an engine over `shards` processes.  Returns dict(violations=[...], result=merged, crashes=[...])."""
    extra_args = extra_args or []

    def one(i):
        args = ['--mode', mode, '--tier', tier, '--shard', f'{i}/{shards}'] + extra_args
        rc, out, err = run_engine_once(binary, args, env, timeout)
        viols, result, _ = parse_engine_output(out)
        crash = None
        if rc not in (0, 2) or result is None:
            # the engine died: find the in-flight case by re-running with --trace
            rc2, out2, err2 = run_engine_once(binary, args + ['--trace'], env, timeout)
            v2, r2, last = parse_engine_output(out2)
            if rc2 in (0, 2) and r2 is not None:
                raise Machinery(f"engine {binary} shard {i} died with status {rc} but survived the traced re-run (nondeterministic crash)\n{err[-2000:]}")
            if last is None:
                raise Machinery(f"engine {binary} shard {i} died with status {rc2} outside any case\nstderr: {err2[-3000:]}")
            key = [l.strip() for l in err2.splitlines() if ('Undefined Behavior' in l or 'ERROR: AddressSanitizer' in l or 'SUMMARY: AddressSanitizer' in l or 'panicked at' in l or 'unsafe precondition' in l or 'has overflowed its stack' in l or 'memory allocation of' in l)]
            detail = ' | '.join(key[:3]) if key else err2[-400:].strip()
            crash = {'desc': last, 'what': f"process died while running this case (status {rc2}{', timeout' if rc2 == -999 else ''}): {detail[:700]}", 'stable': True, 'crash': True}
            viols = v2 + [crash]
        elif rc == 2 and not viols:
            raise Machinery(f"engine {binary} shard {i} reported machinery errors: {json.dumps((result or {}).get('machinery_errors'))[:3000]}\n{err[-1500:]}")
        return viols, result, crash

    with ThreadPoolExecutor(max_workers=min(shards, NCPU)) as ex:
        parts = list(ex.map(one, range(shards)))
    viols = [v for p in parts for v in p[0]]
    results = [p[1] for p in parts if p[1] is not None]
    return {'violations': viols, 'result': merge_results(results), 'label': label, 'crashed_shards': sum(1 for p in parts if p[2])}


def merge_results(rs):
    if not rs:
        return {}
    out = {}
    for r in rs:
        for k, v in r.items():
            if k in ('mode',):
                out[k] = v
            elif k in ('shard',):
                continue
            elif isinstance(v, bool):
                out[k] = out.get(k, False) or v
            elif isinstance(v, (int, float)):
                if k in ('max_depth', 'wall_s'):
                    out[k] = max(out.get(k, 0), v)
                else:
                    out[k] = out.get(k, 0) + v
            elif isinstance(v, dict):
                d = out.setdefault(k, {})
                for kk, vv in v.items():
                    if isinstance(vv, (int, float)) and not isinstance(vv, bool) and isinstance(d.get(kk, 0), (int, float)):
                        d[kk] = d.get(kk, 0) + vv
                    else:
                        d[kk] = vv
            elif isinstance(v, list):
                out.setdefault(k, []).extend(v)
            else:
                out[k] = v
    if 'samples' in out:
        out['samples'] = out['samples'][:16]
    return out


def load_known():
    ents = []
    if os.path.exists(KNOWN):
        for line in open(KNOWN):
            line = line.strip()
            if line and not line.startswith('#'):
                ents.append(json.loads(line))
    return ents


def classify(pid, viols):
    """Split violations into (unlisted, known) using known_findings.jsonl ('known' entries only;
    'fixed' entries suppress nothing)."""
    known = [k for k in load_known() if k.get('status') == 'known' and k.get('property') == pid]
    unl, kn = [], {}
    for v in viols:
        hit = None
        for k in known:
            if re.search(k['match'], v.get('desc', '')):
                hit = k
                break
        if hit:
            kn.setdefault(hit['id'], (hit, []))[1].append(v)
        else:
            unl.append(v)
    return unl, kn


def write_replay(pid, part, v):
    os.makedirs(REPLAYS, exist_ok=True)
    h = hashlib.sha1((part.get('name', '') + '|' + v.get('desc', '')).encode()).hexdigest()[:12]
    path = os.path.join(REPLAYS, f'{pid}-{h}.json')
    body = {'property': pid, 'part': part.get('name'), 'desc': v.get('desc'), 'what': v.get('what'), 'substrate': v.get('substrate', 'dev'),
            'how': f'./check {pid} --replay {os.path.relpath(path, ROOT)}'}
    if 'program' in v:
        body['program'] = v['program']
    with open(path, 'w') as f:
        json.dump(body, f, indent=1)
    return path


def main(argv):
    from props import PROPS
    if not argv or argv[0] in ('-h', '--help'):
        print(__doc__)
        print('properties:', ' '.join(sorted(PROPS)))
        return 2
    pid = argv[0]
    tier = os.environ.get('VERIF_TIER', 'quick')
    replay = None
    i = 1
    while i < len(argv):
        if argv[i] == '--tier':
            tier = argv[i + 1]; i += 1
        elif argv[i] == '--replay':
            replay = argv[i + 1]; i += 1
        else:
            print('unknown argument', argv[i]); return 2
        i += 1
    if pid not in PROPS:
        print('unknown property', pid); return 2
    try:
        seed = int(os.environ.get('VERIF_SEED', '0'))
    except ValueError:
        seed = 0
    spec = PROPS[pid]
    t0 = time.time()
    prepare_shadow()
    try:
        if replay:
            return do_replay(pid, spec, replay)
        return do_check(pid, spec, tier, seed, t0)
    except Machinery as m:
        print(f'MACHINERY-FAILURE property={pid}: {m}', file=sys.stderr)
        return 2


def do_replay(pid, spec, path):
    body = json.load(open(path if os.path.isabs(path) else os.path.join(ROOT, path)))
    part = next((p for p in spec['parts'] if p['name'] == body.get('part')), spec['parts'][0])
    try:
        viols = part['replay'](part, body)
    except BuildBroken as bb:
        mine = [e for e in bb.errors if any(e[0].endswith(sfx) for sfx in spec.get('sources', []))]
        if not mine:
            raise
        viols = [{'desc': body.get('desc'), 'what': f'{e[0]}:{e[1]}: {e[2]} {e[3]}'} for e in mine[:3]]
    if viols:
        for v in viols:
            print(f"still violates: {v.get('desc')}: {v.get('what')}")
        print(f'VIOLATION property={pid} replay={path}')
        return 1
    print(f'replay of {body.get("desc")} no longer violates {pid}')
    return 0


def do_check(pid, spec, tier, seed, t0):
    os.makedirs(EVID, exist_ok=True)
    os.makedirs(REPLAYS, exist_ok=True)
    for f in os.listdir(REPLAYS):
        if f.startswith(pid + '-'):
            os.remove(os.path.join(REPLAYS, f))
    all_viols = []
    cov = {'evaluations': 0, 'distinct_nontrivial': 0, 'samples': [], 'parts': {}}
    capped = False
    for part in spec['parts']:
        if tier == 'quick' and part.get('thorough_only'):
            continue
        try:
            res = part['run'](part, tier)   # -> dict(violations, result, substrates)
        except BuildBroken as bb:
            # The engine is a corpus of valid client programs for this property's API.  If the lines that stopped
            # compiling belong to this property's own sources, with a type/trait error, the API the property is
            # about changed shape: a violation.  Anything else (another property's module, other error kinds) stays
            # a machinery failure.
            mine = [e for e in bb.errors if any(e[0].endswith(sfx) for sfx in spec.get('sources', [])) and e[2] in ('E0308', 'E0277', 'E0271', 'E0596', 'E0594', 'E0015')]
            if not mine:
                raise
            res = {'violations': [{'desc': f'{pid};client-code-no-longer-compiles;{os.path.basename(f)}:{ln}', 'what': f'valid client code of this property\'s API ({f}:{ln}) is rejected by the compiler against the crate as built from the working tree: {code} {msg}', 'stable': True, 'substrate': 'build'} for f, ln, code, msg in mine[:5]],
                   'result': {'evaluations': len(mine), 'distinct_nontrivial': len(mine), 'samples': [{'case': 'engine build', 'errors': [list(e) for e in mine[:3]]}], 'outcomes': {'client-code-rejected': len(mine)}}}
        for v in res['violations']:
            v['_part'] = part
        all_viols += res['violations']
        r = res['result']
        cov['evaluations'] += int(r.get('evaluations', 0))
        cov['distinct_nontrivial'] += int(r.get('distinct_nontrivial', 0))
        cov['samples'] += r.get('samples', [])[:8]
        for k in ('states', 'transitions', 'programs'):
            if k in r:
                cov[k] = cov.get(k, 0) + int(r[k])
        if 'max_depth' in r:
            cov['max_depth'] = max(cov.get('max_depth', 0), r['max_depth'])
        capped = capped or bool(r.get('capped'))
        slim = {k: v for k, v in r.items() if k not in ('samples', 'machinery_errors', 'mode')}
        cov['parts'][part['name']] = slim
        if res.get('substrates'):
            cov['parts'][part['name']]['substrates'] = res['substrates']
    cov['rule'] = spec['rule']
    cov['exhaustive'] = bool(spec.get('exhaustive', True)) and not capped
    cov['exhaustive_scope'] = spec.get('exhaustive_scope', '')
    if spec['level'] == 'model_checking':
        cov['traces_validated_against_impl'] = cov.get('transitions', 0)
        cov['traces_note'] = 'the explored transition function is the implementation itself: every transition is a replay of an operation history on the real code'
    cov['samples'] = cov['samples'][:16]
    cov['distinct_outcomes'] = sum(len(p.get('outcomes', {})) for p in cov['parts'].values())

    unl, kn = classify(pid, all_viols)
    for kid, (ent, vs) in sorted(kn.items()):
        print(f"KNOWN-FINDING: property={pid} {ent['what']} [{len(vs)} case(s), e.g. {vs[0].get('desc')}]")
    seen = set()
    rc = 0
    shown = 0
    for v in unl:
        part = v.pop('_part')
        if len(seen) >= 200:
            # enough replay files: further violating cases are counted, not written out
            seen.add('overflow-%d' % len(seen))
            continue
        path = write_replay(pid, part, v)
        if path in seen:
            continue
        seen.add(path)
        rc = 1
        if shown < 25:
            print(f"  violation: {v.get('desc')}\n      {str(v.get('what'))[:600]}")
            print(f'VIOLATION property={pid} replay={os.path.relpath(path, ROOT)}')
            shown += 1
    if len(seen) > shown:
        print(f'  ... and {len(seen) - shown} more violating cases (replay files written)')
    for v in all_viols:
        v.pop('_part', None)
    # vacuity guards (machinery failures, never verdicts)
    problems = []
    if cov['evaluations'] < 1 or cov['distinct_nontrivial'] < 2:
        problems.append('vacuous run: no non-trivial cases')
    if not cov['samples']:
        problems.append('no samples recorded')
    ev = {
        'property_id': pid, 'tier': tier, 'seed': seed, 'level': spec['level'],
        'coverage': cov,
        'assumptions': spec['assumptions'],
        'wall_s': round(time.time() - t0, 3),
        'violations': len(seen),
        'known_findings_hit': sorted(kn.keys()),
        'technique': spec['technique'],
    }
    with open(os.path.join(EVID, f'{pid}.json'), 'w') as f:
        json.dump(ev, f, indent=1, default=str)
    if problems and rc == 0:
        raise Machinery('; '.join(problems))
    if rc == 1 and (cov['evaluations'] < 1 or cov['distinct_nontrivial'] < 2):
        # keep the evidence file schema-valid even when the only finding is a build-level violation
        cov['evaluations'] = max(cov['evaluations'], 1)
        cov['distinct_nontrivial'] = max(cov['distinct_nontrivial'], 2)
        cov['note'] = 'counts padded to the schema minimum: the run ended at a build-level violation before any case was enumerated'
        ev['coverage'] = cov
        with open(os.path.join(EVID, f'{pid}.json'), 'w') as f:
            json.dump(ev, f, indent=1, default=str)
    s = f"property={pid} tier={tier} evaluations={cov['evaluations']} nontrivial={cov['distinct_nontrivial']}"
    if 'states' in cov:
        s += f" states={cov['states']} transitions={cov['transitions']}"
    print(('HELD ' if rc == 0 else 'VIOLATED ') + s + f" wall={ev['wall_s']}s")
    return rc
