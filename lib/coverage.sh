#!/bin/bash
# Diagnostic (not a registered check): which lines of /repo/src do the engines' quick enumerations execute?
# Lines never executed are blind spots: a change there cannot be seen by any run-time engine.
# usage: lib/coverage.sh   -> writes /verif/coverage/summary.txt and /verif/coverage/uncovered.txt
set -u
ROOT=$(cd "$(dirname "$0")/.." && pwd)
BIN=$HOME/.rustup/toolchains/nightly-x86_64-unknown-linux-gnu/lib/rustlib/x86_64-unknown-linux-gnu/bin
T=$ROOT/target_cov
mkdir -p $T/prof $ROOT/coverage
cd $ROOT/harness
if [ "${1:-}" != "--report-only" ]; then
rm -f $T/prof/*.profraw
export CARGO_NET_OFFLINE=true CARGO_TARGET_DIR=$T RUSTFLAGS="-C instrument-coverage"
cargo +nightly build --offline -q --workspace 2>&1 | grep -E "^error" | head
export LLVM_PROFILE_FILE="$T/prof/%p-%m.profraw"
run() { echo "run $*"; "$@" > /dev/null 2>&1 || true; }
D=$T/debug
for m in C02 C10 C11; do run $D/e_views --mode $m --tier quick; done
for m in C07 C08; do run $D/e_ops --mode $m --tier quick; done
run $D/e_seq --mode C09 --tier quick --maxn 100
for m in C04 C05; do run $D/e_fault --mode $m --tier quick; done
run $D/e_iter --mode C06 --tier quick --maxn 6
run $D/e_own --mode C03 --tier quick --caps 3,2,3 --budget 600
for m in C15 C16; do run $D/e_alloc --mode $m --tier quick; done
for m in C13 C17 C19 C05; do run $D/e_misc --mode $m --tier quick; done
run $D/e_hex --mode C14 --tier quick
run $D/e_hex_fh --mode C14 --tier quick
$BIN/llvm-profdata merge -sparse $T/prof/*.profraw -o $T/all.profdata
fi
D=$T/debug
OBJS=""; for b in e_views e_ops e_seq e_fault e_iter e_own e_alloc e_misc e_hex e_hex_fh; do OBJS="$OBJS -object $D/$b"; done
IGN="--ignore-filename-regex=(cargo/registry|rustup|verif/harness)"
$BIN/llvm-cov report $OBJS -instr-profile=$T/all.profdata $IGN 2>/dev/null | grep -E "\.rs |Filename|TOTAL" | sed 's/  */ /g' > $ROOT/coverage/summary.txt
$BIN/llvm-cov show $OBJS -instr-profile=$T/all.profdata -show-line-counts-or-regions $IGN 2>/dev/null > $T/show.txt
python3 - $T/show.txt > $ROOT/coverage/uncovered.txt <<'PY'
import sys,re
cur=None
for l in open(sys.argv[1], errors='replace'):
    if re.match(r'^/?repo/src/.*:$', l.strip()):
        cur=l.strip().rstrip(':'); continue
    m=re.match(r'\s*(\d+)\|\s*0\|(.*)', l)
    if m and cur and m.group(2).strip() and not m.group(2).strip().startswith('//'):
        print(f'{cur}:{m.group(1)}: {m.group(2).rstrip()[:150]}')
PY
cat $ROOT/coverage/summary.txt; wc -l $ROOT/coverage/uncovered.txt
