#!/bin/sh
# run every registered check at the given tier (default quick) on the current tree; summary at the end
tier="${1:-quick}"
cd "$(dirname "$0")/.."
fail=0
for id in $(python3 -c "import json; print(' '.join(c['property_id'] for c in json.load(open('MANIFEST.json'))['checks']))"); do
  s=$(date +%s); ./check $id --tier $tier > /tmp/runall.$id.out 2>&1; rc=$?; e=$(date +%s)
  echo "$id rc=$rc $((e-s))s $(tail -1 /tmp/runall.$id.out | cut -c1-160)"
  [ $rc -ne 0 ] && fail=1
done
exit $fail
