"""Per-property wiring: which engines / corpora decide it, with the stated rule and assumptions."""
import os
from vdriver import (cargo_build, bin_path, run_engine, run_engine_once, parse_engine_output, NCPU, Machinery)

COMMON_ASSUME = [
    "engines are built from /repo's working tree through a cargo path dependency; rustc 1.95 and std are trusted",
    "all engines are single-threaded per case and use no clock, randomness or hash-map iteration order; every violating case is re-run once and must reproduce identically",
    "lengths are type-level, so 'all lengths' means the generated monomorphic instantiations listed in the rule; beyond the exhaustive range the length axis is a lattice",
]


ASAN_TRIPLE = 'x86_64-unknown-linux-gnu'
ASAN_ENV = {'RUSTFLAGS': '-Zsanitizer=address'}
ASAN_RUN_ENV = {'ASAN_OPTIONS': 'detect_leaks=0:abort_on_error=1:allocator_may_return_null=1'}


def asan_target():
    import vdriver
    return os.path.join(vdriver.BASE, 'target_asan')


def asan_run(pkg, mode, tier, shards, extra_args=None, timeout=7200):
    """AddressSanitizer substrate: the same enumeration, rebuilt with `cargo +nightly -Zsanitizer=address`, as a
    per-execution memory monitor (an out-of-bounds access aborts the engine; the driver reports the in-flight case)."""
    cargo_build(pkg, 'dev', toolchain='nightly', extra_env=ASAN_ENV, target_dir=asan_target(), extra_args=['--target', ASAN_TRIPLE])
    r = run_engine(bin_path(pkg, 'dev', asan_target(), ASAN_TRIPLE), mode, tier, shards=shards, env=ASAN_RUN_ENV, timeout=timeout, extra_args=extra_args, label='asan')
    for v in r['violations']:
        v['substrate'] = 'asan'
    return r


def miri_target():
    import vdriver
    return os.path.join(vdriver.BASE, 'target_miri')


# Tree Borrows, not the default Stacked Borrows: SB is an experimental model that is stricter than anything the properties
# state (see DESIGN.md section 4, 'Stacked Borrows observation'); TB still checks aliasing, and every memory-safety check
# the properties rely on (bounds, dangling, uninitialised, invalid values) is unaffected by the choice.
MIRI_ENV = {'MIRIFLAGS': '-Zmiri-disable-isolation -Zmiri-ignore-leaks -Zmiri-tree-borrows', 'CARGO_NET_OFFLINE': 'true'}


def miri_cmd(pkg):
    return ['cargo', '+nightly', 'miri', 'run', '-q', '--offline', '-p', pkg, '--']


def miri_run(pkg, mode, shards, extra_args=None, timeout=6 * 3600):
    """Miri substrate (thorough tiers): the same enumeration, interpreted by Miri (Tree Borrows), as a per-execution
    UB monitor (out-of-bounds, uninitialised reads, invalid values, Tree Borrows aliasing). Reduced bounds where noted in the rule."""
    env = dict(MIRI_ENV, CARGO_TARGET_DIR=miri_target())
    # one sequential invocation first so that the parallel shards find everything built
    from vdriver import HARNESS, env_base, sh
    e = env_base(); e.update(env)
    # (bounded to length 0: under Miri even skipping the full enumeration's descriptors costs minutes)
    warm = ['--caps', '1,1,1', '--budget', '60'] if pkg == 'e_own' else ['--maxn', '0', '--shard', '0/64']
    p = sh(['cargo', '+nightly', 'miri', 'run', '-q', '--offline', '-p', pkg, '--', '--mode', mode, '--tier', 'quick'] + warm, cwd=HARNESS, env=e)
    # (its exit status is not judged: if the smallest cases already die under Miri, the sharded run below attributes the death to
    # its case; if the engine does not build, every shard fails outside any case and that is reported as a machinery failure there)
    r = run_engine(miri_cmd(pkg), mode, 'quick', shards=shards, env=env, timeout=timeout, extra_args=extra_args, label='miri')
    for v in r['violations']:
        v['substrate'] = 'miri'
    return r


def engine_part(name, pkg, mode, shards_quick=1, shards_thorough=NCPU, release_in_thorough=True, thorough_only=False, timeout=7200, asan=None, asan_args=None, miri=False, miri_args=None, nda=True, miri_quick_args=None):
    """asan: None | 'quick' (AddressSanitizer substrate in both tiers, at the quick bounds) | 'thorough' (thorough tier only)
    nda: also run the quick enumeration on the `nda` profile (dev build cost, debug assertions and overflow checks OFF: what
    debug_assert!, std's unsafe-precondition checks and overflow panics turn into in an optimised build), in both tiers"""
    def run(part, tier):
        cargo_build(pkg, 'dev')
        shards = shards_quick if tier == 'quick' else shards_thorough
        res = run_engine(bin_path(pkg, 'dev'), mode, tier, shards=shards, timeout=timeout)
        for v in res['violations']:
            v['substrate'] = 'dev'
        subs = {'dev(opt-level=0,debug-assertions)': {'evaluations': res['result'].get('evaluations'), 'violations': len(res['violations'])}}
        if nda:
            cargo_build(pkg, 'nda')
            r1 = run_engine(bin_path(pkg, 'nda'), mode, 'quick', shards=shards_quick, timeout=timeout, label='nda')
            for v in r1['violations']:
                v['substrate'] = 'nda'
            res['violations'] += r1['violations']
            subs['nda(opt-level=0,no debug assertions,no overflow checks)'] = {'evaluations': r1['result'].get('evaluations'), 'violations': len(r1['violations'])}
        if tier == 'thorough' and release_in_thorough:
            cargo_build(pkg, 'release')
            r2 = run_engine(bin_path(pkg, 'release'), mode, tier, shards=shards, timeout=timeout, label='release')
            for v in r2['violations']:
                v['substrate'] = 'release'
                v['desc'] = v.get('desc', '')
            res['violations'] += r2['violations']
            subs['release(opt-level=3)'] = {'evaluations': r2['result'].get('evaluations'), 'violations': len(r2['violations'])}
        if asan == 'quick' or (asan == 'thorough' and tier == 'thorough'):
            r3 = asan_run(pkg, mode, 'quick', max(shards_quick, 4), extra_args=asan_args, timeout=timeout)
            res['violations'] += r3['violations']
            subs['asan(nightly,-Zsanitizer=address)'] = {'evaluations': r3['result'].get('evaluations'), 'violations': len(r3['violations'])}
        if miri_quick_args is not None and tier == 'quick':
            # "Miri-mini": the smallest lengths of the same enumeration under Miri in the quick tier too (properties about memory)
            r5 = miri_run(pkg, mode, NCPU, extra_args=miri_quick_args, timeout=1800)
            res['violations'] += r5['violations']
            subs['miri(nightly, tree borrows, quick bounds)'] = {'evaluations': r5['result'].get('evaluations'), 'violations': len(r5['violations']), 'args': miri_quick_args}
        if miri and tier == 'thorough':
            r4 = miri_run(pkg, mode, NCPU, extra_args=miri_args)
            res['violations'] += r4['violations']
            subs['miri(nightly, tree borrows)'] = {'evaluations': r4['result'].get('evaluations'), 'violations': len(r4['violations']), 'args': miri_args}
        res['substrates'] = subs
        return res

    def replay(part, body):
        sub = body.get('substrate', 'dev')
        if sub == 'miri':
            env = dict(MIRI_ENV, CARGO_TARGET_DIR=miri_target())
            rc, out, err = run_engine_once(miri_cmd(pkg), ['--mode', mode, '--tier', 'thorough', '--only', body['desc']], env, 3600)
            viols, result, _ = parse_engine_output(out)
            if rc not in (0, 2) or result is None:
                return [{'desc': body['desc'], 'what': f'miri reports: {err[-600:]}'}]
            return viols
        if sub == 'asan':
            cargo_build(pkg, 'dev', toolchain='nightly', extra_env=ASAN_ENV, target_dir=asan_target(), extra_args=['--target', ASAN_TRIPLE])
            binary, env = bin_path(pkg, 'dev', asan_target(), ASAN_TRIPLE), ASAN_RUN_ENV
        else:
            prof = sub if sub in ('release', 'nda') else 'dev'
            cargo_build(pkg, prof)
            binary, env = bin_path(pkg, prof), None
        rc, out, err = run_engine_once(binary, ['--mode', mode, '--tier', 'thorough', '--only', body['desc']], env, 600)
        viols, result, _ = parse_engine_output(out)
        if rc not in (0, 2) or result is None:
            return [{'desc': body['desc'], 'what': f'process died (status {rc}): {err[-400:]}'}]
        if result.get('evaluations', 0) == 0:
            raise Machinery(f"replay descriptor matched no case: {body['desc']}")
        return viols

    return {'name': name, 'run': run, 'replay': replay, 'thorough_only': thorough_only}


PROPS = {}

PROPS['C06'] = {
    'level': 'model_checking',
    'technique': 'explicit-state BFS over the real GenericArrayIter (replayed operation histories, canonical (origin, front, len) state key) against VecDeque and [T;N]::into_iter() reference models',
    'parts': [engine_part('iter-bfs', 'e_iter', 'C06', shards_quick=8, shards_thorough=NCPU, asan='quick', asan_args=['--maxn', '8'], miri=True, miri_args=['--maxn', '3'])],
    'rule': ("BFS from GenericArray::into_iter() for every K in 0..=12 (thorough: also 13..=17, 31..=33 complete, 64, 100 and 255..=257 with the argument lattice "
             "{0,1,2,len-1,len,len+1,usize::MAX}) and element sizes 0/4/24 bytes; from every reachable state (origin fresh|clone-at-len, physical front index, len) every operation "
             "next, next_back, nth(k), nth_back(k) for k in 0..=len+2 and usize::MAX, clone, as_mut_slice()[j]=new for every j, plus the consuming operations fold, rfold, count, last, collect, "
             "rev().collect, Debug, {:#?}, drop, exhaustion (fused), clone-then-drop, clone_from into a destination at every (front, back) position (K <= 4; a position lattice above), the methods the crate leaves to std's provided implementations (find, rfind, position, rposition, any, all, try_fold, try_rfold, by_ref().take, rev().nth, an early-exit for loop, step_by, skip, skip().rev(), skip_while, take_while with every index j in 0..=len+1; reduce, max_by_key, min_by_key, partition, rev().chain, unzip) each compared with the same call on std's array iterator, and fold / rfold whose closure unwinds at its k-th call (every k < len for len <= 8, else {0, len/2, len-1}: consumed and unconsumed elements must not overlap, i.e. the ledger balances after the unwinding); a case is one (state, operation); non-trivial = K>0 and the state still holds an element; "
             "descriptors are unique by construction. Every step is compared with std's array IntoIter and a VecDeque, and the drop ledger must balance after every call and at quiescence."),
    'exhaustive': True,
    'exhaustive_scope': 'all operations and arguments from all reachable states for the listed K; K axis itself is a lattice above 17',
    'assumptions': COMMON_ASSUME + [
        "state key = (origin class, physical front index probed through as_slice().as_ptr(), len): the crate is parametric in T, so future behaviour depends only on these; the key is never asserted",
        "closed-form count (K+1)(K+2)/2 of fresh-origin positions is checked as a vacuity guard; a stateless no-dedup enumeration of all sequences of depth <= 3 (K <= 4) must reach exactly the BFS's shallow states",
    ],
}

PROPS['C04'] = {
    'level': 'fault_enumeration',
    'technique': 'exhaustive single-fault enumeration: every call index of every closure / Clone::clone / Iterator::next an operation makes is made to panic once, on the real code, judged by a drop ledger',
    'parts': [engine_part('caller-panic-enumeration', 'e_fault', 'C04', shards_quick=4, asan='thorough', miri=True, miri_args=['--maxn', '2'])],
    'rule': ("for every operation x receiver/argument form (generate x4 + default x2; map x4; fold x4; zip 9 stack forms + boxed; Clone and clone_from of array, Box and of the by-value iterator from every (origin, front, back); "
             "iterator fold/rfold/for_each/map-collect from every position; try_from_iter/from_iter/try_boxed_from_iter/boxed from_iter from a scripted source of c in {0,N-1,N,N+1,N+2} items with exact/absent hints, and from real "
             "into_iter().map chains; ArrayBuilder/IntrusiveArrayBuilder/ArrayConsumer dropped at every position and fed by extend) x N in {0..9,16,17,33} (iterator positions N<=8 and 16), and N in {100, 1000} for a reduced scenario list with the fault-index lattice {first, last, quartiles, both sides of every power of two}, x element-type "
             "combinations over {4-byte tracked, 24-byte tracked, 128-byte tracked, 32-byte/32-aligned tracked, zero-sized tracked, Clone-only without drop glue, zero-sized without drop glue, plain u32, 3-byte plain} selecting the needs_drop branches: one fault-free run counts the fault points c, then one execution per k in 0..c with call k panicking. "
             "A case is one (operation, form, N, types, k); non-trivial = the fault fired and at least one element existed. Oracle: the injected payload propagates, nothing is returned, borrowed sources are intact and live, and after dropping "
             "the survivors every tracked id has exactly one drop, none observed after drop; zero-sized totals balance."),
    'exhaustive': True,
    'exhaustive_scope': 'every fault point of every listed (operation, form, N, type combination); one fault per execution (a second panic while unwinding aborts by language rule)',
    'assumptions': COMMON_ASSUME + [
        "a panic in caller code is modelled as a panic at the call's entry after the callee took ownership of its arguments and made its result; the library cannot distinguish other positions inside the call",
        "Drop of a tracked element only bumps a counter outside the element, so a double drop is recorded rather than corrupting memory",
    ],
}

PROPS['C05'] = {
    'level': 'fault_enumeration',
    'technique': 'exhaustive single-fault enumeration: for every internally-dropping operation from every iterator position, every choice of the one element whose destructor panics, on the real code; the run continues after the caught panic and a drop ledger is judged',
    'parts': [engine_part('destructor-panic-enumeration', 'e_fault', 'C05', shards_quick=4, asan='thorough', miri=True, miri_args=['--maxn', '2']), engine_part('serde-teardown', 'e_misc', 'C05', shards_quick=1)],
    'rule': ("for every (origin fresh|clone, front f, back b) of the by-value iterator with N in 0..=8 complete and 16 on the position lattice x operation in {nth(n), nth_back(n) for n in 0..=len+1, count, last, drop, "
             "fold/rfold/for_each with a dropping closure, clone-then-drop, collect-then-drop, clone_from into and from a part-consumed iterator, and the methods the crate leaves to std's provided implementations today - find, rfind, position, rposition, any, all, try_fold, try_rfold (match / break at every j), reduce, max_by_key, min_by_key, partition, skip(j).next, step_by, by_ref().take(j), rev().nth(j), skip_while, zip with another iterator}; dropping a GenericArray / Box / fresh iterator / boxed into_iter; ArrayBuilder, IntrusiveArrayBuilder and ArrayConsumer dropped at every position; the "
             "error paths of try_from_iter, from_iter, try_boxed_from_iter, boxed from_iter, TryFrom<Vec>, try_from_vec, try_from_boxed_slice, TryFrom<Box<[T]>> for c in {0,1,N-1,N,N+1,N+2}; map/zip/fold (owned and boxed) with closures that drop "
             "their arguments, N in {0..9,16,17,33}, and N in {100, 1000} on position / skip / panicking-element lattices; the deserialisation error paths (scripted source offering c in 0..=N+2 elements, an element error at every index, N in {0..6,8,16}); a fault-free run lists the elements destroyed after the arming point, then one execution per such element with its destructor panicking once (never while already panicking). "
             "After the caught panic the views are observed, next/next_back called once more and everything dropped. A case is one (operation, position, N, element type, panicking element); non-trivial = the destructor panicked inside the operation. "
             "Oracle: no id dropped twice, none observed after its drop, zero-sized drops never exceed creations; leaks are counted, not flagged."),
    'exhaustive': True,
    'exhaustive_scope': 'every panicking element for every listed (operation, position, N); exactly one panicking destructor per execution, which is the property\'s quantifier',
    'assumptions': COMMON_ASSUME + [
        "remove/swap_remove out of range destroy the array while already unwinding, where a second panic aborts by language rule; their drop accounting is decided under C09",
    ],
}

_ALLOC_RULE = ("enumeration shared by C15/C16: operation in {TryFrom<Vec>, TryFrom<Box<[T]>>, From<GA> for Vec / Box<[T]>, into_boxed_slice, into_vec, try_from_boxed_slice, try_from_vec, try_boxed_from_iter, boxed from_iter, "
               "boxed into_iter (dropped after 0,1,N/2,N items), box_arr![x; N], default_boxed, boxed generate, boxed map/zip/fold/clone, boxed map to a same-size lower-alignment type and to a larger type} x N in {0..8,16,33,100,1024} x element in {4-byte tracked, zero-sized tracked} (+ u8, u64, () for N<=8 and 33) "
               "x source length L in {0,N-1,N,N+1,N+3} x Vec capacity in {len, len+1, 2len+3}; ")

PROPS['C15'] = {
    'level': 'exploration',
    'technique': 'bounded exhaustive enumeration of (conversion, N, element, source length, capacity) on the real code under a recording global allocator; multi-MiB constructions in child processes on a 256 KiB stack',
    'parts': [engine_part('heap-interop', 'e_alloc', 'C15', shards_quick=4, miri=True, miri_args=['--maxn', '2'])],
    'rule': _ALLOC_RULE + ("oracle: contents/ids in order, Ok iff L == N else LengthError (documented panic for collect) with every source element dropped once, and for the successful O(1) conversions the data pointer is unchanged and the "
             "recording allocator saw zero calls inside the conversion (try_from_vec only when len == capacity). Plus 12 constructions of 2^20-element u64/u128 arrays (8-16 MiB: default_boxed, boxed generate, box_arr! type and const forms, "
             "boxed from_iter, try_boxed_from_iter, try_from_vec, into_vec round trip), each in its own #[inline(never)] function and child process on a thread with a 256 KiB stack (thorough: also the release build). "
             "A case is one tuple; non-trivial = N > 0."),
    'exhaustive': True,
    'exhaustive_scope': 'the listed finite product; lengths and capacities are a lattice',
    'assumptions': COMMON_ASSUME + ["Box<GenericArray>::clone of a multi-MiB array goes through the stack (std's Box::clone); it is not among the constructors the property names and is not asserted"],
}

PROPS['C16'] = {
    'level': 'fault_enumeration',
    'technique': 'exhaustive fault enumeration under a recording global allocator: every closure-call panic index in-process, and every allocation request of the operation failing in turn in a child process, on the real code',
    'parts': [engine_part('allocator-log', 'e_alloc', 'C16', shards_quick=NCPU, miri=True, miri_args=['--maxn', '2'])],
    'rule': _ALLOC_RULE + ("every case is recorded from input construction to the last drop. Fault modes: none (all cases); for N in {0,1,2,3,8,33} (thorough: all) a panic at every call index of the generator / mapping / folding closure, Clone, Default or "
             "source next; and each allocator request made inside the operation failing in turn, in a child process. Oracle: no zero-size request, every release carries the size and alignment of its request, no double release, no block "
             "live once all values are dropped (also after a caught panic); a failed request ends in SIGABRT with std's 'memory allocation of N bytes failed' (handle_alloc_error) — a SIGSEGV, a null-reference abort or survival is a violation. "
             "A case is one (tuple, fault); non-trivial = the operation talks to the allocator or a fault fired."),
    'exhaustive': True,
    'exhaustive_scope': 'every panic index and every failing request of every listed case (allocation-failure children skipped for N in {100,1024} where the request sequence is the same as for smaller N)',
    'assumptions': COMMON_ASSUME + ["the recording allocator wraps std::alloc::System; harness allocations are recorded too and must balance, the drop ledger is pre-sized so it never allocates inside a case"],
}

PROPS['C02'] = {
    'level': 'exploration',
    'technique': 'bounded exhaustive enumeration of (N, source length L, entry point, element type) and of the shared/mutable view matrix on the real code, with pointer/length oracles on canaried buffers',
    'parts': [engine_part('views', 'e_views', 'C02', shards_quick=2, asan='thorough', miri=True, miri_args=['--maxn', '5'], miri_quick_args=['--maxn', '2'])],
    'rule': ("length gate: N in {0..13,15,16,17,31,32,33,64,100,255,256,1000,1024} x every L in 0..=N+2 (N<=13) or {0,1,N-1,N,N+1,2N} x {from_slice, try_from_slice, TryFrom<&[T]>, from_mut_slice, try_from_mut_slice, TryFrom<&mut [T]>} x element in "
             "{u8, u64, (), 4-byte tracked, zero-sized tracked, 16-byte/16-aligned, padded (u8,u16), 3-byte, 64-byte/64-aligned, 32-byte/32-aligned tracked}; the source is the middle of a larger buffer with canary elements; oracle: accepted iff L == N (documented panic / LengthError otherwise), accepted view = "
             "(address of the source, N), contents in order, writes through mutable views land in the source, canaries untouched; every (entry, N, L, element) is offered a second time with the source being a WHOLE heap allocation of exactly L elements (a view created longer than its source, even transiently and never read, then leaves the allocation, where the Miri / AddressSanitizer substrates can see it). View matrix per (N, element): nine shared views and eight mutable views must all be (array address, N) with the elements in order; through each of the eight "
             "mutable views a fresh value is written at every index (lattice for N > 13) and read back through all nine shared views; From<&[T;N]>/From<&mut [T;N]> alias the native array. By value: from_array/into_array/From both ways keep every identity in place "
             "with no drop (ledger); tuple conversions for every arity 1..=12. Non-trivial = N > 0 or L > 0."),
    'exhaustive': True,
    'exhaustive_scope': 'the listed finite product; complete in L for N <= 13',
    'assumptions': COMMON_ASSUME,
}
PROPS['C10'] = {
    'level': 'exploration',
    'technique': 'bounded exhaustive enumeration of (N, slice length L, shared/mutable, element type) for the chunk functions on the real code with pointer/length oracles; the same calls are also run inside the const evaluator by the C18 corpus',
    'parts': [engine_part('chunks', 'e_views', 'C10', shards_quick=2, asan='thorough', miri=True, miri_args=['--maxn', '8'], miri_quick_args=['--maxn', '2'])],
    'rule': ("N in {0,1,2,3,7,8,16,17,33,64,100,1024} x every L in 0..=4N+3 (N>=100: {0,1,N-1,N,N+1,2N-1,2N,2N+1,4N+3}) x {chunks_from_slice, chunks_from_slice_mut} x element in {u8, padded (u8,u16), u64, (), 16-aligned, tracked, 3-byte, 64-byte/64-aligned}; oracle: parts are "
             "(src, L/N) and (src + (L/N)*N*size, L mod N), element [c][j] == src[c*N+j], slice_from_chunks(_mut) of the chunk part is (src, (L/N)*N), writes through each mutable part land at that source index, canaries untouched; every (N, L, element, form) a second time on a whole heap allocation of exactly L elements, with a write through the first and last element of every part and of the re-flattened chunk part; N = 0: empty -> two empty "
             "results, non-empty -> the documented panic. from_chunks/into_chunks(_mut) and slice_from_chunks(_mut) applied directly to 0..=5 arrays (the only way to have chunks of length 0): same address and count, writes visible. For zero-sized elements also L in {2^32-2, 2^32-1, 2^32, 2^32+7, 2^33+1, 2^40+N+1, isize::MAX} (lengths only). Non-trivial = L > 0."),
    'exhaustive': True,
    'exhaustive_scope': 'the listed finite product; complete in L for N < 100',
    'assumptions': COMMON_ASSUME,
}
PROPS['C11'] = {
    'level': 'exploration',
    'technique': 'bounded exhaustive enumeration of (N, M, owned/&/&mut, element type) for flatten/unflatten on the real code with identity, ledger and address oracles',
    'parts': [engine_part('regroup', 'e_views', 'C11', shards_quick=1, asan='thorough', miri=True, miri_args=['--maxn', '6'], miri_quick_args=['--maxn', '2'])],
    'rule': ("every (N, M) in 0..=6 x 0..=6 (unflatten: N >= 1) plus (1,1024), (1024,1), (16,64), (3,100), (7,9) x {owned, &, &mut} x element in {4-byte tracked, zero-sized tracked, u8, u64}; oracle: flat[i*N+j] is inner[i][j] by identity, unflatten is the exact "
             "inverse, the owned forms drop nothing (ledger), the reference forms return (same address, same byte extent, N*M resp. M elements) and a write at every index (lattice above 36 elements) through the &mut regrouped view appears at the computed "
             "index of the original. Non-trivial = N*M > 0."),
    'exhaustive': True,
    'exhaustive_scope': 'all (N, M) <= 6 and the listed boundary pairs',
    'assumptions': COMMON_ASSUME,
}

PROPS['C07'] = {
    'level': 'fault_enumeration',
    'technique': 'exhaustive enumeration of the environment of a collecting call: scripted source (item count x size-hint policy x fusedness x panic at every next() call) against all four collecting entry points on the real code',
    'parts': [engine_part('scripted-source', 'e_ops', 'C07', shards_quick=4, miri=True, miri_args=['--maxn', '2'])],
    'rule': ("N in {0..8,16,17,33,100} x produced item count c in 0..=N+3 (and N = 1000 on a count / panic-index lattice) x size-hint policy in {exact, absent, lower-only, upper-only, loose both, lying low (upper < c), lying high (lower > c), changing between calls, upper bound exactly usize::MAX with lower 0 or exact} x "
             "fused / not fused (a non-fused source yields again if polled after its first None, and counts such polls) / fused and carrying the FusedIterator marker (std's Fuse adaptor is then a pass-through) x entry point in {try_from_iter, from_iter, try_boxed_from_iter, boxed from_iter} x element in {tracked, zero-sized tracked, u32}; "
             "for each, the fault-free run and one run per next() call index with that call panicking (all policies for N<=5, exact/absent/lying-high otherwise). Oracle: Ok implies c == N and element i is the i-th produced item, and is impossible when the hint announced before the first pull already rules N out (lower > N or upper < N); c == N with a truthful "
             "hint implies Ok; otherwise LengthError or the 'expected N items' panic; at most N+1 next() calls; zero polls after the source returned None; every produced item dropped exactly once; an injected source panic propagates. "
             "A case is one tuple (+ panic index); non-trivial = c > 0 or N > 0."),
    'exhaustive': True,
    'exhaustive_scope': 'the listed finite product; every panic index of every listed case',
    'assumptions': COMMON_ASSUME + ["the documented exclusion is honoured: nothing is required about a source whose hint lies except that Ok still implies exactly N items"],
}
PROPS['C08'] = {
    'level': 'exploration',
    'technique': 'bounded exhaustive enumeration of (operation, receiver/argument form, element-type combination, N) with recording closures on the real code',
    'parts': [engine_part('call-order', 'e_ops', 'C08', shards_quick=1, miri=True, miri_args=['--maxn', '3'])],
    'rule': ("N in {0..8,16,17,33,64,100,128,1000} x {generate x4 forms (array, &, &mut, Box), map x4, fold x4, zip: nine stack receiver x argument forms + boxed x boxed, Clone and clone_from (array, Box), Default, default_boxed} x element-type combinations over "
             "{tracked 4/8/24-byte, 32-byte/32-aligned tracked, zero-sized tracked, Clone-only without drop glue, zero-sized without drop glue, plain u32, 3-byte, 64-byte/64-aligned} (selecting the drop-aware and no-drop code paths). Closures log every call with its arguments. Oracle: the log is exactly (a[0]) (a[1]) ... once each ascending - for zip the pair "
             "(a[i], b[i]) in that argument order, for fold a non-commutative accumulator threaded left to right - result element i is what call i returned, Clone/Default are called N times in index order, and nothing is left alive or dropped twice. "
             "Non-trivial = N > 0."),
    'exhaustive': True,
    'exhaustive_scope': 'the listed finite product',
    'assumptions': COMMON_ASSUME,
}
PROPS['C09'] = {
    'level': 'exploration',
    'technique': 'bounded exhaustive enumeration of (N, K, M, index, element size) for the sequence operations on the real code against the corresponding Vec operations, with ledger and address oracles',
    'parts': [engine_part('sequence-ops', 'e_seq', 'C09', shards_quick=4, asan='quick', asan_args=['--maxn', '33'], miri=True, miri_args=['--maxn', '17'], miri_quick_args=['--maxn', '2'])],
    'rule': ("complete for N in 0..=8: append/pop_back/prepend/pop_front chain, split::<K> for every K <= N in owned, & and &mut forms, concat for every (N, M) with N+M <= 8, remove(i) and swap_remove(i) (and their *_unchecked forms on valid indices) for every i in 0..=N+1 and usize::MAX, for every N in {1..13,15,16,17,24,32,33,64,100} and a 27-point index lattice for 256 and 1024; plus "
             "N in {15,16,17,31,32,33,63,64,100,255,256,1023,1024} with the split/concat position lattice {0,1,N/2,N-1,N}; element types of size 0 (tracked ZST, ()), 1 (u8), 2 (u16), 4 (tracked), 8 (tracked, u64), 24 (tracked, [u8;24]) and 128 (tracked). Oracle: results and removed values "
             "equal Vec push/insert(0)/pop/remove(0)/split_at/extend/remove/swap_remove on the same identities; the ledger shows exactly-once ownership after every step; out-of-range remove/swap_remove raise the documented panic with every element "
             "dropped once; by-reference split halves are (base, K) and (base + K*size, N-K) and a write at every index through the &mut halves appears at that index of the original. Non-trivial = N > 0."),
    'exhaustive': True,
    'exhaustive_scope': 'all (N, K, M, i) for N <= 8; lattice above',
    'assumptions': COMMON_ASSUME + ["an over-read that is then discarded produces the right answer and is invisible to this oracle: the thorough tier repeats the enumeration under AddressSanitizer / Miri as per-execution monitors"],
}

PROPS['C13'] = {
    'level': 'exploration',
    'technique': 'bounded exhaustive enumeration of all pairs of arrays over three-letter alphabets (N <= 4) and of difference-position families (larger N) on the real code against the slices of the same elements, with a recording Hasher',
    'parts': [engine_part('cmp-hash-debug', 'e_misc', 'C13', shards_quick=1, miri=True, miri_args=['--maxn', '2'])],
    'rule': ("for N in 0..=4 every pair of arrays over a three-letter alphabet (sum 3^(2N) = 7381 pairs per element type) for u8 {0,1,255}, i32 {-1,0,1}, f64 {NaN,0.0,1.5}, f64 {-0.0,0.0,NaN}, String {'', 'a', 'b'} and nested GenericArray<u8,U2>; a case is one left "
             "operand compared with every right operand: ==, !=, partial_cmp, <, <=, >, >= and (for Ord types) cmp must equal the slices'; Debug under {:?} {:#?} {:5?} {:.1?} {:08.3?} {:x?} {:#X?} {:<7?} {:+?} must equal the slice's; the byte-for-byte "
             "write sequence a recording Hasher receives from array.hash() must equal the slice's, and HashMap/BTreeMap keyed by arrays must be found through &[T] via Borrow. For N in {5,8,16,33,100}: equal / differ only at p for every p / differ at p and "
             "at a later q with the opposite sign (every q for N <= 33), with NaN variants. Non-trivial = N > 0."),
    'exhaustive': True,
    'exhaustive_scope': 'all pairs over the alphabets for N <= 4; position families above',
    'assumptions': COMMON_ASSUME,
}
PROPS['C17'] = {
    'level': 'fault_enumeration',
    'technique': 'exhaustive enumeration of the deserialisation environment: scripted Deserializer/SeqAccess (delivered count x up-front hint x later hints x element error at every index) plus real formats (JSON text, bincode, serde_json::Value) and a recording Serializer, on the real code',
    'parts': [engine_part('serde', 'e_misc', 'C17', shards_quick=1, miri=True, miri_args=['--maxn', '2'])],
    'rule': ("N in {0..8,16,33} (and 100 on a count / error-index lattice). Scripted source: delivered element count c in 0..=N+2 x up-front size hint in {none, exact, too small (N-1), too large (N+1), 'N' regardless of what is delivered} x later hints in {truthful remaining, none} x "
             "(no error | element k fails to parse, for every k < c), element type drop-tracked. Oracle: deserialize asks for a tuple of exactly N; Ok iff c == N and no element < N failed (hint none/exact/N), and then element i is the i-th element read; "
             "c != N or a failing element < min(N, c) must be an error; every element read is dropped exactly once afterwards; the sequence is never polled after it reported its end. The documented exclusion (a source reporting 'nothing left' while "
             "holding elements: only N = 0 with an up-front hint of 0) is not generated. Real formats per N: JSON text equals the N-element list, bincode equals the bare concatenation of the element encodings (a byte array is exactly its bytes), "
             "serde_json::Value is an N-array, all round-trip (u8/u32/String); JSON lists and Values of every count 0..=N+2 are accepted iff count == N; tracked elements with a bad element at every index and truncated bincode are rejected with "
             "the already-read elements dropped once. Recording Serializer: serialize_tuple(N), N elements in index order, end. Non-trivial = N > 0 or c > 0."),
    'exhaustive': True,
    'exhaustive_scope': 'the listed finite product',
    'assumptions': COMMON_ASSUME + ["serde, serde_json 1.0 and bincode 1.3 from the offline cargo cache are trusted as the real formats"],
}
PROPS['C19'] = {
    'level': 'exploration',
    'technique': 'bounded exhaustive enumeration of (N, element type, prior contents) for zeroize and of (N, element type) for the constant default, evaluated by the compiler (const/static items) and at run time, on the real code',
    'parts': [engine_part('zeroize-constdefault', 'e_misc', 'C19', shards_quick=1, asan='thorough', miri=True, miri_args=['--maxn', '3'])],
    'rule': ("every N in 0..=65 and {100,127,128,255,256,257,1000,1023,1024} (every even/odd storage shape to depth 6 complete, boundary shapes to depth 10). zeroize: element in {u8, u64, [u8;3], GenericArray<u8,U3>, Probe{a:u8,b:u32}, Wipe7 / Wipe1 (two-byte / one-byte types that zeroize to a "
             "non-zero value), Option<bool>, NonZeroU8, Keep (keeps a tag field across zeroize, so its zeroized value depends on its prior content) and GenericArray<Keep,U2>} x prior contents in {all 0xFF, index-dependent, already zero}; every element must equal its zeroized value. Constant default: element in {u8, u64, Probe (DEFAULT a=1, b=0xDEADBEEF), GenericArray<Probe,U3>, (u8,Probe)}; "
             "const_default() and DEFAULT evaluated in a const item, a static item and at run time must all be N copies of T::DEFAULT and equal Default::default(). Non-trivial = N > 0."),
    'exhaustive': True,
    'exhaustive_scope': 'the listed finite product',
    'assumptions': COMMON_ASSUME + ["zeroize 1.x and const-default 1.0 from the offline cargo cache are trusted"],
}


def hex_part():
    """C14: the same engine source built without and with the crate's `faster-hex` feature; outputs are compared
    with the per-byte reference inside each engine, and the digests of all outputs are compared across the two builds."""
    def run(part, tier):
        shards = 4 if tier == 'quick' else NCPU
        out = None
        subs = {}
        digests = {}
        profiles = ['dev', 'nda'] + (['release'] if tier == 'thorough' else [])
        for prof in profiles:
            for pkg in ('e_hex', 'e_hex_fh'):
                cargo_build(pkg, prof)
                res = run_engine(bin_path(pkg, prof), 'C14', tier, shards=shards, timeout=3600, label=pkg)
                for v in res['violations']:
                    v['substrate'] = f'{pkg}:{prof}'
                    v['desc'] = v.get('desc', '')
                subs[f'{pkg}({"faster-hex on" if pkg.endswith("fh") else "default features"},{prof})'] = {
                    'evaluations': res['result'].get('evaluations'), 'violations': len(res['violations']), 'format_calls': res['result'].get('counters', {}).get('format_calls')}
                digests[(pkg, prof)] = res['result'].get('digests')
                if out is None:
                    out = res
                else:
                    out['violations'] += res['violations']
                    out['result']['evaluations'] = out['result'].get('evaluations', 0) + res['result'].get('evaluations', 0)
                    out['result']['distinct_nontrivial'] = out['result'].get('distinct_nontrivial', 0) + res['result'].get('distinct_nontrivial', 0)
            if not out['violations'] and digests[('e_hex', prof)] != digests[('e_hex_fh', prof)]:
                out['violations'].append({'desc': f'C14;cross-build-digest;{prof}', 'what': f"outputs differ between the build without and with faster-hex: {digests[('e_hex', prof)]} vs {digests[('e_hex_fh', prof)]}", 'stable': True})
        out['substrates'] = subs
        out['result']['cross_build_digests_equal'] = all(digests[('e_hex', p)] == digests[('e_hex_fh', p)] for p in profiles)
        return out

    def replay(part, body):
        sub = body.get('substrate', 'e_hex:dev')
        pkg, prof = (sub.split(':') + ['dev'])[:2]
        if pkg not in ('e_hex', 'e_hex_fh'):
            pkg, prof = 'e_hex', 'dev'
        cargo_build(pkg, prof)
        rc, outp, err = run_engine_once(bin_path(pkg, prof), ['--mode', 'C14', '--tier', 'thorough', '--only', body['desc']], None, 600)
        viols, result, _ = parse_engine_output(outp)
        if rc not in (0, 2) or result is None:
            return [{'desc': body['desc'], 'what': f'process died (status {rc}): {err[-400:]}'}]
        if result.get('evaluations', 0) == 0:
            raise Machinery(f"replay descriptor matched no case: {body['desc']}")
        return viols
    return {'name': 'hex-two-builds', 'run': run, 'replay': replay}


PROPS['C14'] = {
    'level': 'exploration',
    'technique': 'bounded exhaustive enumeration of (N, byte-at-index pattern, precision, case) on two builds of the real crate (faster-hex off/on) against a per-byte {:02x} reference, plus a cross-build digest comparison',
    'parts': [hex_part()],
    'rule': ("N in {0..17,31,32,33,63,64,65,1023,1024,1025,2047,2048,2049,3000,4096} (the three internal strategies and their thresholds) x contents a_k[i] = (37 i + k) mod 256 for all 256 k (N > 65 in the quick tier: 16 values of k) - so every byte "
             "value occurs at every index - plus all-0x00, all-0xFF and i mod 256 x {:x}, {:X} x precision none and every p in 0..=2N+2 (N <= 65) or the lattice {0,1,2,3,31..33,63..65,2047..2050,4095..4097,6143..6145,N-1,N,N+1,2N-3..2N+1,2N+7} x two builds "
             "of the crate (default features, faster-hex). A case is one (N, pattern) with all its precisions and both cases; non-trivial = N > 0. Oracle: output == first min(p, 2N) characters of the concatenated two-digit forms; the digests of all outputs "
             "of the two builds must be equal. Ten further format specs with width, fill, alignment, sign, zero-padding and '#' flags must still print exactly the digits ('and nothing else')."),
    'exhaustive': True,
    'exhaustive_scope': "byte-at-index x precision for the listed N; not all 256^N contents (every byte value occurs at every index, not every combination of neighbours)",
    'assumptions': COMMON_ASSUME + ["faster-hex 0.10 from the offline cargo cache; CPU feature dispatch inside faster-hex follows this machine's CPU (AVX2/SSE4.1 paths as detected at run time)"],
}

import c12 as _c12
PROPS['C12'] = {
    'level': 'exploration',
    'technique': 'bounded exhaustive enumeration of a generated accept/reject program family; each program is executed by rustc (type checker + borrow checker) against the crate built from the working tree and judged by a reference model of the length / auto-trait / borrow rules',
    'parts': [_c12.part()],
    'rule': ("generated family, every reject program paired with an accept twin differing in one length, bound or lifetime: (a) two-length relations for all lengths 0..=6 (thorough 0..=9 + boundary lengths): zip x3 forms, ==, <, cmp (N == M); split::<K> annotated (K <= N and R == N-K, "
             "owned and &); concat (R == N+M); append/prepend (R == N+1); pop_back/pop_front/remove/swap_remove (N >= 1, R == N-1); into_array, from_array, From both ways, AsRef/AsMut<[T;U]>, From<&[T;U]>/From<&mut [T;U]>, from_chunks(_mut), into_chunks(_mut) incl. "
             "turbofish forms (U == N); tuple conversions arity 1..=13 (arity == N <= 12); flatten (R == N*M, owned and &); unflatten (N >= 1, R == floor(NM/N)); map/zip/generate result annotations; arr! list and both repeat forms against an annotated length; {:x} only for u8; "
             "(b) length kinds: P1/N1/Z0/B1/usize/user types with unsafe impl ArrayLength rejected; (c) auto traits: {array, by-value iterator, &array, Box<array>} x {Send,Sync,Copy,Clone} x T in {u8,String,Rc,Cell,*const u8,MutexGuard} x N in {0,1,2,3,6}; "
             "(d) for 25 reference-returning APIs (shared and mutable forms): source mutated / moved while the view is live, view outliving its source, two mutable views live, mutable + shared live, and for 46 signatures the view widened to 'static or to an unrelated lifetime. "
             "A reject counts only if rustc fails it with an error code of its expected class; a reject that compiles or an accept that fails is a violation. Non-trivial = reject programs."),
    'exhaustive': True,
    'exhaustive_scope': 'the generated grammar at the stated length bound; not all programs',
    'assumptions': COMMON_ASSUME + ["verdict attribution: each program is one module in a corpus crate; a diagnostic belongs to the program whose line range contains its primary span (followed through macro expansions); "
                                    "type-level and borrow-check families are compiled as separate crates, and the thorough tier recompiles every reject program alone to exclude masking"],
}

import c18 as _c18
PROPS['C18'] = {
    'level': 'exploration',
    'technique': "bounded exhaustive enumeration of generated const items (const fn x N x L x element type x shared/mut); the executor is rustc's const evaluator (E0080 on UB or failed expectation), followed by run-time execution of the same functions and comparison of the digests",
    'parts': [_c18.part()],
    'rule': ("one const item per (function family, N, L, element type): chunks_from_slice + slice_from_chunks and their _mut forms for N in {0,1,2,3,7,8,16,17,33,64,100,1024} and every L in 0..=3N+2 (boundary lattice for N > 17 in the quick tier and N >= 100), "
             "from_slice/try_from_slice/from_mut_slice/try_from_mut_slice for L in {0,1,N-1,N,N+1,2N,3N+2}, len/from_array/into_array/as_slice/as_mut_slice/uninit+writes+assume_init per N, from_chunks/into_chunks(_mut) for 0..=3 chunks, element types u8, u32, (u8,u16), (), a 16-aligned one-byte payload, [u8; 3], char; "
             "const_transmute, builder/consumer const constructors (internals), const_default, arr! list (with and without trailing comma) and both repeat forms. Each item asserts natively computed expectations (lengths, pointer offsets, element values, where writes land) "
             "and returns a digest; any E0080 is a violation attributed to its item; the whole corpus is evaluated a second time on nightly with -Zextra-const-ub-checks (validity of every reference and value at every typed copy), where an E0080 is a violation too. The built binary calls the same functions at run time through black-boxed function pointers and compares with the const-evaluated digests. 14 must-fail items "
             "(wrong-length from_slice/from_mut_slice, zero-length chunking of a non-empty slice, const_transmute with a smaller or a larger source) must each be an E0080. Non-trivial = N > 0."),
    'exhaustive': True,
    'exhaustive_scope': 'the listed finite product',
    'assumptions': COMMON_ASSUME + ["rustc's const evaluator (Miri engine) is the UB oracle at compile time", "const fns found by grepping the crate's sources that have no template are listed in the evidence (const_fns_without_template)"],
}

import c20 as _c20
PROPS['C20'] = {
    'level': 'exploration',
    'technique': 'bounded exhaustive enumeration of generated arr!/box_arr! invocations; rustc decides the inferred length type against explicit annotations, the built program decides contents and evaluation order against native array literals and an evaluation log',
    'parts': [_c20.part()],
    'rule': ("list form with every element count 0..=64, 100, 128, 255, 256, with and without a trailing comma, element expressions that append their index to an evaluation log, bound to an explicitly annotated GenericArray<_, U<count>> (the length type is a compile-time fact), "
             "compared with the native array literal; the same arguments through box_arr! (equal to the arr! result, same evaluation log); String and drop-tracked elements (no element dropped while the array is alive, each dropped once after); the list form in const, "
             "static and const fn position; both repeat forms (type-level and constant length) for N in {0,1,2,3,5,7,8,15,16,17,31,32,33,64,100,255,256,1000,1024} in let, const, static and const fn position with x evaluated exactly once, and through box_arr!; "
             "box_arr! repeat forms with a moved non-Copy value; U4096, empty and nested forms. A case is one generated function; a compile error inside it or a failed run-time expectation is a violation. Non-trivial = non-empty arrays."),
    'exhaustive': True,
    'exhaustive_scope': 'the listed finite family of invocations',
    'assumptions': COMMON_ASSUME,
}

import c01 as _c01
PROPS['C01'] = {
    'level': 'exploration',
    'technique': "bounded exhaustive enumeration of (element layout x length): rustc's layout computation on the real type definitions evaluates size_of/align_of of GenericArray<L, N>, L and [L; N] into generated static tables; real zeroed values are built for small and boundary lengths and their element addresses walked",
    'parts': [_c01.part()],
    'rule': ("element layouts: every (size, align) with align in {1,2,4,8,16,32,64}, size in 0..=64, align | size (134 repr(C, align) structs; every 7th in the quick tier) plus named shapes: padded tuples, repr(packed) structs (incl. a 41-byte one), aligned zero-sized types "
             "([u64; 0], repr(align(64)) unit struct, (), PhantomData), MaybeUninit / ManuallyDrop wrappers, nested GenericArrays, niche-carrying types; lengths: all 1148 lengths typenum names (every N in 0..=1024 = every even/odd digit pattern to depth 10, "
             "then 2^k, 2^k-1, 10^k up to 2^62) and, written out as nested UInt<..> types, for every binary depth 11..=62 the lengths 2^d, 2^d-1, 2^d+1 and two alternating digit patterns (every third in the quick tier); pairs whose byte size would reach rustc's "
             "object-size bound 2^61 are skipped. Oracle per pair: size == N * size_of::<T>(), align == align_of::<T>(), size == size_of::<[T; N]>(). Address walk: for 20 layouts (incl. zero-sized and packed) x N in 0..=65 and boundary lengths a zeroed heap value "
             "is built; every way of viewing the array as a slice (as_slice, as_mut_slice, Deref, DerefMut, AsRef, AsMut, Borrow, BorrowMut, by-reference and by-mutable-reference iteration) must be (array address, N), element i at base + i * size_of::<T>(), the last element ending exactly at the array's end; for the zero-sized layouts also at N in {2^32-1, 2^32, 2^32+3, 2^40+1, 2^62} (such arrays cost no memory). A case is one (layout, length) pair or one walk; non-trivial = N > 0."),
    'exhaustive': True,
    'exhaustive_scope': 'N <= 1024 x the layout family is complete; lengths above 1024 are a lattice over every binary depth to 62',
    'assumptions': COMMON_ASSUME + ["the layout of a storage node depends on T only through (size, align), which the grid covers up to 64/64; field-by-field construction through ConstDefault is decided under C19"],
}


def own_part():
    """C03: quick = dev build (debug assertions on) at the quick caps; thorough = release build at the deep caps plus the dev build at the quick caps."""
    def run(part, tier):
        cargo_build('e_own', 'dev')
        res = run_engine(bin_path('e_own', 'dev'), 'C03', 'quick', shards=1, timeout=3600)
        for v in res['violations']:
            v['substrate'] = 'dev'
        subs = {'dev(opt-level=0,debug-assertions)': {'evaluations': res['result'].get('evaluations'), 'states': res['result'].get('states'), 'violations': len(res['violations'])}}
        # AddressSanitizer substrate with the heap-payload element (a double drop is a double free): reduced caps
        r3 = asan_run('e_own', 'C03', 'quick', 1, extra_args=['--caps', '3,2,4' if tier == 'quick' else '3,3,4', '--budget', '600'])
        res['violations'] += r3['violations']
        subs['asan(nightly,-Zsanitizer=address)'] = {'evaluations': r3['result'].get('evaluations'), 'states': r3['result'].get('states'), 'violations': len(r3['violations'])}
        if tier == 'thorough':
            cargo_build('e_own', 'release')
            r2 = run_engine(bin_path('e_own', 'release'), 'C03', 'thorough', shards=1, timeout=4 * 3600, label='release')
            for v in r2['violations']:
                v['substrate'] = 'release'
            subs['release(opt-level=3)'] = {'evaluations': r2['result'].get('evaluations'), 'states': r2['result'].get('states'), 'violations': len(r2['violations'])}
            # Miri substrate (Tree Borrows) at the smallest caps: every operation of the alphabet is interpreted at least once
            r4 = miri_run('e_own', 'C03', 1, extra_args=['--caps', '2,1,2', '--budget', '3000'])
            res['violations'] += r4['violations']
            subs['miri(nightly, tree borrows)'] = {'evaluations': r4['result'].get('evaluations'), 'states': r4['result'].get('states'), 'violations': len(r4['violations']), 'args': ['--caps', '2,1,2']}
            viols = res['violations'] + r2['violations']
            merged = r2['result']
            for k in ('evaluations', 'distinct_nontrivial', 'states', 'transitions'):
                merged[k] = merged.get(k, 0) + res['result'].get(k, 0)
            merged.setdefault('per_unit', {}).update({'dev:' + k: v for k, v in res['result'].get('per_unit', {}).items()})
            res = {'violations': viols, 'result': merged}
        res['substrates'] = subs
        return res

    def replay(part, body):
        if body.get('substrate') == 'miri':
            env = dict(MIRI_ENV, CARGO_TARGET_DIR=miri_target())
            rc, out, err = run_engine_once(miri_cmd('e_own'), ['--mode', 'C03', '--tier', 'thorough', '--only', body['desc']], env, 3600)
            viols, result, _ = parse_engine_output(out)
            if rc not in (0, 2) or result is None:
                return [{'desc': body['desc'], 'what': f'miri reports: {err[-600:]}'}]
            return viols
        if body.get('substrate') == 'asan':
            cargo_build('e_own', 'dev', toolchain='nightly', extra_env=ASAN_ENV, target_dir=asan_target(), extra_args=['--target', ASAN_TRIPLE])
            binary, env = bin_path('e_own', 'dev', asan_target(), ASAN_TRIPLE), ASAN_RUN_ENV
        else:
            prof = 'release' if body.get('substrate') == 'release' else 'dev'
            cargo_build('e_own', prof)
            binary, env = bin_path('e_own', prof), None
        rc, out, err = run_engine_once(binary, ['--mode', 'C03', '--tier', 'thorough', '--only', body['desc']], env, 600)
        viols, result, _ = parse_engine_output(out)
        if rc not in (0, 2) or result is None:
            return [{'desc': body['desc'], 'what': f'process died (status {rc}): {err[-400:]}'}]
        if result.get('evaluations', 0) == 0:
            raise Machinery(f"replay descriptor matched no case: {body['desc']}")
        return viols
    return {'name': 'ownership-pool-bfs', 'run': run, 'replay': replay}


PROPS['C03'] = {
    'level': 'model_checking',
    'technique': 'explicit-state BFS to fixpoint over pools of live containers: every ownership-moving operation from every reachable pool state, replayed on the real code, against a Vec-of-ids reference model and a drop ledger',
    'parts': [own_part()],
    'rule': ("system = a pool of live containers holding identity-carrying elements: GenericArray, its by-value iterator (with origin and position), native array, tuple, Vec, Box<[T]>, Box<GenericArray>, vec::IntoIter (boxed into_iter), nested GenericArray, and elements "
             "handed back to the caller. Alphabet (70 operations, each consuming and producing pool members, so outputs of one are inputs of the next): generate (stack, boxed, nested), drop, into_iter, next, next_back, nth(k)/nth_back(k) for every k in 0..=len+1, "
             "iterator clone, clone_from into another live iterator at any position, fold/rfold (dropping), count, last, collect into array / Box / Vec, append, prepend, pop_back, pop_front, split at every K, concat, remove(i)/swap_remove(i) for every i, map (pass-through, replacing, & and &mut forms), zip (keep left, keep right, "
             "&x&, owned x &, &mut x owned, and six mixed-type forms whose other operand is a plain u32 array: &, &mut, owned, as left operand, boxed), fold, Clone, flatten, unflatten (every divisor), to/from native array, to/from tuple, to Vec / Box<[T]> and back (right length and both neighbouring wrong lengths), Box::new / unbox, into_vec, into_boxed_slice, "
             "try_from_vec, try_from_boxed_slice, boxed into_iter + next/next_back, boxed map/zip/fold/clone. Bounds (Lmax, containers, live elements): quick (3,3,3) and (5,2,5) for 4-byte tracked, (3,2,4) zero-sized tracked, (2,2,3) 24-byte tracked; "
             "thorough (5,3,6), (4,3,5) zero-sized, (3,3,4) 24-byte and plain u32, in the release build. State key = sorted multiset of (kind, type-level length, outer length, element count, iterator front/back/origin). After every transition: each container's contents equal "
             "the reference, live ids undropped, all other ids dropped exactly once, nothing observed after drop (zero-sized: totals), and dropping the whole post-state leaves every element dropped exactly once. A case is one (state, operation)."),
    'exhaustive': True,
    'exhaustive_scope': 'BFS to fixpoint (no depth bound) within the stated caps on length, pool size and live elements; fixpoint_reached is reported per unit',
    'assumptions': COMMON_ASSUME + [
        "state-key soundness: the crate is parametric in the element type, so its behaviour can depend only on container kind, type-level length, iterator indices and origin - never on element identities; containers of equal shape are interchangeable",
        "elements created by an operation (generate, replacing map, clone) are identified by reading the new container; their creation order is decided under C08, not here",
    ],
}

# engine sources that are this property's own client code (a type/trait error there, while the crate itself builds, is a violation)
PROPS['C02']['sources'] = ['e_views/src/main.rs']
PROPS['C10']['sources'] = ['e_views/src/c10.rs']
PROPS['C11']['sources'] = ['e_views/src/c11.rs']
PROPS['C03']['sources'] = ['e_own/src/gen.rs', 'e_own/src/main.rs']
PROPS['C04']['sources'] = ['e_fault/src/c04.rs']
PROPS['C05']['sources'] = ['e_fault/src/c05.rs']
PROPS['C06']['sources'] = ['e_iter/src/main.rs']
PROPS['C07']['sources'] = ['e_ops/src/c07.rs']
PROPS['C08']['sources'] = ['e_ops/src/c08.rs']
PROPS['C09']['sources'] = ['e_seq/src/c09.rs']
PROPS['C13']['sources'] = ['e_misc/src/c13.rs']
PROPS['C17']['sources'] = ['e_misc/src/c17.rs']
PROPS['C19']['sources'] = ['e_misc/src/c19.rs']
PROPS['C14']['sources'] = ['e_hex/src/main.rs']
PROPS['C15']['sources'] = ['e_alloc/src/main.rs']
PROPS['C16']['sources'] = ['e_alloc/src/main.rs']
PROPS['C01']['level_text'] = "Every (element layout, length) pair of a stated finite family is evaluated by rustc's own layout computation on the real type definitions and compared with [T; N]; complete for every N <= 1024 (every digit pattern of the storage recursion to depth 10) and a lattice over every binary depth to 62; real values are built and their element addresses walked for small and boundary lengths. Exploration is the right level: the statement quantifies over inputs (layouts x lengths), not histories."
PROPS['C02']['level_text'] = 'Every (length, source length, entry point, element type) of a stated lattice, and the full matrix of shared and mutable views, is executed on the real code with pointer/length oracles on canaried buffers; complete in the source length around N for N <= 13. The quantifier is over inputs, so bounded exhaustive exploration is the matching level.'
PROPS['C03']['level_text'] = 'Explicit-state model checking: breadth-first search to fixpoint over pools of live containers, applying every one of 70 ownership-moving operations from every reachable state on the real code (stateless replay of histories, canonical state key with a soundness argument), each step compared with a Vec-of-ids reference model and a drop ledger, plus quiescence from every state. The property quantifies over all finite histories; within the stated caps on length, pool size and live elements every history is covered because BFS closes the state space.'
PROPS['C04']['level_text'] = "Fault enumeration: for every callback-bearing operation, receiver form, length and element-type combination of a stated lattice, every call into caller code is made to panic in its own execution, and a drop ledger decides exactly-once. One fault per execution is the property's quantifier (a second panic while unwinding aborts by language rule)."
PROPS['C05']['level_text'] = "Fault enumeration: for every internally-dropping operation from every reachable iterator position (and the builder/consumer/collecting/deserialising error paths), every choice of the single element whose destructor panics is executed; the run continues after the caught panic and the ledger decides 'never twice, never observed after drop'."
PROPS['C06']['level_text'] = 'Explicit-state model checking of the real iterator against two reference queues: BFS over (origin, front, len) states with every operation and argument from every state, consuming operations evaluated from every state, closed-form and stateless cross-checks as vacuity guards. The property quantifies over all interleavings; for each listed K the whole state graph is covered.'
PROPS['C07']['level_text'] = "Fault enumeration over the environment of a collecting call: the source iterator's item count, size-hint policy, fusedness and a panic at every next() call are chosen by the enumerator, for all four entry points."
PROPS['C08']['level_text'] = 'Bounded exhaustive exploration of (operation, receiver/argument form, element-type combination, length) with recording closures; the statement is about inputs and configurations (forms), which the lattice enumerates completely.'
PROPS['C09']['level_text'] = 'Bounded exhaustive exploration, complete for N <= 8 in every K, M and index, against the Vec operations, with a ledger and address oracles; an AddressSanitizer substrate monitors every execution because an over-read that is then discarded is invisible to value oracles.'
PROPS['C10']['level_text'] = 'Bounded exhaustive exploration of (N, L, form, element type) with pointer/length oracles, complete in L up to 4N+3 for N < 100 plus slices longer than u32::MAX of zero-sized elements; the same calls are executed by the const evaluator under C18.'
PROPS['C11']['level_text'] = 'Bounded exhaustive exploration of every (N, M) <= 6 plus boundary pairs, in the three receiver forms, with identity, ledger and address oracles.'
PROPS['C12']['level_text'] = 'Bounded exhaustive exploration of a generated accept/reject program family executed by rustc; every reject program is paired with an accept twin that differs in one length, bound or lifetime, and counts only if rejected with an error of the expected class. The quantifier is over programs; the claim is the generated grammar at the stated bound, not all programs.'
PROPS['C13']['level_text'] = 'Bounded exhaustive exploration: all pairs of arrays over three-letter alphabets for N <= 4 (incl. incomparable and same-object operands) and difference-position families for larger N, against the slices; hashing is compared as a sequence of hasher calls.'
PROPS['C14']['level_text'] = 'Bounded exhaustive exploration of (N, byte-at-index pattern, precision, case) on two builds of the crate (faster-hex off/on) against a per-byte reference, with every byte value at every index and every precision around each internal threshold.'
PROPS['C15']['level_text'] = "Bounded exhaustive exploration of (conversion, N, element, source length, capacity or hint policy) under a recording global allocator; block identity and allocator silence decide 'reuses the allocation', child processes on a 256 KiB stack decide the large constructions."
PROPS['C16']['level_text'] = "Fault enumeration under a recording allocator: every case's allocator log is judged, a panic is injected at every closure call, and every allocator request of the operation is made to fail in turn in a child process whose way of dying is the oracle."
PROPS['C17']['level_text'] = 'Fault enumeration over the deserialisation environment (scripted Deserializer/SeqAccess: count x up-front hint x later hints x element error at every index) plus real formats and a recording Serializer.'
PROPS['C18']['level_text'] = "Bounded exhaustive exploration of generated const items executed by rustc's const evaluator (E0080 on UB or failed expectation) and then at run time; must-fail items guard the negative side."
PROPS['C19']['level_text'] = 'Bounded exhaustive exploration of (N, element type, prior contents) for zeroize and (N, element type) for the constant default in const, static and run-time positions, for every N <= 65 and boundary lengths.'
PROPS['C20']['level_text'] = 'Bounded exhaustive exploration of generated macro invocations: rustc decides the inferred length type against explicit annotations, the built program decides contents and evaluation order.'
