#!/usr/bin/env python3
"""Fold seeded/<id>/detected.json into meta.json and write seeded/RESULTS.md (which checks catch which seeded change)."""
import json, glob, os, re
root = os.path.dirname(os.path.dirname(os.path.abspath(__file__)))
rows = []
for d in sorted(glob.glob(os.path.join(root, 'seeded', '*/'))):
    sid = os.path.basename(d.rstrip('/'))
    mp = os.path.join(d, 'meta.json')
    if not os.path.exists(mp):
        continue
    meta = json.load(open(mp))
    det = json.load(open(os.path.join(d, 'detected.json'))) if os.path.exists(os.path.join(d, 'detected.json')) else {}
    by = sorted(c for c, r in det.items() if r.get('rc') == 1)
    ran = sorted(det.keys())
    own = meta['property']
    meta['detected_by'] = by
    meta['checks_run'] = ran
    meta['witness'] = {c: det[c].get('first', '').replace('violation: ', '') for c in by}
    # one-line description: first bullet / heading of the agent's notes
    notes = open(os.path.join(d, 'notes.md')).read() if os.path.exists(os.path.join(d, 'notes.md')) else ''
    if meta.get('needs_to_manifest', '').startswith('(see'):
        m = re.search(r'(?im)^(?:#+\s*|\*\*)?(?:what is needed|needs|what it needs|needed to manifest|manifest)[^\n]*\n+(.{20,400}?)(?:\n\n|\Z)', notes, re.S)
        if m:
            meta['needs_to_manifest'] = ' '.join(m.group(1).split())[:400]
    json.dump(meta, open(mp, 'w'), indent=1)
    rows.append((sid, own, ', '.join(meta.get('files_changed', [])), by, ran, meta['witness'].get(own, '')))
with open(os.path.join(root, 'seeded', 'RESULTS.md'), 'w') as f:
    f.write('# Seeded changes and the checks that catch them\n\nEvery change was written by an independent sub-agent (given only the property text and a scratch worktree), then confirmed by `lib/seedverify.sh` '
            '(demo passes on the pristine tree, the crate\'s own suite passes with the change under default and full features, demo fails with the change). '
            'Detection was measured by `lib/seedeval.py` (change applied in a scratch worktree, checks run in shadow mode; `/repo` is never touched).\n\n')
    f.write('| id | property | files | caught by (quick tier) | checks run | first witness of the property\'s own check |\n|---|---|---|---|---|---|\n')
    for sid, own, files, by, ran, wit in rows:
        f.write(f'| {sid} | {own} | {files} | {", ".join(by) or "—"} | {len(ran)} | `{wit[:110]}` |\n')
    missed = [r[0] for r in rows if r[1] not in r[3]]
    f.write(f'\n{len(rows)} seeded changes; {len(rows) - len(missed)} caught by the check of the property they were written against; not caught by their own check: {", ".join(missed) or "none"}.\n')
print(len(rows), 'rows')
