#!/usr/bin/env python3
"""usage: lib/seedimport.py <verify-json> <tag>   — copy a confirmed seeded change (staged dir named in the json) into seeded/<PID>-<tag>m<k>/ with meta.json"""
import json, os, shutil, sys, re
root = os.path.dirname(os.path.dirname(os.path.abspath(__file__)))
d = json.load(open(sys.argv[1])); tag = sys.argv[2]
src = d['dir']; parts = src.rstrip('/').split('/'); mk = parts[-1]; pid = parts[-3] if parts[-2] == 'out' else parts[-2]
sid = f'{pid}-{tag}{mk}'
if not d.get('applies'):
    print('skip (patch does not apply):', sid, d.get('err')); sys.exit(0)
confirmed = d.get('pristine_demo_rc') == 0 and d.get('suite_default_rc') == 0 and d.get('suite_full_rc') == 0 and d.get('mutant_demo_rc') not in (0, None)
dst = os.path.join(root, 'seeded', sid)
shutil.rmtree(dst, ignore_errors=True)
shutil.copytree(src, dst)
for junk in ('suite.log',):
    try: os.remove(os.path.join(dst, junk))
    except OSError: pass
meta = {'id': sid, 'property': pid, 'origin': 'independent sub-agent given only the property text and a scratch worktree' + (' (round %s: asked for changes that slip past bounded exhaustive checks)' % tag if tag else ''),
        'files_changed': sorted(set(re.findall(r'^\+\+\+ b/(\S+)', open(os.path.join(src, 'patch.diff')).read(), re.M))), 'needs_to_manifest': '(see notes.md)',
        'confirmed_by_me': {'how': 'lib/seedverify.sh in a scratch worktree of /repo HEAD (removed afterwards)', 'demo_passes_on_pristine': d.get('pristine_demo_rc') == 0,
                            'suite_default_features_passes_with_patch': d.get('suite_default_rc') == 0, 'suite_default_passed': d.get('suite_default_passed'),
                            'suite_full_features_passes_with_patch': d.get('suite_full_rc') == 0, 'suite_full_passed': d.get('suite_full_passed'),
                            'demo_fails_with_patch': d.get('mutant_demo_rc') not in (0, None), 'all_confirmed': bool(confirmed)}, 'detected_by': None}
json.dump(meta, open(os.path.join(dst, 'meta.json'), 'w'), indent=1)
print(sid, 'confirmed' if confirmed else f'NOT-CONFIRMED {d}')
