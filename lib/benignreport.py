#!/usr/bin/env python3
"""Table of the property-PRESERVING changes under /verif/benign/<id>/ and what every quick check said about them
(measured by `lib/seedeval.py --dir benign --checks all`).  A check that exits 1 on one of them is a FALSE ALARM
(or the change is not actually property-preserving - then it is moved to seeded/ with an explanation)."""
import json, os, sys

ROOT = os.path.dirname(os.path.dirname(os.path.abspath(__file__)))
B = os.path.join(ROOT, 'benign')
rows, alarms, mach = [], [], []
for s in sorted(os.listdir(B)):
    d = os.path.join(B, s)
    if not os.path.isdir(d):
        continue
    meta = json.load(open(os.path.join(d, 'meta.json')))
    det = json.load(open(os.path.join(d, 'detected.json'))) if os.path.exists(os.path.join(d, 'detected.json')) else {}
    held = sorted(c for c, r in det.items() if r.get('rc') == 0)
    viol = sorted(c for c, r in det.items() if r.get('rc') == 1)
    m = sorted(c for c, r in det.items() if r.get('rc') not in (0, 1))
    alarms += [(s, c, det[c].get('first', '')) for c in viol]
    mach += [(s, c) for c in m]
    rows.append(f"| {s} | {', '.join(meta.get('files_changed', []))} | {meta.get('title', '')} | {len(held)} | {', '.join(viol) or '-'} | {', '.join(m) or '-'} |")
out = ["# Property-preserving changes and what the checks say about them", "",
       "Written by independent sub-agents (given all 20 property statements and a scratch worktree, nothing from `/verif`),",
       "each confirmed to pass the crate's own suite under default and all features. Every quick check was run against each",
       "(`lib/seedeval.py --dir benign --checks all`): the expected verdict is HELD everywhere.", "",
       "| id | files | what changes | checks HELD | checks reporting a violation | machinery failures |", "|---|---|---|---|---|---|"] + rows
open(os.path.join(B, 'RESULTS.md'), 'w').write("\n".join(out) + "\n")
print(len(rows), 'rows;', len(alarms), 'alarms;', len(mach), 'machinery failures')
for a in alarms:
    print('ALARM', *a)
for a in mach:
    print('MACHINERY', *a)
