"""C18 — the const API evaluates at compile time without UB and agrees with run time.

A generated crate of `const` items, one per (const fn, N, L, element type, shared/mut form).  The executor is
rustc's const evaluator (which rejects out-of-bounds / dangling pointers, uninitialised reads, invalid values
and failed asserts with E0080); every item asserts natively computed expectations and returns a digest.  The
built binary then calls the very same functions at run time (through black-boxed function pointers) and compares
with the const-evaluated digests.  A second crate holds must-fail items (each must be an E0080).
"""
import json, os, re, subprocess, time, shutil, bisect
import vdriver
from vdriver import Machinery, BASE, REPO, NCPU, env_base

TYPES = {
    # suffix: (type, value at index i, conversion to u64, is zero-sized)
    'u8': ('u8', '((i * 7 + 3) % 251) as u8', '*x as u64', False),
    'u32': ('u32', '(i as u32).wrapping_mul(2654435761).wrapping_add(17)', '*x as u64', False),
    'p3': ('(u8, u16)', '((i % 200) as u8, ((i * 13 + 5) % 65521) as u16)', '(x.0 as u64) | ((x.1 as u64) << 8)', False),
    'unit': ('()', '()', '7', True),
    # unusual representations: over-aligned (size 16 for one payload byte), 3-byte, and a type with invalid bit patterns
    'a16': ('A16', 'A16(((i * 5 + 1) % 251) as u8)', 'x.0 as u64', False),
    'b3': ('[u8; 3]', '[(i % 251) as u8, ((i * 3) % 253) as u8, 9]', '(x[0] as u64) | ((x[1] as u64) << 8) | ((x[2] as u64) << 16)', False),
    'ch': ('char', "(b'A' + (i % 26) as u8) as char", '*x as u64', False),
}

HEAD = '''#![allow(unused, dead_code, clippy::all, unused_unsafe)]
use core::mem::MaybeUninit;
use generic_array::typenum::{Const, Unsigned, U0, U1, U2, U3, U5, U7};
use generic_array::{arr, ArrayLength, ConstArrayLength, GenericArray as GA, IntoArrayLength};
use generic_array::internals::{ArrayBuilder, ArrayConsumer, IntrusiveArrayBuilder};

pub type Out = (usize, usize, u64, u64, isize);
#[derive(Clone, Copy)]
#[repr(align(16))]
pub struct A16(pub u8);
type N<const K: usize> = ConstArrayLength<K>;

const fn mix(h: u64, v: u64) -> u64 { (h ^ v).wrapping_mul(0x100000001b3) }
'''

PER_TYPE = '''
// ------------------------------------------------------------------ element type @T@
const fn mk_@S@(i: usize) -> @T@ { @MK@ }
const fn cv_@S@(x: &@T@) -> u64 { @CV@ }
const fn dg_@S@(s: &[@T@]) -> u64 { let mut h = 0xcbf29ce484222325u64; let mut i = 0; while i < s.len() { h = mix(h, cv_@S@(&s[i])); i += 1; } mix(h, s.len() as u64) }
const fn src_@S@<const L: usize>() -> [@T@; L] { let mut a = [mk_@S@(0); L]; let mut i = 0; while i < L { a[i] = mk_@S@(i); i += 1; } a }
const fn off_@S@(a: *const @T@, base: *const @T@) -> isize { @OFF@ }

const fn chunks_@S@<const K: usize, const L: usize>() -> Out where Const<K>: IntoArrayLength {
    let src = src_@S@::<L>();
    let (c, r) = GA::<@T@, N<K>>::chunks_from_slice(&src);
    if K == 0 { assert!(L == 0 && c.len() == 0 && r.len() == 0); return (0, 0, 0, 0, 0); }
    assert!(c.len() == L / K);
    assert!(r.len() == L % K);
    // offsets are only taken for non-empty parts: where an empty part points is not pinned (C10), and offset_from on
    // pointers into different allocations would be OUR error, not the crate's
    let off = if r.len() > 0 { off_@S@(r.as_ptr(), src.as_ptr()) } else { ((L / K) * K) as isize };
    assert!(off == ((L / K) * K) as isize || @ZST@);
    assert!(c.len() == 0 || off_@S@(c.as_ptr() as *const @T@, src.as_ptr()) == 0);
    let mut k = 0;
    while k < c.len() { let ch = c[k].as_slice(); assert!(ch.len() == K); let mut m = 0; while m < K { assert!(cv_@S@(&ch[m]) == cv_@S@(&src[k * K + m])); m += 1; } k += 1; }
    let mut j = 0;
    while j < r.len() { assert!(cv_@S@(&r[j]) == cv_@S@(&src[(L / K) * K + j])); j += 1; }
    let flat = GA::<@T@, N<K>>::slice_from_chunks(c);
    assert!(flat.len() == (L / K) * K);
    assert!(flat.len() == 0 || off_@S@(flat.as_ptr(), src.as_ptr()) == 0);
    (c.len(), r.len(), dg_@S@(flat), dg_@S@(r), off)
}

const fn chunks_mut_@S@<const K: usize, const L: usize>() -> Out where Const<K>: IntoArrayLength {
    let mut src = src_@S@::<L>();
    let base = src.as_ptr();
    if K == 0 { let (c, r) = GA::<@T@, N<K>>::chunks_from_slice_mut(&mut src); assert!(L == 0 && c.len() == 0 && r.len() == 0); return (0, 0, 0, 0, 0); }
    let (nc, nr);
    {
        let (c, r) = GA::<@T@, N<K>>::chunks_from_slice_mut(&mut src);
        nc = c.len(); nr = r.len();
        assert!(nc == L / K && nr == L % K);
        assert!(nr == 0 || off_@S@(r.as_ptr(), base) == ((L / K) * K) as isize || @ZST@);
        let mut k = 0;
        while k < nc { let ch = c[k].as_mut_slice(); let mut m = 0; while m < K { ch[m] = mk_@S@(1000 + k * K + m); m += 1; } k += 1; }
        let mut j = 0;
        while j < nr { r[j] = mk_@S@(5000 + j); j += 1; }
        let flat = GA::<@T@, N<K>>::slice_from_chunks_mut(c);
        assert!(flat.len() == nc * K);
        if flat.len() > 0 { flat[flat.len() - 1] = mk_@S@(9000); }
    }
    // every write landed at the right index of the source, nothing else changed
    let mut i = 0;
    while i < L {
        let want = if i < nc * K { if i == nc * K - 1 { mk_@S@(9000) } else { mk_@S@(1000 + i) } } else { mk_@S@(5000 + i - nc * K) };
        assert!(cv_@S@(&src[i]) == cv_@S@(&want));
        i += 1;
    }
    (nc, nr, dg_@S@(&src), 0, 0)
}

const fn reinterpret_@S@<const K: usize, const L: usize>() -> Out where Const<K>: IntoArrayLength {
    let mut src = src_@S@::<L>();
    let base = src.as_ptr();
    // shared forms
    let ok = match GA::<@T@, N<K>>::try_from_slice(&src) {
        Ok(a) => { assert!(L == K); assert!(a.as_slice().len() == K); assert!(off_@S@(a.as_slice().as_ptr(), base) == 0); assert!(dg_@S@(a.as_slice()) == dg_@S@(&src)); true }
        Err(_) => { assert!(L != K); false }
    };
    if ok {
        let a = GA::<@T@, N<K>>::from_slice(&src);
        assert!(off_@S@(a.as_slice().as_ptr(), base) == 0 && a.as_slice().len() == K);
    }
    // mutable forms
    match GA::<@T@, N<K>>::try_from_mut_slice(&mut src) {
        Ok(a) => { assert!(L == K); if K > 0 { a.as_mut_slice()[K - 1] = mk_@S@(777); } }
        Err(_) => { assert!(L != K); }
    }
    if ok {
        let a = GA::<@T@, N<K>>::from_mut_slice(&mut src);
        if K > 0 { a.as_mut_slice()[0] = mk_@S@(778); }
        if K > 0 { assert!(cv_@S@(&src[0]) == cv_@S@(&mk_@S@(778))); assert!(K == 1 || cv_@S@(&src[K - 1]) == cv_@S@(&mk_@S@(777))); }
    }
    (K, L, dg_@S@(&src), ok as u64, 0)
}

const fn byvalue_@S@<const K: usize>() -> Out where Const<K>: IntoArrayLength {
    assert!(GA::<@T@, N<K>>::len() == K);
    let a = GA::<@T@, N<K>>::from_array(src_@S@::<K>());
    let d = dg_@S@(a.as_slice());
    assert!(d == dg_@S@(&src_@S@::<K>()));
    let mut a = a;
    if K > 0 { a.as_mut_slice()[K / 2] = mk_@S@(4242); }
    let back: [@T@; K] = a.into_array();
    if K > 0 { assert!(cv_@S@(&back[K / 2]) == cv_@S@(&mk_@S@(4242))); }
    // uninit + element writes + assume_init
    let mut u = GA::<@T@, N<K>>::uninit();
    let mut i = 0;
    while i < K { u.as_mut_slice()[i] = MaybeUninit::new(mk_@S@(i + 1)); i += 1; }
    let init = unsafe { GA::<@T@, N<K>>::assume_init(u) };
    let d2 = dg_@S@(init.as_slice());
    let arr: [@T@; K] = init.into_array();
    let mut i = 0;
    while i < K { assert!(cv_@S@(&arr[i]) == cv_@S@(&mk_@S@(i + 1))); i += 1; }
    (K, 0, d, d2, 0)
}

const fn native_chunks_@S@<const K: usize, const C: usize>() -> Out where Const<K>: IntoArrayLength {
    let mut src = [src_@S@::<K>(); C];
    let base = src.as_ptr();
    let d;
    {
        let g: &[GA<@T@, N<K>>] = GA::<@T@, N<K>>::from_chunks(&src);
        assert!(g.len() == C);
        assert!(off_@S@(g.as_ptr() as *const @T@, base as *const @T@) == 0);
        let mut h = 0u64; let mut k = 0;
        while k < C { h = mix(h, dg_@S@(g[k].as_slice())); k += 1; }
        d = h;
        let back: &[[@T@; K]] = GA::<@T@, N<K>>::into_chunks(g);
        assert!(back.len() == C);
        let flat = GA::<@T@, N<K>>::slice_from_chunks(g);
        assert!(flat.len() == C * K);
    }
    {
        let g: &mut [GA<@T@, N<K>>] = GA::<@T@, N<K>>::from_chunks_mut(&mut src);
        if C > 0 && K > 0 { g[C - 1].as_mut_slice()[K - 1] = mk_@S@(31337); }
        let back: &mut [[@T@; K]] = GA::<@T@, N<K>>::into_chunks_mut(g);
        assert!(back.len() == C);
        if C > 0 && K > 0 { back[0][0] = mk_@S@(31338); }
    }
    if C > 0 && K > 0 { assert!(cv_@S@(&src[C - 1][K - 1]) == cv_@S@(&mk_@S@(31337)) || (C == 1 && K == 1)); assert!(cv_@S@(&src[0][0]) == cv_@S@(&mk_@S@(31338))); }
    (K, C, d, 0, 0)
}
'''

TAIL_FIXED = '''
// ------------------------------------------------------------------ misc const API
const fn transmute_case() -> Out {
    let x: u32 = unsafe { generic_array::const_transmute::<[u8; 4], u32>([1, 2, 3, 4]) };
    assert!(x == u32::from_ne_bytes([1, 2, 3, 4]));
    let y: [u16; 2] = unsafe { generic_array::const_transmute::<GA<u16, U2>, [u16; 2]>(GA::<u16, U2>::from_array([9, 10])) };
    assert!(y[0] == 9 && y[1] == 10);
    (4, 0, x as u64, y[1] as u64, 0)
}
const fn builders_case<const K: usize>() -> Out where Const<K>: IntoArrayLength {
    let b = ArrayBuilder::<u8, N<K>>::new();
    let full = b.is_full();
    assert!(full == (K == 0));
    core::mem::forget(b);
    let mut arr = GA::<u8, N<K>>::uninit();
    let ib = IntrusiveArrayBuilder::new(&mut arr);
    assert!(ib.is_full() == (K == 0));
    core::mem::forget(ib);
    core::mem::forget(arr);
    let c = ArrayConsumer::new(GA::<u8, N<K>>::from_array([5u8; K]));
    core::mem::forget(c);
    (K, full as usize, 0, 0, 0)
}
const fn builders_finish_empty() -> Out {
    let b = ArrayBuilder::<u32, U0>::new();
    let a: GA<u32, U0> = unsafe { b.assume_init() };
    let mut arr = GA::<u32, U0>::uninit();
    let ib = IntrusiveArrayBuilder::new(&mut arr);
    unsafe { ib.finish() };
    (a.as_slice().len(), 0, 0, 0, 0)
}
'''


def lattice(tier):
    ks = [0, 1, 2, 3, 7, 8, 16, 17, 33, 64, 100, 1024]
    if tier == 'quick':
        return ks

    return ks


def ls_for(k, tier):
    if k < 100:
        hi = 3 * k + 2
        if tier == 'quick' and k > 17:
            v = sorted(set([0, 1, k - 1, k, k + 1, 2 * k - 1, 2 * k, 2 * k + 1, 3 * k - 1, 3 * k, 3 * k + 1, 3 * k + 2]))
            return [x for x in v if x >= 0]
        return list(range(0, hi + 1))
    return sorted(set([0, 1, k - 1, k, k + 1, 2 * k - 1, 2 * k, 2 * k + 1, 3 * k + 2]))


def build_items(tier):
    items = []   # (name, expr)  -> const NAME: Out = expr;
    for s, (t, mk, cv, zst) in TYPES.items():
        for k in lattice(tier):
            for l in ls_for(k, tier):
                if k == 0 and l > 0:
                    continue   # must-fail family
                if zst and l > 64:
                    l_ok = l
                items.append((f'chunks_{s}_{k}_{l}', f'chunks_{s}::<{k}, {l}>()'))
                items.append((f'chunks_mut_{s}_{k}_{l}', f'chunks_mut_{s}::<{k}, {l}>()'))
            for l in sorted(set([0, 1, max(k - 1, 0), k, k + 1, 2 * k, 3 * k + 2])):
                items.append((f'reinterpret_{s}_{k}_{l}', f'reinterpret_{s}::<{k}, {l}>()'))
            items.append((f'byvalue_{s}_{k}', f'byvalue_{s}::<{k}>()'))
            for c in range(0, 4):
                if k * c <= 4096:
                    items.append((f'native_chunks_{s}_{k}_{c}', f'native_chunks_{s}::<{k}, {c}>()'))
    items.append(('transmute', 'transmute_case()'))
    items.append(('builders_finish_empty', 'builders_finish_empty()'))
    for k in lattice(tier):
        items.append((f'builders_{k}', f'builders_case::<{k}>()'))
    return items


def extra_items(tier):
    """const-default and arr! items: plain const items with their own expectations (text, lines)"""
    out = []
    for k in [0, 1, 2, 3, 5, 7, 8, 16, 17, 33, 64, 100, 255, 256, 1000, 1024]:
        out.append((f'cdefault_{k}', f'{{ let a: GA<u32, N<{k}>> = GA::<u32, N<{k}>>::const_default(); let mut i = 0; let mut h = 0u64; while i < {k} {{ assert!(a.as_slice()[i] == 0); h = mix(h, a.as_slice()[i] as u64); i += 1; }} assert!(a.as_slice().len() == {k}); ({k}, 0, h, 0, 0) }}'))
        out.append((f'arr_type_{k}', f'{{ let a = arr![9u8; N<{k}>]; let mut i = 0; while i < {k} {{ assert!(a.as_slice()[i] == 9); i += 1; }} assert!(a.as_slice().len() == {k}); ({k}, 0, 9, 0, 0) }}'))
        out.append((f'arr_const_{k}', f'{{ let a: GA<u8, N<{k}>> = arr![9u8; {k}]; let mut i = 0; while i < {k} {{ assert!(a.as_slice()[i] == 9); i += 1; }} assert!(a.as_slice().len() == {k}); ({k}, 0, 9, 0, 0) }}'))
    out.append(('arr_type_1025', '{ let a = arr![9u8; generic_array::typenum::Add1<generic_array::typenum::U1024>]; let mut i = 0; while i < 1025 { assert!(a.as_slice()[i] == 9); i += 1; } (a.as_slice().len(), 0, 9, 0, 0) }'))
    out.append(('arr_type_3000', '{ let a = arr![9u16; generic_array::typenum::Prod<U3, generic_array::typenum::U1000>]; assert!(a.as_slice().len() == 3000 && a.as_slice()[2999] == 9); (3000, 0, 9, 0, 0) }'))
    for k in [0, 1, 2, 3, 5, 8, 17, 33, 64]:
        lst = ', '.join(f'{(i * 3 + 1) % 256}u8' for i in range(k))
        out.append((f'arr_list_{k}', f'{{ let a: GA<u8, N<{k}>> = arr![{lst}]; let mut i = 0; let mut h = 0u64; while i < {k} {{ assert!(a.as_slice()[i] as usize == (i * 3 + 1) % 256); h = mix(h, a.as_slice()[i] as u64); i += 1; }} ({k}, 0, h, 0, 0) }}'))
        out.append((f'arr_list_trailing_{k}', f'{{ let a: GA<u8, N<{k}>> = arr![{lst}{"," if k else ""}]; (a.as_slice().len(), 0, 0, 0, 0) }}'))
    return out


FAIL_ITEMS = [
    ('from_slice_short', 'GA::<u8, U3>::from_slice(&[1u8, 2]).as_slice().len()'),
    ('from_slice_long', 'GA::<u8, U3>::from_slice(&[1u8, 2, 3, 4]).as_slice().len()'),
    ('from_slice_u0_nonempty', 'GA::<u8, U0>::from_slice(&[1u8]).as_slice().len()'),
    ('from_slice_zst_long', 'GA::<(), U2>::from_slice(&[(), (), ()]).as_slice().len()'),
    ('from_mut_slice_short', '{ let mut b = [1u8, 2]; GA::<u8, U3>::from_mut_slice(&mut b).as_slice().len() }'),
    ('from_mut_slice_long', '{ let mut b = [1u8, 2, 3, 4]; GA::<u8, U3>::from_mut_slice(&mut b).as_slice().len() }'),
    ('from_mut_slice_zst_short', '{ let mut b = [(), ()]; GA::<(), U3>::from_mut_slice(&mut b).as_slice().len() }'),
    ('chunks_u0_nonempty', 'GA::<u8, U0>::chunks_from_slice(&[1u8]).1.len()'),
    ('chunks_mut_u0_nonempty', '{ let mut b = [1u8, 2]; GA::<u8, U0>::chunks_from_slice_mut(&mut b).1.len() }'),
    ('chunks_u0_zst_nonempty', 'GA::<(), U0>::chunks_from_slice(&[()]).1.len()'),
    ('const_transmute_size_mismatch', 'unsafe { generic_array::const_transmute::<[u8; 3], u32>([1, 2, 3]) as usize }'),
    ('const_transmute_source_larger', 'unsafe { generic_array::const_transmute::<[u8; 5], u32>([1, 2, 3, 4, 5]) as usize }'),
    ('const_transmute_array_to_shorter_native', 'unsafe { generic_array::const_transmute::<GA<u8, U3>, [u8; 2]>(GA::<u8, U3>::from_array([1, 2, 3]))[0] as usize }'),
    ('try_from_slice_unwrap_err', 'match GA::<u8, U3>::try_from_slice(&[1u8, 2]) { Ok(a) => a.as_slice().len(), Err(_) => panic!("LengthError as expected") }'),
]


def const_fns_in_repo():
    names = set()
    for f in os.listdir(os.path.join(REPO, 'src')):
        if f.endswith('.rs'):
            for m in re.finditer(r'pub\s+(?:const\s+unsafe|unsafe\s+const|const)\s+fn\s+([a-zA-Z0-9_]+)', open(os.path.join(REPO, 'src', f)).read()):
                names.add(m.group(1))
    return names


COVERED = {'len', 'as_slice', 'as_mut_slice', 'from_slice', 'try_from_slice', 'from_mut_slice', 'try_from_mut_slice', 'chunks_from_slice', 'chunks_from_slice_mut', 'slice_from_chunks',
           'slice_from_chunks_mut', 'from_array', 'into_array', 'from_chunks', 'from_chunks_mut', 'into_chunks', 'into_chunks_mut', 'uninit', 'assume_init', 'const_transmute', 'new', 'is_full',
           'finish', 'const_default'}


def write_main(dirp, items, extras, name):
    os.makedirs(os.path.join(dirp, 'src'), exist_ok=True)
    with open(os.path.join(dirp, 'Cargo.toml'), 'w') as f:
        f.write(f'[package]\nname = "{name}"\nversion = "0.0.0"\nedition = "2021"\n\n[dependencies]\ngeneric-array = {{ path = "{REPO}", features = ["alloc", "internals", "const-default"] }}\n\n'
                '[profile.dev]\ndebug = false\nincremental = false\nopt-level = 0\ncodegen-units = 16\n\n[workspace]\n')
    shutil.copy(os.path.join(REPO, 'Cargo.lock'), os.path.join(dirp, 'Cargo.lock'))
    src = [HEAD]
    for s, (t, mk, cv, zst) in TYPES.items():
        off = '0' if zst else 'unsafe { a.offset_from(base) }'
        src.append(PER_TYPE.replace('@T@', t).replace('@S@', s).replace('@MK@', mk).replace('@CV@', cv).replace('@OFF@', off).replace('@ZST@', 'true' if zst else 'false'))
    src.append(TAIL_FIXED)
    text = '\n'.join(src)
    lines = text.count('\n') + 1
    body = [text]
    ranges = []
    ln = lines
    allitems = [(n, e) for n, e in items] + [(n, e) for n, e in extras]
    for n, e in allitems:
        body.append(f'const C_{n.upper()}: Out = {e};')
        ln += 1
        ranges.append((ln, n))
    # run-time table: the same functions called through black-boxed function pointers
    body.append('fn table() -> Vec<(&\'static str, Out, fn() -> Out)> { vec![')
    for n, e in items:
        fnexpr = e[:-2]   # strip "()"
        body.append(f'    ("{n}", C_{n.upper()}, {fnexpr} as fn() -> Out),')
    for n, e in extras:
        body.append(f'    ("{n}", C_{n.upper()}, (|| -> Out {e}) as fn() -> Out),')
    body.append(''']}
fn main() {
    std::panic::set_hook(Box::new(|_| {}));
    let mut bad = 0usize; let mut n = 0usize;
    for (name, ct, f) in table() {
        n += 1;
        let f = std::hint::black_box(f);
        match std::panic::catch_unwind(move || f()) {
            Ok(rt) => if rt != ct { bad += 1; println!("MISMATCH {name}: const-evaluated {ct:?}, run time {rt:?}"); },
            Err(_) => { bad += 1; println!("RUNTIME-ASSERT {name}: the same call panics at run time"); }
        }
    }
    println!("RUNTIME-COMPARED {n} MISMATCHES {bad}");
}
''')
    with open(os.path.join(dirp, 'src', 'main.rs'), 'w') as f:
        f.write('\n'.join(body))
    return ranges


def write_fail(dirp, name):
    os.makedirs(os.path.join(dirp, 'src'), exist_ok=True)
    with open(os.path.join(dirp, 'Cargo.toml'), 'w') as f:
        f.write(f'[package]\nname = "{name}"\nversion = "0.0.0"\nedition = "2021"\n\n[lib]\npath = "src/lib.rs"\n\n[dependencies]\ngeneric-array = {{ path = "{REPO}", features = ["alloc", "internals", "const-default"] }}\n\n[profile.dev]\ndebug = false\nincremental = false\n\n[workspace]\n')
    shutil.copy(os.path.join(REPO, 'Cargo.lock'), os.path.join(dirp, 'Cargo.lock'))
    lines = ['#![allow(unused)]', 'use generic_array::typenum::*;', 'use generic_array::GenericArray as GA;']
    ranges = []
    for n, e in FAIL_ITEMS:
        lines.append(f'pub const F_{n.upper()}: usize = {e};')
        ranges.append((len(lines), n))
    open(os.path.join(dirp, 'src', 'lib.rs'), 'w').write('\n'.join(lines) + '\n')
    return ranges


def all_spans(d, acc):
    for sp in d.get('spans', []):
        s = sp
        for _ in range(20):
            if s is None:
                break
            acc.append((s.get('file_name', ''), s.get('line_start')))
            exp = s.get('expansion')
            s = exp.get('span') if exp else None
    for ch in d.get('children', []):
        all_spans(ch, acc)


def cargo_json(dirp, target, sub='check', nightly_flags=None):
    env = env_base()
    env['CARGO_TARGET_DIR'] = target
    cmd = ['cargo', sub, '--offline', '--message-format=json', '-q']
    if nightly_flags:
        cmd = ['cargo', '+nightly', sub, '--offline', '--message-format=json', '-q']
        env['RUSTFLAGS'] = nightly_flags
    return subprocess.run(cmd, cwd=dirp, env=env, stdout=subprocess.PIPE, stderr=subprocess.PIPE, text=True)


def errors_by_item(p, ranges, srcname, pkg):
    lines_to_item = {ln: n for ln, n in ranges}
    hits = {}
    other = []
    for line in p.stdout.splitlines():
        try:
            m = json.loads(line)
        except Exception:
            continue
        if m.get('reason') != 'compiler-message':
            continue
        d = m['message']
        if d.get('level') != 'error' or not d.get('spans'):
            continue
        if m.get('target', {}).get('name', '').replace('-', '_') != pkg:
            other.append('dependency: ' + d.get('message', '')[:200])
            continue
        code = (d.get('code') or {}).get('code') or 'E????'
        acc = []
        all_spans(d, acc)
        items = {lines_to_item[ln] for fn, ln in acc if fn.endswith(srcname) and ln in lines_to_item}
        if not items:
            other.append(f'{code}: {d.get("message", "")[:200]} at {[a for a in acc if a[0].endswith(srcname)][:3]}')
            continue
        for it in items:
            hits.setdefault(it, []).append(f'{code}: {d.get("message", "")[:160]}')
    return hits, other


def run(part, tier):
    t0 = time.time()
    items = build_items(tier)
    extras = extra_items(tier)
    cdir = os.path.join(BASE, 'corpus')
    target = os.path.join(BASE, 'target', 'corpus18')
    d = os.path.join(cdir, 'c18')
    shutil.rmtree(d, ignore_errors=True)
    ranges = write_main(d, items, extras, 'c18')
    viols = []
    # 1. const evaluation of every item (cargo check)
    p = cargo_json(d, target, 'check')
    hits, other = errors_by_item(p, ranges, 'src/main.rs', 'c18')
    for it, msgs in sorted(hits.items()):
        viols.append({'desc': f'C18;const;{it}', 'what': f'the compiler\'s const evaluator rejects this use of the const API: {msgs[:2]}', 'stable': True})
    if other and not hits:
        raise Machinery('corpus crate c18 does not compile, and the errors are not attributable to a const item: ' + '; '.join(other[:4]))
    if other and hits:
        viols.append({'desc': 'C18;const;unattributed', 'what': '; '.join(other[:3]), 'stable': True})
    ct_ok = len(items) + len(extras) - len(hits)
    # 1b. the same items under the const evaluator's EXTRA undefined-behaviour checks (nightly, -Zextra-const-ub-checks: validity of
    # every reference and value at every typed copy, not only where stable const evaluation must look): a const fn that forms a
    # dangling or over-long reference transiently is accepted by 1. and rejected here
    strict_hits = {}
    if not hits and not other:
        pn = cargo_json(d, os.path.join(BASE, 'target', 'corpus18n'), 'check', nightly_flags='-Zextra-const-ub-checks')
        strict_hits, strict_other = errors_by_item(pn, ranges, 'src/main.rs', 'c18')
        for it, msgs in sorted(strict_hits.items()):
            viols.append({'desc': f'C18;const-strict;{it}', 'what': f'the const evaluator with extra UB checks (-Zextra-const-ub-checks) rejects this use of the const API: {msgs[:2]}', 'stable': True})
        if strict_other and not strict_hits:
            raise Machinery('corpus crate c18 does not compile on nightly with -Zextra-const-ub-checks, errors not attributable to a const item: ' + '; '.join(strict_other[:4]))
    # 2. run-time agreement
    rt_compared, rt_bad = 0, 0
    if not hits and not other:
        p2 = cargo_json(d, target, 'build')
        if p2.returncode != 0:
            raise Machinery('corpus crate c18 checks but does not build:\n' + p2.stderr[-2000:])
        r = subprocess.run([os.path.join(target, 'debug', 'c18')], capture_output=True, text=True, env=env_base())
        for line in r.stdout.splitlines():
            if line.startswith('MISMATCH ') or line.startswith('RUNTIME-ASSERT '):
                name = line.split()[1].rstrip(':')
                viols.append({'desc': f'C18;runtime;{name}', 'what': line[:400], 'stable': True})
            elif line.startswith('RUNTIME-COMPARED'):
                rt_compared = int(line.split()[1]); rt_bad = int(line.split()[3])
        if rt_compared == 0:
            raise Machinery(f'run-time comparison binary produced no summary (status {r.returncode}): {r.stderr[-800:]}')
    # 3. must-fail items
    fd = os.path.join(cdir, 'c18_fail')
    shutil.rmtree(fd, ignore_errors=True)
    franges = write_fail(fd, 'c18_fail')
    pf = cargo_json(fd, target, 'check')
    fhits, fother = errors_by_item(pf, franges, 'src/lib.rs', 'c18_fail')
    for ln, n in franges:
        if n not in fhits:
            viols.append({'desc': f'C18;must-fail;{n}', 'what': 'an invalid use of the const API (wrong length / zero-length chunking / size mismatch) is accepted by the const evaluator instead of failing with E0080', 'stable': True})
        elif not any(m.startswith('E0080') for m in fhits[n]):
            viols.append({'desc': f'C18;must-fail;{n}', 'what': f'rejected, but not by the const evaluator (E0080): {fhits[n][:2]}', 'stable': True})
    gaps = sorted(const_fns_in_repo() - COVERED)
    n_items = len(items) + len(extras)
    samples = [{'case': n, 'item': f'const C_{n.upper()}: Out = {e};'[:200]} for n, e in (items[:2] + items[len(items) // 2: len(items) // 2 + 2] + extras[:2])]
    samples.append({'case': FAIL_ITEMS[0][0], 'must_fail_item': FAIL_ITEMS[0][1]})
    result = {
        'evaluations': n_items + len(FAIL_ITEMS), 'distinct_nontrivial': sum(1 for n, e in items if not re.search(r'_0(_|$)', n)) + len(extras), 'programs': n_items + len(FAIL_ITEMS),
        'outcomes': {'const-evaluated': ct_ok, 'const-eval-error': len(hits), 'const-eval-error-under-extra-ub-checks': len(strict_hits), 'must-fail-rejected': sum(1 for _, n in franges if n in fhits)},
        'runtime_compared': rt_compared, 'runtime_mismatches': rt_bad, 'const_fns_without_template': gaps, 'samples': samples, 'wall_s': round(time.time() - t0, 2),
    }
    return {'violations': viols, 'result': result, 'substrates': {'rustc const evaluator': subprocess.run(['rustc', '--version'], capture_output=True, text=True).stdout.strip()}}


def replay(part, body):
    res = run(part, 'quick')
    return [v for v in res['violations'] if v['desc'] == body['desc']]


def part():
    return {'name': 'const-items', 'run': run, 'replay': replay}
