#!/bin/bash
# usage: lib/seedwave.sh <round-dir e.g. /tmp/mut5> <tag e.g. r5> P1 P2 ...   -- confirm and import the agents' deliverables
R=$1; TAG=$2; shift 2
cd /verif
for P in "$@"; do
  for m in $R/$P/out/m*/; do
    m=${m%/}
    ( lib/seedverify.sh "$m" "$m/verify.json" && python3 lib/seedimport.py "$m/verify.json" "$TAG" ) &
    while [ $(jobs -r | wc -l) -ge 4 ]; do sleep 2; done
  done
done
wait
