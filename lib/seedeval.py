#!/usr/bin/env python3
"""Evaluate the checks against the seeded changes under /verif/seeded/<id>/ WITHOUT touching /repo:
each change is applied in its own scratch worktree of /repo's HEAD and the driver runs in shadow mode
(VERIF_REPO / VERIF_SHADOW), so /verif/evidence and /repo stay untouched.  Scratch worktrees and their
build output are removed afterwards.

usage: lib/seedeval.py [--jobs J] [--checks own|all|C01,C02] [--tier quick] [ids or prefixes ...]
Writes seeded/<id>/detected.json and prints a table."""
import json, os, subprocess, sys, shutil, tempfile, time
from concurrent.futures import ThreadPoolExecutor

ROOT = os.path.dirname(os.path.dirname(os.path.abspath(__file__)))
sys.path.insert(0, os.path.join(ROOT, 'lib'))


def claimed():
    m = json.load(open(os.path.join(ROOT, 'MANIFEST.json')))
    return [c['property_id'] for c in m['checks']]


import queue
SLOTS = queue.Queue()
SEEDDIR = 'seeded'
# the checks are run from a snapshot of /verif's committed HEAD, so that edits made to /verif while a long
# evaluation is running cannot be picked up half-way (an inconsistent harness would be reported as a violation)
SNAP = '/tmp/sev_snapshot_%d' % os.getpid()


def make_snapshot():
    shutil.rmtree(SNAP, ignore_errors=True)
    os.makedirs(SNAP)
    ar = subprocess.Popen(['git', '-C', ROOT, 'archive', 'HEAD'], stdout=subprocess.PIPE)
    subprocess.run(['tar', '-x', '-C', SNAP], stdin=ar.stdout, check=True)
    ar.wait()


def eval_one(sid, checks, tier, jobs_each):
    """each worker slot keeps one worktree path and one shadow directory, so third-party dependencies are built once
    per slot and only the crate and the engines are rebuilt per seeded change"""
    slot = SLOTS.get()
    try:
        return eval_in_slot(slot, sid, checks, tier, jobs_each)
    finally:
        SLOTS.put(slot)


def eval_in_slot(slot, sid, checks, tier, jobs_each):
    d = os.path.join(ROOT, SEEDDIR, sid)
    wt = f'/tmp/sev_slot{slot}_{os.getpid()}_wt'
    subprocess.run(['git', '-C', '/repo', 'worktree', 'remove', '--force', wt], capture_output=True)
    shutil.rmtree(wt, ignore_errors=True)
    r = subprocess.run(['git', '-C', '/repo', 'worktree', 'add', '--detach', wt, 'HEAD'], capture_output=True, text=True)
    if r.returncode != 0:
        return sid, {'error': 'worktree: ' + r.stderr[-300:]}
    res = {}
    try:
        shutil.copy('/repo/Cargo.lock', wt)
        r = subprocess.run(['git', '-C', wt, 'apply', os.path.join(d, 'patch.diff')], capture_output=True, text=True)
        if r.returncode != 0:
            return sid, {'error': 'patch does not apply: ' + r.stderr[-300:]}
        shadow = f'/tmp/sev_slot{slot}_{os.getpid()}_shadow'
        env = dict(os.environ, VERIF_REPO=wt, VERIF_SHADOW=shadow, VERIF_JOBS=str(jobs_each))
        for c in checks:
            t0 = time.time()
            p = subprocess.run([os.path.join(SNAP, 'check'), c, '--tier', tier], capture_output=True, text=True, env=env, cwd=SNAP)
            nviol = sum(1 for l in p.stdout.splitlines() if l.startswith('VIOLATION '))
            first = next((l.strip() for l in p.stdout.splitlines() if l.startswith('  violation:')), '')
            what = ''
            lines = p.stdout.splitlines()
            for i, l in enumerate(lines):
                if l.startswith('  violation:') and i + 1 < len(lines):
                    what = lines[i + 1].strip()[:300]
                    break
            res[c] = {'rc': p.returncode, 'tier': tier, 'violation_lines': nviol, 'first': first[:200], 'what': what, 'wall_s': round(time.time() - t0, 1)}
            if p.returncode == 2:
                res[c]['machinery'] = (p.stderr or '')[-500:]
    finally:
        subprocess.run(['git', '-C', '/repo', 'worktree', 'remove', '--force', wt], capture_output=True)
        shutil.rmtree(wt, ignore_errors=True)
    return sid, res


def main():
    args = sys.argv[1:]
    global SEEDDIR
    jobs, checks_mode, tier, sel = 4, 'own', 'quick', []
    i = 0
    while i < len(args):
        if args[i] == '--jobs':
            jobs = int(args[i + 1]); i += 1
        elif args[i] == '--checks':
            checks_mode = args[i + 1]; i += 1
        elif args[i] == '--tier':
            tier = args[i + 1]; i += 1
        elif args[i] == '--dir':
            SEEDDIR = args[i + 1]; i += 1
        else:
            sel.append(args[i])
        i += 1
    ids = sorted(x for x in os.listdir(os.path.join(ROOT, SEEDDIR)) if os.path.isdir(os.path.join(ROOT, SEEDDIR, x)))
    if sel:
        ids = [x for x in ids if any(x.startswith(s) for s in sel)]
    cl = claimed()

    def checks_for(sid):
        own = json.load(open(os.path.join(ROOT, SEEDDIR, sid, 'meta.json')))['property']
        if checks_mode == 'own':
            return [own] if own in cl else []
        if checks_mode == 'all':
            return [own] + [c for c in cl if c != own] if own in cl else cl
        return [c for c in checks_mode.split(',') if c in cl]

    jobs_each = max(2, (os.cpu_count() or 4) // jobs)
    make_snapshot()
    for k in range(jobs):
        SLOTS.put(k)
    with ThreadPoolExecutor(max_workers=jobs) as ex:
        futs = [ex.submit(eval_one, sid, checks_for(sid), tier, jobs_each) for sid in ids]
        for f in futs:
            sid, res = f.result()
            out = os.path.join(ROOT, SEEDDIR, sid, 'detected.json')
            old = {}
            if os.path.exists(out):
                try:
                    old = json.load(open(out))
                except Exception:
                    old = {}
            if 'error' in res:
                print(f'{sid}: ERROR {res["error"]}')
                continue
            old.update(res)
            json.dump(old, open(out, 'w'), indent=1)
            det = [c for c, r in old.items() if r.get('rc') == 1]
            mach = [c for c, r in old.items() if r.get('rc') == 2]
            own = json.load(open(os.path.join(ROOT, SEEDDIR, sid, 'meta.json')))['property']
            print(f'{sid}: own={own} {"DETECTED" if own in det else ("own-check-not-built" if own not in cl else "MISSED")} by={det} machinery={mach} ' + (res.get(own, {}).get('first', '') if own in res else ''))
            sys.stdout.flush()
    for k in range(jobs):
        shutil.rmtree(f'/tmp/sev_slot{k}_{os.getpid()}_shadow', ignore_errors=True)
    shutil.rmtree(SNAP, ignore_errors=True)


if __name__ == '__main__':
    main()
