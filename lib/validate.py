#!/usr/bin/env python3
"""Validate MANIFEST.json and every evidence file against the schemas (uses the tooling venv's jsonschema)."""
import json, sys, glob, os
import jsonschema
root = os.path.dirname(os.path.dirname(os.path.abspath(__file__)))
ok = True
m = json.load(open(os.path.join(root, 'MANIFEST.json')))
jsonschema.validate(m, json.load(open('/root/.vp/MANIFEST.schema.json')))
print('MANIFEST ok:', len(m['checks']), 'checks,', len(m.get('not_applicable', [])), 'not_applicable')
es = json.load(open('/root/.vp/EVIDENCE.schema.json'))
for f in sorted(glob.glob(os.path.join(root, 'evidence', '*.json'))):
    try:
        jsonschema.validate(json.load(open(f)), es)
        print('ok', os.path.basename(f))
    except Exception as e:
        ok = False
        print('INVALID', f, str(e)[:300])
sys.exit(0 if ok else 1)
