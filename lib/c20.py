"""C20 — arr! and box_arr! build the array their literal syntax denotes.

Generated invocations (programs): list form for every element count 0..=64, 100, 128, 255, 256 with and without a
trailing comma and with side-effecting element expressions; both repeat forms over the length lattice; const and
non-const positions; Copy and non-Copy elements; box_arr! with the same arguments.  rustc decides the length type
(each result is bound to an explicitly annotated length), the built program decides contents and evaluation order.
"""
import json, os, subprocess, time, shutil, bisect, re
import vdriver
from vdriver import Machinery, BASE, REPO, env_base
import c12 as _c12

HEAD = '''#![allow(unused, dead_code, clippy::all)]
use generic_array::typenum::*;
use generic_array::{arr, box_arr, ArrayLength, ConstArrayLength, GenericArray as GA};
use generic_array::functional::FunctionalSequence;
use std::cell::RefCell;
type N<const K: usize> = ConstArrayLength<K>;
thread_local! { static LOG: RefCell<Vec<u32>> = const { RefCell::new(Vec::new()) }; static DROPS: RefCell<Vec<u32>> = const { RefCell::new(Vec::new()) }; }
fn lg(i: u32) -> u32 { LOG.with(|l| l.borrow_mut().push(i)); i.wrapping_mul(2654435761) }
fn ls(i: u32) -> String { LOG.with(|l| l.borrow_mut().push(i)); format!("s{i}") }
#[derive(Debug, PartialEq)] struct D(u32);
impl Drop for D { fn drop(&mut self) { DROPS.with(|d| d.borrow_mut().push(self.0)); } }
fn ld(i: u32) -> D { LOG.with(|l| l.borrow_mut().push(i)); D(i) }
fn take_log() -> Vec<u32> { LOG.with(|l| core::mem::take(&mut *l.borrow_mut())) }
fn take_drops() -> Vec<u32> { DROPS.with(|l| core::mem::take(&mut *l.borrow_mut())) }
fn seq(n: usize) -> Vec<u32> { (0..n as u32).collect() }
macro_rules! ck { ($c:expr, $($t:tt)*) => { if !($c) { return Err(format!($($t)*)); } } }
'''


RUST_KEYWORDS = set("""as break const continue crate else enum extern false fn for if impl in let loop match mod move mut pub ref return self Self static struct super
trait true type unsafe use where while async await dyn abstract become box do final macro override priv typeof unsized virtual yield try union macro_rules""".split())


def hygiene_idents():
    """identifiers that occur in the crate's macro source (comments and strings removed)"""
    src = open(os.path.join(REPO, 'src', 'arr.rs')).read()
    src = re.sub(r'//[^\n]*', '', src)
    src = re.sub(r'"(\\.|[^"\\])*"', '', src)
    ids = sorted(set(re.findall(r'(?<![$A-Za-z0-9_])([A-Za-z_][A-Za-z0-9_]*)', src)))
    # a constant cannot be called like a primitive type or like the names the test body itself uses
    skip = RUST_KEYWORDS | {'usize', 'u8', 'bool', 'a', 'b', 'c', 'l', 'b2', 'bl', 'arr', 'box_arr', 'ck', 'Ok', 'Err', 'String', 'format', 'U4', 'GA', '_', 'e', 'x', 'n', 'N', 'T'}
    return [i for i in ids if not i.startswith('__') and i not in skip and len(i) > 1]


def counts(tier):
    return list(range(0, 65)) + [100, 128, 255, 256]


def lattice():
    return [0, 1, 2, 3, 5, 7, 8, 15, 16, 17, 31, 32, 33, 64, 100, 255, 256, 1000, 1024]


def build_cases(tier):
    cases = []   # (name, code of fn body returning Result<(), String>, extra items text)
    for c in counts(tier):
        el = ', '.join(f'lg({i})' for i in range(c))
        nat = '[' + ', '.join(f'{i}u32.wrapping_mul(2654435761)' for i in range(c)) + ']'
        for tc in (False, True):
            comma = ',' if tc and c > 0 else (',' if tc else '')
            name = f'list_{c}' + ('_trailing' if tc else '')
            body = f'''take_log(); let a: GA<u32, N<{c}>> = arr![{el}{comma}]; let log = take_log();
    let nat: [u32; {c}] = {nat};
    ck!(a.as_slice() == &nat[..], "arr! list of {c}: contents {{:?}} differ from the native array literal", &a.as_slice()[..a.len().min(8)]);
    ck!(log == seq({c}), "arr! list of {c}: element expressions were evaluated in order {{:?}}, expected 0..{c} once each", &log[..log.len().min(12)]);
    take_log(); let b: Box<GA<u32, N<{c}>>> = box_arr![{el}{comma}]; let log = take_log();
    ck!(b.as_slice() == &nat[..], "box_arr! list of {c}: contents differ from the native array literal");
    ck!(log == seq({c}), "box_arr! list of {c}: element expressions were evaluated in order {{:?}}, expected 0..{c} once each", &log[..log.len().min(12)]);
    ck!(*b == a, "box_arr! and arr! with the same arguments differ");
    Ok(())'''
            cases.append((name, body, ''))
        if c <= 33 or c in (64, 256):
            # non-Copy elements
            els = ', '.join(f'ls({i})' for i in range(c))
            eld = ', '.join(f'ld({i})' for i in range(c))
            body = f'''take_log(); let a: GA<String, N<{c}>> = arr![{els}]; let log = take_log();
    ck!(a.iter().enumerate().all(|(i, s)| *s == format!("s{{i}}")) && a.len() == {c}, "arr! list of {c} Strings: wrong contents");
    ck!(log == seq({c}), "arr! list of {c} Strings: evaluation order {{:?}}", &log[..log.len().min(12)]);
    take_log(); take_drops();
    {{ let d: GA<D, N<{c}>> = arr![{eld}]; ck!(take_drops().is_empty(), "arr! list of {c}: an element was dropped while the array is alive");
      ck!(d.iter().enumerate().all(|(i, x)| x.0 == i as u32), "arr! list of {c} drop-tracked elements: wrong contents"); }}
    let mut dr = take_drops(); dr.sort(); ck!(dr == seq({c}), "arr! list of {c}: drop counts after the array is gone: {{:?}}", &dr[..dr.len().min(12)]);
    take_log(); take_drops();
    {{ let d: Box<GA<D, N<{c}>>> = box_arr![{eld}]; ck!(take_drops().is_empty(), "box_arr! list of {c}: an element was dropped while the box is alive");
      ck!(d.iter().enumerate().all(|(i, x)| x.0 == i as u32), "box_arr! list of {c} drop-tracked elements: wrong contents"); ck!(take_log() == seq({c}), "box_arr! list of {c}: evaluation order"); }}
    let mut dr = take_drops(); dr.sort(); ck!(dr == seq({c}), "box_arr! list of {c}: drop counts after the box is gone: {{:?}}", &dr[..dr.len().min(12)]);
    Ok(())'''
            cases.append((f'list_noncopy_{c}', body, ''))
        # const position
        if c <= 64 or c == 256:
            lit = ', '.join(f'{(i * 5 + 1) % 251}u8' for i in range(c))
            items = f'const CL_{c}: GA<u8, N<{c}>> = arr![{lit}];\nstatic SL_{c}: GA<u8, N<{c}>> = arr![{lit}{"," if c else ""}];\nconst fn cfl_{c}() -> GA<u8, N<{c}>> {{ arr![{lit}] }}\n'
            body = f'''let nat: [u8; {c}] = [{lit}];
    ck!(CL_{c}.as_slice() == &nat[..] && SL_{c}.as_slice() == &nat[..] && cfl_{c}().as_slice() == &nat[..], "arr! list of {c} in const / static / const fn position differs from the native literal");
    Ok(())'''
            cases.append((f'list_const_{c}', body, items))
    for k in lattice():
        items = f'const CT_{k}: GA<u16, N<{k}>> = arr![513u16; N<{k}>];\nconst CC_{k}: GA<u16, N<{k}>> = arr![513u16; {k}];\nstatic ST_{k}: GA<u16, N<{k}>> = arr![513u16; {k}];\nconst fn cft_{k}() -> GA<u16, N<{k}>> {{ arr![513u16; N<{k}>] }}\nconst fn cfc_{k}() -> GA<u16, N<{k}>> {{ arr![513u16; {k}] }}\n'
        body = f'''take_log(); let a: GA<u32, N<{k}>> = arr![lg(7); N<{k}>]; let log = take_log();
    ck!(a.len() == {k} && a.iter().all(|x| *x == 7u32.wrapping_mul(2654435761)), "arr![x; N] (type-level length {k}) is not {k} copies of x");
    ck!(log == vec![7], "arr![x; N] (type-level length {k}) evaluated x {{}} times", log.len());
    take_log(); let c: GA<u32, N<{k}>> = arr![lg(8); {k}]; let log = take_log();
    ck!(c.len() == {k} && c.iter().all(|x| *x == 8u32.wrapping_mul(2654435761)), "arr![x; n] (constant length {k}) is not {k} copies of x");
    ck!(log == vec![8], "arr![x; n] (constant length {k}) evaluated x {{}} times", log.len());
    take_log(); let b: Box<GA<u32, N<{k}>>> = box_arr![lg(7); N<{k}>]; let log = take_log();
    ck!(*b == a, "box_arr![x; N] (type-level length {k}) differs from arr!");
    ck!(log == vec![7], "box_arr![x; N] (type-level length {k}) evaluated x {{}} times", log.len());
    take_log(); let b2: Box<GA<u32, N<{k}>>> = box_arr![lg(8); {k}]; let log = take_log();
    ck!(*b2 == c, "box_arr![x; n] (constant length {k}) differs from arr!");
    ck!(log == vec![8], "box_arr![x; n] (constant length {k}) evaluated x {{}} times", log.len());
    ck!(CT_{k}.len() == {k} && CT_{k}.iter().all(|x| *x == 513) && CC_{k} == CT_{k} && ST_{k} == CT_{k} && cft_{k}() == CT_{k} && cfc_{k}() == CT_{k}, "repeat forms of length {k} in const / static / const fn position differ");
    Ok(())'''
        cases.append((f'repeat_{k}', body, items))
    # repeat forms with a Clone-only element in box_arr (vec![x; n] clones), and a moved non-Copy local
    for k in [0, 1, 2, 5]:
        body = f'''let s = String::from("moved"); let b: Box<GA<String, N<{k}>>> = box_arr![s; N<{k}>];
    ck!(b.len() == {k} && b.iter().all(|x| x == "moved"), "box_arr![s; N] with a moved String of length {k}");
    let s2 = String::from("moved2"); let b: Box<GA<String, N<{k}>>> = box_arr![s2; {k}];
    ck!(b.len() == {k} && b.iter().all(|x| x == "moved2"), "box_arr![s; n] with a moved String of length {k}");
    Ok(())'''
        cases.append((f'repeat_box_clone_{k}', body, ''))
    # repeat forms with a non-Copy element: legal Rust for lengths 0 and 1 ([x; 0], [x; 1]); x is owned exactly once
    for k in [0, 1]:
        body = f'''take_log(); take_drops();
    {{ let d: GA<D, N<{k}>> = arr![ld(5); N<{k}>]; ck!(d.len() == {k}, "arr![x; N] with a drop-tracked x, length {k}");
      ck!(take_drops().len() == 1 - {k}, "arr![x; N] (type-level length {k}): x was dropped while the array is alive"); ck!(d.iter().all(|x| x.0 == 5), "contents"); }}
    ck!(take_drops().len() == {k} && take_log() == vec![5], "arr![x; N] (type-level length {k}) with a drop-tracked x: x must be evaluated once and dropped exactly once in total");
    take_log(); take_drops();
    {{ let d: GA<D, N<{k}>> = arr![ld(6); {k}]; ck!(d.len() == {k}, "arr![x; n] with a drop-tracked x, length {k}");
      ck!(take_drops().len() == 1 - {k}, "arr![x; n] (constant length {k}): x was dropped while the array is alive"); }}
    ck!(take_drops().len() == {k} && take_log() == vec![6], "arr![x; n] (constant length {k}) with a drop-tracked x: x must be evaluated once and dropped exactly once in total");
    Ok(())'''
        cases.append((f'repeat_noncopy_{k}', body, ''))
    # type-level repeat with a length typenum names but const generics cannot
    body = '''let a = arr![1u8; U4096]; ck!(a.len() == 4096 && a.iter().all(|x| *x == 1), "arr![x; U4096]");
    // type-level lengths that const generics cannot name (no Const<N> mapping in typenum): any Unsigned works
    let o = arr![2u8; Add1<U1024>]; ck!(o.len() == 1025 && o.iter().all(|x| *x == 2), "arr![x; 1025 as a type]");
    let t = arr![3u16; Prod<U3, U1000>]; ck!(t.len() == 3000 && t.iter().all(|x| *x == 3), "arr![x; 3000 as a type]");
    const CO: GA<u8, Add1<U1024>> = arr![4u8; Add1<U1024>]; ck!(CO.len() == 1025 && CO[1024] == 4, "arr![x; 1025 as a type] in a const item");
    let ob = box_arr![2u8; Add1<U1024>]; ck!(*ob == o, "box_arr![x; 1025 as a type]");
    let tb = box_arr![3u16; Prod<U3, U1000>]; ck!(*tb == t, "box_arr![x; 3000 as a type]");
    let b = box_arr![1u8; U4096]; ck!(*b == a, "box_arr![x; U4096]");
    let e: GA<u8, U0> = arr![]; let e2: GA<u8, U0> = arr![,]; ck!(e.len() == 0 && e2.len() == 0, "empty arr!");
    let eb: Box<GA<u8, U0>> = box_arr![]; ck!(eb.len() == 0, "empty box_arr!");
    let inferred = arr![1u8, 2, 3]; let _: &GA<u8, U3> = &inferred;
    let nested = arr![arr![1u8, 2], arr![3, 4], arr![5, 6]]; let _: &GA<GA<u8, U2>, U3> = &nested;
    ck!(nested[2][1] == 6, "nested arr!");
    Ok(())'''
    cases.append(('misc', body, ''))

    # ---- elements carrying attributes: the compiler removes `#[cfg]`-disabled elements from a native array literal; the
    # macros' list forms must denote the same array (and box_arr! an equal one)
    for nm, els in [('first', '#[cfg(any())] lg(0), lg(1), lg(2)'), ('middle', 'lg(0), #[cfg(any())] lg(1), lg(2)'), ('last', 'lg(0), lg(1), #[cfg(any())] lg(2)'),
                    ('all', '#[cfg(any())] lg(0), #[cfg(any())] lg(1)'), ('enabled', 'lg(0), #[cfg(all())] lg(1), #[allow(unused_parens)] (lg(2))'), ('two', '#[cfg(any())] lg(0), lg(1), #[cfg(any())] lg(2), lg(3),')]:
        body = f"""take_log(); let nat: &[u32] = &[{els}]; let nlog = take_log();
    let a: GA<u32, _> = arr![{els}]; let alog = take_log();
    ck!(a.as_slice() == &nat[..] && alog == nlog, "arr! with attribute-carrying elements gives {{:?}} (evaluated {{:?}}), the native literal gives {{:?}} (evaluated {{:?}})", a.as_slice(), alog, nat, nlog);
    let b: Box<GA<u32, _>> = box_arr![{els}]; let blog = take_log();
    ck!(b.as_slice() == &nat[..] && blog == nlog, "box_arr! with attribute-carrying elements gives {{:?}} (evaluated {{:?}}), the native literal gives {{:?}} (evaluated {{:?}})", b.as_slice(), blog, nat, nlog);
    Ok(())"""
        cases.append((f'cfg_elements_{nm}', body, ''))
    # ---- temporaries created by element expressions live as long as they do in a native array literal (until the end of
    # the enclosing statement); compared with the native literal, no expected order written by hand
    items = """struct Guard(u32);
impl Guard { fn v(&self) -> u32 { LOG.with(|l| l.borrow_mut().push(self.0)); self.0 } }
impl Drop for Guard { fn drop(&mut self) { LOG.with(|l| l.borrow_mut().push(1000 + self.0)); } }
fn g(i: u32) -> Guard { LOG.with(|l| l.borrow_mut().push(100 + i)); Guard(i) }
fn used<T: AsRef<[u32]>>(a: T) -> usize { LOG.with(|l| l.borrow_mut().push(500)); a.as_ref().len() }
"""
    body = """take_log(); let _ = used([g(1).v(), g(2).v(), g(3).v()]); let nat = take_log();
    let _ = used(arr![g(1).v(), g(2).v(), g(3).v()]); let a = take_log();
    ck!(a == nat, "temporaries of arr! element expressions: event order {:?}, with the native literal {:?}", a, nat);
    let _ = used(*box_arr![g(1).v(), g(2).v(), g(3).v()]); let b = take_log();
    ck!(b == nat, "temporaries of box_arr! element expressions: event order {:?}, with the native literal {:?}", b, nat);
    let nat = { take_log(); let n = [g(4).v(), g(5).v()].map(|x| { LOG.with(|l| l.borrow_mut().push(600)); x }); take_log() };
    let a = { let n = arr![g(4).v(), g(5).v()].map(|x| { LOG.with(|l| l.borrow_mut().push(600)); x }); take_log() };
    ck!(a == nat, "temporaries of arr! elements in a method chain: event order {:?}, with the native literal {:?}", a, nat);
    Ok(())"""
    cases.append(('temporaries', body, items))
    # ---- the element type may come from the expected type only; elements may borrow from their own temporaries within the statement
    body = """let d: GA<&dyn core::fmt::Debug, U2> = arr![&1u8, &"x"]; ck!(format!("{:?}", d[1]) == "\\"x\\"", "arr! with elements coerced to a trait object");
    let o: GA<Option<u8>, U2> = arr![None, None]; ck!(o[0].is_none(), "arr! with the element type known from the expected type only");
    let ob: Box<GA<Option<u8>, U2>> = box_arr![None, None]; ck!(ob[1].is_none(), "box_arr! with the element type known from the expected type only");
    let db: Box<GA<&dyn core::fmt::Debug, U2>> = box_arr![&1u8, &"x"]; ck!(format!("{:?}", db[0]) == "1", "box_arr! with elements coerced to a trait object");
    let n = arr![&String::from("ab")[..], "c"].map(|s| s.len()); ck!(n == arr![2usize, 1], "arr! with an element borrowing from its own temporary");
    let nb = box_arr![&String::from("ab")[..], "c"].iter().map(|s| s.len()).sum::<usize>(); ck!(nb == 3, "box_arr! with an element borrowing from its own temporary");
    let f = arr![|x: u8| x + 1]; ck!((f[0])(1) == 2, "arr! of a closure");
    let fb = box_arr![|x: u8| x + 2]; ck!((fb[0])(1) == 3, "box_arr! of a closure");
    let big = box_arr![[7u8; 1 << 16], [8u8; 1 << 16]]; ck!(big[1][65535] == 8, "box_arr! of large elements");
    Ok(())"""
    cases.append(('inference', body, ''))
    # ---- hygiene: a caller's item whose name happens to be used inside the macros keeps its meaning in the element expression.
    # The names are read from the crate's current src/arr.rs; names starting with a double underscore are the macros' reserved namespace.
    for ident in hygiene_idents():
        body = f"""#[allow(non_upper_case_globals, non_snake_case)] {{
    const {ident}: usize = 9;
    let a = arr![{ident}; U4]; ck!(a.as_slice() == [9usize; 4], "arr![{ident}; U4] with a caller constant named {ident} = 9 gives {{:?}}", a.as_slice());
    let c = arr![{ident}; 3]; ck!(c.as_slice() == [9usize; 3], "arr![{ident}; 3] with a caller constant named {ident} = 9 gives {{:?}}", c.as_slice());
    let l = arr![{ident}, {ident} + 1]; ck!(l.as_slice() == [9usize, 10], "arr![{ident}, {ident} + 1] with a caller constant named {ident} = 9 gives {{:?}}", l.as_slice());
    let b = box_arr![{ident}; U4]; ck!(b.as_slice() == [9usize; 4], "box_arr![{ident}; U4] with a caller constant named {ident} = 9 gives {{:?}}", b.as_slice());
    let b2 = box_arr![{ident}; 3]; ck!(b2.as_slice() == [9usize; 3], "box_arr![{ident}; 3] with a caller constant named {ident} = 9 gives {{:?}}", b2.as_slice());
    let bl = box_arr![{ident}, {ident} + 1]; ck!(bl.as_slice() == [9usize, 10], "box_arr![{ident}, {ident} + 1] with a caller constant named {ident} = 9 gives {{:?}}", bl.as_slice());
    }}
    Ok(())"""
        cases.append((f'hygiene_{ident}', body, ''))
    return cases


def reject_programs():
    """invocations that must NOT compile: the macros may not lend their own `unsafe` to the caller's element expressions
    (a native array literal rejects a call of an unsafe function outside an unsafe block with E0133)"""
    progs = []
    forms = [('list', 'arr![danger(), 1]'), ('list1', 'arr![danger()]'), ('repeat_type', 'arr![danger(); U3]'), ('repeat_const', 'arr![danger(); 3]'),
             ('box_list', 'box_arr![danger(), 1]'), ('box_repeat_type', 'box_arr![danger(); U3]'), ('box_repeat_const', 'box_arr![danger(); 3]'),
             ('deref', 'arr![*RAW; U2]'), ('deref_list', 'arr![*RAW, 0]'), ('box_deref', 'box_arr![*RAW; 2]'),
             ('const_item', 'const C: GA<u8, U2> = arr![danger(); U2];'), ('const_list', 'const C: GA<u8, U2> = arr![danger(), 1];')]
    for name, inv in forms:
        code = inv if inv.startswith('const ') else f'fn p() {{ let _ = {inv}; }}'
        progs.append((name, code, 'E0133'))
    return progs


def write_reject_crate(dirp, progs):
    os.makedirs(os.path.join(dirp, 'src'), exist_ok=True)
    with open(os.path.join(dirp, 'Cargo.toml'), 'w') as f:
        f.write(f'[package]\nname = "c20_rej"\nversion = "0.0.0"\nedition = "2021"\n\n[dependencies]\ngeneric-array = {{ path = "{REPO}", features = ["alloc"] }}\n\n[workspace]\n')
    shutil.copy(os.path.join(REPO, 'Cargo.lock'), os.path.join(dirp, 'Cargo.lock'))
    lines = ['#![allow(unused, dead_code)]', 'use generic_array::typenum::*;', 'use generic_array::{arr, box_arr, GenericArray as GA};',
             'const unsafe fn danger() -> u8 { 7 }', 'const RAW: *const u8 = &5u8;']
    ranges = []
    for name, code, want in progs:
        lines.append(f'mod r_{name} {{ use super::*; {code} }}')
        ranges.append((len(lines), name, want, code))
    lines.append('fn main() {}')
    open(os.path.join(dirp, 'src', 'main.rs'), 'w').write('\n'.join(lines) + '\n')
    return ranges


def run_rejects(env, target):
    progs = reject_programs()
    d = os.path.join(BASE, 'corpus', 'c20_rej')
    shutil.rmtree(d, ignore_errors=True)
    ranges = write_reject_crate(d, progs)
    p = subprocess.run(['cargo', 'check', '--offline', '--message-format=json', '-q'], cwd=d, env=env, stdout=subprocess.PIPE, stderr=subprocess.PIPE, text=True)
    got = {}
    other = []
    for line in p.stdout.splitlines():
        try:
            m = json.loads(line)
        except Exception:
            continue
        if m.get('reason') != 'compiler-message' or m['message'].get('level') != 'error' or not m['message'].get('spans'):
            continue
        dmsg = m['message']
        if m.get('target', {}).get('name') != 'c20_rej':
            raise Machinery('reject corpus c20_rej: a dependency does not compile: ' + dmsg.get('message', '')[:300])
        code = (dmsg.get('code') or {}).get('code') or 'E????'
        lns = {(_c12.primary_loc(sp, 'src/main.rs')) for sp in dmsg['spans']} - {None}
        hit = False
        for ln, name, want, _ in ranges:
            if ln in lns:
                got.setdefault(name, []).append(code)
                hit = True
        if not hit:
            other.append(f'{code}: {dmsg.get("message", "")[:160]}')
    if other:
        raise Machinery('reject corpus c20_rej has errors outside its programs: ' + '; '.join(other[:3]))
    viols = []
    for ln, name, want, code in ranges:
        if want not in got.get(name, []):
            viols.append({'desc': f'C20;must-reject;{name}', 'what': f'`{code}` uses an unsafe operation in an element expression without an unsafe block; a native array literal is rejected with {want}, '
                          f'this invocation {"compiles" if not got.get(name) else "fails only with " + str(got[name])}: the macro lends its own `unsafe` to the caller\'s expression', 'stable': True})
    return viols, len(ranges), {n: c for n, c in got.items()}


def write_crate(dirp, cases):
    os.makedirs(os.path.join(dirp, 'src'), exist_ok=True)
    with open(os.path.join(dirp, 'Cargo.toml'), 'w') as f:
        f.write(f'[package]\nname = "c20"\nversion = "0.0.0"\nedition = "2021"\n\n[dependencies]\ngeneric-array = {{ path = "{REPO}", features = ["alloc"] }}\n\n'
                '[profile.dev]\ndebug = false\nincremental = false\nopt-level = 0\ncodegen-units = 16\n\n[workspace]\n')
    shutil.copy(os.path.join(REPO, 'Cargo.lock'), os.path.join(dirp, 'Cargo.lock'))
    lines = HEAD.rstrip('\n').split('\n')
    ranges = []
    for name, body, items in cases:
        start = len(lines) + 1
        if items:
            lines += items.rstrip('\n').split('\n')
        lines += f'fn case_{name}() -> Result<(), String> {{\n    {body}\n}}'.split('\n')
        ranges.append((start, len(lines), name))
    lines.append('fn main() {')
    lines.append('    std::panic::set_hook(Box::new(|_| {}));')
    lines.append('    let cases: Vec<(&str, fn() -> Result<(), String>)> = vec![')
    for name, _, _ in cases:
        lines.append(f'        ("{name}", case_{name}),')
    lines.append('    ];')
    lines.append('    let from: usize = std::env::args().nth(1).and_then(|s| s.parse().ok()).unwrap_or(0);')
    lines.append('    use std::io::Write;')
    lines.append('    let mut bad = 0; for (k, (n, f)) in cases.iter().enumerate().skip(from) { println!("START {k} {n}"); std::io::stdout().flush().ok(); match std::panic::catch_unwind(f) { Ok(Ok(())) => {}, Ok(Err(e)) => { bad += 1; println!("FAIL {n}: {e}"); }, Err(_) => { bad += 1; println!("FAIL {n}: panicked"); } } }')
    lines.append('    println!("RAN {} FAILED {}", cases.len() - from.min(cases.len()), bad);')
    lines.append('}')
    open(os.path.join(dirp, 'src', 'main.rs'), 'w').write('\n'.join(lines) + '\n')
    return ranges


def run(part, tier):
    t0 = time.time()
    cases = build_cases(tier)
    d = os.path.join(BASE, 'corpus', 'c20')
    target = os.path.join(BASE, 'target', 'corpus20')
    shutil.rmtree(d, ignore_errors=True)
    ranges = write_crate(d, cases)
    env = env_base()
    env['CARGO_TARGET_DIR'] = target
    viols = []
    p = subprocess.run(['cargo', 'check', '--offline', '--message-format=json', '-q'], cwd=d, env=env, stdout=subprocess.PIPE, stderr=subprocess.PIPE, text=True)
    starts = [r[0] for r in ranges]
    rejected = {}
    unatt = []
    for line in p.stdout.splitlines():
        try:
            m = json.loads(line)
        except Exception:
            continue
        if m.get('reason') != 'compiler-message' or m['message'].get('level') != 'error' or not m['message'].get('spans'):
            continue
        dmsg = m['message']
        if m.get('target', {}).get('name') != 'c20':
            unatt.append('dependency: ' + dmsg.get('message', '')[:200])
            continue
        code = (dmsg.get('code') or {}).get('code') or 'E????'
        locs = set()
        for sp in dmsg['spans']:
            ln = _c12.primary_loc(sp, 'src/main.rs')
            if ln:
                locs.add(ln)
        hit = False
        for ln in locs:
            k = bisect.bisect_right(starts, ln) - 1
            if k >= 0 and ranges[k][0] <= ln <= ranges[k][1]:
                rejected.setdefault(ranges[k][2], []).append(f'{code}: {dmsg.get("message", "")[:160]}')
                hit = True
        if not hit:
            unatt.append(f'{code}: {dmsg.get("message", "")[:160]}')
    for name, msgs in sorted(rejected.items()):
        viols.append({'desc': f'C20;compile;{name}', 'what': f'a valid macro invocation (or its annotated length type) is rejected by the compiler: {msgs[:2]}', 'stable': True})
    if unatt and not rejected:
        raise Machinery('corpus crate c20 does not compile: ' + '; '.join(unatt[:4]))
    ran = 0
    if not rejected and not unatt:
        p2 = subprocess.run(['cargo', 'build', '--offline', '-q'], cwd=d, env=env, stdout=subprocess.PIPE, stderr=subprocess.PIPE, text=True)
        if p2.returncode != 0:
            raise Machinery('corpus crate c20 checks but does not build:\n' + p2.stderr[-2000:])
        start, deaths = 0, 0
        while True:
            r = subprocess.run([os.path.join(target, 'debug', 'c20'), str(start)], capture_output=True, text=True, env=env_base())
            last, done = None, False
            for line in r.stdout.splitlines():
                if line.startswith('FAIL '):
                    name = line.split()[1].rstrip(':')
                    viols.append({'desc': f'C20;run;{name}', 'what': line[5:600], 'stable': True})
                elif line.startswith('START '):
                    last = (int(line.split()[1]), line.split()[2])
                    ran += 1
                elif line.startswith('RAN '):
                    done = True
            if done:
                break
            # the process died inside a case (abort, e.g. from a std precondition check): that case is the violation, go on after it
            if last is None or deaths > 20:
                raise Machinery(f'c20 binary produced no summary (status {r.returncode}): {r.stderr[-800:]}')
            deaths += 1
            err = ' | '.join(l.strip() for l in r.stderr.splitlines() if 'panicked' in l or 'unsafe precondition' in l or 'SIG' in l or 'overflow' in l or 'abort' in l)[:400]
            viols.append({'desc': f'C20;run;{last[1]}', 'what': f'the process died inside this case (status {r.returncode}): {err}', 'stable': True})
            start = last[0] + 1
    rv, nrej, rcodes = run_rejects(env, target)
    viols += rv
    samples = [{'case': n, 'body': b[:300]} for n, b, _ in (cases[:1] + cases[7:8] + cases[-3:-1])]
    result = {'evaluations': len(cases) + nrej, 'must_reject_programs': nrej, 'must_reject_codes': rcodes, 'distinct_nontrivial': sum(1 for n, _, _ in cases if not n.endswith('_0') and not n.endswith('_0_trailing')), 'programs': len(cases),
              'outcomes': {'compiled-and-ran': ran, 'rejected-by-compiler': len(rejected)}, 'samples': samples, 'wall_s': round(time.time() - t0, 2)}
    return {'violations': viols, 'result': result, 'substrates': {'rustc': subprocess.run(['rustc', '--version'], capture_output=True, text=True).stdout.strip()}}


def replay(part, body):
    res = run(part, 'quick')
    return [v for v in res['violations'] if v['desc'] == body['desc']]


def part():
    return {'name': 'macro-invocations', 'run': run, 'replay': replay}
