#!/bin/bash
# usage: lib/seedverify.sh <dir with patch.diff + demo.rs|demo.sh> <outfile.json>
# Confirms a seeded change independently, in a scratch worktree of /repo's HEAD:
#   (a) the demonstration passes on the pristine tree, (b) with the patch the crate's own test suite
#   still passes (default features and the full feature set), (c) with the patch the demonstration fails.
d="$1"; out="$2"
wt=$(mktemp -d /tmp/sv_XXXXXX)
rmdir "$wt"
git -C /repo worktree add --detach "$wt" HEAD >/dev/null 2>&1 || { echo '{"error":"worktree"}' > "$out"; exit 2; }
cp /repo/Cargo.lock "$wt/"
export CARGO_NET_OFFLINE=true CARGO_PROFILE_DEV_DEBUG=0 CARGO_PROFILE_TEST_DEBUG=0 CARGO_TARGET_DIR="$wt/target"
FEAT="alloc internals serde zeroize const-default"
DF="$FEAT"
grep -qi "faster-hex" "$d/notes.md" 2>/dev/null && DF="$FEAT faster-hex"
MODE=native
if [ ! -f "$d/demo.sh" ] && [ ! -f "$d/run_demo.sh" ]; then
  if grep -q "miri test" "$d/notes.md" 2>/dev/null; then MODE=miri; elif grep -q "sanitizer=address" "$d/notes.md" 2>/dev/null; then MODE=asan; fi
fi
cd "$wt"
run_demo() {
  if [ -f "$d/demo.sh" ]; then
    ( cd "$d" && bash ./demo.sh "$wt" ) > "$wt/demo.log" 2>&1
  elif [ -f "$d/run_demo.sh" ]; then
    ( cd "$d" && bash ./run_demo.sh "$wt" ) > "$wt/demo.log" 2>&1
  elif [ "$MODE" = miri ]; then
    # "undefined behaviour that works": the demonstration passes natively and is judged by Miri (Tree Borrows)
    cp "$d/demo.rs" tests/demo_mut.rs
    MIRIFLAGS="-Zmiri-tree-borrows" cargo +nightly miri test --offline --features "$DF" --test demo_mut > "$wt/demo.log" 2>&1
  elif [ "$MODE" = asan ]; then
    cp "$d/demo.rs" tests/demo_mut.rs
    RUSTFLAGS=-Zsanitizer=address cargo +nightly test --offline --target x86_64-unknown-linux-gnu --features "$DF" --test demo_mut > "$wt/demo.log" 2>&1
  else
    cp "$d/demo.rs" tests/demo_mut.rs
    cargo test --offline --features "$DF" --test demo_mut > "$wt/demo.log" 2>&1
  fi
}
run_demo; pristine_demo=$?
rm -f tests/demo_mut.rs
if ! git apply "$d/patch.diff" 2>"$wt/apply.err"; then
  echo "{\"dir\":\"$d\",\"applies\":false,\"err\":\"$(head -c 300 $wt/apply.err | tr '\"\n' ' ')\"}" > "$out"
  cd /; git -C /repo worktree remove --force "$wt"; exit 0
fi
cargo test --offline > "$wt/suite1.log" 2>&1; s1=$?
cargo test --offline --features "$FEAT" > "$wt/suite2.log" 2>&1; s2=$?
p1=$(grep -E "^test result" "$wt/suite1.log" | awk '{s+=$4} END {print s+0}')
p2=$(grep -E "^test result" "$wt/suite2.log" | awk '{s+=$4} END {print s+0}')
run_demo; mutant_demo=$?
tail -5 "$wt/demo.log" | tr '"\n' "' " > "$wt/demo.tail"
echo "{\"dir\":\"$d\",\"demo_mode\":\"$MODE\",\"applies\":true,\"pristine_demo_rc\":$pristine_demo,\"suite_default_rc\":$s1,\"suite_default_passed\":$p1,\"suite_full_rc\":$s2,\"suite_full_passed\":$p2,\"mutant_demo_rc\":$mutant_demo,\"demo_tail\":\"$(cat $wt/demo.tail | head -c 400)\"}" > "$out"
cd /; git -C /repo worktree remove --force "$wt"
