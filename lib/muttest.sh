#!/bin/sh
# usage: lib/muttest.sh <patch.diff> <ID> [<ID>...]   — apply a seeded change to /repo, run the quick checks, always restore.
patch="$1"; shift
cd /repo || exit 2
if [ -n "$(git status --porcelain --untracked-files=no)" ]; then echo "/repo has uncommitted changes; refusing"; exit 2; fi
git apply "$patch" || { echo "patch does not apply"; exit 2; }
trap 'git -C /repo checkout -- . ' EXIT INT TERM
cd /verif
for id in "$@"; do
  ./check "$id" --tier "${TIER:-quick}" > /tmp/muttest.$id.out 2>&1; rc=$?
  echo "== $id rc=$rc  $(grep -c '^VIOLATION' /tmp/muttest.$id.out) violation line(s)"
  grep -E '^(  violation|      |MACHINERY|HELD|VIOLATED)' /tmp/muttest.$id.out | head -${SHOW:-6}
done
