"""C12 — length, thread-safety and lifetime errors are rejected at compile time.

The bounded space is a generated program family; the executor is rustc (type checker + borrow checker)
run against the crate as built from the working tree; the oracle is a reference model of the intended rules
(integer arithmetic on lengths, auto-trait propagation, borrow scoping).  Every reject program has an accept
twin differing in exactly one length, bound or lifetime.
"""
import json, os, subprocess, time, shutil, hashlib
from concurrent.futures import ThreadPoolExecutor
import vdriver
from vdriver import Machinery, BASE, REPO, NCPU, env_base

LEN = {'E0271', 'E0277', 'E0308', 'E0599', 'E0282', 'E0283', 'E0284', 'E0107', 'E0061'}
AUTO = {'E0277'}
BORROW = {'E0597', 'E0505', 'E0515', 'E0716', 'E0499', 'E0502', 'E0506', 'E0521', 'E0621', 'E0759', 'E0700', 'E0713', 'E0503', 'E0501', 'E0308-lifetime', 'lifetime'}
KIND = {'E0277', 'E0271', 'E0599', 'E0119', 'E0117', 'E0210', 'E0046', 'E0200', 'E0199'}

PRELUDE = '''#![allow(unused, dead_code, clippy::all)]
use generic_array::{GenericArray, GenericArrayIter, ArrayLength, ConstArrayLength, arr};
use generic_array::sequence::*;
use generic_array::functional::*;
use generic_array::typenum::*;
use core::borrow::{Borrow, BorrowMut};
type GA<T, N> = GenericArray<T, N>;
'''


class Corpus:
    def __init__(self):
        self.programs = []   # dict(id, family, code, expect 'accept'|'reject', classes, pair)

    def add(self, fam, pid, code, accept, classes=LEN, pair=None):
        self.programs.append({'id': f'{fam}:{pid}', 'family': fam, 'code': code, 'expect': 'accept' if accept else 'reject', 'classes': sorted(classes), 'pair': pair})


def U(n):
    return f'U{n}'


def gen_lengths(c, L, edge):
    R = range(0, L + 1)
    # zip, three receiver/argument forms
    for n in R:
        for m in R:
            ok = n == m
            c.add('zip-owned', f'{n}-{m}', f'fn p(a: GA<u8, {U(n)}>, b: GA<u8, {U(m)}>) {{ let _ = a.zip(b, |x, y| x.wrapping_add(y)); }}', ok, pair=f'zip-owned:{n}-{n}')
            c.add('zip-ref', f'{n}-{m}', f'fn p(a: &GA<u8, {U(n)}>, b: &GA<u8, {U(m)}>) {{ let _ = a.zip(b, |x, y| x.wrapping_add(*y)); }}', ok, pair=f'zip-ref:{n}-{n}')
            c.add('zip-mixed', f'{n}-{m}', f'fn p(a: GA<u8, {U(n)}>, b: &mut GA<u8, {U(m)}>) {{ let _ = a.zip(b, |x, y| x.wrapping_add(*y)); }}', ok, pair=f'zip-mixed:{n}-{n}')
            c.add('inverted_zip', f'{n}-{m}', f'fn p(a: GA<u8, {U(n)}>, b: GA<u8, {U(m)}>) {{ let _ = GenericSequence::inverted_zip(b, a, |x: u8, y: u8| x.wrapping_add(y)); }}', ok, pair=f'inverted_zip:{n}-{n}')
            c.add('inverted_zip2', f'{n}-{m}', f'fn p(a: GA<u8, {U(n)}>, b: GA<u8, {U(m)}>) {{ let _ = GenericSequence::inverted_zip2(b, a, |x: u8, y: u8| x.wrapping_add(y)); }}', ok, pair=f'inverted_zip2:{n}-{n}')
            c.add('inverted_zip2-ref', f'{n}-{m}', f'fn p(a: &GA<u8, {U(n)}>, b: GA<u8, {U(m)}>) {{ let _ = GenericSequence::inverted_zip2(b, a, |x: &u8, y: u8| x.wrapping_add(y)); }}', ok, pair=f'inverted_zip2-ref:{n}-{n}')
            c.add('eq', f'{n}-{m}', f'fn p(a: GA<u8, {U(n)}>, b: GA<u8, {U(m)}>) -> bool {{ a == b }}', ok, pair=f'eq:{n}-{n}')
            c.add('lt', f'{n}-{m}', f'fn p(a: GA<u8, {U(n)}>, b: GA<u8, {U(m)}>) -> bool {{ a < b }}', ok, pair=f'lt:{n}-{n}')
            c.add('cmp', f'{n}-{m}', f'fn p(a: GA<u8, {U(n)}>, b: GA<u8, {U(m)}>) -> core::cmp::Ordering {{ core::cmp::Ord::cmp(&a, &b) }}', ok, pair=f'cmp:{n}-{n}')
            for r in sorted({n + m, n + m + 1, max(n + m - 1, 0), 0}):
                c.add('concat', f'{n}-{m}-{r}', f'fn p(a: GA<u8, {U(n)}>, b: GA<u8, {U(m)}>) {{ let _c: GA<u8, {U(r)}> = a.concat(b); }}', r == n + m, pair=f'concat:{n}-{m}-{n+m}')
            # flatten annotated
            for r in sorted({n * m, n * m + 1, max(n * m - 1, 0), n + m}):
                c.add('flatten', f'{n}-{m}-{r}', f'fn p(a: GA<GA<u8, {U(n)}>, {U(m)}>) {{ let _f: GA<u8, {U(r)}> = a.flatten(); }}', r == n * m, pair=f'flatten:{n}-{m}-{n*m}')
                c.add('flatten-ref', f'{n}-{m}-{r}', f'fn p(a: &GA<GA<u8, {U(n)}>, {U(m)}>) {{ let _f: &GA<u8, {U(r)}> = a.flatten(); }}', r == n * m, pair=f'flatten-ref:{n}-{m}-{n*m}')
        # split annotated (K, R)
        for k in range(0, L + 2):
            for r in sorted({max(n - k, 0), max(n - k, 0) + 1, 0, n}):
                ok = k <= n and r == n - k
                c.add('split', f'{n}-{k}-{r}', f'fn p(a: GA<u8, {U(n)}>) {{ let (_h, _t): (GA<u8, {U(k)}>, GA<u8, {U(r)}>) = Split::<u8, {U(k)}>::split(a); }}', ok, pair=f'split:{n}-{min(k,n)}-{n-min(k,n)}')
                c.add('split-ref', f'{n}-{k}-{r}', f'fn p(a: &GA<u8, {U(n)}>) {{ let (_h, _t): (&GA<u8, {U(k)}>, &GA<u8, {U(r)}>) = Split::<u8, {U(k)}>::split(a); }}', ok, pair=f'split-ref:{n}-{min(k,n)}-{n-min(k,n)}')
        for r in range(0, L + 3):
            c.add('append', f'{n}-{r}', f'fn p(a: GA<u8, {U(n)}>) {{ let _c: GA<u8, {U(r)}> = a.append(1u8); }}', r == n + 1, pair=f'append:{n}-{n+1}')
            c.add('prepend', f'{n}-{r}', f'fn p(a: GA<u8, {U(n)}>) {{ let _c: GA<u8, {U(r)}> = a.prepend(1u8); }}', r == n + 1, pair=f'prepend:{n}-{n+1}')
            ok = n >= 1 and r == n - 1
            pr = f'{max(n,1)}-{max(n,1)-1}'
            c.add('pop_back', f'{n}-{r}', f'fn p(a: GA<u8, {U(n)}>) {{ let (_c, _x): (GA<u8, {U(r)}>, u8) = a.pop_back(); }}', ok, pair=f'pop_back:{pr}')
            c.add('pop_front', f'{n}-{r}', f'fn p(a: GA<u8, {U(n)}>) {{ let (_x, _c): (u8, GA<u8, {U(r)}>) = a.pop_front(); }}', ok, pair=f'pop_front:{pr}')
            c.add('remove', f'{n}-{r}', f'fn p(a: GA<u8, {U(n)}>) {{ let (_x, _c): (u8, GA<u8, {U(r)}>) = a.remove(0); }}', ok, pair=f'remove:{pr}')
            c.add('swap_remove', f'{n}-{r}', f'fn p(a: GA<u8, {U(n)}>) {{ let (_x, _c): (u8, GA<u8, {U(r)}>) = a.swap_remove(0); }}', ok, pair=f'swap_remove:{pr}')
            c.add('map', f'{n}-{r}', f'fn p(a: GA<u8, {U(n)}>) {{ let _m: GA<u16, {U(r)}> = a.map(|x| x as u16); }}', r == n, pair=f'map:{n}-{n}')
            c.add('map-ref', f'{n}-{r}', f'fn p(a: &GA<u8, {U(n)}>) {{ let _m: GA<u16, {U(r)}> = a.map(|x| *x as u16); }}', r == n, pair=f'map-ref:{n}-{n}')
            c.add('generate', f'{n}-{r}', f'fn p() {{ let _g: GA<u8, {U(r)}> = GA::<u8, {U(n)}>::generate(|i| i as u8); }}', r == n, pair=f'generate:{n}-{n}')
            c.add('zip-result', f'{n}-{r}', f'fn p(a: GA<u8, {U(n)}>, b: GA<u8, {U(n)}>) {{ let _z: GA<u16, {U(r)}> = a.zip(b, |x, y| x as u16 + y as u16); }}', r == n, pair=f'zip-result:{n}-{n}')
            c.add('arr-type', f'{n}-{r}', f'fn p() {{ let _a: GA<u8, {U(r)}> = arr![7u8; {U(n)}]; }}', r == n, pair=f'arr-type:{n}-{n}')
            c.add('arr-const', f'{n}-{r}', f'fn p() {{ let _a: GA<u8, {U(r)}> = arr![7u8; {n}]; }}', r == n, pair=f'arr-const:{n}-{n}')
            lst = ', '.join(['1u8'] * n)
            c.add('arr-list', f'{n}-{r}', f'fn p() {{ let _a: GA<u8, {U(r)}> = arr![{lst}]; }}', r == n, pair=f'arr-list:{n}-{n}')
            # native-array conversions, u = native length
            u = r
            c.add('into_array', f'{n}-{u}', f'fn p(a: GA<u8, {U(n)}>) {{ let _x: [u8; {u}] = a.into_array(); }}', u == n, pair=f'into_array:{n}-{n}')
            c.add('into_array-turbofish', f'{n}-{u}', f'fn p(a: GA<u8, {U(n)}>) {{ let _x = a.into_array::<{u}>(); }}', u == n, pair=f'into_array-turbofish:{n}-{n}')
            c.add('from_array', f'{n}-{u}', f'fn p() {{ let _g = GA::<u8, {U(n)}>::from_array([0u8; {u}]); }}', u == n, pair=f'from_array:{n}-{n}')
            c.add('into-native', f'{n}-{u}', f'fn p(a: GA<u8, {U(n)}>) {{ let _x: [u8; {u}] = a.into(); }}', u == n, pair=f'into-native:{n}-{n}')
            c.add('from-native', f'{n}-{u}', f'fn p() {{ let _g: GA<u8, {U(n)}> = [0u8; {u}].into(); }}', u == n, pair=f'from-native:{n}-{n}')
            c.add('asref-native', f'{n}-{u}', f'fn p(a: &GA<u8, {U(n)}>) {{ let _r: &[u8; {u}] = a.as_ref(); }}', u == n, pair=f'asref-native:{n}-{n}')
            c.add('asmut-native', f'{n}-{u}', f'fn p(a: &mut GA<u8, {U(n)}>) {{ let _r: &mut [u8; {u}] = a.as_mut(); }}', u == n, pair=f'asmut-native:{n}-{n}')
            c.add('from-native-ref', f'{n}-{u}', f'fn p(x: &[u8; {u}]) {{ let _g: &GA<u8, {U(n)}> = x.into(); }}', u == n, pair=f'from-native-ref:{n}-{n}')
            c.add('from-native-mut', f'{n}-{u}', f'fn p(x: &mut [u8; {u}]) {{ let _g: &mut GA<u8, {U(n)}> = x.into(); }}', u == n, pair=f'from-native-mut:{n}-{n}')
            c.add('from_chunks', f'{n}-{u}', f'fn p(x: &[[u8; {u}]]) {{ let _g: &[GA<u8, {U(n)}>] = GA::from_chunks(x); }}', u == n, pair=f'from_chunks:{n}-{n}')
            c.add('from_chunks_mut', f'{n}-{u}', f'fn p(x: &mut [[u8; {u}]]) {{ let _g: &mut [GA<u8, {U(n)}>] = GA::from_chunks_mut(x); }}', u == n, pair=f'from_chunks_mut:{n}-{n}')
            c.add('into_chunks', f'{n}-{u}', f'fn p(x: &[GA<u8, {U(n)}>]) {{ let _g: &[[u8; {u}]] = GA::into_chunks(x); }}', u == n, pair=f'into_chunks:{n}-{n}')
            c.add('into_chunks-turbofish', f'{n}-{u}', f'fn p(x: &[GA<u8, {U(n)}>]) {{ let _g = GA::<u8, {U(n)}>::into_chunks::<{u}>(x); }}', u == n, pair=f'into_chunks-turbofish:{n}-{n}')
            c.add('into_chunks_mut', f'{n}-{u}', f'fn p(x: &mut [GA<u8, {U(n)}>]) {{ let _g: &mut [[u8; {u}]] = GA::into_chunks_mut(x); }}', u == n, pair=f'into_chunks_mut:{n}-{n}')
            c.add('into_chunks_mut-turbofish', f'{n}-{u}', f'fn p(x: &mut [GA<u8, {U(n)}>]) {{ let _g = GA::<u8, {U(n)}>::into_chunks_mut::<{u}>(x); }}', u == n, pair=f'into_chunks_mut-turbofish:{n}-{n}')
        # unflatten: NM / N
        for nn in range(0, 4):
            for r in range(0, L + 2):
                ok = nn >= 1 and r == n // max(nn, 1)
                c.add('unflatten', f'{n}-{nn}-{r}', f'fn p(a: GA<u8, {U(n)}>) {{ let _u: GA<GA<u8, {U(nn)}>, {U(r)}> = a.unflatten(); }}', ok, pair=f'unflatten:{n}-1-{n}')
    # tuples: arity 1..=13
    for arity in range(1, 14):
        tup_v = '(' + ''.join('0u8, ' for _ in range(arity)) + ')'
        tup_t = '(' + ''.join('u8, ' for _ in range(arity)) + ')'
        for n in sorted({arity, arity - 1, arity + 1, 0, 12, 13}):
            if n < 0:
                continue
            ok = arity == n and n <= 12
            c.add('from-tuple', f'{arity}-{n}', f'fn p() {{ let _g: GA<u8, {U(n)}> = {tup_v}.into(); }}', ok, pair=f'from-tuple:{min(arity,12)}-{min(arity,12)}')
            c.add('into-tuple', f'{arity}-{n}', f'fn p(a: GA<u8, {U(n)}>) {{ let _t: {tup_t} = a.into(); }}', ok, pair=f'into-tuple:{min(arity,12)}-{min(arity,12)}')
    # hex formatting is for byte arrays only
    c.add('hex', 'u8-lower', 'fn p(a: GA<u8, U3>) -> String { format!("{:x}", a) }', True)
    c.add('hex', 'u8-upper', 'fn p(a: GA<u8, U3>) -> String { format!("{:X}", a) }', True)
    c.add('hex', 'u16-lower', 'fn p(a: GA<u16, U3>) -> String { format!("{:x}", a) }', False, pair='hex:u8-lower')
    c.add('hex', 'i8-upper', 'fn p(a: GA<i8, U3>) -> String { format!("{:X}", a) }', False, pair='hex:u8-upper')
    # edge lengths for the two-length relations
    for n in edge:
        for m in sorted({n, n + 1, n - 1}):
            ok = n == m
            c.add('zip-owned', f'{n}-{m}', f'fn p(a: GA<u8, {U(n)}>, b: GA<u8, {U(m)}>) {{ let _ = a.zip(b, |x, y| x.wrapping_add(y)); }}', ok, pair=f'zip-owned:{n}-{n}')
            c.add('eq', f'{n}-{m}', f'fn p(a: GA<u8, {U(n)}>, b: GA<u8, {U(m)}>) -> bool {{ a == b }}', ok, pair=f'eq:{n}-{n}')
            c.add('append', f'{n}-{m}', f'fn p(a: GA<u8, {U(n)}>) {{ let _c: GA<u8, {U(m)}> = a.append(1u8); }}', m == n + 1, pair=f'append:{n}-{n+1}')
            c.add('pop_back', f'{n}-{m}', f'fn p(a: GA<u8, {U(n)}>) {{ let (_c, _x): (GA<u8, {U(m)}>, u8) = a.pop_back(); }}', m == n - 1, pair=f'pop_back:{n}-{n-1}')
            c.add('into_array', f'{n}-{m}', f'fn p(a: GA<u8, {U(n)}>) {{ let _x: [u8; {m}] = a.into_array(); }}', ok, pair=f'into_array:{n}-{n}')
            c.add('from_chunks', f'{n}-{m}', f'fn p(x: &[[u8; {m}]]) {{ let _g: &[GA<u8, {U(n)}>] = GA::from_chunks(x); }}', ok, pair=f'from_chunks:{n}-{n}')
            c.add('split', f'{n}-{m}-0', f'fn p(a: GA<u8, {U(n)}>) {{ let (_h, _t): (GA<u8, {U(m)}>, GA<u8, U0>) = Split::<u8, {U(m)}>::split(a); }}', ok, pair=f'split:{n}-{n}-0')


def gen_kinds(c):
    c.add('kind', 'U0', 'fn p(a: GA<u8, U0>) {}', True, KIND)
    c.add('kind', 'U5', 'fn p(a: GA<u8, U5>) {}', True, KIND)
    c.add('kind', 'Const5', 'fn p(a: GA<u8, ConstArrayLength<5>>) { let _x: [u8; 5] = a.into_array(); }', True, KIND)
    c.add('kind', 'generic', 'fn p<N: ArrayLength>(a: GA<u8, N>) -> usize { a.len() }', True, KIND)
    c.add('kind', 'P1', 'fn p(a: GA<u8, P1>) {}', False, KIND, pair='kind:U5')
    c.add('kind', 'N1', 'fn p(a: GA<u8, N1>) {}', False, KIND, pair='kind:U5')
    c.add('kind', 'Z0', 'fn p(a: GA<u8, Z0>) {}', False, KIND, pair='kind:U0')
    c.add('kind', 'B1', 'fn p(a: GA<u8, B1>) {}', False, KIND, pair='kind:U5')
    c.add('kind', 'usize', 'fn p(a: GA<u8, usize>) {}', False, KIND, pair='kind:U5')
    c.add('kind', 'user-impl', 'mod m { use super::*; pub struct Mine; unsafe impl ArrayLength for Mine { type ArrayType<T> = [T; 0]; } } fn p(a: GA<u8, m::Mine>) {}', False, KIND, pair='kind:U0')
    c.add('kind', 'user-unsigned', 'mod m { use super::*; pub struct Mine; unsafe impl ArrayLength for Mine { type ArrayType<T> = GA<T, U3>; } } fn p() {}', False, KIND, pair='kind:U0')
    c.add('kind', 'generic-unbounded', 'fn p<N>(a: GA<u8, N>) {}', False, KIND, pair='kind:generic')
    c.add('kind', 'generic-unsigned-only', 'fn p<N: Unsigned>(a: GA<u8, N>) {}', False, KIND, pair='kind:generic')


T_TRAITS = {
    'u8': {'Send', 'Sync', 'Copy', 'Clone'},
    'String': {'Send', 'Sync', 'Clone'},
    'std::rc::Rc<u8>': {'Clone'},
    'core::cell::Cell<u8>': {'Send', 'Clone'},
    '*const u8': {'Copy', 'Clone'},
    "std::sync::MutexGuard<'static, u8>": {'Sync'},
}


def gen_auto(c, ns):
    for t, has in T_TRAITS.items():
        for n in ns:
            conts = {
                'array': (f'GA<{t}, {U(n)}>', {'Send': 'Send' in has, 'Sync': 'Sync' in has, 'Clone': 'Clone' in has, 'Copy': 'Copy' in has}),
                'iter': (f'GenericArrayIter<{t}, {U(n)}>', {'Send': 'Send' in has, 'Sync': 'Sync' in has, 'Clone': 'Clone' in has, 'Copy': False}),
                'ref': (f"&'static GA<{t}, {U(n)}>", {'Send': 'Sync' in has, 'Sync': 'Sync' in has, 'Clone': True, 'Copy': True}),
                'box': (f'Box<GA<{t}, {U(n)}>>', {'Send': 'Send' in has, 'Sync': 'Sync' in has, 'Clone': 'Clone' in has, 'Copy': False}),
            }
            tn = t.replace(' ', '').replace('<', '[').replace('>', ']').replace("'", '').replace('::', '.').replace('*', 'ptr-')
            for cn, (ty, model) in conts.items():
                for tr, ok in model.items():
                    c.add(f'auto-{tr}', f'{cn}-{tn}-{n}', f'fn p() {{ fn need<X: {tr}>() {{}} need::<{ty}>(); }}', ok, AUTO, pair=f'auto-{tr}:{cn}-u8-{n}')


# (name, source declaration, shared view expr, mutable view expr or None, statement that invalidates the source)
def views():
    V = []
    a3 = 'let mut s: GA<u8, U3> = GA::default();'
    v6 = 'let mut s: [u8; 6] = [0; 6];'
    V.append(('as_slice', a3, 's.as_slice()', 's.as_mut_slice()'))
    V.append(('deref', a3, '&*s', '&mut *s'))
    V.append(('index-range', a3, '&s[1..]', '&mut s[1..]'))
    V.append(('asref-slice', a3, 'AsRef::<[u8]>::as_ref(&s)', 'AsMut::<[u8]>::as_mut(&mut s)'))
    V.append(('asref-native', a3, 'AsRef::<[u8; 3]>::as_ref(&s)', 'AsMut::<[u8; 3]>::as_mut(&mut s)'))
    V.append(('borrow', a3, 'Borrow::<[u8]>::borrow(&s)', 'BorrowMut::<[u8]>::borrow_mut(&mut s)'))
    V.append(('ref-into_iter', a3, '(&s).into_iter()', '(&mut s).into_iter()'))
    V.append(('iter', a3, 's.iter()', 's.iter_mut()'))
    V.append(('from_slice', v6, 'GA::<u8, U6>::from_slice(&s)', 'GA::<u8, U6>::from_mut_slice(&mut s)'))
    V.append(('try_from_slice', v6, 'GA::<u8, U6>::try_from_slice(&s).unwrap()', 'GA::<u8, U6>::try_from_mut_slice(&mut s).unwrap()'))
    V.append(('TryFrom', v6, '<&GA<u8, U6>>::try_from(&s[..]).unwrap()', '<&mut GA<u8, U6>>::try_from(&mut s[..]).unwrap()'))
    V.append(('From-native-ref', 'let mut s: [u8; 3] = [0; 3];', '<&GA<u8, U3>>::from(&s)', '<&mut GA<u8, U3>>::from(&mut s)'))
    V.append(('chunks_from_slice-chunks', v6, 'GA::<u8, U2>::chunks_from_slice(&s).0', 'GA::<u8, U2>::chunks_from_slice_mut(&mut s).0'))
    V.append(('chunks_from_slice-rem', 'let mut s: [u8; 7] = [0; 7];', 'GA::<u8, U2>::chunks_from_slice(&s).1', 'GA::<u8, U2>::chunks_from_slice_mut(&mut s).1'))
    V.append(('slice_from_chunks', 'let mut s: [GA<u8, U2>; 3] = Default::default();', 'GA::<u8, U2>::slice_from_chunks(&s)', 'GA::<u8, U2>::slice_from_chunks_mut(&mut s)'))
    V.append(('from_chunks', 'let mut s: [[u8; 2]; 3] = [[0; 2]; 3];', 'GA::<u8, U2>::from_chunks(&s)', 'GA::<u8, U2>::from_chunks_mut(&mut s)'))
    V.append(('into_chunks', 'let mut s: [GA<u8, U2>; 3] = Default::default();', 'GA::<u8, U2>::into_chunks::<2>(&s)', 'GA::<u8, U2>::into_chunks_mut::<2>(&mut s)'))
    V.append(('split-head', a3, 'Split::<u8, U1>::split(&s).0', 'Split::<u8, U1>::split(&mut s).0'))
    V.append(('split-tail', a3, 'Split::<u8, U1>::split(&s).1', 'Split::<u8, U1>::split(&mut s).1'))
    V.append(('flatten', 'let mut s: GA<GA<u8, U2>, U3> = GA::default();', 'Flatten::flatten(&s)', 'Flatten::flatten(&mut s)'))
    V.append(('unflatten', 'let mut s: GA<u8, U6> = GA::default();', 'Unflatten::<u8, U6, U2>::unflatten(&s)', 'Unflatten::<u8, U6, U2>::unflatten(&mut s)'))
    V.append(('iter-as_slice', 'let mut s = GA::<u8, U3>::default().into_iter();', 's.as_slice()', 's.as_mut_slice()'))
    V.append(('map-ref-closure-arg', a3, '(&s).map(|x| x)', None))
    V.append(('arr-of-refs', 'let mut s: u8 = 0;', 'arr![&s][0]', None))
    V.append(('arr-of-refs-repeat', 'let mut s: u8 = 0;', 'arr![&s; 2][1]', None))
    return V


def gen_lifetimes(c):
    use = 'let _ = core::mem::size_of_val(&{v});'
    for name, decl, sv, mv in views():
        inval = 's = Default::default();' if 'into_iter()' not in decl else 's = GA::<u8, U3>::default().into_iter();'
        # accept twin: view used, then the source is modified
        c.add('life-shared-ok', name, f'fn p() {{ {decl} let v = {sv}; {use.format(v="v")} {inval} }}', True, BORROW)
        c.add('life-shared-mutated', name, f'fn p() {{ {decl} let v = {sv}; {inval} {use.format(v="v")} }}', False, BORROW, pair=f'life-shared-ok:{name}')
        c.add('life-shared-dangling', name, f'fn p() {{ let v; {{ {decl} v = {sv}; }} {use.format(v="v")} }}', False, BORROW, pair=f'life-shared-ok:{name}')
        c.add('life-shared-scoped-ok', name, f'fn p() {{ {decl} {{ let v = {sv}; {use.format(v="v")} }} {inval} }}', True, BORROW)
        if mv:
            c.add('life-mut-ok', name, f'fn p() {{ {decl} {{ let v1 = {mv}; {use.format(v="v1")} }} let v2 = {mv}; {use.format(v="v2")} }}', True, BORROW)
            c.add('life-mut-two-live', name, f'fn p() {{ {decl} let v1 = {mv}; let v2 = {mv}; {use.format(v="v1")} {use.format(v="v2")} }}', False, BORROW, pair=f'life-mut-ok:{name}')
            c.add('life-mut-shared-live', name, f'fn p() {{ {decl} let v1 = {sv}; let v2 = {mv}; {use.format(v="v1")} {use.format(v="v2")} }}', False, BORROW, pair=f'life-mut-ok:{name}')
            c.add('life-mut-dangling', name, f'fn p() {{ let v; {{ {decl} v = {mv}; }} {use.format(v="v")} }}', False, BORROW, pair=f'life-mut-ok:{name}')
    # widening to 'static through a function signature
    sig = [
        ('as_slice', "a: &'a GA<u8, U3>", "&'x [u8]", 'a.as_slice()'),
        ('as_mut_slice', "a: &'a mut GA<u8, U3>", "&'x mut [u8]", 'a.as_mut_slice()'),
        ('from_slice', "a: &'a [u8]", "&'x GA<u8, U3>", 'GA::from_slice(a)'),
        ('from_mut_slice', "a: &'a mut [u8]", "&'x mut GA<u8, U3>", 'GA::from_mut_slice(a)'),
        ('try_from_slice', "a: &'a [u8]", "&'x GA<u8, U3>", 'GA::try_from_slice(a).unwrap()'),
        ('try_from_mut_slice', "a: &'a mut [u8]", "&'x mut GA<u8, U3>", 'GA::try_from_mut_slice(a).unwrap()'),
        ('TryFrom-ref', "a: &'a [u8]", "&'x GA<u8, U3>", 'a.try_into().unwrap()'),
        ('TryFrom-mut', "a: &'a mut [u8]", "&'x mut GA<u8, U3>", 'a.try_into().unwrap()'),
        ('From-native-ref', "a: &'a [u8; 3]", "&'x GA<u8, U3>", 'a.into()'),
        ('From-native-mut', "a: &'a mut [u8; 3]", "&'x mut GA<u8, U3>", 'a.into()'),
        ('AsRef-native', "a: &'a GA<u8, U3>", "&'x [u8; 3]", 'a.as_ref()'),
        ('AsMut-native', "a: &'a mut GA<u8, U3>", "&'x mut [u8; 3]", 'a.as_mut()'),
        ('chunks_from_slice', "a: &'a [u8]", "&'x [GA<u8, U2>]", 'GA::<u8, U2>::chunks_from_slice(a).0'),
        ('chunks_from_slice-rem', "a: &'a [u8]", "&'x [u8]", 'GA::<u8, U2>::chunks_from_slice(a).1'),
        ('chunks_from_slice_mut', "a: &'a mut [u8]", "&'x mut [GA<u8, U2>]", 'GA::<u8, U2>::chunks_from_slice_mut(a).0'),
        ('chunks_from_slice_mut-rem', "a: &'a mut [u8]", "&'x mut [u8]", 'GA::<u8, U2>::chunks_from_slice_mut(a).1'),
        ('slice_from_chunks', "a: &'a [GA<u8, U2>]", "&'x [u8]", 'GA::slice_from_chunks(a)'),
        ('slice_from_chunks_mut', "a: &'a mut [GA<u8, U2>]", "&'x mut [u8]", 'GA::slice_from_chunks_mut(a)'),
        ('from_chunks', "a: &'a [[u8; 2]]", "&'x [GA<u8, U2>]", 'GA::from_chunks(a)'),
        ('from_chunks_mut', "a: &'a mut [[u8; 2]]", "&'x mut [GA<u8, U2>]", 'GA::from_chunks_mut(a)'),
        ('into_chunks', "a: &'a [GA<u8, U2>]", "&'x [[u8; 2]]", 'GA::into_chunks(a)'),
        ('into_chunks_mut', "a: &'a mut [GA<u8, U2>]", "&'x mut [[u8; 2]]", 'GA::into_chunks_mut(a)'),
        ('split-ref-head', "a: &'a GA<u8, U3>", "&'x GA<u8, U1>", 'Split::<u8, U1>::split(a).0'),
        ('split-ref-tail', "a: &'a GA<u8, U3>", "&'x GA<u8, U2>", 'Split::<u8, U1>::split(a).1'),
        ('split-mut-head', "a: &'a mut GA<u8, U3>", "&'x mut GA<u8, U1>", 'Split::<u8, U1>::split(a).0'),
        ('split-mut-tail', "a: &'a mut GA<u8, U3>", "&'x mut GA<u8, U2>", 'Split::<u8, U1>::split(a).1'),
        ('flatten-ref', "a: &'a GA<GA<u8, U2>, U3>", "&'x GA<u8, U6>", 'a.flatten()'),
        ('flatten-mut', "a: &'a mut GA<GA<u8, U2>, U3>", "&'x mut GA<u8, U6>", 'a.flatten()'),
        ('unflatten-ref', "a: &'a GA<u8, U6>", "&'x GA<GA<u8, U2>, U3>", 'a.unflatten()'),
        ('unflatten-mut', "a: &'a mut GA<u8, U6>", "&'x mut GA<GA<u8, U2>, U3>", 'a.unflatten()'),
        ('iter-as_slice', "a: &'a GenericArrayIter<u8, U3>", "&'x [u8]", 'a.as_slice()'),
        ('iter-as_mut_slice', "a: &'a mut GenericArrayIter<u8, U3>", "&'x mut [u8]", 'a.as_mut_slice()'),
        ('ref-into_iter', "a: &'a GA<u8, U3>", "core::slice::Iter<'x, u8>", 'a.into_iter()'),
        ('mut-into_iter', "a: &'a mut GA<u8, U3>", "core::slice::IterMut<'x, u8>", 'a.into_iter()'),
        ('arr-of-refs', "a: &'a u8", "&'x u8", 'arr![a][0]'),
        ('arr-of-refs-as', "a: &'a u8", "&'x u8", 'arr![a as &u8][0]'),
        ('arr-repeat-of-refs', "a: &'a u8", "&'x u8", 'arr![a; 2][0]'),
        ('arr-repeat-type-of-refs', "a: &'a u8", "&'x u8", 'arr![a; U2][0]'),
        ('map-ref', "a: &'a GA<String, U2>", "GA<&'x str, U2>", 'a.map(|s| s.as_str())'),
        ('zip-ref', "a: &'a GA<String, U2>", "GA<&'x String, U2>", 'a.zip(a, |s, _| s)'),
        ('borrow', "a: &'a GA<u8, U3>", "&'x [u8]", 'a.borrow()'),
        ('borrow_mut', "a: &'a mut GA<u8, U3>", "&'x mut [u8]", 'a.borrow_mut()'),
        ('deref', "a: &'a GA<u8, U3>", "&'x [u8]", '&**a'),
        ('deref_mut', "a: &'a mut GA<u8, U3>", "&'x mut [u8]", '&mut **a'),
    ]
    for name, arg, ret, body in sig:
        c.add('life-sig-ok', name, f"fn p<'a>({arg}) -> {ret.replace(chr(39)+'x', chr(39)+'a')} {{ {body} }}", True, BORROW)
        c.add('life-sig-static', name, f"fn p<'a>({arg}) -> {ret.replace(chr(39)+'x', chr(39)+'static')} {{ {body} }}", False, BORROW, pair=f'life-sig-ok:{name}')
        c.add('life-sig-unrelated', name, f"fn p<'a, 'b>({arg}) -> {ret.replace(chr(39)+'x', chr(39)+'b')} {{ {body} }}", False, BORROW, pair=f'life-sig-ok:{name}')


def build_corpus(tier):
    c = Corpus()
    L = 6 if tier == 'quick' else 9
    edge = [] if tier == 'quick' else [15, 16, 17, 31, 32, 33, 63, 64, 65, 100, 127, 128, 255, 256, 257, 1000, 1022, 1023]
    if tier == 'quick':
        edge = [16, 33, 1023]
    gen_lengths(c, L, edge)
    gen_kinds(c)
    gen_auto(c, [0, 1, 2, 3, 6])
    gen_lifetimes(c)
    seen = set()
    out = []
    for p in c.programs:
        if p['id'] in seen:
            continue
        seen.add(p['id'])
        out.append(p)
    c.programs = out
    return c


def write_crate(dirp, progs, name, member=False):
    os.makedirs(os.path.join(dirp, 'src'), exist_ok=True)
    with open(os.path.join(dirp, 'Cargo.toml'), 'w') as f:
        f.write(f'[package]\nname = "{name}"\nversion = "0.0.0"\nedition = "2021"\n\n[lib]\npath = "src/lib.rs"\n\n[dependencies]\ngeneric-array = {{ path = "{REPO}", features = ["alloc"] }}\n' + ('' if member else '\n[profile.dev]\ndebug = false\nincremental = false\n\n[workspace]\n'))
    if not member:
        shutil.copy(os.path.join(REPO, 'Cargo.lock'), os.path.join(dirp, 'Cargo.lock'))
    lines = [PRELUDE.rstrip('\n')]
    line_no = len(PRELUDE.rstrip('\n').split('\n'))
    ranges = []
    for i, p in enumerate(progs):
        body = f'mod q{i} {{ use super::*; {p["code"]} }}'
        n = body.count('\n') + 1
        lines.append(body)
        ranges.append((line_no + 1, line_no + n, p))
        line_no += n
    with open(os.path.join(dirp, 'src', 'lib.rs'), 'w') as f:
        f.write('\n'.join(lines) + '\n')
    return ranges


def primary_loc(span, srcfile):
    """follow a span through its macro expansion chain back to the corpus file"""
    s = span
    for _ in range(20):
        if s is None:
            return None
        if s.get('file_name', '').endswith(srcfile):
            return s['line_start']
        exp = s.get('expansion')
        s = exp.get('span') if exp else None
    return None


def compile_crate(dirp, ranges, target, name=None, stdout=None):
    env = env_base()
    env['CARGO_TARGET_DIR'] = target
    name = name or os.path.basename(dirp)
    if stdout is None:
        p = subprocess.run(['cargo', 'check', '--offline', '--message-format=json', '-q'], cwd=dirp, env=env, stdout=subprocess.PIPE, stderr=subprocess.PIPE, text=True)
        stdout, rc, stderr = p.stdout, p.returncode, p.stderr
    else:
        rc, stderr = 0, ''
    verdict = {id(r[2]): set() for r in ranges}
    msgs = {id(r[2]): [] for r in ranges}
    unattributed = []
    starts = [r[0] for r in ranges]
    import bisect
    got_any = False
    for line in stdout.splitlines():
        try:
            m = json.loads(line)
        except Exception:
            continue
        if m.get('reason') != 'compiler-message':
            continue
        tname = m.get('target', {}).get('name', '').replace('-', '_')
        if tname.startswith('c12_') and tname != name:
            continue   # another member of the corpus workspace
        if tname != name:
            # a diagnostic in a dependency (the crate under test itself failing to build) is a machinery problem
            if m['message'].get('level') == 'error':
                unattributed.append('dependency: ' + m['message'].get('message', '')[:200])
            continue
        d = m['message']
        if d.get('level') != 'error':
            continue
        if not d.get('spans'):
            continue  # "aborting due to ..."
        got_any = True
        code = (d.get('code') or {}).get('code')
        text = d.get('message', '')
        if code is None:
            code = 'lifetime' if 'lifetime may not live long enough' in text or 'lifetime' in text else 'E????:' + text[:60]
        locs = set()
        for sp in d['spans']:
            if not sp.get('is_primary'):
                continue
            ln = primary_loc(sp, 'src/lib.rs')
            if ln:
                locs.add(ln)
        if not locs:
            for sp in d['spans']:
                ln = primary_loc(sp, 'src/lib.rs')
                if ln:
                    locs.add(ln)
        if not locs:
            unattributed.append(f'{code}: {text[:160]}')
            continue
        for ln in locs:
            k = bisect.bisect_right(starts, ln) - 1
            if k < 0 or not (ranges[k][0] <= ln <= ranges[k][1]):
                unattributed.append(f'{code} at line {ln}: {text[:120]}')
                continue
            verdict[id(ranges[k][2])].add(code)
            msgs[id(ranges[k][2])].append(f'{code}: {text[:140]}')
    if rc != 0 and not got_any:
        raise Machinery(f'corpus crate {dirp} failed to build without attributable diagnostics:\n{stderr[-3000:]}')
    return verdict, msgs, unattributed


def judge(progs, verdict, msgs):
    viols = []
    stats = {'accepted': 0, 'rejected': 0, 'by_code': {}}
    byid = {p['id']: p for p in progs}
    ok_accept = set()
    for p in progs:
        codes = verdict[id(p)]
        if not codes:
            stats['accepted'] += 1
        else:
            stats['rejected'] += 1
            for cd in codes:
                stats['by_code'][cd] = stats['by_code'].get(cd, 0) + 1
        if p['expect'] == 'accept':
            if codes:
                viols.append({'desc': 'C12;' + p['id'], 'what': f"a correct program is rejected: {msgs[id(p)][:2]}", 'stable': True, 'program': p['code']})
            else:
                ok_accept.add(p['id'])
    for p in progs:
        if p['expect'] != 'reject':
            continue
        codes = verdict[id(p)]
        if not codes:
            viols.append({'desc': 'C12;' + p['id'], 'what': 'a program that must be rejected (wrong length / missing bound / escaping or aliasing reference) compiles', 'stable': True, 'program': p['code']})
        elif not (codes & set(p['classes'])):
            viols.append({'desc': 'C12;' + p['id'], 'what': f"rejected, but not with an error of the expected class {p['classes']}: {msgs[id(p)][:2]}", 'stable': True, 'program': p['code']})
    return viols, stats


def run(part, tier):
    t0 = time.time()
    corp = build_corpus(tier)
    progs = corp.programs
    # type-level programs and borrow-check programs go to separate crates (compiled in parallel)
    groups = {'c12_types': [p for p in progs if not p['family'].startswith('life-')], 'c12_borrow': [p for p in progs if p['family'].startswith('life-')]}
    # split the big type group for parallelism
    tg = groups.pop('c12_types')
    k = 6 if tier == 'quick' else 12
    for i in range(k):
        groups[f'c12_types{i}'] = tg[i::k]
    cdir = os.path.join(BASE, 'corpus')
    target = os.path.join(BASE, 'target', 'corpus')
    os.makedirs(cdir, exist_ok=True)
    verdict, msgs, unatt = {}, {}, []

    ws = os.path.join(cdir, 'c12')
    shutil.rmtree(ws, ignore_errors=True)
    os.makedirs(ws)
    rng = {}
    for name, ps in groups.items():
        rng[name] = write_crate(os.path.join(ws, name), ps, name, member=True)
    with open(os.path.join(ws, 'Cargo.toml'), 'w') as f:
        f.write('[workspace]\nresolver = "2"\nmembers = [' + ', '.join(f'"{n}"' for n in groups) + ']\n\n[profile.dev]\ndebug = false\nincremental = false\n')
    shutil.copy(os.path.join(REPO, 'Cargo.lock'), os.path.join(ws, 'Cargo.lock'))
    env = env_base()
    env['CARGO_TARGET_DIR'] = target
    pc = subprocess.run(['cargo', 'check', '--offline', '--message-format=json', '-q', '--workspace', '--keep-going'], cwd=ws, env=env, stdout=subprocess.PIPE, stderr=subprocess.PIPE, text=True)
    if '"reason":"compiler-message"' not in pc.stdout and pc.returncode != 0:
        raise Machinery('corpus workspace failed to build without diagnostics:\n' + pc.stderr[-3000:])
    for name in groups:
        v, m, u = compile_crate(os.path.join(ws, name), rng[name], target, name=name, stdout=pc.stdout)
        verdict.update(v)
        msgs.update(m)
        unatt += u
    unatt = sorted(set(unatt))
    if unatt:
        raise Machinery('compiler errors that could not be attributed to a corpus program: ' + '; '.join(unatt[:5]))
    viols, stats = judge(progs, verdict, msgs)
    pairs = sum(1 for p in progs if p['expect'] == 'reject' and p.get('pair'))
    # every reject program's accept twin must exist and compile
    ids_ok = {p['id'] for p in progs if p['expect'] == 'accept' and not verdict[id(p)]}
    allids = {p['id'] for p in progs}
    missing_twin = [p['id'] for p in progs if p['expect'] == 'reject' and p.get('pair') and p['pair'] not in allids]
    fam = {}
    for p in progs:
        f = fam.setdefault(p['family'], {'accept': 0, 'reject': 0})
        f[p['expect']] += 1
    isolated = None
    if tier == 'thorough' and not viols:
        isolated = isolate_rejects(progs, target, cdir)
        viols += isolated.pop('violations')
    samples = [{'case': p['id'], 'expect': p['expect'], 'program': p['code'], 'rustc': sorted(verdict[id(p)])} for p in (progs[:2] + progs[len(progs) // 3: len(progs) // 3 + 2] + progs[-3:])]
    result = {
        'evaluations': len(progs), 'distinct_nontrivial': sum(1 for p in progs if p['expect'] == 'reject'), 'programs': len(progs),
        'outcomes': {'accepted': stats['accepted'], 'rejected': stats['rejected']}, 'rejected_by_code': stats['by_code'], 'pairs': pairs,
        'twins_missing_from_corpus': len(missing_twin), 'families': fam, 'samples': samples, 'wall_s': round(time.time() - t0, 2), 'crates': len(groups),
    }
    if isolated is not None:
        result['isolated_recompilation'] = isolated
    return {'violations': viols, 'result': result, 'substrates': {'rustc': subprocess.run(['rustc', '--version'], capture_output=True, text=True).stdout.strip()}}


def isolate_rejects(progs, target, cdir):
    """thorough: compile every reject program alone (direct rustc against the rmeta of this build) to exclude masking"""
    deps = os.path.join(target, 'debug', 'deps')
    ga = sorted([f for f in os.listdir(deps) if f.startswith('libgeneric_array-') and f.endswith('.rmeta')], key=lambda f: os.path.getmtime(os.path.join(deps, f)))
    if not ga:
        raise Machinery('no generic_array rmeta found for isolated recompilation')
    ga = os.path.join(deps, ga[-1])
    d = os.path.join(cdir, 'isolated')
    shutil.rmtree(d, ignore_errors=True)
    os.makedirs(d)
    rej = [p for p in progs if p['expect'] == 'reject']

    def one(ip):
        i, p = ip
        f = os.path.join(d, f'p{i}.rs')
        open(f, 'w').write(PRELUDE + p['code'] + '\n')
        r = subprocess.run(['rustc', '--edition', '2021', '--crate-type', 'lib', '--emit=metadata', '-o', os.path.join(d, f'p{i}.rmeta'), '-L', f'dependency={deps}', '--extern', f'generic_array={ga}', '--error-format=short', f],
                           capture_output=True, text=True)
        os.remove(f)
        try:
            os.remove(os.path.join(d, f'p{i}.rmeta'))
        except OSError:
            pass
        return p, r.returncode, r.stderr

    viols = []
    n = 0
    with ThreadPoolExecutor(max_workers=NCPU) as ex:
        for p, rc, err in ex.map(one, enumerate(rej)):
            n += 1
            if rc == 0:
                viols.append({'desc': 'C12;isolated;' + p['id'], 'what': 'compiled alone, the program that must be rejected is accepted', 'stable': True, 'program': p['code']})
    shutil.rmtree(d, ignore_errors=True)
    return {'programs': n, 'accepted_in_isolation': len(viols), 'violations': viols}


def replay(part, body):
    prog = body.get('program')
    if not prog:
        raise Machinery('replay file has no program text')
    desc = body['desc']
    corp = build_corpus('thorough')
    pid = desc.split(';')[-1]
    p = next((x for x in corp.programs if x['id'] == pid), None)
    if p is None:
        p = {'id': pid, 'family': 'replay', 'code': prog, 'expect': 'reject', 'classes': sorted(LEN | BORROW | AUTO | KIND), 'pair': None}
    cdir = os.path.join(BASE, 'corpus', 'c12_replay')
    shutil.rmtree(cdir, ignore_errors=True)
    ranges = write_crate(cdir, [p], 'c12_replay')
    verdict, msgs, unatt = compile_crate(cdir, ranges, os.path.join(BASE, 'target', 'corpus'))
    viols, _ = judge([p], verdict, msgs)
    return viols


def part():
    return {'name': 'program-corpus', 'run': run, 'replay': replay}
