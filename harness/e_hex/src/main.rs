//! C14 — {:x} / {:X} print exactly the bytes' digits, truncated to the precision.
//! The same source is built twice (packages e_hex and e_hex_fh: crate feature `faster-hex`
//! off / on); each build compares every output with a per-byte reference and reports a digest
//! of all outputs so that the driver can compare the two builds with each other.

use core::ops::Add;
use generic_array::typenum::*;
use generic_array::{ArrayLength, GenericArray};
use vcommon::*;

type GA<T, N> = GenericArray<T, N>;

fn fill<N: ArrayLength>(pattern: u32) -> GA<u8, N> {
    let mut a = GA::<u8, N>::default();
    for (i, b) in a.iter_mut().enumerate() {
        *b = match pattern {
            0x1000 => 0x00,
            0x1001 => 0xFF,
            0x1002 => i as u8,
            k => ((i as u32).wrapping_mul(37).wrapping_add(k)) as u8,
        };
    }
    a
}

fn reference(bytes: &[u8], upper: bool) -> String {
    let mut s = String::with_capacity(bytes.len() * 2);
    for b in bytes {
        if upper {
            s.push_str(&format!("{:02X}", b));
        } else {
            s.push_str(&format!("{:02x}", b));
        }
    }
    s
}

fn fnv(h: &mut u64, s: &str) {
    for b in s.bytes() {
        *h ^= b as u64;
        *h = h.wrapping_mul(0x100000001b3);
    }
    *h ^= 0xff;
    *h = h.wrapping_mul(0x100000001b3);
}

fn precisions(n: usize) -> Vec<usize> {
    if n <= 65 {
        (0..=2 * n + 2).collect()
    } else {
        let mut v: Vec<usize> = vec![0, 1, 2, 3, 31, 32, 33, 63, 64, 65, 2047, 2048, 2049, 2050, 4095, 4096, 4097, 6143, 6144, 6145, 8191, 8192, 8193, 12287, 12288, 12289, 16383, 16384, 16385, 32767, 32768, 32769, n - 1, n, n + 1];
        v.extend([2 * n - 3, 2 * n - 2, 2 * n - 1, 2 * n, 2 * n + 1, 2 * n + 7]);
        // std's formatting machinery itself refuses a precision above u16::MAX ("Formatting argument out of range")
        v.extend([65534, 65535]);
        v.retain(|&p| p <= 2 * n + 7 && p <= u16::MAX as usize);
        v.sort();
        v.dedup();
        v
    }
}

thread_local! { static CALLS: std::cell::Cell<u64> = const { std::cell::Cell::new(0) }; }

fn hex_case<N>(pattern: u32, digest: &std::cell::Cell<u64>) -> Result<CaseInfo, String>
where
    N: ArrayLength + Add<N>,
    Sum<N, N>: ArrayLength,
{
    let n = N::USIZE;
    let a = fill::<N>(pattern);
    let mut h = 0xcbf29ce484222325u64;
    let mut outcomes = 0usize;
    for upper in [false, true] {
        let full = reference(&a, upper);
        let got = if upper { format!("{:X}", a) } else { format!("{:x}", a) };
        fnv(&mut h, &got);
        if got != full {
            return Err(mismatch(n, upper, None, &got, &full));
        }
        for p in precisions(n) {
            let got = if upper { format!("{:.*X}", p, a) } else { format!("{:.*x}", p, a) };
            fnv(&mut h, &got);
            let want = &full[..p.min(2 * n)];
            if got != want {
                return Err(mismatch(n, upper, Some(p), &got, want));
            }
            outcomes += 1;
        }
    }
    CALLS.with(|c| c.set(c.get() + outcomes as u64 + 2));
    // "and nothing else": width, fill, alignment, sign and alternate flags must not add or change anything
    let lower = reference(&a, false);
    let upper = reference(&a, true);
    let p7 = 7.min(2 * n);
    let specs: [(String, &str); 10] = [
        (format!("{:12x}", a), &lower[..]),
        (format!("{:>300X}", a), &upper[..]),
        (format!("{:*^9x}", a), &lower[..]),
        (format!("{:<40.7x}", a), &lower[..p7]),
        (format!("{:012.7X}", a), &upper[..p7]),
        (format!("{:#x}", a), &lower[..]),
        (format!("{:#.7X}", a), &upper[..p7]),
        (format!("{:+x}", a), &lower[..]),
        (format!("{:-^1.0x}", a), ""),
        (format!("{:0>5.1X}", a), &upper[..1.min(2 * n)]),
    ];
    for (i, (got, want)) in specs.iter().enumerate() {
        fnv(&mut h, got);
        if got != want {
            return Err(format!("N = {n}, flagged format #{i}: output {:?} has {} chars, expected exactly the {} digit(s) {:?} and nothing else", &got[..got.len().min(24)], got.len(), want.len(), &want[..want.len().min(24)]));
        }
    }
    digest.set(h);
    Ok(CaseInfo::new(n > 0, format!("formatted:{}", if outcomes > 0 { "with-precisions" } else { "plain" })))
}

fn mismatch(n: usize, upper: bool, p: Option<usize>, got: &str, want: &str) -> String {
    let at = got.bytes().zip(want.bytes()).position(|(x, y)| x != y).unwrap_or(got.len().min(want.len()));
    let ctx = |s: &str| -> String { s.chars().skip(at.saturating_sub(4)).take(12).collect() };
    format!(
        "N = {n}, {}, precision {:?}: output has {} chars, expected {}; first difference at char {at}: got ..{:?}.., expected ..{:?}..",
        if upper { "{:X}" } else { "{:x}" },
        p,
        got.len(),
        want.len(),
        ctx(got),
        ctx(want)
    )
}

macro_rules! for_ns {
    ([$($n:ty),*], $N:ident => $body:block) => { $( { type $N = $n; $body } )* };
}

fn main() {
    let mut ctx = Ctx::from_args();
    let thorough = ctx.thorough() || ctx.only.is_some();
    let mut total_digest = 0u64;
    type U3000 = Prod<U3, U1000>;
    type U1025 = Add1<U1024>;
    type U2049 = Add1<U2048>;
    type U4097 = Add1<U4096>;
    type U5000 = Prod<U5, U1000>;
    type U8191 = Sub1<U8192>;
    type U8193 = Add1<U8192>;
    type U16385 = Add1<U16384>;
    for_ns!([U0, U1, U2, U3, U4, U5, U6, U7, U8, U9, U10, U11, U12, U13, U14, U15, U16, U17, U31, U32, U33, U63, U64, U65, U1023, U1024, U1025, U2047, U2048, U2049, U3000, U4096, U4097, U5000, U8191, U8192, U8193, U10000, U16384, U16385, U65536], N => {
        let n = N::USIZE;
        let mut pats: Vec<u32> = vec![0x1000, 0x1001, 0x1002];
        // a_k[i] = (37 i + k) mod 256: over all k every byte value occurs at every index
        let ks: Vec<u32> = if n > 65 && !thorough { (0..256).step_by(16).map(|k| k as u32 + (k as u32 / 16)).collect() } else { (0..256u32).collect() };
        pats.extend(ks);
        for &pat in &pats {
            let cell = std::cell::Cell::new(0u64);
            ctx.case(&format!("C14;N={n};pattern={pat:#x}"), || hex_case::<N>(pat, &cell));
            total_digest = total_digest.wrapping_mul(31).wrapping_add(cell.get());
        }
    });
    let calls = CALLS.with(|c| c.get());
    ctx.count("format_calls", calls);
    let shard = ctx.shard.0;
    ctx.finish(json!({"digests": { format!("shard{shard}"): format!("{total_digest:016x}") }}));
}
