//! C03 — every element is dropped exactly once across any history of ownership moves.
//!
//! Explicit-state BFS over *pools* of live containers (arrays, by-value iterators, native arrays,
//! tuples, Vec, Box<[T]>, boxed arrays, their iterators, nested arrays, elements handed back to
//! the caller).  A state is the shortest operation history reaching it; a transition rebuilds
//! the real pool by replaying the history on the real code and applies one more operation.
//! Outputs of one operation are the inputs of the next.  Reference model: a Vec of ids per
//! container with the corresponding Vec operation.  After every step the drop ledger must show
//! every live id undropped, every other id dropped exactly once, nothing observed after drop.

use std::collections::{HashMap, HashSet, VecDeque};
use vcommon::*;

mod gen;
use gen::{apply_real, C, LMAX};

pub mod kinds {
    // container kinds
    pub const ARR: u8 = 0;
    pub const ITER: u8 = 1;
    pub const BOX: u8 = 2;
    pub const NAT: u8 = 3;
    pub const NEST: u8 = 4;
    pub const TUP: u8 = 5;
    pub const VEC: u8 = 6;
    pub const BSLICE: u8 = 7;
    pub const VITER: u8 = 8;
    pub const HELD: u8 = 9;
    // operations
    macro_rules! ops { ($($name:ident = $v:literal),* $(,)?) => { $(pub const $name: u8 = $v;)* pub const OP_NAMES: &[(u8, &str)] = &[$(($v, stringify!($name))),*]; } }
    ops! {
        NEW = 0, NEWBOX = 1, NEWNEST = 2, DROP = 3, INTOITER = 4, NEXT = 5, NEXTBACK = 6, NTH = 7, NTHBACK = 8, ITERCLONE = 9, ITERFOLD = 10, ITERRFOLD = 11,
        ITERCOUNT = 12, ITERLAST = 13, ITERCOLLECTARR = 14, ITERCOLLECTVEC = 15, ITERCOLLECTBOX = 16, APPEND = 17, PREPEND = 18, POPBACK = 19, POPFRONT = 20,
        SPLIT = 21, CONCAT = 22, REMOVE = 23, SWAPREMOVE = 24, MAPPASS = 25, MAPREPLACE = 26, MAPREFNEW = 27, MAPMUTNEW = 28, ZIPKEEPLEFT = 29, ZIPKEEPRIGHT = 30,
        ZIPREFREFNEW = 31, ZIPOWNEDREF = 32, ZIPREFOWNED = 33, FOLDDROP = 34, ARRCLONE = 35, FLATTEN = 36, UNFLATTEN = 37, TONATIVE = 38, FROMNATIVE = 39,
        TOTUPLE = 40, FROMTUPLE = 41, ARRTOVEC = 42, VECTOARR = 43, ARRTOBSLICE = 44, BSLICETOARR = 45, BOXNEW = 46, UNBOX = 47, BOXINTOVEC = 48,
        BOXINTOBSLICE = 49, VECTOBOX = 50, BSLICETOBOX = 51, BOXINTOITER = 52, VINEXT = 53, VINEXTBACK = 54, BOXMAPREPLACE = 55, BOXZIPKEEPLEFT = 56,
        BOXFOLDDROP = 57, BOXCLONE = 58, VECTOVI = 59, ITERTRYCOLLECT = 60, ITERTRYCOLLECTBOX = 61, VITRYCOLLECT = 62, ZIPPLAINREF = 63, ZIPPLAINMUT = 64, ZIPPLAINOWNED = 65, ZIPPLAINLEFT = 66,
        ZIPPLAINLEFTREF = 67, BOXZIPPLAIN = 68, ITERCLONEFROM = 69,
    }
}
use kinds::*;

const NONE: u8 = 255;

#[derive(Clone, Copy, Debug, PartialEq, Eq, Hash)]
pub struct Op {
    pub kind: u8,
    /// pool index of the first operand (255: none)
    pub i: u8,
    /// pool index of the second operand (255: none)
    pub j: u8,
    pub p: u8,
    pub q: u8,
}

fn op_name(k: u8) -> &'static str {
    OP_NAMES.iter().find(|x| x.0 == k).map(|x| x.1).unwrap_or("?")
}
impl Op {
    fn text(&self) -> String {
        format!("{}:{}:{}:{}:{}", op_name(self.kind), self.i, self.j, self.p, self.q)
    }
    fn parse(s: &str) -> Option<Op> {
        let f: Vec<&str> = s.split(':').collect();
        if f.len() != 5 {
            return None;
        }
        let kind = OP_NAMES.iter().find(|x| x.1 == f[0])?.0;
        Some(Op { kind, i: f[1].parse().ok()?, j: f[2].parse().ok()?, p: f[3].parse().ok()?, q: f[4].parse().ok()? })
    }
}

/// reference model of one container
#[derive(Clone, Debug)]
struct M {
    k: u8,
    /// type-level length (arrays, iterators, boxes, native arrays, tuples: arity; nest: inner length)
    n: usize,
    /// nest: outer length
    m: usize,
    ids: Vec<u32>,
    /// iterator position since its origin
    f: usize,
    b: usize,
    cl: bool,
    /// elements were created by the operation: their ids are adopted from the real container
    fresh: bool,
}

type Shape = (u8, usize, usize, usize, usize, usize, bool);

impl M {
    fn new(k: u8, n: usize, ids: Vec<u32>) -> M {
        M { k, n, m: 0, ids, f: 0, b: 0, cl: false, fresh: false }
    }
    fn shape(&self) -> Shape {
        let tl = match self.k {
            VEC | BSLICE | VITER | HELD => 0,
            _ => self.n,
        };
        (self.k, tl, self.m, self.ids.len(), self.f, self.b, self.cl)
    }
}

#[derive(Clone, Copy)]
struct Caps {
    lmax: usize,
    containers: usize,
    elements: usize,
}

/// all operations enabled in a pool of these shapes, within the caps
fn enabled(pool: &[M], caps: Caps) -> Vec<Op> {
    let mut v = Vec::new();
    let nc = pool.len();
    let ne: usize = pool.iter().map(|m| m.ids.len()).sum();
    let room_c = |extra: usize| nc + extra <= caps.containers;
    let room_e = |extra: usize| ne + extra <= caps.elements;
    let op1 = |kind: u8, i: usize, p: usize, q: usize| Op { kind, i: i as u8, j: NONE, p: p as u8, q: q as u8 };
    let op2 = |kind: u8, i: usize, j: usize| Op { kind, i: i as u8, j: j as u8, p: 0, q: 0 };
    for n in 0..=caps.lmax {
        if room_c(1) && room_e(n) {
            v.push(Op { kind: NEW, i: NONE, j: NONE, p: n as u8, q: 0 });
            v.push(Op { kind: NEWBOX, i: NONE, j: NONE, p: n as u8, q: 0 });
        }
    }
    for n in 0..=caps.lmax {
        for m in 0..=caps.lmax {
            if n * m <= caps.lmax && (n * m > 0 || n + m <= 2) && room_c(1) && room_e(n * m) {
                v.push(Op { kind: NEWNEST, i: NONE, j: NONE, p: n as u8, q: m as u8 });
            }
        }
    }
    for (i, c) in pool.iter().enumerate() {
        let len = c.ids.len();
        v.push(op1(DROP, i, 0, 0));
        match c.k {
            ARR => {
                let n = c.n;
                v.push(op1(INTOITER, i, 0, 0));
                if n >= 1 && room_c(1) {
                    v.push(op1(POPBACK, i, 0, 0));
                    v.push(op1(POPFRONT, i, 0, 0));
                    for idx in 0..n {
                        v.push(op1(REMOVE, i, idx, 0));
                        v.push(op1(SWAPREMOVE, i, idx, 0));
                    }
                }
                if room_c(1) {
                    for k in 0..=n {
                        v.push(op1(SPLIT, i, k, 0));
                    }
                }
                v.push(op1(MAPPASS, i, 0, 0));
                v.push(op1(MAPREPLACE, i, 0, 0));
                for k in [ZIPPLAINREF, ZIPPLAINMUT, ZIPPLAINOWNED, ZIPPLAINLEFT, ZIPPLAINLEFTREF] {
                    v.push(op1(k, i, 0, 0));
                }
                if room_c(1) && room_e(n) {
                    v.push(op1(MAPREFNEW, i, 0, 0));
                    v.push(op1(MAPMUTNEW, i, 0, 0));
                    v.push(op1(ARRCLONE, i, 0, 0));
                }
                v.push(op1(FOLDDROP, i, 0, 0));
                for inner in 1..=n.max(1) {
                    if n % inner == 0 && inner <= caps.lmax {
                        v.push(op1(UNFLATTEN, i, inner, n / inner));
                    }
                }
                v.push(op1(TONATIVE, i, 0, 0));
                if (1..=3).contains(&n) {
                    v.push(op1(TOTUPLE, i, 0, 0));
                }
                v.push(op1(ARRTOVEC, i, 0, 0));
                v.push(op1(ARRTOBSLICE, i, 0, 0));
                v.push(op1(BOXNEW, i, 0, 0));
                for (j, d) in pool.iter().enumerate() {
                    if j == i {
                        continue;
                    }
                    if d.k == HELD && n + 1 <= caps.lmax {
                        v.push(op2(APPEND, i, j));
                        v.push(op2(PREPEND, i, j));
                    }
                    if d.k == ARR && n + d.n <= caps.lmax {
                        v.push(op2(CONCAT, i, j));
                    }
                    if d.k == ARR && d.n == n {
                        v.push(op2(ZIPKEEPLEFT, i, j));
                        v.push(op2(ZIPKEEPRIGHT, i, j));
                        v.push(op2(ZIPOWNEDREF, i, j));
                        v.push(op2(ZIPREFOWNED, i, j));
                        if room_c(1) && room_e(n) && i < j {
                            v.push(op2(ZIPREFREFNEW, i, j));
                        }
                    }
                }
            }
            ITER => {
                if room_c(1) || len == 0 {
                    v.push(op1(NEXT, i, 0, 0));
                    v.push(op1(NEXTBACK, i, 0, 0));
                    for k in 0..=len + 1 {
                        v.push(op1(NTH, i, k, 0));
                        v.push(op1(NTHBACK, i, k, 0));
                    }
                }
                if room_c(1) && room_e(len) {
                    v.push(op1(ITERCLONE, i, 0, 0));
                }
                // clone_from: this iterator (at whatever position it has reached) is the destination, any other
                // iterator of the same type-level length the source
                for (j, d) in pool.iter().enumerate() {
                    if j != i && d.k == ITER && d.n == c.n && room_e(d.ids.len().saturating_sub(len)) {
                        v.push(op2(ITERCLONEFROM, i, j));
                    }
                }
                v.push(op1(ITERFOLD, i, 0, 0));
                v.push(op1(ITERRFOLD, i, 0, 0));
                v.push(op1(ITERCOUNT, i, 0, 0));
                v.push(op1(ITERLAST, i, 0, 0));
                v.push(op1(ITERCOLLECTARR, i, 0, 0));
                v.push(op1(ITERCOLLECTVEC, i, 0, 0));
                v.push(op1(ITERCOLLECTBOX, i, 0, 0));
                // fallible collection through an adaptor with an inexact size hint: right length and both neighbours
                for t in [len.wrapping_sub(1), len, len + 1] {
                    if t <= caps.lmax {
                        v.push(op1(ITERTRYCOLLECT, i, t, 0));
                        v.push(op1(ITERTRYCOLLECTBOX, i, t, 0));
                    }
                }
            }
            BOX => {
                let n = c.n;
                v.push(op1(UNBOX, i, 0, 0));
                v.push(op1(BOXINTOVEC, i, 0, 0));
                v.push(op1(BOXINTOBSLICE, i, 0, 0));
                v.push(op1(BOXINTOITER, i, 0, 0));
                v.push(op1(BOXMAPREPLACE, i, 0, 0));
                v.push(op1(BOXZIPPLAIN, i, 0, 0));
                v.push(op1(BOXFOLDDROP, i, 0, 0));
                if room_c(1) && room_e(n) {
                    v.push(op1(BOXCLONE, i, 0, 0));
                }
                for (j, d) in pool.iter().enumerate() {
                    if j != i && d.k == BOX && d.n == n {
                        v.push(op2(BOXZIPKEEPLEFT, i, j));
                    }
                }
            }
            NAT => v.push(op1(FROMNATIVE, i, 0, 0)),
            TUP => v.push(op1(FROMTUPLE, i, 0, 0)),
            NEST => v.push(op1(FLATTEN, i, 0, 0)),
            VEC | BSLICE => {
                // right length and the two nearest wrong lengths
                let mut tgt = vec![len];
                if len >= 1 {
                    tgt.push(len - 1);
                }
                if len + 1 <= caps.lmax {
                    tgt.push(len + 1);
                }
                for t in tgt {
                    if t <= caps.lmax {
                        if c.k == VEC {
                            v.push(op1(VECTOARR, i, t, 0));
                            v.push(op1(VECTOBOX, i, t, 0));
                        } else {
                            v.push(op1(BSLICETOARR, i, t, 0));
                            v.push(op1(BSLICETOBOX, i, t, 0));
                        }
                    }
                }
                if c.k == VEC {
                    v.push(op1(VECTOVI, i, 0, 0));
                }
            }
            VITER => {
                if room_c(1) || len == 0 {
                    v.push(op1(VINEXT, i, 0, 0));
                    v.push(op1(VINEXTBACK, i, 0, 0));
                }
                for t in [len.wrapping_sub(1), len, len + 1] {
                    if t <= caps.lmax {
                        v.push(op1(VITRYCOLLECT, i, t, 0));
                    }
                }
            }
            _ => {}
        }
    }
    v
}

/// the reference model's transition: consumes the operands, returns the produced containers in
/// the same order as `apply_real`
fn apply_model(op: Op, mut t: Vec<M>) -> Vec<M> {
    let p = op.p as usize;
    let q = op.q as usize;
    let fresh = |k: u8, n: usize, count: usize| M { fresh: true, ..M::new(k, n, vec![0; count]) };
    let mut b = if op.j != NONE { t.pop() } else { None };
    let a = t.pop();
    match op.kind {
        NEW => vec![fresh(ARR, p, p)],
        NEWBOX => vec![fresh(BOX, p, p)],
        NEWNEST => vec![M { m: q, ..fresh(NEST, p, p * q) }],
        DROP | ITERFOLD | ITERRFOLD | ITERCOUNT | FOLDDROP | BOXFOLDDROP => vec![],
        INTOITER => {
            let a = a.unwrap();
            vec![M::new(ITER, a.n, a.ids)]
        }
        NEXT | NEXTBACK | NTH | NTHBACK => {
            let mut it = a.unwrap();
            let len = it.ids.len();
            let mut out = None;
            match op.kind {
                NEXT => {
                    if len > 0 {
                        out = Some(it.ids.remove(0));
                        it.f += 1;
                    }
                }
                NEXTBACK => {
                    if len > 0 {
                        out = it.ids.pop();
                        it.b += 1;
                    }
                }
                NTH => {
                    let s = p.min(len);
                    it.ids.drain(..s);
                    it.f += s;
                    if !it.ids.is_empty() {
                        out = Some(it.ids.remove(0));
                        it.f += 1;
                    }
                }
                _ => {
                    let s = p.min(len);
                    it.ids.truncate(len - s);
                    it.b += s;
                    if !it.ids.is_empty() {
                        out = it.ids.pop();
                        it.b += 1;
                    }
                }
            }
            let mut v = vec![it];
            if let Some(x) = out {
                v.push(M::new(HELD, 1, vec![x]));
            }
            v
        }
        ITERCLONE => {
            let it = a.unwrap();
            let len = it.ids.len();
            let c = M { cl: true, ..fresh(ITER, it.n, len) };
            vec![it, c]
        }
        ITERCLONEFROM => {
            let dst = a.unwrap();
            let src = b.take().unwrap();
            let len = src.ids.len();
            vec![M { cl: true, ..fresh(ITER, dst.n, len) }, src]
        }
        ITERLAST => {
            let it = a.unwrap();
            it.ids.last().map(|&x| M::new(HELD, 1, vec![x])).into_iter().collect()
        }
        ITERCOLLECTARR => {
            let it = a.unwrap();
            vec![M::new(ARR, it.ids.len(), it.ids)]
        }
        ITERCOLLECTBOX => {
            let it = a.unwrap();
            vec![M::new(BOX, it.ids.len(), it.ids)]
        }
        ITERCOLLECTVEC => vec![M::new(VEC, 0, a.unwrap().ids)],
        // exact length required: otherwise everything pulled, and what is left in the source, is dropped
        ITERTRYCOLLECT | VITRYCOLLECT => {
            let it = a.unwrap();
            if it.ids.len() == p {
                vec![M::new(ARR, p, it.ids)]
            } else {
                vec![]
            }
        }
        ITERTRYCOLLECTBOX => {
            let it = a.unwrap();
            if it.ids.len() == p {
                vec![M::new(BOX, p, it.ids)]
            } else {
                vec![]
            }
        }
        APPEND => {
            let mut a = a.unwrap();
            a.ids.push(b.take().unwrap().ids[0]);
            vec![M::new(ARR, a.n + 1, a.ids)]
        }
        PREPEND => {
            let mut a = a.unwrap();
            a.ids.insert(0, b.take().unwrap().ids[0]);
            vec![M::new(ARR, a.n + 1, a.ids)]
        }
        POPBACK => {
            let mut a = a.unwrap();
            let x = a.ids.pop().unwrap();
            vec![M::new(ARR, a.n - 1, a.ids), M::new(HELD, 1, vec![x])]
        }
        POPFRONT => {
            let mut a = a.unwrap();
            let x = a.ids.remove(0);
            vec![M::new(ARR, a.n - 1, a.ids), M::new(HELD, 1, vec![x])]
        }
        SPLIT => {
            let a = a.unwrap();
            let (h, t2) = a.ids.split_at(p);
            vec![M::new(ARR, p, h.to_vec()), M::new(ARR, a.n - p, t2.to_vec())]
        }
        CONCAT => {
            let mut a = a.unwrap();
            let b = b.take().unwrap();
            a.ids.extend(b.ids);
            vec![M::new(ARR, a.n + b.n, a.ids)]
        }
        REMOVE => {
            let mut a = a.unwrap();
            let x = a.ids.remove(p);
            vec![M::new(ARR, a.n - 1, a.ids), M::new(HELD, 1, vec![x])]
        }
        SWAPREMOVE => {
            let mut a = a.unwrap();
            let x = a.ids.swap_remove(p);
            vec![M::new(ARR, a.n - 1, a.ids), M::new(HELD, 1, vec![x])]
        }
        MAPPASS | ZIPPLAINREF | ZIPPLAINMUT | ZIPPLAINOWNED | ZIPPLAINLEFT | ZIPPLAINLEFTREF | BOXZIPPLAIN => vec![a.unwrap()],
        MAPREPLACE => {
            let a = a.unwrap();
            vec![fresh(ARR, a.n, a.n)]
        }
        BOXMAPREPLACE => {
            let a = a.unwrap();
            vec![fresh(BOX, a.n, a.n)]
        }
        MAPREFNEW | MAPMUTNEW | ARRCLONE => {
            let a = a.unwrap();
            let n = a.n;
            vec![a, fresh(ARR, n, n)]
        }
        BOXCLONE => {
            let a = a.unwrap();
            let n = a.n;
            vec![a, fresh(BOX, n, n)]
        }
        ZIPKEEPLEFT => vec![a.unwrap()],
        ZIPKEEPRIGHT => vec![b.take().unwrap()],
        BOXZIPKEEPLEFT => vec![a.unwrap()],
        ZIPREFREFNEW => {
            let a = a.unwrap();
            let n = a.n;
            vec![a, b.take().unwrap(), fresh(ARR, n, n)]
        }
        // a.zip(&b, |x, _| x): result holds a's elements, b survives
        ZIPOWNEDREF => {
            let a = a.unwrap();
            vec![b.take().unwrap(), a]
        }
        // (&mut b).zip(a, |_, y| y): result holds a's elements, b survives
        ZIPREFOWNED => {
            let a = a.unwrap();
            vec![b.take().unwrap(), a]
        }
        FLATTEN => {
            let a = a.unwrap();
            vec![M::new(ARR, a.n * a.m, a.ids)]
        }
        UNFLATTEN => {
            let a = a.unwrap();
            vec![M { m: q, ..M::new(NEST, p, a.ids) }]
        }
        TONATIVE => {
            let a = a.unwrap();
            vec![M::new(NAT, a.n, a.ids)]
        }
        TOTUPLE => {
            let a = a.unwrap();
            vec![M::new(TUP, a.n, a.ids)]
        }
        FROMNATIVE | FROMTUPLE | UNBOX => {
            let a = a.unwrap();
            vec![M::new(ARR, a.n, a.ids)]
        }
        ARRTOVEC | BOXINTOVEC => vec![M::new(VEC, 0, a.unwrap().ids)],
        ARRTOBSLICE | BOXINTOBSLICE => vec![M::new(BSLICE, 0, a.unwrap().ids)],
        BOXNEW => {
            let a = a.unwrap();
            vec![M::new(BOX, a.n, a.ids)]
        }
        // exact length required: otherwise the source is consumed and its elements dropped
        VECTOARR | BSLICETOARR => {
            let a = a.unwrap();
            if a.ids.len() == p {
                vec![M::new(ARR, p, a.ids)]
            } else {
                vec![]
            }
        }
        VECTOBOX | BSLICETOBOX => {
            let a = a.unwrap();
            if a.ids.len() == p {
                vec![M::new(BOX, p, a.ids)]
            } else {
                vec![]
            }
        }
        BOXINTOITER | VECTOVI => vec![M::new(VITER, 0, a.unwrap().ids)],
        VINEXT => {
            let mut it = a.unwrap();
            let out = if it.ids.is_empty() { None } else { Some(it.ids.remove(0)) };
            let mut v = vec![it];
            if let Some(x) = out {
                v.push(M::new(HELD, 1, vec![x]));
            }
            v
        }
        VINEXTBACK => {
            let mut it = a.unwrap();
            let out = it.ids.pop();
            let mut v = vec![it];
            if let Some(x) = out {
                v.push(M::new(HELD, 1, vec![x]));
            }
            v
        }
        _ => panic!("harness: model has no rule for {:?}", op),
    }
}

struct Pool<E: Elem> {
    real: Vec<C<E>>,
    model: Vec<M>,
}

impl<E: Elem + Default> Pool<E> {
    fn new() -> Self {
        Pool { real: Vec::new(), model: Vec::new() }
    }

    fn key(&self) -> Vec<Shape> {
        let mut k: Vec<Shape> = self.model.iter().map(|m| m.shape()).collect();
        k.sort();
        k
    }

    /// one transition on the real code and on the model, then every invariant
    fn step(&mut self, op: Op) -> Result<(), String> {
        // take the operands out of both pools (second operand first if it sits later)
        let mut idx: Vec<usize> = [op.i, op.j].iter().filter(|&&x| x != NONE).map(|&x| x as usize).collect();
        if idx.iter().any(|&i| i >= self.real.len()) || (idx.len() == 2 && idx[0] == idx[1]) {
            return Err(format!("harness: operation {} addresses a missing container", op.text()));
        }
        let created_before = ledger::created();
        let (mut tr, mut tm) = (Vec::new(), Vec::new());
        if idx.len() == 2 {
            // remove the higher index first so the lower stays valid; keep (i, j) order in the vectors
            let (i, j) = (idx[0], idx[1]);
            if i < j {
                let (cj, mj) = (self.real.remove(j), self.model.remove(j));
                let (ci, mi) = (self.real.remove(i), self.model.remove(i));
                tr.push(ci);
                tr.push(cj);
                tm.push(mi);
                tm.push(mj);
            } else {
                let (ci, mi) = (self.real.remove(i), self.model.remove(i));
                let (cj, mj) = (self.real.remove(j), self.model.remove(j));
                tr.push(ci);
                tr.push(cj);
                tm.push(mi);
                tm.push(mj);
            }
        } else if idx.len() == 1 {
            tr.push(self.real.remove(idx[0]));
            tm.push(self.model.remove(idx[0]));
        }
        idx.clear();
        let out_m = apply_model(op, tm);
        let out_r = apply_real::<E>(op, tr)?;
        if out_r.len() != out_m.len() {
            return Err(format!("{} produced {} container(s), the reference produces {}", op.text(), out_r.len(), out_m.len()));
        }
        let mut fresh_seen: HashSet<u32> = HashSet::new();
        for (r, mut m) in out_r.into_iter().zip(out_m) {
            let ids = r.ids();
            if m.fresh {
                // elements created by the operation: adopt their identities, which must be new and distinct
                if ids.len() != m.ids.len() {
                    return Err(format!("{}: new container holds {} elements, expected {}", op.text(), ids.len(), m.ids.len()));
                }
                if E::TRACKED {
                    for &i in &ids {
                        if i < created_before || !fresh_seen.insert(i) {
                            return Err(format!("{}: new container holds element {i}, which is not a distinct newly created element", op.text()));
                        }
                    }
                }
                m.ids = ids.clone();
                m.fresh = false;
            }
            self.real.push(r);
            self.model.push(m);
        }
        // canonical pool order (containers of equal shape are interchangeable)
        let mut zipped: Vec<(M, C<E>)> = self.model.drain(..).zip(self.real.drain(..)).collect();
        zipped.sort_by(|a, b| a.0.shape().cmp(&b.0.shape()));
        for (m, r) in zipped {
            self.model.push(m);
            self.real.push(r);
        }
        self.check()
    }

    fn check(&self) -> Result<(), String> {
        let mut all: Vec<u32> = Vec::new();
        for (idx, (r, m)) in self.real.iter().zip(self.model.iter()).enumerate() {
            let (k, n, mm) = r.shape();
            let tl_ok = match m.k {
                VEC | BSLICE | VITER | HELD => true,
                NEST => n == m.n && mm == m.m,
                _ => n == m.n,
            };
            if k != m.k || !tl_ok {
                return Err(format!("harness: container {idx} is of kind/length ({k}, {n}, {mm}), model says ({}, {}, {})", m.k, m.n, m.m));
            }
            if r.len() != m.ids.len() {
                return Err(format!("container {idx} (kind {k}) reports {} elements, the reference holds {}", r.len(), m.ids.len()));
            }
            let ids = r.ids();
            if E::TRACKED && ids != m.ids {
                return Err(format!("container {idx} (kind {k}, N={n}) holds {ids:?}, the reference holds {:?}", m.ids));
            }
            all.extend(ids);
        }
        let (live, z) = E::live_of(&all);
        ledger::check_exact(&live, z)
    }
}

fn build<E: Elem + Default>(hist: &[Op]) -> Result<Pool<E>, String> {
    let mut p = Pool::<E>::new();
    for (i, &op) in hist.iter().enumerate() {
        p.step(op).map_err(|e| format!("while replaying step {i} ({}): {e}", op.text()))?;
    }
    Ok(p)
}

fn hist_text(h: &[Op]) -> String {
    if h.is_empty() {
        "-".into()
    } else {
        h.iter().map(|o| o.text()).collect::<Vec<_>>().join(",")
    }
}

static TRACE: std::sync::atomic::AtomicBool = std::sync::atomic::AtomicBool::new(false);

struct TransOut {
    /// index of the source state in the current frontier
    src: usize,
    op: Op,
    result: Result<(Vec<Shape>, &'static str), String>,
    stable: bool,
}

fn desc_of(prefix: &str, hist: &[Op], op: Op) -> String {
    format!("{prefix}h={};op={}", hist_text(hist), op.text())
}

/// run one transition (replay + op + invariants + quiescence), twice if it fails
fn transition<E: Elem + Default>(prefix: &str, src: usize, hist: &[Op], op: Op) -> TransOut {
    let run = || -> Result<(Vec<Shape>, &'static str), String> {
        elems::reset_all();
        let r = catch(|| -> Result<(Vec<Shape>, &'static str), String> {
            let mut p = build::<E>(hist)?;
            let before: usize = p.model.iter().map(|m| m.ids.len()).sum();
            p.step(op)?;
            let key = p.key();
            let after: usize = p.model.iter().map(|m| m.ids.len()).sum();
            // quiescence: dropping everything leaves every element dropped exactly once
            drop(p);
            ledger::check_exact(&[], 0).map_err(|e| format!("after dropping every container of the post-state: {e}"))?;
            let class = if after > before { "grows" } else if after < before { "shrinks" } else { "moves" };
            Ok((key, class))
        });
        match r {
            Ok(x) => x,
            Err(PanicKind::Injected(t)) => Err(format!("harness: injected panic {t} without a plan")),
            Err(PanicKind::Other(m)) => Err(format!("unexpected panic: {m}")),
        }
    };
    if TRACE.load(std::sync::atomic::Ordering::Relaxed) {
        use std::io::Write;
        let mut out = std::io::stdout().lock();
        let _ = writeln!(out, "CASE {}", desc_of(prefix, hist, op));
        let _ = out.flush();
    }
    let first = run();
    match first {
        Ok(x) => TransOut { src, op, result: Ok(x), stable: true },
        Err(e) => {
            let second = run();
            let stable = matches!(&second, Err(e2) if *e2 == e);
            TransOut { src, op, result: Err(e), stable }
        }
    }
}

fn model_of<E: Elem + Default>(hist: &[Op]) -> Option<Vec<M>> {
    elems::reset_all();
    match catch(|| build::<E>(hist)) {
        Ok(Ok(p)) => Some(p.model.clone()),
        _ => None,
    }
}

struct Totals {
    states: u64,
    transitions: u64,
    max_depth: usize,
    per_unit: serde_json::Map<String, serde_json::Value>,
    op_counts: HashMap<&'static str, u64>,
    op_post: u64,
}

fn explore<E: Elem + Default>(ctx: &mut Ctx, tot: &mut Totals, caps: Caps, threads: usize, budget_s: u64) {
    let prefix = format!("C03;E={};L={};C={};X={};", E::NAME, caps.lmax, caps.containers, caps.elements);
    if let Some(only) = ctx.only.clone() {
        if !only.starts_with(&prefix) {
            return;
        }
        let rest = &only[prefix.len()..];
        let (h, o) = rest.split_once(";op=").expect("descriptor");
        let h = h.strip_prefix("h=").unwrap_or("-");
        let hist: Vec<Op> = if h == "-" { vec![] } else { h.split(',').map(|x| Op::parse(x).expect("bad op")).collect() };
        let op = Op::parse(o).expect("bad op");
        let t = transition::<E>(&prefix, 0, &hist, op);
        ctx.evaluations += 1;
        if let Err(e) = t.result {
            ctx.record_violation(&only, &e, t.stable);
        }
        return;
    }
    let mut seen: HashSet<Vec<Shape>> = HashSet::new();
    let mut frontier: Vec<Vec<Op>> = vec![vec![]];
    seen.insert(vec![]);
    let mut transitions = 0u64;
    let mut depth = 0usize;
    let mut op_post: HashSet<(u8, Vec<Shape>)> = HashSet::new();
    let mut exhausted = true;
    while !frontier.is_empty() {
        if ctx.too_many_violations() {
            exhausted = false;
            break;
        }
        if ctx.over_budget(budget_s) {
            exhausted = false;
            ctx.notes.push(format!("{prefix} wall-clock cap hit at depth {depth}: levels below are complete, this level is partial"));
            break;
        }
        // expand one BFS level in parallel; every worker has its own thread-local ledger
        // work is dealt round-robin so that every worker gets states of similar cost
        let nthreads = threads.max(1).min(frontier.len().max(1));
        let results: Vec<Vec<TransOut>> = std::thread::scope(|s| {
            let handles: Vec<_> = (0..nthreads)
                .map(|w| {
                    let prefix = prefix.clone();
                    let frontier = &frontier;
                    s.spawn(move || {
                        vcommon::install_hook();
                        let mut out = Vec::new();
                        let mut idx = w;
                        while idx < frontier.len() {
                            let hist = &frontier[idx];
                            if let Some(model) = model_of::<E>(hist) {
                                for op in enabled(&model, caps) {
                                    out.push(transition::<E>(&prefix, idx, hist, op));
                                }
                            }
                            idx += nthreads;
                        }
                        out
                    })
                })
                .collect();
            handles.into_iter().map(|h| h.join().expect("worker")).collect()
        });
        let mut next: Vec<Vec<Op>> = Vec::new();
        let mut all: Vec<TransOut> = results.into_iter().flatten().collect();
        // deterministic order independent of the number of workers
        all.sort_by(|a, b| (a.src, a.op.kind, a.op.i, a.op.j, a.op.p, a.op.q).cmp(&(b.src, b.op.kind, b.op.i, b.op.j, b.op.p, b.op.q)));
        for t in all {
            ctx.evaluations += 1;
            transitions += 1;
            match t.result {
                Ok((key, class)) => {
                    *tot.op_counts.entry(op_name(t.op.kind)).or_insert(0) += 1;
                    op_post.insert((t.op.kind, key.clone()));
                    ctx.nontrivial += 1;
                    *ctx.outcomes.entry(format!("{}:{class}", op_name(t.op.kind))).or_insert(0) += 1;
                    let e = ctx.evaluations;
                    if ctx.samples.len() < ctx.max_samples && (e <= 3 || e.is_power_of_two()) {
                        let d = desc_of(&prefix, &frontier[t.src], t.op);
                        ctx.samples.push(json!({"case": d, "outcome": class}));
                    }
                    if seen.insert(key) {
                        let mut hist = frontier[t.src].clone();
                        hist.push(t.op);
                        next.push(hist);
                    }
                }
                Err(e) => {
                    let d = desc_of(&prefix, &frontier[t.src], t.op);
                    ctx.record_violation(&d, &e, t.stable)
                }
            }
        }
        depth += 1;
        frontier = next;
    }
    tot.states += seen.len() as u64;
    tot.transitions += transitions;
    tot.max_depth = tot.max_depth.max(depth);
    tot.op_post += op_post.len() as u64;
    tot.per_unit.insert(
        prefix.trim_end_matches(';').to_string(),
        json!({"states": seen.len(), "transitions": transitions, "bfs_levels": depth, "distinct_op_poststate": op_post.len(), "fixpoint_reached": exhausted}),
    );
}

fn main() {
    let mut ctx = Ctx::from_args();
    let threads: usize = std::env::var("VERIF_JOBS").ok().and_then(|s| s.parse().ok()).unwrap_or_else(|| std::thread::available_parallelism().map(|n| n.get()).unwrap_or(4));
    let threads = if ctx.trace { 1 } else { threads };
    TRACE.store(ctx.trace, std::sync::atomic::Ordering::Relaxed);
    let mut tot = Totals { states: 0, transitions: 0, max_depth: 0, per_unit: Default::default(), op_counts: HashMap::new(), op_post: 0 };
    assert!(LMAX >= 5);
    let parse_caps = |s: &str| -> Caps {
        let f: Vec<usize> = s.split(',').map(|x| x.parse().unwrap()).collect();
        Caps { lmax: f[0], containers: f[1], elements: f[2] }
    };
    if let Some(only) = ctx.only.clone() {
        // descriptor carries its own caps
        let get = |tag: &str| -> usize { only.split(';').find_map(|f| f.strip_prefix(tag)).and_then(|v| v.parse().ok()).unwrap_or(0) };
        let caps = Caps { lmax: get("L="), containers: get("C="), elements: get("X=") };
        explore::<Tr<0>>(&mut ctx, &mut tot, caps, 1, 3600);
        explore::<TrZ>(&mut ctx, &mut tot, caps, 1, 3600);
        explore::<Tr<5>>(&mut ctx, &mut tot, caps, 1, 3600);
        explore::<u32>(&mut ctx, &mut tot, caps, 1, 3600);
        explore::<TrB>(&mut ctx, &mut tot, caps, 1, 3600);
        explore::<TrA>(&mut ctx, &mut tot, caps, 1, 3600);
    } else {
        let budget: u64 = ctx.extra.get("budget").and_then(|s| s.parse().ok()).unwrap_or(if ctx.thorough() { 2400 } else { 50 });
        if let Some(c) = ctx.extra.get("caps").map(|s| parse_caps(s)) {
            explore::<Tr<0>>(&mut ctx, &mut tot, c, threads, budget);
            explore::<TrZ>(&mut ctx, &mut tot, c, threads, budget);
            explore::<TrB>(&mut ctx, &mut tot, c, threads, budget);
        } else if ctx.thorough() {
            explore::<Tr<0>>(&mut ctx, &mut tot, Caps { lmax: 5, containers: 3, elements: 6 }, threads, budget);
            explore::<TrZ>(&mut ctx, &mut tot, Caps { lmax: 4, containers: 3, elements: 5 }, threads, budget);
            explore::<Tr<5>>(&mut ctx, &mut tot, Caps { lmax: 3, containers: 3, elements: 4 }, threads, budget);
            explore::<u32>(&mut ctx, &mut tot, Caps { lmax: 3, containers: 3, elements: 4 }, threads, budget);
            explore::<TrB>(&mut ctx, &mut tot, Caps { lmax: 3, containers: 3, elements: 4 }, threads, budget);
            explore::<TrA>(&mut ctx, &mut tot, Caps { lmax: 3, containers: 3, elements: 4 }, threads, budget);
        } else {
            explore::<Tr<0>>(&mut ctx, &mut tot, Caps { lmax: 3, containers: 3, elements: 3 }, threads, budget);
            explore::<TrZ>(&mut ctx, &mut tot, Caps { lmax: 3, containers: 2, elements: 4 }, threads, budget);
            explore::<Tr<5>>(&mut ctx, &mut tot, Caps { lmax: 2, containers: 2, elements: 3 }, threads, budget);
            explore::<Tr<0>>(&mut ctx, &mut tot, Caps { lmax: 5, containers: 2, elements: 5 }, threads, budget);
            // heap payload: under the AddressSanitizer substrate a double drop is a double free
            explore::<TrB>(&mut ctx, &mut tot, Caps { lmax: 3, containers: 2, elements: 4 }, threads, budget);
            // over-aligned element (size = align = 32): a slot computed with the wrong stride or a block requested with
            // the wrong alignment puts an element at a misaligned address, which its `ident()` reports
            explore::<TrA>(&mut ctx, &mut tot, Caps { lmax: 3, containers: 2, elements: 3 }, threads, budget);
        }
    }
    let ops: serde_json::Map<String, serde_json::Value> = tot.op_counts.iter().map(|(k, v)| (k.to_string(), json!(v))).collect();
    let extra = json!({"states": tot.states, "transitions": tot.transitions, "max_depth": tot.max_depth, "distinct_op_poststate": tot.op_post,
        "per_unit": tot.per_unit, "transitions_per_operation": ops, "operations_in_alphabet": OP_NAMES.len()});
    ctx.finish(extra);
}
