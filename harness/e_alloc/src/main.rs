//! C15 / C16 — heap interop under a recording global allocator.
//!
//! One enumeration, two oracles: C15 judges contents, exact-length acceptance, block reuse and
//! allocator silence of the O(1) conversions (plus multi-MiB constructions on a 256 KiB stack in
//! child processes); C16 judges the allocator log of the very same cases (valid sizes, matching
//! releases, nothing live at the end), with a panic injected at every closure call and — in child
//! processes — every allocation request of the operation failing in turn.

use generic_array::functional::*;
use generic_array::sequence::*;
use generic_array::typenum::*;
use generic_array::{box_arr, ArrayLength, GenericArray};
use std::process::Command;
use vcommon::*;

mod rec;

#[global_allocator]
static GLOBAL: rec::Rec = rec::Rec;

type GA<T, N> = GenericArray<T, N>;

#[derive(Clone, Copy, Debug, PartialEq, Eq)]
enum Op {
    TryFromVec,
    TryFromBoxSlice,
    VecFromGa,
    BoxSliceFromGa,
    IntoBoxedSlice,
    IntoVec,
    TryFromBoxedSliceB,
    TryFromVecB,
    TryBoxedFromIter,
    BoxFromIter,
    BoxIntoIter,
    BoxArrRep,
    DefaultBoxed,
    GenBox,
    MapBox,
    ZipBox,
    FoldBox,
    CloneBox,
    /// boxed map to an output type of the same size but lower alignment (an in-place reuse of the block must keep the layout)
    MapBoxLow,
    /// boxed map to a larger output type
    MapBoxBig,
}
use Op::*;

const ALL_OPS: &[Op] = &[
    TryFromVec, TryFromBoxSlice, VecFromGa, BoxSliceFromGa, IntoBoxedSlice, IntoVec, TryFromBoxedSliceB, TryFromVecB, TryBoxedFromIter, BoxFromIter,
    BoxIntoIter, BoxArrRep, DefaultBoxed, GenBox, MapBox, ZipBox, FoldBox, CloneBox, MapBoxLow, MapBoxBig,
];

impl Op {
    /// does the operation take a source whose length L varies?
    fn takes_len(self) -> bool {
        matches!(self, TryFromVec | TryFromBoxSlice | TryFromBoxedSliceB | TryFromVecB | TryBoxedFromIter | BoxFromIter)
    }
    /// `cap` selects the Vec's spare capacity, or (for the iterator sources) the size-hint policy
    fn takes_cap(self) -> bool {
        matches!(self, TryFromVec | TryFromVecB | TryBoxedFromIter | BoxFromIter)
    }
    /// closure / clone / source fault points exist
    fn has_calls(self) -> bool {
        matches!(self, TryBoxedFromIter | BoxFromIter | DefaultBoxed | GenBox | MapBox | ZipBox | FoldBox | CloneBox | BoxArrRep | MapBoxLow | MapBoxBig)
    }
    fn parse(s: &str) -> Option<Op> {
        ALL_OPS.iter().copied().find(|o| format!("{o:?}") == s)
    }
}

/// output types for the re-typing boxed maps: same size with lower (or equal) alignment, and a larger type
pub trait Retype: Sized {
    type Low;
    type Big;
    fn low(self) -> Self::Low;
    fn big(self) -> Self::Big;
}
impl Retype for u8 {
    type Low = [u8; 1];
    type Big = u64;
    fn low(self) -> [u8; 1] { [self] }
    fn big(self) -> u64 { self as u64 }
}
impl Retype for u64 {
    type Low = [u32; 2];
    type Big = u128;
    fn low(self) -> [u32; 2] { [self as u32, (self >> 32) as u32] }
    fn big(self) -> u128 { self as u128 }
}
impl Retype for Tr<0> {
    type Low = [u8; 4];
    type Big = (u64, u64);
    fn low(self) -> [u8; 4] { self.id().to_le_bytes() }
    fn big(self) -> (u64, u64) { (self.id() as u64, 7) }
}
impl Retype for TrA {
    type Low = [u8; 32];
    type Big = [u64; 8];
    fn low(self) -> [u8; 32] { let mut a = [0u8; 32]; a[..4].copy_from_slice(&self.ident().to_le_bytes()); a }
    fn big(self) -> [u64; 8] { [self.ident() as u64; 8] }
}
impl Retype for B3 {
    type Low = [u8; 3];
    type Big = u32;
    fn low(self) -> [u8; 3] { self.0 }
    fn big(self) -> u32 { self.ident() }
}
impl Retype for TrZ {
    type Low = ();
    type Big = u8;
    fn low(self) {}
    fn big(self) -> u8 { 1 }
}
impl Retype for () {
    type Low = ();
    type Big = u16;
    fn low(self) {}
    fn big(self) -> u16 { 2 }
}

fn mk<E: Elem, N: ArrayLength>() -> GA<E, N> {
    let mut a = GA::<E, N>::uninit();
    for s in a.iter_mut() {
        s.write(E::make());
    }
    unsafe { GA::assume_init(a) }
}
fn ids_of<E: Elem>(s: &[E]) -> Vec<u32> {
    s.iter().map(|e| e.ident()).collect()
}
fn vec_of<E: Elem>(len: usize, cap_mode: u8) -> Vec<E> {
    let cap = match cap_mode {
        0 => len,
        1 => len + 1,
        _ => 2 * len + 3,
    };
    let mut v = Vec::with_capacity(cap);
    for _ in 0..len {
        v.push(E::make());
    }
    v
}

struct Script<E: Elem> {
    remaining: usize,
    /// 0: (0, None)   1: exact   2: bounded but loose (0, Some(2 rem + 1))   3: (0, Some(usize::MAX))   4: (rem, Some(usize::MAX))
    /// 5: counts down from one short, (0, Some(rem - 1)): after N of N + 1 items it reads "exhausted" while one item is left
    /// (only enumerated for source lengths other than N, where the outcome does not depend on whether the hint is believed)
    hint: u8,
    _p: core::marker::PhantomData<E>,
}
impl<E: Elem> Iterator for Script<E> {
    type Item = E;
    fn next(&mut self) -> Option<E> {
        ledger::tick("next");
        if self.remaining > 0 {
            self.remaining -= 1;
            Some(E::make())
        } else {
            None
        }
    }
    fn size_hint(&self) -> (usize, Option<usize>) {
        match self.hint {
            0 => (0, None),
            1 => (self.remaining, Some(self.remaining)),
            2 => (0, Some(2 * self.remaining + 1)),
            3 => (0, Some(usize::MAX)),
            4 => (self.remaining, Some(usize::MAX)),
            _ => (0, Some(self.remaining.saturating_sub(1))),
        }
    }
}

#[derive(Clone, Copy, PartialEq, Eq, Debug)]
enum Fault {
    None,
    /// k-th call into caller code (closure, Clone, Default, source next) panics
    Panic(u64),
    /// k-th allocator request inside the operation fails (child process only)
    Alloc(usize),
}

struct Obs {
    c15: Result<(), String>,
    c16: Result<(), String>,
    window_requests: usize,
    calls: u64,
    outcome: &'static str,
}

fn exact<E: Elem>(ids: &[u32]) -> Result<(), String> {
    let (live, z) = E::live_of(ids);
    ledger::check_exact(&live, z)
}

/// One execution of one operation.  Everything from input construction to the last drop is
/// recorded; only the crate operation itself runs inside the counting window.
fn run_case<N: ArrayLength, E: Elem + Default + Retype>(op: Op, l: usize, cap: u8, fault: Fault) -> Obs {
    elems::reset_all();
    ledger::reserve(1 << 14);
    let n = N::USIZE;
    let mut c15: Result<(), String> = Ok(());
    let mut outcome = "ok";
    macro_rules! fail15 {
        ($($t:tt)*) => {{ if c15.is_ok() { c15 = Err(format!($($t)*)); } }};
    }
    let bomb = match fault {
        Fault::Panic(k) => Some(k),
        _ => None,
    };
    rec::begin(match fault {
        Fault::Alloc(k) => Some(k),
        _ => None,
    });
    let mut plain_expected = false;
    // ---- the operation
    let r: Result<(), PanicKind> = match op {
        TryFromVec | TryFromVecB => {
            let v = vec_of::<E>(l, cap);
            let src_ids = ids_of(&v);
            let p0 = v.as_ptr() as usize;
            if op == TryFromVec {
                let r = catch(|| rec::window(|| GA::<E, N>::try_from(v)));
                r.map(|res| match res {
                    Ok(a) => {
                        if l != n {
                            fail15!("Ok from a Vec of {l} elements (N = {n})");
                        }
                        if ids_of(&a) != src_ids {
                            fail15!("contents {:?} differ from the source {:?}", ids_of(&a), src_ids);
                        }
                        if let Err(e) = exact::<E>(&src_ids) {
                            fail15!("with the result alive: {e}");
                        }
                    }
                    Err(_) => {
                        outcome = "length-error";
                        if l == n {
                            fail15!("LengthError from a Vec of exactly N = {n} elements");
                        }
                        if let Err(e) = exact::<E>(&[]) {
                            fail15!("after LengthError the source's elements: {e}");
                        }
                    }
                })
            } else {
                let r = catch(|| rec::window(|| GA::<E, N>::try_from_vec(v)));
                let wev = 0;
                let _ = wev;
                r.map(|res| match res {
                    Ok(b) => {
                        if l != n {
                            fail15!("Ok from a Vec of {l} elements (N = {n})");
                        }
                        if ids_of(&b[..]) != src_ids {
                            fail15!("contents {:?} differ from the source {:?}", ids_of(&b[..]), src_ids);
                        }
                        if cap == 0 && (b.as_ptr() as usize) != p0 {
                            fail15!("try_from_vec with len == capacity moved the block: {:#x} -> {:#x}", p0, b.as_ptr() as usize);
                        }
                        if let Err(e) = exact::<E>(&src_ids) {
                            fail15!("with the result alive: {e}");
                        }
                    }
                    Err(_) => {
                        outcome = "length-error";
                        if l == n {
                            fail15!("LengthError from a Vec of exactly N = {n} elements");
                        }
                        if let Err(e) = exact::<E>(&[]) {
                            fail15!("after LengthError the source's elements: {e}");
                        }
                    }
                })
            }
        }
        TryFromBoxSlice | TryFromBoxedSliceB => {
            let bs = vec_of::<E>(l, 0).into_boxed_slice();
            let src_ids = ids_of(&bs);
            let p0 = bs.as_ptr() as usize;
            if op == TryFromBoxSlice {
                catch(|| rec::window(|| GA::<E, N>::try_from(bs))).map(|res| match res {
                    Ok(a) => {
                        if l != n {
                            fail15!("Ok from a boxed slice of {l} elements (N = {n})");
                        }
                        if ids_of(&a) != src_ids {
                            fail15!("contents differ from the source");
                        }
                    }
                    Err(_) => {
                        outcome = "length-error";
                        if l == n {
                            fail15!("LengthError from a boxed slice of exactly N elements");
                        }
                        if let Err(e) = exact::<E>(&[]) {
                            fail15!("after LengthError the source's elements: {e}");
                        }
                    }
                })
            } else {
                catch(|| rec::window(|| GA::<E, N>::try_from_boxed_slice(bs))).map(|res| match res {
                    Ok(b) => {
                        if l != n {
                            fail15!("Ok from a boxed slice of {l} elements (N = {n})");
                        }
                        if ids_of(&b[..]) != src_ids {
                            fail15!("contents differ from the source");
                        }
                        if (b.as_ptr() as usize) != p0 {
                            fail15!("try_from_boxed_slice moved the block: {:#x} -> {:#x}", p0, b.as_ptr() as usize);
                        }
                    }
                    Err(_) => {
                        outcome = "length-error";
                        if l == n {
                            fail15!("LengthError from a boxed slice of exactly N elements");
                        }
                        if let Err(e) = exact::<E>(&[]) {
                            fail15!("after LengthError the source's elements: {e}");
                        }
                    }
                })
            }
        }
        VecFromGa | BoxSliceFromGa => {
            let a = mk::<E, N>();
            let src_ids = ids_of(&a);
            if op == VecFromGa {
                catch(|| rec::window(|| Vec::<E>::from(a))).map(|v| {
                    if ids_of(&v) != src_ids {
                        fail15!("Vec::from(array) holds {:?}, array held {:?}", ids_of(&v), src_ids);
                    }
                    if let Err(e) = exact::<E>(&src_ids) {
                        fail15!("with the Vec alive: {e}");
                    }
                })
            } else {
                catch(|| rec::window(|| Box::<[E]>::from(a))).map(|v| {
                    if ids_of(&v) != src_ids {
                        fail15!("Box<[T]>::from(array) holds {:?}, array held {:?}", ids_of(&v), src_ids);
                    }
                    if let Err(e) = exact::<E>(&src_ids) {
                        fail15!("with the boxed slice alive: {e}");
                    }
                })
            }
        }
        IntoBoxedSlice | IntoVec => {
            let b = Box::new(mk::<E, N>());
            let src_ids = ids_of(&b[..]);
            let p0 = b.as_ptr() as usize;
            if op == IntoBoxedSlice {
                catch(|| rec::window(|| b.into_boxed_slice())).map(|s| {
                    if ids_of(&s) != src_ids || s.len() != n {
                        fail15!("into_boxed_slice holds {:?}, box held {:?}", ids_of(&s), src_ids);
                    }
                    if (s.as_ptr() as usize) != p0 {
                        fail15!("into_boxed_slice moved the block: {:#x} -> {:#x}", p0, s.as_ptr() as usize);
                    }
                })
            } else {
                catch(|| rec::window(|| b.into_vec())).map(|s| {
                    if ids_of(&s) != src_ids || s.len() != n {
                        fail15!("into_vec holds {:?}, box held {:?}", ids_of(&s), src_ids);
                    }
                    if (s.as_ptr() as usize) != p0 {
                        fail15!("into_vec moved the block: {:#x} -> {:#x}", p0, s.as_ptr() as usize);
                    }
                })
            }
        }
        TryBoxedFromIter | BoxFromIter => {
            ledger::set_call_bomb(bomb);
            let src = Script::<E> { remaining: l, hint: cap, _p: core::marker::PhantomData };
            let r = if op == TryBoxedFromIter {
                catch(|| rec::window(|| GA::<E, N>::try_boxed_from_iter(src))).map(|res| match res {
                    Ok(b) => {
                        if l != n || b.len() != n {
                            fail15!("Ok from a source of {l} items (N = {n})");
                        }
                        let ids = ids_of(&b[..]);
                        if let Err(e) = exact::<E>(&ids) {
                            fail15!("with the result alive: {e}");
                        }
                    }
                    Err(_) => {
                        outcome = "length-error";
                        if l == n {
                            fail15!("LengthError from a source of exactly N items");
                        }
                        if let Err(e) = exact::<E>(&[]) {
                            fail15!("after LengthError the pulled items: {e}");
                        }
                    }
                })
            } else {
                catch(|| rec::window(|| src.collect::<Box<GA<E, N>>>())).map(|b| {
                    if l != n || b.len() != n {
                        fail15!("collect returned from a source of {l} items (N = {n})");
                    }
                })
            };
            ledger::set_call_bomb(None);
            if op == BoxFromIter && l != n {
                plain_expected = true;
            }
            r
        }
        BoxIntoIter => {
            // `l` is reused as the number of items consumed before the iterator is dropped
            let b = Box::new(mk::<E, N>());
            let src_ids = ids_of(&b[..]);
            catch(|| rec::window(|| b.into_iter())).map(|mut it| {
                let mut got = Vec::new();
                for _ in 0..l.min(n) {
                    got.push(it.next().map(|e| e.ident()));
                }
                let want: Vec<Option<u32>> = src_ids.iter().take(l.min(n)).map(|&i| Some(i)).collect();
                if got != want {
                    fail15!("boxed into_iter yielded {got:?}, expected {want:?}");
                }
                if it.len() != n - l.min(n) {
                    fail15!("boxed into_iter has {} items left after {} of {n}", it.len(), l.min(n));
                }
                drop(it);
                if let Err(e) = exact::<E>(&[]) {
                    fail15!("after dropping the partly consumed boxed iterator: {e}");
                }
            })
        }
        BoxArrRep => {
            ledger::set_clone_bomb(bomb);
            let x = E::make();
            let r = catch(|| rec::window(|| box_arr![x; N])).map(|b| {
                if b.len() != n {
                    fail15!("box_arr![x; N] has {} elements", b.len());
                }
                let ids = ids_of(&b[..]);
                if let Err(e) = exact::<E>(&ids) {
                    fail15!("with the result alive: {e}");
                }
            });
            ledger::set_clone_bomb(None);
            r
        }
        DefaultBoxed | GenBox => {
            ledger::set_call_bomb(bomb);
            let r = if op == DefaultBoxed {
                catch(|| rec::window(|| GA::<E, N>::default_boxed()))
            } else {
                catch(|| {
                    rec::window(|| {
                        <Box<GA<E, N>> as GenericSequence<E>>::generate(|_| {
                            let o = E::make();
                            ledger::tick("generate");
                            o
                        })
                    })
                })
            }
            .map(|b| {
                if b.len() != n {
                    fail15!("result has {} elements", b.len());
                }
                let ids = ids_of(&b[..]);
                if let Err(e) = exact::<E>(&ids) {
                    fail15!("with the result alive: {e}");
                }
            });
            ledger::set_call_bomb(None);
            r
        }
        MapBoxLow | MapBoxBig => {
            let b = Box::new(mk::<E, N>());
            ledger::set_call_bomb(bomb);
            let r = if op == MapBoxLow {
                catch(|| {
                    rec::window(|| {
                        b.map(|a| {
                            ledger::tick("map");
                            a.low()
                        })
                    })
                })
                .map(|m| {
                    if m.len() != n {
                        fail15!("boxed map (same-size output) has {} elements", m.len());
                    }
                })
            } else {
                catch(|| {
                    rec::window(|| {
                        b.map(|a| {
                            ledger::tick("map");
                            a.big()
                        })
                    })
                })
                .map(|m| {
                    if m.len() != n {
                        fail15!("boxed map (larger output) has {} elements", m.len());
                    }
                })
            };
            ledger::set_call_bomb(None);
            r
        }
        MapBox | FoldBox | CloneBox | ZipBox => {
            let b = Box::new(mk::<E, N>());
            let src_ids = ids_of(&b[..]);
            let r = match op {
                MapBox => {
                    ledger::set_call_bomb(bomb);
                    catch(|| {
                        rec::window(|| {
                            b.map(|a| {
                                let o = E::make();
                                ledger::tick("map");
                                drop(a);
                                o
                            })
                        })
                    })
                    .map(|m| {
                        if m.len() != n {
                            fail15!("boxed map has {} elements", m.len());
                        }
                    })
                }
                FoldBox => {
                    ledger::set_call_bomb(bomb);
                    catch(|| {
                        rec::window(|| {
                            b.fold(0usize, |acc, a| {
                                ledger::tick("fold");
                                drop(a);
                                acc + 1
                            })
                        })
                    })
                    .map(|c| {
                        if c != n {
                            fail15!("boxed fold made {c} calls");
                        }
                    })
                }
                ZipBox => {
                    let b2 = Box::new(mk::<E, N>());
                    ledger::set_call_bomb(bomb);
                    catch(|| {
                        rec::window(|| {
                            b.zip(b2, |x, y| {
                                let o = E::make();
                                ledger::tick("zip");
                                drop((x, y));
                                o
                            })
                        })
                    })
                    .map(|m| {
                        if m.len() != n {
                            fail15!("boxed zip has {} elements", m.len());
                        }
                    })
                }
                _ => {
                    ledger::set_clone_bomb(bomb);
                    let r = catch(|| rec::window(|| b.clone())).map(|c| {
                        if c.len() != n {
                            fail15!("boxed clone has {} elements", c.len());
                        }
                        if ids_of(&b[..]) != src_ids {
                            fail15!("boxed clone disturbed its source");
                        }
                    });
                    drop(b);
                    r
                }
            };
            ledger::set_call_bomb(None);
            ledger::set_clone_bomb(None);
            r
        }
    };
    let calls = ledger::calls() + ledger::clone_calls();
    // ---- classify the panic (dropping its message before the log is closed)
    match (&r, fault) {
        (Ok(()), Fault::Panic(_)) if ledger::fired() > 0 => fail15!("the injected panic was swallowed"),
        (Ok(()), _) => {
            if plain_expected {
                fail15!("collect into Box<GenericArray> returned instead of panicking for a source of the wrong length");
            }
        }
        (Err(PanicKind::Injected(_)), Fault::Panic(_)) => outcome = "panic-propagated",
        (Err(PanicKind::Injected(t)), _) => fail15!("harness: unplanned injected panic {t}"),
        (Err(PanicKind::Other(m)), _) => {
            if plain_expected && m.contains("expected") {
                outcome = "length-panic";
            } else {
                fail15!("unexpected panic: {m}");
            }
        }
    }
    drop(r);
    if let Err(e) = ledger::check_exact(&[], 0) {
        fail15!("after everything was dropped: {e}");
    }
    let trace = rec::end();
    let window_requests = trace.window_requests;
    // O(1) conversions must not talk to the allocator at all
    let o1 = match op {
        IntoBoxedSlice | IntoVec | TryFromBoxedSliceB => true,
        TryFromVecB => cap == 0,
        _ => false,
    };
    if o1 && fault == Fault::None && outcome == "ok" && trace.window_events() != 0 {
        let evs: Vec<String> = trace.events.iter().filter(|e| e.in_window).map(|e| format!("{:?}(size {})", e.kind, e.size)).collect();
        fail15!("a conversion documented as O(1) made {} allocator call(s): {:?}", evs.len(), evs);
    }
    let c16 = trace.judge();
    Obs { c15, c16, window_requests, calls, outcome }
}

// ------------------------------------------------------------------------------------------

fn self_exe() -> std::path::PathBuf {
    std::env::current_exe().expect("current_exe")
}

/// child entry: run one case with the k-th window allocation failing; the correct outcome is
/// that we never get here past the operation (handle_alloc_error aborts).
fn child_failalloc(ctx: &Ctx) -> ! {
    let desc = ctx.extra.get("case").expect("--case").clone();
    let k: usize = ctx.extra.get("k").expect("--k").parse().unwrap();
    let mut found = false;
    for_each_case(|d, f| {
        if d == desc {
            found = true;
            let o = f(Fault::Alloc(k));
            println!("SURVIVED outcome={} c15={:?}", o.outcome, o.c15);
        }
    });
    if !found {
        eprintln!("child: no such case {desc}");
        std::process::exit(3);
    }
    std::process::exit(0)
}

type CaseFn<'a> = &'a dyn Fn(Fault) -> Obs;

macro_rules! for_ns {
    ([$($n:ty),*], $N:ident => $body:block) => { $( { type $N = $n; if <$N as generic_array::typenum::Unsigned>::USIZE <= vcommon::maxn() { $body } } )* };
}

/// the enumeration shared by C15 and C16: (op, N, E, L, cap)
fn for_each_case(mut visit: impl FnMut(&str, CaseFn)) {
    for_ns!([U0, U1, U2, U3, U4, U5, U6, U7, U8, U16, U33, U100, U1024], N => {
        macro_rules! per_elem {
            ($E:ty) => {{
                let n = N::USIZE;
                for &op in ALL_OPS {
                    let ls: Vec<usize> = if op.takes_len() {
                        let mut v = vec![0, n.saturating_sub(1), n, n + 1];
                        if n <= 8 { v.push(n + 3); }
                        v.sort(); v.dedup(); v
                    } else if op == BoxIntoIter {
                        let mut v = vec![0, 1, n / 2, n];
                        v.sort(); v.dedup(); v
                    } else { vec![n] };
                    let caps: &[u8] = if matches!(op, TryBoxedFromIter | BoxFromIter) { &[0, 1, 2, 3, 4, 5] } else if op.takes_cap() { &[0, 1, 2] } else { &[0] };
                    for &l in &ls {
                        for &cap in caps {
                            if cap == 5 && l == n { continue; }
                            let d = format!("{op:?};N={n};E={};L={l};cap={cap}", <$E as Elem>::NAME);
                            visit(&d, &|f| run_case::<N, $E>(op, l, cap, f));
                        }
                    }
                }
            }};
        }
        per_elem!(Tr<0>);
        per_elem!(TrZ);
        if N::USIZE <= 8 || N::USIZE == 33 {
            per_elem!(u8);
            per_elem!(u64);
            per_elem!(());
            // unusual representations: over-aligned drop-tracked (size = align = 32) and 3-byte elements
            per_elem!(TrA);
            per_elem!(B3);
        }
    });
}

fn run_c15(ctx: &mut Ctx) {
    for_each_case(|d, f| {
        ctx.case(&format!("C15;{d}"), || {
            let o = f(Fault::None);
            o.c15?;
            Ok(CaseInfo::new(!d.contains(";N=0;"), o.outcome))
        });
    });
    // multi-MiB constructions on a 256 KiB stack: one child process per constructor (not under Miri: no process spawning)
    for name in BIG_CASES.iter().filter(|_| !cfg!(miri)) {
        let desc = format!("C15;big;{name}");
        ctx.case(&desc, || {
            let out = Command::new(self_exe()).args(["--mode", "bigchild", "--case", name]).output().map_err(|e| format!("harness: spawn failed: {e}"))?;
            let so = String::from_utf8_lossy(&out.stdout);
            if out.status.success() && so.contains("BIG-OK") {
                Ok(CaseInfo::new(true, "big-array-built"))
            } else {
                Err(format!(
                    "building a multi-MiB array on a thread with a 256 KiB stack did not complete: status {:?}, stdout {:?}, stderr tail {:?}",
                    out.status,
                    so.trim(),
                    String::from_utf8_lossy(&out.stderr).chars().rev().take(300).collect::<String>().chars().rev().collect::<String>()
                ))
            }
        });
    }
}

fn run_c16(ctx: &mut Ctx) {
    let thorough = ctx.thorough();
    for_each_case(|d, f| {
        let small = d.contains(";N=0;") || d.contains(";N=1;") || d.contains(";N=2;") || d.contains(";N=3;") || d.contains(";N=8;") || d.contains(";N=33;");
        // fault-free
        let reqs = std::cell::Cell::new(0usize);
        let calls = std::cell::Cell::new(0u64);
        if ctx.prerun(&format!("C16;{d}"), &format!("C16;{d};fault=none")) {
            let o = f(Fault::None);
            reqs.set(o.window_requests);
            calls.set(o.calls);
        }
        ctx.case(&format!("C16;{d};fault=none"), || {
            let o = f(Fault::None);
            o.c16?;
            Ok(CaseInfo::new(o.window_requests > 0, format!("{}:{}", o.outcome, if o.window_requests > 0 { "allocates" } else { "no-alloc" })))
        });
        if !(small || thorough) {
            return;
        }
        let op = Op::parse(d.split(';').next().unwrap()).unwrap();
        // a panic at every call into caller code
        if op.has_calls() {
            for k in 0..calls.get() {
                ctx.case(&format!("C16;{d};fault=panic@{k}"), || {
                    let o = f(Fault::Panic(k));
                    if ledger::fired() != 1 {
                        return Err("harness: planned panic did not fire exactly once".into());
                    }
                    o.c15.map_err(|e| format!("(element accounting) {e}"))?;
                    o.c16?;
                    Ok(CaseInfo::new(true, "panic:heap-balanced"))
                });
            }
        }
        // every allocation request of the operation failing, each in a child process (Miri cannot spawn processes: the
        // memory-monitor substrate runs the fault-free and the panic cases only)
        if d.contains(";N=1024;") || d.contains(";N=100;") || cfg!(miri) {
            return;
        }
        for k in 0..reqs.get() {
            let desc = format!("C16;{d};fault=alloc@{k}");
            ctx.case(&desc, || {
                let out = Command::new(self_exe())
                    .args(["--mode", "allocchild", "--case", d, "--k", &k.to_string()])
                    .output()
                    .map_err(|e| format!("harness: spawn failed: {e}"))?;
                use std::os::unix::process::ExitStatusExt;
                let err = String::from_utf8_lossy(&out.stderr);
                let so = String::from_utf8_lossy(&out.stdout);
                match out.status.signal() {
                    Some(6) if err.contains("memory allocation of") => Ok(CaseInfo::new(true, "alloc-failure:handle_alloc_error")),
                    Some(s) => Err(format!("allocation request #{k} failed and the process died with signal {s} without going through the allocation-error path; stderr: {:?}", err.trim().chars().take(300).collect::<String>())),
                    None => Err(format!("allocation request #{k} failed but the operation carried on (exit {:?}); stdout {:?} stderr {:?}", out.status.code(), so.trim(), err.trim().chars().take(200).collect::<String>())),
                }
            });
        }
    });
}

// ------------------------------------------------------------------------------------------ big arrays

type Big = U1048576;
const BIGN: usize = 1 << 20;

const BIG_CASES: &[&str] = &[
    "default_boxed-u64", "default_boxed-u128", "generate-u64", "generate-u128", "box_arr-type-u64", "box_arr-type-u128", "box_arr-const-u64",
    "from_iter-u64", "from_iter-u128", "try_boxed_from_iter-u64", "try_from_vec-u64", "into_vec-roundtrip-u64",
    // sources whose size hint is not exact (an implementation may not fall back to building on the stack for them)
    "from_iter-filter-u64", "from_iter-from_fn-u64", "from_iter-chain-u64", "try_boxed_from_iter-filter-u64", "try_boxed_from_iter-skip_while-u64",
    // (not here: `Box<GenericArray>::clone`, which goes through `GenericArray::clone` on the stack in std's `Box::clone`, and the
    // boxed `map` / `zip` - C15 names default_boxed, boxed generate, box_arr! and boxed from_iter only)
    "default_boxed-tracked",
];

#[inline(never)]
fn big_default_u64() -> bool {
    let b = GA::<u64, Big>::default_boxed();
    b.len() == BIGN && b[BIGN - 1] == 0
}
#[inline(never)]
fn big_default_u128() -> bool {
    let b = GA::<u128, Big>::default_boxed();
    b.len() == BIGN && b[BIGN - 1] == 0
}
#[inline(never)]
fn big_gen_u64() -> bool {
    let b = <Box<GA<u64, Big>> as GenericSequence<u64>>::generate(|i| i as u64);
    b[0] == 0 && b[BIGN - 1] == (BIGN - 1) as u64 && b[12345] == 12345
}
#[inline(never)]
fn big_gen_u128() -> bool {
    let b = <Box<GA<u128, Big>> as GenericSequence<u128>>::generate(|i| i as u128);
    b[0] == 0 && b[BIGN - 1] == (BIGN - 1) as u128
}
#[inline(never)]
fn big_boxarr_t_u64() -> bool {
    let b = box_arr![7u64; Big];
    b.len() == BIGN && b[BIGN - 1] == 7
}
#[inline(never)]
fn big_boxarr_t_u128() -> bool {
    let b = box_arr![7u128; Big];
    b.len() == BIGN && b[BIGN - 1] == 7
}
#[inline(never)]
fn big_boxarr_c_u64() -> bool {
    let b = box_arr![7u64; 1048576];
    b.len() == BIGN && b[BIGN - 1] == 7
}
#[inline(never)]
fn big_fromiter_u64() -> bool {
    let b: Box<GA<u64, Big>> = (0..BIGN as u64).collect();
    b[BIGN - 1] == (BIGN - 1) as u64
}
#[inline(never)]
fn big_fromiter_u128() -> bool {
    let b: Box<GA<u128, Big>> = (0..BIGN as u128).collect();
    b[BIGN - 1] == (BIGN - 1) as u128
}
#[inline(never)]
fn big_tryboxed_u64() -> bool {
    let b = GA::<u64, Big>::try_boxed_from_iter(0..BIGN as u64).unwrap();
    b[BIGN - 1] == (BIGN - 1) as u64
}
#[inline(never)]
fn big_tryfromvec_u64() -> bool {
    let v: Vec<u64> = (0..BIGN as u64).collect();
    let b = GA::<u64, Big>::try_from_vec(v).unwrap();
    b[BIGN - 1] == (BIGN - 1) as u64
}
#[inline(never)]
fn big_roundtrip_u64() -> bool {
    let b = GA::<u64, Big>::default_boxed();
    let v = b.into_vec();
    let b = GA::<u64, Big>::try_from_vec(v).unwrap();
    let s = b.into_boxed_slice();
    s.len() == BIGN
}

#[inline(never)]
fn big_fromiter_filter() -> bool {
    // (0, Some(n)) hint
    let b: Box<GA<u64, Big>> = (0..BIGN as u64).filter(|_| true).collect();
    b[BIGN - 1] == (BIGN - 1) as u64
}
#[inline(never)]
fn big_fromiter_fromfn() -> bool {
    // (0, None) hint
    let mut i = 0u64;
    let b: Box<GA<u64, Big>> = core::iter::from_fn(|| { i += 1; if i <= BIGN as u64 { Some(i - 1) } else { None } }).collect();
    b[BIGN - 1] == (BIGN - 1) as u64
}
#[inline(never)]
fn big_fromiter_chain() -> bool {
    // lower bound only: an unbounded tail cut by take_while
    let b: Box<GA<u64, Big>> = (0..10u64).chain((10u64..).take_while(|&x| x < BIGN as u64)).collect();
    b[BIGN - 1] == (BIGN - 1) as u64
}
#[inline(never)]
fn big_tryboxed_filter() -> bool {
    let b = GA::<u64, Big>::try_boxed_from_iter((0..BIGN as u64 * 2).filter(|x| x % 2 == 0)).unwrap();
    b[BIGN - 1] == (BIGN as u64 - 1) * 2
}
#[inline(never)]
fn big_tryboxed_skipwhile() -> bool {
    let b = GA::<u64, Big>::try_boxed_from_iter((0..BIGN as u64 + 5).skip_while(|&x| x < 5)).unwrap();
    b[0] == 5 && b[BIGN - 1] == BIGN as u64 + 4
}
#[inline(never)]
fn big_map_box() -> bool {
    let b = GA::<u64, Big>::default_boxed();
    let m = FunctionalSequence::map(b, |x| x + 3);
    m.len() == BIGN && m[BIGN - 1] == 3
}
#[inline(never)]
fn big_zip_box() -> bool {
    let a = GA::<u64, Big>::default_boxed();
    let b = <Box<GA<u64, Big>> as GenericSequence<u64>>::generate(|i| i as u64);
    let z = FunctionalSequence::zip(a, b, |x, y| x + y + 1);
    z[BIGN - 1] == BIGN as u64
}
#[inline(never)]
fn big_clone_box() -> bool {
    let b = <Box<GA<u64, Big>> as GenericSequence<u64>>::generate(|i| i as u64);
    let c = b.clone();
    c[BIGN - 1] == (BIGN - 1) as u64 && *c == *b
}
#[inline(never)]
fn big_default_tracked() -> bool {
    // drop-tracked 128-byte elements: 128 MiB
    elems::reset_all();
    let b = GA::<Tr<31>, Big>::default_boxed();
    let ok = b.len() == BIGN;
    drop(b);
    ok && ledger::check_exact(&[], 0).is_ok()
}

fn child_big(ctx: &Ctx) -> ! {
    let name = ctx.extra.get("case").expect("--case").clone();
    let f: fn() -> bool = match name.as_str() {
        "default_boxed-u64" => big_default_u64,
        "default_boxed-u128" => big_default_u128,
        "generate-u64" => big_gen_u64,
        "generate-u128" => big_gen_u128,
        "box_arr-type-u64" => big_boxarr_t_u64,
        "box_arr-type-u128" => big_boxarr_t_u128,
        "box_arr-const-u64" => big_boxarr_c_u64,
        "from_iter-u64" => big_fromiter_u64,
        "from_iter-u128" => big_fromiter_u128,
        "try_boxed_from_iter-u64" => big_tryboxed_u64,
        "try_from_vec-u64" => big_tryfromvec_u64,
        "into_vec-roundtrip-u64" => big_roundtrip_u64,
        "from_iter-filter-u64" => big_fromiter_filter,
        "from_iter-from_fn-u64" => big_fromiter_fromfn,
        "from_iter-chain-u64" => big_fromiter_chain,
        "try_boxed_from_iter-filter-u64" => big_tryboxed_filter,
        "try_boxed_from_iter-skip_while-u64" => big_tryboxed_skipwhile,
        "map-box-u64" => big_map_box,
        "zip-box-u64" => big_zip_box,
        "clone-box-u64" => big_clone_box,
        "default_boxed-tracked" => big_default_tracked,
        _ => {
            eprintln!("unknown big case");
            std::process::exit(3)
        }
    };
    let h = std::thread::Builder::new().stack_size(256 * 1024).spawn(f).expect("spawn");
    match h.join() {
        Ok(true) => {
            println!("BIG-OK");
            std::process::exit(0)
        }
        Ok(false) => {
            println!("BIG-WRONG-CONTENTS");
            std::process::exit(1)
        }
        Err(_) => {
            println!("BIG-PANIC");
            std::process::exit(1)
        }
    }
}

fn main() {
    let mut ctx = Ctx::from_args();
    // warm up thread-locals and the panic machinery outside any recording
    elems::reset_all();
    let _ = catch(|| std::panic::panic_any(Injected("warmup")));
    match ctx.mode.as_str() {
        "C15" => run_c15(&mut ctx),
        "C16" => run_c16(&mut ctx),
        "allocchild" => child_failalloc(&ctx),
        "bigchild" => child_big(&ctx),
        m => {
            eprintln!("unknown mode {m}");
            std::process::exit(2)
        }
    }
    ctx.finish(json!({}));
}
