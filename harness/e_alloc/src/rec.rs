//! Recording global allocator: every request/release while recording is logged into a fixed
//! static buffer (no allocation inside the allocator); inside the *window* requests are counted
//! and the k-th one can be made to fail.

use std::alloc::{GlobalAlloc, Layout, System};
use std::cell::UnsafeCell;
use std::sync::atomic::{AtomicBool, AtomicUsize, Ordering::*};

#[derive(Clone, Copy, Debug, PartialEq, Eq)]
pub enum Kind {
    Alloc,
    Dealloc,
    /// realloc is logged as the release of the old block and the request of the new one
    ReallocOld,
    ReallocNew,
}

#[derive(Clone, Copy, Debug)]
pub struct Event {
    pub kind: Kind,
    pub ptr: usize,
    pub size: usize,
    pub align: usize,
    pub in_window: bool,
    pub failed: bool,
}

const CAP: usize = 1 << 16;

struct Log {
    ev: UnsafeCell<[Event; CAP]>,
}
unsafe impl Sync for Log {}

static LOG: Log = Log {
    ev: UnsafeCell::new([Event { kind: Kind::Alloc, ptr: 0, size: 0, align: 0, in_window: false, failed: false }; CAP]),
};
static LEN: AtomicUsize = AtomicUsize::new(0);
static RECORDING: AtomicBool = AtomicBool::new(false);
static WINDOW: AtomicBool = AtomicBool::new(false);
static LOCK: AtomicBool = AtomicBool::new(false);
static OVERFLOW: AtomicBool = AtomicBool::new(false);
/// number of requests (alloc + realloc) seen inside the window
static WIN_REQS: AtomicUsize = AtomicUsize::new(0);
/// fail the request with this window index (usize::MAX = never)
static FAIL_AT: AtomicUsize = AtomicUsize::new(usize::MAX);

pub struct Rec;

fn push(e: Event) {
    while LOCK.compare_exchange_weak(false, true, Acquire, Relaxed).is_err() {
        std::hint::spin_loop();
    }
    let n = LEN.load(Relaxed);
    if n < CAP {
        unsafe { (*LOG.ev.get())[n] = e };
        LEN.store(n + 1, Relaxed);
    } else {
        OVERFLOW.store(true, Relaxed);
    }
    LOCK.store(false, Release);
}

fn should_fail() -> bool {
    if !WINDOW.load(Relaxed) {
        return false;
    }
    let k = WIN_REQS.fetch_add(1, Relaxed);
    k == FAIL_AT.load(Relaxed)
}

unsafe impl GlobalAlloc for Rec {
    unsafe fn alloc(&self, l: Layout) -> *mut u8 {
        if !RECORDING.load(Relaxed) {
            return System.alloc(l);
        }
        let fail = should_fail();
        let p = if fail { core::ptr::null_mut() } else { System.alloc(l) };
        push(Event { kind: Kind::Alloc, ptr: p as usize, size: l.size(), align: l.align(), in_window: WINDOW.load(Relaxed), failed: fail });
        p
    }
    unsafe fn alloc_zeroed(&self, l: Layout) -> *mut u8 {
        if !RECORDING.load(Relaxed) {
            return System.alloc_zeroed(l);
        }
        let fail = should_fail();
        let p = if fail { core::ptr::null_mut() } else { System.alloc_zeroed(l) };
        push(Event { kind: Kind::Alloc, ptr: p as usize, size: l.size(), align: l.align(), in_window: WINDOW.load(Relaxed), failed: fail });
        p
    }
    unsafe fn dealloc(&self, p: *mut u8, l: Layout) {
        if RECORDING.load(Relaxed) {
            push(Event { kind: Kind::Dealloc, ptr: p as usize, size: l.size(), align: l.align(), in_window: WINDOW.load(Relaxed), failed: false });
        }
        System.dealloc(p, l)
    }
    unsafe fn realloc(&self, p: *mut u8, l: Layout, new_size: usize) -> *mut u8 {
        if !RECORDING.load(Relaxed) {
            return System.realloc(p, l, new_size);
        }
        let fail = should_fail();
        let w = WINDOW.load(Relaxed);
        let q = if fail { core::ptr::null_mut() } else { System.realloc(p, l, new_size) };
        if !fail {
            push(Event { kind: Kind::ReallocOld, ptr: p as usize, size: l.size(), align: l.align(), in_window: w, failed: false });
        }
        push(Event { kind: Kind::ReallocNew, ptr: q as usize, size: new_size, align: l.align(), in_window: w, failed: fail });
        q
    }
}

/// start recording (clears the log)
pub fn begin(fail_at: Option<usize>) {
    LEN.store(0, Relaxed);
    OVERFLOW.store(false, Relaxed);
    WIN_REQS.store(0, Relaxed);
    FAIL_AT.store(fail_at.unwrap_or(usize::MAX), Relaxed);
    WINDOW.store(false, Relaxed);
    RECORDING.store(true, SeqCst);
}

/// run `f` inside the counting/failing window
pub fn window<R>(f: impl FnOnce() -> R) -> R {
    struct G;
    impl Drop for G {
        fn drop(&mut self) {
            WINDOW.store(false, SeqCst);
        }
    }
    WINDOW.store(true, SeqCst);
    let _g = G;
    f()
}

pub struct Trace {
    pub events: Vec<Event>,
    pub window_requests: usize,
    pub overflow: bool,
}

/// stop recording and return the log
pub fn end() -> Trace {
    RECORDING.store(false, SeqCst);
    WINDOW.store(false, SeqCst);
    let n = LEN.load(Relaxed);
    let events = unsafe { (&(*LOG.ev.get()))[..n].to_vec() };
    Trace { events, window_requests: WIN_REQS.load(Relaxed), overflow: OVERFLOW.load(Relaxed) }
}

impl Trace {
    /// C16 oracle over the whole recorded case: valid requests, matching releases, nothing live.
    pub fn judge(&self) -> Result<(), String> {
        if self.overflow {
            return Err("harness: allocator log overflow".into());
        }
        let mut live: std::collections::HashMap<usize, (usize, usize)> = Default::default();
        for (i, e) in self.events.iter().enumerate() {
            match e.kind {
                Kind::Alloc | Kind::ReallocNew => {
                    if e.size == 0 {
                        return Err(format!("event {i}: the global allocator was asked for a zero-size block (align {})", e.align));
                    }
                    if !e.failed {
                        if live.insert(e.ptr, (e.size, e.align)).is_some() {
                            return Err(format!("harness: event {i}: allocator returned a live address twice"));
                        }
                    }
                }
                Kind::Dealloc | Kind::ReallocOld => match live.remove(&e.ptr) {
                    None => return Err(format!("event {i}: release of a block that is not live ({:#x}, size {}, align {}): double free or foreign pointer", e.ptr, e.size, e.align)),
                    Some((s, a)) => {
                        if (s, a) != (e.size, e.align) {
                            return Err(format!("event {i}: block requested with (size {s}, align {a}) released with (size {}, align {})", e.size, e.align));
                        }
                    }
                },
            }
        }
        if !live.is_empty() {
            let mut v: Vec<_> = live.values().collect();
            v.sort();
            return Err(format!("{} heap block(s) still allocated after every value was dropped: (size, align) = {:?}", live.len(), v));
        }
        Ok(())
    }
    pub fn window_events(&self) -> usize {
        self.events.iter().filter(|e| e.in_window).count()
    }
}
