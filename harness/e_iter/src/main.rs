//! C06 — by-value iterator vs. a double-ended queue: explicit-state BFS over the real
//! `GenericArrayIter`, side by side with `[usize; K]::into_iter()` and a `VecDeque`.
//!
//! A state is the shortest operation history reaching it; a transition rebuilds a fresh real
//! iterator by replaying the history and applies one more operation.  State key:
//! (origin class, physical front index, remaining length).

use generic_array::typenum::Const;
use generic_array::{ConstArrayLength, GenericArray, GenericArrayIter, IntoArrayLength};
use std::cell::Cell;
use std::collections::{BTreeMap, HashSet, VecDeque};
use vcommon::*;

#[derive(Clone, Copy, PartialEq, Eq, Debug, Hash)]
enum Op {
    Next,
    NextBack,
    Nth(usize),
    NthBack(usize),
    Clone,
    Mut(usize),
}

impl Op {
    fn name(&self) -> String {
        let a = |k: usize| if k == usize::MAX { "M".to_string() } else { k.to_string() };
        match *self {
            Op::Next => "N".into(),
            Op::NextBack => "B".into(),
            Op::Nth(k) => format!("n{}", a(k)),
            Op::NthBack(k) => format!("b{}", a(k)),
            Op::Clone => "c".into(),
            Op::Mut(j) => format!("m{j}"),
        }
    }
    fn parse(s: &str) -> Option<Op> {
        let a = |t: &str| if t == "M" { Some(usize::MAX) } else { t.parse().ok() };
        Some(match s {
            "N" => Op::Next,
            "B" => Op::NextBack,
            "c" => Op::Clone,
            _ if s.starts_with('n') => Op::Nth(a(&s[1..])?),
            _ if s.starts_with('b') => Op::NthBack(a(&s[1..])?),
            _ if s.starts_with('m') => Op::Mut(s[1..].parse().ok()?),
            _ => return None,
        })
    }
    fn kind(&self) -> &'static str {
        match self {
            Op::Next => "next",
            Op::NextBack => "next_back",
            Op::Nth(_) => "nth",
            Op::NthBack(_) => "nth_back",
            Op::Clone => "clone",
            Op::Mut(_) => "as_mut_slice",
        }
    }
}

const TERMS: &[&str] = &[
    "fold", "rfold", "count", "last", "collect", "revcollect", "dbg", "dbgalt", "drop", "fused", "clonedrop",
];

/// (origin is a clone, clone taken at len, model front since origin, physical front (information only), len)
type Key = (bool, usize, usize, usize, usize);

struct Sys<E: Elem, const K: usize>
where
    Const<K>: IntoArrayLength,
{
    it: GenericArrayIter<E, ConstArrayLength<K>>,
    /// std reference, over slot numbers
    rf: core::array::IntoIter<usize, K>,
    /// second reference, over slot numbers
    dq: VecDeque<usize>,
    /// current identity stored in each slot
    ids: Vec<u32>,
    is_clone: bool,
    clone_len: usize,
    /// model front index since origin (used for the key when the element is zero-sized)
    mfront: usize,
}

fn probe<E: Elem, const K: usize>(it: &GenericArrayIter<E, ConstArrayLength<K>>) -> usize
where
    Const<K>: IntoArrayLength,
{
    // wrapping: only used to tell states apart, never asserted (an implementation is free to keep its storage elsewhere)
    (it.as_slice().as_ptr() as usize).wrapping_sub(it as *const _ as usize)
}

impl<E: Elem, const K: usize> Sys<E, K>
where
    Const<K>: IntoArrayLength,
{
    fn new() -> Self {
        let arr: [E; K] = core::array::from_fn(|_| E::make());
        let ids: Vec<u32> = arr.iter().map(|e| e.ident()).collect();
        let ga: GenericArray<E, ConstArrayLength<K>> = GenericArray::from_array(arr);
        Sys {
            it: ga.into_iter(),
            rf: core::array::from_fn::<usize, K, _>(|i| i).into_iter(),
            dq: (0..K).collect(),
            ids,
            is_clone: false,
            clone_len: 0,
            mfront: 0,
        }
    }

    fn expected_ids(&self) -> Vec<u32> {
        self.dq.iter().map(|&s| self.ids[s]).collect()
    }

    fn key(&self, base_off: usize) -> Key {
        let sz = core::mem::size_of::<E>();
        let phys = if sz == 0 { 0 } else { probe::<E, K>(&self.it).wrapping_sub(base_off) / sz };
        let cl = if K <= 8 { self.clone_len } else { 0 };
        (self.is_clone, cl, self.mfront, phys, self.it.len())
    }

    fn ledger(&self, held: Option<u32>) -> Result<(), String> {
        let mut ids = self.expected_ids();
        if let Some(h) = held {
            ids.push(h);
        }
        let (live, z) = E::live_of(&ids);
        ledger::check_exact(&live, z)
    }

    /// everything the property says must hold in every state
    fn check_view(&mut self) -> Result<(), String> {
        let want = self.expected_ids();
        let n = want.len();
        if self.rf.len() != n || self.rf.as_slice() != self.dq.iter().copied().collect::<Vec<_>>() {
            return Err(format!("harness: std reference {:?} and deque {:?} disagree", self.rf.as_slice(), self.dq));
        }
        if self.it.len() != n {
            return Err(format!("len() = {}, queue has {}", self.it.len(), n));
        }
        if self.it.size_hint() != (n, Some(n)) {
            return Err(format!("size_hint() = {:?}, queue has {}", self.it.size_hint(), n));
        }
        let got: Vec<u32> = self.it.as_slice().iter().map(|e| e.ident()).collect();
        if got != want {
            return Err(format!("as_slice() lists {got:?}, queue holds {want:?}"));
        }
        let got: Vec<u32> = self.it.as_mut_slice().iter().map(|e| e.ident()).collect();
        if got != want {
            return Err(format!("as_mut_slice() lists {got:?}, queue holds {want:?}"));
        }
        self.ledger(None)
    }

    fn cmp_ret(&self, what: &str, got: Option<E>, a: Option<usize>, b: Option<usize>) -> Result<bool, String> {
        if a != b {
            return Err(format!("harness: std reference returned {a:?}, deque {b:?}"));
        }
        let want = a.map(|s| self.ids[s]);
        let gid = got.as_ref().map(|e| e.ident());
        if gid != want {
            return Err(format!("{what} returned {gid:?}, queue returned {want:?}"));
        }
        // the returned element is now held by the caller: still live
        self.ledger(gid)?;
        let some = got.is_some();
        drop(got);
        Ok(some)
    }

    /// apply one operation to the real iterator and both references; Ok(returned Some?)
    fn apply(&mut self, op: Op) -> Result<bool, String> {
        let len = self.dq.len();
        match op {
            Op::Next => {
                let g = self.it.next();
                let a = self.rf.next();
                let b = self.dq.pop_front();
                if b.is_some() {
                    self.mfront += 1;
                }
                self.cmp_ret("next()", g, a, b)
            }
            Op::NextBack => {
                let g = self.it.next_back();
                let a = self.rf.next_back();
                let b = self.dq.pop_back();
                self.cmp_ret("next_back()", g, a, b)
            }
            Op::Nth(k) => {
                let g = self.it.nth(k);
                let a = self.rf.nth(k);
                let s = k.min(len);
                self.dq.drain(..s);
                let b = self.dq.pop_front();
                self.mfront += s + b.is_some() as usize;
                self.cmp_ret(&format!("nth({k})"), g, a, b)
            }
            Op::NthBack(k) => {
                let g = self.it.nth_back(k);
                let a = self.rf.nth_back(k);
                let s = k.min(len);
                self.dq.truncate(len - s);
                let b = self.dq.pop_back();
                self.cmp_ret(&format!("nth_back({k})"), g, a, b)
            }
            Op::Mut(j) => {
                let slot = self.dq[j];
                let fresh = E::make();
                self.ids[slot] = fresh.ident();
                self.it.as_mut_slice()[j] = fresh;
                Ok(true)
            }
            Op::Clone => {
                let mut c = self.it.clone();
                // the original is undisturbed
                self.check_view_with_clone(&c)?;
                // element j of the clone is a clone of element j of the original
                if c.len() != len {
                    return Err(format!("clone has len {}, original {}", c.len(), len));
                }
                for (j, (ce, oe)) in c.as_slice().iter().zip(self.it.as_slice()).enumerate() {
                    if !ce.is_clone_of(oe) {
                        return Err(format!("clone element {j} ({:?}) is not a clone of original element {j} ({:?})", ce, oe));
                    }
                }
                // continue with the clone; the original is dropped here
                let new_ids: Vec<u32> = c.as_mut_slice().iter().map(|e| e.ident()).collect();
                for (j, &slot) in self.dq.iter().enumerate() {
                    self.ids[slot] = new_ids[j];
                }
                self.it = c;
                self.is_clone = true;
                self.clone_len = len;
                self.mfront = 0;
                Ok(true)
            }
        }
    }

    /// ledger + views of the original while a clone `c` is also alive
    fn check_view_with_clone(&mut self, c: &GenericArrayIter<E, ConstArrayLength<K>>) -> Result<(), String> {
        let want = self.expected_ids();
        let got: Vec<u32> = self.it.as_slice().iter().map(|e| e.ident()).collect();
        if got != want || self.it.len() != want.len() {
            return Err(format!("after clone() the original lists {got:?} (len {}), expected {want:?}", self.it.len()));
        }
        let mut ids = want;
        ids.extend(c.as_slice().iter().map(|e| e.ident()));
        let (live, z) = E::live_of(&ids);
        ledger::check_exact(&live, z).map_err(|e| format!("with original and clone alive: {e}"))
    }

    /// consuming operations evaluated from a state without extending it
    fn terminal(mut self, t: &str) -> Result<String, String> {
        let want = self.expected_ids();
        let n = want.len();
        let nothing_live = |ctx: &str| ledger::check_exact(&[], 0).map_err(|e| format!("after {ctx}: {e}"));
        match t {
            "fold" => {
                let got = self.it.fold(Vec::new(), |mut v, e| {
                    v.push(e.ident());
                    v
                });
                let r: Vec<usize> = self.rf.fold(Vec::new(), |mut v, s| {
                    v.push(s);
                    v
                });
                let rw: Vec<u32> = r.iter().map(|&s| self.ids[s]).collect();
                if got != want || rw != want {
                    return Err(format!("fold visited {got:?}, queue order {want:?}"));
                }
                nothing_live("fold")?;
            }
            "rfold" => {
                let got = self.it.rfold(Vec::new(), |mut v, e| {
                    v.push(e.ident());
                    v
                });
                let mut w = want.clone();
                w.reverse();
                if got != w {
                    return Err(format!("rfold visited {got:?}, queue order reversed {w:?}"));
                }
                nothing_live("rfold")?;
            }
            "count" => {
                let c = self.it.count();
                if c != n || self.rf.count() != n {
                    return Err(format!("count() = {c}, queue has {n}"));
                }
                nothing_live("count")?;
            }
            "last" => {
                let l = self.it.last();
                let r = self.rf.last().map(|s| self.ids[s]);
                let g = l.as_ref().map(|e| e.ident());
                if g != want.last().copied() || g != r {
                    return Err(format!("last() = {g:?}, queue's last {:?}", want.last()));
                }
                let held: Vec<u32> = g.into_iter().collect();
                let (live, z) = E::live_of(&held);
                ledger::check_exact(&live, z).map_err(|e| format!("after last() with the result held: {e}"))?;
                drop(l);
                nothing_live("last")?;
            }
            "collect" => {
                let v: Vec<E> = self.it.collect();
                let got: Vec<u32> = v.iter().map(|e| e.ident()).collect();
                if got != want {
                    return Err(format!("collect gave {got:?}, queue {want:?}"));
                }
                let (live, z) = E::live_of(&got);
                ledger::check_exact(&live, z).map_err(|e| format!("after collect with the Vec held: {e}"))?;
                drop(v);
                nothing_live("collect")?;
            }
            "revcollect" => {
                let v: Vec<E> = self.it.rev().collect();
                let got: Vec<u32> = v.iter().map(|e| e.ident()).collect();
                let mut w = want.clone();
                w.reverse();
                if got != w {
                    return Err(format!("rev().collect gave {got:?}, expected {w:?}"));
                }
                drop(v);
                nothing_live("rev().collect")?;
            }
            "dbg" | "dbgalt" => {
                // "Debug shows exactly the remaining elements": the element renderings found in the output, in order,
                // are those of the remaining elements and of no others. The framing around them (struct name, brackets,
                // indentation under {:#?}) is not pinned by the property and is not compared.
                let (g, each): (String, Vec<String>) = if t == "dbg" {
                    (format!("{:?}", self.it), self.it.as_slice().iter().map(|e| format!("{e:?}")).collect())
                } else {
                    (format!("{:#?}", self.it), self.it.as_slice().iter().map(|e| format!("{e:#?}")).collect())
                };
                let shown = shown_elements::<E>(&g);
                if shown != each {
                    return Err(format!("Debug gave {g:?}, which shows the elements {shown:?}; the remaining elements are {each:?}"));
                }
                self.check_view()?;
                drop(self.it);
                nothing_live("drop")?;
            }
            "drop" => {
                drop(self.it);
                nothing_live("dropping the iterator")?;
            }
            "fused" => {
                while let Some(e) = self.it.next() {
                    drop(e);
                }
                for round in 0..3 {
                    let r = [
                        self.it.next().is_some(),
                        self.it.next_back().is_some(),
                        self.it.nth(0).is_some(),
                        self.it.nth_back(0).is_some(),
                        self.it.nth(5).is_some(),
                        self.it.nth_back(usize::MAX).is_some(),
                    ];
                    if r.iter().any(|&x| x) {
                        return Err(format!("exhausted iterator yielded again (round {round}): {r:?}"));
                    }
                    if self.it.len() != 0 || !self.it.as_slice().is_empty() || self.it.size_hint() != (0, Some(0)) {
                        return Err(format!("exhausted iterator reports len {}", self.it.len()));
                    }
                }
                nothing_live("exhaustion")?;
                drop(self.it);
                nothing_live("drop after exhaustion")?;
            }
            "clonedrop" => {
                // dropping a clone does not disturb the original
                let c = self.it.clone();
                drop(c);
                self.check_view().map_err(|e| format!("after cloning and dropping the clone: {e}"))?;
                // a clone outlives its original
                let c = self.it.clone();
                drop(self.it);
                let v: Vec<E> = c.collect();
                if v.len() != n {
                    return Err(format!("clone yielded {} elements after the original was dropped, expected {n}", v.len()));
                }
                let ids: Vec<u32> = v.iter().map(|e| e.ident()).collect();
                let (live, z) = E::live_of(&ids);
                ledger::check_exact(&live, z).map_err(|e| format!("clone's elements after the original was dropped: {e}"))?;
                drop(v);
                nothing_live("clone + drop")?;
            }
            _ if t.starts_with("pm:") => {
                // methods the crate currently leaves to std's provided implementations (an override of any of them is
                // an operation of this iterator like the others): same call on std's array iterator, same answer,
                // same remaining elements, ledger balanced. `j`: the j-th item visited matches / breaks.
                let spec = &t[3..];
                let (name, j) = match spec.split_once('=') {
                    Some((a, b)) => (a, b.parse::<usize>().map_err(|_| "harness: bad pm index".to_string())?),
                    None => (spec, 0),
                };
                let (mut c, mut c2) = (0usize, 0usize);
                let ids = self.ids.clone();
                let idof = |s: usize| ids[s];
                // by-reference methods: result (element or index), then the iterator goes on
                let mut by_ref = true;
                let mut got_el: Option<E> = None;
                let mut want_el: Option<usize> = None;
                let mut got_ix: Option<usize> = None;
                let mut want_ix: Option<usize> = None;
                match name {
                    "find" => {
                        got_el = self.it.find(|_| { c += 1; c == j + 1 });
                        want_el = self.rf.find(|_| { c2 += 1; c2 == j + 1 });
                    }
                    "rfind" => {
                        got_el = self.it.rfind(|_| { c += 1; c == j + 1 });
                        want_el = self.rf.rfind(|_| { c2 += 1; c2 == j + 1 });
                    }
                    "position" => {
                        got_ix = self.it.position(|e| { drop(e); c += 1; c == j + 1 });
                        want_ix = self.rf.position(|_| { c2 += 1; c2 == j + 1 });
                    }
                    "rposition" => {
                        got_ix = self.it.rposition(|e| { drop(e); c += 1; c == j + 1 });
                        want_ix = self.rf.rposition(|_| { c2 += 1; c2 == j + 1 });
                    }
                    "any" => {
                        got_ix = Some(self.it.any(|e| { drop(e); c += 1; c == j + 1 }) as usize);
                        want_ix = Some(self.rf.any(|_| { c2 += 1; c2 == j + 1 }) as usize);
                    }
                    "all" => {
                        got_ix = Some(self.it.all(|e| { drop(e); c += 1; c != j + 1 }) as usize);
                        want_ix = Some(self.rf.all(|_| { c2 += 1; c2 != j + 1 }) as usize);
                    }
                    "try_fold" => {
                        got_ix = self.it.try_fold(0usize, |acc, e| { drop(e); if acc == j { None } else { Some(acc + 1) } });
                        want_ix = self.rf.try_fold(0usize, |acc, _| if acc == j { None } else { Some(acc + 1) });
                    }
                    "try_rfold" => {
                        got_ix = self.it.try_rfold(0usize, |acc, e| { drop(e); if acc == j { None } else { Some(acc + 1) } });
                        want_ix = self.rf.try_rfold(0usize, |acc, _| if acc == j { None } else { Some(acc + 1) });
                    }
                    "take" => {
                        let g: Vec<u32> = self.it.by_ref().take(j).map(|e| e.ident()).collect();
                        let w: Vec<u32> = self.rf.by_ref().take(j).map(idof).collect();
                        if g != w {
                            return Err(format!("by_ref().take({j}) yielded {g:?}, expected {w:?}"));
                        }
                    }
                    "rev_nth" => {
                        got_el = self.it.by_ref().rev().nth(j);
                        want_el = self.rf.by_ref().rev().nth(j);
                    }
                    "for_break" => {
                        // a `for` loop left early
                        for e in &mut self.it {
                            c += 1;
                            drop(e);
                            if c == j + 1 {
                                break;
                            }
                        }
                        for _ in &mut self.rf {
                            c2 += 1;
                            if c2 == j + 1 {
                                break;
                            }
                        }
                    }
                    _ => by_ref = false,
                }
                if by_ref {
                    let g = got_el.as_ref().map(|e| e.ident());
                    let w = want_el.map(idof);
                    if g != w || got_ix != want_ix {
                        return Err(format!("{name}({j}) returned {:?}, std's array iterator returns {:?}", (g, got_ix), (w, want_ix)));
                    }
                    self.dq = self.rf.as_slice().iter().copied().collect();
                    self.ledger(g).map_err(|e| format!("after {name}({j}) with its result held: {e}"))?;
                    drop(got_el);
                    self.check_view().map_err(|e| format!("after {name}({j}): {e}"))?;
                    drop(self.it);
                    nothing_live("dropping the iterator afterwards")?;
                    return Ok(format!("T:pm:{name}:{}", if n == 0 { "empty" } else { "nonempty" }));
                }
                // consuming methods: result compared, then nothing may be left
                let (g, w): (Vec<u32>, Vec<u32>) = match name {
                    "reduce" => (
                        self.it.reduce(|a, b| { drop(a); b }).map(|e| e.ident()).into_iter().collect(),
                        self.rf.reduce(|_, b| b).map(idof).into_iter().collect(),
                    ),
                    "max_by_key" => (
                        self.it.max_by_key(|e| e.ident()).map(|e| e.ident()).into_iter().collect(),
                        self.rf.max_by_key(|&s| idof(s)).map(idof).into_iter().collect(),
                    ),
                    "min_by_key" => (
                        self.it.min_by_key(|e| e.ident()).map(|e| e.ident()).into_iter().collect(),
                        self.rf.min_by_key(|&s| idof(s)).map(idof).into_iter().collect(),
                    ),
                    "partition" => {
                        let (x, y): (Vec<E>, Vec<E>) = self.it.partition(|_| { c += 1; c % 2 == 0 });
                        let (xs, ys): (Vec<usize>, Vec<usize>) = self.rf.partition(|_| { c2 += 1; c2 % 2 == 0 });
                        let mut g: Vec<u32> = x.iter().map(|e| e.ident()).collect();
                        g.push(u32::MAX);
                        g.extend(y.iter().map(|e| e.ident()));
                        let mut w: Vec<u32> = xs.into_iter().map(idof).collect();
                        w.push(u32::MAX);
                        w.extend(ys.into_iter().map(idof));
                        (g, w)
                    }
                    "step_by" => (self.it.step_by(j + 1).map(|e| e.ident()).collect(), self.rf.step_by(j + 1).map(idof).collect()),
                    "skip" => (self.it.skip(j).map(|e| e.ident()).collect(), self.rf.skip(j).map(idof).collect()),
                    "skip_rev" => (self.it.skip(j).rev().map(|e| e.ident()).collect(), self.rf.skip(j).rev().map(idof).collect()),
                    "skip_while" => (
                        self.it.skip_while(|_| { c += 1; c <= j }).map(|e| e.ident()).collect(),
                        self.rf.skip_while(|_| { c2 += 1; c2 <= j }).map(idof).collect(),
                    ),
                    "take_while" => (
                        self.it.take_while(|_| { c += 1; c <= j }).map(|e| e.ident()).collect(),
                        self.rf.take_while(|_| { c2 += 1; c2 <= j }).map(idof).collect(),
                    ),
                    "chain_rev" => (
                        self.it.rev().chain(core::iter::empty()).map(|e| e.ident()).collect(),
                        self.rf.rev().chain(core::iter::empty()).map(idof).collect(),
                    ),
                    "unzip" => {
                        let (x, y): (Vec<u32>, Vec<E>) = self.it.map(|e| (e.ident(), e)).unzip();
                        let w: Vec<u32> = self.rf.map(idof).collect();
                        let yy: Vec<u32> = y.iter().map(|e| e.ident()).collect();
                        if x != yy {
                            return Err(format!("unzip gave {x:?} and {yy:?}"));
                        }
                        (x, w)
                    }
                    _ => return Err(format!("harness: unknown provided method {name}")),
                };
                if g != w {
                    return Err(format!("{name}({j}) gave {g:?}, std's array iterator gives {w:?}"));
                }
                nothing_live(name)?;
                return Ok(format!("T:pm:{name}:{}", if n == 0 { "empty" } else { "nonempty" }));
            }
            _ if t.starts_with("clonefrom=") => {
                // `Clone::clone_from` into an iterator that is itself part-consumed (front f, back b): afterwards the
                // destination is a clone of the source - same remaining elements - and the source is undisturbed
                let fb: Vec<usize> = t["clonefrom=".len()..].split('.').filter_map(|x| x.parse().ok()).collect();
                let (f, b) = (fb[0], fb[1]);
                let arr: [E; K] = core::array::from_fn(|_| E::make());
                let mut dst = GenericArray::<E, ConstArrayLength<K>>::from_array(arr).into_iter();
                for _ in 0..f {
                    drop(dst.next());
                }
                for _ in 0..b {
                    drop(dst.next_back());
                }
                dst.clone_from(&self.it);
                // the destination's old elements are gone, the source's are all there, the clones are alive
                self.check_view_with_clone(&dst).map_err(|e| format!("after clone_from into an iterator at front {f}, back {b}: {e}"))?;
                if dst.len() != n || dst.as_slice().len() != n {
                    return Err(format!("after clone_from the destination has len {} / lists {}, the source has {n}", dst.len(), dst.as_slice().len()));
                }
                for (j, (c, o)) in dst.as_slice().iter().zip(self.it.as_slice()).enumerate() {
                    if !c.is_clone_of(o) {
                        return Err(format!("after clone_from, remaining element {j} of the destination is not a clone of the source's"));
                    }
                }
                drop(self.it);
                let v: Vec<E> = dst.collect();
                let ids: Vec<u32> = v.iter().map(|e| e.ident()).collect();
                if v.len() != n {
                    return Err(format!("the destination of clone_from yielded {} elements, expected {n}", v.len()));
                }
                let (live, z) = E::live_of(&ids);
                ledger::check_exact(&live, z).map_err(|e| format!("elements yielded by the destination of clone_from: {e}"))?;
                drop(v);
                nothing_live("clone_from + drop")?;
                return Ok(format!("T:clonefrom:{}", if n == 0 { "empty" } else { "nonempty" }));
            }
            _ if t.starts_with("foldpanic=") || t.starts_with("rfoldpanic=") => {
                // the folding closure unwinds at its k-th call: whatever was consumed by then and whatever was not
                // must not overlap — every element is released exactly once (by the closure, by the unwinding or by
                // the iterator's own clean-up)
                let rev = t.starts_with('r');
                let k: u64 = t.split('=').nth(1).and_then(|x| x.parse().ok()).ok_or("harness: bad foldpanic index")?;
                ledger::set_call_bomb(Some(k));
                let it = self.it;
                let r = vcommon::catch(move || {
                    let f = |acc: usize, e: E| {
                        ledger::tick("fold-closure");
                        drop(e);
                        acc + 1
                    };
                    if rev {
                        it.rfold(0usize, f)
                    } else {
                        it.fold(0usize, f)
                    }
                });
                ledger::set_call_bomb(None);
                match r {
                    Err(vcommon::PanicKind::Injected(_)) => {}
                    Ok(c) => return Err(format!("harness: planned panic at call {k} of {n} never fired (fold returned {c})")),
                    Err(vcommon::PanicKind::Other(m)) => return Err(format!("the closure's panic was replaced by: {m}")),
                }
                nothing_live("a fold whose closure unwound")?;
                return Ok(format!("T:{}:unwound", if rev { "rfoldpanic" } else { "foldpanic" }));
            }
            _ => return Err(format!("harness: unknown terminal {t}")),
        }
        Ok(format!("T:{t}:{}", if n == 0 { "empty" } else { "nonempty" }))
    }
}

/// the element renderings that occur in a Debug output, in order: `#<digits>` for tracked elements, `Z` for the
/// zero-sized tracked element, maximal digit runs for plain integers
fn shown_elements<E: Elem>(out: &str) -> Vec<String> {
    let b = out.as_bytes();
    let mut v = Vec::new();
    let mut i = 0;
    while i < b.len() {
        if E::ZST {
            if b[i] == b'Z' {
                v.push("Z".to_string());
            }
            i += 1;
        } else if E::TRACKED {
            // `#<digits>`, or `B#<digits>` for the heap-owning element
            let st = if b[i] == b'B' && i + 2 < b.len() && b[i + 1] == b'#' && b[i + 2].is_ascii_digit() { i + 1 } else { i };
            if b[st] == b'#' && st + 1 < b.len() && b[st + 1].is_ascii_digit() {
                let mut j = st + 1;
                while j < b.len() && b[j].is_ascii_digit() {
                    j += 1;
                }
                v.push(out[i..j].to_string());
                i = j;
            } else {
                i += 1;
            }
        } else if b[i].is_ascii_digit() {
            let mut j = i;
            while j < b.len() && b[j].is_ascii_digit() {
                j += 1;
            }
            v.push(out[i..j].to_string());
            i = j;
        } else {
            i += 1;
        }
    }
    v
}

fn build<E: Elem, const K: usize>(hist: &[Op]) -> Result<Sys<E, K>, String>
where
    Const<K>: IntoArrayLength,
{
    let mut s = Sys::<E, K>::new();
    s.check_view().map_err(|e| format!("fresh iterator: {e}"))?;
    for (i, &op) in hist.iter().enumerate() {
        s.apply(op).map_err(|e| format!("while replaying step {i} ({}): {e}", op.name()))?;
        s.check_view().map_err(|e| format!("while replaying step {i} ({}): {e}", op.name()))?;
    }
    Ok(s)
}

fn ops_for(len: usize, lattice: bool) -> Vec<Op> {
    let mut v = vec![Op::Next, Op::NextBack];
    let args: Vec<usize> = if lattice {
        let mut a = vec![0, 1, 2, len.saturating_sub(1), len, len + 1, isize::MAX as usize + 1, usize::MAX - 1, usize::MAX];
        a.sort();
        a.dedup();
        a
    } else {
        let mut a: Vec<usize> = (0..=len + 2).collect();
        // arguments at which `index + n` (or a pointer offset of n elements) wraps: only after front consumption, and
        // on a fast path only for the element types that take it
        a.extend([isize::MAX as usize + 1, usize::MAX - 1, usize::MAX]);
        a
    };
    for &k in &args {
        v.push(Op::Nth(k));
    }
    for &k in &args {
        v.push(Op::NthBack(k));
    }
    v.push(Op::Clone);
    if lattice {
        if len > 0 {
            v.push(Op::Mut(0));
            if len > 1 {
                v.push(Op::Mut(len - 1));
            }
        }
    } else {
        for j in 0..len {
            v.push(Op::Mut(j));
        }
    }
    v
}

fn hist_str(h: &[Op]) -> String {
    if h.is_empty() {
        "-".into()
    } else {
        h.iter().map(|o| o.name()).collect::<Vec<_>>().join(".")
    }
}

#[derive(Default)]
struct Totals {
    states: u64,
    transitions: u64,
    max_depth: usize,
    op_post: u64,
    per_n: BTreeMap<String, serde_json::Value>,
    units: u64,
}

fn run_transition<E: Elem, const K: usize>(hist: &[Op], op: Op, base_off: usize, out: &Cell<Option<(Key, bool)>>) -> Result<CaseInfo, String>
where
    Const<K>: IntoArrayLength,
{
    let mut s = build::<E, K>(hist)?;
    let len_before = s.dq.len();
    let some = s.apply(op)?;
    s.check_view()?;
    let key = s.key(base_off);
    // quiescence from the post-state
    drop(s.it);
    ledger::check_exact(&[], 0).map_err(|e| format!("after dropping the iterator in the post-state: {e}"))?;
    out.set(Some((key, some)));
    Ok(CaseInfo::new(
        K > 0 && len_before > 0,
        format!("{}:{}:{}", op.kind(), if some { "some" } else { "none" }, if key.4 == 0 { "to-empty" } else { "to-nonempty" }),
    ))
}

fn explore<E: Elem, const K: usize>(ctx: &mut Ctx, tot: &mut Totals, unit: &mut usize, lattice: bool, stateless_depth: usize)
where
    Const<K>: IntoArrayLength,
{
    if let Some(m) = ctx.extra.get("maxn").and_then(|s| s.parse::<usize>().ok()) {
        if K > m && ctx.only.is_none() {
            return;
        }
    }
    // the stateless no-deduplication cross-check is a vacuity guard of the explorer, not something a memory monitor needs to
    // watch: thousands of replayed sequences cost minutes under Miri
    let stateless_depth = if cfg!(miri) { 0 } else { stateless_depth };
    let my = *unit;
    *unit += 1;
    let prefix = format!("C06;K={K};E={};", E::NAME);
    let base_off = {
        elems::reset_all();
        let s = Sys::<E, K>::new();
        probe::<E, K>(&s.it)
    };
    if let Some(only) = ctx.only.clone() {
        // single-case replay
        if !only.starts_with(&prefix) {
            return;
        }
        let rest = &only[prefix.len()..];
        let rest: &str = rest;
        let (h, o) = rest.split_once(';').unwrap_or((rest, ""));
        let h = h.strip_prefix("h=").unwrap_or("-");
        let hist: Vec<Op> = if h == "-" { vec![] } else { h.split('.').map(|x| Op::parse(x).expect("bad op in descriptor")).collect() };
        if let Some(sq) = rest.strip_prefix("seq=") {
            let hist: Vec<Op> = if sq == "-" { vec![] } else { sq.split('.').map(|x| Op::parse(x).expect("bad op in descriptor")).collect() };
            ctx.case_unsharded(&only, || {
                let s = build::<E, K>(&hist)?;
                drop(s.it);
                ledger::check_exact(&[], 0)?;
                Ok(CaseInfo::new(true, "seq"))
            });
            return;
        }
        if let Some(t) = o.strip_prefix("term=") {
            let t = t.to_string();
            ctx.case_unsharded(&only, || {
                let s = build::<E, K>(&hist)?;
                let o = s.terminal(&t)?;
                Ok(CaseInfo::new(true, o))
            });
        } else if let Some(opn) = o.strip_prefix("op=") {
            let op = Op::parse(opn).expect("bad op");
            let cell = Cell::new(None);
            ctx.case_unsharded(&only, || run_transition::<E, K>(&hist, op, base_off, &cell));
        }
        return;
    }
    if !ctx.owns_unit(my) || ctx.too_many_violations() {
        return;
    }
    let mut seen: HashSet<Key> = HashSet::new();
    let mut depth_of: std::collections::HashMap<Key, usize> = Default::default();
    let mut queue: VecDeque<Vec<Op>> = VecDeque::new();
    let mut op_post: HashSet<(String, Key)> = HashSet::new();
    let k0 = {
        elems::reset_all();
        Sys::<E, K>::new().key(base_off)
    };
    seen.insert(k0);
    depth_of.insert(k0, 0);
    queue.push_back(vec![]);
    let mut transitions = 0u64;
    let mut max_depth = 0usize;
    let viol_before = ctx.viol_count;
    while let Some(hist) = queue.pop_front() {
        if ctx.too_many_violations() {
            ctx.notes.push(format!("{prefix} stopped early: violation cap reached"));
            break;
        }
        max_depth = max_depth.max(hist.len());
        let hs = hist_str(&hist);
        let len = {
            elems::reset_all();
            match vcommon::catch(|| build::<E, K>(&hist).map(|s| s.dq.len())) {
                Ok(Ok(l)) => l,
                _ => continue, // the failing step was already reported when this history was first run
            }
        };
        for t in TERMS {
            ctx.case_unsharded(&format!("{prefix}h={hs};term={t}"), || {
                let s = build::<E, K>(&hist)?;
                let o = s.terminal(t)?;
                Ok(CaseInfo::new(K > 0 && len > 0, o))
            });
        }
        {
            // provided methods (see `pm:` in `terminal`)
            let js: Vec<usize> = if len <= 8 { (0..=len + 1).collect() } else { let mut v = vec![0, 1, len / 2, len - 1, len, len + 1]; v.sort(); v.dedup(); v };
            let mut pms: Vec<String> = ["reduce", "max_by_key", "min_by_key", "partition", "chain_rev", "unzip"].iter().map(|m| format!("pm:{m}")).collect();
            for &j in &js {
                for m in ["find", "rfind", "position", "rposition", "any", "all", "try_fold", "try_rfold", "take", "rev_nth", "for_break", "step_by", "skip", "skip_rev", "skip_while", "take_while"] {
                    pms.push(format!("pm:{m}={j}"));
                }
            }
            for t in pms {
                ctx.case_unsharded(&format!("{prefix}h={hs};term={t}"), || {
                    let s = build::<E, K>(&hist)?;
                    let o = s.terminal(&t)?;
                    Ok(CaseInfo::new(K > 0 && len > 0, o))
                });
            }
        }
        {
            // destinations of clone_from: every (front, back) position for K <= 4, a position lattice otherwise
            let mut fbs: Vec<(usize, usize)> = Vec::new();
            if K <= 4 {
                for f in 0..=K {
                    for b in 0..=K - f {
                        fbs.push((f, b));
                    }
                }
            } else {
                fbs.extend([(0, 0), (1, 0), (0, 1), (1, 1), (K / 2, 0), (K, 0), (0, K), (K - 1, 1), (2, K - 3)]);
            }
            for (f, b) in fbs {
                let t = format!("clonefrom={f}.{b}");
                ctx.case_unsharded(&format!("{prefix}h={hs};term={t}"), || {
                    let s = build::<E, K>(&hist)?;
                    let o = s.terminal(&t)?;
                    Ok(CaseInfo::new(K > 0, o))
                });
            }
        }
        if len > 0 {
            let mut ks = vec![0, len / 2, len - 1];
            if len <= 8 {
                ks = (0..len).collect();
            }
            ks.dedup();
            for k in ks {
                for t in [format!("foldpanic={k}"), format!("rfoldpanic={k}")] {
                    ctx.case_unsharded(&format!("{prefix}h={hs};term={t}"), || {
                        let s = build::<E, K>(&hist)?;
                        let o = s.terminal(&t)?;
                        Ok(CaseInfo::new(true, o))
                    });
                }
            }
        }
        for op in ops_for(len, lattice) {
            let cell = Cell::new(None);
            ctx.case_unsharded(&format!("{prefix}h={hs};op={}", op.name()), || run_transition::<E, K>(&hist, op, base_off, &cell));
            if let Some((key, _some)) = cell.get() {
                transitions += 1;
                op_post.insert((op.name(), key));
                if seen.insert(key) {
                    let mut h2 = hist.clone();
                    h2.push(op);
                    depth_of.insert(key, h2.len());
                    queue.push_back(h2);
                }
            }
        }
    }
    // closed-form vacuity guard: positions reachable from a fresh iterator
    let fresh_states = seen.iter().filter(|k| !k.0).count();
    let expect_fresh = (K + 1) * (K + 2) / 2;
    if fresh_states < expect_fresh && ctx.viol_count == viol_before && !ctx.capped {
        ctx.machinery_errors.push(format!("{prefix} reached {fresh_states} fresh-origin positions, closed form says {expect_fresh}"));
    }
    // stateless cross-check: every sequence up to the given depth, no deduplication; each full
    // sequence is a case of its own (a failing replay is a violation the BFS's deduplication missed)
    let mut seq_keys: HashSet<Key> = HashSet::new();
    let mut seqs = 0u64;
    if stateless_depth > 0 && ctx.viol_count == viol_before {
        fn rec<E: Elem, const K: usize>(ctx: &mut Ctx, prefix: &str, h: &mut Vec<Op>, depth: usize, base_off: usize, keys: &mut HashSet<Key>, seqs: &mut u64)
        where
            Const<K>: IntoArrayLength,
        {
            let cell = Cell::new(None);
            ctx.case_unsharded(&format!("{prefix}seq={}", hist_str(h)), || {
                let s = build::<E, K>(h)?;
                cell.set(Some((s.key(base_off), s.dq.len())));
                drop(s.it);
                ledger::check_exact(&[], 0)?;
                Ok(CaseInfo::new(K > 0 && !h.is_empty(), "seq"))
            });
            let Some((key, len)) = cell.get() else { return };
            *seqs += 1;
            keys.insert(key);
            if depth == 0 || ctx.too_many_violations() {
                return;
            }
            for op in ops_for(len, false) {
                h.push(op);
                rec::<E, K>(ctx, prefix, h, depth - 1, base_off, keys, seqs);
                h.pop();
            }
        }
        rec::<E, K>(ctx, &prefix, &mut Vec::new(), stateless_depth, base_off, &mut seq_keys, &mut seqs);
        let bfs_shallow: HashSet<Key> = depth_of.iter().filter(|(_, &d)| d <= stateless_depth).map(|(k, _)| *k).collect();
        if ctx.viol_count == viol_before && (!seq_keys.is_subset(&seen) || !bfs_shallow.is_subset(&seq_keys)) {
            ctx.machinery_errors.push(format!(
                "{prefix} stateless enumeration (depth {stateless_depth}) reached {} keys, BFS has {} at that depth / {} overall: sets disagree",
                seq_keys.len(),
                bfs_shallow.len(),
                seen.len()
            ));
        }
        ctx.count("stateless_sequences", seqs);
    }
    tot.states += seen.len() as u64;
    tot.transitions += transitions;
    tot.max_depth = tot.max_depth.max(max_depth);
    tot.op_post += op_post.len() as u64;
    tot.units += 1;
    tot.per_n.insert(
        format!("K={K},E={}", E::NAME),
        json!({"states": seen.len(), "fresh_origin_states": fresh_states, "closed_form_fresh": expect_fresh,
               "transitions": transitions, "max_depth": max_depth, "distinct_op_poststate": op_post.len(),
               "stateless_sequences": seqs, "stateless_keys": seq_keys.len(), "arg_lattice": lattice}),
    );
}

macro_rules! units {
    ($ctx:expr, $tot:expr, $unit:expr, $lat:expr, $sd:expr, [$($e:ty),*], $ks:tt) => {
        $( units!(@k $ctx, $tot, $unit, $lat, $sd, $e, $ks); )*
    };
    (@k $ctx:expr, $tot:expr, $unit:expr, $lat:expr, $sd:expr, $e:ty, [$($k:literal),*]) => {
        $( explore::<$e, $k>($ctx, $tot, $unit, $lat, if $k <= 4 { $sd } else { 0 }); )*
    };
}

fn main() {
    let mut ctx = Ctx::from_args();
    let mut tot = Totals::default();
    let mut unit = 0usize;
    let thorough = ctx.thorough() || ctx.only.is_some();
    // quick: complete graphs for every K in 0..=8, three element sizes (0, 4, 24 bytes)
    units!(&mut ctx, &mut tot, &mut unit, false, 3, [Tr<0>, TrZ, Tr<5>], [0, 1, 2, 3, 4, 5, 6, 7, 8]);
    units!(&mut ctx, &mut tot, &mut unit, false, 0, [Tr<0>, TrZ], [9, 10, 11, 12]);
    // heap-owning elements (a Box payload): a typed copy of a slot whose element was already dropped is then a dangling Box,
    // which the memory-monitor substrates can see (for plain integers every bit pattern is valid)
    units!(&mut ctx, &mut tot, &mut unit, false, 0, [TrB], [0, 1, 2, 3, 4]);
    // elements without drop glue (a `needs_drop` fast path is taken by these only)
    units!(&mut ctx, &mut tot, &mut unit, false, 4, [u32], [0, 1, 2, 3, 4]);
    if thorough {
        units!(&mut ctx, &mut tot, &mut unit, false, 0, [Tr<0>, TrZ], [13, 14, 15, 16, 17]);
        units!(&mut ctx, &mut tot, &mut unit, false, 0, [Tr<0>], [31, 32, 33]);
        units!(&mut ctx, &mut tot, &mut unit, true, 0, [Tr<0>, TrZ, u32], [64, 100]);
        units!(&mut ctx, &mut tot, &mut unit, false, 0, [u32], [5, 6, 7, 8]);
        // complete position graphs of larger arrays (argument lattice): optimised build only (about 100 s per unit there,
        // the better part of an hour without optimisation)
        if !cfg!(debug_assertions) || ctx.only.is_some() {
            units!(&mut ctx, &mut tot, &mut unit, true, 0, [Tr<0>, TrZ], [255, 256, 257]);
        }
        // (K = 1024 would be 17 M transitions of 1024-element replays, about 1.5 h on one core: not run)
    }
    let extra = json!({
        "states": tot.states, "transitions": tot.transitions, "max_depth": tot.max_depth,
        "distinct_op_poststate": tot.op_post, "units": tot.units, "per_unit": tot.per_n,
    });
    ctx.finish(extra);
}
