//! C09 (sequence operations against Vec).  A crate of its own so that it also builds quickly
//! under AddressSanitizer: an over-read that is then discarded produces the right answer and is
//! visible only to a memory monitor.

use generic_array::sequence::*;
use generic_array::typenum::*;
use generic_array::{ArrayLength, GenericArray};
use vcommon::*;

mod c09;

pub type GA<T, N> = GenericArray<T, N>;

pub fn mk<E: Elem, N: ArrayLength>() -> GA<E, N> {
    let mut a = GA::<E, N>::uninit();
    for s in a.iter_mut() {
        s.write(E::make());
    }
    unsafe { GA::assume_init(a) }
}
pub fn ids_of<E: Elem>(s: &[E]) -> Vec<u32> {
    s.iter().map(|e| e.ident()).collect()
}
pub fn exact<E: Elem>(ids: &[u32]) -> Result<(), String> {
    let (live, z) = E::live_of(ids);
    ledger::check_exact(&live, z)
}

fn main() {
    let mut ctx = Ctx::from_args();
    match ctx.mode.as_str() {
        "C09" => c09::run(&mut ctx),
        m => {
            eprintln!("unknown mode {m}");
            std::process::exit(2)
        }
    }
    ctx.finish(json!({}));
}
