//! C09 (sequence operations against Vec).  A crate of its own so that it also builds quickly
//! under AddressSanitizer: an over-read that is then discarded produces the right answer and is
//! visible only to a memory monitor.

use generic_array::sequence::*;
use generic_array::typenum::*;
use generic_array::{ArrayLength, GenericArray};
use vcommon::*;

mod c09;

pub type GA<T, N> = GenericArray<T, N>;

pub fn mk<E: Elem, N: ArrayLength>() -> GA<E, N> {
    let mut a = GA::<E, N>::uninit();
    for s in a.iter_mut() {
        s.write(E::make());
    }
    unsafe { GA::assume_init(a) }
}
pub fn ids_of<E: Elem>(s: &[E]) -> Vec<u32> {
    s.iter().map(|e| e.ident()).collect()
}
pub fn exact<E: Elem>(ids: &[u32]) -> Result<(), String> {
    let (live, z) = E::live_of(ids);
    ledger::check_exact(&live, z)
}

static MAXN: std::sync::atomic::AtomicUsize = std::sync::atomic::AtomicUsize::new(usize::MAX);
/// reduced-bound runs (memory-monitor substrates): lengths above --maxn are skipped
pub fn maxn() -> usize {
    MAXN.load(std::sync::atomic::Ordering::Relaxed)
}

fn main() {
    let mut ctx = Ctx::from_args();
    if ctx.only.is_none() {
        if let Some(m) = ctx.extra.get("maxn").and_then(|s| s.parse::<usize>().ok()) {
            MAXN.store(m, std::sync::atomic::Ordering::Relaxed);
        }
    }
    match ctx.mode.as_str() {
        "C09" => c09::run(&mut ctx),
        m => {
            eprintln!("unknown mode {m}");
            std::process::exit(2)
        }
    }
    ctx.finish(json!({}));
}
